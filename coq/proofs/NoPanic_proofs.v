(* C20: no panic in the stream glue.  An invariant on the output cursor (where pending bytes
   live, how much room there is behind them) is preserved by every step of the three loops
   and by take_output, and under it no step of the model can reach a Panic outcome - for ALL
   back-end answers within their size contract (answer_ok + 4 GiB bound). *)
From Coq Require Import NArith ZArith List Bool Lia.
From V Require Import lib.Words model.Stream proofs.Stream_proofs proofs.Dist_proofs.
Import ListNotations.
Open Scope N_scope.

(* ---- list facts ---- *)
Lemma lenN_nil : lenN (@nil N) = 0. Proof. reflexivity. Qed.
Lemma lenN_cons (a : N) l : lenN (a :: l) = lenN l + 1.
Proof. unfold lenN. cbn [length]. lia. Qed.

Lemma lenN_skipN n (l : list N) : lenN (skipN n l) = lenN l - n.
Proof. unfold lenN, skipN. rewrite skipn_length. lia. Qed.

Lemma lenN_set_at : forall (l : list N) i v, lenN (set_at l i v) = N.max (lenN l) (N.of_nat i + 1).
Proof.
  intros l i. revert l. induction i as [|i IH]; intros l v.
  - destruct l; cbn [set_at]; rewrite ?lenN_cons, ?lenN_nil; lia.
  - destruct l as [|x t]; cbn [set_at]; rewrite !lenN_cons, IH, ?lenN_nil; lia.
Qed.

Lemma lenN_write_list : forall bs (l : list N) i,
  lenN l <= lenN (write_list l i bs) /\ (bs <> [] -> N.of_nat i + lenN bs <= lenN (write_list l i bs)).
Proof.
  induction bs as [|b t IH]; intros l i; cbn [write_list].
  - split; [lia|intros H; contradiction].
  - destruct (IH (set_at l i b) (S i)) as [A B]. rewrite lenN_set_at in A. split; [lia|]. intros _.
    rewrite lenN_cons. destruct t as [|c t'].
    + cbn [write_list]. rewrite lenN_set_at, lenN_nil. lia.
    + specialize (B ltac:(discriminate)). lia.
Qed.

Lemma lenN_repeat (v : N) n : lenN (repeat v n) = N.of_nat n.
Proof. unfold lenN. rewrite repeat_length. reflexivity. Qed.

Lemma lenN_le_bytes n v : lenN (le_bytes n v) = N.of_nat n.
Proof. revert v. induction n as [|n IH]; intros v; cbn [le_bytes]; [reflexivity|]. rewrite lenN_cons, IH. lia. Qed.

(* record-field simplification only (never unfolds list or arithmetic functions) *)
Ltac fs := cbn [quality lgwin lgblock large_window catable appendable magic size_hint initialized sstate_ rem_meta
                input_pos last_flush_pos last_processed_pos last_bytes last_bytes_bits next_out storage storage_size
                tiny avail_out_ total_out_ last_emitted oracle
                first_pending set_first_pending upd_params upd_core upd_pos upd_bits upd_out upd_misc set_sstate set_hint set_magic
                avail_in in_off cap produced total_arg io_push io_consume].
Ltac fs_in H := cbn [quality lgwin lgblock large_window catable appendable magic size_hint initialized sstate_ rem_meta
                input_pos last_flush_pos last_processed_pos last_bytes last_bytes_bits next_out storage storage_size
                tiny avail_out_ total_out_ last_emitted oracle
                first_pending set_first_pending upd_params upd_core upd_pos upd_bits upd_out upd_misc set_sstate set_hint set_magic
                avail_in in_off cap produced total_arg io_push io_consume] in H.

(* ---- the invariant ---- *)
Definition cursor_ok (s : st) : Prop :=
  match next_out s with
  | NoNone => avail_out_ s = 0
  | NoDyn off => off + avail_out_ s <= lenN (storage s) /\ off + avail_out_ s < 2 ^ 32
  | NoTiny off => off + avail_out_ s <= 16
  end.

Definition pad_ok (s : st) : Prop :=
  sstate_ s = SFlushRequested -> last_bytes_bits s <> 0 -> avail_out_ s <> 0 ->
  exists off, next_out s = NoDyn off /\ off + avail_out_ s + 3 <= storage_size s
              /\ off + avail_out_ s + 3 < 2 ^ 32.

Definition inv (s : st) : Prop :=
  cursor_ok s /\ pad_ok s /\ 16 <= lenN (tiny s) /\ last_bytes_bits s < 16.

Definition answer_ok2 (a : answer) : Prop :=
  answer_ok a = true /\ lenN (a_out a) + 3 < 2 ^ 32.
Definition all_ok2 (l : list answer) : Prop := Forall answer_ok2 l.

Lemma inv_init : inv (ensure_initialized init_st).
Proof.
  unfold inv, cursor_ok, pad_ok. cbn.
  split; [reflexivity|]. split; [intros H; discriminate H|]. split; lia.
Qed.

(* the view behind a valid cursor holds at least the pending bytes *)
Lemma view_enough s : cursor_ok s -> 16 <= lenN (tiny s) -> avail_out_ s <= lenN (view s).
Proof.
  unfold cursor_ok, view. intros H Ht. destruct (next_out s) as [|off|off].
  - rewrite H. lia.
  - rewrite lenN_skipN. lia.
  - rewrite lenN_skipN. lia.
Qed.

(* ---- padding never panics under the invariant and preserves it ---- *)
Lemma seal_bytes_len lbb (seal : N) : lbb < 16 ->
  lenN ([seal mod 256] ++ (if 8 <? lbb + 6 then [(seal / 256) mod 256] else [])
                       ++ (if 16 <? lbb + 6 then [(seal / 65536) mod 256] else [])) = (lbb + 6 + 7) / 8
  /\ (lbb + 6 + 7) / 8 <= 3 /\ 1 <= (lbb + 6 + 7) / 8.
Proof.
  intros H.
  assert (D : (lbb + 6 + 7) / 8 = if 16 <? lbb + 6 then 3 else if 8 <? lbb + 6 then 2 else 1).
  { destruct (N.ltb_spec 16 (lbb + 6)); destruct (N.ltb_spec 8 (lbb + 6)); try lia; symmetry.
    - apply (N.div_unique (lbb + 6 + 7) 8 3 (lbb + 6 + 7 - 24)); lia.
    - apply (N.div_unique (lbb + 6 + 7) 8 2 (lbb + 6 + 7 - 16)); lia.
    - apply (N.div_unique (lbb + 6 + 7) 8 1 (lbb + 6 + 7 - 8)); lia. }
  rewrite D.
  destruct (N.ltb_spec 16 (lbb + 6)); destruct (N.ltb_spec 8 (lbb + 6)); try lia;
    unfold lenN; cbn [app length]; repeat split; lia.
Qed.

Lemma padding_inv s : inv s -> sstate_ s = SFlushRequested -> last_bytes_bits s <> 0 ->
  exists s', inject_byte_padding_block s = Done s' /\ inv s' /\ sstate_ s' = sstate_ s.
Proof.
  intros [Hc [Hp [Ht Hl]]] Hfl Hlb.
  unfold inject_byte_padding_block.
  set (seal := w32 (N.lor (last_bytes s) (N.shiftl 6 (last_bytes_bits s)))).
  destruct (seal_bytes_len (last_bytes_bits s) seal Hl) as [Lb [Lk3 Lk1]].
  set (bytes := [seal mod 256] ++ (if 8 <? last_bytes_bits s + 6 then [(seal / 256) mod 256] else [])
                ++ (if 16 <? last_bytes_bits s + 6 then [(seal / 65536) mod 256] else [])) in *.
  assert (Hne : bytes <> []) by (unfold bytes; discriminate).
  fs.
  destruct (N.eqb_spec (avail_out_ s) 0) as [E0|E0].
  - (* nothing pending: fresh tiny buffer *)
    fs. unfold write_at_cursor. fs.
    destruct (N.ltb_spec 16 (0 + 0 + lenN bytes)) as [Hbad|_]; [lia|].
    eexists. split; [reflexivity|]. split; [|reflexivity].
    unfold inv, cursor_ok, pad_ok. fs.
    destruct (lenN_write_list bytes (tiny s) (N.to_nat (0 + 0))) as [W1 _].
    split; [lia|]. split; [intros _ H; contradiction H; reflexivity|]. split; lia.
  - (* bytes pending: by pad_ok they sit in the dynamic storage with room behind them *)
    destruct (Hp Hfl Hlb E0) as [off [En [Hroom H32]]].
    fs. rewrite En. unfold write_at_cursor. fs. rewrite En.
    destruct (N.ltb_spec (storage_size s) (off + avail_out_ s + lenN bytes)) as [Hbad|_]; [lia|].
    eexists. split; [reflexivity|]. split; [|reflexivity].
    unfold inv, cursor_ok, pad_ok. fs.
    destruct (lenN_write_list bytes (storage s) (N.to_nat (off + avail_out_ s))) as [W1 W2].
    specialize (W2 Hne). rewrite N2Nat.id in W2.
    split; [lia|]. split; [intros _ H; contradiction H; reflexivity|]. split; lia.
Qed.

(* ---- pushing ---- *)
Lemma inject_inv s x : inv s ->
  (exists s' x', inject_flush_or_push_output s x = Done (Some (s', x')) /\ inv s')
  \/ inject_flush_or_push_output s x = Done None.
Proof.
  intros Hi. unfold inject_flush_or_push_output.
  destruct (sstate_eqb (sstate_ s) SFlushRequested && negb (last_bytes_bits s =? 0)) eqn:C.
  - apply andb_true_iff in C. destruct C as [C1 C2]. apply sstate_eqb_spec in C1.
    apply negb_true_iff in C2. apply N.eqb_neq in C2.
    destruct (padding_inv s Hi C1 C2) as [s' [E [Hi' _]]]. rewrite E. left. exists s', x. split; [reflexivity|exact Hi'].
  - destruct (negb (avail_out_ s =? 0) && negb (cap x =? 0)) eqn:Cp; [|right; reflexivity].
    destruct Hi as [Hc [Hp [Ht Hl]]].
    pose proof (view_enough s Hc Ht) as Hv.
    destruct (N.ltb_spec (lenN (view s)) (N.min (avail_out_ s) (cap x))) as [Hbad|_]; [lia|].
    left. eexists. eexists. split; [reflexivity|].
    remember (N.min (avail_out_ s) (cap x)) as n eqn:En.
    assert (Hn : n <= avail_out_ s) by (subst n; apply N.le_min_l).
    unfold inv, cursor_ok, pad_ok in *. fs.
    destruct (next_out s) as [|off|off] eqn:Eno; cbn [no_incr].
    + split; [lia|]. split; [|split; assumption]. intros H1 H2 H3. destruct (Hp H1 H2 ltac:(lia)) as [o [Eo _]]. discriminate.
    + destruct Hc as [Hc1 Hc2].
      assert (Hw : w32 (off + n) = off + n) by (apply N.mod_small; lia).
      rewrite Hw. split; [split; lia|]. split; [|split; assumption].
      intros H1 H2 H3. destruct (Hp H1 H2 ltac:(lia)) as [o [Eo [R1 R2]]]. inversion Eo; subst o.
      exists (off + n). split; [reflexivity|]. split; lia.
    + assert (Hw : w32 (off + n) = off + n) by (apply N.mod_small; lia).
      rewrite Hw. split; [lia|]. split; [|split; assumption].
      intros H1 H2 H3. destruct (Hp H1 H2 ltac:(lia)) as [o [Eo _]]. discriminate.
Qed.

Lemma check_flush_inv s : inv s -> inv (check_flush_complete s).
Proof.
  intros Hi. unfold check_flush_complete.
  destruct (sstate_eqb (sstate_ s) SFlushRequested && (avail_out_ s =? 0)) eqn:C; [|exact Hi].
  apply andb_true_iff in C. destruct C as [_ C]. apply N.eqb_eq in C.
  destruct Hi as [Hc [Hp [Ht Hl]]]. unfold inv, cursor_ok, pad_ok. fs.
  split; [exact C|]. split; [intros H; discriminate H|split; assumption].
Qed.

(* ---- the back end ---- *)
Lemma answer_ok_parts a : answer_ok a = true ->
  a_lbb a < 16 /\ (a_fast a = false -> a_out a <> [] -> a_no a = NoDyn 0).
Proof.
  unfold answer_ok. intros H.
  apply andb_true_iff in H. destruct H as [H Hlast].
  apply andb_true_iff in H. destruct H as [H _].
  apply andb_true_iff in H. destruct H as [H _].
  apply andb_true_iff in H. destruct H as [H1 _].
  split; [apply N.ltb_lt; exact H1|].
  intros Hf Hne. rewrite Hf in Hlast. apply andb_true_iff in Hlast. destruct Hlast as [_ K].
  destruct (a_out a); [contradiction Hne; reflexivity|].
  destruct (a_no a) as [|o|o]; try discriminate. cbn in K. apply N.eqb_eq in K. subst o. reflexivity.
Qed.

Lemma encode_data_inv s il ff r s2 : inv s -> avail_out_ s = 0 -> all_ok2 (oracle s) ->
  encode_data s il ff = Done (r, s2) ->
  inv s2 /\ all_ok2 (oracle s2) /\ sstate_ s2 = sstate_ s
  /\ (r = true -> avail_out_ s2 <> 0 -> next_out s2 = NoDyn 0 /\ avail_out_ s2 + 3 <= storage_size s2 /\ avail_out_ s2 + 3 < 2 ^ 32).
Proof.
  intros Hi Hao Hok H. unfold encode_data in H.
  destruct (oracle s) as [|a rest] eqn:Eo; [discriminate|].
  inversion Hok as [|? ? [Ha Ha32] Hrest]; subst.
  destruct (answer_ok_parts a Ha) as [Hlbb Hno].
  destruct (a_fast a) eqn:Ef; [discriminate|].
  destruct (Bool.eqb (a_is_last a) il); cbn [negb] in H; [|discriminate].
  destruct (Bool.eqb (a_force_flush a) ff); cbn [negb] in H; [|discriminate].
  destruct (a_ipos a =? input_pos s); cbn [negb] in H; [|discriminate].
  destruct (a_hint a =? size_hint s); cbn [negb] in H; [|discriminate].
  assert (Hkeep : forall le, inv (upd_misc s le rest) /\ all_ok2 (oracle (upd_misc s le rest)) /\ sstate_ (upd_misc s le rest) = sstate_ s).
  { intros le. split; [|split; [exact Hrest|reflexivity]]. destruct Hi as [Hc [Hp [Ht Hl]]]. unfold inv, cursor_ok, pad_ok in *. fs. repeat split; assumption. }
  destruct (last_emitted s).
  - destruct (a_result a); [discriminate|]. inversion H; subst r s2. destruct (Hkeep true) as [A [B C]].
    split; [exact A|split; [exact B|split; [exact C|intros K; discriminate K]]].
  - destruct (input_block_size s <? unprocessed s).
    + destruct (a_result a); [discriminate|]. inversion H; subst r s2.
      destruct (Hkeep (il || false)) as [A [B C]].
      split; [exact A|split; [exact B|split; [exact C|intros K; discriminate K]]].
    + destruct (a_result a); cbn [negb] in H; [|discriminate].
      match type of H with (if ?c then _ else _) = _ => destruct c eqn:Cno; [discriminate|] end.
      remember (2 * N.max (w32 (unprocessed s)) (wsub64 (input_pos s) (last_flush_pos s)) + 527) as need eqn:Eneed.
      clear Eneed.
      match type of H with (if ?a <? ?b then _ else _) = _ => destruct (N.ltb_spec a b) as [|Hroom]; [discriminate|] end.
      inversion H; subst r s2; clear H. fs_in Hroom.
      destruct Hi as [Hc [Hp [Ht Hl]]].
      split; [|split; [exact Hrest|split; [reflexivity|]]].
      * unfold inv, cursor_ok, pad_ok. fs.
        destruct (a_out a) as [|b t] eqn:Eout.
        -- (* nothing emitted: the cursor is the old one or the start of the storage *)
           rewrite lenN_nil in *. 
           apply andb_false_iff in Cno. destruct Cno as [Cno|Cno]; apply negb_false_iff in Cno.
           ++ destruct (a_no a) as [|o|o]; try discriminate. cbn in Cno. apply N.eqb_eq in Cno. subst o.
              split; [split; lia|]. split; [intros _ _ H; contradiction H; reflexivity|split; assumption].
           ++ assert (En : a_no a = next_out s).
              { destruct (a_no a) as [|o|o], (next_out s) as [|o'|o']; try discriminate; try reflexivity;
                  cbn in Cno; apply N.eqb_eq in Cno; subst; reflexivity. }
              rewrite En. unfold cursor_ok in Hc. rewrite Hao in Hc.
              split; [destruct (next_out s); [reflexivity|lia|lia]|].
              split; [intros _ _ H; contradiction H; reflexivity|split; assumption].
        -- rewrite (Hno eq_refl ltac:(discriminate)).
           split; [split; lia|]. split; [|split; assumption].
           intros _ _ _. exists 0. split; [reflexivity|]. split; lia.
      * intros _ Hne. fs. fs_in Hne.
        destruct (a_out a) as [|b t] eqn:Eout; [rewrite lenN_nil in Hne; contradiction Hne; reflexivity|].
        rewrite (Hno eq_refl ltac:(discriminate)). repeat split; lia.
Qed.

(* ---- small preservation facts ---- *)
Lemma inv_upd_pos s a b c : inv s -> inv (upd_pos s a b c).
Proof. intros [Hc [Hp [Ht Hl]]]. unfold inv, cursor_ok, pad_ok in *. fs. repeat split; assumption. Qed.

Lemma inv_size_hint s a : inv s -> inv (update_size_hint s a).
Proof.
  intros Hi. unfold update_size_hint. destruct (size_hint s =? 0); [|exact Hi].
  destruct Hi as [Hc [Hp [Ht Hl]]]. unfold inv, cursor_ok, pad_ok, set_hint in *. fs. repeat split; assumption.
Qed.

Lemma inv_set_sstate s ss : inv s ->
  (ss = SFlushRequested -> last_bytes_bits s <> 0 -> avail_out_ s <> 0 ->
     exists off, next_out s = NoDyn off /\ off + avail_out_ s + 3 <= storage_size s /\ off + avail_out_ s + 3 < 2 ^ 32) ->
  inv (set_sstate s ss).
Proof.
  intros [Hc [Hp [Ht Hl]]] H. unfold inv, cursor_ok, pad_ok in *. fs. repeat split; assumption.
Qed.

Definition outcome_ok {A} (o : outcome (bool * st * A)) : Prop :=
  match o with
  | Panic _ => False
  | Done (_, s', _) => inv s' /\ all_ok2 (oracle s')
  | _ => True
  end.

Lemma update_size_hint_oracle s a : oracle (update_size_hint s a) = oracle s /\ avail_out_ (update_size_hint s a) = avail_out_ s.
Proof. unfold update_size_hint. destruct (size_hint s =? 0); split; reflexivity. Qed.

Lemma stream_loop_np : forall fuel op s x,
  inv s -> all_ok2 (oracle s) -> outcome_ok (stream_loop fuel op s x).
Proof.
  induction fuel as [|f IH]; intros op s x Hi Hok; [exact I|].
  cbn [stream_loop].
  destruct (negb (remaining_input_block_size s =? 0) && negb (avail_in x =? 0)).
  - apply IH; [apply inv_upd_pos; exact Hi|exact Hok].
  - destruct (inject_inv s x Hi) as [[s1 [x1 [E Hi1]]]|E]; rewrite E.
    + apply IH; [exact Hi1|].
      destruct (inject_some s x s1 x1 E) as [_ [_ [_ [D _]]]]. rewrite D. exact Hok.
    + destruct ((avail_out_ s =? 0) && sstate_eqb (sstate_ s) SProcessing
                && ((remaining_input_block_size s =? 0) || negb (opk_eqb op OpProcess))) eqn:Cenc.
      * apply andb_true_iff in Cenc. destruct Cenc as [Cenc _]. apply andb_true_iff in Cenc. destruct Cenc as [Cao Cst].
        apply N.eqb_eq in Cao. apply sstate_eqb_spec in Cst.
        destruct (update_size_hint_oracle s (avail_in x)) as [U1 U2].
        destruct (encode_data (update_size_hint s (avail_in x)) ((avail_in x =? 0) && opk_eqb op OpFinish)
                              ((avail_in x =? 0) && opk_eqb op OpFlush)) as [[r s2]|w|w|] eqn:Eenc; try exact I.
        -- destruct (encode_data_inv _ _ _ _ _ (inv_size_hint s _ Hi) ltac:(rewrite U2; exact Cao) ltac:(rewrite U1; exact Hok) Eenc)
             as [Hi2 [Hok2 [Hst2 Hroom]]].
           destruct r; [|split; assumption].
           apply IH.
           ++ assert (Hi3 : inv (if (avail_in x =? 0) && opk_eqb op OpFlush then set_sstate s2 SFlushRequested else s2)).
              { destruct ((avail_in x =? 0) && opk_eqb op OpFlush); [|exact Hi2].
                apply inv_set_sstate; [exact Hi2|]. intros _ _ Hne. destruct (Hroom eq_refl Hne) as [R1 [R2 R3]].
                exists 0. split; [exact R1|]. split; lia. }
              destruct ((avail_in x =? 0) && opk_eqb op OpFinish); [|exact Hi3].
              apply inv_set_sstate; [exact Hi3|]. intros H; discriminate H.
           ++ destruct ((avail_in x =? 0) && opk_eqb op OpFlush), ((avail_in x =? 0) && opk_eqb op OpFinish); exact Hok2.
        -- (* encode_data never panics: its only outcomes are Done / Mismatch *)
           unfold encode_data in Eenc. destruct (oracle (update_size_hint s (avail_in x))); [discriminate|].
           repeat match type of Eenc with (if ?c then _ else _) = _ => destruct c; try discriminate end.
      * split; [apply check_flush_inv; exact Hi|].
        unfold check_flush_complete. destruct (sstate_eqb (sstate_ s) SFlushRequested && (avail_out_ s =? 0)); exact Hok.
Qed.

Lemma fast_answer_np s il ff ip blk :
  all_ok2 (oracle s) ->
  match fast_answer s il ff ip blk with
  | Panic _ => False
  | Done (a, s1) => all_ok2 (oracle s1) /\ s1 = upd_misc s (last_emitted s) (oracle s1)
                    /\ answer_ok2 a /\ lenN (a_out a) + 3 <= 2 * blk + 503
  | _ => True
  end.
Proof.
  intros Hok. unfold fast_answer. destruct (oracle s) as [|a rest] eqn:Eo; [exact I|].
  inversion Hok as [|? ? Ha Hrest]; subst.
  repeat match goal with |- context [if ?c then _ else _] =>
    match c with
    | N.ltb _ _ => fail 1
    | _ => destruct c; try exact I
    end end.
  destruct (N.ltb_spec (2 * blk + 503) (lenN (a_out a) + 3)) as [|Hsz]; [exact I|].
  fs. destruct Ha as [Ha1 Ha2]. repeat split; assumption.
Qed.

Lemma fast_loop_np : forall fuel op s x,
  inv s -> all_ok2 (oracle s) -> outcome_ok (fast_loop fuel op s x).
Proof.
  induction fuel as [|f IH]; intros op s x Hi Hok; [exact I|].
  cbn [fast_loop].
  destruct (inject_inv s x Hi) as [[s1 [x1 [E Hi1]]]|E]; rewrite E.
  - apply IH; [exact Hi1|].
    destruct (inject_some s x s1 x1 E) as [_ [_ [_ [D _]]]]. rewrite D. exact Hok.
  - destruct ((avail_out_ s =? 0) && sstate_eqb (sstate_ s) SProcessing
              && (negb (avail_in x =? 0) || negb (opk_eqb op OpProcess))) eqn:Cenc.
    + apply andb_true_iff in Cenc. destruct Cenc as [Cenc _]. apply andb_true_iff in Cenc. destruct Cenc as [Cao Cst].
      apply N.eqb_eq in Cao. apply sstate_eqb_spec in Cst.
      remember (N.min (2 ^ Z.to_N (lgwin s)) (avail_in x)) as block eqn:Eblk.
      destruct (((avail_in x =? block) && opk_eqb op OpFlush) && (block =? 0)).
      * apply IH; [|exact Hok]. apply inv_set_sstate; [exact Hi|]. intros _ _ H. contradiction.
      * pose proof (fast_answer_np s ((avail_in x =? block) && opk_eqb op OpFinish) ((avail_in x =? block) && opk_eqb op OpFlush)
                      (2 * block + 503 <=? cap x) block Hok) as FA.
        destruct (fast_answer _ _ _ _ _) as [[a s1]|w|w|]; try exact I; [|contradiction].
        destruct FA as [Hok1 [Es1 [[Ha Ha32] Hsz]]].
        destruct (answer_ok_parts a Ha) as [Hlbb _].
        assert (Hi1 : inv s1).
        { rewrite Es1. destruct Hi as [Hc [Hp [Ht Hl]]]. unfold inv, cursor_ok, pad_ok in *. fs. repeat split; assumption. }
        assert (Hao1 : avail_out_ s1 = 0) by (rewrite Es1; fs; exact Cao).
        assert (Hst1 : sstate_ s1 = SProcessing) by (rewrite Es1; fs; exact Cst).
        destruct (2 * block + 503 <=? cap x).
        -- (* in place: the cursor is not touched, nothing becomes pending *)
           apply IH.
           ++ set (sA := upd_bits (upd_out s1 (next_out s1) (storage s1) (storage_size s1) (tiny s1) (avail_out_ s1)
                                   (wadd64 (total_out_ s1) (lenN (a_out a)))) (a_lb a) (a_lbb a)).
              assert (HiA : inv sA).
              { destruct Hi1 as [Hc [Hp [Ht Hl]]]. unfold inv, cursor_ok, pad_ok, sA in *. fs.
                split; [exact Hc|]. split; [|split; assumption]. intros H; rewrite Hst1 in H; discriminate H. }
              assert (HaoA : avail_out_ sA = 0) by (unfold sA; fs; exact Hao1).
              assert (HiB : inv (if (avail_in x =? block) && opk_eqb op OpFlush then set_sstate sA SFlushRequested else sA)).
              { destruct ((avail_in x =? block) && opk_eqb op OpFlush); [|exact HiA].
                apply inv_set_sstate; [exact HiA|]. intros _ _ H. contradiction. }
              destruct ((avail_in x =? block) && opk_eqb op OpFinish); [|exact HiB].
              apply inv_set_sstate; [exact HiB|]. intros H; discriminate H.
           ++ destruct ((avail_in x =? block) && opk_eqb op OpFlush), ((avail_in x =? block) && opk_eqb op OpFinish); fs; exact Hok1.
        -- (* staged in the encoder's storage *)
           apply IH.
           ++ set (sA := upd_bits (upd_out s1 (NoDyn 0) (a_out a) (N.max (storage_size s1) (2 * block + 503)) (tiny s1)
                                   (lenN (a_out a)) (total_out_ s1)) (a_lb a) (a_lbb a)).
              assert (HiA : inv sA).
              { destruct Hi1 as [Hc [Hp [Ht Hl]]]. unfold inv, cursor_ok, pad_ok, sA in *. fs.
                split; [split; lia|]. split; [|split; assumption]. intros H; rewrite Hst1 in H; discriminate H. }
              assert (HiB : inv (if (avail_in x =? block) && opk_eqb op OpFlush then set_sstate sA SFlushRequested else sA)).
              { destruct ((avail_in x =? block) && opk_eqb op OpFlush); [|exact HiA].
                apply inv_set_sstate; [exact HiA|]. intros _ _ _. exists 0. unfold sA. fs. split; [reflexivity|]. split; lia. }
              destruct ((avail_in x =? block) && opk_eqb op OpFinish); [|exact HiB].
              apply inv_set_sstate; [exact HiB|]. intros H; discriminate H.
           ++ destruct ((avail_in x =? block) && opk_eqb op OpFlush), ((avail_in x =? block) && opk_eqb op OpFinish); fs; exact Hok1.
    + split; [apply check_flush_inv; exact Hi|].
      unfold check_flush_complete. destruct (sstate_eqb (sstate_ s) SFlushRequested && (avail_out_ s =? 0)); exact Hok.
Qed.

(* ---- metadata ---- *)
From V Require Import spec.MetaHeader proofs.MetaHeader_proofs.

Lemma header_len_le lb lbb n : lbb < 16 -> n <= 2 ^ 24 ->
  (snd (metadata_header_bits lb lbb n) + 7) / 8 <= 16.
Proof.
  intros Hl Hn. unfold metadata_header_bits.
  destruct (n =? 0) eqn:E0.
  - cbn [snd]. apply N.div_le_upper_bound; lia.
  - cbn [snd]. apply N.eqb_neq in E0.
    assert (Hk : nbytes_of n <= 3).
    { destruct (nbytes_of_class n ltac:(lia) Hn) as [[_ H]|[[_ [_ H]]|[_ H]]]; rewrite H; lia. }
    unfold nbytes_of in Hk. cbv zeta in Hk.
    remember ((if n =? 1 then 1 else log2_floor_nonzero (w32 (n - 1)) + 1) + 7) as e.
    apply N.div_le_upper_bound; [lia|].
    remember (e / 8) as k. lia.
Qed.

Definition meta_rel (payload : list N) (s : st) (x : io) : Prop :=
  in_off x + rem_meta s <= lenN payload /\ rem_meta s <= 2 ^ 24
  /\ (sstate_ s = SMetaHead \/ sstate_ s = SMetaBody).

Lemma meta_loop_np payload : forall fuel s x,
  inv s -> all_ok2 (oracle s) -> meta_rel payload s x -> outcome_ok (meta_loop fuel payload s x).
Proof.
  induction fuel as [|f IH]; intros s x Hi Hok [Hm1 [Hm2 Hm3]]; [exact I|].
  cbn [meta_loop].
  destruct (inject_inv s x Hi) as [[s1 [x1 [E Hi1]]]|E]; rewrite E.
  - destruct (inject_some s x s1 x1 E) as [A [_ [_ [D [_ _]]]]].
    apply IH; [exact Hi1|rewrite D; exact Hok|].
    (* pushing does not touch rem_meta or in_off *)
    unfold inject_flush_or_push_output in E.
    destruct (sstate_eqb (sstate_ s) SFlushRequested && negb (last_bytes_bits s =? 0)) eqn:Cf.
    + exfalso. apply andb_true_iff in Cf. destruct Cf as [Cf _]. apply sstate_eqb_spec in Cf.
      destruct Hm3 as [H|H]; rewrite H in Cf; discriminate.
    + destruct (negb (avail_out_ s =? 0) && negb (cap x =? 0)); try discriminate.
      destruct (lenN (view s) <? N.min (avail_out_ s) (cap x)); try discriminate.
      inversion E; subst s1 x1. unfold meta_rel. fs. repeat split; assumption.
  - destruct (negb (avail_out_ s =? 0)) eqn:Cao; [split; assumption|].
    apply negb_false_iff in Cao. apply N.eqb_eq in Cao.
    destruct (negb (input_pos s =? last_flush_pos s) || (magic s && first_pending s)).
    + destruct (encode_data s false true) as [[r s2]|w|w|] eqn:Eenc; try exact I.
      * destruct (encode_data_inv _ _ _ _ _ Hi Cao Hok Eenc) as [Hi2 [Hok2 [Hst2 Hroom]]].
        destruct r; [|split; assumption].
        apply IH; [exact Hi2|exact Hok2|].
        assert (Hr : rem_meta s2 = rem_meta s).
        { unfold encode_data in Eenc. destruct (oracle s); [discriminate|].
          repeat match type of Eenc with (if ?c then _ else _) = _ => destruct c; try discriminate end;
          inversion Eenc; reflexivity. }
        unfold meta_rel. rewrite Hr, Hst2. repeat split; assumption.
      * unfold encode_data in Eenc. destruct (oracle s); [discriminate|].
        repeat match type of Eenc with (if ?c then _ else _) = _ => destruct c; try discriminate end.
    + destruct (sstate_eqb (sstate_ s) SMetaHead).
      * (* header into the tiny buffer *)
        pose proof (header_len_le (last_bytes s) (last_bytes_bits s) (rem_meta s) ltac:(destruct Hi as [_ [_ [_ Hl]]]; exact Hl) Hm2) as Hlen.
        assert (Hh : inv (set_sstate (write_metadata_header s) SMetaBody)
                     /\ oracle (set_sstate (write_metadata_header s) SMetaBody) = oracle s
                     /\ rem_meta (set_sstate (write_metadata_header s) SMetaBody) = rem_meta s
                     /\ sstate_ (set_sstate (write_metadata_header s) SMetaBody) = SMetaBody).
        { destruct Hi as [Hc [Hp [Ht Hl]]]. unfold write_metadata_header.
          destruct (metadata_header_bits (last_bytes s) (last_bytes_bits s) (rem_meta s)) as [v nb]. cbn [snd] in Hlen.
          split; [|repeat split; reflexivity].
          unfold inv, cursor_ok, pad_ok. fs. rewrite lenN_le_bytes.
          split; [lia|]. split; [intros H; discriminate H|]. split; lia. }
        destruct Hh as [Hih [Hoh [Hrh Hsh]]].
        apply IH; [exact Hih|rewrite Hoh; exact Hok|].
        unfold meta_rel. rewrite Hrh, Hsh. repeat split; try assumption. right; reflexivity.
      * destruct (rem_meta s =? 0).
        -- split; [|exact Hok]. destruct Hi as [Hc [Hp [Ht Hl]]]. unfold inv, cursor_ok, pad_ok in *. fs.
           split; [exact Hc|]. split; [intros H; discriminate H|split; assumption].
        -- assert (Hnf : sstate_ s <> SFlushRequested) by (destruct Hm3 as [H|H]; rewrite H; discriminate).
           destruct (negb (cap x =? 0)).
           ++ (* payload straight into the caller's buffer *)
              remember (N.min (rem_meta s) (cap x)) as c eqn:Ec.
              assert (Hcle : c <= rem_meta s) by (subst c; apply N.le_min_l).
              destruct (N.ltb_spec (lenN (skipN (in_off x) payload)) c) as [Hbad|_]; [rewrite lenN_skipN in Hbad; lia|].
              apply IH; [|exact Hok|].
              ** destruct Hi as [Hc [Hp [Ht Hl]]]. unfold inv, cursor_ok, pad_ok in *. fs.
                 split; [exact Hc|]. split; [exact Hp|split; assumption].
              ** unfold meta_rel. fs. rewrite (wsub32_small (rem_meta s) c) by (try assumption; change (2 ^ 32) with 4294967296; change (2 ^ 24) with 16777216 in Hm2; lia).
                 repeat split; try lia. exact Hm3.
           ++ (* payload through the tiny buffer *)
              remember (N.min (rem_meta s) 16) as c eqn:Ec.
              assert (Hcle : c <= rem_meta s) by (subst c; apply N.le_min_l).
              assert (Hc16 : c <= 16) by (subst c; apply N.le_min_r).
              destruct (N.ltb_spec (lenN (skipN (in_off x) payload)) c) as [Hbad|Hgood]; [rewrite lenN_skipN in Hbad; lia|].
              apply IH; [|exact Hok|].
              ** destruct Hi as [Hc [Hp [Ht Hl]]]. unfold inv, cursor_ok, pad_ok in *. fs.
                 destruct (lenN_write_list (takeN c (skipN (in_off x) payload)) (tiny s) 0) as [W1 _].
                 split; [lia|]. split; [|split; [lia|assumption]].
                 intros H1. contradiction.
              ** unfold meta_rel. fs. rewrite (wsub32_small (rem_meta s) c) by (try assumption; change (2 ^ 32) with 4294967296; change (2 ^ 24) with 16777216 in Hm2; lia).
                 repeat split; try lia. exact Hm3.
Qed.

(* ---- the API calls ---- *)
Definition meta_ok (s : st) : Prop :=
  (sstate_ s = SMetaHead \/ sstate_ s = SMetaBody) -> rem_meta s <= 2 ^ 24.

(* an encoder that has only seen set_parameter calls *)
Definition fresh (s : st) : Prop :=
  sstate_ s = SProcessing /\ avail_out_ s = 0 /\ next_out s = NoNone /\ 16 <= lenN (tiny s).

Lemma fresh_init : fresh init_st.
Proof. unfold fresh. cbn. repeat split; lia. Qed.

Lemma fresh_set_parameter s id v : fresh s -> fresh (snd (set_parameter s id v)).
Proof.
  intros H. unfold set_parameter.
  repeat match goal with |- context [if ?c then _ else _] => destruct c end; cbn [snd]; try exact H;
    destruct H as [A [B [C D]]]; unfold fresh; fs; repeat split; assumption.
Qed.

Lemma fresh_inv s : fresh s -> initialized s = false ->
  inv (ensure_initialized s) /\ meta_ok (ensure_initialized s) /\ oracle (ensure_initialized s) = oracle s.
Proof.
  intros [A [B [C D]]] Ei. unfold ensure_initialized. rewrite Ei.
  assert (Hb : forall w lw, snd (encode_window_bits w lw) < 16).
  { intros w lw. unfold encode_window_bits. destruct lw; [cbn; lia|].
    destruct (w =? 16)%Z; [cbn; lia|]. destruct (w =? 17)%Z; [cbn; lia|]. destruct (17 <? w)%Z; cbn; lia. }
  match goal with |- context [encode_window_bits ?w ?lw] => specialize (Hb w lw); destruct (encode_window_bits w lw) as [lb lbb] end.
  cbn [snd] in Hb. split; [|split; [|reflexivity]].
  - unfold inv, cursor_ok, pad_ok. fs. rewrite C. split; [exact B|].
    split; [intros H; rewrite A in H; discriminate H|]. split; assumption.
  - unfold meta_ok. fs. intros [H|H]; rewrite A in H; discriminate H.
Qed.

Definition call_ok (o : outcome (bool * st * io)) : Prop :=
  match o with Panic _ => False | Done (_, s', _) => inv s' | _ => True end.

Lemma outcome_ok_call_ok o : outcome_ok o -> call_ok o.
Proof. destruct o as [[[r s'] x']| | |]; cbn; tauto. Qed.

(* every stream call from a state satisfying the invariant: no Panic, invariant re-established *)
Theorem stream_call_no_panic t0 s op payload offered capn :
  initialized s = true -> inv s -> meta_ok s -> all_ok2 (oracle s) ->
  (op = OpMeta -> offered <= lenN payload /\ offered < 2 ^ 32) ->
  call_ok (compress_stream_from t0 s op payload offered capn).
Proof.
  intros Hini Hi Hm Hok Hpay. unfold compress_stream_from. rewrite (ensure_initialized_id s Hini).
  set (x := {| avail_in := offered; in_off := 0; cap := capn; produced := []; total_arg := t0 |}).
  destruct (negb (rem_meta s =? U32MAX) && (negb (offered =? rem_meta s) || negb (opk_eqb op OpMeta))) eqn:Cg; [exact Hi|].
  destruct (opk_eqb op OpMeta) eqn:Eop.
  - assert (Hop : op = OpMeta) by (destruct op; try discriminate; reflexivity).
    destruct (Hpay Hop) as [Hp1 Hp2].
    unfold process_metadata. fold x.
    assert (Hih : inv (update_size_hint s 0)) by (apply inv_size_hint; exact Hi).
    destruct (update_size_hint_fields s 0) as [U1 [U2 [U3 [U4 [U5 U6]]]]].
    assert (Ur : rem_meta (update_size_hint s 0) = rem_meta s) by (unfold update_size_hint; destruct (size_hint s =? 0); reflexivity).
    cbn [avail_in x].
    destruct (N.ltb_spec (2 ^ 24) offered) as [Hbig|Hsmall]; [exact Hih|].
    destruct (sstate_eqb (sstate_ (update_size_hint s 0)) SProcessing) eqn:Ep.
    + (* a new metadata block *)
      cbn [sstate_eqb negb andb]. fs. cbn [sstate_eqb negb andb].
      apply outcome_ok_call_ok. apply meta_loop_np.
      * destruct Hih as [Hc [Hpd [Ht Hl]]]. unfold inv, cursor_ok, pad_ok in *. fs.
        split; [exact Hc|]. split; [intros H; discriminate H|split; assumption].
      * fs. rewrite U4. exact Hok.
      * unfold meta_rel. fs. unfold x. fs.
        rewrite (w32_small offered Hp2). repeat split; try lia. left; reflexivity.
    + match goal with |- context [if ?c then _ else _] => destruct c eqn:Cm end; [exact Hih|].
      apply outcome_ok_call_ok. apply meta_loop_np; [exact Hih|rewrite U4; exact Hok|].
      assert (Hst : sstate_ s = SMetaHead \/ sstate_ s = SMetaBody).
      { rewrite U1 in Cm. apply andb_false_iff in Cm. destruct Cm as [Cm|Cm]; apply negb_false_iff in Cm; apply sstate_eqb_spec in Cm; auto. }
      pose proof (Hm Hst) as Hrem.
      assert (Hne : rem_meta s <> U32MAX) by (intros E; rewrite E in Hrem; vm_compute in Hrem; apply Hrem; reflexivity).
      (* the guard then forces offered = rem_meta *)
      destruct (N.eqb_spec (rem_meta s) U32MAX) as [E|_]; [contradiction|]. cbn [negb andb] in Cg.
      cbn [negb] in Cg. rewrite orb_false_r in Cg. apply negb_false_iff in Cg. apply N.eqb_eq in Cg.
      unfold meta_rel. rewrite Ur, U1. unfold x. fs. repeat split; try lia. exact Hst.
  - destruct (sstate_eqb (sstate_ s) SMetaHead || sstate_eqb (sstate_ s) SMetaBody); [exact Hi|].
    destruct (negb (sstate_eqb (sstate_ s) SProcessing) && negb (offered =? 0)); [exact Hi|].
    destruct (((quality s =? 0)%Z || (quality s =? 1)%Z) && negb (catable s) && negb (magic s)).
    + apply outcome_ok_call_ok. apply fast_loop_np; assumption.
    + apply outcome_ok_call_ok. apply stream_loop_np; assumption.
Qed.

Theorem take_output_no_panic s n : inv s ->
  exists bs s', take_output s n = Done (bs, s') /\ inv s'.
Proof.
  intros Hi. unfold take_output.
  remember (if n =? 0 then avail_out_ s else N.min n (avail_out_ s)) as k eqn:Ek.
  assert (Hk : k <= avail_out_ s) by (subst k; destruct (n =? 0); [lia|apply N.le_min_r]).
  destruct (N.eqb_spec k 0) as [E0|E0]; [exists [], s; split; [reflexivity|exact Hi]|].
  destruct Hi as [Hc [Hp [Ht Hl]]].
  pose proof (view_enough s Hc Ht) as Hv.
  destruct (N.ltb_spec (lenN (view s)) k) as [Hbad|_]; [lia|].
  eexists. eexists. split; [reflexivity|]. apply check_flush_inv.
  unfold inv, cursor_ok, pad_ok in *. fs.
  destruct (next_out s) as [|off|off] eqn:Eno; cbn [no_incr].
  - split; [lia|]. split; [|split; assumption]. intros H1 H2 H3. destruct (Hp H1 H2 ltac:(lia)) as [o [Eo _]]. discriminate.
  - destruct Hc as [Hc1 Hc2]. assert (Hw : w32 (off + k) = off + k) by (apply N.mod_small; lia). rewrite Hw.
    split; [split; lia|]. split; [|split; assumption].
    intros H1 H2 H3. destruct (Hp H1 H2 ltac:(lia)) as [o [Eo [R1 R2]]]. inversion Eo; subst o.
    exists (off + k). split; [reflexivity|]. split; lia.
  - assert (Hw : w32 (off + k) = off + k) by (apply N.mod_small; lia). rewrite Hw.
    split; [lia|]. split; [|split; assumption].
    intros H1 H2 H3. destruct (Hp H1 H2 ltac:(lia)) as [o [Eo _]]. discriminate.
Qed.
