(* The model meets the run-summary spec; the exact back-pressure boundary; non-vacuity examples. *)
From Coq Require Import NArith ZArith List Bool Lia Arith Permutation.
From V Require Import lib.Words gen.GenPool spec.PoolSpec model.Pool proofs.Queue_proofs proofs.Pool_inv proofs.Pool_proofs proofs.Pool_live.
Import ListNotations.
Open Scope N_scope.

(* what the harness reports about a run, read off a model state *)
Definition summary_of (s : pstate) (clean : bool) : summary :=
  mksum (map (fun j => (j_id j, j_arg j)) (spawned s))
        (joined s)
        (fun w => N.of_nat (exec_count s w))
        (map (fun u => (snd (fst u), snd u)) (unwraps s))
        clean.

Lemma nodupN_spec l : nodupN l = true <-> NoDup l.
Proof.
  induction l as [|h t IH]; cbn [nodupN].
  - split; [constructor|reflexivity].
  - rewrite andb_true_iff, negb_true_iff, IH. split.
    + intros [H1 H2]. constructor; [|exact H2]. intros Hin.
      assert (existsb (N.eqb h) t = true) by (apply existsb_exists; exists h; split; [exact Hin|apply N.eqb_refl]). congruence.
    + intros H. inversion H; subst. split; [|assumption].
      destruct (existsb (N.eqb h) t) eqn:E; [|reflexivity]. apply existsb_exists in E. destruct E as (x & Hx & Ex).
      apply N.eqb_eq in Ex. subst. contradiction.
Qed.

Lemma lookupN_unique (l : list job) j :
  NoDup (map j_id l) -> In j l -> lookupN (j_id j) (map (fun j => (j_id j, j_arg j)) l) = Some (j_arg j).
Proof.
  induction l as [|h t IH]; intros ND Hin; [destruct Hin|]. cbn [map lookupN]. cbn [map] in ND. inversion ND; subst.
  destruct Hin as [->|Hin].
  - rewrite N.eqb_refl. reflexivity.
  - destruct (N.eqb_spec (j_id h) (j_id j)) as [E|_].
    + exfalso. apply H1. rewrite E. apply in_map. exact Hin.
    + apply IH; assumption.
Qed.

Section Link.
  Variable jf : N -> N.

  (* every state satisfying the invariant passes the executable spec that the check applies to the real pool *)
  Theorem model_meets_spec s : Inv jf s -> spec_ok jf (summary_of s true) = true.
  Proof.
    intros HI. pose proof HI as (lj & lr & _ & _ & C). unfold spec_ok, summary_of.
    cbn [sm_spawned sm_joins sm_exec sm_unwraps sm_clean_end].
    repeat (apply andb_true_iff; split); try reflexivity.
    - apply forallb_forall. intros [w v] Hin. unfold join_ok. cbn [fst snd sm_spawned sm_exec].
      destruct (inv_joined jf s HI w v Hin) as (Ex & j & Hj & Hid & Hv & _).
      subst w. rewrite (lookupN_unique _ j (c_nodup _ _ _ _ C) Hj). rewrite Ex, Hv, N.eqb_refl. reflexivity.
    - apply nodupN_spec. apply (NoDup_count_occ N.eq_dec). intros w.
      pose proof (c_part _ _ _ _ C w). destruct (w <? cur_work_id (wq s)); lia.
    - apply nodupN_spec. rewrite map_map. cbn [fst]. apply (c_nodup _ _ _ _ C).
    - apply forallb_forall. intros [w a] Hin. cbn [fst sm_exec]. apply N.leb_le.
      pose proof (inv_exec_once jf s HI w). lia.
    - apply forallb_forall. intros [b c] Hin. apply in_map_iff in Hin. destruct Hin as ([[a b'] c'] & E & Hin).
      cbn in E. inversion E; subst. cbn [fst snd]. destruct b; [|reflexivity]. cbn.
      apply (c_unw _ _ _ _ C a true c Hin). reflexivity.
  Qed.
End Link.

(* ---------------------------------------------------------------------------------------------------------- *)
(* reachability under the discipline of the property, packaged for props/C07.v *)
Section Reach.
  Variable jf : N -> N.
  Variable job_ok : N -> bool.
  Hypothesis job_total : forall a, job_ok a = true.

  (* s is the state after a trace of k steps made of batches of <= 15 spawns, each batch started when nothing is
     outstanding *)
  Definition reachable_in (n : nat) (k : N) (s : pstate) : Prop :=
    exists tr, N.of_nat (length tr) = k /\ k < 2 ^ 63 /\ bdisc_trace jf job_ok (init n) tr
               /\ run jf job_ok (init n) tr = Some (Ok s).

  Definition reachable (n : nat) (s : pstate) : Prop := exists k, reachable_in n k s.

  Lemma reachable_in_inv n k s : reachable_in n k s -> Inv jf s /\ BInv s /\ Bnd k s.
  Proof.
    intros (tr & Hl & Hk & Hd & Hr). destruct (inv_init jf n) as (HI & HB & HBI & _).
    pose proof (run_safe_batch jf job_ok job_total tr 0 (init n) ltac:(lia) HI HB HBI Hd) as P.
    rewrite Hr in P. destruct P as (P1 & P2 & P3). rewrite N.add_0_l, Hl in P3. split; [exact P1|]. split; [exact P2|exact P3].
  Qed.

  Lemma reachable_inv n s : reachable n s -> Inv jf s /\ BInv s.
  Proof. intros [k R]. destruct (reachable_in_inv n k s R) as (H1 & H2 & _). split; assumption. Qed.

  Lemma length_wpcs_step s m s' : step jf job_ok s m = Some (Ok s') -> length (wpcs s') = length (wpcs s).
  Proof.
    intros H. destruct m as [j| |arg|w| | | |t]; cbn [step] in H.
    - unfold worker_step in H. destruct (nth_error (wpcs s) j) as [pc|] eqn:Hn; [|discriminate].
      destruct pc; unfold worker_top, worker_publish in H;
        repeat match type of H with
               | context[match ?x with _ => _ end] => destruct x eqn:?; try discriminate
               | context[if ?x then _ else _] => destruct x eqn:?; try discriminate
               end; inversion H; subst s'; red_s; apply set_nth_length.
    - unfold sub_begin in H. repeat match type of H with context[match ?x with _ => _ end] => destruct x eqn:?; try discriminate end;
      inversion H; subst s'; reflexivity.
    - unfold sub_spawn, spawn_cs in H.
      repeat match type of H with
             | context[match ?x with _ => _ end] => destruct x eqn:?; try discriminate
             | context[if ?x then _ else _] => destruct x eqn:?; try discriminate
             end; inversion H; subst s'; reflexivity.
    - unfold sub_join, join_cs in H.
      repeat match type of H with
             | context[match ?x with _ => _ end] => destruct x eqn:?; try discriminate
             | context[if ?x then _ else _] => destruct x eqn:?; try discriminate
             end; inversion H; subst s'; reflexivity.
    - unfold sub_unwrap in H. repeat match type of H with context[match ?x with _ => _ end] => destruct x eqn:?; try discriminate end;
      inversion H; subst s'; reflexivity.
    - unfold sub_drop in H.
      repeat match type of H with
             | context[match ?x with _ => _ end] => destruct x eqn:?; try discriminate
             | context[if ?x then _ else _] => destruct x eqn:?; try discriminate
             end; inversion H; subst s'; reflexivity.
    - unfold sub_reap in H.
      repeat match type of H with
             | context[match ?x with _ => _ end] => destruct x eqn:?; try discriminate
             | context[if ?x then _ else _] => destruct x eqn:?; try discriminate
             end; inversion H; subst s'; reflexivity.
    - unfold spurious in H. destruct (mem_nat t (waiters s)); [|discriminate]. inversion H; subst s'; reflexivity.
  Qed.

  Lemma length_wpcs_run tr : forall s s', run jf job_ok s tr = Some (Ok s') -> length (wpcs s') = length (wpcs s).
  Proof.
    induction tr as [|m tr IH]; intros s s' H; cbn [run] in H.
    - inversion H; reflexivity.
    - destruct (step jf job_ok s m) as [[s1|p]|] eqn:E; try discriminate.
      rewrite (IH _ _ H). apply (length_wpcs_step _ _ _ E).
  Qed.

  Lemma reachable_workers n s : reachable n s -> length (wpcs s) = n.
  Proof.
    intros (k & tr & _ & _ & _ & Hr). rewrite (length_wpcs_run _ _ _ Hr). cbn. apply repeat_length.
  Qed.
End Reach.

(* ---------------------------------------------------------------------------------------------------------- *)
(* The exact boundary.  `spawn` admits a submission while jobs + in_progress + results <= MAX_THREADS, i.e. it
   lets a 17th item in; each queue holds 16.  With at most 15 items outstanding at every spawn nothing can
   fail (Pool_proofs.run_safe); with 16 the submission is admitted and either `.push(..).unwrap()` can panic. *)
Definition idf (x : N) : N := x.
Definition all_ok (x : N) : bool := true.

Definition cycle : list move := [MSpawn 7; MWorker 0; MWorker 0; MWorker 0; MWorker 0].
Definition tr_jobs_full : list move := MBegin :: repeat (MSpawn 7) 17.
Definition tr_results_full : list move := MBegin :: concat (repeat cycle 17).

Lemma boundary_admits : spawn_admits 16 = true /\ spawn_admits 17 = false.
Proof. split; reflexivity. Qed.

Lemma boundary_jobs_panic : run idf all_ok (init 1) tr_jobs_full = Some (Panic PUnwrapJobsPush).
Proof. vm_compute. reflexivity. Qed.

Lemma boundary_results_panic : run idf all_ok (init 1) tr_results_full = Some (Panic PUnwrapResultsPush).
Proof. vm_compute. reflexivity. Qed.

(* in both witnesses the fatal submission happens with exactly 16 items outstanding *)
Lemma boundary_jobs_at_16 :
  match run idf all_ok (init 1) (MBegin :: repeat (MSpawn 7) 16) with
  | Some (Ok s) => outstanding s = 16 /\ observe s = (16, 0, 0, 16)
  | _ => False
  end.
Proof. vm_compute. split; reflexivity. Qed.

Lemma boundary_results_at_16 :
  match run idf all_ok (init 1) (MBegin :: concat (repeat cycle 16)) with
  | Some (Ok s) => outstanding s = 16 /\ observe s = (0, 16, 0, 16)
  | _ => False
  end.
Proof. vm_compute. split; reflexivity. Qed.

(* the hypothesis on job bodies is necessary: a panicking job kills its worker, num_in_progress is never
   decremented and the join of that job is blocked for ever (nobody is enabled) *)
Definition bad_job (x : N) : bool := negb (x =? 13).
Definition tr_job_panics : list move := [MBegin; MSpawn 13; MWorker 0; MWorker 0; MJoin 0].
Lemma job_panic_blocks_join :
  match run idf bad_job (init 1) tr_job_panics with
  | Some (Ok s) => sub s = SJoinWait 0 /\ waiters s = [0%nat] /\ wpcs s = [WKilled] /\ num_in_progress (wq s) = 1
                   /\ enabled idf bad_job s (MWorker 0) = false /\ enabled idf bad_job s (MJoin 0) = false
  | _ => False
  end.
Proof. vm_compute. repeat split; reflexivity. Qed.

(* ---- non-vacuity: a disciplined trace with two workers, a wait, a wake-up, a spurious wake-up, out-of-order
   joins, unwrap, a second batch on the same pool and drop; every hypothesis of the theorems holds of it ---- *)
Definition demo_trace : list move :=
  [MWorker 0; MWorker 1;                       (* both workers go to sleep *)
   MBegin; MSpawn 5; MSpawn 6;                 (* notify_all twice *)
   MWorker 0; MWorker 0;                       (* wakes, pops job 0 *)
   MJoin 1;                                    (* result of 1 not there: submitter waits *)
   MSpurious 0%nat; MJoin 1;                       (* spurious wake-up, re-check, waits again *)
   MWorker 1; MWorker 1;                       (* second worker pops job 1 *)
   MWorker 1; MWorker 1; MWorker 1;            (* runs it, drops its Arc, publishes: notify_all *)
   MJoin 1;                                    (* join 1 returns *)
   MWorker 0; MWorker 0; MWorker 0;            (* job 0 *)
   MJoin 0; MUnwrap;
   MBegin; MSpawn 9; MWorker 0; MWorker 0; MWorker 0; MWorker 0; MJoin 2; MUnwrap;
   MDrop; MWorker 0; MWorker 1; MReap; MReap].

Example demo_ok :
  bdisc_trace idf all_ok (init 2) demo_trace /\
  match run idf all_ok (init 2) demo_trace with
  | Some (Ok s) => sub s = SDone /\ wpcs s = [WExited; WExited] /\ joined s = [(2, 9); (0, 5); (1, 6)]
                   /\ map snd (unwraps s) = [true; true] /\ executed s = [2; 0; 1]
  | _ => False
  end.
Proof. vm_compute. repeat split; reflexivity. Qed.

(* ---------------------------------------------------------------------------------------------------------- *)
(* the statements of props/C07.v *)
Lemma thm_safety : forall (jf : N -> N) (job_ok : N -> bool), (forall a, job_ok a = true) ->
  forall (n : nat) (tr : list move),
    N.of_nat (length tr) < 2 ^ 63 -> bdisc_trace jf job_ok (init n) tr ->
    match run jf job_ok (init n) tr with
    | None => True
    | Some (Panic _) => False
    | Some (Ok s) => Inv jf s /\ BInv s /\ Bnd (N.of_nat (length tr)) s
    end.
Proof.
  intros jf job_ok Hj n tr Hl Hd. destruct (inv_init jf n) as (HI & HB & HBI & _).
  exact (run_safe_batch jf job_ok Hj tr 0 (init n) Hl HI HB HBI Hd).
Qed.

Lemma thm_once : forall jf job_ok, (forall a, job_ok a = true) -> forall n s,
  reachable jf job_ok n s -> forall w, (exec_count s w <= 1)%nat.
Proof. intros jf job_ok Hj n s R. exact (inv_exec_once jf s (proj1 (reachable_inv jf job_ok Hj n s R))). Qed.

Lemma thm_routed : forall jf job_ok, (forall a, job_ok a = true) -> forall n s,
  reachable jf job_ok n s -> forall w v, In (w, v) (joined s) ->
  exec_count s w = 1%nat /\
  exists j, In j (spawned s) /\ j_id j = w /\ v = jf (j_arg j)
            /\ (forall j', In j' (spawned s) -> j_id j' = w -> j' = j).
Proof. intros jf job_ok Hj n s R. exact (inv_joined jf s (proj1 (reachable_inv jf job_ok Hj n s R))). Qed.

Lemma thm_spec : forall jf job_ok, (forall a, job_ok a = true) -> forall n s,
  reachable jf job_ok n s -> spec_ok jf (summary_of s true) = true.
Proof. intros jf job_ok Hj n s R. exact (model_meets_spec jf s (proj1 (reachable_inv jf job_ok Hj n s R))). Qed.

Lemma thm_owner : forall jf job_ok, (forall a, job_ok a = true) -> forall n s a,
  reachable jf job_ok n s -> handles s = [] -> sub s = SIdle -> cur_arc s = Some a -> strong s a = 1.
Proof.
  intros jf job_ok Hj n s a R Hh Hs. apply (inv_owner jf s a (proj1 (reachable_inv jf job_ok Hj n s R)) Hh).
  rewrite Hs. reflexivity.
Qed.

Lemma thm_nolost : forall jf job_ok, (forall a, job_ok a = true) -> forall n s,
  reachable jf job_ok n s ->
  exists lj lr, Rep (jobs (wq s)) lj /\ Rep (results (wq s)) lr /\
    (forall t, In t (waiters s) -> wait_ok s lj lr t) /\
    (wpcs s <> [] ->
     In 0%nat (waiters s) \/ (immediate_shutdown (wq s) = false /\ (lj <> [] \/ 0 < num_in_progress (wq s))) ->
     exists i, enabled jf job_ok s (MWorker i) = true).
Proof.
  intros jf job_ok Hj n s R. destruct (reachable_inv jf job_ok Hj n s R) as [HI HB].
  exact (nolost jf job_ok s HI HB).
Qed.

Lemma thm_deadlock_free : forall jf job_ok, (forall a, job_ok a = true) -> forall n s,
  reachable jf job_ok n s -> wpcs s <> [] ->
  sub s = SIdle
  \/ (sub s = SDone /\ forall i pc, nth_error (wpcs s) i = Some pc -> pc = WExited)
  \/ exists m, thread_move m /\ enabled jf job_ok s m = true.
Proof.
  intros jf job_ok Hj n s R. destruct (reachable_inv jf job_ok Hj n s R) as [HI HB].
  exact (deadlock_free jf job_ok s HI HB).
Qed.

Lemma thm_drop : forall jf job_ok, (forall a, job_ok a = true) -> forall n s,
  reachable jf job_ok n s -> immediate_shutdown (wq s) = true ->
  forall i pc, nth_error (wpcs s) i = Some pc ->
    (wdist pc <= 4)%nat /\
    (pc <> WExited -> enabled jf job_ok s (MWorker i) = true) /\
    (forall s', step jf job_ok s (MWorker i) = Some (Ok s') ->
       exists pc', nth_error (wpcs s') i = Some pc' /\ S (wdist pc') = wdist pc /\ immediate_shutdown (wq s') = true) /\
    (forall m s', step jf job_ok s m = Some (Ok s') -> m <> MWorker i ->
       nth_error (wpcs s') i = Some pc /\ immediate_shutdown (wq s') = true).
Proof.
  intros jf job_ok Hj n s R Him i pc Hn. destruct (reachable_inv jf job_ok Hj n s R) as [HI HB].
  split; [destruct pc; cbn; repeat constructor|]. split; [|split].
  - exact (drop_worker_enabled jf job_ok s i pc HI Him Hn).
  - intros s' Hs. exact (drop_worker_step jf job_ok Hj s i pc s' HI Him Hn Hs).
  - intros m s' Hs Hm. split; [rewrite (other_moves_keep jf job_ok s m s' i Hs Hm); exact Hn|].
    exact (imm_stays jf job_ok s m s' Hs Him).
Qed.

Lemma thm_boundary_safe : forall (jf : N -> N) (job_ok : N -> bool), (forall a, job_ok a = true) ->
  forall (n : nat) (tr : list move),
    N.of_nat (length tr) < 2 ^ 63 -> disc_trace jf job_ok (init n) tr ->
    match run jf job_ok (init n) tr with
    | None => True
    | Some (Panic _) => False
    | Some (Ok s) => Inv jf s /\ outstanding s <= 16
    end.
Proof.
  intros jf job_ok Hj n tr Hl Hd. destruct (inv_init jf n) as (HI & HB & _ & HD).
  pose proof (run_safe jf job_ok Hj tr 0 (init n) Hl HI HB HD Hd) as P.
  destruct (run jf job_ok (init n) tr) as [[s|p]|]; auto. destruct P as (P1 & P2 & _). split; assumption.
Qed.

Lemma thm_boundary_refuted :
  spawn_admits 16 = true /\ spawn_admits 17 = false /\
  run idf all_ok (init 1) tr_jobs_full = Some (Panic PUnwrapJobsPush) /\
  run idf all_ok (init 1) tr_results_full = Some (Panic PUnwrapResultsPush).
Proof.
  exact (conj (proj1 boundary_admits) (conj (proj2 boundary_admits) (conj boundary_jobs_panic boundary_results_panic))).
Qed.
