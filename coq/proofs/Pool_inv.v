(* Invariant of the worker-pool transition system (DESIGN appendix D, I1-I5) and helper lemmas. *)
From Coq Require Import NArith ZArith List Bool Lia Arith Permutation.
From V Require Import lib.Words gen.GenPool spec.PoolSpec model.Pool proofs.Queue_proofs.
Import ListNotations.
Open Scope N_scope.

Notation cnt := (count_occ N.eq_dec).

Lemma cnt_nil w : cnt [] w = 0%nat.
Proof. reflexivity. Qed.

Lemma cnt_cons x l w : cnt (x :: l) w = ((if N.eqb x w then 1 else 0) + cnt l w)%nat.
Proof.
  destruct (N.eqb_spec x w) as [E|E].
  - rewrite (count_occ_cons_eq N.eq_dec l E). reflexivity.
  - rewrite (count_occ_cons_neq N.eq_dec l E). reflexivity.
Qed.

Lemma cnt_app l1 l2 w : cnt (l1 ++ l2) w = (cnt l1 w + cnt l2 w)%nat.
Proof. apply count_occ_app. Qed.

Lemma cnt_perm l1 l2 w : Permutation l1 l2 -> cnt l1 w = cnt l2 w.
Proof. intros P. revert w. apply (Permutation_count_occ N.eq_dec). exact P. Qed.

Lemma cnt_zero_nil l : (forall w, cnt l w = 0%nat) -> l = [].
Proof.
  destruct l as [|x l]; [reflexivity|]. intros H. specialize (H x). rewrite cnt_cons, N.eqb_refl in H. lia.
Qed.

Lemma cnt_In l w : (0 < cnt l w)%nat <-> In w l.
Proof. split; intros H; apply (count_occ_In N.eq_dec); lia || exact H. Qed.

Lemma cnt_remove_N w l x : In w l -> (cnt (remove_N w l) x + (if N.eqb w x then 1 else 0) = cnt l x)%nat.
Proof.
  induction l as [|h t IH]; intros H; [destruct H|]. cbn [remove_N].
  destruct (N.eqb_spec w h) as [->|Hne].
  - rewrite cnt_cons. lia.
  - destruct H as [H|H]; [congruence|]. rewrite !cnt_cons. specialize (IH H). lia.
Qed.

Lemma mem_N_In w l : mem_N w l = true <-> In w l.
Proof.
  unfold mem_N. rewrite existsb_exists. split.
  - intros (x & Hx & E). apply N.eqb_eq in E. subst. exact Hx.
  - intros H. exists w. split; [exact H|apply N.eqb_refl].
Qed.

Lemma mem_nat_In t l : mem_nat t l = true <-> In t l.
Proof.
  unfold mem_nat. rewrite existsb_exists. split.
  - intros (x & Hx & E). apply Nat.eqb_eq in E. subst. exact Hx.
  - intros H. exists t. split; [exact H|apply Nat.eqb_refl].
Qed.

Lemma In_remove_nat t x l : In x (remove_nat t l) -> In x l.
Proof.
  induction l as [|h r IH]; cbn; [tauto|]. destruct (Nat.eqb t h); cbn; intros H; [right; auto|].
  destruct H; [left; assumption|right; auto].
Qed.

(* ---- lists of per-worker data ---- *)
Lemma set_nth_len {A} (l : list A) i x : length (set_nth l i x) = length l.
Proof. apply set_nth_length. Qed.

Lemma nth_error_set_nth {A} (l : list A) i k x :
  nth_error (set_nth l i x) k = if Nat.eqb k i then (if Nat.ltb i (length l) then Some x else None) else nth_error l k.
Proof.
  destruct (Nat.eqb_spec k i) as [->|Hne].
  - destruct (Nat.ltb_spec i (length l)) as [L|G].
    + apply nth_error_set_nth_same. exact L.
    + apply nth_error_None. rewrite set_nth_length. exact G.
  - apply nth_error_set_nth_other. exact Hne.
Qed.

Lemma flat_map_set_nth_cnt {A} (f : A -> list N) (l : list A) i old new w :
  nth_error l i = Some old ->
  (cnt (flat_map f (set_nth l i new)) w + cnt (f old) w = cnt (flat_map f l) w + cnt (f new) w)%nat.
Proof.
  revert i; induction l as [|h t IH]; intros [|i] H; cbn in H; try discriminate.
  - inversion H; subst. cbn [set_nth flat_map]. rewrite !cnt_app. lia.
  - cbn [set_nth flat_map]. rewrite !cnt_app. specialize (IH i H). lia.
Qed.

Lemma flat_map_set_nth_len {A B} (f : A -> list B) (l : list A) i old new :
  nth_error l i = Some old ->
  (length (flat_map f (set_nth l i new)) + length (f old) = length (flat_map f l) + length (f new))%nat.
Proof.
  revert i; induction l as [|h t IH]; intros [|i] H; cbn in H; try discriminate.
  - inversion H; subst. cbn [set_nth flat_map]. rewrite !app_length. lia.
  - cbn [set_nth flat_map]. rewrite !app_length. specialize (IH i H). lia.
Qed.

(* ---- what a worker holds ---- *)
Definition w_ids (pc : wpc) : list N :=
  match pc with WHolding j | WRan j _ => [j_id j] | WDropped id _ => [id] | _ => [] end.
Definition w_done (pc : wpc) : list N :=
  match pc with WRan j _ => [j_id j] | WDropped id _ => [id] | _ => [] end.
Definition w_arcs (pc : wpc) : list N :=
  match pc with WHolding j | WRan j _ => [j_arc j] | _ => [] end.

(* the join handle a submitter blocked inside join is using *)
Definition sub_w (p : spc) : list N := match p with SJoinWait w => [w] | _ => [] end.

Definition spawn_admits (o : N) : bool := if spawn_admits_equal then o <=? MAX_THREADS else o <? MAX_THREADS.

(* both comparisons the code could use admit a submission when at most 15 items are outstanding *)
Lemma spawn_admits_small o : o <= 15 -> spawn_admits o = true.
Proof.
  intros H. unfold spawn_admits.
  generalize spawn_admits_equal. intros [|]; [apply N.leb_le|apply N.ltb_lt]; cbv [MAX_THREADS]; lia.
Qed.

Section Inv.
  Variable jf : N -> N.

  Definition val_ok (s : pstate) (id v : N) : Prop :=
    exists j, In j (spawned s) /\ j_id j = id /\ v = jf (j_arg j).

  Definition wpc_ok (s : pstate) (pc : wpc) : Prop :=
    match pc with
    | WHolding j => In j (spawned s)
    | WRan j v => In j (spawned s) /\ v = jf (j_arg j)
    | WDropped id v => val_ok s id v
    | WKilled => False
    | _ => True
    end.

  (* a thread blocked un-notified has a false wait condition (I4) *)
  Definition wait_ok (s : pstate) (lj : list job) (lr : list reply) (t : tid) : Prop :=
    match t with
    | O => (exists w, sub s = SJoinWait w /\ cnt (map r_id lr) w = 0%nat)
           \/ (exists a, sub s = SSpawnWait a /\ spawn_admits (outstanding s) = false)
    | S i => nth_error (wpcs s) i = Some WWaiting /\ lj = [] /\ immediate_shutdown (wq s) = false
    end.

  Record Core (s : pstate) (lj : list job) (lr : list reply) : Prop := mkCore {
    (* I1 *)
    c_nip : num_in_progress (wq s) = N.of_nat (length (flat_map w_ids (wpcs s)));
    (* I2: every work id below cur_work_id is in exactly one of queued / running / result / joined *)
    c_part : forall w, (cnt (map j_id lj) w + cnt (flat_map w_ids (wpcs s)) w + cnt (map r_id lr) w
                        + cnt (map fst (joined s)) w = if N.ltb w (cur_work_id (wq s)) then 1 else 0)%nat;
    (* the join handles in the submitter's hands are exactly the ids not yet joined *)
    c_hand : forall w, (cnt (handles s ++ sub_w (sub s)) w
                        = cnt (map j_id lj) w + cnt (flat_map w_ids (wpcs s)) w + cnt (map r_id lr) w)%nat;
    (* the job bodies that ran *)
    c_exec : forall w, (cnt (executed s) w
                        = cnt (flat_map w_done (wpcs s)) w + cnt (map r_id lr) w + cnt (map fst (joined s)) w)%nat;
    (* I5 *)
    c_arc : forall a, strong s a = (match cur_arc s with Some b => if b =? a then 1 else 0 | None => 0 end)
                                   + N.of_nat (cnt (map j_arc lj) a + cnt (flat_map w_arcs (wpcs s)) a);
    c_fresh : forall a, next_arc s <= a ->
                        cnt (map j_arc lj) a = 0%nat /\ cnt (flat_map w_arcs (wpcs s)) a = 0%nat /\ cur_arc s <> Some a;
    (* routing: every value in flight is the value of the job with that id *)
    c_jobs : forall j, In j lj -> In j (spawned s);
    c_wpc : forall i pc, nth_error (wpcs s) i = Some pc -> wpc_ok s pc;
    c_res : forall r, In r lr -> val_ok s (r_id r) (r_val r);
    c_join : forall w v, In (w, v) (joined s) -> val_ok s w v;
    c_spawned : forall j, In j (spawned s) -> j_id j < cur_work_id (wq s);
    c_nodup : NoDup (map j_id (spawned s));
    (* I4 *)
    c_wait : forall t, In t (waiters s) -> wait_ok s lj lr t;
    c_lock : lock_owner s = None;
    c_shut : shutdown (wq s) = false;
    (* Drop *)
    c_imm : immediate_shutdown (wq s) = true <-> ((exists k, sub s = SReaping k) \/ sub s = SDone);
    c_exited : forall i, nth_error (wpcs s) i = Some WExited -> immediate_shutdown (wq s) = true;
    c_reap : forall k, sub s = SReaping k -> forall i, (i < k)%nat -> nth_error (wpcs s) i = Some WExited;
    c_done : sub s = SDone -> forall i pc, nth_error (wpcs s) i = Some pc -> pc = WExited;
    (* a submitter waiting inside spawn still holds its spawner *)
    c_spw : forall a, sub s = SSpawnWait a -> cur_arc s <> None;
    (* C07_owner, recorded: an unwrap made after every join handle was consumed succeeded *)
    c_unw : forall a b c, In (a, b, c) (unwraps s) -> b = true -> c = true
  }.

  Definition Inv (s : pstate) : Prop :=
    exists lj lr, Rep (jobs (wq s)) lj /\ Rep (results (wq s)) lr /\ Core s lj lr.

  (* I3, under the discipline of the property: batches of at most 15 spawns started when nothing is outstanding *)
  Definition BInv (s : pstate) : Prop := outstanding s <= batch_n s /\ batch_n s <= 15.

  Definition bdisc (s : pstate) (m : move) : Prop :=
    match m with
    | MBegin => outstanding s = 0
    | MSpawn _ => batch_n s < 15
    | _ => True
    end.

  (* the exact boundary: a job is only submitted while at most 15 items are outstanding *)
  Definition DInv (s : pstate) : Prop := outstanding s <= 16.

  Definition disciplined (s : pstate) (m : move) : Prop :=
    match m with
    | MSpawn _ => outstanding s <= 15
    | _ => True
    end.

  (* step counter bounds that keep the usize/u64 counters from overflowing *)
  Definition Bnd (k : N) (s : pstate) : Prop :=
    cur_work_id (wq s) <= k /\ fq_start (jobs (wq s)) <= k /\ fq_start (results (wq s)) <= k.
End Inv.
