(* No lost wake-up, deadlock freedom, termination of the workers after drop. *)
From Coq Require Import NArith ZArith List Bool Lia Arith Permutation.
From V Require Import lib.Words gen.GenPool spec.PoolSpec model.Pool proofs.Queue_proofs proofs.Pool_inv proofs.Pool_proofs.
Import ListNotations.
Open Scope N_scope.

Section Live.
  Variable jf : N -> N.
  Variable job_ok : N -> bool.
  Hypothesis job_total : forall a, job_ok a = true.

  Notation en := (enabled jf job_ok).

  (* moves that a thread makes on its own (as opposed to the submitter starting a new operation) *)
  Definition thread_move (m : move) : Prop :=
    match m with MWorker _ | MJoin _ | MSpawn _ | MReap => True | _ => False end.

  Lemma worker_enabled s lj lr i pc :
    Core jf s lj lr -> nth_error (wpcs s) i = Some pc -> pc <> WExited ->
    ~ (pc = WWaiting /\ In (S i) (waiters s)) -> en s (MWorker i) = true.
  Proof.
    intros C Hn Hx Hw. unfold enabled. cbn [step]. unfold worker_step. rewrite Hn.
    rewrite (lock_free_true jf s lj lr C).
    destruct pc; try reflexivity.
    - destruct (mem_nat (S i) (waiters s)) eqn:E; [|reflexivity]. exfalso. apply Hw. split; [reflexivity|]. apply mem_nat_In. exact E.
    - destruct (job_ok (j_arg j)); reflexivity.
    - congruence.
    - exfalso. exact (c_wpc _ _ _ _ C i _ Hn).
  Qed.

  Lemma in_flat_map_nth {A} (f : A -> list N) (l : list A) w :
    In w (flat_map f l) -> exists i x, nth_error l i = Some x /\ In w (f x).
  Proof.
    intros H. apply in_flat_map in H. destruct H as (x & Hx & Hw). apply In_nth_error in Hx. destruct Hx as [i Hi].
    exists i, x. split; assumption.
  Qed.

  Lemma holder_enabled s lj lr w :
    Core jf s lj lr -> In w (flat_map w_ids (wpcs s)) -> exists i, en s (MWorker i) = true.
  Proof.
    intros C H. destruct (in_flat_map_nth _ _ _ H) as (i & pc & Hn & Hw). exists i.
    apply (worker_enabled s lj lr i pc C Hn).
    - intros ->. destruct Hw.
    - intros [-> _]. destruct Hw.
  Qed.

  Lemma queued_enabled s lj lr :
    Core jf s lj lr -> wpcs s <> [] -> immediate_shutdown (wq s) = false -> lj <> [] ->
    exists i, en s (MWorker i) = true.
  Proof.
    intros C Hne Him Hlj. destruct (wpcs s) as [|pc l] eqn:E; [congruence|]. exists 0%nat.
    apply (worker_enabled s lj lr 0 pc C); [rewrite E; reflexivity| |].
    - intros ->. pose proof (c_exited _ _ _ _ C 0%nat) as X. rewrite E in X. specialize (X eq_refl). congruence.
    - intros [-> Hin]. pose proof (c_wait _ _ _ _ C _ Hin) as W. cbn in W. destruct W as (_ & W & _). congruence.
  Qed.

  (* I4 and its consequence: whoever is blocked un-notified has a false wait condition, and if the submitter is
     blocked, or work is queued or running, some worker can move *)
  Theorem nolost s :
    Inv jf s -> BInv s ->
    exists lj lr, Rep (jobs (wq s)) lj /\ Rep (results (wq s)) lr /\
      (forall t, In t (waiters s) -> wait_ok s lj lr t) /\
      (wpcs s <> [] ->
       In 0%nat (waiters s) \/ (immediate_shutdown (wq s) = false /\ (lj <> [] \/ 0 < num_in_progress (wq s))) ->
       exists i, en s (MWorker i) = true).
  Proof.
    intros (lj & lr & RJ & RR & C) [D1 D2]. exists lj, lr. split; [exact RJ|]. split; [exact RR|].
    split; [exact (c_wait _ _ _ _ C)|].
    intros Hne [H0|(Him & [Hq|Hp])].
    - pose proof (c_wait _ _ _ _ C _ H0) as W. cbn [wait_ok] in W. destruct W as [(w & Hs & Hz)|(a & Hs & Hadm)].
      + assert (Him : immediate_shutdown (wq s) = false).
        { apply (not_reaping jf s lj lr C). right. right. exists w. exact Hs. }
        pose proof (c_hand _ _ _ _ C w) as Hh. rewrite Hs in Hh. cbn [sub_w] in Hh.
        rewrite cnt_app, cnt_cons, N.eqb_refl, cnt_nil in Hh.
        destruct (cnt (flat_map w_ids (wpcs s)) w) eqn:Ew.
        * apply (queued_enabled s lj lr C Hne Him). intros ->. cbn in Hh. lia.
        * apply (holder_enabled s lj lr w C). apply (cnt_In _ w). lia.
      + rewrite spawn_admits_small in Hadm by lia. discriminate.
    - apply (queued_enabled s lj lr C Hne Him Hq).
    - pose proof (c_nip _ _ _ _ C) as En.
      destruct (flat_map w_ids (wpcs s)) as [|w l] eqn:E; [cbn in En; lia|].
      apply (holder_enabled s lj lr w C). rewrite E. left. reflexivity.
  Qed.

  Lemma reap_progress s lj lr k :
    Core jf s lj lr -> sub s = SReaping k -> en s MReap = true \/ en s (MWorker k) = true.
  Proof.
    intros C Hs. unfold enabled at 1. cbn [step]. unfold sub_reap. rewrite Hs.
    destruct (nth_error (wpcs s) k) as [pc|] eqn:Hn; [|left; reflexivity].
    destruct pc; try (left; reflexivity); right; apply (worker_enabled s lj lr k _ C Hn); try discriminate;
      intros [_ Hin]; pose proof (c_wait _ _ _ _ C _ Hin) as W; cbn in W; destruct W as (_ & _ & W);
      assert (immediate_shutdown (wq s) = true) by (apply (c_imm _ _ _ _ C); left; exists k; exact Hs); congruence.
  Qed.

  (* no reachable state is a deadlock: either the submitter is between two operations (the environment moves), or
     everything has terminated, or some thread can take a step *)
  Theorem deadlock_free s :
    Inv jf s -> BInv s -> wpcs s <> [] ->
    sub s = SIdle
    \/ (sub s = SDone /\ forall i pc, nth_error (wpcs s) i = Some pc -> pc = WExited)
    \/ exists m, thread_move m /\ en s m = true.
  Proof.
    intros HI HD Hne. destruct (nolost s HI HD) as (lj & lr & RJ & RR & HW & HP).
    destruct HI as (lj' & lr' & RJ' & RR' & C).
    assert (lj' = lj) by (eapply Rep_unique; eassumption). assert (lr' = lr) by (eapply Rep_unique; eassumption). subst.
    pose proof (lock_free_true jf s lj lr C) as LF.
    destruct (sub s) eqn:Hs.
    - left. reflexivity.
    - right. right. destruct (mem_nat 0 (waiters s)) eqn:Hm.
      + apply mem_nat_In in Hm. destruct (HP Hne (or_introl Hm)) as [i Hi]. exists (MWorker i). split; [exact I|exact Hi].
      + exists (MSpawn arg). split; [exact I|]. unfold enabled. cbn [step]. unfold sub_spawn.
        destruct (cur_arc s) eqn:Hc; [|exfalso; exact (c_spw _ _ _ _ C _ Hs Hc)].
        rewrite Hs, N.eqb_refl, Hm, LF. reflexivity.
    - right. right. destruct (mem_nat 0 (waiters s)) eqn:Hm.
      + apply mem_nat_In in Hm. destruct (HP Hne (or_introl Hm)) as [i Hi]. exists (MWorker i). split; [exact I|exact Hi].
      + exists (MJoin w). split; [exact I|]. unfold enabled. cbn [step]. unfold sub_join.
        rewrite Hs, N.eqb_refl, Hm, LF. reflexivity.
    - right. right. destruct (reap_progress s lj lr k C Hs) as [H|H].
      + exists MReap. split; [exact I|exact H].
      + exists (MWorker k). split; [exact I|exact H].
    - right. left. split; [reflexivity|]. apply (c_done _ _ _ _ C Hs).
  Qed.

  (* ------------------------------------------------------------------ after drop *)
  (* own steps a worker still needs before it has exited, once immediate_shutdown is set *)
  Definition wdist (pc : wpc) : nat :=
    match pc with
    | WTop => 1 | WWaiting => 2 | WHolding _ => 4 | WRan _ _ => 3 | WDropped _ _ => 2 | WExited => 0 | WKilled => 0
    end.

  Lemma nth_error_set_nth_eq {A} (l : list A) i x y : nth_error l i = Some y -> nth_error (set_nth l i x) i = Some x.
  Proof. intros H. apply nth_error_set_nth_same. apply nth_error_Some. congruence. Qed.

  Ltac split_match H :=
    repeat match type of H with
    | context[match ?x with _ => _ end] => destruct x eqn:?; try discriminate
    | context[if ?x then _ else _] => destruct x eqn:?; try discriminate
    end.

  (* one own step of a worker after immediate_shutdown: it never blocks, and it gets one step closer to exit *)
  Lemma drop_worker_step s i pc s' :
    Inv jf s -> immediate_shutdown (wq s) = true -> nth_error (wpcs s) i = Some pc ->
    step jf job_ok s (MWorker i) = Some (Ok s') ->
    exists pc', nth_error (wpcs s') i = Some pc' /\ S (wdist pc') = wdist pc
                /\ immediate_shutdown (wq s') = true.
  Proof.
    intros (lj & lr & RJ & RR & C) Him Hn H. cbn [step] in H. unfold worker_step in H. rewrite Hn in H.
    rewrite (lock_free_true jf s lj lr C) in H.
    destruct pc.
    - unfold worker_top in H. rewrite Him in H. inversion H; subst s'; clear H.
      eexists; red_s; rewrite (nth_error_set_nth_eq _ _ _ _ Hn); auto.
    - destruct (mem_nat (S i) (waiters s)); [discriminate|]. inversion H; subst s'; clear H.
      eexists; red_s; rewrite (nth_error_set_nth_eq _ _ _ _ Hn); auto.
    - rewrite job_total in H. inversion H; subst s'; clear H.
      eexists; red_s; rewrite (nth_error_set_nth_eq _ _ _ _ Hn); auto.
    - inversion H; subst s'; clear H.
      eexists; red_s; rewrite (nth_error_set_nth_eq _ _ _ _ Hn); auto.
    - unfold worker_publish in H. split_match H; inversion H; subst s'; clear H.
      eexists; red_s; rewrite (nth_error_set_nth_eq _ _ _ _ Hn); auto.
    - discriminate.
    - discriminate.
  Qed.

  Lemma drop_worker_enabled s i pc :
    Inv jf s -> immediate_shutdown (wq s) = true -> nth_error (wpcs s) i = Some pc -> pc <> WExited ->
    en s (MWorker i) = true.
  Proof.
    intros (lj & lr & RJ & RR & C) Him Hn Hx. apply (worker_enabled s lj lr i pc C Hn Hx).
    intros [_ Hin]. pose proof (c_wait _ _ _ _ C _ Hin) as W. cbn in W. destruct W as (_ & _ & W). congruence.
  Qed.

  (* nobody else touches a worker's program counter, and the flag is never reset *)
  Lemma other_moves_keep s m s' i :
    step jf job_ok s m = Some (Ok s') -> m <> MWorker i ->
    nth_error (wpcs s') i = nth_error (wpcs s) i.
  Proof.
    intros H Hm. destruct m as [j| |arg|w| | | |t]; cbn [step] in H.
    - assert (Hji : j <> i) by congruence.
      unfold worker_step in H. destruct (nth_error (wpcs s) j) as [pc|] eqn:Hn; [|discriminate].
      destruct pc; unfold worker_top, worker_publish in H; split_match H; inversion H; subst s'; red_s;
        apply nth_error_set_nth_other; congruence.
    - unfold sub_begin in H. split_match H; inversion H; subst s'; reflexivity.
    - unfold sub_spawn, spawn_cs in H. split_match H; inversion H; subst s'; reflexivity.
    - unfold sub_join, join_cs in H. split_match H; inversion H; subst s'; reflexivity.
    - unfold sub_unwrap in H. split_match H; inversion H; subst s'; reflexivity.
    - unfold sub_drop in H. split_match H; inversion H; subst s'; reflexivity.
    - unfold sub_reap in H. split_match H; inversion H; subst s'; reflexivity.
    - unfold spurious in H. split_match H; inversion H; subst s'; reflexivity.
  Qed.

  Lemma imm_stays s m s' :
    step jf job_ok s m = Some (Ok s') -> immediate_shutdown (wq s) = true -> immediate_shutdown (wq s') = true.
  Proof.
    intros H Him. destruct m as [j| |arg|w| | | |t]; cbn [step] in H.
    - unfold worker_step in H. destruct (nth_error (wpcs s) j) as [pc|] eqn:Hn; [|discriminate].
      destruct pc; unfold worker_top, worker_publish in H; split_match H; inversion H; subst s'; red_s; congruence.
    - unfold sub_begin in H. split_match H; inversion H; subst s'; exact Him.
    - unfold sub_spawn, spawn_cs in H. split_match H; inversion H; subst s'; exact Him.
    - unfold sub_join, join_cs in H. split_match H; inversion H; subst s'; exact Him.
    - unfold sub_unwrap in H. split_match H; inversion H; subst s'; exact Him.
    - unfold sub_drop in H. split_match H; inversion H; subst s'; reflexivity.
    - unfold sub_reap in H. split_match H; inversion H; subst s'; exact Him.
    - unfold spurious in H. split_match H; inversion H; subst s'; exact Him.
  Qed.

  (* the critical section of Drop sets the flag (and notifies everybody) *)
  Lemma drop_sets_flag s s' : step jf job_ok s MDrop = Some (Ok s') -> immediate_shutdown (wq s') = true /\ waiters s' = [].
  Proof.
    cbn [step]. unfold sub_drop. intros H. split_match H; inversion H; subst s'. split; reflexivity.
  Qed.
End Live.
