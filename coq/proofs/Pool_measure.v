(* A measure that every step of a pool thread decreases: workers cannot stutter for ever, so (with deadlock
   freedom) every schedule without further spurious wake-ups brings a pending join / drop to its end. *)
From Coq Require Import NArith ZArith List Bool Lia Arith Permutation.
From V Require Import lib.Words gen.GenPool spec.PoolSpec model.Pool proofs.Queue_proofs proofs.Pool_inv proofs.Pool_proofs
  proofs.Pool_live proofs.Pool_final.
Import ListNotations.
Open Scope nat_scope.

(* remaining worker steps of a job in hand *)
Definition stage (pc : wpc) : nat :=
  match pc with WHolding _ => 3 | WRan _ _ => 2 | WDropped _ _ => 1 | _ => 0 end.

(* work still to do: 4 steps for every queued job, `stage` for every job in hand *)
Definition mu (s : pstate) : nat := 4 * N.to_nat (fq_size (jobs (wq s))) + list_sum (map stage (wpcs s)).

(* steps a worker can take without anybody making progress: at the top of the loop it can go to sleep (1); woken
   inside wait it can return to the top and go to sleep again (2); asleep and not notified: none *)
Definition awake (ws : list tid) (i : nat) (pc : wpc) : nat :=
  match pc with WTop => 1 | WWaiting => if mem_nat (S i) ws then 0 else 2 | _ => 0 end.

Fixpoint nuw (ws : list tid) (l : list wpc) (i0 : nat) : nat :=
  match l with [] => 0 | pc :: l' => awake ws i0 pc + nuw ws l' (S i0) end.

Definition nus (s : pstate) : nat :=
  match sub s with
  | SSpawnWait _ | SJoinWait _ => if mem_nat 0 (waiters s) then 0 else 1
  | _ => 0
  end.

Definition nu (s : pstate) : nat := nuw (waiters s) (wpcs s) 0 + nus s.

Definition measure (s : pstate) : nat := mu s * (2 * length (wpcs s) + 2) + nu s.

Lemma nuw_bound ws l i0 : nuw ws l i0 <= 2 * length l.
Proof.
  revert i0; induction l as [|pc l IH]; intros i0; cbn [nuw length]; [lia|].
  specialize (IH (S i0)). assert (awake ws i0 pc <= 2) by (unfold awake; destruct pc; try lia; destruct (mem_nat _ _); lia). lia.
Qed.

Lemma nu_bound s : nu s <= 2 * length (wpcs s) + 1.
Proof.
  unfold nu. pose proof (nuw_bound (waiters s) (wpcs s) 0).
  assert (nus s <= 1) by (unfold nus; destruct (sub s); try lia; destruct (mem_nat _ _); lia). lia.
Qed.

Lemma nuw_pointwise ws1 ws2 l1 : forall l2 i0, length l1 = length l2 ->
  (forall j pc1 pc2, nth_error l1 j = Some pc1 -> nth_error l2 j = Some pc2 -> awake ws1 (i0 + j) pc1 = awake ws2 (i0 + j) pc2) ->
  nuw ws1 l1 i0 = nuw ws2 l2 i0.
Proof.
  induction l1 as [|a l1 IH]; intros [|b l2] i0 L H; cbn in L; try lia; [reflexivity|].
  cbn [nuw]. f_equal.
  - specialize (H 0 a b eq_refl eq_refl). rewrite Nat.add_0_r in H. exact H.
  - apply IH; [lia|]. intros j pc1 pc2 H1 H2. specialize (H (S j) pc1 pc2 H1 H2). rewrite Nat.add_succ_r in H. exact H.
Qed.

Lemma nuw_set_nth ws l : forall i i0 old new, nth_error l i = Some old ->
  nuw ws (set_nth l i new) i0 + awake ws (i0 + i) old = nuw ws l i0 + awake ws (i0 + i) new.
Proof.
  induction l as [|a l IH]; intros [|i] i0 old new H; cbn in H; try discriminate.
  - inversion H; subst. cbn [set_nth nuw]. rewrite Nat.add_0_r. clear. lia.
  - cbn [set_nth nuw]. specialize (IH i (S i0) old new H). rewrite Nat.add_succ_r. cbn [Nat.add] in IH. lia.
Qed.

Lemma sum_set_nth (l : list wpc) : forall i old new, nth_error l i = Some old ->
  list_sum (map stage (set_nth l i new)) + stage old = list_sum (map stage l) + stage new.
Proof.
  induction l as [|a l IH]; intros [|i] old new H; cbn in H; try discriminate.
  - inversion H; subst. unfold list_sum. cbn [set_nth map fold_right]. lia.
  - specialize (IH i old new H). unfold list_sum in *. cbn [set_nth map fold_right]. lia.
Qed.

Lemma mem_nat_cons t x l : mem_nat t (x :: l) = (Nat.eqb t x || mem_nat t l)%bool.
Proof. reflexivity. Qed.

(* the same worker list seen with one more sleeper t: only the entry of t can change *)
Lemma awake_cons_other ws t j pc : S j <> t -> awake (t :: ws) j pc = awake ws j pc.
Proof.
  intros H. unfold awake. destruct pc; try reflexivity. rewrite mem_nat_cons.
  destruct (Nat.eqb_spec (S j) t); [contradiction|]. reflexivity.
Qed.

Section Measure.
  Variable jf : N -> N.
  Variable job_ok : N -> bool.
  Hypothesis job_total : forall a, job_ok a = true.

  (* mu * K + nu with nu <= K - 1: a decrease of mu pays for any change of nu *)
  Lemma measure_mu_drop s s' :
    length (wpcs s') = length (wpcs s) -> mu s' + 1 <= mu s -> measure s' < measure s.
  Proof.
    intros L H. unfold measure. rewrite L. pose proof (nu_bound s') as B. rewrite L in B.
    set (K := 2 * length (wpcs s) + 2) in *.
    assert (mu s' * K + K <= mu s * K) by nia. lia.
  Qed.

  Lemma measure_nu_drop s s' :
    length (wpcs s') = length (wpcs s) -> mu s' = mu s -> nu s' < nu s -> measure s' < measure s.
  Proof. intros L H1 H2. unfold measure. rewrite L, H1. lia. Qed.

  Ltac red_m := unfold mu, nu, nus; red_s.

  (* every step of a worker decreases the measure *)
  Theorem worker_step_decreases k s i s' :
    (k < 2 ^ 63)%N -> Inv jf s -> Bnd k s -> step jf job_ok s (MWorker i) = Some (Ok s') -> measure s' < measure s.
  Proof.
    intros Hk (lj & lr & RJ & RR & C) (B1 & B2 & B3) H. pose proof pow63 as [P63 P63b].
    cbn [step] in H. unfold worker_step in H. destruct (nth_error (wpcs s) i) as [pc|] eqn:Hn; [|discriminate].
    rewrite (lock_free_true jf s lj lr C) in H.
    pose proof (sum_set_nth (wpcs s) i pc) as HS. specialize (fun new => HS new Hn).
    pose proof (fun ws new => nuw_set_nth ws (wpcs s) i 0 pc new Hn) as HN. cbn [Nat.add] in HN.
    destruct pc as [| |j|j v|id v| |].
    - (* WTop *)
      inversion H as [H1]; clear H. unfold worker_top in H1.
      destruct (immediate_shutdown (wq s)) eqn:Him.
      + inversion H1; subst s'; clear H1. apply measure_nu_drop; red_m; [apply set_nth_length| |].
        * specialize (HS WExited). cbn [stage] in HS. lia.
        * specialize (HN (waiters s) WExited). cbn [awake] in HN. lia.
      + destruct lj as [|j lj].
        * rewrite (pop_empty _ RJ) in H1. rewrite (c_shut _ _ _ _ C) in H1. inversion H1; subst s'; clear H1.
          apply measure_nu_drop; red_m; [apply set_nth_length| |].
          -- specialize (HS WWaiting). cbn [stage] in HS. lia.
          -- (* the new sleeper counts 0; everybody else is unchanged *)
             assert (E : nuw (@cons tid (S i) (waiters s)) (set_nth (wpcs s) i WWaiting) 0 = nuw (waiters s) (set_nth (wpcs s) i WExited) 0).
             { apply nuw_pointwise; [rewrite !set_nth_length; reflexivity|]. intros j pc1 pc2. cbn [Nat.add].
               rewrite !nth_error_set_nth. destruct (Nat.eqb_spec j i) as [->|Hne].
               - destruct (Nat.ltb i (length (wpcs s))); [|discriminate]. intros E1 E2. inversion E1; inversion E2; subst.
                 cbn [awake]. rewrite mem_nat_cons, Nat.eqb_refl. reflexivity.
               - intros E1 E2. rewrite E1 in E2. inversion E2; subst. apply awake_cons_other. congruence. }
             rewrite E. specialize (HN (waiters s) WExited). cbn [awake] in HN.
             rewrite mem_nat_cons. cbn [Nat.eqb orb]. lia.
        * destruct (pop_cons _ _ _ RJ ltac:(lia)) as (jobs' & E & RJ' & S'). rewrite E in H1.
          unfold uadd in H1. destruct (N.leb_spec (num_in_progress (wq s) + 1) USIZE_MAX); [|discriminate].
          inversion H1; subst s'; clear H1. apply measure_mu_drop; red_m; [apply set_nth_length|].
          specialize (HS (WHolding j)). cbn [stage] in HS.
          rewrite (rep_size _ _ RJ'), (rep_size _ _ RJ). cbn [length]. lia.
    - (* WWaiting *)
      destruct (mem_nat (S i) (waiters s)) eqn:Hm; [discriminate|]. inversion H; subst s'; clear H.
      apply measure_nu_drop; red_m; [apply set_nth_length| |].
      + specialize (HS WTop). cbn [stage] in HS. lia.
      + specialize (HN (waiters s) WTop). cbn [awake] in HN. rewrite Hm in HN. lia.
    - (* WHolding *)
      rewrite job_total in H. inversion H; subst s'; clear H. apply measure_mu_drop; red_m; [apply set_nth_length|].
      specialize (HS (WRan j (jf (j_arg j)))). cbn [stage] in HS. lia.
    - (* WRan *)
      inversion H; subst s'; clear H. apply measure_mu_drop; red_m; [apply set_nth_length|].
      specialize (HS (WDropped (j_id j) v)). cbn [stage] in HS. lia.
    - (* WDropped *)
      inversion H as [H1]; clear H. unfold worker_publish in H1.
      destruct (usub (num_in_progress (wq s)) 1); [|discriminate].
      destruct (fq_push (results (wq s)) (mkreply id v)) as [[[|] q']|]; try discriminate.
      inversion H1; subst s'; clear H1. apply measure_mu_drop; red_m; [apply set_nth_length|].
      specialize (HS WTop). cbn [stage] in HS. lia.
    - discriminate.
    - discriminate.
  Qed.

  (* a re-check of a blocked join that blocks again also decreases it (the wake-up is used up) *)
  Theorem join_recheck_decreases k s w s' :
    (k < 2 ^ 63)%N -> Inv jf s -> Bnd k s -> sub s = SJoinWait w ->
    step jf job_ok s (MJoin w) = Some (Ok s') -> sub s' <> SIdle -> measure s' < measure s.
  Proof.
    intros Hk (lj & lr & RJ & RR & C) (B1 & B2 & B3) Hs H Hs'. pose proof pow63 as [P63 P63b].
    cbn [step] in H. unfold sub_join in H. rewrite Hs, N.eqb_refl in H.
    destruct (mem_nat 0 (waiters s)) eqn:Hm; [discriminate|]. rewrite (lock_free_true jf s lj lr C) in H. cbn [negb andb] in H.
    inversion H as [H1]; clear H. unfold join_cs in H1.
    destruct (remove_spec (is_reply_for w) _ _ RR ltac:(lia)) as (results' & E & RR' & S'). rewrite E in H1.
    destruct (fst (qs_remove (fun x => is_reply_for w (Some x)) lr)) as [r|].
    - inversion H1; subst s'. exfalso. apply Hs'. reflexivity.
    - inversion H1; subst s'; clear H1. apply measure_nu_drop; red_m; [reflexivity|reflexivity|].
      rewrite Hs, Hm. rewrite mem_nat_cons. cbn [Nat.eqb orb].
      assert (E2 : nuw (@cons tid 0 (waiters s)) (wpcs s) 0 = nuw (waiters s) (wpcs s) 0).
      { apply nuw_pointwise; [reflexivity|]. intros j pc1 pc2 E1 E2. rewrite E1 in E2. inversion E2; subst.
        apply awake_cons_other. discriminate. }
      rewrite E2. lia.
  Qed.

  (* ------------------------------------------------------------------ a pending join comes to its end *)
  (* the moves of the threads while the submitter sits in join w: workers, and the join's own re-checks *)
  Definition pending_move (w : N) (m : move) : Prop :=
    match m with MWorker _ => True | MJoin w' => w' = w | _ => False end.

  (* a run of such moves during which the join has not returned *)
  Inductive pending_run (w : N) : pstate -> list move -> pstate -> Prop :=
  | pr_nil s : pending_run w s [] s
  | pr_cons s m s1 tr s' :
      pending_move w m -> step jf job_ok s m = Some (Ok s1) -> sub s1 = SJoinWait w ->
      pending_run w s1 tr s' -> pending_run w s (m :: tr) s'.

  Lemma pending_move_bdisc w s m : pending_move w m -> bdisc s m.
  Proof. destruct m; cbn; intros H; try exact I; destruct H. Qed.

  Lemma pending_run_bounded w tr : forall k s s',
    (k + N.of_nat (length tr) < 2 ^ 63)%N -> Inv jf s -> BInv s -> Bnd k s -> sub s = SJoinWait w ->
    pending_run w s tr s' ->
    length tr + measure s' <= measure s /\ Inv jf s' /\ BInv s' /\ sub s' = SJoinWait w.
  Proof.
    induction tr as [|m tr IH]; intros k s s' Hk HI HB HBd Hs HR; inversion HR; subst.
    - split; [cbn; lia|]. split; [assumption|]. split; assumption.
    - cbn [length] in Hk |- *.
      match goal with H : step _ _ _ _ = Some (Ok ?x) |- _ => rename H into Hstep; rename x into s1 end.
      match goal with H : pending_move _ _ |- _ => rename H into Hpm end.
      pose proof (step_post jf job_ok job_total k s m (Ok s1) ltac:(lia) HI HBd Hstep) as P. cbn [Post] in P.
      destruct P as (HI1 & HBd1 & HB1 & _). specialize (HB1 HB (pending_move_bdisc w s m Hpm)).
      assert (D : measure s1 < measure s).
      { destruct m as [i| |a|w'| | | |t]; cbn [pending_move] in Hpm; try contradiction.
        - apply (worker_step_decreases k s i s1 ltac:(lia) HI HBd Hstep).
        - subst w'. apply (join_recheck_decreases k s w s1 ltac:(lia) HI HBd Hs Hstep). congruence. }
      destruct (IH (k + 1)%N s1 s' ltac:(lia) HI1 HB1 HBd1 ltac:(assumption) ltac:(assumption)) as (L & R1 & R2 & R3).
      split; [lia|]. split; [assumption|]. split; assumption.
  Qed.

  Lemma enabled_spawn_sub s a : enabled jf job_ok s (MSpawn a) = true -> sub s = SIdle \/ exists a', sub s = SSpawnWait a'.
  Proof.
    unfold enabled. cbn [step]. unfold sub_spawn. destruct (cur_arc s); [|discriminate].
    destruct (sub s); try discriminate; eauto.
  Qed.

  Lemma enabled_join_sub s w' : enabled jf job_ok s (MJoin w') = true -> sub s = SIdle \/ sub s = SJoinWait w'.
  Proof.
    unfold enabled. cbn [step]. unfold sub_join. destruct (sub s); try discriminate; auto.
    destruct (N.eqb_spec w w') as [->|]; [auto|discriminate].
  Qed.

  Lemma enabled_reap_sub s : enabled jf job_ok s MReap = true -> exists k, sub s = SReaping k.
  Proof. unfold enabled. cbn [step]. unfold sub_reap. destruct (sub s); try discriminate; eauto. Qed.

  (* while the join is pending, some worker or the join itself can move *)
  Lemma pending_progress w s :
    Inv jf s -> BInv s -> wpcs s <> [] -> sub s = SJoinWait w ->
    exists m, pending_move w m /\ enabled jf job_ok s m = true.
  Proof.
    intros HI HB Hne Hs. destruct (deadlock_free jf job_ok s HI HB Hne) as [H|[[H _]|(m & Hm & He)]]; try congruence.
    destruct m; try destruct Hm.
    - exists (MWorker i). split; [exact I|exact He].
    - apply enabled_spawn_sub in He. destruct He as [He|[a' He]]; congruence.
    - pose proof (enabled_join_sub _ _ He) as [H|H]; [congruence|]. rewrite Hs in H. inversion H; subst.
      exists (MJoin w0). split; [reflexivity|exact He].
    - apply enabled_reap_sub in He. destruct He as [k0 He]. congruence.
  Qed.

  (* Termination of join under every schedule of the threads without further spurious wake-ups: the threads can
     take at most `measure s` steps before the join returns, and until it does some thread can take a step. *)
  Theorem join_terminates w k s :
    (k + N.of_nat (measure s) + 1 < 2 ^ 63)%N -> Inv jf s -> BInv s -> Bnd k s -> wpcs s <> [] -> sub s = SJoinWait w ->
    forall tr s', pending_run w s tr s' ->
      length tr <= measure s /\ exists m, pending_move w m /\ enabled jf job_ok s' m = true.
  Proof.
    intros Hk HI HB HBd Hne Hs tr s' HR.
    (* first bound the length without the arithmetic side condition: cut the run at measure s + 1 *)
    assert (Hlen : length tr <= measure s).
    { destruct (Nat.le_gt_cases (length tr) (measure s)) as [L|G]; [exact L|exfalso].
      (* a prefix of length measure s + 1 would contradict the bound *)
      assert (Hpre : forall n tr0 s0 s0', pending_run w s0 tr0 s0' -> n <= length tr0 ->
                       exists s2, pending_run w s0 (firstn n tr0) s2).
      { clear. intros n tr0. revert n. induction tr0 as [|m tr0 IH]; intros n s0 s0' H Hn.
        - inversion H; subst. exists s0'. destruct n; constructor.
        - inversion H; subst. destruct n as [|n]; [exists s0; constructor|].
          cbn [length] in Hn. destruct (IH n s1 s0' ltac:(assumption) ltac:(lia)) as [s2 Hs2].
          exists s2. cbn [firstn]. econstructor; eassumption. }
      destruct (Hpre (S (measure s)) tr s s' HR ltac:(lia)) as [s2 H2].
      pose proof (pending_run_bounded w (firstn (S (measure s)) tr) k s s2) as X.
      rewrite firstn_length_le in X by lia.
      destruct (X ltac:(lia) HI HB HBd Hs H2) as (X1 & _). lia. }
    split; [exact Hlen|].
    destruct (pending_run_bounded w tr k s s' ltac:(lia) HI HB HBd Hs HR) as (_ & HI' & HB' & Hs').
    apply (pending_progress w s' HI' HB'); [|exact Hs'].
    (* the number of workers does not change *)
    clear - HR Hne. induction HR; [exact Hne|]. apply IHHR.
    intros E. apply Hne. apply length_zero_iff_nil. apply length_zero_iff_nil in E.
    rewrite <- E. symmetry. eapply length_wpcs_step. eassumption.
  Qed.
End Measure.

(* ---------------------------------------------------------------------------------------------------------- *)
(* the statements of props/C07.v *)
Open Scope N_scope.

Lemma thm_measure : forall jf job_ok, (forall a, job_ok a = true) -> forall n s,
  reachable jf job_ok n s ->
  (forall i s', step jf job_ok s (MWorker i) = Some (Ok s') -> (measure s' < measure s)%nat) /\
  (forall w s', sub s = SJoinWait w -> step jf job_ok s (MJoin w) = Some (Ok s') -> sub s' <> SIdle ->
                (measure s' < measure s)%nat).
Proof.
  intros jf job_ok Hj n s [k R]. destruct (reachable_in_inv jf job_ok Hj n k s R) as (HI & HB & HBd).
  destruct R as (tr & Hl & Hk & _). split.
  - intros i s' H. exact (worker_step_decreases jf job_ok Hj k s i s' Hk HI HBd H).
  - intros w s' Hs H Hs'. exact (join_recheck_decreases jf job_ok k s w s' Hk HI HBd Hs H Hs').
Qed.

Lemma thm_join_terminates : forall jf job_ok, (forall a, job_ok a = true) -> forall n k s w,
  reachable_in jf job_ok n k s -> (0 < n)%nat -> k + N.of_nat (measure s) + 1 < 2 ^ 63 -> sub s = SJoinWait w ->
  forall tr s', pending_run jf job_ok w s tr s' ->
    (length tr <= measure s)%nat /\ exists m, pending_move w m /\ enabled jf job_ok s' m = true.
Proof.
  intros jf job_ok Hj n k s w R Hn Hk Hs. destruct (reachable_in_inv jf job_ok Hj n k s R) as (HI & HB & HBd).
  apply (join_terminates jf job_ok Hj w k s Hk HI HB HBd); [|exact Hs].
  intros E. pose proof (reachable_workers jf job_ok n s (ex_intro _ k R)) as L. rewrite E in L. cbn in L. lia.
Qed.

(* Full liveness, not proved: in every infinite weakly fair run of the threads (spurious wake-ups allowed, the
   submitter starts nothing new) a pending join returns. *)
Definition live_stmt : Prop :=
  forall jf job_ok, (forall a, job_ok a = true) -> forall n s w,
    reachable jf job_ok n s -> (0 < n)%nat -> sub s = SJoinWait w ->
    forall (sched : nat -> move) (st : nat -> pstate),
      st 0%nat = s ->
      (forall t, step jf job_ok (st t) (sched t) = Some (Ok (st (S t)))) ->
      (forall t, match sched t with MWorker _ | MJoin _ | MSpurious _ => True | _ => False end) ->
      (forall t m, thread_move m -> (forall u, (t <= u)%nat -> enabled jf job_ok (st u) m = true) ->
                   exists u, (t <= u)%nat /\ sched u = m) ->
      exists t, sub (st t) = SIdle.
