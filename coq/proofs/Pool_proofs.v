(* The pool invariant is preserved by every step; no Panic under the discipline of the property. *)
From Coq Require Import NArith ZArith List Bool Lia Arith Permutation.
From V Require Import lib.Words gen.GenPool spec.PoolSpec model.Pool proofs.Queue_proofs proofs.Pool_inv.
Import ListNotations.
Open Scope N_scope.

Ltac red_s :=
  cbn [wq wpcs sub waiters lock_owner executed strong spawned batch_n handles cur_arc next_arc joined unwraps n_notify
       set_wq set_wpcs set_sub set_waiters set_executed set_strong set_spawned set_handles set_arc set_joined
       set_unwraps set_wpc notify_all wait jobs results shutdown immediate_shutdown num_in_progress cur_work_id] in *.

Ltac brk :=
  repeat match goal with
  | H : context[if N.eqb ?a ?b then _ else _] |- _ => destruct (N.eqb_spec a b)
  | |- context[if N.eqb ?a ?b then _ else _] => destruct (N.eqb_spec a b)
  | H : context[if N.ltb ?a ?b then _ else _] |- _ => destruct (N.ltb_spec a b)
  | |- context[if N.ltb ?a ?b then _ else _] => destruct (N.ltb_spec a b)
  end.

Ltac cn := rewrite ?map_app, ?cnt_app, ?cnt_cons, ?cnt_nil in *; cbn [map w_ids w_done w_arcs sub_w length app fst snd] in *;
           rewrite ?cnt_app, ?cnt_cons, ?cnt_nil in *.

(* the three per-worker count equations and the length equation for a change of worker i's pc *)
Ltac wset Hnth new w :=
  pose proof (flat_map_set_nth_cnt w_ids _ _ _ new w Hnth);
  pose proof (flat_map_set_nth_cnt w_done _ _ _ new w Hnth);
  pose proof (flat_map_set_nth_cnt w_arcs _ _ _ new w Hnth).

Section Preserve.
  Variable jf : N -> N.
  Variable job_ok : N -> bool.
  Hypothesis job_total : forall a, job_ok a = true.

  Lemma wpc_ok_mono s s' pc :
    (forall j, In j (spawned s) -> In j (spawned s')) -> wpc_ok jf s pc -> wpc_ok jf s' pc.
  Proof.
    intros M. destruct pc; cbn; auto.
    - intros [H1 H2]; auto.
    - intros (j & H1 & H2 & H3). exists j; auto.
  Qed.

  Lemma val_ok_mono s s' id v :
    (forall j, In j (spawned s) -> In j (spawned s')) -> val_ok jf s id v -> val_ok jf s' id v.
  Proof. intros M (j & H1 & H2 & H3). exists j; auto. Qed.

  Ltac keep C :=
    first [ exact (c_nip _ _ _ _ C) | exact (c_part _ _ _ _ C) | exact (c_hand _ _ _ _ C) | exact (c_exec _ _ _ _ C)
          | exact (c_arc _ _ _ _ C) | exact (c_fresh _ _ _ _ C) | exact (c_jobs _ _ _ _ C) | exact (c_wpc _ _ _ _ C)
          | exact (c_res _ _ _ _ C) | exact (c_join _ _ _ _ C) | exact (c_spawned _ _ _ _ C) | exact (c_nodup _ _ _ _ C)
          | exact (c_wait _ _ _ _ C) | exact (c_lock _ _ _ _ C) | exact (c_shut _ _ _ _ C) | exact (c_imm _ _ _ _ C)
          | exact (c_exited _ _ _ _ C) | exact (c_reap _ _ _ _ C) | exact (c_done _ _ _ _ C) | exact (c_spw _ _ _ _ C)
          | exact (c_unw _ _ _ _ C)
          | match goal with |- forall a, _ = SSpawnWait a -> _ => intros ? ?; (discriminate || congruence) end ].

  (* all counting facts of the invariant at one id / arc *)
  Ltac facts C x :=
    pose proof (c_part _ _ _ _ C x); pose proof (c_hand _ _ _ _ C x); pose proof (c_exec _ _ _ _ C x);
    pose proof (c_arc _ _ _ _ C x).

  (* ---------------- worker i changes its pc; queues untouched ---------------- *)
  Lemma core_local s s' lj lr i old new :
    Core jf s lj lr -> nth_error (wpcs s) i = Some old ->
    wq s' = wq s -> wpcs s' = set_nth (wpcs s) i new -> sub s' = sub s -> lock_owner s' = lock_owner s ->
    spawned s' = spawned s -> handles s' = handles s -> cur_arc s' = cur_arc s -> next_arc s' = next_arc s ->
    joined s' = joined s -> unwraps s' = unwraps s ->
    w_ids new = w_ids old ->
    (forall w, (cnt (executed s') w + cnt (w_done old) w = cnt (executed s) w + cnt (w_done new) w)%nat) ->
    (forall a, strong s' a + N.of_nat (cnt (w_arcs old) a) = strong s a + N.of_nat (cnt (w_arcs new) a)) ->
    (forall a, (cnt (w_arcs new) a <= cnt (w_arcs old) a)%nat) ->
    wpc_ok jf s new ->
    (forall t, In t (waiters s') ->
               (In t (waiters s) /\ t <> S i) \/ (t = S i /\ new = WWaiting /\ lj = [] /\ immediate_shutdown (wq s) = false)) ->
    (new = WExited -> immediate_shutdown (wq s) = true) ->
    (old = WExited -> new = WExited) ->
    Core jf s' lj lr.
  Proof.
    intros C Hn Ewq Ewp Esub Elk Esp Ehd Eca Ena Ejn Eun E1 E2 E3 E4 Hok Hw Hex Hoe.
    assert (L : (i < length (wpcs s))%nat) by (apply nth_error_Some; congruence).
    assert (M : forall j, In j (spawned s) -> In j (spawned s')) by (rewrite Esp; auto).
    constructor; rewrite ?Ewq, ?Ewp, ?Esub, ?Elk, ?Esp, ?Ehd, ?Eca, ?Ena, ?Ejn, ?Eun; try (keep C).
    - rewrite (c_nip _ _ _ _ C). f_equal.
      pose proof (flat_map_set_nth_len w_ids _ _ _ new Hn) as HL. rewrite E1 in HL. lia.
    - intros w. wset Hn new w. rewrite E1 in *. facts C w. lia.
    - intros w. wset Hn new w. rewrite E1 in *. facts C w. lia.
    - intros w. wset Hn new w. facts C w. specialize (E2 w). lia.
    - intros a. wset Hn new a. facts C a. specialize (E3 a). specialize (E4 a). lia.
    - intros a Ha. wset Hn new a. destruct (c_fresh _ _ _ _ C a Ha) as (F1 & F2 & F3). specialize (E4 a).
      repeat split; [exact F1|lia|exact F3].
    - intros k pc. rewrite nth_error_set_nth. destruct (Nat.eqb_spec k i) as [->|Hne].
      + destruct (Nat.ltb_spec i (length (wpcs s))); [|lia]. intros E; inversion E; subst.
        apply (wpc_ok_mono s); assumption.
      + intros E. apply (wpc_ok_mono s); [exact M|]. apply (c_wpc _ _ _ _ C k). exact E.
    - intros r Hr. apply (val_ok_mono s); [exact M|]. apply (c_res _ _ _ _ C). exact Hr.
    - intros w v Hwv. apply (val_ok_mono s); [exact M|]. apply (c_join _ _ _ _ C). exact Hwv.
    - intros t Ht. destruct (Hw t Ht) as [[Ht2 Hti]|(-> & -> & Hlj & Him)].
      + pose proof (c_wait _ _ _ _ C t Ht2) as W. destruct t as [|k]; cbn [wait_ok] in *.
        * rewrite Esub. unfold outstanding in *. rewrite Ewq. exact W.
        * destruct W as (W1 & W2 & W3). rewrite Ewq, Ewp. split; [|split; assumption].
          rewrite nth_error_set_nth. destruct (Nat.eqb_spec k i) as [->|Hne]; [congruence|exact W1].
      + cbn [wait_ok]. rewrite Ewq, Ewp. split; [|split; assumption].
        rewrite nth_error_set_nth, Nat.eqb_refl. destruct (Nat.ltb_spec i (length (wpcs s))); [reflexivity|lia].
    - intros k. rewrite nth_error_set_nth. destruct (Nat.eqb_spec k i) as [->|Hne].
      + destruct (Nat.ltb_spec i (length (wpcs s))); [|discriminate]. intros E; inversion E. apply Hex. congruence.
      + apply (c_exited _ _ _ _ C).
    - intros k Hk j Hj. rewrite nth_error_set_nth. destruct (Nat.eqb_spec j i) as [->|Hne].
      + destruct (Nat.ltb_spec i (length (wpcs s))); [|lia].
        pose proof (c_reap _ _ _ _ C k Hk i Hj) as E. rewrite Hn in E. inversion E. rewrite Hoe by congruence. reflexivity.
      + apply (c_reap _ _ _ _ C k Hk j Hj).
    - intros Hd k pc. rewrite nth_error_set_nth. destruct (Nat.eqb_spec k i) as [->|Hne].
      + destruct (Nat.ltb_spec i (length (wpcs s))); [|discriminate]. intros E; inversion E; subst.
        apply Hoe. apply (c_done _ _ _ _ C Hd i old Hn).
      + apply (c_done _ _ _ _ C Hd).
  Qed.

  Lemma wq_eta q : mkwq (jobs q) (results q) (shutdown q) (immediate_shutdown q) (num_in_progress q) (cur_work_id q) = q.
  Proof. destruct q; reflexivity. Qed.

  Ltac nth_i k i :=
    rewrite nth_error_set_nth; destruct (Nat.eqb_spec k i) as [->|?];
    [match goal with |- context[Nat.ltb i ?len] => destruct (Nat.ltb_spec i len); [|try lia; try discriminate] end|].

  (* ---------------- do_work: a job is popped ---------------- *)
  Definition same_but_jobs_nip (q q' : workq) : Prop :=
    results q' = results q /\ shutdown q' = shutdown q /\ immediate_shutdown q' = immediate_shutdown q
    /\ cur_work_id q' = cur_work_id q.
  Definition same_but_results_nip (q q' : workq) : Prop :=
    jobs q' = jobs q /\ shutdown q' = shutdown q /\ immediate_shutdown q' = immediate_shutdown q
    /\ cur_work_id q' = cur_work_id q.

  Ltac expl q' H :=
    destruct q' as [? ? ? ? ? ?]; cbv [same_but_jobs_nip same_but_results_nip] in H;
    cbn [jobs results shutdown immediate_shutdown num_in_progress cur_work_id] in *;
    repeat match type of H with _ /\ _ => let X := fresh in destruct H as [X H]; try subst end; try subst.

  Lemma core_pop s lj lr i j q' :
    Core jf s (j :: lj) lr -> nth_error (wpcs s) i = Some WTop ->
    immediate_shutdown (wq s) = false -> same_but_jobs_nip (wq s) q' ->
    num_in_progress q' = num_in_progress (wq s) + 1 ->
    Core jf (set_wpc (notify_all (set_wq s q')) i (WHolding j)) lj lr.
  Proof.
    intros C Hn Him Hq Hnip. expl q' Hq.
    assert (L : (i < length (wpcs s))%nat) by (apply nth_error_Some; congruence).
    assert (NR : ~ ((exists k, sub s = SReaping k) \/ sub s = SDone)).
    { intros H. apply (c_imm _ _ _ _ C) in H. congruence. }
    constructor; red_s; try (keep C).
    - rewrite (c_nip _ _ _ _ C).
      pose proof (flat_map_set_nth_len w_ids _ _ _ (WHolding j) Hn) as HL. cbn [w_ids length] in HL. lia.
    - intros w. wset Hn (WHolding j) w. facts C w. cn. brk; lia.
    - intros w. wset Hn (WHolding j) w. facts C w. cn. brk; lia.
    - intros w. wset Hn (WHolding j) w. facts C w. cn. brk; lia.
    - intros a. wset Hn (WHolding j) a. facts C a. cn. destruct (cur_arc s); brk; lia.
    - intros a Ha. wset Hn (WHolding j) a. destruct (c_fresh _ _ _ _ C a Ha) as (F1 & F2 & F3). cn.
      repeat split; brk; try lia; exact F3.
    - intros j' Hj. apply (c_jobs _ _ _ _ C). right. exact Hj.
    - intros k pc. nth_i k i.
      + intros E; inversion E; subst. cbn. apply (c_jobs _ _ _ _ C). left. reflexivity.
      + apply (c_wpc _ _ _ _ C).
    - intros t [].
    - intros k. nth_i k i; [discriminate|]. apply (c_exited _ _ _ _ C).
    - intros k Hk. exfalso. apply NR. left. exists k. exact Hk.
    - intros Hd. exfalso. apply NR. right. exact Hd.
  Qed.

  (* ---------------- do_work: the result is published ---------------- *)
  Lemma core_publish s lj lr i id v q' :
    Core jf s lj lr -> nth_error (wpcs s) i = Some (WDropped id v) ->
    same_but_results_nip (wq s) q' ->
    num_in_progress q' + 1 = num_in_progress (wq s) ->
    Core jf (set_wpc (notify_all (set_wq s q')) i WTop) lj (lr ++ [mkreply id v]).
  Proof.
    intros C Hn Hq Hnip. expl q' Hq.
    assert (L : (i < length (wpcs s))%nat) by (apply nth_error_Some; congruence).
    constructor; red_s; try (keep C).
    - pose proof (c_nip _ _ _ _ C) as E.
      pose proof (flat_map_set_nth_len w_ids _ _ _ WTop Hn) as HL. cbn [w_ids length] in HL. lia.
    - intros w. wset Hn WTop w. facts C w. cn. cbn [r_id] in *. brk; lia.
    - intros w. wset Hn WTop w. facts C w. cn. cbn [r_id] in *. brk; lia.
    - intros w. wset Hn WTop w. facts C w. cn. cbn [r_id] in *. brk; lia.
    - intros a. wset Hn WTop a. facts C a. cn. destruct (cur_arc s); brk; lia.
    - intros a Ha. wset Hn WTop a. destruct (c_fresh _ _ _ _ C a Ha) as (F1 & F2 & F3). cn.
      repeat split; brk; try lia; exact F3.
    - intros k pc. nth_i k i.
      + intros E; inversion E; subst. exact I.
      + apply (c_wpc _ _ _ _ C).
    - intros r Hr. apply in_app_or in Hr. destruct Hr as [Hr|[<-|[]]].
      + apply (c_res _ _ _ _ C). exact Hr.
      + cbn [r_id r_val]. exact (c_wpc _ _ _ _ C i _ Hn).
    - intros t [].
    - intros k. nth_i k i; [discriminate|]. apply (c_exited _ _ _ _ C).
    - intros k Hk j Hj. nth_i j i.
      + pose proof (c_reap _ _ _ _ C k Hk i Hj) as E. congruence.
      + apply (c_reap _ _ _ _ C k Hk j Hj).
    - intros Hd k pc. nth_i k i.
      + pose proof (c_done _ _ _ _ C Hd i _ Hn). discriminate.
      + apply (c_done _ _ _ _ C Hd).
  Qed.

  Lemma not_reaping s lj lr : Core jf s lj lr -> (sub s = SIdle \/ (exists a, sub s = SSpawnWait a) \/ (exists w, sub s = SJoinWait w)) ->
    immediate_shutdown (wq s) = false.
  Proof.
    intros C H. destruct (immediate_shutdown (wq s)) eqn:E; [|reflexivity].
    apply (c_imm _ _ _ _ C) in E. destruct H as [H|[[a H]|[w H]]]; destruct E as [[k E]|E]; congruence.
  Qed.

  Lemma sub_not_waiting s lj lr : Core jf s lj lr -> sub s = SIdle \/ (exists k, sub s = SReaping k) \/ sub s = SDone ->
    ~ In 0%nat (waiters s).
  Proof.
    intros C H Hin. pose proof (c_wait _ _ _ _ C _ Hin) as W. cbn in W.
    destruct W as [(w & W & _)|(a & W & _)]; destruct H as [H|[[k H]|H]]; congruence.
  Qed.

  (* ---------------- make_spawner ---------------- *)
  Lemma core_begin s lj lr :
    Core jf s lj lr -> sub s = SIdle -> cur_arc s = None ->
    Core jf (set_spawned (set_arc (set_strong s (upd (strong s) (next_arc s) 1)) (Some (next_arc s)) (next_arc s + 1))
                         (spawned s) 0) lj lr.
  Proof.
    intros C Hs Hc.
    constructor; red_s; try (keep C).
    - intros a. facts C a. unfold upd. rewrite Hc in *.
      destruct (c_fresh _ _ _ _ C (next_arc s) (N.le_refl _)) as (F1 & F2 & _).
      rewrite (N.eqb_sym a). brk; subst; lia.
    - intros a Ha. destruct (c_fresh _ _ _ _ C a ltac:(lia)) as (F1 & F2 & F3).
      repeat split; try assumption. intros E. inversion E. lia.
  Qed.

  (* once every join handle has been consumed the spawner Arc is unique *)
  Lemma core_owner s lj lr a : Core jf s lj lr -> handles s = [] -> sub_w (sub s) = [] -> cur_arc s = Some a -> strong s a = 1.
  Proof.
    intros C Hh Hs Hc.
    assert (Z : forall w, (cnt (map j_id lj) w + cnt (flat_map w_ids (wpcs s)) w = 0)%nat).
    { intros w. pose proof (c_hand _ _ _ _ C w) as H. rewrite Hh, Hs in H. cbn in H. lia. }
    assert (Zj : map j_id lj = []) by (apply cnt_zero_nil; intros w; specialize (Z w); lia).
    assert (Zw : flat_map w_ids (wpcs s) = []) by (apply cnt_zero_nil; intros w; specialize (Z w); lia).
    assert (Za : flat_map w_arcs (wpcs s) = []).
    { clear - Zw. induction (wpcs s) as [|h t IH]; [reflexivity|]. cbn [flat_map] in *.
      apply app_eq_nil in Zw. destruct Zw as [Z1 Z2]. rewrite (IH Z2). destruct h; cbn in *; try discriminate; reflexivity. }
    destruct lj; [|discriminate].
    rewrite (c_arc _ _ _ _ C a), Hc, N.eqb_refl, Za. reflexivity.
  Qed.

  (* ---------------- OwnedRetriever::unwrap ---------------- *)
  Lemma core_unwrap s lj lr a :
    Core jf s lj lr -> sub s = SIdle -> cur_arc s = Some a ->
    Core jf (set_unwraps (set_arc (set_strong s (upd (strong s) a (strong s a - 1))) None (next_arc s))
                         ((a, match handles s with [] => true | _ => false end, strong s a =? 1) :: unwraps s)) lj lr.
  Proof.
    intros C Hs Hc.
    constructor; red_s; try (keep C).
    - intros x. facts C x. unfold upd. rewrite Hc in *. pose proof (c_arc _ _ _ _ C a) as Ea. rewrite Hc, N.eqb_refl in Ea.
      rewrite (N.eqb_sym x). brk; subst; lia.
    - intros x Hx. destruct (c_fresh _ _ _ _ C x Hx) as (F1 & F2 & F3). repeat split; try assumption. discriminate.
    - intros a' b c [E|Hin] Hb; [|exact (c_unw _ _ _ _ C a' b c Hin Hb)].
      inversion E; subst. destruct (handles s) eqn:Hh; [|discriminate].
      rewrite (core_owner s lj lr a' C Hh ltac:(rewrite Hs; reflexivity) Hc). reflexivity.
  Qed.

  (* ---------------- Drop: the critical section ---------------- *)
  Lemma core_drop s lj lr :
    Core jf s lj lr -> sub s = SIdle ->
    Core jf (set_sub (notify_all (set_wq s (mkwq (jobs (wq s)) (results (wq s)) (shutdown (wq s)) true
                                             (num_in_progress (wq s)) (cur_work_id (wq s))))) (SReaping 0)) lj lr.
  Proof.
    intros C Hs.
    constructor; red_s; try (keep C).
    - intros w. facts C w. rewrite Hs in *. cn. lia.
    - intros t [].
    - split; [intros _; left; exists 0%nat; reflexivity|reflexivity].
    - intros; reflexivity.
    - intros k Hk i Hi. inversion Hk. lia.
    - discriminate.
  Qed.

  (* ---------------- Drop: joining the worker threads ---------------- *)
  Lemma core_reap s lj lr k p :
    Core jf s lj lr -> sub s = SReaping k ->
    (p = SDone /\ (length (wpcs s) <= S k)%nat /\ (nth_error (wpcs s) k = None \/ nth_error (wpcs s) k = Some WExited))
    \/ (p = SReaping (S k) /\ nth_error (wpcs s) k = Some WExited) ->
    Core jf (set_sub s p) lj lr.
  Proof.
    intros C Hs Hp.
    assert (Him : immediate_shutdown (wq s) = true) by (apply (c_imm _ _ _ _ C); left; exists k; exact Hs).
    assert (SW : sub_w p = []) by (destruct Hp as [(-> & _)|(-> & _)]; reflexivity).
    constructor; red_s; try (keep C).
    - intros w. facts C w. rewrite Hs in *. rewrite SW. cn. lia.
    - intros t Ht. pose proof (c_wait _ _ _ _ C t Ht) as W. destruct t; cbn [wait_ok] in *; red_s.
      + exfalso. destruct W as [(w & W & _)|(a & W & _)]; congruence.
      + exact W.
    - split; [intros _|intros _; exact Him]. destruct Hp as [(-> & _)|(-> & _)]; [right; reflexivity|left; eexists; reflexivity].
    - intros k' Hk' i Hi. destruct Hp as [(-> & _)|(-> & Hx)]; [discriminate|]. inversion Hk'; subst.
      destruct (Nat.eq_dec i k) as [->|Hne]; [exact Hx|]. apply (c_reap _ _ _ _ C k Hs). lia.
    - intros Hd i pc Hi. destruct Hp as [(_ & HL & Hx)|(-> & _)]; [|discriminate].
      assert (Li : (i < length (wpcs s))%nat) by (apply nth_error_Some; congruence).
      destruct (Nat.eq_dec i k) as [->|Hne].
      + destruct Hx as [Hx|Hx]; congruence.
      + pose proof (c_reap _ _ _ _ C k Hs i ltac:(lia)) as E. congruence.
    - intros a Ha. destruct Hp as [(-> & _)|(-> & _)]; discriminate.
  Qed.

  (* ---------------- spurious wake-up ---------------- *)
  Lemma core_spurious s lj lr t :
    Core jf s lj lr -> Core jf (set_waiters s (remove_nat t (waiters s))) lj lr.
  Proof.
    intros C.
    constructor; red_s; try (keep C).
    intros t' Ht. apply In_remove_nat in Ht. pose proof (c_wait _ _ _ _ C t' Ht) as W.
    destruct t'; cbn [wait_ok] in *; red_s; exact W.
  Qed.

  (* ---------------- spawn ---------------- *)
  Lemma core_spawn_ok s lj lr a arg jobs' cur' :
    Core jf s lj lr -> cur_arc s = Some a -> (sub s = SIdle \/ sub s = SSpawnWait arg) ->
    cur' = cur_work_id (wq s) + 1 ->
    Core jf (set_sub (notify_all (set_handles (set_spawned (set_strong
              (set_wq s (mkwq jobs' (results (wq s)) (shutdown (wq s)) (immediate_shutdown (wq s))
                              (num_in_progress (wq s)) cur'))
              (upd (strong s) a (strong s a + 1)))
              (mkjob (cur_work_id (wq s)) arg a :: spawned s) (batch_n s + 1))
              (cur_work_id (wq s) :: handles s))) SIdle)
         (lj ++ [mkjob (cur_work_id (wq s)) arg a]) lr.
  Proof.
    intros C Hc Hs ->.
    assert (SW : sub_w (sub s) = []) by (destruct Hs as [-> | ->]; reflexivity).
    assert (Him : immediate_shutdown (wq s) = false).
    { apply (not_reaping s lj lr C). destruct Hs as [H|H]; [left; exact H|right; left; eexists; exact H]. }
    assert (Ha : a < next_arc s).
    { destruct (N.lt_ge_cases a (next_arc s)) as [H|H]; [exact H|]. destruct (c_fresh _ _ _ _ C a H) as (_ & _ & F). congruence. }
    set (cur := cur_work_id (wq s)) in *.
    assert (M : forall j, In j (spawned s) -> In j (mkjob cur arg a :: spawned s)) by (intros; right; assumption).
    constructor; red_s; try (keep C).
    - intros w. facts C w. rewrite SW in *. cn. cbn [j_id] in *. fold cur in H. brk; try lia.
    - intros w. facts C w. rewrite SW in *. cn. cbn [j_id] in *. brk; lia.
    - intros x. facts C x. unfold upd. rewrite Hc in *. cn. cbn [j_arc] in *.
      pose proof (c_arc _ _ _ _ C a) as Ea. rewrite Hc, N.eqb_refl in Ea.
      rewrite (N.eqb_sym x). brk; subst; lia.
    - intros x Hx. destruct (c_fresh _ _ _ _ C x Hx) as (F1 & F2 & F3). cn. cbn [j_arc].
      repeat split; brk; try lia; assumption.
    - intros j Hj. apply in_app_or in Hj. destruct Hj as [Hj|[<-|[]]]; [right; apply (c_jobs _ _ _ _ C); exact Hj|left; reflexivity].
    - intros k pc Hk. apply (wpc_ok_mono s); [exact M|]. apply (c_wpc _ _ _ _ C k). exact Hk.
    - intros r Hr. apply (val_ok_mono s); [exact M|]. apply (c_res _ _ _ _ C). exact Hr.
    - intros w v Hwv. apply (val_ok_mono s); [exact M|]. apply (c_join _ _ _ _ C). exact Hwv.
    - intros j [<-|Hj]; cbn [j_id]; [lia|]. pose proof (c_spawned _ _ _ _ C j Hj). fold cur in H. lia.
    - cbn [map j_id]. constructor; [|apply (c_nodup _ _ _ _ C)].
      intros Hin. apply in_map_iff in Hin. destruct Hin as (j & E & Hj). pose proof (c_spawned _ _ _ _ C j Hj). fold cur in H. lia.
    - intros t [].
    - split; [intros E; congruence|intros [[k E]|E]; discriminate].
    - intros k Hk. discriminate.
    - discriminate.
  Qed.

  Lemma core_spawn_wait s lj lr arg :
    Core jf s lj lr -> (sub s = SIdle \/ (sub s = SSpawnWait arg /\ ~ In 0%nat (waiters s))) ->
    cur_arc s <> None ->
    spawn_admits (outstanding s) = false ->
    Core jf (set_sub (wait s 0%nat) (SSpawnWait arg)) lj lr.
  Proof.
    intros C Hs Hca Hadm.
    assert (SW : sub_w (sub s) = []) by (destruct Hs as [-> | [-> _]]; reflexivity).
    assert (Him : immediate_shutdown (wq s) = false).
    { apply (not_reaping s lj lr C). destruct Hs as [H|[H _]]; [left; exact H|right; left; eexists; exact H]. }
    assert (N0 : ~ In 0%nat (waiters s)).
    { destruct Hs as [H|[_ H]]; [|exact H]. apply (sub_not_waiting s lj lr C). left. exact H. }
    constructor; red_s; try (keep C).
    - intros w. facts C w. rewrite SW in *. cn. lia.
    - intros t [<-|Ht].
      + cbn [wait_ok]. red_s. right. exists arg. split; [reflexivity|exact Hadm].
      + pose proof (c_wait _ _ _ _ C t Ht) as W. destruct t; [contradiction|]. exact W.
    - split; [intros E; congruence|intros [[k E]|E]; discriminate].
    - discriminate.
    - discriminate.
  Qed.

  (* ---------------- join ---------------- *)
  Lemma core_join_ok s hs lj lr lr' w r results' :
    Core jf s lj lr ->
    (forall x, cnt (hs ++ [w]) x = cnt (handles s ++ sub_w (sub s)) x) ->
    (sub s = SIdle \/ sub s = SJoinWait w) -> ~ In 0%nat (waiters s) ->
    Permutation lr (r :: lr') -> r_id r = w ->
    Core jf (set_sub (set_joined (set_wq (set_handles s hs)
              (mkwq (jobs (wq s)) results' (shutdown (wq s)) (immediate_shutdown (wq s))
                    (num_in_progress (wq s)) (cur_work_id (wq s)))) ((w, r_val r) :: joined s)) SIdle) lj lr'.
  Proof.
    intros C Hh Hs N0 P Hr.
    assert (Him : immediate_shutdown (wq s) = false).
    { apply (not_reaping s lj lr C). destruct Hs as [H|H]; [left; exact H|right; right; eexists; exact H]. }
    assert (PC : forall x, cnt (map r_id lr) x = ((if N.eqb w x then 1 else 0) + cnt (map r_id lr') x)%nat).
    { intros x. rewrite (cnt_perm _ _ x (Permutation_map r_id P)). cbn [map]. rewrite cnt_cons, Hr. reflexivity. }
    constructor; red_s; try (keep C).
    - intros x. facts C x. specialize (PC x). cn. brk; lia.
    - intros x. facts C x. specialize (PC x). specialize (Hh x). cn. brk; lia.
    - intros x. facts C x. specialize (PC x). cn. brk; lia.
    - intros r' Hr'. apply (c_res _ _ _ _ C). apply (Permutation_in _ (Permutation_sym P)). right. exact Hr'.
    - intros w' v [E|Hwv].
      + inversion E; subst. apply (c_res _ _ _ _ C r). apply (Permutation_in _ (Permutation_sym P)). left. reflexivity.
      + apply (c_join _ _ _ _ C). exact Hwv.
    - intros t Ht. pose proof (c_wait _ _ _ _ C t Ht) as W. destruct t; [contradiction|]. exact W.
    - split; [intros E; congruence|intros [[k E]|E]; discriminate].
    - discriminate.
    - discriminate.
  Qed.

  Lemma core_join_wait s hs lj lr w results' :
    Core jf s lj lr ->
    (forall x, cnt (hs ++ [w]) x = cnt (handles s ++ sub_w (sub s)) x) ->
    (sub s = SIdle \/ sub s = SJoinWait w) -> ~ In 0%nat (waiters s) ->
    cnt (map r_id lr) w = 0%nat ->
    Core jf (set_sub (wait (set_wq (set_handles s hs)
              (mkwq (jobs (wq s)) results' (shutdown (wq s)) (immediate_shutdown (wq s))
                    (num_in_progress (wq s)) (cur_work_id (wq s)))) 0%nat) (SJoinWait w)) lj lr.
  Proof.
    intros C Hh Hs N0 Hz.
    assert (Him : immediate_shutdown (wq s) = false).
    { apply (not_reaping s lj lr C). destruct Hs as [H|H]; [left; exact H|right; right; eexists; exact H]. }
    constructor; red_s; try (keep C).
    - intros x. facts C x. specialize (Hh x). cn. lia.
    - intros t [<-|Ht].
      + cbn [wait_ok]. red_s. left. exists w. split; [reflexivity|exact Hz].
      + pose proof (c_wait _ _ _ _ C t Ht) as W. destruct t; [contradiction|]. exact W.
    - split; [intros E; congruence|intros [[k E]|E]; discriminate].
    - discriminate.
    - discriminate.
  Qed.

  Lemma flat_map_nth_le {A} (f : A -> list N) (l : list A) i x w :
    nth_error l i = Some x -> (cnt (f x) w <= cnt (flat_map f l) w)%nat.
  Proof.
    revert i; induction l as [|h t IH]; intros [|i] H; cbn in H; try discriminate; cbn [flat_map]; rewrite cnt_app.
    - inversion H; subst. lia.
    - specialize (IH i H). lia.
  Qed.

  Lemma flat_map_nth_len {A B} (f : A -> list B) (l : list A) i x :
    nth_error l i = Some x -> (length (f x) <= length (flat_map f l))%nat.
  Proof.
    revert i; induction l as [|h t IH]; intros [|i] H; cbn in H; try discriminate; cbn [flat_map]; rewrite app_length.
    - inversion H; subst. lia.
    - specialize (IH i H). lia.
  Qed.

  Lemma pow63 : 2 ^ 63 + 1000 <= USIZE_MAX /\ 1000 < 2 ^ 63.
  Proof. unfold USIZE_MAX. split; vm_compute; [discriminate|reflexivity]. Qed.

  Lemma lock_free_true s lj lr : Core jf s lj lr -> lock_free s = true.
  Proof. intros C. unfold lock_free. rewrite (c_lock _ _ _ _ C). reflexivity. Qed.

  Definition Post (k : N) (s : pstate) (m : move) (r : res pstate) : Prop :=
    match r with
    | Ok s' => Inv jf s' /\ Bnd (k + 1) s' /\ (BInv s -> bdisc s m -> BInv s') /\ (DInv s -> disciplined s m -> DInv s')
    | Panic _ => ~ (DInv s /\ disciplined s m)
    end.

  Lemma outstanding_len s lj lr : Rep (jobs (wq s)) lj -> Rep (results (wq s)) lr ->
    outstanding s = N.of_nat (length lj) + num_in_progress (wq s) + N.of_nat (length lr).
  Proof. intros RJ RR. unfold outstanding, fq_sz. rewrite (rep_size _ _ RJ), (rep_size _ _ RR). reflexivity. Qed.

  (* ------------------------------------------------------------------ workers *)
  Ltac wgoal C :=
    let t := fresh "t" in let Ht := fresh "Ht" in let W := fresh "W" in
    intros t Ht; left; split; [exact Ht|]; intros ->; pose proof (c_wait _ _ _ _ C _ Ht) as W; cbn in W;
    destruct W as [W _]; congruence.

  Ltac bd := split; [repeat split; red_s; lia|].
  Ltac sizes := repeat match goal with R : Rep ?q ?l |- _ => progress (rewrite (rep_size q l R) in * ) end.
  Ltac dboth :=
    let D1 := fresh "D" in let D2 := fresh "D" in let D3 := fresh "D" in
    split; [intros [D1 D2] D3 | intros D1 D3]; cbn [bdisc disciplined] in D3;
    unfold BInv, DInv, outstanding, fq_sz in *; red_s; sizes; rewrite ?app_length in *; cbn [length] in *;
    first [lia | split; lia].
  Ltac dsame := dboth.

  Lemma worker_step_post k s i r :
    k < 2 ^ 63 -> Inv jf s -> Bnd k s -> worker_step jf job_ok s i = Some r -> Post k s (MWorker i) r.
  Proof.
    intros Hk (lj & lr & RJ & RR & C) (B1 & B2 & B3) H. pose proof pow63 as [P63 P63b].
    unfold worker_step in H. destruct (nth_error (wpcs s) i) as [pc|] eqn:Hn; [|discriminate].
    pose proof (lock_free_true _ _ _ C) as LF.
    destruct pc as [| |j|j v|id v| |].
    - (* WTop *)
      rewrite LF in H. inversion H; subst r; clear H. unfold worker_top.
      destruct (immediate_shutdown (wq s)) eqn:Him.
      + cbn [Post]. split; [|bd; try dsame].
        exists lj, lr. split; [exact RJ|]. split; [exact RR|].
        apply (core_local s _ lj lr i WTop WExited C Hn); try reflexivity; red_s; auto; try discriminate; try (wgoal C).
      + destruct lj as [|j lj].
        * rewrite (pop_empty _ RJ). pose proof (c_shut _ _ _ _ C) as Hsh. rewrite Hsh. cbn [Post].
          match goal with |- context[set_wq s ?q] => replace q with (wq s) by (destruct (wq s); cbn in *; congruence) end.
          split; [|bd; try dsame].
          exists [], lr. split; [exact RJ|]. split; [exact RR|].
          apply (core_local s _ [] lr i WTop WWaiting C Hn); try reflexivity; red_s; auto; try discriminate.
          intros t [<-|Ht]; [right; auto|]. left. split; [exact Ht|].
          intros ->. pose proof (c_wait _ _ _ _ C _ Ht) as W. cbn in W. destruct W as [W _]. congruence.
        * destruct (pop_cons _ _ _ RJ ltac:(lia)) as (jobs' & E & RJ' & S'). rewrite E.
          unfold uadd. destruct (N.leb_spec (num_in_progress (wq s) + 1) USIZE_MAX) as [_|Hov].
          -- cbn [Post]. split; [|bd; dboth].
             exists lj, lr. split; [exact RJ'|]. split; [exact RR|].
             apply core_pop; auto; try (repeat split; cbn; congruence).
          -- cbn [Post]. intros [D1 _]. unfold DInv in D1. rewrite (outstanding_len _ _ _ RJ RR) in D1. lia.
    - (* WWaiting *)
      destruct (mem_nat (S i) (waiters s)) eqn:Hm; [discriminate|]. rewrite LF in H. inversion H; subst r; clear H.
      assert (NI : ~ In (S i) (waiters s)) by (intros X; apply mem_nat_In in X; congruence).
      cbn [Post]. split; [|bd; try dsame].
      exists lj, lr. split; [exact RJ|]. split; [exact RR|].
      apply (core_local s _ lj lr i WWaiting WTop C Hn); try reflexivity; red_s; auto; try discriminate.
      intros t Ht. left. split; [exact Ht|]. intros ->. contradiction.
    - (* WHolding *)
      rewrite job_total in H. inversion H; subst r; clear H.
      cbn [Post]. split; [|bd; try dsame].
      exists lj, lr. split; [exact RJ|]. split; [exact RR|].
      pose proof (c_wpc _ _ _ _ C i _ Hn) as Hok. cbn in Hok.
      apply (core_local s _ lj lr i (WHolding j) (WRan j (jf (j_arg j))) C Hn); try reflexivity; red_s; auto;
        try discriminate; try (wgoal C).
      + intros w. cn. lia.
      + cbn. auto.
    - (* WRan *)
      inversion H; subst r; clear H.
      cbn [Post]. split; [|bd; try dsame].
      exists lj, lr. split; [exact RJ|]. split; [exact RR|].
      pose proof (c_wpc _ _ _ _ C i _ Hn) as Hok. cbn in Hok. destruct Hok as [Hin Hv].
      apply (core_local s _ lj lr i (WRan j v) (WDropped (j_id j) v) C Hn); try reflexivity; red_s; auto;
        try discriminate; try (wgoal C).
      + intros a. unfold upd. cn. pose proof (c_arc _ _ _ _ C (j_arc j)) as Ea.
        pose proof (flat_map_nth_le w_arcs _ _ _ (j_arc j) Hn) as Hle. cn. rewrite N.eqb_refl in Hle.
        rewrite (N.eqb_sym a). brk; subst; lia.
      + intros a. cn. lia.
      + cbn. exists j. auto.
    - (* WDropped *)
      rewrite LF in H. inversion H; subst r; clear H. unfold worker_publish.
      pose proof (flat_map_nth_len w_ids _ _ _ Hn) as Hl. cbn [w_ids length] in Hl.
      pose proof (c_nip _ _ _ _ C) as Enip.
      unfold usub. destruct (N.leb_spec 1 (num_in_progress (wq s))) as [_|?]; [|lia].
      destruct (Nat.eq_dec (length lr) 16) as [E16|N16].
      + rewrite (push_full _ _ _ RR E16). cbn [Post]. intros [D1 _]. unfold DInv in D1.
        rewrite (outstanding_len _ _ _ RJ RR) in D1. lia.
      + pose proof (rep_le _ _ RR) as LE. pose proof (rep_size _ _ RR) as SZ.
        destruct (push_ok _ _ (mkreply id v) RR ltac:(lia) ltac:(lia)) as (results' & E & RR' & S'). rewrite E.
        cbn [Post]. split; [|bd; dboth].
        exists lj, (lr ++ [mkreply id v]). split; [exact RJ|]. split; [exact RR'|].
        apply core_publish; auto; try (repeat split; cbn; congruence); try (cbn; lia).
    - discriminate.
    - discriminate.
  Qed.

  (* ------------------------------------------------------------------ submitter *)
  Lemma outstanding_res_ok s lj lr : Rep (jobs (wq s)) lj -> Rep (results (wq s)) lr ->
    num_in_progress (wq s) <= 2 ^ 63 -> outstanding_res (wq s) = Ok (outstanding s).
  Proof.
    intros RJ RR Hn. pose proof pow63 as [? ?]. pose proof (rep_le _ _ RJ). pose proof (rep_le _ _ RR).
    unfold outstanding_res, outstanding, fq_sz, uadd. rewrite (rep_size _ _ RJ), (rep_size _ _ RR).
    destruct (N.leb_spec (N.of_nat (length lj) + num_in_progress (wq s)) USIZE_MAX); [|lia].
    destruct (N.leb_spec (N.of_nat (length lj) + num_in_progress (wq s) + N.of_nat (length lr)) USIZE_MAX); [|lia].
    reflexivity.
  Qed.

  Lemma outstanding_res_panic s lj lr p : Rep (jobs (wq s)) lj -> Rep (results (wq s)) lr ->
    outstanding_res (wq s) = Panic p -> 2 ^ 63 < num_in_progress (wq s).
  Proof.
    intros RJ RR H. destruct (N.lt_ge_cases (2 ^ 63) (num_in_progress (wq s))) as [L|G]; [exact L|].
    rewrite (outstanding_res_ok s lj lr RJ RR G) in H. discriminate.
  Qed.

  Lemma spawn_cs_post k s arg a :
    k < 2 ^ 63 -> Inv jf s -> Bnd k s -> cur_arc s = Some a ->
    (sub s = SIdle \/ (sub s = SSpawnWait arg /\ ~ In 0%nat (waiters s))) ->
    Post k s (MSpawn arg) (spawn_cs s arg a).
  Proof.
    intros Hk (lj & lr & RJ & RR & C) (B1 & B2 & B3) Hc Hs. pose proof pow63 as [P63 P63b].
    pose proof (rep_le _ _ RJ) as LJ. pose proof (rep_le _ _ RR) as LR.
    pose proof (outstanding_len _ _ _ RJ RR) as OL.
    unfold spawn_cs. destruct (outstanding_res (wq s)) as [o|p] eqn:EO.
    2:{ cbn [Post]. intros [D1 _]. unfold DInv in D1. apply (outstanding_res_panic _ _ _ _ RJ RR) in EO. lia. }
    assert (Eo : o = outstanding s).
    { destruct (N.lt_ge_cases (2 ^ 63) (num_in_progress (wq s))) as [L|G].
      - unfold outstanding_res, uadd in EO.
        destruct (N.leb_spec (fq_sz (jobs (wq s)) + num_in_progress (wq s)) USIZE_MAX); [|discriminate].
        destruct (N.leb_spec (fq_sz (jobs (wq s)) + num_in_progress (wq s) + fq_sz (results (wq s))) USIZE_MAX); [|discriminate].
        inversion EO. reflexivity.
      - rewrite (outstanding_res_ok s lj lr RJ RR G) in EO. inversion EO. reflexivity. }
    subst o. fold (spawn_admits (outstanding s)).
    destruct (spawn_admits (outstanding s)) eqn:Adm.
    - unfold uadd. destruct (N.leb_spec (cur_work_id (wq s) + 1) USIZE_MAX) as [_|?]; [|lia].
      destruct (Nat.eq_dec (length lj) 16) as [E16|N16].
      + rewrite (push_full _ _ _ RJ E16). cbn [Post]. intros [D1 D3]. cbn [disciplined] in D3. lia.
      + destruct (push_ok _ _ (mkjob (cur_work_id (wq s)) arg a) RJ ltac:(lia) ltac:(rewrite (rep_size _ _ RJ); lia))
          as (jobs' & E & RJ' & S'). rewrite E.
        cbn [Post]. split; [|bd].
        * exists (lj ++ [mkjob (cur_work_id (wq s)) arg a]), lr. split; [exact RJ'|]. split; [exact RR|].
          apply core_spawn_ok; auto. destruct Hs as [H|[H _]]; auto.
        * clear OL. dboth.
    - cbn [Post]. split; [|bd; dsame].
      exists lj, lr. split; [exact RJ|]. split; [exact RR|].
      apply core_spawn_wait; auto. congruence.
  Qed.

  Lemma join_cs_post k s hs w :
    k < 2 ^ 63 -> Inv jf s -> Bnd k s ->
    (forall x, cnt (hs ++ [w]) x = cnt (handles s ++ sub_w (sub s)) x) ->
    (sub s = SIdle \/ sub s = SJoinWait w) -> ~ In 0%nat (waiters s) ->
    Post k s (MJoin w) (join_cs (set_handles s hs) w).
  Proof.
    intros Hk (lj & lr & RJ & RR & C) (B1 & B2 & B3) Hh Hs N0. pose proof pow63 as [P63 P63b].
    unfold join_cs. red_s.
    destruct (remove_spec (is_reply_for w) _ _ RR ltac:(lia)) as (results' & E & RR' & S'). rewrite E.
    destruct (qs_remove (fun x => is_reply_for w (Some x)) lr) as [[r|] lr'] eqn:EQ; cbn [fst snd] in *.
    - destruct (qs_remove_some _ _ _ _ EQ) as (pre & post & El & Gr & _ & _ & P).
      cbn [is_reply_for] in Gr. apply N.eqb_eq in Gr.
      cbn [Post]. split; [|bd].
      + exists lj, lr'. split; [exact RJ|]. split; [exact RR'|].
        apply (core_join_ok s hs lj lr lr' w r); auto.
      + pose proof (Permutation_length P) as PL. cbn [length] in PL. dboth.
    - destruct (qs_remove_none _ _ _ EQ) as [-> Fa].
      cbn [Post]. split; [|bd].
      + exists lj, lr. split; [exact RJ|]. split; [exact RR'|].
        apply (core_join_wait s hs lj lr w); auto.
        clear - Fa. induction lr as [|r lr IH]; [reflexivity|]. inversion Fa; subst. cbn [map]. rewrite cnt_cons.
        cbn [is_reply_for] in H1. rewrite H1. apply IH. assumption.
      + dboth.
  Qed.

  Lemma core_handles_eta s lj lr : Core jf s lj lr -> Core jf (set_handles s (handles s)) lj lr.
  Proof. intros C. destruct s. exact C. Qed.

  Theorem step_post k s m r :
    k < 2 ^ 63 -> Inv jf s -> Bnd k s -> step jf job_ok s m = Some r -> Post k s m r.
  Proof.
    intros Hk HI HB H. destruct m as [i| |arg|w| | | |t]; cbn [step] in H.
    - apply worker_step_post; assumption.
    - (* MBegin *)
      destruct HI as (lj & lr & RJ & RR & C). destruct HB as (B1 & B2 & B3).
      unfold sub_begin in H. destruct (sub s) eqn:Hs; try discriminate. destruct (cur_arc s) eqn:Hc; [discriminate|].
      inversion H; subst r; clear H. cbn [Post]. split; [|bd].
      + exists lj, lr. split; [exact RJ|]. split; [exact RR|]. apply core_begin; assumption.
      + dboth.
    - (* MSpawn *)
      unfold sub_spawn in H. destruct (cur_arc s) as [a|] eqn:Hc; [|discriminate].
      destruct HI as (lj & lr & RJ & RR & C). pose proof (lock_free_true _ _ _ C) as LF.
      destruct (sub s) eqn:Hs; try discriminate.
      + rewrite LF in H. inversion H; subst r. apply spawn_cs_post; auto. exists lj, lr; auto.
      + destruct (N.eqb_spec arg0 arg) as [->|]; [|discriminate].
        destruct (mem_nat 0 (waiters s)) eqn:Hm; [discriminate|]. rewrite LF in H. cbn in H. inversion H; subst r.
        apply spawn_cs_post; auto; [exists lj, lr; auto|]. right. split; [exact Hs|].
        intros X. apply mem_nat_In in X. congruence.
    - (* MJoin *)
      unfold sub_join in H.
      destruct HI as (lj & lr & RJ & RR & C). pose proof (lock_free_true _ _ _ C) as LF.
      destruct (sub s) eqn:Hs; try discriminate.
      + destruct (mem_N w (handles s)) eqn:Hm; [|discriminate]. rewrite LF in H. cbn in H. inversion H; subst r.
        apply mem_N_In in Hm.
        apply join_cs_post; auto; [exists lj, lr; auto| |apply (sub_not_waiting s lj lr C); auto].
        intros x. rewrite Hs. cbn [sub_w]. rewrite !cnt_app, cnt_cons, cnt_nil. pose proof (cnt_remove_N w _ x Hm). lia.
      + destruct (N.eqb_spec w0 w) as [->|]; [|discriminate].
        destruct (mem_nat 0 (waiters s)) eqn:Hm; [discriminate|]. rewrite LF in H. cbn in H. inversion H; subst r.
        assert (X : Post k s (MJoin w) (join_cs (set_handles s (handles s)) w)).
        { apply join_cs_post; auto; [exists lj, lr; auto| |intros X; apply mem_nat_In in X; congruence].
          intros x. rewrite Hs. reflexivity. }
        exact X.
    - (* MUnwrap *)
      destruct HI as (lj & lr & RJ & RR & C). destruct HB as (B1 & B2 & B3).
      unfold sub_unwrap in H. destruct (sub s) eqn:Hs; try discriminate. destruct (cur_arc s) as [a|] eqn:Hc; [|discriminate].
      inversion H; subst r; clear H. cbn [Post]. split; [|bd; dsame].
      exists lj, lr. split; [exact RJ|]. split; [exact RR|]. apply core_unwrap; assumption.
    - (* MDrop *)
      destruct HI as (lj & lr & RJ & RR & C). destruct HB as (B1 & B2 & B3). pose proof (lock_free_true _ _ _ C) as LF.
      unfold sub_drop in H. destruct (sub s) eqn:Hs; try discriminate. rewrite LF in H.
      inversion H; subst r; clear H. cbn [Post]. split; [|bd; dsame].
      exists lj, lr. split; [exact RJ|]. split; [exact RR|]. apply core_drop; assumption.
    - (* MReap *)
      destruct HI as (lj & lr & RJ & RR & C). destruct HB as (B1 & B2 & B3).
      unfold sub_reap in H. destruct (sub s) eqn:Hs; try discriminate.
      destruct (nth_error (wpcs s) k0) as [pc|] eqn:Hn.
      + destruct pc; try discriminate.
        * destruct (Nat.eqb_spec (S k0) (length (wpcs s))) as [E|NE];
            inversion H; subst r; clear H; cbn [Post]; (split; [|bd; dsame]);
            exists lj, lr; (split; [exact RJ|]); (split; [exact RR|]); apply (core_reap s lj lr k0); try assumption.
          -- left. split; [reflexivity|]. split; [lia|right; exact Hn].
          -- right. split; [reflexivity|exact Hn].
        * exfalso. exact (c_wpc _ _ _ _ C k0 _ Hn).
      + inversion H; subst r; clear H. cbn [Post]. split; [|bd; dsame].
        exists lj, lr. split; [exact RJ|]. split; [exact RR|]. apply (core_reap s lj lr k0); [exact C|exact Hs|].
        left. split; [reflexivity|]. apply nth_error_None in Hn. split; [lia|left; apply nth_error_None; exact Hn].
    - (* MSpurious *)
      destruct HI as (lj & lr & RJ & RR & C). destruct HB as (B1 & B2 & B3).
      unfold spurious in H. destruct (mem_nat t (waiters s)); [|discriminate].
      inversion H; subst r; clear H. cbn [Post]. split; [|bd; dsame].
      exists lj, lr. split; [exact RJ|]. split; [exact RR|]. apply core_spurious; assumption.
  Qed.

  (* ------------------------------------------------------------------ traces *)
  Fixpoint disc_trace (s : pstate) (tr : list move) : Prop :=
    match tr with
    | [] => True
    | m :: tr' =>
      disciplined s m /\
      match step jf job_ok s m with Some (Ok s') => disc_trace s' tr' | _ => True end
    end.

  Lemma flat_map_repeat_nil {A B} (f : A -> list B) x n : f x = [] -> flat_map f (repeat x n) = [].
  Proof. intros E. induction n; cbn; [reflexivity|]. rewrite E, IHn. reflexivity. Qed.

  Lemma nth_error_repeat {A} (x y : A) n i : nth_error (repeat x n) i = Some y -> y = x.
  Proof. intros H. apply nth_error_In in H. apply repeat_spec in H. exact H. Qed.

  Lemma inv_init n : Inv jf (init n) /\ Bnd 0 (init n) /\ BInv (init n) /\ DInv (init n).
  Proof.
    split; [|split; [|split]].
    - exists [], []. split; [apply Rep_new|]. split; [apply Rep_new|].
      constructor; cbn [init wq wpcs sub waiters lock_owner executed strong spawned batch_n handles cur_arc next_arc joined unwraps
                        wq_default jobs results shutdown immediate_shutdown num_in_progress cur_work_id map app sub_w];
        rewrite ?(flat_map_repeat_nil w_ids), ?(flat_map_repeat_nil w_done), ?(flat_map_repeat_nil w_arcs) by reflexivity;
        try reflexivity.
      + intros w. cbn. destruct (w <? WQ_INIT_cur_work_id) eqn:E; [|reflexivity]. apply N.ltb_lt in E. cbv in E. destruct w; discriminate.
      + intros a _. repeat split; discriminate.
      + intros j [].
      + intros i pc H. apply nth_error_repeat in H. subst. exact I.
      + intros r [].
      + intros w v [].
      + intros j [].
      + constructor.
      + intros t [].
      + split; [discriminate|intros [[k E]|E]; discriminate].
      + intros i H. apply nth_error_repeat in H. discriminate.
      + discriminate.
      + discriminate.
      + discriminate.
      + intros a b c [].
    - repeat split; cbn; apply N.le_refl.
    - split; cbv; discriminate.
    - cbv; discriminate.
  Qed.

  Lemma BInv_DInv s : BInv s -> DInv s.
  Proof. intros [H1 H2]. unfold DInv. lia. Qed.

  Lemma bdisc_disciplined s m : BInv s -> bdisc s m -> disciplined s m.
  Proof. intros [H1 H2] H. destruct m; cbn in *; auto. lia. Qed.

  Fixpoint bdisc_trace (s : pstate) (tr : list move) : Prop :=
    match tr with
    | [] => True
    | m :: tr' =>
      bdisc s m /\
      match step jf job_ok s m with Some (Ok s') => bdisc_trace s' tr' | _ => True end
    end.

  Theorem run_safe tr : forall k s,
    k + N.of_nat (length tr) < 2 ^ 63 -> Inv jf s -> Bnd k s -> DInv s -> disc_trace s tr ->
    match run jf job_ok s tr with
    | None => True
    | Some (Panic _) => False
    | Some (Ok s') => Inv jf s' /\ DInv s' /\ Bnd (k + N.of_nat (length tr)) s'
    end.
  Proof.
    induction tr as [|m tr IH]; intros k s Hk HI HB HD HT; cbn [run].
    - rewrite N.add_0_r. auto.
    - cbn [length] in Hk. destruct HT as [Hd HT].
      destruct (step jf job_ok s m) as [r|] eqn:E; [|exact I].
      pose proof (step_post k s m r ltac:(lia) HI HB E) as P.
      destruct r as [s'|p]; cbn [Post] in P.
      + destruct P as (HI' & HB' & _ & HD'). specialize (HD' HD Hd).
        specialize (IH (k + 1) s' ltac:(lia) HI' HB' HD' HT).
        destruct (run jf job_ok s' tr) as [[s''|p]|]; auto.
        cbn [length]. replace (k + N.of_nat (S (length tr))) with (k + 1 + N.of_nat (length tr)) by lia. exact IH.
      + apply P. split; assumption.
  Qed.

  (* the same for the batch discipline of the property (which implies the exact one) *)
  Theorem run_safe_batch tr : forall k s,
    k + N.of_nat (length tr) < 2 ^ 63 -> Inv jf s -> Bnd k s -> BInv s -> bdisc_trace s tr ->
    match run jf job_ok s tr with
    | None => True
    | Some (Panic _) => False
    | Some (Ok s') => Inv jf s' /\ BInv s' /\ Bnd (k + N.of_nat (length tr)) s'
    end.
  Proof.
    induction tr as [|m tr IH]; intros k s Hk HI HB HD HT; cbn [run].
    - rewrite N.add_0_r. auto.
    - cbn [length] in Hk. destruct HT as [Hd HT].
      destruct (step jf job_ok s m) as [r|] eqn:E; [|exact I].
      pose proof (step_post k s m r ltac:(lia) HI HB E) as P.
      destruct r as [s'|p]; cbn [Post] in P.
      + destruct P as (HI' & HB' & HD' & _). specialize (HD' HD Hd).
        specialize (IH (k + 1) s' ltac:(lia) HI' HB' HD' HT).
        destruct (run jf job_ok s' tr) as [[s''|p]|]; auto.
        cbn [length]. replace (k + N.of_nat (S (length tr))) with (k + 1 + N.of_nat (length tr)) by lia. exact IH.
      + apply P. split; [apply BInv_DInv; exact HD|apply bdisc_disciplined; assumption].
  Qed.

  (* ------------------------------------------------------------------ what the invariant says *)
  Lemma flat_map_cnt_le {A} (f g : A -> list N) (l : list A) w :
    (forall x, (cnt (f x) w <= cnt (g x) w)%nat) -> (cnt (flat_map f l) w <= cnt (flat_map g l) w)%nat.
  Proof. intros H. induction l as [|h t IH]; cbn [flat_map]; [lia|]. rewrite !cnt_app. specialize (H h). lia. Qed.

  Lemma done_le_ids pc w : (cnt (w_done pc) w <= cnt (w_ids pc) w)%nat.
  Proof. destruct pc; cbn [w_done w_ids]; rewrite ?cnt_cons, ?cnt_nil; lia. Qed.

  Lemma arcs_le_ids_len pc : (length (w_arcs pc) <= length (w_ids pc))%nat.
  Proof. destruct pc; cbn; lia. Qed.

  (* each job body ran at most once; exactly once for every join that returned *)
  Lemma inv_exec_once s : Inv jf s -> forall w, (exec_count s w <= 1)%nat.
  Proof.
    intros (lj & lr & _ & _ & C) w. unfold exec_count.
    pose proof (c_exec _ _ _ _ C w). pose proof (c_part _ _ _ _ C w).
    pose proof (flat_map_cnt_le w_done w_ids (wpcs s) w (fun pc => done_le_ids pc w)).
    destruct (w <? cur_work_id (wq s)); lia.
  Qed.

  Lemma inv_joined s : Inv jf s -> forall w v, In (w, v) (joined s) ->
    exec_count s w = 1%nat /\ exists j, In j (spawned s) /\ j_id j = w /\ v = jf (j_arg j)
                              /\ (forall j', In j' (spawned s) -> j_id j' = w -> j' = j).
  Proof.
    intros (lj & lr & _ & _ & C) w v Hin. unfold exec_count.
    assert (Hc : (1 <= cnt (map fst (joined s)) w)%nat).
    { apply (cnt_In (map fst (joined s)) w). apply in_map_iff. exists (w, v). split; [reflexivity|exact Hin]. }
    pose proof (c_exec _ _ _ _ C w). pose proof (c_part _ _ _ _ C w).
    pose proof (flat_map_cnt_le w_done w_ids (wpcs s) w (fun pc => done_le_ids pc w)).
    split; [destruct (w <? cur_work_id (wq s)); lia|].
    destruct (c_join _ _ _ _ C w v Hin) as (j & Hj & Hid & Hv). exists j. repeat split; try assumption.
    intros j' Hj' Hid'. pose proof (c_nodup _ _ _ _ C) as ND.
    clear - Hj Hj' Hid Hid' ND. induction (spawned s) as [|h t IH]; [destruct Hj|].
    cbn [map] in ND. inversion ND; subst. destruct Hj as [->|Hj]; destruct Hj' as [->|Hj']; auto.
    - exfalso. apply H1. apply in_map_iff. exists j'. split; [congruence|assumption].
    - exfalso. apply H1. apply in_map_iff. exists j. split; [congruence|assumption].
  Qed.

  (* C07_owner: once every join handle has been consumed the spawner Arc is unique *)
  Lemma inv_owner s a : Inv jf s -> handles s = [] -> sub_w (sub s) = [] -> cur_arc s = Some a -> strong s a = 1.
  Proof. intros (lj & lr & _ & _ & C). apply (core_owner s lj lr a C). Qed.
End Preserve.
