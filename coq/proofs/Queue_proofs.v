(* FixedQueue (model/Pool.v) refines the bounded list queue of spec/PoolSpec.v. *)
From Coq Require Import NArith ZArith List Bool Lia Arith Permutation.
From V Require Import lib.Words gen.GenPool spec.PoolSpec model.Pool.
Import ListNotations.
Open Scope N_scope.

Lemma DLEN_16 : DLEN = 16.
Proof. reflexivity. Qed.

(* ---- set_nth / slot / put ---- *)
Lemma set_nth_length {A} (l : list A) n x : length (set_nth l n x) = length l.
Proof. revert n; induction l as [|h t IH]; intros [|n]; cbn; auto. Qed.

Lemma nth_set_nth_same {A} (l : list A) n x d : (n < length l)%nat -> nth n (set_nth l n x) d = x.
Proof. revert n; induction l as [|h t IH]; intros [|n] H; cbn in *; try lia; auto. apply IH; lia. Qed.

Lemma nth_set_nth_other {A} (l : list A) n m x d : m <> n -> nth m (set_nth l n x) d = nth m l d.
Proof.
  revert n m; induction l as [|h t IH]; intros [|n] [|m] H; cbn; auto; try congruence.
Qed.

Lemma nth_error_set_nth_same {A} (l : list A) n x : (n < length l)%nat -> nth_error (set_nth l n x) n = Some x.
Proof. revert n; induction l as [|h t IH]; intros [|n] H; cbn in *; try lia; auto. apply IH; lia. Qed.

Lemma nth_error_set_nth_other {A} (l : list A) n m x : m <> n -> nth_error (set_nth l n x) m = nth_error l m.
Proof.
  revert n m; induction l as [|h t IH]; intros [|n] [|m] H; cbn; auto; try congruence.
Qed.

Lemma nth_error_ext_len {A} (l1 l2 : list A) : length l1 = length l2 ->
  (forall k, (k < length l1)%nat -> nth_error l1 k = nth_error l2 k) -> l1 = l2.
Proof.
  revert l2; induction l1 as [|h t IH]; intros [|h2 t2] L H; cbn in L; try lia; auto.
  pose proof (H 0%nat ltac:(cbn; lia)) as H0. cbn in H0. inversion H0; subst. f_equal.
  apply IH; [lia|]. intros k Hk. apply (H (S k)). cbn; lia.
Qed.

Section Q.
  Context {T : Type}.

  Lemma slot_put_same (d : list (option T)) i x : length d = 16%nat -> i < 16 -> slot (put d i x) i = x.
  Proof. intros L H. unfold slot, put. apply nth_set_nth_same. lia. Qed.

  Lemma slot_put_other (d : list (option T)) i j x : j <> i -> slot (put d i x) j = slot d j.
  Proof. intros H. unfold slot, put. apply nth_set_nth_other. lia. Qed.

  Lemma put_length (d : list (option T)) i x : length (put d i x) = length d.
  Proof. apply set_nth_length. Qed.

  Definition idx (q : fq T) (k : nat) : N := (fq_start q + N.of_nat k) mod 16.

  Record Rep (q : fq T) (l : list T) : Prop := mkRep {
    rep_len : length (fq_data q) = 16%nat;
    rep_size : fq_size q = N.of_nat (length l);
    rep_le : (length l <= 16)%nat;
    rep_in : forall k, (k < length l)%nat -> slot (fq_data q) (idx q k) = nth_error l k;
    rep_out : forall i, i < 16 -> (forall k, (k < length l)%nat -> i <> idx q k) -> slot (fq_data q) i = None
  }.

  Ltac Zify.zify_post_hook ::= Z.to_euclidean_division_equations.

  Lemma idx_lt q k : idx q k < 16.
  Proof. unfold idx. lia. Qed.

  Lemma idx_inj q k1 k2 : (k1 < 16)%nat -> (k2 < 16)%nat -> idx q k1 = idx q k2 -> k1 = k2.
  Proof. unfold idx. intros H1 H2 H. lia. Qed.

  Lemma idx_shift s d sz k : idx (mkfq d sz (s + 1)) k = (s + N.of_nat (S k)) mod 16.
  Proof. unfold idx. cbn [fq_start]. f_equal. lia. Qed.

  Lemma mod16_0 s : s mod 16 = (s + N.of_nat 0) mod 16.
  Proof. f_equal. lia. Qed.

  Ltac Zify.zify_post_hook ::= idtac.

  Lemma Rep_new : Rep (@fq_new T) [].
  Proof.
    constructor; cbn; try reflexivity; try lia.
    intros i Hi _. unfold slot.
    change (repeat None (N.to_nat FQ_NEW_NONES)) with (@repeat (option T) None 16).
    destruct (nth_in_or_default (N.to_nat i) (@repeat (option T) None 16) None) as [H|H]; [|exact H].
    apply repeat_spec in H. exact H.
  Qed.

  Lemma Rep_unique q l1 l2 : Rep q l1 -> Rep q l2 -> l1 = l2.
  Proof.
    intros [_ S1 _ I1 _] [_ S2 _ I2 _].
    assert (L : length l1 = length l2) by lia.
    apply nth_error_ext_len; [exact L|].
    intros k Hk. rewrite <- I1 by exact Hk. apply I2. lia.
  Qed.

  Ltac sp := first [apply idx_lt | rewrite ?put_length; assumption].

  (* ---- push ---- *)
  Lemma push_full q l x : Rep q l -> length l = 16%nat -> fq_push q x = Ok (false, q).
  Proof.
    intros R L. unfold fq_push. rewrite (rep_size _ _ R), L.
    change (N.of_nat 16 =? DLEN) with true. reflexivity.
  Qed.

  Lemma push_ok q l x : Rep q l -> (length l < 16)%nat -> fq_start q + fq_size q <= USIZE_MAX ->
    exists q', fq_push q x = Ok (true, q') /\ Rep q' (l ++ [x]) /\ fq_start q' = fq_start q.
  Proof.
    intros R L B. pose proof (rep_size _ _ R) as HS. pose proof (rep_len _ _ R) as DL.
    unfold fq_push. rewrite DLEN_16.
    destruct (N.eqb_spec (fq_size q) 16) as [E|_]; [lia|].
    unfold uadd. destruct (N.leb_spec (fq_start q + fq_size q) USIZE_MAX) as [_|?]; [|lia].
    destruct (N.leb_spec (fq_size q + 1) USIZE_MAX) as [_|B2]; [|unfold USIZE_MAX in B2; cbn in B2; lia].
    eexists; split; [reflexivity|]. split; [|reflexivity].
    assert (I0 : (fq_start q + fq_size q) mod 16 = idx q (length l)) by (unfold idx; rewrite HS; reflexivity).
    rewrite I0.
    constructor; cbn [fq_data fq_size fq_start].
    - rewrite put_length. exact DL.
    - rewrite app_length. cbn. lia.
    - rewrite app_length. cbn. lia.
    - intros k Hk. rewrite app_length in Hk. cbn in Hk.
      change (idx {| fq_data := put (fq_data q) (idx q (length l)) (Some x); fq_size := fq_size q + 1; fq_start := fq_start q |} k)
        with (idx q k).
      destruct (Nat.eq_dec k (length l)) as [->|Hne].
      + rewrite slot_put_same by sp. rewrite nth_error_app2 by lia. rewrite Nat.sub_diag. reflexivity.
      + rewrite slot_put_other.
        * rewrite (rep_in _ _ R) by lia. rewrite nth_error_app1 by lia. reflexivity.
        * intros E. apply idx_inj in E; lia.
    - intros i Hi Hk. rewrite app_length in Hk. cbn in Hk.
      rewrite slot_put_other.
      + apply (rep_out _ _ R); [exact Hi|]. intros k Hk2. apply (Hk k). lia.
      + apply (Hk (length l)). lia.
  Qed.

  (* ---- pop ---- *)
  Lemma pop_empty q : Rep q [] -> fq_pop q = Ok (None, q).
  Proof. intros R. unfold fq_pop. rewrite (rep_size _ _ R). reflexivity. Qed.

  Lemma Rep_tail q h t0 t d :
    Rep q (h :: t0) ->
    length t = length t0 ->
    length d = 16%nat ->
    (forall k, (k < length t)%nat -> slot d (idx q (S k)) = nth_error t k) ->
    (forall i, i < 16 -> (forall k, (k < length t)%nat -> i <> idx q (S k)) -> slot d i = None) ->
    Rep (mkfq d (fq_size q - 1) (fq_start q + 1)) t.
  Proof.
    intros R EL DL Hin Hout. pose proof (rep_size _ _ R) as HS. pose proof (rep_le _ _ R) as LE. cbn in HS, LE.
    constructor; cbn [fq_data fq_size fq_start].
    - exact DL.
    - lia.
    - lia.
    - intros k Hk. rewrite idx_shift. apply Hin. exact Hk.
    - intros i Hi Hk. apply Hout; [exact Hi|]. intros k Hk2 E. apply (Hk k Hk2). rewrite idx_shift. exact E.
  Qed.

  Lemma pop_cons q h t : Rep q (h :: t) -> fq_start q + 1 <= USIZE_MAX ->
    exists q', fq_pop q = Ok (Some h, q') /\ Rep q' t /\ fq_start q' = fq_start q + 1.
  Proof.
    intros R B. pose proof (rep_size _ _ R) as HS. pose proof (rep_len _ _ R) as DL. pose proof (rep_le _ _ R) as LE.
    cbn in HS, LE.
    unfold fq_pop. rewrite DLEN_16.
    destruct (N.eqb_spec (fq_size q) 0) as [E|_]; [lia|].
    unfold uadd, usub. destruct (N.leb_spec (fq_start q + 1) USIZE_MAX) as [_|?]; [|lia].
    destruct (N.leb_spec 1 (fq_size q)) as [_|?]; [|lia].
    rewrite (mod16_0 (fq_start q)). change ((fq_start q + N.of_nat 0) mod 16) with (idx q 0).
    rewrite (rep_in _ _ R 0%nat) by (cbn; lia). cbn [nth_error].
    eexists; split; [reflexivity|]. split; [|reflexivity].
    apply (Rep_tail q h t t); [exact R|reflexivity|rewrite put_length; exact DL| |].
    - intros k Hk. rewrite slot_put_other.
      + rewrite (rep_in _ _ R (S k)) by (cbn; lia). reflexivity.
      + intros E. apply idx_inj in E; cbn in LE; lia.
    - intros i Hi Hk. destruct (N.eq_dec i (idx q 0)) as [->|Hne].
      + apply slot_put_same; sp.
      + rewrite slot_put_other by exact Hne. apply (rep_out _ _ R); [exact Hi|].
        intros [|k] Hk2; [exact Hne|]. apply Hk. cbn in Hk2. lia.
  Qed.

  (* ---- remove ---- *)
  Definition hole_fill (pre post : list T) : list T :=
    match pre with [] => post | h :: pre' => pre' ++ h :: post end.

  Lemma nth_error_mid_irrelevant (a b : list T) x y k : k <> length a ->
    nth_error (a ++ x :: b) k = nth_error (a ++ y :: b) k.
  Proof.
    intros H. destruct (Nat.lt_ge_cases k (length a)) as [L|G].
    - rewrite !nth_error_app1 by exact L. reflexivity.
    - rewrite !nth_error_app2 by exact G. destruct (k - length a)%nat eqn:E; [lia|]. reflexivity.
  Qed.

  Lemma remove_found q pre y post f :
    Rep q (pre ++ y :: post) -> fq_start q + 16 <= USIZE_MAX -> f (Some y) = true ->
    exists q', fq_remove_loop f q (N.of_nat (length pre)) (S (length post)) = Ok (Some y, q')
               /\ Rep q' (hole_fill pre post) /\ fq_start q' = fq_start q + 1.
  Proof.
    intros R B F. pose proof (rep_size _ _ R) as HS. pose proof (rep_len _ _ R) as DL. pose proof (rep_le _ _ R) as LE.
    rewrite app_length in HS, LE. cbn in HS, LE.
    cbn [fq_remove_loop]. rewrite DLEN_16.
    unfold uadd. destruct (N.leb_spec (fq_start q + N.of_nat (length pre)) USIZE_MAX) as [_|?]; [|lia].
    change ((fq_start q + N.of_nat (length pre)) mod 16) with (idx q (length pre)).
    assert (Hy : slot (fq_data q) (idx q (length pre)) = Some y).
    { rewrite (rep_in _ _ R) by (rewrite app_length; cbn; lia). rewrite nth_error_app2 by lia.
      rewrite Nat.sub_diag. reflexivity. }
    rewrite Hy, F.
    rewrite (mod16_0 (fq_start q)). change ((fq_start q + N.of_nat 0) mod 16) with (idx q 0).
    destruct (N.leb_spec (fq_start q + 1) USIZE_MAX) as [_|?]; [|lia].
    unfold usub. destruct (N.leb_spec 1 (fq_size q)) as [_|?]; [|lia].
    destruct pre as [|h pre'].
    - (* the head itself: nothing to move *)
      cbn [length hole_fill app] in *.
      rewrite slot_put_same by sp.
      rewrite slot_put_same by sp.
      eexists; split; [reflexivity|]. split; [|reflexivity].
      apply (Rep_tail q y post post); [exact R|reflexivity|rewrite !put_length; exact DL| |].
      + intros k Hk. rewrite !slot_put_other.
        * rewrite (rep_in _ _ R (S k)) by (cbn; lia). reflexivity.
        * intros E. apply idx_inj in E; lia.
        * intros E. apply idx_inj in E; lia.
        * intros E. apply idx_inj in E; lia.
      + intros i Hi Hk. destruct (N.eq_dec i (idx q 0)) as [->|Hne].
        * apply slot_put_same; sp.
        * rewrite !slot_put_other by exact Hne. apply (rep_out _ _ R); [exact Hi|].
          intros [|k] Hk2; [exact Hne|]. apply Hk. cbn in Hk2. lia.
    - (* the head moves into the hole *)
      cbn [length hole_fill] in *.
      set (tg := idx q (S (length pre'))). set (st := idx q 0).
      assert (Hts : tg <> st) by (intros E; apply idx_inj in E; lia).
      assert (Hst : st <> tg) by congruence.
      assert (Hh : slot (fq_data q) st = Some h) by (unfold st; rewrite (rep_in _ _ R 0%nat) by (cbn; lia); reflexivity).
      rewrite (slot_put_other _ tg st) by exact Hst. rewrite Hh.
      rewrite (slot_put_other _ st tg) by exact Hts.
      rewrite slot_put_same by sp.
      eexists; split; [reflexivity|]. split; [|reflexivity].
      apply (Rep_tail q h (pre' ++ y :: post) (pre' ++ h :: post)).
      + exact R.
      + rewrite !app_length. reflexivity.
      + rewrite !put_length. exact DL.
      + intros k Hk. rewrite app_length in Hk. cbn in Hk.
        destruct (Nat.eq_dec k (length pre')) as [->|Hne].
        * fold tg. rewrite slot_put_same by sp.
          rewrite nth_error_app2 by lia. rewrite Nat.sub_diag. reflexivity.
        * assert (N1 : idx q (S k) <> tg) by (intros E; apply idx_inj in E; lia).
          assert (N2 : idx q (S k) <> st) by (intros E; apply idx_inj in E; lia).
          rewrite !slot_put_other by assumption.
          rewrite (rep_in _ _ R (S k)) by (cbn; rewrite app_length; cbn; lia).
          cbn [nth_error]. apply nth_error_mid_irrelevant. exact Hne.
      + intros i Hi Hk. rewrite app_length in Hk. cbn in Hk.
        assert (N1 : i <> tg) by (apply Hk; lia).
        rewrite (slot_put_other _ tg i) by exact N1.
        destruct (N.eq_dec i st) as [->|N2].
        * apply slot_put_same; sp.
        * rewrite !slot_put_other by assumption. apply (rep_out _ _ R); [exact Hi|].
          intros [|k] Hk2; [exact N2|]. apply Hk. cbn in Hk2. rewrite app_length in Hk2. cbn in Hk2. lia.
  Qed.

  Lemma remove_loop_skip f (q : fq T) i n y :
    fq_start q + i <= USIZE_MAX -> slot (fq_data q) ((fq_start q + i) mod 16) = Some y -> f (Some y) = false ->
    fq_remove_loop f q i (S n) = fq_remove_loop f q (i + 1) n.
  Proof.
    intros B Hy F. cbn [fq_remove_loop]. rewrite DLEN_16. unfold uadd at 1.
    destruct (N.leb_spec (fq_start q + i) USIZE_MAX) as [_|?]; [|lia].
    rewrite Hy, F. reflexivity.
  Qed.

  Lemma remove_loop_spec f q rest : forall pre,
    Rep q (pre ++ rest) -> fq_start q + 16 <= USIZE_MAX ->
    match qs_find (fun x => f (Some x)) rest with
    | None => fq_remove_loop f q (N.of_nat (length pre)) (length rest) = Ok (None, q)
    | Some (p2, x, post) =>
      exists q', fq_remove_loop f q (N.of_nat (length pre)) (length rest) = Ok (Some x, q')
                 /\ Rep q' (hole_fill (pre ++ p2) post) /\ fq_start q' = fq_start q + 1
    end.
  Proof.
    induction rest as [|y rest IH]; intros pre R B; cbn [qs_find length].
    - reflexivity.
    - destruct (f (Some y)) eqn:F.
      + rewrite app_nil_r. apply remove_found; assumption.
      + pose proof (rep_le _ _ R) as LE. rewrite app_length in LE. cbn in LE.
        assert (Hy : slot (fq_data q) (idx q (length pre)) = Some y).
        { rewrite (rep_in _ _ R) by (rewrite app_length; cbn; lia). rewrite nth_error_app2 by lia.
          rewrite Nat.sub_diag. reflexivity. }
        assert (R2 : Rep q ((pre ++ [y]) ++ rest)) by (rewrite <- app_assoc; exact R).
        specialize (IH (pre ++ [y]) R2 B).
        assert (EL : N.of_nat (length (pre ++ [y])) = N.of_nat (length pre) + 1) by (rewrite app_length; cbn; lia).
        rewrite EL in IH.
        rewrite (remove_loop_skip f q (N.of_nat (length pre)) (length rest) y) by (try assumption; lia).
        destruct (qs_find (fun x => f (Some x)) rest) as [[[p2 x] post]|].
        * destruct IH as (q' & E & R' & S'). exists q'. split; [exact E|]. split; [|exact S'].
          rewrite <- app_assoc in R'. exact R'.
        * exact IH.
  Qed.

  Lemma remove_spec f q l : Rep q l -> fq_start q + 16 <= USIZE_MAX ->
    exists q', fq_remove f q = Ok (fst (qs_remove (fun x => f (Some x)) l), q')
               /\ Rep q' (snd (qs_remove (fun x => f (Some x)) l))
               /\ fq_start q' <= fq_start q + 1.
  Proof.
    intros R B. pose proof (rep_size _ _ R) as HS. unfold fq_remove, qs_remove.
    destruct l as [|h t].
    - cbn in HS. rewrite HS. cbn. exists q. split; [reflexivity|]. split; [exact R|lia].
    - destruct (N.eqb_spec (fq_size q) 0) as [E|_]; [cbn in HS; lia|].
      pose proof (remove_loop_spec f q (h :: t) [] R B) as L.
      rewrite HS, Nat2N.id. cbn [length N.of_nat app] in L.
      destruct (qs_find (fun x => f (Some x)) (h :: t)) as [[[p2 x] post]|].
      + destruct L as (q' & E & R' & S'). exists q'. cbn [fst snd]. split; [exact E|]. split; [exact R'|lia].
      + exists q. cbn [fst snd]. split; [exact L|]. split; [exact R|lia].
  Qed.

  (* ---- whole operation sequences ---- *)
  Lemma fq_step_refines q l o : Rep q l -> fq_start q + 17 <= USIZE_MAX ->
    exists q', fq_step q o = Ok (fst (qs_step 16 l o), q') /\ Rep q' (snd (qs_step 16 l o))
               /\ fq_start q' <= fq_start q + 1.
  Proof.
    intros R B. pose proof (rep_size _ _ R) as HS. pose proof (rep_le _ _ R) as LE.
    destruct o as [x| |f| | |]; cbn [fq_step qs_step].
    - unfold qs_push. destruct (Nat.eqb_spec (length l) 16) as [E|NE].
      + rewrite (push_full q l x R E). exists q. cbn. split; [reflexivity|]. split; [exact R|lia].
      + destruct (push_ok q l x R ltac:(lia) ltac:(lia)) as (q' & E & R' & S'). rewrite E.
        exists q'. cbn. split; [reflexivity|]. split; [exact R'|lia].
    - destruct l as [|h t].
      + rewrite (pop_empty q R). exists q. cbn. split; [reflexivity|]. split; [exact R|lia].
      + destruct (pop_cons q h t R ltac:(lia)) as (q' & E & R' & S'). rewrite E.
        exists q'. cbn. split; [reflexivity|]. split; [exact R'|lia].
    - destruct (remove_spec f q l R ltac:(lia)) as (q' & E & R' & S'). rewrite E.
      exists q'. destruct (qs_remove (fun x => f (Some x)) l). cbn in *. split; [reflexivity|]. split; assumption.
    - exists q. unfold fq_sz. rewrite HS. cbn. split; [reflexivity|]. split; [exact R|lia].
    - exists q. unfold fq_can_push. rewrite HS, DLEN_16. cbn [fst snd].
      assert (E : (N.of_nat (length l) <? 16) = Nat.ltb (length l) 16).
      { destruct (N.ltb_spec (N.of_nat (length l)) 16); destruct (Nat.ltb_spec (length l) 16); try reflexivity; lia. }
      rewrite E. split; [reflexivity|]. split; [exact R|lia].
    - exists q. unfold fq_how_much_free_space, usub. rewrite HS, DLEN_16.
      destruct (N.leb_spec (N.of_nat (length l)) 16) as [_|?]; [|lia].
      cbn [fst snd]. replace (16 - N.of_nat (length l)) with (N.of_nat (16 - length l)) by lia.
      split; [reflexivity|]. split; [exact R|lia].
  Qed.

  Lemma fq_run_refines ops : forall q l, Rep q l ->
    fq_start q + N.of_nat (length ops) + 17 <= USIZE_MAX ->
    fq_run q ops = Ok (qs_run 16 l ops).
  Proof.
    induction ops as [|o ops IH]; intros q l R B; cbn [fq_run qs_run]; [reflexivity|].
    cbn [length] in B.
    destruct (fq_step_refines q l o R ltac:(lia)) as (q' & E & R' & S'). rewrite E.
    destruct (qs_step 16 l o) as [a l']. cbn [fst snd] in *.
    rewrite (IH q' l' R') by lia. reflexivity.
  Qed.

  Theorem queue_refines_spec (ops : list (qop T)) :
    N.of_nat (length ops) < 2 ^ 63 -> fq_run fq_new ops = Ok (qs_run 16 [] ops).
  Proof.
    intros H. apply fq_run_refines; [apply Rep_new|].
    change (fq_start (@fq_new T)) with 0. unfold USIZE_MAX.
    assert (2 ^ 63 + 17 <= 2 ^ 64 - 1) by (vm_compute; discriminate). lia.
  Qed.

  (* ---- what the list queue itself guarantees ---- *)
  Lemma qs_find_some g (l pre post : list T) x : qs_find g l = Some (pre, x, post) ->
    l = pre ++ x :: post /\ g x = true /\ Forall (fun y => g y = false) pre.
  Proof.
    revert pre; induction l as [|h t IH]; intros pre H; cbn in H; [discriminate|].
    destruct (g h) eqn:G.
    - inversion H; subst. repeat split; [exact G|constructor].
    - destruct (qs_find g t) as [[[p2 x2] po2]|]; [|discriminate]. inversion H; subst.
      destruct (IH p2 eq_refl) as (E & Gx & F). subst t. repeat split; [exact Gx|constructor; assumption].
  Qed.

  Lemma qs_find_none g (l : list T) : qs_find g l = None -> Forall (fun y => g y = false) l.
  Proof.
    induction l as [|h t IH]; intros H; cbn in H; [constructor|].
    destruct (g h) eqn:G; [discriminate|]. destruct (qs_find g t) as [[[? ?] ?]|]; [discriminate|].
    constructor; [exact G|apply IH; reflexivity].
  Qed.

  (* remove returns the first match and keeps the multiset of the rest *)
  Lemma qs_remove_some g (l l' : list T) x : qs_remove g l = (Some x, l') ->
    exists pre post, l = pre ++ x :: post /\ g x = true /\ Forall (fun y => g y = false) pre
                     /\ l' = hole_fill pre post /\ Permutation l (x :: l').
  Proof.
    unfold qs_remove. intros H. destruct (qs_find g l) as [[[pre y] post]|] eqn:F; [|discriminate].
    inversion H; subst. destruct (qs_find_some _ _ _ _ _ F) as (E & G & FA).
    exists pre, post. repeat split; try assumption.
    subst l. destruct pre as [|h pre']; cbn.
    - apply Permutation_refl.
    - change (Permutation ((h :: pre') ++ x :: post) (x :: pre' ++ h :: post)).
      eapply Permutation_trans; [apply Permutation_sym; apply Permutation_middle|].
      apply perm_skip. cbn. apply Permutation_middle.
  Qed.

  Lemma qs_remove_none g (l l' : list T) : qs_remove g l = (None, l') ->
    l' = l /\ Forall (fun y => g y = false) l.
  Proof.
    unfold qs_remove. intros H. destruct (qs_find g l) as [[[pre y] post]|] eqn:F; [discriminate|].
    inversion H; subst. split; [reflexivity|apply qs_find_none; exact F].
  Qed.

  Lemma qs_step_bounded cap (l : list T) o : (length l <= cap)%nat -> (length (snd (qs_step cap l o)) <= cap)%nat.
  Proof.
    intros H. destruct o as [x| |f| | |]; cbn; try exact H.
    - unfold qs_push. destruct (Nat.eqb_spec (length l) cap); cbn; [exact H|]. rewrite app_length. cbn. lia.
    - destruct l; cbn in *; lia.
    - destruct (qs_remove (fun x => f (Some x)) l) as [r l'] eqn:E. cbn.
      destruct r as [x|].
      + destruct (qs_remove_some _ _ _ _ E) as (pre & post & -> & _ & _ & -> & _).
        rewrite app_length in H. cbn in H. destruct pre; cbn in *; [lia|]. rewrite app_length. cbn. lia.
      + destruct (qs_remove_none _ _ _ E) as [-> _]. exact H.
  Qed.
End Q.
