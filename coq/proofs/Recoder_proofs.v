(* C14: the recoder (model/Recoder.v) refines the decoder's reading of the encoder's own
   command list (spec/IrReplay.v cmd_run): the IR it pushes replays to the same bytes. *)
From Coq Require Import NArith ZArith List Bool Lia.
From V Require Import lib.Words model.Arith spec.IrReplay model.Recoder proofs.Bitops proofs.IrReplay_proofs.
Import ListNotations.
Open Scope N_scope.

(* ---- InputPair ---- *)
(* p covers exactly the k bytes of the meta-block input that start at q *)
Definition ip_at (p : ipair) (q k : N) : Prop :=
  ip_len p = k /\ (n0 p <> 0 -> o0 p = q) /\ (n1 p <> 0 -> o1 p = q + n0 p).

Lemma ip_split_spec p q len k : ip_at p q len -> k <= len ->
  ip_at (fst (ip_split_at p k)) q k /\ ip_at (snd (ip_split_at p k)) (q + k) (len - k).
Proof.
  unfold ip_at, ip_len, ip_split_at. intros (H1 & H2 & H3) Hk.
  destruct (N.leb_spec (n0 p) k) as [Hle|Hlt]; cbn [fst snd o0 n0 o1 n1].
  - assert (Hm : N.min (k - n0 p) (n1 p) = k - n0 p) by lia. rewrite Hm.
    repeat split; try lia; intros Hne; assert (n1 p <> 0) by lia; lia.
  - repeat split; try lia.
Qed.

(* ---- stride detection's score array ---- *)
Lemma score_len_inv n : 32 <= score_len n /\ N.of_nat n * 8 + 7 < score_len n.
Proof.
  induction n as [|k [IH1 IH2]]; [cbn; lia|].
  cbn [score_len]. unfold score_grow. rewrite Nat2N.inj_succ in *.
  destruct (N.leb_spec (score_len k) (N.succ (N.of_nat k) * 8 + 7)); lia.
Qed.
Lemma choose_stride_holds n :
  choose_stride_ok n = true /\
  forall index, index < N.of_nat n -> (1 + index) * 8 + 8 <= score_len n.
Proof.
  destruct (score_len_inv n) as [H1 H2]. split.
  - unfold choose_stride_ok. apply andb_true_iff. split; apply N.ltb_lt; lia.
  - intros index Hi. lia.
Qed.
Lemma choose_stride_unfixed_fails : choose_stride_ok_unfixed 3 = false /\ choose_stride_ok_unfixed 7 = false.
Proof. vm_compute. split; reflexivity. Qed.

Section WithDict.
Variable dict_word : N -> N -> list N.
Variable transforms : list (list N * N * list N).

Notation ir_run := (ir_run dict_word transforms).
Notation ir_step := (ir_step dict_word transforms).

Lemma push_literals_run p he q k s tl : ip_at p q k -> q = pos s -> k <= remaining s ->
  ir_run (push_literals p he ++ tl) s = ir_run tl (adv k s).
Proof.
  unfold ip_at, ip_len, push_literals. intros (H1 & H2 & H3) Hq Hk.
  destruct (N.eqb_spec (n0 p) 0) as [E0|E0]; destruct (N.eqb_spec (n1 p) 0) as [E1|E1]; cbn [app].
  - replace k with 0 by lia. rewrite adv_0. reflexivity.
  - cbn [ir_run]. rewrite ir_literal by lia. f_equal. f_equal. lia.
  - cbn [ir_run]. rewrite ir_literal by lia. f_equal. f_equal. lia.
  - cbn [ir_run]. rewrite ir_literal by lia.
    rewrite ir_literal; [|unfold adv, emit; cbn [pos]; lia|unfold adv, emit; cbn [remaining]; lia].
    rewrite adv_adv. f_equal. f_equal. lia.
Qed.

Lemma adv_pos k s : pos (adv k s) = pos s + k. Proof. reflexivity. Qed.
Lemma adv_remaining k s : remaining (adv k s) = remaining s - k. Proof. reflexivity. Qed.
Lemma adv_produced k s : produced (adv k s) = produced s + k. Proof. reflexivity. Qed.

Section WithParams.
Variable mb_at : N -> N.
Variable lgwin nd np he_quality : N.
Variable has_context_type : bool.

Notation lit_loop := (lit_loop he_quality has_context_type).
Notation rec_literals := (rec_literals he_quality has_context_type).

(* the literal-splitting loop: whatever the block split says, the pushed IR advances the replay
   over the consumed part of the insert, and what is left still fits under btypel_sub *)
Lemma lit_loop_spec fuel : forall tmp sub rest mbl s K,
  ip_at tmp (pos s) K -> K <= remaining s -> mbl = remaining s -> K <= 2 ^ 31 ->
  ((length rest + 1 <= fuel)%nat \/ K <= sub) ->
  exists tmp' sub' rest' ir K',
    lit_loop fuel tmp sub rest mbl = Done (tmp', sub', rest', mbl - (K - K'), ir)
    /\ K' <= K /\ K' <= sub' /\ ip_at tmp' (pos s + (K - K')) K'
    /\ forall tl, ir_run (ir ++ tl) s = ir_run tl (adv (K - K') s).
Proof.
  assert (Hdone : forall tmp sub (rest : list (N * N)) mbl s K, ip_at tmp (pos s) K -> K <= sub ->
    exists tmp' sub' rest' ir K',
      Done (tmp, sub, rest, mbl, @nil ir_cmd) = Done (tmp', sub', rest', mbl - (K - K'), ir)
      /\ K' <= K /\ K' <= sub' /\ ip_at tmp' (pos s + (K - K')) K'
      /\ forall tl, ir_run (ir ++ tl) s = ir_run tl (adv (K - K') s)).
  { intros tmp sub rest mbl s K Hat Hle. exists tmp, sub, rest, [], K. replace (K - K) with 0 by lia.
    rewrite N.sub_0_r, N.add_0_r. repeat split; try lia; try (destruct Hat as (?&?&?); assumption).
    intros tl. rewrite adv_0. reflexivity. }
  induction fuel as [|f IH]; intros tmp sub rest mbl s K Hat HK Hmbl H31 Hfuel;
    cbn [Recoder.lit_loop]; assert (Hlen : ip_len tmp = K) by (destruct Hat; assumption);
    rewrite Hlen; destruct (N.leb_spec K sub) as [Hle|Hgt]; try (apply Hdone; assumption).
  - destruct Hfuel; lia.
  - destruct (ip_split_spec tmp (pos s) K sub Hat ltac:(lia)) as [Ha Hb].
    destruct (ip_split_at tmp sub) as [a b]. cbn [fst snd] in Ha, Hb.
    assert (Hla : ip_len a = sub) by (destruct Ha; assumption). rewrite Hla.
    destruct (N.ltb_spec mbl sub) as [Hbad|_]; [lia|].
    destruct rest as [|[t l] rest'].
    + destruct (IH b (2 ^ 31) [] (mbl - sub) (adv sub s) (K - sub)) as (tmp' & sub' & rest'' & ir & K' & E & HK' & Hsub & Hat' & Hrun);
        try (rewrite ?adv_pos, ?adv_remaining; lia); try assumption.
      rewrite E. exists tmp', sub', rest'', (push_literals a (Recoder.lit_he he_quality has_context_type) ++ ir), K'.
      split; [f_equal; f_equal; f_equal; lia|]. split; [lia|]. split; [assumption|].
      split; [rewrite adv_pos in Hat'; replace (pos s + (K - K')) with (pos s + sub + (K - sub - K')) by lia; assumption|].
      intros tl. rewrite <- app_assoc. rewrite (push_literals_run a _ (pos s) sub s) by (try assumption; try reflexivity; lia).
      rewrite Hrun, adv_adv. f_equal. f_equal. lia.
    + destruct (IH b l rest' (mbl - sub) (adv sub s) (K - sub)) as (tmp' & sub' & rest'' & ir & K' & E & HK' & Hsub & Hat' & Hrun);
        try (rewrite ?adv_pos, ?adv_remaining; lia); try assumption.
      { left. destruct Hfuel as [Hf|Hf]; [cbn [length] in Hf; lia|lia]. }
      rewrite E. exists tmp', sub', rest'', (push_literals a (Recoder.lit_he he_quality has_context_type) ++ IrBlockSwitchLiteral t 0 :: ir), K'.
      split; [f_equal; f_equal; f_equal; lia|]. split; [lia|]. split; [assumption|].
      split; [rewrite adv_pos in Hat'; replace (pos s + (K - K')) with (pos s + sub + (K - sub - K')) by lia; assumption|].
      intros tl. rewrite <- app_assoc. rewrite (push_literals_run a _ (pos s) sub s) by (try assumption; try reflexivity; lia).
      cbn [app IrReplay.ir_run IrReplay.ir_step]. rewrite Hrun, adv_adv. f_equal. f_equal. lia.
Qed.

Lemma rec_literals_spec inserts sub rest mbl s K :
  ip_at inserts (pos s) K -> K <= remaining s -> mbl = remaining s -> K <= 2 ^ 31 ->
  exists sub' rest' ir,
    rec_literals inserts sub rest mbl = Done (sub', rest', mbl - K, ir)
    /\ forall tl, ir_run (ir ++ tl) s = ir_run tl (adv K s).
Proof.
  intros Hat HK Hmbl H31. unfold Recoder.rec_literals.
  assert (Hlen : ip_len inserts = K) by (destruct Hat; assumption). rewrite Hlen.
  destruct (N.eqb_spec K 0) as [E|E].
  - exists sub, rest, []. rewrite E, N.sub_0_r. split; [reflexivity|]. intros tl. rewrite adv_0. reflexivity.
  - destruct (lit_loop_spec (length rest + 2 + N.to_nat (K / 2 ^ 31)) inserts sub rest mbl s K Hat HK Hmbl H31)
      as (tmp' & sub' & rest' & ir & K' & E1 & HK' & Hsub & Hat' & Hrun);
      [left; generalize (N.to_nat (K / 2 ^ 31)); intros; lia|].
    rewrite E1. assert (Hlen' : ip_len tmp' = K') by (destruct Hat'; assumption). rewrite Hlen'.
    assert (Hrun2 : forall tl, ir_run ((ir ++ push_literals tmp' (Recoder.lit_he he_quality has_context_type)) ++ tl) s = ir_run tl (adv K s)).
    { intros tl. rewrite <- app_assoc, Hrun.
      rewrite (push_literals_run tmp' _ (pos s + (K - K')) K') by (try assumption; rewrite ?adv_pos, ?adv_remaining; try reflexivity; lia).
      rewrite adv_adv. f_equal. f_equal. lia. }
    destruct (N.eqb_spec K' 0) as [E0|E0].
    + eexists _, _, _. split; [|exact Hrun2]. f_equal. f_equal. f_equal. lia.
    + eexists _, _, _. split; [|exact Hrun2]. f_equal. f_equal. f_equal. lia.
Qed.

Lemma tick_spec sub rest mk :
  1 <= sub -> Forall (fun tl : N * N => 1 <= snd tl) rest ->
  (forall t s, ir_step (mk t) s = Ok s) ->
  exists sub' rest' ir, tick sub rest mk = Done (sub', rest', ir) /\ 1 <= sub'
    /\ Forall (fun tl : N * N => 1 <= snd tl) rest' /\ forall tl s, ir_run (ir ++ tl) s = ir_run tl s.
Proof.
  intros Hs Hr Hmk. unfold tick. destruct (N.eqb_spec sub 0) as [E|_]; [lia|].
  destruct (N.eqb_spec (sub - 1) 0) as [E|E].
  - destruct rest as [|[t l] rest'].
    + eexists _, _, _. split; [reflexivity|]. split; [cbv; discriminate|]. split; [constructor|]. intros; reflexivity.
    + inversion Hr as [|? ? H1 H2]; subst. eexists _, _, _. split; [reflexivity|]. cbn [snd] in H1.
      split; [assumption|]. split; [assumption|]. intros tl s. cbn [app IrReplay.ir_run]. rewrite Hmk. reflexivity.
  - eexists _, _, _. split; [reflexivity|]. split; [lia|]. split; [assumption|]. intros; reflexivity.
Qed.


(* ---- machine-integer conversions on the ranges that occur ---- *)
Lemma as_usize_small z : (0 <= z < 2 ^ 64)%Z -> as_usize z = Z.to_N z.
Proof. intros H. unfold as_usize. rewrite Z.mod_small by exact H. reflexivity. Qed.
Lemma as_i32_small x : x < 2 ^ 31 -> as_i32 x = Z.of_N x.
Proof.
  intros H. unfold as_i32. rewrite N.mod_small by (eapply N.lt_trans; [exact H|reflexivity]).
  destruct (N.ltb_spec x (2 ^ 31)); [reflexivity|lia].
Qed.
Lemma w32_id x : x < 2 ^ 32 -> w32 x = x. Proof. intros H. unfold w32. apply N.mod_small. exact H. Qed.
Lemma w8_id x : x < 2 ^ 8 -> w8 x = x. Proof. intros H. unfold w8. apply N.mod_small. exact H. Qed.

(* ---- the bytes an InputPair denotes ---- *)
Lemma map_nth_seq (mb : list N) q n : (q + n <= length mb)%nat ->
  map (fun i => nth (q + i) mb 0) (seq 0 n) = firstn n (skipn q mb).
Proof.
  induction n as [|n IH]; intros H; [reflexivity|].
  rewrite seq_S, map_app, IH by lia. cbn [map Nat.add].
  rewrite (firstn_S_nth _ 0 n) by (rewrite skipn_length; lia). rewrite nth_skipn. reflexivity.
Qed.

Lemma ip_positions_bytes (mb : list N) a q k : ip_at a q k -> (N.to_nat q + N.to_nat k <= length mb)%nat ->
  map (fun i => nth (N.to_nat i) mb 0) (ip_positions a) = firstn (N.to_nat k) (skipn (N.to_nat q) mb).
Proof.
  unfold ip_at, ip_len, ip_positions. intros (H1 & H2 & H3) Hb.
  rewrite map_app, !map_map.
  assert (E0 : map (fun x => nth (N.to_nat (o0 a + N.of_nat x)) mb 0) (seq 0 (N.to_nat (n0 a)))
               = firstn (N.to_nat (n0 a)) (skipn (N.to_nat q) mb)).
  { destruct (N.eq_dec (n0 a) 0) as [E|E]; [rewrite E; reflexivity|].
    rewrite H2 by exact E. rewrite <- map_nth_seq by lia.
    apply map_ext. intros i. f_equal. lia. }
  assert (E1 : map (fun x => nth (N.to_nat (o1 a + N.of_nat x)) mb 0) (seq 0 (N.to_nat (n1 a)))
               = firstn (N.to_nat (n1 a)) (skipn (N.to_nat q + N.to_nat (n0 a)) mb)).
  { destruct (N.eq_dec (n1 a) 0) as [E|E]; [rewrite E; reflexivity|].
    rewrite H3 by exact E. rewrite <- map_nth_seq by lia.
    apply map_ext. intros i. f_equal. lia. }
  rewrite E0, E1, <- H1, N2Nat.inj_add, firstn_add, skipn_add. reflexivity.
Qed.

(* ---- replay states that are a prefix of the meta-block input ---- *)
Section WithInput.
Variable pre mb : list N.

Definition swf (s : rstate) : Prop :=
  rest s = skipn (N.to_nat (pos s)) mb /\ pos s + remaining s = N.of_nat (length mb)
  /\ produced s = N.of_nat (length pre) + pos s
  /\ hist s = rev (firstn (N.to_nat (pos s)) mb) ++ rev pre.

Lemma swf_init : swf (rinit pre mb).
Proof.
  unfold swf, rinit. cbn [hist produced pos rest remaining N.to_nat skipn firstn rev app].
  rewrite rev_append_rev, app_nil_r. repeat split; lia.
Qed.

Lemma swf_adv k s : swf s -> k <= remaining s -> swf (adv k s).
Proof.
  unfold swf, adv, emit. intros (H1 & H2 & H3 & H4) Hk. cbn [hist produced pos rest remaining].
  rewrite H1, skipn_add, <- N2Nat.inj_add. split; [reflexivity|]. split; [lia|]. split; [lia|].
  rewrite rev_append_rev, H4, N2Nat.inj_add, firstn_add, rev_app_distr, <- app_assoc. reflexivity.
Qed.

Lemma swf_lengths s : swf s ->
  length (rest s) = N.to_nat (remaining s) /\ length (hist s) = N.to_nat (produced s).
Proof.
  unfold swf. intros (H1 & H2 & H3 & H4). rewrite H1, H4, skipn_length, app_length, !rev_length, firstn_length. lia.
Qed.

(* a copy whose bytes equal the input is an advance *)
Lemma emit_copy_adv d n s : swf s -> 1 <= d -> d <= produced s -> n <= remaining s ->
  list_eqb (firstn (N.to_nat n) (hist (emit_copy d n s))) (rev_append (firstn (N.to_nat n) (rest s)) []) = true ->
  emit_copy d n s = adv n s.
Proof.
  intros Hw Hd1 Hd2 Hn Heq. apply list_eqb_eq in Heq. destruct (swf_lengths s Hw) as [Lr Lh].
  unfold emit_copy, adv, emit in *. cbn [hist] in Heq.
  destruct (copy_fast_app (N.to_nat n) (N.to_nat d) (hist s)) as [x [Ex Lx]]; [lia|].
  rewrite Ex in *. rewrite firstn_app, Lx, Nat.sub_diag, firstn_O, app_nil_r, <- Lx, firstn_all in Heq.
  rewrite Heq, !rev_append_rev, app_nil_r, Lx. reflexivity.
Qed.
End WithInput.

End WithParams.

(* ================= the simulation ================= *)
Section Main.
Variable lgwin nd np he_quality : N.
Variable has_context_type : bool.
Variable pre mb : list N.
Hypothesis Hsize : N.of_nat (length pre) + N.of_nat (length mb) < 2 ^ 31.
Hypothesis Htr : (length transforms <= 256)%nat.
Hypothesis Hexp : forall ws id t w, dict_expand dict_word transforms ws id t = Some w -> (length w < 256)%nat.

Definition mb_at (i : N) : N := nth (N.to_nat i) mb 0.

Notation rec_cmd := (rec_cmd dict_word transforms mb_at lgwin nd np he_quality has_context_type).
Notation rec_cmds := (rec_cmds dict_word transforms mb_at lgwin nd np he_quality has_context_type).
Notation rec_copy := (rec_copy dict_word transforms mb_at).
Notation cmd_step := (cmd_step dict_word transforms lgwin nd np).
Notation cmd_run := (cmd_run dict_word transforms lgwin nd np).
Notation wf := (swf pre mb).

Definition ge1 (l : list (N * N)) : Prop := Forall (fun tl : N * N => 1 <= snd tl) l.

Record rel (rs : rec_state) (s : rstate) (ring : list Z) : Prop := {
  r_iter : ip_at (input_iter rs) (pos s) (remaining s);
  r_mbl : mb_len rs = remaining s;
  r_cache : remaining s <> 0 -> cache rs = ring;
  r_nbe : nbe rs = produced s;
  r_csub : 1 <= c_sub rs; r_crest : ge1 (c_rest rs);
  r_dsub : 1 <= d_sub rs; r_drest : ge1 (d_rest rs) }.

Lemma swf_bounds s : wf s -> produced s + remaining s < 2 ^ 31.
Proof. unfold swf. intros (H1 & H2 & H3 & H4). lia. Qed.

(* common tail of one loop iteration, once the dictionary / copy part is known *)
Lemma rec_cmd_finish c rs s ring ring' idx off ir_copy n cache' :
  wf s -> rel rs s ring -> insert_len_ c <= remaining s -> remaining s <> 0 ->
  distance_index_and_offset (dist_prefix_ c) (dist_extra_ c) nd np = (idx, off) ->
  let ins := insert_len_ c in
  let s1 := adv ins s in
  rec_copy idx off
    (if idx =? 0 then as_usize off else as_usize (ring_get ring (idx - 1) + off))
    (cmd_copy_len_code c) (N.min (produced s1) (2 ^ lgwin - 16))
    (snd (ip_split_at (input_iter rs) ins)) (remaining s1) ring = Done (ir_copy, remaining s1 - n, n, cache') ->
  n <= remaining s1 ->
  (forall tl, ir_run (ir_copy ++ tl) s1 = ir_run tl (adv n s1)) ->
  (remaining s1 - n <> 0 -> cache' = ring') ->
  exists ir rs', rec_cmd c rs = Done (ir, rs') /\ rel rs' (adv n s1) ring'
    /\ forall tl, ir_run (ir ++ tl) s = ir_run tl (adv n s1).
Proof.
  intros Hw [Hiter Hmbl Hcache Hnbe Hcs Hcr Hds Hdr] Hins Hrem Edio ins s1 Hcopy Hn Hrun_copy Hring.
  pose proof (swf_bounds s Hw) as Hb.
  unfold Recoder.rec_cmd. rewrite Hmbl. fold ins. rewrite (N.min_l ins (remaining s)) by exact Hins.
  destruct (ip_split_spec _ _ _ ins Hiter Hins) as [Hins_at Hint_at].
  destruct (ip_split_at (input_iter rs) ins) as [inserts interim]. cbn [fst snd] in *.
  rewrite Edio. assert (Hli : ip_len inserts = ins) by (destruct Hins_at; assumption). rewrite Hli.
  destruct (N.ltb_spec (remaining s) ins) as [Hbad|_]; [lia|].
  destruct (rec_literals_spec he_quality has_context_type inserts (l_sub rs) (l_rest rs) (remaining s) s ins Hins_at Hins eq_refl)
    as (lsub & lrest & ir_lit & Elit & Hrun_lit); [lia|].
  rewrite Elit. rewrite (Hcache Hrem), Hnbe.
  change (produced s + ins) with (produced s1). change (remaining s - ins) with (remaining s1).
  rewrite Hcopy.
  destruct (tick_spec (c_sub rs) (c_rest rs) IrBlockSwitchCommand Hcs Hcr ltac:(intros; reflexivity))
    as (csub & crest & ir_c & Ec & Hcs' & Hcr' & Hrun_c).
  rewrite Ec.
  assert (Hd : exists dsub drest ir_d,
    (if negb (cmd_copy_len_code c =? 0) && (128 <=? cmd_prefix_ c)
     then tick (d_sub rs) (d_rest rs) IrBlockSwitchDistance else Done (d_sub rs, d_rest rs, []))
    = Done (dsub, drest, ir_d) /\ 1 <= dsub /\ ge1 drest /\ forall tl s, ir_run (ir_d ++ tl) s = ir_run tl s).
  { destruct (negb (cmd_copy_len_code c =? 0) && (128 <=? cmd_prefix_ c)).
    - apply tick_spec; [assumption|assumption|intros; reflexivity].
    - eexists _, _, _. split; [reflexivity|]. split; [assumption|]. split; [assumption|]. intros; reflexivity. }
  destruct Hd as (dsub & drest & ir_d & Ed & Hds' & Hdr' & Hrun_d). rewrite Ed.
  destruct (ip_split_spec _ _ _ n Hint_at Hn) as [Hcp_at Hrem_at].
  destruct (ip_split_at interim n) as [copied remainder]. cbn [fst snd] in *.
  eexists _, _. split; [reflexivity|]. split.
  - constructor; cbn [input_iter Recoder.mb_len cache Recoder.nbe c_sub c_rest d_sub d_rest].
    + exact Hrem_at.
    + reflexivity.
    + exact Hring.
    + destruct Hcp_at as [Hl _]. rewrite Hl. reflexivity.
    + assumption.
    + assumption.
    + assumption.
    + assumption.
  - intros tl. rewrite <- app_assoc, Hrun_lit, <- app_assoc, Hrun_copy, <- app_assoc, Hrun_c, Hrun_d. reflexivity.
Qed.

Lemma ndbits_le cl : ndbits cl <= 11.
Proof.
  unfold ndbits. destruct (nth_in_or_default (N.to_nat cl) ndbits_tbl 0) as [H|H]; [|rewrite H; lia].
  assert (F : Forall (fun x => x <= 11) ndbits_tbl) by (unfold ndbits_tbl; repeat constructor; lia).
  rewrite Forall_forall in F. apply F. exact H.
Qed.

Lemma rec_cmd_sim c rs s ring s' ring' :
  wf s -> rel rs s ring -> cmd_step c (s, ring) = Ok (s', ring') ->
  exists ir rs', rec_cmd c rs = Done (ir, rs') /\ rel rs' s' ring' /\ wf s'
    /\ forall tl, ir_run (ir ++ tl) s = ir_run tl s'.
Proof.
  intros Hw Hrel Hstep. unfold IrReplay.cmd_step in Hstep.
  destruct (N.eqb_spec (remaining s) 0) as [|Hrem]; [discriminate|].
  destruct (N.ltb_spec (remaining s) (insert_len_ c)) as [|Hins]; [discriminate|].
  change (emit (firstn (N.to_nat (insert_len_ c)) (rest s)) (insert_len_ c) s) with (adv (insert_len_ c) s) in Hstep.
  set (ins := insert_len_ c) in *. set (s1 := adv ins s) in *.
  assert (Hw1 : wf s1) by (apply swf_adv; assumption).
  pose proof (swf_bounds s1 Hw1) as Hb1.
  destruct (distance_index_and_offset (dist_prefix_ c) (dist_extra_ c) nd np) as [idx off] eqn:Edio.
  set (dist := if idx =? 0 then off else (ring_get ring (idx - 1) + off)%Z) in *.
  assert (Hfd : (if idx =? 0 then as_usize off else as_usize (ring_get ring (idx - 1) + off)) = as_usize dist)
    by (unfold dist; destruct (idx =? 0); reflexivity).
  set (maxd := N.min (produced s1) (2 ^ lgwin - 16)) in *.
  set (cl := cmd_copy_len_code c) in *.
  assert (Hiter1 : ip_at (snd (ip_split_at (input_iter rs) ins)) (pos s1) (remaining s1)).
  { destruct Hrel as [Hiter _ _ _ _ _ _ _]. apply (ip_split_spec _ _ _ ins Hiter Hins). }
  destruct (N.eqb_spec (remaining s1) 0) as [Hz|Hnz].
  - (* the copy part is not executed *)
    destruct ((0 <=? dist)%Z && (dist <=? Z.of_N maxd)%Z) eqn:Eb; [|discriminate].
    inversion Hstep; subst s' ring'. clear Hstep.
    apply andb_true_iff in Eb. destruct Eb as [Eb1 Eb2]. apply Z.leb_le in Eb1, Eb2.
    destruct (rec_cmd_finish c rs s ring ring idx off [] 0
               (if (idx =? 1) && (off =? 0)%Z then ring else as_i32 (Z.to_N dist) :: firstn 3 ring) Hw Hrel Hins Hrem Edio)
      as (ir & rs' & E & Hrel' & Hrun).
    + fold ins s1 maxd cl. rewrite Hfd, as_usize_small by lia. unfold Recoder.rec_copy.
      destruct (N.ltb_spec maxd (Z.to_N dist)) as [Hbad|_]; [lia|].
      rewrite Hz. cbn [N.min N.eqb N.sub]. rewrite N.min_0_l. cbn [N.eqb N.sub]. reflexivity.
    + fold ins s1. lia.
    + fold ins s1. intros tl. rewrite adv_0. reflexivity.
    + fold ins s1. rewrite Hz. cbn. intros Hc. exfalso. apply Hc. reflexivity.
    + fold ins s1 in Hrel', Hrun. rewrite adv_0 in Hrel', Hrun. exists ir, rs'. split; [exact E|]. split; [exact Hrel'|]. split; [exact Hw1|]. exact Hrun.
  - destruct ((dist <=? 0)%Z || (2 ^ 62 <=? dist)%Z) eqn:Ed; [discriminate|].
    apply orb_false_iff in Ed. destruct Ed as [Ed1 Ed2]. apply Z.leb_gt in Ed1, Ed2.
    set (d := Z.to_N dist) in *.
    assert (Hfd2 : as_usize dist = d) by (apply as_usize_small; lia).
    destruct (N.leb_spec d maxd) as [Hle|Hgt].
    + (* backward copy *)
      destruct (N.ltb_spec (remaining s1) cl) as [|Hcl]; [discriminate|].
      destruct (negb (list_eqb (firstn (N.to_nat cl) (hist (emit_copy d cl s1))) (rev_append (firstn (N.to_nat cl) (rest s1)) []))) eqn:Em; [discriminate|].
      apply negb_false_iff in Em.
      assert (Hadv : emit_copy d cl s1 = adv cl s1) by (apply (emit_copy_adv pre mb); try assumption; lia).
      rewrite Hadv in Hstep. inversion Hstep; subst s' ring'. clear Hstep.
      destruct (rec_cmd_finish c rs s ring (if (idx =? 1) && (off =? 0)%Z then ring else ring_push ring dist) idx off
                 (if cl =? 0 then [] else [IrCopy (w32 d) (w32 cl)]) cl
                 (if (idx =? 1) && (off =? 0)%Z then ring else as_i32 d :: firstn 3 ring) Hw Hrel Hins Hrem Edio)
        as (ir & rs' & E & Hrel' & Hrun).
      * fold ins s1 maxd cl. rewrite Hfd, Hfd2. unfold Recoder.rec_copy.
        destruct (N.ltb_spec maxd d) as [Hbad|_]; [lia|].
        rewrite (N.min_r (remaining s1) cl) by exact Hcl. reflexivity.
      * fold ins s1. exact Hcl.
      * fold ins s1. intros tl. destruct (N.eqb_spec cl 0) as [E0|E0].
        -- rewrite E0, adv_0. reflexivity.
        -- cbn [app IrReplay.ir_run IrReplay.ir_step]. rewrite !w32_id by lia.
           destruct (N.eqb_spec d 0) as [Hd0|_]; [lia|].
           destruct (N.ltb_spec (produced s1) d) as [Hbad|_]; [lia|].
           destruct (N.ltb_spec (remaining s1) cl) as [Hbad|_]; [lia|].
           rewrite Hadv. reflexivity.
      * fold ins s1. intros _. unfold ring_push. rewrite as_i32_small by lia. unfold d. rewrite Z2N.id by lia. reflexivity.
      * fold ins s1 in Hrel', Hrun. exists ir, rs'. split; [exact E|]. split; [exact Hrel'|]. split; [apply swf_adv; assumption|]. exact Hrun.
    + (* static dictionary reference *)
      set (o := d - maxd - 1) in *. set (nb := ndbits cl) in *.
      destruct (dict_expand dict_word transforms cl (o mod 2 ^ nb) (o / 2 ^ nb)) as [w|] eqn:Edict; [|discriminate].
      set (n := N.of_nat (length w)) in *.
      destruct (N.ltb_spec (remaining s1) n) as [|Hn]; [discriminate|].
      destruct (negb (list_eqb w (firstn (N.to_nat n) (rest s1)))) eqn:Em; [discriminate|].
      apply negb_false_iff, list_eqb_eq in Em.
      assert (Hadv : emit w n s1 = adv n s1) by (unfold adv; rewrite <- Em; reflexivity).
      rewrite Hadv in Hstep. inversion Hstep; subst s' ring'. clear Hstep.
      pose proof Edict as Edict'. unfold dict_expand in Edict'.
      destruct ((4 <=? cl) && (cl <=? 24) && (o mod 2 ^ nb <? 2 ^ ndbits cl)) eqn:Eg; [|discriminate].
      apply andb_true_iff in Eg. destruct Eg as [Eg Eg3]. apply andb_true_iff in Eg. destruct Eg as [Eg1 Eg2].
      apply N.leb_le in Eg1, Eg2. apply N.ltb_lt in Eg3.
      assert (Htrlt : o / 2 ^ nb < 256).
      { unfold apply_transform in Edict'. destruct (nth_error transforms (N.to_nat (o / 2 ^ nb))) eqn:En; [|discriminate].
        assert (N.to_nat (o / 2 ^ nb) < length transforms)%nat by (apply nth_error_Some; rewrite En; discriminate). lia. }
      assert (Hnlt : n < 256) by (unfold n; specialize (Hexp _ _ _ _ Edict); lia).
      assert (Hidlt : o mod 2 ^ nb < 2 ^ 32).
      { eapply N.lt_le_trans; [exact Eg3|]. apply N.pow_le_mono_r; [lia|]. pose proof (ndbits_le cl). lia. }
      destruct (rec_cmd_finish c rs s ring ring idx off
                 [IrDict (w8 cl) (w8 (o / 2 ^ nb)) (w8 n) 0 (w32 (o mod 2 ^ nb))] n ring Hw Hrel Hins Hrem Edio)
        as (ir & rs' & E & Hrel' & Hrun).
      * fold ins s1 maxd cl. rewrite Hfd, Hfd2. unfold Recoder.rec_copy.
        destruct (N.ltb_spec maxd d) as [_|Hbad]; [|lia].
        destruct (N.ltb_spec cl 4) as [Hbad|_]; [lia|].
        destruct (N.leb_spec 25 cl) as [Hbad|_]; [lia|].
        fold o nb. rewrite N.shiftr_div_pow2, N.shiftl_1_l, land_ones_mod, Edict'. fold n.
        destruct (N.leb_spec n (remaining s1)) as [_|Hbad]; [|lia].
        assert (Hgot : map mb_at (ip_positions (fst (ip_split_at (snd (ip_split_at (input_iter rs) ins)) n))) = w).
        { destruct (ip_split_spec _ _ _ n Hiter1 Hn) as [Hcp _].
          unfold mb_at. rewrite (ip_positions_bytes mb _ (pos s1) n Hcp).
          - rewrite Em. destruct Hw1 as (Hr & _). rewrite Hr. reflexivity.
          - destruct Hw1 as (_ & Hp & _). lia. }
        rewrite Hgot. assert (Hrefl : list_eqb w w = true) by (apply list_eqb_eq; reflexivity). rewrite Hrefl. cbn [negb].
        reflexivity.
      * fold ins s1. exact Hn.
      * fold ins s1. intros tl. cbn [app IrReplay.ir_run IrReplay.ir_step].
        rewrite !w8_id, w32_id by (try assumption; change (2 ^ 8) with 256; lia).
        rewrite Edict. fold n. rewrite N.eqb_refl. cbn [negb].
        destruct (N.ltb_spec (remaining s1) n) as [Hbad|_]; [lia|]. rewrite Hadv. reflexivity.
      * intros _. reflexivity.
      * fold ins s1 in Hrel', Hrun. exists ir, rs'. split; [exact E|]. split; [exact Hrel'|]. split; [apply swf_adv; assumption|]. exact Hrun.
Qed.


Lemma rec_cmds_sim cmds : forall rs s ring s' ring',
  wf s -> rel rs s ring -> cmd_run cmds (s, ring) = Ok (s', ring') ->
  exists ir rs', rec_cmds cmds rs = Done (ir, rs') /\ rel rs' s' ring' /\ wf s'
    /\ forall tl, ir_run (ir ++ tl) s = ir_run tl s'.
Proof.
  induction cmds as [|c cmds IH]; intros rs s ring s' ring' Hw Hrel Hrun.
  - cbn in Hrun. inversion Hrun; subst. exists [], rs. cbn [Recoder.rec_cmds].
    split; [reflexivity|]. split; [exact Hrel|]. split; [exact Hw|]. intros; reflexivity.
  - cbn [IrReplay.cmd_run] in Hrun.
    destruct (cmd_step c (s, ring)) as [[s1 ring1]|] eqn:Estep; [|discriminate].
    destruct (rec_cmd_sim c rs s ring s1 ring1 Hw Hrel Estep) as (ir1 & rs1 & E1 & Hrel1 & Hw1 & Hrun1).
    destruct (IH rs1 s1 ring1 s' ring' Hw1 Hrel1 Hrun) as (ir2 & rs2 & E2 & Hrel2 & Hw2 & Hrun2).
    exists (ir1 ++ ir2), rs2. cbn [Recoder.rec_cmds]. rewrite E1, E2.
    split; [reflexivity|]. split; [exact Hrel2|]. split; [exact Hw2|].
    intros tl. rewrite <- app_assoc, Hrun1, Hrun2. reflexivity.
Qed.

Lemma ge1_tail (b : bsplit) : forallb (fun l => 1 <=? l) (bs_lengths b) = true -> ge1 (bs_tail b).
Proof.
  intros H. unfold ge1, bs_tail. rewrite forallb_forall in H.
  assert (F : Forall (fun tl : N * N => 1 <= snd tl) (combine (bs_types b) (bs_lengths b))).
  { apply Forall_forall. intros [t l] Hin. apply in_combine_r in Hin. apply N.leb_le. cbn [snd]. apply H. exact Hin. }
  destruct (combine (bs_types b) (bs_lengths b)); [constructor|]. inversion F; assumption.
Qed.

Lemma first_sub_strict (b : bsplit) : split_ok true b = true ->
  exists sub, bs_first_sub b = Done sub /\ 1 <= sub /\ ge1 (bs_tail b) /\ bs_types_ok b = true.
Proof.
  unfold split_ok, bs_first_sub. intros H. apply andb_true_iff in H. destruct H as [H H3].
  apply andb_true_iff in H. destruct H as [H1 H2]. cbn [negb orb] in H3.
  destruct (bs_num_types b =? 1).
  - eexists. split; [reflexivity|]. split; [cbv; discriminate|]. split; [apply ge1_tail; exact H3|exact H1].
  - cbn [orb] in H2. pose proof H3 as H3'. destruct (bs_lengths b) as [|l ls] eqn:El; [discriminate|].
    eexists. split; [reflexivity|]. cbn [forallb] in H3. apply andb_true_iff in H3. destruct H3 as [Hl _]. apply N.leb_le in Hl.
    split; [exact Hl|]. split; [apply ge1_tail; rewrite El; exact H3'|exact H1].
Qed.
Lemma first_sub_lax (b : bsplit) : split_ok false b = true ->
  exists sub, bs_first_sub b = Done sub /\ bs_types_ok b = true.
Proof.
  unfold split_ok, bs_first_sub. intros H. apply andb_true_iff in H. destruct H as [H _].
  apply andb_true_iff in H. destruct H as [H1 H2].
  destruct (bs_num_types b =? 1); [eexists; split; [reflexivity|exact H1]|].
  cbn [orb] in H2. destruct (bs_lengths b); [discriminate|]. eexists; split; [reflexivity|exact H1].
Qed.

Theorem recode_correct bl bc bd ring l0 l1 cmds :
  l0 + l1 = N.of_nat (length mb) -> length ring = 4%nat ->
  split_ok false bl = true -> split_ok true bc = true -> split_ok true bd = true ->
  cmds_ok dict_word transforms lgwin nd np pre mb ring cmds = true ->
  exists ir,
    recode dict_word transforms mb_at lgwin nd np he_quality has_context_type bl bc bd ring l0 l1 cmds
           (N.of_nat (length pre)) = Done (ir, N.of_nat (length pre) + N.of_nat (length mb))
    /\ ir_replays dict_word transforms pre mb ir.
Proof.
  intros Hl Hring Hbl Hbc Hbd Hok. unfold cmds_ok in Hok.
  destruct (cmd_run cmds (rinit pre mb, ring)) as [[s' ring']|] eqn:Erun; [|discriminate].
  apply N.eqb_eq in Hok.
  destruct (first_sub_lax bl Hbl) as (ls & Els & Tl).
  destruct (first_sub_strict bc Hbc) as (cs & Ecs & Hcs & Hcr & Tc).
  destruct (first_sub_strict bd Hbd) as (ds & Eds & Hds & Hdr & Td).
  unfold recode. rewrite Tl, Tc, Td, Els, Ecs, Eds. cbn [andb negb].
  rewrite firstn_all2 by lia.
  set (rs0 := {| input_iter := {| o0 := 0; n0 := l0; o1 := l0; n1 := l1 |}; cache := ring;
                 l_sub := ls; l_rest := bs_tail bl; c_sub := cs; c_rest := bs_tail bc;
                 d_sub := ds; d_rest := bs_tail bd; mb_len := l0 + l1; nbe := N.of_nat (length pre) |}).
  assert (Hrel0 : rel rs0 (rinit pre mb) ring).
  { constructor; cbn [rs0 input_iter Recoder.mb_len cache Recoder.nbe c_sub c_rest d_sub d_rest rinit pos remaining produced];
      try assumption; try reflexivity.
    unfold ip_at, ip_len. cbn [o0 n0 o1 n1]. repeat split; lia. }
  destruct (rec_cmds_sim cmds rs0 (rinit pre mb) ring s' ring' (swf_init pre mb) Hrel0 Erun)
    as (ir & rs' & E & Hrel' & Hw' & Hrun).
  fold mb_at. rewrite E. exists (IrBlockSwitchLiteral 0 0 :: ir). split.
  - f_equal. f_equal. destruct Hrel' as [_ _ _ Hn _ _ _ _]. rewrite Hn.
    destruct Hw' as (_ & Hp & Hpr & _). lia.
  - exists s'. cbn [IrReplay.ir_run IrReplay.ir_step].
    specialize (Hrun []). rewrite app_nil_r in Hrun. cbn [IrReplay.ir_run] in Hrun. split; [exact Hrun|]. split; [exact Hok|].
    destruct Hw' as (_ & Hp & _ & Hh).
    assert (Hpos : N.to_nat (pos s') = length mb) by lia.
    rewrite Hpos, firstn_all in Hh. split; [|exact Hh].
    unfold produced_here. rewrite Hpos, Hh, rev_append_rev, app_nil_r, firstn_app, rev_length, Nat.sub_diag, firstn_O, app_nil_r.
    rewrite <- (rev_length mb) at 1. rewrite firstn_all, rev_involutive. reflexivity.
Qed.
End Main.


(* what a successful replay step says about the command (the side conditions of the property) *)
Lemma ir_step_meaning c s s' : ir_step c s = Ok s' ->
  match c with
  | IrCopy d n => 1 <= d /\ d <= produced s /\ n <= remaining s /\ s' = emit_copy d n s
  | IrDict ws tr fs _ id => exists w, dict_expand dict_word transforms ws id tr = Some w
                                      /\ N.of_nat (length w) = fs /\ fs <= remaining s /\ s' = emit w fs s
  | IrLiteral off len _ => off = pos s /\ len <= remaining s /\ s' = adv len s
  | _ => s' = s
  end.
Proof.
  destruct c as [d n|ws tr fs e id|off len he|t|t st|t]; cbn [IrReplay.ir_step]; intros H;
    try (inversion H; reflexivity).
  - destruct (N.eqb_spec d 0); [discriminate|]. destruct (N.ltb_spec (produced s) d); [discriminate|].
    destruct (N.ltb_spec (remaining s) n); [discriminate|]. inversion H. repeat split; lia.
  - destruct (dict_expand dict_word transforms ws id tr) as [w|]; [|discriminate].
    destruct (N.eqb_spec (N.of_nat (length w)) fs); [|discriminate]. cbn [negb] in H.
    destruct (N.ltb_spec (remaining s) fs); [discriminate|]. inversion H. exists w. repeat split; assumption.
  - destruct (N.eqb_spec off (pos s)); [|discriminate]. cbn [negb] in H.
    destruct (N.ltb_spec (remaining s) len); [discriminate|]. inversion H. repeat split; assumption.
Qed.

(* ---- a whole stream: the recoder state carried from meta-block to meta-block stays equal to
        the number of bytes that precede the next meta-block (custom dictionary included) ---- *)
Record mblock := {
  m_nd : N; m_np : N; m_he : N; m_ct : bool;
  m_bl : bsplit; m_bc : bsplit; m_bd : bsplit;
  m_ring : list Z; m_l0 : N; m_l1 : N; m_cmds : list command; m_bytes : list N }.

Fixpoint stream_hyp (lgwin : N) (pre : list N) (ms : list mblock) : Prop :=
  match ms with
  | [] => True
  | m :: r =>
    m_l0 m + m_l1 m = N.of_nat (length (m_bytes m)) /\ length (m_ring m) = 4%nat
    /\ split_ok false (m_bl m) = true /\ split_ok true (m_bc m) = true /\ split_ok true (m_bd m) = true
    /\ cmds_ok dict_word transforms lgwin (m_nd m) (m_np m) pre (m_bytes m) (m_ring m) (m_cmds m) = true
    /\ stream_hyp lgwin (pre ++ m_bytes m) r
  end.
Fixpoint stream_concl (lgwin : N) (pre : list N) (nbe : N) (ms : list mblock) : Prop :=
  match ms with
  | [] => True
  | m :: r =>
    exists ir,
      recode dict_word transforms (mb_at (m_bytes m)) lgwin (m_nd m) (m_np m) (m_he m) (m_ct m)
             (m_bl m) (m_bc m) (m_bd m) (m_ring m) (m_l0 m) (m_l1 m) (m_cmds m) nbe
      = Done (ir, nbe + N.of_nat (length (m_bytes m)))
      /\ ir_replays dict_word transforms pre (m_bytes m) ir
      /\ stream_concl lgwin (pre ++ m_bytes m) (nbe + N.of_nat (length (m_bytes m))) r
  end.

Theorem recode_stream_correct lgwin :
  (length transforms <= 256)%nat ->
  (forall ws id t w, dict_expand dict_word transforms ws id t = Some w -> (length w < 256)%nat) ->
  forall ms pre,
  N.of_nat (length pre) + N.of_nat (length (concat (map m_bytes ms))) < 2 ^ 31 ->
  stream_hyp lgwin pre ms -> stream_concl lgwin pre (N.of_nat (length pre)) ms.
Proof.
  intros Htr Hexp. induction ms as [|m r IH]; intros pre Hsize Hh; [exact I|].
  cbn [stream_hyp] in Hh. destruct Hh as (Hl & Hring & Hbl & Hbc & Hbd & Hok & Hr).
  cbn [map concat] in Hsize. rewrite app_length in Hsize.
  destruct (recode_correct lgwin (m_nd m) (m_np m) (m_he m) (m_ct m) pre (m_bytes m) ltac:(lia) Htr Hexp
              (m_bl m) (m_bc m) (m_bd m) (m_ring m) (m_l0 m) (m_l1 m) (m_cmds m) Hl Hring Hbl Hbc Hbd Hok) as (ir & E & Hrep).
  cbn [stream_concl]. exists ir. split; [exact E|]. split; [exact Hrep|].
  replace (N.of_nat (length pre) + N.of_nat (length (m_bytes m))) with (N.of_nat (length (pre ++ m_bytes m)))
    by (rewrite app_length; lia).
  apply IH; [rewrite app_length; lia|exact Hr].
Qed.

(* ---- witnesses: a copy that reaches into a 30-byte custom dictionary ---- *)
Definition wit_pre : list N := map N.of_nat (seq 0 30).
Definition wit_cmds : list command := [command_new 0 0 0 30 30 45].     (* insert 0, copy 30 at distance 30 *)
Definition wit_ring : list Z := [4; 11; 15; 16]%Z.

Lemma witness_hyp : cmds_ok dict_word transforms 16 0 0 wit_pre wit_pre wit_ring wit_cmds = true.
Proof. vm_compute. reflexivity. Qed.
(* the unrepaired encoder started the recoder at 0 whatever the dictionary: the copy is taken for
   a static-dictionary reference of length 30 and `assert!(copy_len < 25)` fires *)
Lemma witness_unfixed :
  recode dict_word transforms (mb_at wit_pre) 16 0 0 0 true bs_nop bs_nop bs_nop wit_ring 30 0 wit_cmds
         (recoder_init_unfixed 30) = Panic PCopyLenGe25.
Proof. vm_compute. reflexivity. Qed.
Lemma witness_fixed :
  recode dict_word transforms (mb_at wit_pre) 16 0 0 0 true bs_nop bs_nop bs_nop wit_ring 30 0 wit_cmds
         (recoder_init 30) = Done ([IrBlockSwitchLiteral 0 0; IrCopy 30 30], 60).
Proof. vm_compute. reflexivity. Qed.
Lemma witness_refuted :
  exists pre cmds ring,
    cmds_ok dict_word transforms 16 0 0 pre pre ring cmds = true
    /\ recode dict_word transforms (mb_at pre) 16 0 0 0 true bs_nop bs_nop bs_nop ring 30 0 cmds
              (recoder_init_unfixed (N.of_nat (length pre))) = Panic PCopyLenGe25
    /\ recode dict_word transforms (mb_at pre) 16 0 0 0 true bs_nop bs_nop bs_nop ring 30 0 cmds
              (recoder_init (N.of_nat (length pre))) = Done ([IrBlockSwitchLiteral 0 0; IrCopy 30 30], 60).
Proof.
  exists wit_pre, wit_cmds, wit_ring. split; [exact witness_hyp|]. split; [exact witness_unfixed|exact witness_fixed].
Qed.
Lemma witness_replays : ir_replays dict_word transforms wit_pre wit_pre [IrBlockSwitchLiteral 0 0; IrCopy 30 30].
Proof. eexists. vm_compute. repeat split; reflexivity. Qed.
End WithDict.
