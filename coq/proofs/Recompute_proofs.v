(* C18: RecomputeDistancePrefixes keeps the distance every command denotes. *)
From Coq Require Import NArith ZArith List Lia Bool.
From V Require Import lib.Words lib.Finite gen.GenArith spec.RfcTables model.Arith proofs.Bitops
  proofs.Arith_proofs proofs.Dist_proofs.
Open Scope N_scope.

(* encode then restore is the identity on distance codes, for every valid parameter pair *)
Lemma encode_restore np nd dc : np <= 3 -> nd <= 120 -> dc < 2 ^ 31 ->
  restore_distance_code (fst (prefix_encode_copy_distance dc nd np)) (snd (prefix_encode_copy_distance dc nd np)) nd np = dc.
Proof.
  intros Hnp Hnd Hdc.
  destruct (N.lt_ge_cases dc (16 + nd)) as [Hs|Hl].
  - destruct (dist_short_correct np nd dc Hs Hnd) as [E [R _]]. rewrite E. cbn [fst snd]. exact R.
  - pose proof (dist_long_correct np nd dc Hnp Hnd Hl Hdc) as H. cbv zeta in H.
    destruct H as [_ [_ [_ [_ [_ [_ [_ R]]]]]]]. exact R.
Qed.

(* the (symbol, extra) pair of a re-encoded command denotes, under the NEW parameters and RFC 7932 section 4,
   the distance the command was built from; nothing else in the command changes *)
Theorem recompute_correct nd0 np0 nd1 np1 ins copylen code dc :
  np0 <= 3 -> nd0 <= 120 -> np1 <= 3 -> nd1 <= 120 -> dc < 2 ^ 31 ->
  let c := command_new nd0 np0 ins copylen code dc in
  let c' := recompute_distance_prefix nd0 np0 nd1 np1 c in
  insert_len_ c' = insert_len_ c /\ copy_len_ c' = copy_len_ c /\ cmd_prefix_ c' = cmd_prefix_ c /\
  ((np0 = np1 /\ nd0 = nd1) \/ (cmd_copy_len c <> 0 /\ 128 <= cmd_prefix_ c) ->
     restore_distance_code (dist_prefix_ c') (dist_extra_ c') nd1 np1 = dc /\
     (dist_prefix_ c', dist_extra_ c') = prefix_encode_copy_distance dc nd1 np1).
Proof.
  intros H0 H1 H2 H3 Hdc c c'. subst c'. unfold recompute_distance_prefix.
  assert (R0 : restore_distance_code (dist_prefix_ c) (dist_extra_ c) nd0 np0 = dc).
  { subst c. unfold command_new. cbn [dist_prefix_ dist_extra_]. apply encode_restore; assumption. }
  destruct ((np0 =? np1) && (nd0 =? nd1)) eqn:Eq.
  - apply andb_true_iff in Eq. destruct Eq as [E1 E2]. apply N.eqb_eq in E1. apply N.eqb_eq in E2. subst np1 nd1.
    split; [reflexivity|]. split; [reflexivity|]. split; [reflexivity|]. intros _. split; [exact R0|].
    subst c. unfold command_new. cbn [dist_prefix_ dist_extra_]. destruct (prefix_encode_copy_distance dc nd0 np0); reflexivity.
  - destruct (negb (cmd_copy_len c =? 0) && (128 <=? cmd_prefix_ c)) eqn:Ec.
    + cbn [insert_len_ copy_len_ cmd_prefix_ dist_prefix_ dist_extra_].
      split; [reflexivity|]. split; [reflexivity|]. split; [reflexivity|]. intros _. rewrite R0. split.
      * apply encode_restore; assumption.
      * destruct (prefix_encode_copy_distance dc nd1 np1); reflexivity.
    + split; [reflexivity|]. split; [reflexivity|]. split; [reflexivity|]. intros [[E1 E2]|[Hc Hp]].
      * subst np1 nd1. rewrite !N.eqb_refl in Eq. discriminate.
      * apply N.eqb_neq in Hc. apply N.leb_le in Hp. rewrite Hc, Hp in Ec. discriminate.
Qed.
