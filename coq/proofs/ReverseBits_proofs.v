(* BrotliReverseBits = bit-list reversal on its whole domain (C17_reverse_bits).
   The model's 64-bit wraps are first removed symbolically (they are identities on this domain
   and expensive to evaluate), then the closed form is compared with the specification on all
   16 x 65536 arguments by vm_compute. *)
From Coq Require Import NArith ZArith List Lia Bool.
From V Require Import lib.Words lib.Finite gen.GenHuffman spec.PrefixCode model.Huffman proofs.Bitops.
Import ListNotations.
Open Scope N_scope.

Lemma pinned_kLut : kLut = [0; 8; 4; 12; 2; 10; 6; 14; 1; 9; 5; 13; 3; 11; 7; 15].
Proof. vm_compute. reflexivity. Qed.

Definition rev_spec (num_bits bits : N) : N := bits_to_N (rev (N_to_bits (N.to_nat num_bits) bits)).

Lemma getA_nthN (l : list N) i : i < N.of_nat (length l) -> getA l i = Done (nthN l i).
Proof.
  intros H. unfold getA, nthN.
  destruct (nth_error l (N.to_nat i)) as [x|] eqn:E.
  - f_equal. symmetry. apply nth_error_nth. exact E.
  - apply nth_error_None in E. lia.
Qed.

Definition lut (x : N) : N := nthN kLut (N.land x 15).

Lemma lut_get x : getA kLut (N.land x 15) = Done (lut x).
Proof.
  apply getA_nthN. change (N.of_nat (length kLut)) with 16.
  change 15 with (2 ^ 4 - 1). rewrite land_ones_mod. apply N.mod_lt. discriminate.
Qed.

Lemma lut_lt x : lut x < 16.
Proof.
  unfold lut. change 15 with (2 ^ 4 - 1). rewrite land_ones_mod.
  assert (H : x mod 2 ^ 4 < 16) by (apply N.mod_lt; discriminate).
  revert H. generalize (x mod 2 ^ 4). intros y Hy.
  assert (E : forallb (fun i => nthN kLut i <? 16) (range_nat 0 16) = true) by (vm_compute; reflexivity).
  rewrite forallb_forall in E. apply N.ltb_lt. apply E. apply range_nat_In; lia.
Qed.

Definition shift_tab : list N := [0; 3; 2; 1; 0; 3; 2; 1; 0; 3; 2; 1; 0; 3; 2; 1; 0].
Lemma final_shift nb : nb <= 16 -> N.land (wsub64 0 nb) 3 = nthN shift_tab nb.
Proof.
  intros H.
  assert (E : forallb (fun i => N.land (wsub64 0 i) 3 =? nthN shift_tab i) (range_nat 0 17) = true) by (vm_compute; reflexivity).
  rewrite forallb_forall in E. apply N.eqb_eq. apply E. apply range_nat_In; lia.
Qed.

Definition reverse_simple (nb b : N) : N :=
  let r0 := lut b in
  let r :=
    if 4 <? nb then
      let r1 := r0 * 16 + lut (N.shiftr b 4) in
      if 8 <? nb then
        let r2 := r1 * 16 + lut (N.shiftr b 8) in
        if 12 <? nb then r2 * 16 + lut (N.shiftr b 12) else r2
      else r1
    else r0 in
  N.shiftr r (nthN shift_tab nb).

Lemma shl4 r l : r < 2 ^ 60 -> l < 16 -> N.lor (wshl64 r 4) l = r * 16 + l.
Proof.
  intros Hr Hl. unfold wshl64, w64. rewrite N.shiftl_mul_pow2.
  rewrite N.mod_small by (change (2 ^ 64) with (2 ^ 60 * 2 ^ 4); apply N.mul_lt_mono_pos_r; [reflexivity|exact Hr]).
  rewrite <- N.shiftl_mul_pow2. rewrite lor_shiftl_small by exact Hl. reflexivity.
Qed.

Lemma loop_step f i nb r b :
  reverse_loop (S f) i nb r b =
  if i <? nb then (l <- getA kLut (N.land (N.shiftr b 4) 15) ;; reverse_loop f (i + 4) nb (N.lor (wshl64 r 4) l) (N.shiftr b 4))
  else Done r.
Proof. reflexivity. Qed.

Lemma reverse_bits_simple nb b : nb <= 16 -> reverse_bits nb b = Done (reverse_simple nb b).
Proof.
  intros Hnb. unfold reverse_bits, reverse_simple.
  rewrite lut_get. cbn [bind].
  rewrite final_shift by exact Hnb.
  pose proof (lut_lt b) as H0. pose proof (lut_lt (N.shiftr b 4)) as H1.
  pose proof (lut_lt (N.shiftr b 8)) as H2. pose proof (lut_lt (N.shiftr b 12)) as H3.
  assert (Hw : forall r, r < 65536 -> w16 (N.shiftr r (nthN shift_tab nb)) = N.shiftr r (nthN shift_tab nb)).
  { intros r Hr. unfold w16. apply N.mod_small. rewrite N.shiftr_div_pow2.
    set (k := nthN shift_tab nb).
    assert (Hk : 2 ^ k <> 0) by (apply N.pow_nonzero; discriminate).
    pose proof (N.mul_div_le r (2 ^ k) Hk) as Hm.
    remember (r / 2 ^ k) as q. remember (2 ^ k) as p. change (2 ^ 16) with 65536.
    assert (q <= p * q) by (rewrite <- (N.mul_1_l q) at 1; apply N.mul_le_mono_r; lia). lia. }
  change 70%nat with (S 69). rewrite loop_step.
  destruct (4 <? nb) eqn:E4; [|cbn [bind]; rewrite Hw by lia; reflexivity].
  rewrite lut_get. cbn [bind]. rewrite shl4 by (try (change (2 ^ 60) with 1152921504606846976); lia).
  change (4 + 4) with 8. change 69%nat with (S 68). rewrite loop_step.
  destruct (8 <? nb) eqn:E8; [|cbn [bind]; rewrite Hw by lia; reflexivity].
  rewrite N.shiftr_shiftr. change (4 + 4) with 8.
  rewrite lut_get. cbn [bind]. rewrite shl4 by (try (change (2 ^ 60) with 1152921504606846976); lia).
  change (8 + 4) with 12. change 68%nat with (S 67). rewrite loop_step.
  destruct (12 <? nb) eqn:E12; [|cbn [bind]; rewrite Hw by lia; reflexivity].
  rewrite N.shiftr_shiftr. change (8 + 4) with 12.
  rewrite lut_get. cbn [bind]. rewrite shl4 by (try (change (2 ^ 60) with 1152921504606846976); lia).
  change (12 + 4) with 16. change 67%nat with (S 66). rewrite loop_step.
  destruct (16 <? nb) eqn:E16; [apply N.ltb_lt in E16; lia|].
  cbn [bind]. rewrite Hw by lia. reflexivity.
Qed.

Definition reverse_ok (nb : N) : bool := all_below (fun b => reverse_simple nb b =? rev_spec nb b) 65536.

Lemma reverse_all : forallb reverse_ok (range_nat 1 16) = true.
Proof. vm_compute. reflexivity. Qed.

Lemma reverse_ok_spec nb : reverse_ok nb = true -> forall b, b < 65536 -> reverse_simple nb b = rev_spec nb b.
Proof.
  unfold reverse_ok. intros H b Hb. apply N.eqb_eq.
  exact (all_below_spec (fun b => reverse_simple nb b =? rev_spec nb b) 65536 H b Hb).
Qed.

Lemma reverse_bits_correct num_bits bits :
  1 <= num_bits -> num_bits <= 16 -> bits < 65536 ->
  reverse_bits num_bits bits = Done (rev_spec num_bits bits).
Proof.
  intros H1 H2 H3. rewrite reverse_bits_simple by exact H2. f_equal.
  pose proof reverse_all as E. rewrite forallb_forall in E.
  assert (Hin : In num_bits (range_nat 1 16)) by (apply range_nat_In; [exact H1|change (1 + N.of_nat 16) with 17; lia]).
  exact (reverse_ok_spec num_bits (E num_bits Hin) bits H3).
Qed.
