(* C01_ringbuffer: after any sequence of RingBufferWrite calls (each at most one block long, which
   is what copy_input_to_ring_buffer's callers guarantee) the last min(total, size) input bytes
   sit at their masked positions, the masked position follows the total, the tail mirrors the
   head of the later laps and the two bytes in front of the buffer mirror its last two. *)
From Coq Require Import NArith List Lia Bool.
From V Require Import lib.Words lib.PMap gen.GenFormat model.RingBuf proofs.Bitops.
Import ListNotations.
Open Scope N_scope.

(* ------------------------------------------------------------------ lists and maps *)
Lemma lenN_app A (a b : list A) : lenN (a ++ b) = lenN a + lenN b.
Proof. unfold lenN. rewrite app_length. lia. Qed.
Lemma lenN_cons A (x : A) l : lenN (x :: l) = 1 + lenN l.
Proof. unfold lenN. cbn [length]. lia. Qed.

Lemma nthN_app_l (a b : list N) i : i < lenN a -> nthN (a ++ b) i = nthN a i.
Proof. unfold nthN, lenN. intros H. apply app_nth1. lia. Qed.
Lemma nthN_app_r (a b : list N) i : lenN a <= i -> nthN (a ++ b) i = nthN b (i - lenN a).
Proof.
  unfold nthN, lenN. intros H. rewrite app_nth2 by lia. f_equal. lia.
Qed.
Lemma nthN_cons_S x (l : list N) i : 0 < i -> nthN (x :: l) i = nthN l (i - 1).
Proof.
  unfold nthN. intros H. replace (N.to_nat i) with (S (N.to_nat (i - 1))) by lia. reflexivity.
Qed.

Lemma write_bytes_get bs : forall d a j,
  ngetd (write_bytes d a bs) j = if (a <=? j) && (j <? a + lenN bs) then nthN bs (j - a) else ngetd d j.
Proof.
  induction bs as [|b t IH]; intros d a j; cbn [write_bytes].
  - replace (lenN (@nil N)) with 0 by reflexivity.
    destruct (N.leb_spec a j); destruct (N.ltb_spec j (a + 0)); cbn [andb]; try reflexivity; lia.
  - rewrite IH. rewrite lenN_cons.
    destruct (N.leb_spec (a + 1) j) as [H1|H1]; destruct (N.ltb_spec j (a + 1 + lenN t)) as [H2|H2]; cbn [andb].
    + destruct (N.leb_spec a j); [|lia]. destruct (N.ltb_spec j (a + (1 + lenN t))); [|lia]. cbn [andb].
      rewrite nthN_cons_S by lia. f_equal. lia.
    + destruct (N.leb_spec a j); [|lia]. destruct (N.ltb_spec j (a + (1 + lenN t))); [lia|]. cbn [andb].
      apply ngetd_set_other. lia.
    + destruct (N.eq_dec j a) as [->|Hne].
      * rewrite ngetd_set_same. destruct (N.leb_spec a a); [|lia]. destruct (N.ltb_spec a (a + (1 + lenN t))); [|lia].
        cbn [andb]. replace (a - a) with 0 by lia. reflexivity.
      * rewrite ngetd_set_other by lia. destruct (N.leb_spec a j); [lia|]. reflexivity.
    + lia.
Qed.

Lemma nthN_takeN (l : list N) n i : i < n -> nthN (takeN n l) i = nthN l i.
Proof.
  unfold nthN, takeN. intros H. assert (Hk : (N.to_nat i < N.to_nat n)%nat) by lia.
  revert l. revert Hk. generalize (N.to_nat n) (N.to_nat i). intros m k Hk. revert k Hk. induction m as [|m IH]; intros k Hk l; [lia|].
  destruct l as [|x l]; [destruct k; reflexivity|]. destruct k as [|k]; [reflexivity|]. cbn. apply IH. lia.
Qed.
Lemma nthN_dropN (l : list N) n i : nthN (dropN n l) i = nthN l (n + i).
Proof.
  unfold nthN, dropN. rewrite N2Nat.inj_add. generalize (N.to_nat n) (N.to_nat i). intros m k.
  revert l. induction m as [|m IH]; intros l; [reflexivity|]. destruct l as [|x l]; [destruct k; reflexivity|]. cbn. apply IH.
Qed.
Lemma lenN_takeN (l : list N) n : n <= lenN l -> lenN (takeN n l) = n.
Proof. unfold lenN, takeN. intros H. rewrite firstn_length. lia. Qed.
Lemma lenN_dropN (l : list N) n : lenN (dropN n l) = lenN l - n.
Proof. unfold lenN, dropN. rewrite skipn_length. lia. Qed.

(* ------------------------------------------------------------------ arithmetic modulo the buffer size *)
Lemma mod_add_small S a m i : S <> 0 -> a mod S = m -> m + i < S -> (a + i) mod S = m + i.
Proof.
  intros HS Hm Hi. symmetry. apply (N.mod_unique _ _ (a / S)); [exact Hi|].
  rewrite (N.div_mod a S HS) at 1. rewrite Hm. lia.
Qed.
Lemma mod_add_wrap S a m i : S <> 0 -> a mod S = m -> S <= m + i -> m + i < 2 * S -> (a + i) mod S = m + i - S.
Proof.
  intros HS Hm H1 H2. symmetry. apply (N.mod_unique _ _ (a / S + 1)); [lia|].
  rewrite (N.div_mod a S HS) at 1. rewrite Hm. rewrite N.mul_add_distr_l, N.mul_1_r. lia.
Qed.
Lemma mod_neq S a b : S <> 0 -> a < b -> b - a < S -> a mod S <> b mod S.
Proof.
  intros HS Hab Hd E.
  pose proof (N.div_mod a S HS) as Ea. pose proof (N.div_mod b S HS) as Eb.
  assert (Hq : b - a = S * (b / S) - S * (a / S)) by lia.
  assert (Hle : a / S <= b / S) by (apply N.div_le_mono; lia).
  assert (Hs : b - a = S * (b / S - a / S)) by (rewrite N.mul_sub_distr_l; exact Hq).
  destruct (N.eq_dec (b / S - a / S) 0) as [Z|NZ]; [rewrite Z in Hs; lia|].
  assert (S * 1 <= S * (b / S - a / S)) by (apply N.mul_le_mono_l; lia). lia.
Qed.
Lemma mod_divides S c x : S <> 0 -> c <> 0 -> (x mod (c * S)) mod S = x mod S.
Proof.
  intros HS Hc. rewrite (N.mul_comm c S). rewrite N.mod_mul_r by assumption.
  rewrite N.mul_comm. rewrite N.mod_add by assumption. apply N.mod_mod; assumption.
Qed.

(* ------------------------------------------------------------------ the position fold *)
Lemma fold_value p : w32 (N.lor (N.land p (2 ^ 31 - 1)) (2 ^ 31)) = 2 ^ 31 + p mod 2 ^ 31.
Proof.
  rewrite land_ones_mod.
  replace (2 ^ 31) with (N.shiftl 1 31) at 2 by reflexivity.
  rewrite lor_small_shiftl by (apply N.mod_lt; discriminate).
  assert (B : p mod 2 ^ 31 < 2 ^ 31) by (apply N.mod_lt; discriminate).
  unfold w32. rewrite N.mod_small; [lia|]. change (2 ^ 32) with 4294967296. change (2 ^ 31) with 2147483648 in *. lia.
Qed.

Lemma fold_pos_spec S c pos n : S <> 0 -> c <> 0 -> 2 ^ 31 = c * S -> pos < 2 ^ 32 -> n <= 2 ^ 31 ->
  fold_pos pos n mod S = (pos + n) mod S /\ fold_pos pos n < 2 ^ 32 /\ (fold_pos pos n = 0 -> pos + n = 0) /\
  (pos + n <= 2 ^ 31 -> fold_pos pos n = pos + n).
Proof.
  intros HS Hc E Hp Hn. unfold fold_pos. change RB_FOLD_BITS with 31.
  assert (W : w64 (pos + n) = pos + n).
  { unfold w64. apply N.mod_small. change (2 ^ 32) with 4294967296 in Hp. change (2 ^ 31) with 2147483648 in Hn.
    change (2 ^ 64) with 18446744073709551616. lia. }
  rewrite W. destruct (N.ltb_spec (2 ^ 31) (pos + n)) as [Hg|Hg].
  - rewrite fold_value.
    assert (B : (pos + n) mod 2 ^ 31 < 2 ^ 31) by (apply N.mod_lt; discriminate).
    repeat split; try (remember ((pos + n) mod 2 ^ 31) as x eqn:Ex; change (2 ^ 32) with 4294967296; change (2 ^ 31) with 2147483648 in *; lia).
    rewrite E at 1. rewrite N.add_comm. rewrite N.mod_add by exact HS. rewrite E. apply mod_divides; assumption.
  - assert (W2 : w32 (pos + n) = pos + n).
    { unfold w32. apply N.mod_small. change (2 ^ 32) with 4294967296. change (2 ^ 31) with 2147483648 in *. lia. }
    rewrite W2. repeat split; try tauto. change (2 ^ 32) with 4294967296. change (2 ^ 31) with 2147483648 in *. lia.
Qed.

(* ------------------------------------------------------------------ stores *)
Lemma store_ok r a bs : a + lenN bs <= r_len r ->
  store r a bs = RbDone (with_data r (write_bytes (r_data r) a bs)).
Proof. intros H. unfold store. destruct (N.ltb_spec (r_len r) (a + lenN bs)); [lia|reflexivity]. Qed.

Section RB.
  Variables k lb : N.
  Hypothesis Hlb : 1 <= lb.
  Hypothesis Hk1 : lb + 1 <= k.
  Hypothesis Hk2 : k <= 31.
  Let S := 2 ^ k.
  Let tl := 2 ^ lb.

  Lemma S_facts : S <> 0 /\ 2 * tl <= S /\ 2 <= tl /\ 4 <= S /\ S <= 2 ^ 31 /\ (exists c, c <> 0 /\ 2 ^ 31 = c * S).
  Proof.
    unfold S, tl.
    assert (A : 2 ^ (lb + 1) <= 2 ^ k) by (apply N.pow_le_mono_r; [discriminate|exact Hk1]).
    assert (B : 2 ^ 1 <= 2 ^ lb) by (apply N.pow_le_mono_r; [discriminate|exact Hlb]).
    assert (C : 2 ^ k <= 2 ^ 31) by (apply N.pow_le_mono_r; [discriminate|exact Hk2]).
    rewrite N.pow_add_r in A. change (2 ^ 1) with 2 in *.
    repeat split; try lia.
    exists (2 ^ (31 - k)). split; [apply N.pow_nonzero; discriminate|].
    rewrite <- N.pow_add_r. f_equal. lia.
  Qed.

  Lemma setup_fields : r_size (rb_setup k lb) = S /\ r_mask (rb_setup k lb) = S - 1 /\ r_tail (rb_setup k lb) = tl
                       /\ r_total (rb_setup k lb) = S + tl.
  Proof.
    destruct S_facts as (HS & H2 & Ht & H4 & H31 & _).
    assert (E1 : wshl32 1 k = S).
    { unfold wshl32, w32. rewrite N.shiftl_1_l. apply N.mod_small. fold S. change (2 ^ 31) with 2147483648 in H31.
      change (2 ^ 32) with 4294967296. lia. }
    assert (E2 : wshl32 1 lb = tl).
    { unfold wshl32, w32. rewrite N.shiftl_1_l. apply N.mod_small. fold tl. change (2 ^ 31) with 2147483648 in H31.
      change (2 ^ 32) with 4294967296. lia. }
    unfold rb_setup. cbn [r_size r_mask r_tail r_total]. rewrite E1, E2.
    change (2 ^ 31) with 2147483648 in H31.
    repeat split.
    - unfold wsub32, w32. change (2 ^ 32) with 4294967296. change (1 mod 4294967296) with 1.
      replace (S + 4294967296 - 1) with ((S - 1) + 1 * 4294967296) by lia. rewrite N.mod_add by discriminate.
      apply N.mod_small. lia.
    - unfold wadd32, w32. apply N.mod_small. change (2 ^ 32) with 4294967296. lia.
  Qed.

  (* the state after the buffer has its full size *)
  Record full (r : rb) (inp : list N) : Prop := {
    f_size : r_size r = S; f_mask : r_mask r = S - 1; f_tail : r_tail r = tl; f_total : r_total r = S + tl;
    f_cur : r_cur r = S + tl; f_len : r_len r = 2 + S + tl + 7;
    f_posmod : r_pos r mod S = lenN inp mod S; f_pos32 : r_pos r < 2 ^ 32; f_pos0 : r_pos r = 0 -> lenN inp = 0;
    f_data : forall p, lenN inp - N.min (lenN inp) S <= p -> p < lenN inp -> ngetd (r_data r) (2 + p mod S) = nthN inp p;
    f_tailm : forall p, S <= p -> lenN inp - N.min (lenN inp) S <= p -> p < lenN inp -> p mod S < tl ->
                        ngetd (r_data r) (2 + S + p mod S) = nthN inp p }.

  Record inv (r : rb) (inp : list N) : Prop := {
    i_size : r_size r = S; i_mask : r_mask r = S - 1; i_tail : r_tail r = tl; i_total : r_total r = S + tl;
    i_pos0 : r_pos r = 0 <-> lenN inp = 0;
    i_phase : (r_len r = 0 /\ r_cur r = 0 /\ lenN inp = 0)
              \/ (r_len r = 2 + r_cur r + 7 /\ r_cur r = lenN inp /\ lenN inp < tl /\ r_pos r = lenN inp
                  /\ forall p, p < lenN inp -> ngetd (r_data r) (2 + p) = nthN inp p)
              \/ (0 < lenN inp /\ full r inp /\ ngetd (r_data r) 0 = ngetd (r_data r) S /\ ngetd (r_data r) 1 = ngetd (r_data r) (S + 1)) }.

  Lemma inv_setup : inv (rb_setup k lb) [].
  Proof.
    destruct setup_fields as (E1 & E2 & E3 & E4).
    constructor; try assumption.
    - cbn. tauto.
    - left. cbn. auto.
  Qed.

  (* the main part of RingBufferWrite on a full-size buffer *)
  Definition main_write (bs : list N) (r1 : rb) : rb_out :=
    let n := lenN bs in
    let masked := N.land (r_pos r1) (r_mask r1) in
    let o2 := if masked <? r_tail r1
              then store r1 (2 + r_size r1 + masked) (takeN (N.min n (r_tail r1 - masked)) bs)
              else RbDone r1 in
    bind o2 (fun r2 =>
      let o3 := if masked + n <=? r_size r2 then store r2 (2 + masked) bs
                else bind (store r2 (2 + masked) (takeN (N.min n (r_total r2 - masked)) bs)) (fun r3 =>
                     store r3 2 (dropN (r_size r3 - masked) bs)) in
      bind o3 (fun r3 =>
        if r_len r3 <? 2 + r_size r3 then RbPanic 3 else
        let d := r_data r3 in
        let d' := nset (nset d 0 (ngetd d (2 + r_size r3 - 2))) 1 (ngetd d (2 + r_size r3 - 1)) in
        RbDone (with_pos (with_data r3 d') (fold_pos (r_pos r3) n)))).

  Lemma main_write_ok r inp bs : full r inp -> lenN bs <= tl -> 0 < lenN inp + lenN bs ->
    exists r', main_write bs r = RbDone r' /\ full r' (inp ++ bs)
               /\ ngetd (r_data r') 0 = ngetd (r_data r') S /\ ngetd (r_data r') 1 = ngetd (r_data r') (S + 1)
               /\ (r_pos r' = 0 -> False).
  Proof.
    intros F Hn Hpos.
    destruct S_facts as (HS & H2 & Ht & H4 & H31 & (c & Hc & Ec)).
    destruct F as [Fs Fm Ft Fto Fc Fl Fpm Fp32 Fp0 Fd Ftm].
    set (T := lenN inp) in *. set (n := lenN bs) in *.
    set (m := T mod S).
    assert (Hm : m < S) by (apply N.mod_lt; exact HS).
    assert (Emask : N.land (r_pos r) (r_mask r) = m).
    { rewrite Fm. unfold S. rewrite land_ones_mod. fold S. exact Fpm. }
    unfold main_write. cbv zeta. rewrite Emask. fold n.
    rewrite Ft, Fs.
    (* o2 *)
    set (lim := N.min n (tl - m)).
    set (d2 := if m <? tl then write_bytes (r_data r) (2 + S + m) (takeN lim bs) else r_data r).
    assert (E2 : (if m <? tl then store r (2 + S + m) (takeN lim bs) else RbDone r) = RbDone (with_data r d2)).
    { unfold d2. destruct (N.ltb_spec m tl) as [Hlt|Hge].
      - apply store_ok. rewrite lenN_takeN by (unfold lim; fold n; lia). rewrite Fl. unfold lim. lia.
      - destruct r; reflexivity. }
    rewrite E2. cbn [bind]. cbn [with_data r_size r_total r_len r_data r_pos]. rewrite Fs, Fto.
    (* o3 *)
    set (mid := N.min n (S + tl - m)).
    assert (Emid : mid = n) by (unfold mid; lia).
    set (d3 := if m + n <=? S then write_bytes d2 (2 + m) bs
               else write_bytes (write_bytes d2 (2 + m) (takeN mid bs)) 2 (dropN (S - m) bs)).
    assert (E3 : (if m + n <=? S then store (with_data r d2) (2 + m) bs
                  else bind (store (with_data r d2) (2 + m) (takeN mid bs)) (fun r3 => store r3 2 (dropN (r_size r3 - m) bs)))
                 = RbDone (with_data r d3)).
    { unfold d3. destruct (N.leb_spec (m + n) S) as [Hle|Hgt].
      - rewrite store_ok by (cbn [with_data r_len]; rewrite Fl; fold n; lia). reflexivity.
      - rewrite store_ok by (cbn [with_data r_len]; rewrite Fl; rewrite lenN_takeN by (fold n; lia); lia).
        cbn [bind with_data r_size r_data]. rewrite Fs.
        rewrite store_ok by (cbn [with_data r_len]; rewrite Fl, lenN_dropN; fold n; lia). reflexivity. }
    rewrite E3. cbn [bind with_data r_len r_size r_data r_pos]. rewrite Fl, Fs.
    destruct (N.ltb_spec (2 + S + tl + 7) (2 + S)) as [Hbad|_]; [lia|].
    replace (2 + S - 2) with S by lia. replace (2 + S - 1) with (S + 1) by lia.
    set (d4 := nset (nset d3 0 (ngetd d3 S)) 1 (ngetd d3 (S + 1))).
    eexists. split; [reflexivity|].
    (* reading d4 / d3 *)
    assert (G4 : forall x, ngetd d4 (2 + x) = ngetd d3 (2 + x)).
    { intros x. unfold d4. rewrite !ngetd_set_other by lia. reflexivity. }
    assert (Tn : lenN (inp ++ bs) = T + n) by (rewrite lenN_app; reflexivity).
    destruct (fold_pos_spec S c (r_pos r) n HS Hc Ec Fp32 ltac:(lia)) as (P1 & P2 & P3 & _).
    (* value of d3 at a main-area slot and at a tail slot *)
    assert (G3main : forall s, s < S ->
              ngetd d3 (2 + s) =
              if m + n <=? S then (if (m <=? s) && (s <? m + n) then nthN bs (s - m) else ngetd (r_data r) (2 + s))
              else (if s <? m + n - S then nthN bs (s + S - m) else if m <=? s then nthN bs (s - m) else ngetd (r_data r) (2 + s))).
    { intros s Hs. unfold d3.
      assert (D2 : ngetd d2 (2 + s) = ngetd (r_data r) (2 + s)).
      { unfold d2. destruct (N.ltb_spec m tl); [|reflexivity]. rewrite write_bytes_get.
        destruct (N.leb_spec (2 + S + m) (2 + s)); [lia|]. reflexivity. }
      destruct (N.leb_spec (m + n) S) as [Hle|Hgt].
      - rewrite write_bytes_get. fold n.
        destruct (N.leb_spec (2 + m) (2 + s)); destruct (N.ltb_spec (2 + s) (2 + m + n));
        destruct (N.leb_spec m s); destruct (N.ltb_spec s (m + n)); cbn [andb]; try lia; try exact D2.
        f_equal. lia.
      - rewrite write_bytes_get. rewrite lenN_dropN. fold n.
        destruct (N.leb_spec 2 (2 + s)); [|lia].
        destruct (N.ltb_spec (2 + s) (2 + (n - (S - m)))); destruct (N.ltb_spec s (m + n - S)); cbn [andb]; try lia.
        + rewrite nthN_dropN. f_equal. lia.
        + rewrite write_bytes_get. rewrite lenN_takeN by (fold n; lia). rewrite Emid.
          destruct (N.leb_spec (2 + m) (2 + s)); destruct (N.ltb_spec (2 + s) (2 + m + n));
          destruct (N.leb_spec m s); cbn [andb]; try lia; try exact D2.
          rewrite nthN_takeN by lia. f_equal. lia. }
    assert (G3tail : forall s, s < tl ->
              ngetd d3 (2 + S + s) =
              if m + n <=? S then (if (m <=? s) && (s <? m + n) then nthN bs (s - m) else ngetd (r_data r) (2 + S + s))
              else (if s <? m + n - S then nthN bs (s + S - m) else ngetd (r_data r) (2 + S + s))).
    { intros s Hs. unfold d3.
      destruct (N.leb_spec (m + n) S) as [Hle|Hgt].
      - rewrite write_bytes_get. fold n.
        destruct (N.leb_spec (2 + m) (2 + S + s)); [|lia].
        destruct (N.ltb_spec (2 + S + s) (2 + m + n)); [lia|]. cbn [andb].
        unfold d2. destruct (N.ltb_spec m tl) as [Hlt|Hge].
        + rewrite write_bytes_get. rewrite lenN_takeN by (unfold lim; fold n; lia).
          destruct (N.leb_spec (2 + S + m) (2 + S + s)); destruct (N.ltb_spec (2 + S + s) (2 + S + m + lim));
          destruct (N.leb_spec m s); destruct (N.ltb_spec s (m + n)); cbn [andb]; unfold lim in *; try lia; try reflexivity.
          rewrite nthN_takeN by lia. f_equal. lia.
        + destruct (N.leb_spec m s); [|reflexivity]. lia.
      - (* wrapping write: masked >= tail, so the tail was not touched by RingBufferWriteTail *)
        assert (Hmt : tl <= m) by lia.
        rewrite write_bytes_get. rewrite lenN_dropN. fold n.
        destruct (N.leb_spec 2 (2 + S + s)); [|lia].
        destruct (N.ltb_spec (2 + S + s) (2 + (n - (S - m)))); [lia|]. cbn [andb].
        rewrite write_bytes_get. rewrite lenN_takeN by (fold n; lia). rewrite Emid.
        destruct (N.leb_spec (2 + m) (2 + S + s)); [|lia].
        destruct (N.ltb_spec (2 + S + s) (2 + m + n)); destruct (N.ltb_spec s (m + n - S)); cbn [andb]; try lia.
        + rewrite nthN_takeN by lia. f_equal. lia.
        + unfold d2. destruct (N.ltb_spec m tl); [lia|]. reflexivity. }
    (* residues of the new positions *)
    assert (Rnew : forall p, T <= p -> p < T + n ->
              (m + (p - T) < S /\ p mod S = m + (p - T)) \/ (S <= m + (p - T) /\ p mod S = m + (p - T) - S)).
    { intros p H1 H3. set (i := p - T). assert (Ep : p = T + i) by (unfold i; lia).
      destruct (N.lt_ge_cases (m + i) S) as [Hl|Hg].
      - left. split; [exact Hl|]. rewrite Ep. apply mod_add_small; [exact HS|reflexivity|exact Hl].
      - right. split; [exact Hg|]. rewrite Ep. apply mod_add_wrap; [exact HS|reflexivity|exact Hg|unfold i; lia]. }
    (* an old position of the window never shares its slot with a new one *)
    assert (Rold : forall p i, T + n - N.min (T + n) S <= p -> p < T -> i < n -> p mod S <> (T + i) mod S).
    { intros p i H1 H3 Hi. apply mod_neq; [exact HS|lia|lia]. }
    split; [|split; [|split]].
    - (* full *)
      constructor; cbn [with_pos with_data r_size r_mask r_tail r_total r_cur r_len r_pos r_data]; try assumption.
      + rewrite Tn. rewrite P1. rewrite <- (N.add_mod_idemp_l (r_pos r) n S HS). rewrite Fpm.
        rewrite N.add_mod_idemp_l by exact HS. reflexivity.
      + intros Z0. apply P3 in Z0. rewrite Tn. assert (r_pos r = 0) by lia. specialize (Fp0 H). fold T in Fp0. lia.
      + (* data *)
        intros p H1 H3. rewrite Tn in H1, H3. rewrite G4.
        assert (Hps : p mod S < S) by (apply N.mod_lt; exact HS).
        rewrite (G3main (p mod S) Hps).
        destruct (N.lt_ge_cases p T) as [Hold|Hnew].
        * (* old byte: untouched *)
          rewrite nthN_app_l by exact Hold.
          assert (Keep : ngetd (r_data r) (2 + p mod S) = nthN inp p) by (apply Fd; fold T; lia).
          remember (p mod S) as s eqn:Es.
          assert (NoSmall : forall i, i < n -> m + i < S -> s = m + i -> False).
          { intros i Hi Hl E. apply (Rold p i); try lia. rewrite <- Es.
            rewrite (mod_add_small S T m i HS eq_refl Hl). exact E. }
          assert (NoWrap : forall i, i < n -> S <= m + i -> s = m + i - S -> False).
          { intros i Hi Hl E. apply (Rold p i); try lia. rewrite <- Es.
            rewrite (mod_add_wrap S T m i HS eq_refl Hl ltac:(lia)). exact E. }
          destruct (N.leb_spec (m + n) S) as [Hle|Hgt].
          -- destruct (N.leb_spec m s); destruct (N.ltb_spec s (m + n)); cbn [andb]; try exact Keep.
             exfalso. apply (NoSmall (s - m)); lia.
          -- destruct (N.ltb_spec s (m + n - S)).
             ++ exfalso. apply (NoWrap (s + S - m)); lia.
             ++ destruct (N.leb_spec m s); [|exact Keep].
                exfalso. apply (NoSmall (s - m)); lia.
        * (* new byte *)
          rewrite nthN_app_r by exact Hnew. fold T.
          destruct (Rnew p Hnew H3) as [[Ha Hb]|[Ha Hb]]; rewrite Hb.
          -- destruct (N.leb_spec (m + n) S) as [Hle|Hgt].
             ++ destruct (N.leb_spec m (m + (p - T))); [|lia]. destruct (N.ltb_spec (m + (p - T)) (m + n)); [|lia].
                cbn [andb]. f_equal. lia.
             ++ destruct (N.ltb_spec (m + (p - T)) (m + n - S)); [lia|].
                destruct (N.leb_spec m (m + (p - T))); [|lia]. f_equal. lia.
          -- destruct (N.leb_spec (m + n) S) as [Hle|Hgt]; [lia|].
             destruct (N.ltb_spec (m + (p - T) - S) (m + n - S)); [|lia]. f_equal. lia.
      + (* tail mirror *)
        intros p HpS H1 H3 Hpt. rewrite Tn in H1, H3. rewrite <- N.add_assoc. rewrite G4. rewrite N.add_assoc.
        rewrite (G3tail (p mod S) Hpt).
        destruct (N.lt_ge_cases p T) as [Hold|Hnew].
        * rewrite nthN_app_l by exact Hold.
          assert (Keep : ngetd (r_data r) (2 + S + p mod S) = nthN inp p) by (apply Ftm; fold T; lia).
          remember (p mod S) as s eqn:Es.
          assert (NoSmall : forall i, i < n -> m + i < S -> s = m + i -> False).
          { intros i Hi Hl E. apply (Rold p i); try lia. rewrite <- Es.
            rewrite (mod_add_small S T m i HS eq_refl Hl). exact E. }
          assert (NoWrap : forall i, i < n -> S <= m + i -> s = m + i - S -> False).
          { intros i Hi Hl E. apply (Rold p i); try lia. rewrite <- Es.
            rewrite (mod_add_wrap S T m i HS eq_refl Hl ltac:(lia)). exact E. }
          destruct (N.leb_spec (m + n) S) as [Hle|Hgt].
          -- destruct (N.leb_spec m s); destruct (N.ltb_spec s (m + n)); cbn [andb]; try exact Keep.
             exfalso. apply (NoSmall (s - m)); lia.
          -- destruct (N.ltb_spec s (m + n - S)); [|exact Keep].
             exfalso. apply (NoWrap (s + S - m)); lia.
        * rewrite nthN_app_r by exact Hnew. fold T.
          destruct (Rnew p Hnew H3) as [[Ha Hb]|[Ha Hb]]; rewrite Hb in *.
          -- destruct (N.leb_spec (m + n) S) as [Hle|Hgt].
             ++ destruct (N.leb_spec m (m + (p - T))); [|lia]. destruct (N.ltb_spec (m + (p - T)) (m + n)); [|lia].
                cbn [andb]. f_equal. lia.
             ++ (* a wrapping write starts at or beyond the tail: its unwrapped part has no tail slot *) lia.
          -- destruct (N.leb_spec (m + n) S) as [Hle|Hgt]; [lia|].
             destruct (N.ltb_spec (m + (p - T) - S) (m + n - S)); [|lia]. f_equal. lia.
    - cbn [with_pos with_data r_data]. unfold d4. rewrite ngetd_set_other by lia. rewrite ngetd_set_same.
      rewrite !ngetd_set_other by lia. reflexivity.
    - cbn [with_pos with_data r_data]. unfold d4. rewrite ngetd_set_same. rewrite !ngetd_set_other by lia. reflexivity.
    - cbn [with_pos with_data r_pos]. intros Z0. apply P3 in Z0.
      assert (E0 : r_pos r = 0) by lia. specialize (Fp0 E0). fold T in Fp0. lia.
  Qed.
  (* growing the buffer to its full size (first write of a block or more, or second write) *)
  Definition grow (r : rb) : rb_out :=
    bind (init_buffer (r_total r) r) (fun r1 =>
    bind (store r1 (2 + r_size r1 - 2) [0]) (fun r2 => store r2 (2 + r_size r2 - 1) [0])).

  Lemma grow_ok r inp :
    r_size r = S -> r_mask r = S - 1 -> r_tail r = tl -> r_total r = S + tl -> (r_pos r = 0 <-> lenN inp = 0) ->
    ((r_len r = 0 /\ r_cur r = 0 /\ lenN inp = 0)
     \/ (r_len r = 2 + r_cur r + 7 /\ r_cur r = lenN inp /\ lenN inp < tl /\ r_pos r = lenN inp
         /\ forall p, p < lenN inp -> ngetd (r_data r) (2 + p) = nthN inp p)) ->
    exists r1, grow r = RbDone r1 /\ full r1 inp.
  Proof.
    intros Es Em Et Eto Ep0 Ph.
    destruct S_facts as (HS & H2 & Ht & H4 & H31 & _).
    unfold grow, init_buffer. rewrite Eto.
    assert (NoPanic : (negb (r_len r =? 0) && (2 + (S + tl) + 7 <? 2 + r_cur r + 7)) = false).
    { destruct Ph as [(L & C & _)|(L & C & Tl & _)].
      - rewrite L. reflexivity.
      - destruct (N.ltb_spec (2 + (S + tl) + 7) (2 + r_cur r + 7)); [lia|]. apply andb_false_r. }
    rewrite NoPanic. cbn [bind].
    set (d0 := if r_len r =? 0 then PE else r_data r).
    set (d2 := write_bytes (nset (nset d0 0 0) 1 0) (2 + (S + tl)) (repeat 0 7)).
    cbn [r_size]. rewrite Es.
    rewrite store_ok by (cbn [r_len lenN length]; change (lenN [0]) with 1; lia).
    cbn [bind with_data r_size r_len r_data].
    rewrite store_ok by (cbn [with_data r_len]; change (lenN [0]) with 1; lia).
    eexists. split; [reflexivity|].
    cbn [with_data r_data].
    set (dF := write_bytes (write_bytes d2 (2 + S - 2) [0]) (2 + S - 1) [0]).
    assert (Low : forall p, p < tl -> ngetd dF (2 + p) = ngetd d0 (2 + p)).
    { intros p Hp. unfold dF. rewrite !write_bytes_get. change (lenN [0]) with 1.
      destruct (N.leb_spec (2 + S - 1) (2 + p)); [lia|]. cbn [andb].
      destruct (N.leb_spec (2 + S - 2) (2 + p)); [lia|]. cbn [andb].
      unfold d2. rewrite write_bytes_get. destruct (N.leb_spec (2 + (S + tl)) (2 + p)); [lia|]. cbn [andb].
      rewrite !ngetd_set_other by lia. reflexivity. }
    constructor; cbn [with_data r_size r_mask r_tail r_total r_cur r_len r_pos r_data]; try assumption; try lia.
    - destruct Ph as [(_ & _ & T0)|(_ & _ & _ & P & _)].
      + rewrite T0. rewrite (proj2 Ep0 T0). reflexivity.
      + rewrite P. reflexivity.
    - intros p H1 H3. destruct Ph as [(_ & _ & T0)|(L & C & Tl & P & D)]; [lia|].
      assert (Epm : p mod S = p) by (apply N.mod_small; lia). rewrite Epm.
      rewrite Low by lia. unfold d0. destruct (N.eqb_spec (r_len r) 0) as [Z0|_]; [lia|]. apply D. exact H3.
  Qed.

  Lemma rb_write_unfold bs r :
    rb_write bs r =
    if (r_pos r =? 0) && (lenN bs <? r_tail r)
    then bind (init_buffer (lenN bs) (with_pos r (w32 (lenN bs)))) (fun r1 => store r1 2 bs)
    else bind (if r_cur r <? r_total r then grow r else RbDone r) (main_write bs).
  Proof. reflexivity. Qed.

  Lemma write_step r inp bs : inv r inp -> lenN bs <= tl ->
    exists r', rb_write bs r = RbDone r' /\ inv r' (inp ++ bs).
  Proof.
    intros I Hn.
    destruct S_facts as (HS & H2 & Ht & H4 & H31 & _).
    destruct I as [Es Em Et Eto Ep0 Ph].
    rewrite rb_write_unfold. rewrite Et.
    destruct (N.eqb_spec (r_pos r) 0) as [P0|Pn]; [destruct (N.ltb_spec (lenN bs) tl) as [Hs|Hb]|]; cbn [andb].
    - (* a first, short write: a buffer of exactly that size *)
      assert (T0 : lenN inp = 0) by (apply Ep0; exact P0).
      assert (Ei : inp = []) by (destruct inp; [reflexivity|unfold lenN in T0; cbn in T0; lia]).
      subst inp. cbn [app].
      assert (W : w32 (lenN bs) = lenN bs).
      { unfold w32. apply N.mod_small. change (2 ^ 31) with 2147483648 in H31. change (2 ^ 32) with 4294967296. lia. }
      rewrite W. unfold init_buffer. cbn [with_pos r_len r_cur r_data r_size r_mask r_tail r_total r_pos].
      assert (NoPanic : (negb (r_len r =? 0) && (2 + lenN bs + 7 <? 2 + r_cur r + 7)) = false).
      { destruct Ph as [(L & _)|[(L & C & _)|(Tp & _)]].
        - rewrite L. reflexivity.
        - destruct (N.ltb_spec (2 + lenN bs + 7) (2 + r_cur r + 7)); [cbn in C; lia|]. apply andb_false_r.
        - cbn in Tp. lia. }
      rewrite NoPanic. cbn [bind].
      rewrite store_ok by (cbn [r_len]; lia).
      eexists. split; [reflexivity|].
      constructor; cbn [with_data r_size r_mask r_tail r_total r_cur r_len r_pos r_data]; try assumption.
      + tauto.
      + right. left. repeat split; try lia.
        intros p Hp. rewrite write_bytes_get.
        destruct (N.leb_spec 2 (2 + p)); [|lia]. destruct (N.ltb_spec (2 + p) (2 + lenN bs)); [|lia].
        cbn [andb]. f_equal. lia.
    - (* a first write of a whole block *)
      assert (T0 : lenN inp = 0) by (apply Ep0; exact P0).
      assert (Hcur : r_cur r < r_total r).
      { rewrite Eto. destruct Ph as [(_ & C & _)|[(_ & C & _)|(Tp & _)]]; lia. }
      destruct (N.ltb_spec (r_cur r) (r_total r)); [|lia].
      destruct (grow_ok r inp Es Em Et Eto Ep0) as (r1 & G & F).
      { destruct Ph as [A|[B|(Tp & _)]]; [left; exact A|right; exact B|lia]. }
      rewrite G. cbn [bind].
      destruct (main_write_ok r1 inp bs F Hn ltac:(lia)) as (r' & M & F' & W0 & W1 & Pz).
      exists r'. split; [exact M|].
      destruct F' as [Fs Fm Ft Fto Fc Fl Fpm Fp32 Fp0 Fd Ftm].
      constructor; try assumption.
      + split; [intros Z0; exfalso; exact (Pz Z0)|rewrite lenN_app; lia].
      + right. right. split; [rewrite lenN_app; lia|]. split; [constructor; assumption|split; assumption].
    - (* any later write *)
      assert (Tp : 0 < lenN inp).
      { destruct (N.eq_dec (lenN inp) 0) as [Z0|NZ]; [exfalso; apply Pn; apply Ep0; exact Z0|lia]. }
      assert (Hfull : exists r1, (if r_cur r <? r_total r then grow r else RbDone r) = RbDone r1 /\ full r1 inp).
      { destruct Ph as [(_ & _ & Z0)|[B|(_ & F & _)]]; [lia| |].
        - destruct B as (L & C & Tl & P & D). destruct (N.ltb_spec (r_cur r) (r_total r)); [|lia].
          apply (grow_ok r inp Es Em Et Eto Ep0). right. repeat split; assumption.
        - destruct (N.ltb_spec (r_cur r) (r_total r)) as [Hlt|_]; [rewrite (f_cur _ _ F), Eto in Hlt; lia|].
          exists r. split; [reflexivity|exact F]. }
      destruct Hfull as (r1 & G & F). rewrite G. cbn [bind].
      destruct (main_write_ok r1 inp bs F Hn ltac:(lia)) as (r' & M & F' & W0 & W1 & Pz).
      exists r'. split; [exact M|].
      destruct F' as [Fs Fm Ft Fto Fc Fl Fpm Fp32 Fp0 Fd Ftm].
      constructor; try assumption.
      + split; [intros Z0; exfalso; exact (Pz Z0)|rewrite lenN_app; lia].
      + right. right. split; [rewrite lenN_app; lia|]. split; [constructor; assumption|split; assumption].
  Qed.

  Lemma writes_inv ws : forall r inp, inv r inp -> Forall (fun w => lenN w <= tl) ws ->
    exists r', rb_writes ws r = RbDone r' /\ inv r' (inp ++ concat ws).
  Proof.
    induction ws as [|w t IH]; intros r inp I Hf.
    - exists r. split; [reflexivity|]. cbn [concat]. rewrite app_nil_r. exact I.
    - inversion Hf as [|? ? Hw Ht]; subst.
      destruct (write_step r inp w I Hw) as (r1 & E1 & I1).
      destruct (IH r1 (inp ++ w) I1 Ht) as (r' & E' & I').
      exists r'. split.
      + unfold rb_writes in *. cbn [rb_writes_with]. fold (rb_write w r). rewrite E1. exact E'.
      + cbn [concat]. rewrite app_assoc. exact I'.
  Qed.

  (* (c) *)
  Theorem ringbuffer_correct ws :
    Forall (fun w => lenN w <= 2 ^ lb) ws ->
    exists r, rb_writes ws (rb_setup k lb) = RbDone r /\
      let inp := concat ws in let T := lenN inp in
      N.land (r_pos r) (r_mask r) = N.land T (r_mask r) /\ r_mask r = 2 ^ k - 1 /\
      (forall p, T - N.min T (2 ^ k) <= p -> p < T -> rb_at r p = nthN inp p) /\
      (r_cur r = r_total r ->
         (forall p, 2 ^ k <= p -> T - N.min T (2 ^ k) <= p -> p < T -> p mod 2 ^ k < 2 ^ lb ->
                    ngetd (r_data r) (2 + 2 ^ k + p mod 2 ^ k) = nthN inp p)
         /\ ngetd (r_data r) 0 = ngetd (r_data r) (2 ^ k) /\ ngetd (r_data r) 1 = ngetd (r_data r) (2 ^ k + 1)).
  Proof.
    intros Hf. destruct S_facts as (HS & H2 & Ht & H4 & H31 & _).
    destruct (writes_inv ws (rb_setup k lb) [] inv_setup Hf) as (r & E & I).
    exists r. split; [exact E|]. cbn [app] in I. cbv zeta.
    destruct I as [Es Em Et Eto Ep0 Ph]. fold S. fold tl.
    set (inp := concat ws) in *.
    assert (LM : forall x, N.land x (r_mask r) = x mod S).
    { intros x. rewrite Em. unfold S. apply land_ones_mod. }
    split; [|split; [exact Em|split]].
    - rewrite !LM. destruct Ph as [(_ & _ & T0)|[(_ & _ & _ & P & _)|(_ & F & _)]].
      + rewrite T0. rewrite (proj2 Ep0 T0). reflexivity.
      + rewrite P. reflexivity.
      + exact (f_posmod _ _ F).
    - intros p H1 H3. unfold rb_at. rewrite LM.
      destruct Ph as [(_ & _ & T0)|[(_ & _ & Tl & _ & D)|(_ & F & _)]].
      + lia.
      + rewrite N.mod_small by lia. apply D. exact H3.
      + apply (f_data _ _ F); assumption.
    - intros Hc. destruct Ph as [(_ & C & _)|[(_ & C & Tl & _)|(_ & F & W0 & W1)]].
      + rewrite Eto, C in Hc. lia.
      + rewrite Eto, C in Hc. lia.
      + split; [|split; assumption]. intros p. apply (f_tailm _ _ F).
  Qed.
End RB.

(* as found (before fix dd9b0c6) the position was folded at 2^30: with the 31-bit mask of lgwin 30
   the masked position no longer follows the total once it passes 2^31 *)
Lemma fold_asfound_refuted :
  exists pos n, pos < 2 ^ 32 /\ n <= 2 ^ 30 /\
    N.land pos (2 ^ 31 - 1) = N.land (2 ^ 31 - 16384) (2 ^ 31 - 1) /\            (* the state agrees with total = 2^31 - 16384 *)
    N.land (fold_pos_asfound pos n) (2 ^ 31 - 1) <> N.land (2 ^ 31 - 16384 + n) (2 ^ 31 - 1) /\
    N.land (fold_pos pos n) (2 ^ 31 - 1) = N.land (2 ^ 31 - 16384 + n) (2 ^ 31 - 1).
Proof. exists (2 ^ 31 - 16384), 16384. vm_compute. repeat split; congruence. Qed.
