(* C17_rle: the RFC 7932 section 3.5 expansion of BrotliWriteHuffmanTree's output is the length
   vector without its trailing zeros. *)
From Coq Require Import NArith ZArith List Lia Bool Arith.
From V Require Import lib.Words gen.GenHuffman spec.PrefixCode model.Huffman proofs.Canonical_proofs proofs.Huffman_proofs.
Import ListNotations.
Open Scope N_scope.

(* The proofs below are about these values of the regenerated constants.  If the code changes one
   of them this lemma fails at once (instead of some later tactic searching for a long time). *)
Lemma pinned_rle_constants :
  rep_nonzero_consts = [7; 3; 0; 1; 1; 3; 1; 16; 3; 2] /\ rep_zero_consts = [11; 3; 0; 1; 3; 1; 17; 7; 3] /\
  rle_initial_previous = 8.
Proof. repeat split; vm_compute; reflexivity. Qed.

(* ------------------------------------------------------------------ the expansion side *)
Lemma push_n_repeat k v l : push_n k v l = repeat v k ++ l.
Proof.
  revert l. induction k as [|k IH]; intros l; [reflexivity|]. cbn [push_n]. rewrite IH.
  change (v :: l) with ([v] ++ l). rewrite app_assoc. f_equal.
  clear. induction k as [|k IH]; [reflexivity|]. cbn [repeat app]. rewrite IH. reflexivity.
Qed.

Lemma push_n_add a b v l : push_n b v (push_n a v l) = push_n (a + b) v l.
Proof. rewrite !push_n_repeat. rewrite (Nat.add_comm a b), repeat_app, <- app_assoc. reflexivity. Qed.

Lemma cl_run_app asz st a b :
  cl_run asz st (a ++ b) = match cl_run asz st a with Some st' => cl_run asz st' b | None => None end.
Proof.
  revert st. induction a as [|[s e] a IH]; intros st; [reflexivity|]. cbn [app cl_run].
  destruct (cl_step asz st s e); [apply IH|reflexivity].
Qed.

(* state after k more code lengths equal to v *)
Definition ext (st : cl_state) (v : N) (k : N) (rep : option (N * N)) : cl_state :=
  {| cl_rev := push_n (N.to_nat k) v (cl_rev st); cl_n := cl_n st + k;
     cl_prev := if v =? 0 then cl_prev st else v; cl_rep := rep;
     cl_space := if v =? 0 then cl_space st else cl_space st + k * 2 ^ (15 - v) |}.

Definition old16 (st : cl_state) : N := match cl_rep st with Some (16, c) => c | _ => 0 end.
Definition old17 (st : cl_state) : N := match cl_rep st with Some (17, c) => c | _ => 0 end.

Lemma ext_ext st v a b r1 r2 : ext (ext st v a r1) v b r2 = ext st v (a + b) r2.
Proof.
  unfold ext. cbn [cl_rev cl_n cl_prev cl_space]. f_equal.
  - rewrite push_n_add. f_equal. lia.
  - lia.
  - destruct (v =? 0); reflexivity.
  - destruct (v =? 0); [reflexivity|]. lia.
Qed.

Lemma step_literal asz st v : v < 16 -> cl_n st < asz -> cl_step asz st v 0 = Some (ext st v 1 None).
Proof.
  intros Hv Hn. unfold cl_step, ext. apply N.ltb_lt in Hv, Hn. rewrite Hv, Hn.
  change (N.to_nat 1) with 1%nat. cbn [push_n]. rewrite N.mul_1_l. reflexivity.
Qed.

Lemma run_literals asz v k : v < 16 -> forall st, cl_n st + N.of_nat k <= asz -> (1 <= k)%nat ->
  cl_run asz st (repeat (v, 0) k) = Some (ext st v (N.of_nat k) None).
Proof.
  intros Hv. induction k as [|k IH]; intros st Hn Hk; [lia|].
  cbn [repeat cl_run]. rewrite step_literal by lia.
  destruct k as [|k].
  - cbn [repeat cl_run]. reflexivity.
  - rewrite IH by (unfold ext; cbn [cl_n]; lia). rewrite ext_ext. f_equal. f_equal. lia.
Qed.

(* ------------------------------------------------------------------ repeat-count digits *)
(* what rep_chunk pushes, in the order pushed (least significant digit first) *)
Fixpoint gen (fuel : nat) (code mask shift r : N) : rle :=
  match fuel with
  | O => []
  | S f => (code, N.land r mask) ::
           (if N.shiftr r shift =? 0 then [] else gen f code mask shift (N.shiftr r shift - 1))
  end.

Lemma shiftr_lt r shift k : r < 2 ^ (shift * (k + 1)) -> N.shiftr r shift < 2 ^ (shift * k).
Proof.
  intros H. rewrite N.shiftr_div_pow2. apply N.div_lt_upper_bound; [apply N.pow_nonzero; discriminate|].
  rewrite <- N.pow_add_r. replace (shift + shift * k) with (shift * (k + 1)) by lia. exact H.
Qed.

Lemma gen_length fuel code mask shift : forall r, 2 <= shift ->
  N.of_nat (length (gen fuel code mask shift r)) <= r + 1.
Proof.
  intros r Hs. revert r. induction fuel as [|f IH]; intros r; [cbn; lia|].
  cbn [gen length]. destruct (N.eqb_spec (N.shiftr r shift) 0) as [E|E]; [cbn; lia|].
  specialize (IH (N.shiftr r shift - 1)).
  assert (Hq : N.shiftr r shift <= r / 4).
  { rewrite N.shiftr_div_pow2. change 4 with (2 ^ 2).
    apply N.div_le_compat_l. split; [apply N.neq_0_lt_0, N.pow_nonzero; discriminate|apply N.pow_le_mono_r; lia]. }
  assert (r / 4 * 4 <= r) by (rewrite N.mul_comm; apply N.mul_div_le; discriminate).
  lia.
Qed.

Lemma rep_chunk_gen cap code mask shift : forall fuel size r acc,
  r < 2 ^ (shift * (N.of_nat fuel + 1)) ->
  size + N.of_nat (length (gen (S fuel) code mask shift r)) <= cap ->
  rep_chunk (S fuel) cap size code mask shift r acc = Done (acc ++ gen (S fuel) code mask shift r).
Proof.
  induction fuel as [|f IH]; intros size r acc Hr Hc.
  - cbn [rep_chunk gen] in *.
    assert (E : N.shiftr r shift = 0).
    { apply shiftr_lt in Hr. change (N.of_nat 0) with 0 in Hr. rewrite N.mul_0_r in Hr. cbn in Hr. lia. }
    rewrite E in *. cbn [N.eqb length] in *.
    destruct (N.ltb_spec size cap); [reflexivity|lia].
  - remember (S f) as f1. cbn [rep_chunk gen] in *.
    destruct (N.ltb_spec size cap) as [Hlt|Hge]; [|cbn [length] in Hc; lia].
    destruct (N.eqb_spec (N.shiftr r shift) 0) as [E|E]; [reflexivity|].
    subst f1. rewrite IH.
    + rewrite <- app_assoc. reflexivity.
    + assert (Hr' : r < 2 ^ (shift * (N.of_nat f + 1 + 1))) by (replace (N.of_nat f + 1 + 1) with (N.of_nat (S f) + 1) by lia; exact Hr).
      apply shiftr_lt in Hr'. lia.
    + cbn [length] in Hc. lia.
Qed.

Definition ext16 (st : cl_state) (k : N) : cl_state :=
  {| cl_rev := push_n (N.to_nat k) (cl_prev st) (cl_rev st); cl_n := cl_n st + k; cl_prev := cl_prev st;
     cl_rep := Some (16, k); cl_space := cl_space st + k * 2 ^ (15 - cl_prev st) |}.
Definition ext17 (st : cl_state) (k : N) : cl_state :=
  {| cl_rev := push_n (N.to_nat k) 0 (cl_rev st); cl_n := cl_n st + k; cl_prev := cl_prev st;
     cl_rep := Some (17, k); cl_space := cl_space st |}.

Lemma step16 asz st e : e < 4 ->
  let old := old16 st in
  let new := (if old =? 0 then 0 else 4 * (old - 2)) + 3 + e in
  cl_n st + (new - old) <= asz ->
  cl_step asz st 16 e =
  Some {| cl_rev := push_n (N.to_nat (new - old)) (cl_prev st) (cl_rev st); cl_n := cl_n st + (new - old);
          cl_prev := cl_prev st; cl_rep := Some (16, new);
          cl_space := cl_space st + (new - old) * 2 ^ (15 - cl_prev st) |}.
Proof.
  intros He old new Hn. unfold cl_step. change (16 <? 16) with false. change (16 =? 16) with true. cbv iota.
  destruct (N.leb_spec 4 e); [lia|]. fold (old16 st). fold old. fold new.
  destruct (N.ltb_spec asz (cl_n st + (new - old))); [lia|]. reflexivity.
Qed.

Lemma step17 asz st e : e < 8 ->
  let old := old17 st in
  let new := (if old =? 0 then 0 else 8 * (old - 2)) + 3 + e in
  cl_n st + (new - old) <= asz ->
  cl_step asz st 17 e =
  Some {| cl_rev := push_n (N.to_nat (new - old)) 0 (cl_rev st); cl_n := cl_n st + (new - old);
          cl_prev := cl_prev st; cl_rep := Some (17, new); cl_space := cl_space st |}.
Proof.
  intros He old new Hn. unfold cl_step. change (17 <? 16) with false. change (17 =? 16) with false.
  change (17 =? 17) with true. cbv iota.
  destruct (N.leb_spec 8 e); [lia|]. fold (old17 st). fold old. fold new.
  destruct (N.ltb_spec asz (cl_n st + (new - old))); [lia|]. reflexivity.
Qed.

Lemma land3 r : N.land r 3 = r mod 4.
Proof. change 3 with (2 ^ 2 - 1). rewrite Bitops.land_ones_mod. reflexivity. Qed.
Lemma land7 r : N.land r 7 = r mod 8.
Proof. change 7 with (2 ^ 3 - 1). rewrite Bitops.land_ones_mod. reflexivity. Qed.

Lemma decode16 asz : forall fuel r st, r < 2 ^ (2 * (N.of_nat fuel + 1)) -> old16 st = 0 ->
  cl_n st + r + 3 <= asz ->
  cl_run asz st (rev (gen (S fuel) 16 3 2 r)) = Some (ext16 st (r + 3)).
Proof.
  induction fuel as [|f IH]; intros r st Hr Hold Hn.
  - assert (Hr4 : r < 4) by (change (N.of_nat 0) with 0 in Hr; cbn in Hr; lia).
    assert (E : N.shiftr r 2 = 0) by (rewrite N.shiftr_div_pow2; apply N.div_small; exact Hr4).
    cbn [gen]. rewrite E. cbn [N.eqb rev app cl_run].
    rewrite land3, N.mod_small by exact Hr4.
    rewrite step16 by (rewrite ?Hold; cbn [N.eqb]; lia). rewrite Hold. cbn [N.eqb].
    unfold ext16. replace (0 + 3 + r - 0) with (r + 3) by lia. replace (0 + 3 + r) with (r + 3) by lia. reflexivity.
  - remember (S f) as f1. cbn [gen].
    destruct (N.eqb_spec (N.shiftr r 2) 0) as [E|E].
    + assert (Hr4 : r < 4).
      { rewrite N.shiftr_div_pow2 in E. change (2 ^ 2) with 4 in E.
        destruct (N.lt_ge_cases r 4) as [|Hge]; [assumption|].
        pose proof (N.div_le_mono 4 r 4 ltac:(discriminate) Hge) as Hd. rewrite N.div_same in Hd by discriminate. lia. }
      cbn [rev app cl_run]. rewrite land3, N.mod_small by exact Hr4.
      rewrite step16 by (rewrite ?Hold; cbn [N.eqb]; lia). rewrite Hold. cbn [N.eqb].
      unfold ext16. replace (0 + 3 + r - 0) with (r + 3) by lia. replace (0 + 3 + r) with (r + 3) by lia. reflexivity.
    + cbn [rev]. rewrite cl_run_app. subst f1.
      assert (Hq : N.shiftr r 2 = r / 4) by (rewrite N.shiftr_div_pow2; reflexivity).
      pose proof (N.div_mod r 4 ltac:(discriminate)) as Hdm.
      pose proof (N.mod_lt r 4 ltac:(discriminate)) as Hml.
      set (q := r / 4) in *. set (m := r mod 4) in *. rewrite Hq in *.
      rewrite IH.
      * cbn [cl_run]. rewrite land3. fold m.
        assert (Ho : old16 (ext16 st (q - 1 + 3)) = q - 1 + 3) by reflexivity.
        rewrite step16; rewrite ?Ho.
        -- destruct (N.eqb_spec (q - 1 + 3) 0); [lia|].
           unfold ext16. cbn [cl_rev cl_n cl_prev cl_space]. f_equal. f_equal.
           ++ rewrite push_n_add. f_equal. lia.
           ++ lia.
           ++ f_equal. f_equal. lia.
           ++ rewrite <- N.add_assoc, <- N.mul_add_distr_r. f_equal. f_equal. lia.
        -- exact Hml.
        -- destruct (N.eqb_spec (q - 1 + 3) 0); [lia|]. cbn [ext16 cl_n]. lia.
      * assert (Hr' : r < 2 ^ (2 * (N.of_nat f + 1 + 1))) by (replace (N.of_nat f + 1 + 1) with (N.of_nat (S f) + 1) by lia; exact Hr).
        apply shiftr_lt in Hr'. rewrite Hq in Hr'. lia.
      * exact Hold.
      * lia.
Qed.

Lemma decode17 asz : forall fuel r st, r < 2 ^ (3 * (N.of_nat fuel + 1)) -> old17 st = 0 ->
  cl_n st + r + 3 <= asz ->
  cl_run asz st (rev (gen (S fuel) 17 7 3 r)) = Some (ext17 st (r + 3)).
Proof.
  induction fuel as [|f IH]; intros r st Hr Hold Hn.
  - assert (Hr4 : r < 8) by (change (N.of_nat 0) with 0 in Hr; cbn in Hr; lia).
    assert (E : N.shiftr r 3 = 0) by (rewrite N.shiftr_div_pow2; apply N.div_small; exact Hr4).
    cbn [gen]. rewrite E. cbn [N.eqb rev app cl_run].
    rewrite land7, N.mod_small by exact Hr4.
    rewrite step17 by (rewrite ?Hold; cbn [N.eqb]; lia). rewrite Hold. cbn [N.eqb].
    unfold ext17. replace (0 + 3 + r - 0) with (r + 3) by lia. replace (0 + 3 + r) with (r + 3) by lia. reflexivity.
  - remember (S f) as f1. cbn [gen].
    destruct (N.eqb_spec (N.shiftr r 3) 0) as [E|E].
    + assert (Hr4 : r < 8).
      { rewrite N.shiftr_div_pow2 in E. change (2 ^ 3) with 8 in E.
        destruct (N.lt_ge_cases r 8) as [|Hge]; [assumption|].
        pose proof (N.div_le_mono 8 r 8 ltac:(discriminate) Hge) as Hd. rewrite N.div_same in Hd by discriminate. lia. }
      cbn [rev app cl_run]. rewrite land7, N.mod_small by exact Hr4.
      rewrite step17 by (rewrite ?Hold; cbn [N.eqb]; lia). rewrite Hold. cbn [N.eqb].
      unfold ext17. replace (0 + 3 + r - 0) with (r + 3) by lia. replace (0 + 3 + r) with (r + 3) by lia. reflexivity.
    + cbn [rev]. rewrite cl_run_app. subst f1.
      assert (Hq : N.shiftr r 3 = r / 8) by (rewrite N.shiftr_div_pow2; reflexivity).
      pose proof (N.div_mod r 8 ltac:(discriminate)) as Hdm.
      pose proof (N.mod_lt r 8 ltac:(discriminate)) as Hml.
      set (q := r / 8) in *. set (m := r mod 8) in *. rewrite Hq in *.
      rewrite IH.
      * cbn [cl_run]. rewrite land7. fold m.
        assert (Ho : old17 (ext17 st (q - 1 + 3)) = q - 1 + 3) by reflexivity.
        rewrite step17; rewrite ?Ho.
        -- destruct (N.eqb_spec (q - 1 + 3) 0); [lia|].
           unfold ext17. cbn [cl_rev cl_n cl_prev cl_space]. f_equal. f_equal.
           ++ rewrite push_n_add. f_equal. lia.
           ++ lia.
           ++ f_equal. f_equal. lia.
        -- exact Hml.
        -- destruct (N.eqb_spec (q - 1 + 3) 0); [lia|]. cbn [ext17 cl_n]. lia.
      * assert (Hr' : r < 2 ^ (3 * (N.of_nat f + 1 + 1))) by (replace (N.of_nat f + 1 + 1) with (N.of_nat (S f) + 1) by lia; exact Hr).
        apply shiftr_lt in Hr'. rewrite Hq in Hr'. lia.
      * exact Hold.
      * lia.
Qed.

(* ------------------------------------------------------------------ the writer side *)
Lemma push_ok cap out v e : N.of_nat (length out) < cap -> push cap out v e = Done (out ++ [(v, e)]).
Proof. intros H. unfold push. apply N.ltb_lt in H. rewrite H. reflexivity. Qed.

Lemma push_times_ok k cap v : forall out, N.of_nat (length out) + N.of_nat k <= cap ->
  push_times k cap out v = Done (out ++ repeat (v, 0) k).
Proof.
  induction k as [|k IH]; intros out H; [cbn; rewrite app_nil_r; reflexivity|].
  cbn [push_times repeat]. rewrite push_ok by lia. cbn [bind].
  rewrite IH by (rewrite app_length; cbn; lia). rewrite <- app_assoc. reflexivity.
Qed.

Lemma wsub64_small a b : b <= a -> a < 2 ^ 64 -> wsub64 a b = a - b.
Proof.
  intros H1 H2. unfold wsub64, w64. rewrite (N.mod_small b) by lia.
  replace (a + 2 ^ 64 - b) with (a - b + 1 * 2 ^ 64) by lia.
  rewrite N.mod_add by (apply N.pow_nonzero; discriminate). apply N.mod_small. lia.
Qed.

Lemma ext_0 st v : cl_prev st = v -> ext st v 0 (cl_rep st) = st.
Proof.
  intros H. destruct st as [rv n pv rp sp]. cbn in H. subst pv. unfold ext. cbn [cl_rev cl_n cl_prev cl_rep cl_space N.to_nat push_n].
  f_equal; try lia. destruct (v =? 0); reflexivity. destruct (v =? 0); lia.
Qed.

Lemma ext16_ext st v k : cl_prev st = v -> v <> 0 -> ext16 st k = ext st v k (Some (16, k)).
Proof.
  intros H Hv. unfold ext16, ext. rewrite H. destruct (N.eqb_spec v 0); [contradiction|]. reflexivity.
Qed.

Lemma ext17_ext st k : ext17 st k = ext st 0 k (Some (17, k)).
Proof. reflexivity. Qed.

Definition wr_tail (cap : N) (out : rle) (value repetitions : N) : res rle :=
  '(out, repetitions) <-
     ((if repetitions =? 7 then out <- push cap out value 0 ;; Done (out, wsub64 repetitions 1)
       else Done (out, repetitions)) : res (rle * N)) ;;
  if repetitions <? 3 then push_times (N.to_nat repetitions) cap out value
  else
    chunk <- rep_chunk 70 cap (N.of_nat (length (out : rle))) 16 3 2 (wsub64 repetitions 3) [] ;;
    Done (out ++ rev chunk).

Lemma write_repetitions_unfold cap out prev value reps :
  write_repetitions cap out prev value reps =
  ('(out, repetitions) <-
     (if negb (prev =? value) then out <- push cap out value 0 ;; Done (out, wsub64 reps 1)
      else Done (out, reps)) ;;
   wr_tail cap out value repetitions).
Proof. reflexivity. Qed.

Definition rep_post (reps : N) (rep' : option (N * N)) : Prop :=
  rep' = None \/ exists c, rep' = Some (16, c) /\ 3 <= reps.

Lemma pow63_64 : 2 ^ 63 < 2 ^ 64.
Proof. apply N.pow_lt_mono_r; lia. Qed.

Lemma chunk16_ok cap (out : rle) value reps : 3 <= reps -> reps < 2 ^ 63 -> value <> 0 ->
  N.of_nat (length out) + reps <= cap ->
  exists chunk, rep_chunk 70 cap (N.of_nat (length out)) 16 3 2 (wsub64 reps 3) [] = Done chunk /\
    N.of_nat (length chunk) + 2 <= reps /\
    forall asz st, cl_prev st = value -> old16 st = 0 -> cl_n st + reps <= asz ->
      cl_run asz st (rev chunk) = Some (ext st value reps (Some (16, reps))).
Proof.
  intros H3 H63 Hv Hcap. pose proof pow63_64 as P.
  rewrite wsub64_small by lia.
  pose proof (gen_length 70 16 3 2 (reps - 3) ltac:(lia)) as Hgl.
  change 70%nat with (S 69). exists (gen (S 69) 16 3 2 (reps - 3)). split; [|split].
  - rewrite rep_chunk_gen; [reflexivity| |lia].
    eapply N.lt_le_trans; [|apply (N.pow_le_mono_r 2 64); [discriminate|cbn; lia]]. lia.
  - lia.
  - intros asz st Hp Ho Hn. rewrite decode16.
    + rewrite (ext16_ext st value) by assumption. replace (reps - 3 + 3) with reps by lia. reflexivity.
    + eapply N.lt_le_trans; [|apply (N.pow_le_mono_r 2 64); [discriminate|cbn; lia]]. lia.
    + exact Ho.
    + lia.
Qed.

Lemma wr_tail_ok cap out value reps : reps < 2 ^ 63 -> value <> 0 -> value < 16 ->
  N.of_nat (length out) + reps <= cap ->
  exists chunk, wr_tail cap out value reps = Done (out ++ chunk) /\ N.of_nat (length chunk) <= reps /\
    forall asz st, cl_prev st = value -> old16 st = 0 -> cl_n st + reps <= asz ->
      exists rep', cl_run asz st chunk = Some (ext st value reps rep') /\
        ((reps = 0 /\ rep' = cl_rep st) \/ (1 <= reps /\ rep_post reps rep')).
Proof.
  intros H63 Hv Hv16 Hcap. pose proof pow63_64 as P. unfold wr_tail.
  destruct (N.eqb_spec reps 7) as [E7|N7].
  - subst reps. rewrite push_ok by lia. cbn [bind]. rewrite wsub64_small by lia. change (7 - 1) with 6.
    change (6 <? 3) with false. cbv iota.
    destruct (chunk16_ok cap (out ++ [(value, 0)]) value 6) as [chunk [E [Hl Hrun]]]; try lia; try assumption.
    { rewrite app_length. cbn. lia. }
    rewrite E. cbn [bind]. exists ([(value, 0)] ++ rev chunk). split; [rewrite app_assoc; reflexivity|].
    split; [rewrite app_length, rev_length; cbn; lia|].
    intros asz st Hp Ho Hn. exists (Some (16, 6)). split.
    + rewrite cl_run_app. cbn [cl_run]. rewrite step_literal by lia.
      rewrite Hrun.
      * rewrite ext_ext. reflexivity.
      * unfold ext. cbn [cl_prev]. destruct (N.eqb_spec value 0); [contradiction|reflexivity].
      * reflexivity.
      * unfold ext. cbn [cl_n]. lia.
    + right. split; [lia|]. right. exists 6. split; [reflexivity|lia].
  - cbn [bind]. destruct (N.ltb_spec reps 3) as [Hlt|Hge].
    + rewrite push_times_ok by lia. exists (repeat (value, 0) (N.to_nat reps)). split; [reflexivity|].
      split; [rewrite repeat_length; lia|].
      intros asz st Hp Ho Hn. destruct (N.eq_dec reps 0) as [->|Hnz].
      * exists (cl_rep st). split; [cbn; rewrite ext_0 by exact Hp; reflexivity|left; auto].
      * exists None. split; [|right; split; [lia|left; reflexivity]].
        rewrite run_literals by lia. rewrite N2Nat.id. reflexivity.
    + destruct (chunk16_ok cap out value reps) as [chunk [E [Hl Hrun]]]; try lia; try assumption.
      rewrite E. cbn [bind]. exists (rev chunk). split; [reflexivity|]. split; [rewrite rev_length; lia|].
      intros asz st Hp Ho Hn. exists (Some (16, reps)). split; [apply Hrun; assumption|].
      right. split; [lia|]. right. exists reps. split; [reflexivity|lia].
Qed.

Lemma write_repetitions_ok cap out prev value reps :
  1 <= reps -> reps < 2 ^ 63 -> value <> 0 -> value < 16 -> N.of_nat (length out) + reps <= cap ->
  exists chunk, write_repetitions cap out prev value reps = Done (out ++ chunk) /\
    N.of_nat (length chunk) <= reps /\
    forall asz st, cl_prev st = prev -> (prev = value -> old16 st = 0) -> cl_n st + reps <= asz ->
      exists rep', cl_run asz st chunk = Some (ext st value reps rep') /\ rep_post reps rep'.
Proof.
  intros H1 H63 Hv Hv16 Hcap. pose proof pow63_64 as P. rewrite write_repetitions_unfold.
  destruct (N.eqb_spec prev value) as [Epv|Npv]; cbn [negb].
  - cbn [bind]. destruct (wr_tail_ok cap out value reps H63 Hv Hv16 Hcap) as [chunk [E [Hl Hrun]]].
    exists chunk. split; [exact E|]. split; [exact Hl|].
    intros asz st Hp Ho Hn. destruct (Hrun asz st) as [rep' [Er Hpost]]; [congruence|auto|exact Hn|].
    exists rep'. split; [exact Er|]. destruct Hpost as [[H0 _]|[_ Hp']]; [lia|exact Hp'].
  - rewrite push_ok by lia. cbn [bind]. rewrite wsub64_small by lia.
    destruct (wr_tail_ok cap (out ++ [(value, 0)]) value (reps - 1)) as [chunk [E [Hl Hrun]]]; try lia; try assumption.
    { rewrite app_length. cbn. lia. }
    rewrite E. exists ([(value, 0)] ++ chunk). split; [rewrite app_assoc; reflexivity|].
    split; [rewrite app_length; cbn; lia|].
    intros asz st Hp Ho Hn. rewrite cl_run_app. cbn [cl_run]. rewrite step_literal by lia.
    destruct (Hrun asz (ext st value 1 None)) as [rep' [Er Hpost]].
    + unfold ext. cbn [cl_prev]. destruct (N.eqb_spec value 0); [contradiction|reflexivity].
    + reflexivity.
    + unfold ext. cbn [cl_n]. lia.
    + exists rep'. rewrite Er, ext_ext. replace (1 + (reps - 1)) with reps by lia. split; [reflexivity|].
      destruct Hpost as [[H0 Hr']|[_ Hp']].
      * left. rewrite Hr'. reflexivity.
      * destruct Hp' as [Hnone|[c [Hc H3]]]; [left; exact Hnone|right; exists c; split; [exact Hc|lia]].
Qed.

Definition rep_post0 (reps : N) (rep' : option (N * N)) : Prop :=
  rep' = None \/ exists c, rep' = Some (17, c) /\ 3 <= reps.

Lemma chunk17_ok cap (out : rle) reps : 3 <= reps -> reps < 2 ^ 63 ->
  N.of_nat (length out) + reps <= cap ->
  exists chunk, rep_chunk 70 cap (N.of_nat (length out)) 17 7 3 (wsub64 reps 3) [] = Done chunk /\
    N.of_nat (length chunk) + 2 <= reps /\
    forall asz st, old17 st = 0 -> cl_n st + reps <= asz ->
      cl_run asz st (rev chunk) = Some (ext st 0 reps (Some (17, reps))).
Proof.
  intros H3 H63 Hcap. pose proof pow63_64 as P.
  rewrite wsub64_small by lia.
  pose proof (gen_length 70 17 7 3 (reps - 3) ltac:(lia)) as Hgl.
  change 70%nat with (S 69). exists (gen (S 69) 17 7 3 (reps - 3)). split; [|split].
  - rewrite rep_chunk_gen; [reflexivity| |lia].
    eapply N.lt_le_trans; [|apply (N.pow_le_mono_r 2 64); [discriminate|cbn; lia]]. lia.
  - lia.
  - intros asz st Ho Hn. rewrite decode17.
    + rewrite ext17_ext. replace (reps - 3 + 3) with reps by lia. reflexivity.
    + eapply N.lt_le_trans; [|apply (N.pow_le_mono_r 2 64); [discriminate|cbn; lia]]. lia.
    + exact Ho.
    + lia.
Qed.

Lemma write_repetitions_zeros_ok cap out reps :
  1 <= reps -> reps < 2 ^ 63 -> N.of_nat (length out) + reps <= cap ->
  exists chunk, write_repetitions_zeros cap out reps = Done (out ++ chunk) /\
    N.of_nat (length chunk) <= reps /\
    forall asz st, old17 st = 0 -> cl_n st + reps <= asz ->
      exists rep', cl_run asz st chunk = Some (ext st 0 reps rep') /\ rep_post0 reps rep'.
Proof.
  intros H1 H63 Hcap. pose proof pow63_64 as P. unfold write_repetitions_zeros.
  change (nthN rep_zero_consts 0) with 11. change (nthN rep_zero_consts 1) with 3.
  change (nthN rep_zero_consts 3) with 1. change (nthN rep_zero_consts 4) with 3.
  change (nthN rep_zero_consts 6) with 17. change (nthN rep_zero_consts 7) with 7.
  change (nthN rep_zero_consts 8) with 3.
  destruct (N.eqb_spec reps 11) as [E11|N11].
  - subst reps. rewrite push_ok by lia. cbn [bind]. rewrite wsub64_small by lia. change (11 - 1) with 10.
    change (10 <? 3) with false. cbv iota.
    destruct (chunk17_ok cap (out ++ [(0, 0)]) 10) as [chunk [E [Hl Hrun]]]; try lia.
    { rewrite app_length. cbn. lia. }
    rewrite E. cbn [bind]. exists ([(0, 0)] ++ rev chunk). split; [rewrite app_assoc; reflexivity|].
    split; [rewrite app_length, rev_length; cbn; lia|].
    intros asz st Ho Hn. exists (Some (17, 10)). split.
    + rewrite cl_run_app. cbn [cl_run]. rewrite step_literal by lia.
      rewrite Hrun; [rewrite ext_ext; reflexivity|reflexivity|unfold ext; cbn [cl_n]; lia].
    + right. exists 10. split; [reflexivity|lia].
  - cbn [bind]. destruct (N.ltb_spec reps 3) as [Hlt|Hge].
    + rewrite push_times_ok by lia. exists (repeat (0, 0) (N.to_nat reps)). split; [reflexivity|].
      split; [rewrite repeat_length; lia|].
      intros asz st Ho Hn. exists None. split; [|left; reflexivity].
      rewrite run_literals by lia. rewrite N2Nat.id. reflexivity.
    + destruct (chunk17_ok cap out reps) as [chunk [E [Hl Hrun]]]; try lia.
      rewrite E. cbn [bind]. exists (rev chunk). split; [reflexivity|]. split; [rewrite rev_length; lia|].
      intros asz st Ho Hn. exists (Some (17, reps)). split; [apply Hrun; assumption|].
      right. exists reps. split; [reflexivity|lia].
Qed.

(* ------------------------------------------------------------------ runs *)
Lemma count_run_ok (d : list N) length value : length <= N.of_nat (List.length d) ->
  forall fuel k reps, k <= length -> (N.to_nat (length - k) < fuel)%nat ->
  exists reps', count_run fuel d length value k reps = Done reps' /\ reps <= reps' /\
    k + (reps' - reps) <= length /\
    (forall j, k <= j -> j < k + (reps' - reps) -> nth (N.to_nat j) d 0 = value) /\
    (k + (reps' - reps) < length -> nth (N.to_nat (k + (reps' - reps))) d 0 <> value).
Proof.
  intros Hlen. induction fuel as [|f IH]; intros k reps Hk Hf; [lia|].
  cbn [count_run]. destruct (N.ltb_spec k length) as [Hlt|Hge].
  - rewrite (getA_ok d k 0) by lia. cbn [bind].
    destruct (N.eqb_spec (nth (N.to_nat k) d 0) value) as [E|E].
    + destruct (IH (k + 1) (reps + 1)) as [r' [Er [H1 [H2 [H3 H4]]]]]; [lia|lia|].
      exists r'. split; [exact Er|]. split; [lia|]. split; [lia|]. split.
      * intros j Hj1 Hj2. destruct (N.eq_dec j k) as [->|]; [exact E|apply H3; lia].
      * replace (k + (r' - reps)) with (k + 1 + (r' - (reps + 1))) by lia. exact H4.
    + exists reps. split; [reflexivity|]. split; [lia|]. split; [lia|]. split; [intros; lia|].
      intros _. rewrite N.sub_diag, N.add_0_r. exact E.
  - exists reps. split; [reflexivity|]. split; [lia|]. split; [lia|]. split; intros; lia.
Qed.

Lemma decide_loop_done (d : list N) length : length <= N.of_nat (List.length d) ->
  forall fuel i a b c e, i <= length -> (N.to_nat (length - i) < fuel)%nat ->
  exists r, decide_loop fuel d length i a b c e = Done r.
Proof.
  intros Hlen. induction fuel as [|f IH]; intros i a b c e Hi Hf; [lia|].
  cbn [decide_loop]. destruct (N.ltb_spec i length) as [Hlt|Hge]; [|eexists; reflexivity].
  rewrite (getA_ok d i 0) by lia. cbn [bind].
  destruct (count_run_ok d length (nth (N.to_nat i) d 0) Hlen (S (N.to_nat length)) (i + 1) 1) as [r' [Er [H1 [H2 _]]]]; [lia|lia|].
  rewrite Er. cbn [bind].
  destruct ((3 <=? r') && (nth (N.to_nat i) d 0 =? 0)); destruct ((4 <=? r') && negb (nth (N.to_nat i) d 0 =? 0));
    apply IH; lia.
Qed.

Lemma decide_done (d : list N) length : length <= N.of_nat (List.length d) ->
  exists r, decide_over_rle_use d length = Done r.
Proof.
  intros Hlen. unfold decide_over_rle_use.
  destruct (decide_loop_done d length Hlen (S (N.to_nat length)) 0 0 0 1 1) as [[[[a b] c] e] E]; [lia|lia|].
  rewrite E. cbn [bind]. eexists. reflexivity.
Qed.

(* ------------------------------------------------------------------ trailing zeros *)
Lemma strip_snoc_zero x : strip_trailing_zeros (x ++ [0]) = strip_trailing_zeros x.
Proof.
  induction x as [|a x IH]; [reflexivity|]. cbn [app strip_trailing_zeros]. rewrite IH. reflexivity.
Qed.

Lemma strip_snoc_nonzero x v : v <> 0 -> strip_trailing_zeros (x ++ [v]) = x ++ [v].
Proof.
  intros Hv. induction x as [|a x IH].
  - cbn. destruct (N.eqb_spec v 0); [contradiction|reflexivity].
  - cbn [app strip_trailing_zeros]. rewrite IH. destruct (x ++ [v]) eqn:E; [destruct x; discriminate|reflexivity].
Qed.

Lemma firstn_snoc (d : list N) n : (n < List.length d)%nat -> firstn (S n) d = firstn n d ++ [nth n d 0].
Proof. apply firstn_succ_snoc. Qed.

Lemma trim_loop_ok (d : list N) : N.of_nat (List.length d) < 2 ^ 63 ->
  let length := N.of_nat (List.length d) in
  forall todo i nl, nl = length - i -> N.of_nat todo = nl ->
  exists nl', trim_loop todo d length i nl = Done nl' /\ nl' <= nl /\
    firstn (N.to_nat nl') d = strip_trailing_zeros (firstn (N.to_nat nl) d).
Proof.
  intros H63 length. pose proof pow63_64 as P. induction todo as [|t IH]; intros i nl Hnl Ht.
  - exists nl. split; [reflexivity|]. split; [lia|]. replace nl with 0 by lia. reflexivity.
  - cbn [trim_loop]. rewrite (wsub64_small length i) by (unfold length in *; lia).
    rewrite (wsub64_small (length - i) 1) by (unfold length in *; lia).
    assert (Hidx : (N.to_nat (length - i - 1) < List.length d)%nat) by (unfold length in *; lia).
    rewrite (getA_ok d _ 0 Hidx). cbn [bind].
    assert (Hsplit : firstn (N.to_nat nl) d = firstn (N.to_nat (nl - 1)) d ++ [nth (N.to_nat (length - i - 1)) d 0]).
    { replace (N.to_nat nl) with (S (N.to_nat (nl - 1))) by lia. rewrite firstn_snoc by lia.
      f_equal. f_equal. f_equal. lia. }
    destruct (N.eqb_spec (nth (N.to_nat (length - i - 1)) d 0) 0) as [E|E].
    + destruct (IH (i + 1) (nl - 1)) as [nl' [En [Hle Hf]]]; [lia|lia|].
      exists nl'. split; [exact En|]. split; [lia|]. rewrite Hf, Hsplit, E, strip_snoc_zero. reflexivity.
    + exists nl. split; [reflexivity|]. split; [lia|]. rewrite Hsplit, strip_snoc_nonzero by exact E. reflexivity.
Qed.

(* ------------------------------------------------------------------ the main loop *)
Lemma firstn_extend (d : list N) i k v : (i + k <= List.length d)%nat ->
  (forall j, (i <= j < i + k)%nat -> nth j d 0 = v) -> firstn (i + k) d = firstn i d ++ repeat v k.
Proof.
  intros Hlen Hv. induction k as [|k IH].
  - rewrite Nat.add_0_r. cbn. rewrite app_nil_r. reflexivity.
  - replace (i + S k)%nat with (S (i + k)) by lia. rewrite firstn_succ_snoc by lia.
    rewrite IH by (try lia; intros j Hj; apply Hv; lia). rewrite Hv by lia.
    rewrite <- app_assoc. f_equal. clear. induction k as [|k IH]; [reflexivity|]. cbn [repeat app]. rewrite IH. reflexivity.
Qed.

Lemma rev_push_n k v l : rev (push_n k v l) = rev l ++ repeat v k.
Proof.
  rewrite push_n_repeat, rev_app_distr. f_equal.
  induction k as [|k IH]; [reflexivity|]. cbn [repeat rev]. rewrite IH.
  clear. induction k as [|k IH]; [reflexivity|]. cbn [repeat app]. rewrite IH. reflexivity.
Qed.

Section Loop.
  Variable d : list N.
  Variable cap nl : N.
  Variable use_nz use_z : bool.
  Hypothesis Hwf : wf_depths d.
  Hypothesis H63 : N.of_nat (List.length d) < 2 ^ 63.
  Hypothesis Hnl : nl <= N.of_nat (List.length d).
  Hypothesis Hcap : nl <= cap.
  Let asz := N.of_nat (List.length d).

  Definition Inv (i prev : N) (out : rle) : Prop :=
    exists st, cl_run asz cl_init out = Some st /\ rev (cl_rev st) = firstn (N.to_nat i) d /\
      cl_n st = i /\ cl_prev st = prev /\ N.of_nat (List.length out) <= i /\
      (old16 st <> 0 -> i < nl -> nth (N.to_nat i) d 0 <> prev) /\
      (old17 st <> 0 -> i < nl -> nth (N.to_nat i) d 0 <> 0).

  Lemma old16_ext st v k rep' : old16 (ext st v k rep') = match rep' with Some (16, c) => c | _ => 0 end.
  Proof. reflexivity. Qed.
  Lemma old17_ext st v k rep' : old17 (ext st v k rep') = match rep' with Some (17, c) => c | _ => 0 end.
  Proof. reflexivity. Qed.

  Lemma write_loop_ok : forall fuel i prev out, i <= nl -> (N.to_nat (nl - i) < fuel)%nat -> Inv i prev out ->
    exists out' prev', write_loop fuel cap d nl use_nz use_z i prev out = Done out' /\ Inv nl prev' out'.
  Proof.
    pose proof pow63_64 as P.
    induction fuel as [|f IH]; intros i prev out Hi Hf HI; [lia|].
    cbn [write_loop]. destruct (N.ltb_spec i nl) as [Hlt|Hge].
    2:{ exists out, prev. split; [reflexivity|]. replace nl with i by lia. exact HI. }
    rewrite (getA_ok d i 0) by lia. cbn [bind].
    set (value := nth (N.to_nat i) d 0).
    assert (Hv15 : value <= 15) by (apply Hwf, nth_In; lia).
    (* the run *)
    assert (Hrun : exists reps,
      (if negb (value =? 0) && use_nz || (value =? 0) && use_z
       then count_run (S (N.to_nat nl)) d nl value (i + 1) 1 else Done 1) = Done reps /\
      1 <= reps /\ i + reps <= nl /\
      (forall j, i <= j -> j < i + reps -> nth (N.to_nat j) d 0 = value) /\
      (3 <= reps -> i + reps < nl -> nth (N.to_nat (i + reps)) d 0 <> value)).
    { destruct (negb (value =? 0) && use_nz || (value =? 0) && use_z).
      - destruct (count_run_ok d nl value Hnl (S (N.to_nat nl)) (i + 1) 1) as [r [Er [H1 [H2 [H3 H4]]]]]; [lia|lia|].
        exists r. split; [exact Er|]. split; [lia|]. split; [lia|]. split.
        + intros j Hj1 Hj2. destruct (N.eq_dec j i) as [->|]; [reflexivity|apply H3; lia].
        + intros _ Hlt'. replace (i + r) with (i + 1 + (r - 1)) by lia. apply H4. lia.
      - exists 1. split; [reflexivity|]. split; [lia|]. split; [lia|]. split.
        + intros j Hj1 Hj2. replace j with i by lia. reflexivity.
        + intros; lia. }
    destruct Hrun as [reps [Er [Hr1 [Hr2 [Hr3 Hr4]]]]]. rewrite Er. cbn [bind].
    destruct HI as [st [Hst [Hrev [Hn [Hp [Hlo [H16 H17]]]]]]].
    assert (Hfirst : firstn (N.to_nat (i + reps)) d = firstn (N.to_nat i) d ++ repeat value (N.to_nat reps)).
    { replace (N.to_nat (i + reps)) with (N.to_nat i + N.to_nat reps)%nat by lia.
      apply firstn_extend; [lia|]. intros j Hj. rewrite <- (Nat2N.id j). apply Hr3; lia. }
    destruct (N.eqb_spec value 0) as [Ez|Hnz].
    - (* zeros *)
      destruct (write_repetitions_zeros_ok cap out reps) as [chunk [Ew [Hcl Hcr]]]; [lia|lia|lia|].
      rewrite Ew. cbn [bind].
      destruct (Hcr asz st) as [rep' [Ec Hpost]].
      { destruct (N.eq_dec (old17 st) 0) as [|Hne]; [assumption|]. exfalso. apply (H17 Hne Hlt). exact Ez. }
      { unfold asz. lia. }
      apply IH; [lia|lia|].
      exists (ext st 0 reps rep'). split; [rewrite cl_run_app, Hst; exact Ec|].
      split; [unfold ext; cbn [cl_rev]; rewrite rev_push_n, Hrev, Hfirst, Ez; reflexivity|].
      split; [unfold ext; cbn [cl_n]; lia|]. split; [unfold ext; cbn [cl_prev N.eqb]; exact Hp|].
      split; [rewrite app_length; lia|]. rewrite old16_ext, old17_ext. split.
      + destruct Hpost as [->|[c [-> _]]]; intros Hne; exfalso; apply Hne; reflexivity.
      + destruct Hpost as [->|[c [-> H3]]]; [intros Hne; exfalso; apply Hne; reflexivity|].
        intros _ Hlt' Hc. apply (Hr4 H3 Hlt'). congruence.
    - (* a non-zero length *)
      destruct (write_repetitions_ok cap out prev value reps) as [chunk [Ew [Hcl Hcr]]]; [lia|lia|exact Hnz|lia|lia|].
      rewrite Ew. cbn [bind].
      destruct (Hcr asz st) as [rep' [Ec Hpost]].
      { exact Hp. }
      { intros Epv. destruct (N.eq_dec (old16 st) 0) as [|Hne]; [assumption|]. exfalso. apply (H16 Hne Hlt). fold value. congruence. }
      { unfold asz. lia. }
      apply IH; [lia|lia|].
      exists (ext st value reps rep'). split; [rewrite cl_run_app, Hst; exact Ec|].
      split; [unfold ext; cbn [cl_rev]; rewrite rev_push_n, Hrev, Hfirst; reflexivity|].
      split; [unfold ext; cbn [cl_n]; lia|].
      split; [unfold ext; cbn [cl_prev]; destruct (N.eqb_spec value 0); [contradiction|reflexivity]|].
      split; [rewrite app_length; lia|]. rewrite old16_ext, old17_ext. split.
      + destruct Hpost as [->|[c [-> H3]]]; [intros Hne; exfalso; apply Hne; reflexivity|].
        intros _ Hlt'. apply Hr4; assumption.
      + destruct Hpost as [->|[c [-> _]]]; intros Hne; exfalso; apply Hne; reflexivity.
  Qed.
End Loop.

Theorem rle_expand (d : list N) (cap : N) :
  wf_depths d -> N.of_nat (List.length d) < 2 ^ 63 -> N.of_nat (List.length d) <= cap ->
  exists t, write_huffman_tree d (N.of_nat (List.length d)) cap = Done t /\
            rfc_expand (N.of_nat (List.length d)) t = Some (strip_trailing_zeros d).
Proof.
  intros Hwf H63 Hcap. unfold write_huffman_tree.
  destruct (trim_loop_ok d H63 (List.length d) 0 (N.of_nat (List.length d))) as [nl [Et [Hle Hf]]]; [lia|reflexivity|].
  rewrite Nat2N.id, Et. cbn [bind].
  rewrite Nat2N.id, firstn_all in Hf.
  assert (Hdec : exists uz, (if rle_min_length <? N.of_nat (List.length d) then decide_over_rle_use d nl else Done (false, false)) = Done uz).
  { destruct (rle_min_length <? N.of_nat (List.length d)); [apply decide_done; exact Hle|eexists; reflexivity]. }
  destruct Hdec as [[use_nz use_z] Ed]. rewrite Ed. cbn [bind].
  destruct (write_loop_ok d cap nl use_nz use_z Hwf H63 Hle ltac:(lia) (S (N.to_nat nl)) 0 rle_initial_previous [])
    as [out [prev' [Ew HI]]]; [lia|lia| |].
  - exists cl_init. split; [reflexivity|]. split; [reflexivity|]. split; [reflexivity|]. split; [reflexivity|].
    split; [cbn; lia|]. split; intros Hne; exfalso; apply Hne; reflexivity.
  - exists out. split; [exact Ew|]. destruct HI as [st [Hst [Hrev _]]].
    unfold rfc_expand. rewrite Hst, Hrev, Hf. reflexivity.
Qed.
