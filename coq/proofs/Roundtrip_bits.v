(* C01 composition: bit-list arithmetic shared by the glue side and the decoder side. *)
From Coq Require Import NArith ZArith List Bool Lia PeanoNat.
From V Require Import lib.Words lib.Finite spec.PrefixCode model.Stream model.MetaBlockHeader
  proofs.MbHeader_proofs proofs.Stored_proofs proofs.Roundtrip_defs.
Import ListNotations.
Open Scope N_scope.

Lemma pow2_succ_nat a : 2 ^ N.of_nat (S a) = 2 * 2 ^ N.of_nat a.
Proof. rewrite Nat2N.inj_succ. apply N.pow_succ_r'. Qed.

Lemma n2b_app a : forall b v, N_to_bits (a + b) v = N_to_bits a v ++ N_to_bits b (v / 2 ^ N.of_nat a).
Proof.
  induction a as [|a IH]; intros b v.
  - cbn [Nat.add N_to_bits app N.of_nat]. rewrite N.pow_0_r, N.div_1_r. reflexivity.
  - cbn [Nat.add N_to_bits app]. f_equal. rewrite IH. f_equal. f_equal.
    rewrite pow2_succ_nat. rewrite N.div2_div. rewrite N.div_div by (try discriminate; apply N.pow_nonzero; discriminate).
    reflexivity.
Qed.

Lemma n2b_ext n : forall v w, (forall i, i < N.of_nat n -> N.testbit v i = N.testbit w i) -> N_to_bits n v = N_to_bits n w.
Proof.
  induction n as [|n IH]; intros v w H; [reflexivity|]. cbn [N_to_bits]. f_equal.
  - rewrite <- !N.bit0_odd. apply H. lia.
  - apply IH. intros i Hi. rewrite !N.div2_spec, !N.shiftr_spec by lia. apply H. lia.
Qed.

Lemma n2b_mod n v : N_to_bits n (v mod 2 ^ N.of_nat n) = N_to_bits n v.
Proof. apply n2b_ext. intros i Hi. apply N.mod_pow2_bits_low. exact Hi. Qed.

Lemma n2b_split a b lo hi : lo < 2 ^ N.of_nat a ->
  N_to_bits (a + b) (lo + 2 ^ N.of_nat a * hi) = N_to_bits a lo ++ N_to_bits b hi.
Proof.
  intros H. rewrite n2b_app.
  assert (Hp : 2 ^ N.of_nat a <> 0) by (apply N.pow_nonzero; discriminate).
  f_equal.
  - rewrite <- (n2b_mod a (lo + _)). f_equal.
    replace (lo + 2 ^ N.of_nat a * hi) with (lo + hi * 2 ^ N.of_nat a) by lia.
    rewrite N.mod_add by exact Hp. apply N.mod_small. exact H.
  - f_equal. replace (lo + 2 ^ N.of_nat a * hi) with (lo + hi * 2 ^ N.of_nat a) by lia.
    rewrite N.div_add by exact Hp. rewrite (N.div_small lo) by exact H. lia.
Qed.

Lemma n2b_firstn a b v : firstn a (N_to_bits (a + b) v) = N_to_bits a v.
Proof.
  rewrite n2b_app. rewrite firstn_app, n2b_length, Nat.sub_diag. cbn [firstn]. rewrite app_nil_r.
  rewrite <- (n2b_length a v) at 1. apply firstn_all.
Qed.

(* little-endian bytes are the bits in order *)
Lemma le_bytes_bits k : forall v, bytes_bits (le_bytes k v) = N_to_bits (8 * k) v.
Proof.
  induction k as [|k IH]; intros v; [reflexivity|].
  cbn [le_bytes]. change (bytes_bits (v mod 256 :: le_bytes k (v / 256))) with (N_to_bits 8 (v mod 256) ++ bytes_bits (le_bytes k (v / 256))).
  rewrite IH. replace (8 * S k)%nat with (8 + 8 * k)%nat by lia. rewrite n2b_app.
  change (2 ^ N.of_nat 8) with 256. f_equal. exact (n2b_mod 8 v).
Qed.

(* ---- decidable equality of bit lists (beqb, Roundtrip_defs), for checks by computation ---- *)
Lemma beqb_eq a : forall b, beqb a b = true -> a = b.
Proof.
  induction a as [|x a IH]; intros [|y b] H; try discriminate; [reflexivity|].
  cbn [beqb] in H. apply andb_true_iff in H. destruct H as [H1 H2]. apply Bool.eqb_prop in H1. subst y.
  f_equal. apply IH. exact H2.
Qed.

Lemma carry_keptb_sound clb clbb a : carry_keptb clb clbb a = true -> carry_kept clb clbb a.
Proof. apply beqb_eq. Qed.

(* ---- the padding block: ISLAST 0, MNIBBLES 11, reserved 0, MSKIPBYTES 00, zero fill ---- *)
Definition pad_bits (clbb : N) : bits := N_to_bits (N.to_nat (8 * ((clbb + 13) / 8) - clbb)) 6.
Definition pad_fill (clbb : N) : N := 8 * ((clbb + 13) / 8) - clbb - 6.

Lemma pad_bits_shape clbb : clbb < 16 ->
  pad_bits clbb = [false; true; true; false; false; false] ++ repeat false (N.to_nat (pad_fill clbb))
  /\ pad_fill clbb < 8 /\ (clbb + 6 + pad_fill clbb) mod 8 = 0 /\ 8 * ((clbb + 13) / 8) = clbb + 6 + pad_fill clbb.
Proof.
  intros H.
  assert (K : all_below (fun c => beqb (pad_bits c) ([false; true; true; false; false; false] ++ repeat false (N.to_nat (pad_fill c)))
                                  && (pad_fill c <? 8) && ((c + 6 + pad_fill c) mod 8 =? 0)
                                  && (8 * ((c + 13) / 8) =? c + 6 + pad_fill c)) 16 = true) by (vm_compute; reflexivity).
  pose proof (all_below_spec _ _ K clbb H) as P. cbv beta in P.
  apply andb_true_iff in P. destruct P as [P P4]. apply andb_true_iff in P. destruct P as [P P3].
  apply andb_true_iff in P. destruct P as [P1 P2].
  split; [apply beqb_eq; exact P1|]. split; [apply N.ltb_lt; exact P2|]. split; apply N.eqb_eq; assumption.
Qed.

(* ---- the metadata block header after the carried bits ---- *)
Definition mh_val (n : N) : N := fst (metadata_header_bits 0 0 n).
Definition mh_len (n : N) : N := snd (metadata_header_bits 0 0 n).
Definition meta_hdr_bits (clbb n : N) : bits :=
  N_to_bits (N.to_nat (8 * ((clbb + mh_len n + 7) / 8) - clbb)) (mh_val n).
