(* C01 composition, decoder side III: the decoder spec run over  header ++ segments. *)
From Coq Require Import NArith ZArith List Bool Lia PeanoNat.
From V Require Import lib.Words lib.PMap spec.RfcTables spec.PrefixCode spec.Decoder model.Stream model.MetaBlockHeader
  proofs.Bitops proofs.MbHeader_proofs proofs.Stored_proofs
  proofs.Roundtrip_defs proofs.Roundtrip_bits proofs.Roundtrip_dec proofs.Roundtrip_segs.
Import ListNotations.
Open Scope N_scope.

Lemma full_bits_length a : length (full_bits a) = (8 * length (a_out a) + N.to_nat (a_lbb a))%nat.
Proof. unfold full_bits. rewrite app_length, bytes_bits_length, n2b_length. reflexivity. Qed.

Lemma kept_length clb clbb a : carry_kept clb clbb a -> (N.to_nat clbb <= length (full_bits a))%nat.
Proof.
  unfold carry_kept. intros H. apply (f_equal (@length bool)) in H. rewrite firstn_length, n2b_length in H. lia.
Qed.

Lemma answer_bits_length clb clbb a : carry_kept clb clbb a ->
  (N.to_nat clbb + length (g_answer_bits clbb a) = 8 * length (a_out a) + N.to_nat (a_lbb a))%nat.
Proof.
  intros H. pose proof (kept_length _ _ _ H) as L. rewrite <- full_bits_length.
  unfold g_answer_bits. fold (bytes_bits (a_out a)). fold (full_bits a). rewrite skipn_length. lia.
Qed.

(* kept carry: all the bits of the answer are the pending bits followed by its own bits *)
Lemma kept_split clb clbb a : carry_kept clb clbb a ->
  full_bits a = N_to_bits (N.to_nat clbb) clb ++ g_answer_bits clbb a.
Proof.
  intros H. unfold g_answer_bits. fold (bytes_bits (a_out a)). fold (full_bits a).
  rewrite <- H. symmetry. apply firstn_skipn.
Qed.

Lemma pad_bits_length clbb : clbb < 16 -> exists q, (N.to_nat clbb + length (pad_bits clbb) = 8 * q)%nat /\ (6 <= length (pad_bits clbb))%nat.
Proof.
  intros H. destruct (pad_bits_shape clbb H) as (_ & Hf & _ & E).
  unfold pad_bits. rewrite n2b_length. exists (N.to_nat ((clbb + 13) / 8)).
  remember ((clbb + 13) / 8) as q eqn:Eq. remember (pad_fill clbb) as f eqn:Ef. clear Eq Ef. split; lia.
Qed.

Lemma meta_hdr_bits_length clbb n : exists q, (N.to_nat clbb + length (meta_hdr_bits clbb n) = 8 * q)%nat /\ (1 <= length (meta_hdr_bits clbb n))%nat.
Proof.
  unfold meta_hdr_bits. rewrite n2b_length.
  destruct (fill_exists clbb (mh_len n)) as (f & E & Hf). exists (N.to_nat ((clbb + mh_len n + 7) / 8)).
  assert (6 <= mh_len n).
  { destruct (N.eq_dec n 0) as [->|Hn]; [destruct mh_closed0 as [_ ->]; lia|].
    destruct (mh_closed n ltac:(lia)) as [_ ->]. lia. }
  remember ((clbb + mh_len n + 7) / 8) as q eqn:Eq. remember (mh_len n) as L eqn:EL. clear Eq EL. split; lia.
Qed.

Section Chain.
  Variable dict_word : N -> N -> list N.
  Variable transform_tbl : N -> option (list N * N * list N).
  Variable large : bool.
  Variable wbits B : N.
  Variable input : list N.

  Notation MB := (meta_block dict_word transform_tbl large (2 ^ wbits - 16) B).

  (* the segments form a chain (pending bits, flush position) that ends with the last answer *)
  Fixpoint segs_ok (lb lbb prev_lfp : N) (segs : list seg) : Prop :=
    match segs with
    | [] => False
    | SAns clb clbb a :: t =>
        clb = lb /\ clbb = lbb /\ carry_kept clb clbb a /\ a_lfp a <= lenN input /\
        faithful_at dict_word transform_tbl B large wbits input prev_lfp clbb a /\
        (if a_is_last a then t = [] /\ a_lbb a = 0 /\ a_lfp a = lenN input
         else segs_ok (a_lb a) (a_lbb a) (a_lfp a) t)
    | SPad clbb :: t => clbb = lbb /\ clbb < 16 /\ segs_ok 0 0 prev_lfp t
    | SMeta clbb p :: t =>
        clbb = lbb /\ clbb < 16 /\ lenN p <= 2 ^ 24 /\ Forall (fun b => b < 256) p /\ segs_ok 0 0 prev_lfp t
    end.

  Lemma segs_aligned : forall segs lb lbb pl, segs_ok lb lbb pl segs ->
    Nat.modulo (N.to_nat lbb + length (segs_bits segs)) 8 = 0%nat.
  Proof.
    induction segs as [|g t IH]; intros lb lbb pl H; [destruct H|].
    unfold segs_bits in *. cbn [flat_map]. rewrite app_length.
    destruct g as [clb clbb a|clbb|clbb p]; cbn [segs_ok seg_bits] in *.
    - destruct H as (_ & <- & Hk & _ & _ & Hl).
      pose proof (answer_bits_length _ _ _ Hk) as L.
      destruct (a_is_last a).
      + destruct Hl as (-> & Hz & _). cbn [flat_map length]. rewrite Hz in L.
        replace (N.to_nat clbb + (length (g_answer_bits clbb a) + 0))%nat with (8 * length (a_out a))%nat by lia.
        apply mod8_0.
      + specialize (IH _ _ _ Hl).
        replace (N.to_nat clbb + (length (g_answer_bits clbb a) + length (flat_map seg_bits t)))%nat
          with (8 * length (a_out a) + (N.to_nat (a_lbb a) + length (flat_map seg_bits t)))%nat by lia.
        rewrite mod8_add_mul. exact IH.
    - destruct H as (<- & Hc & Ht). destruct (pad_bits_length clbb Hc) as (q & E & _).
      specialize (IH _ _ _ Ht). change (N.to_nat 0) with 0%nat in IH. cbn [Nat.add] in IH.
      replace (N.to_nat clbb + (length (pad_bits clbb) + length (flat_map seg_bits t)))%nat
        with (8 * q + length (flat_map seg_bits t))%nat by lia.
      rewrite mod8_add_mul. exact IH.
    - destruct H as (<- & Hc & _ & _ & Ht). destruct (meta_hdr_bits_length clbb (lenN p)) as (q & E & _).
      specialize (IH _ _ _ Ht). change (N.to_nat 0) with 0%nat in IH. cbn [Nat.add] in IH.
      rewrite app_length, bytes_bits_length.
      replace (N.to_nat clbb + (length (meta_hdr_bits clbb (lenN p)) + 8 * length p + length (flat_map seg_bits t)))%nat
        with (8 * (q + length p) + length (flat_map seg_bits t))%nat by lia.
      rewrite mod8_add_mul. exact IH.
  Qed.

  Lemma with_bits_id (s : dstate) : with_bits s (d_bits s) = s.
  Proof. destruct s; reflexivity. Qed.

  Lemma rev'_length {A} (l : list A) : length (rev' l) = length l.
  Proof. unfold rev'. rewrite <- rev_alt. apply rev_length. Qed.

  Lemma chain_run : forall segs lb lbb pl (s : dstate), segs_ok lb lbb pl segs ->
    opos_ok (d_out s) -> rev' (o_rev (d_out s)) = firstn (N.to_nat pl) input -> o_pos (d_out s) = pl ->
    exists n s' pad, (n <= length (segs_bits segs))%nat /\
      run_n n MB (with_bits s (segs_bits segs)) = Stop (StreamDone s') /\
      d_bits s' = repeat false pad /\ (pad < 8)%nat /\ rev' (o_rev (d_out s')) = input.
  Proof.
    induction segs as [|g t IH]; intros lb lbb pl s H Hop Hout Hpos; [destruct H|].
    pose proof (segs_aligned _ _ _ _ H) as Hal0.
    unfold segs_bits in *. cbn [flat_map].
    destruct g as [clb clbb a|clbb|clbb p]; cbn [segs_ok seg_bits] in *.
    - destruct H as (_ & <- & Hk & Hle & Hf & Hl).
      assert (Hal : Nat.modulo (N.to_nat (a_lbb a) + length (flat_map seg_bits t)) 8 = 0%nat).
      { destruct (a_is_last a).
        - destruct Hl as (-> & Hz & _). rewrite Hz. reflexivity.
        - exact (segs_aligned _ _ _ _ Hl). }
      destruct (Hf s (flat_map seg_bits t) Hal Hout Hpos) as (s1 & j & pad & Hj & Hrun & Hbits & Hpad & Hpad0 & Hout1).
      rewrite loop_n_run, Nat2N.id in Hrun.
      destruct (a_is_last a) eqn:El.
      + destruct Hl as (-> & Hz & Hfin). cbn [flat_map] in *. rewrite app_nil_r in *.
        exists j, s1, pad. split; [exact Hj|]. split; [exact Hrun|]. split; [exact Hbits|]. split; [exact Hpad|].
        rewrite Hout1, Hfin. unfold lenN. rewrite Nat2N.id. apply firstn_all.
      + specialize (Hpad0 eq_refl). subst pad. cbn [repeat app] in Hbits.
        pose proof (opos_run dict_word transform_tbl large (2 ^ wbits - 16) B j
                      {| d_out := d_out s; d_ring := d_ring s; d_info := d_info s; d_bits := g_answer_bits clbb a ++ flat_map seg_bits t |} Hop) as Hop1.
        rewrite Hrun in Hop1.
        assert (Hpos1 : o_pos (d_out s1) = a_lfp a).
        { unfold opos_ok in Hop1. rewrite Hop1. rewrite <- (rev'_length (o_rev (d_out s1))), Hout1.
          rewrite firstn_length. unfold lenN in Hle. lia. }
        destruct (IH _ _ _ s1 Hl Hop1 Hout1 Hpos1) as (n2 & s2 & pad2 & Hn2 & Hrun2 & Hb2 & Hp2 & Ho2).
        rewrite <- Hbits in Hrun2. rewrite with_bits_id in Hrun2.
        exists (j + n2)%nat, s2, pad2. split; [rewrite app_length; lia|].
        split; [|split; [exact Hb2|split; [exact Hp2|exact Ho2]]].
        rewrite run_n_add. unfold with_bits. rewrite Hrun. exact Hrun2.
    - destruct H as (<- & Hc & Ht).
      pose proof (segs_aligned _ _ _ _ Ht) as Hal. change (N.to_nat 0) with 0%nat in Hal. cbn [Nat.add] in Hal.
      destruct (IH _ _ _ (skip_to s (flat_map seg_bits t)) Ht Hop Hout Hpos) as (n2 & s2 & pad2 & Hn2 & Hrun2 & Hb2 & Hp2 & Ho2).
      destruct (pad_bits_length clbb Hc) as (_ & _ & L6).
      exists (1 + n2)%nat, s2, pad2. split; [rewrite app_length; lia|].
      split; [|split; [exact Hb2|split; [exact Hp2|exact Ho2]]].
      rewrite run_n_add. cbn [run_n]. unfold with_bits at 1.
      rewrite (pad_decodes dict_word transform_tbl large (2 ^ wbits - 16) B clbb (flat_map seg_bits t) s Hc Hal).
      rewrite <- (with_bits_id (skip_to s (flat_map seg_bits t))). exact Hrun2.
    - destruct H as (<- & Hc & Hn & Hb & Ht).
      pose proof (segs_aligned _ _ _ _ Ht) as Hal. change (N.to_nat 0) with 0%nat in Hal. cbn [Nat.add] in Hal.
      destruct (IH _ _ _ (skip_to s (flat_map seg_bits t)) Ht Hop Hout Hpos) as (n2 & s2 & pad2 & Hn2 & Hrun2 & Hb2 & Hp2 & Ho2).
      destruct (meta_hdr_bits_length clbb (lenN p)) as (_ & _ & L1).
      exists (1 + n2)%nat, s2, pad2. split; [rewrite !app_length; lia|].
      split; [|split; [exact Hb2|split; [exact Hp2|exact Ho2]]].
      rewrite run_n_add. cbn [run_n]. unfold with_bits at 1.
      rewrite (meta_decodes dict_word transform_tbl large (2 ^ wbits - 16) B clbb p (flat_map seg_bits t) s Hc Hn Hb Hal).
      rewrite <- (with_bits_id (skip_to s (flat_map seg_bits t))). exact Hrun2.
  Qed.

  Theorem dec_stream hdr hlb hlbb segs :
    (forall rest, read_wbits true (hdr ++ rest) = Ok ((wbits, large), rest)) ->
    segs_ok hlb hlbb 0 segs ->
    N.of_nat (length (segs_bits segs)) <= B ->
    exists info, decode_bits dict_word transform_tbl true [] (hdr ++ segs_bits segs) B = Ok (input, info).
  Proof.
    intros Hh Hs HB. unfold decode_bits. rewrite Hh.
    set (i0 := nset (if large then bump PE K_large else PE) K_wbits wbits).
    set (s0 := {| d_out := o_init []; d_ring := ring_init; d_info := i0; d_bits := segs_bits segs |}).
    destruct (chain_run segs hlb hlbb 0 s0 Hs) as (n & s' & pad & Hn & Hrun & Hb & Hp & Ho); try reflexivity.
    change (with_bits s0 (segs_bits segs)) with s0 in Hrun.
    exists (d_info s'). rewrite (loop_n_stop B n _ _ _ Hrun) by lia.
    rewrite Hb. rewrite <- (app_nil_r (repeat false pad)). rewrite align_zeros by (try exact Hp; reflexivity).
    rewrite Ho. reflexivity.
  Qed.
End Chain.
