(* C01 composition, decoder side I: facts about the decoder spec's meta-block loop that the
   composition needs and that hold for EVERY stream:
     - loop_n as plain iteration (run_n), additivity, monotonicity of Stop results;
     - the command-loop budget of meta_block is monotone: a larger budget gives the same answer
       whenever the smaller one did not run out;
     - meta_block keeps "o_pos = number of bytes output" (no custom dictionary);
     - the premise of props/C01.v (g_backend_faithful) implies the weaker premise [faithful_at]
       for every budget >= 8*|a_out| + 64. *)
From Coq Require Import NArith ZArith List Bool Lia PeanoNat.
From V Require Import lib.Words lib.PMap spec.RfcTables spec.PrefixCode spec.Decoder model.Stream model.MetaBlockHeader
  proofs.Bitops proofs.MbHeader_proofs proofs.Stored_proofs proofs.Roundtrip_defs.
Import ListNotations.
Open Scope N_scope.

(* ------------------------------------------------------------------ iteration *)
Lemma loop_n_run {St Rs} n (f : St -> step_res St Rs) s : loop_n n f s = run_n (N.to_nat n) f s.
Proof. destruct n as [|p]; [reflexivity|]. cbn [loop_n N.to_nat]. apply loop_pos_run. Qed.

Lemma loop_n_stop_mono {St Rs} n m (f : St -> step_res St Rs) s r :
  loop_n n f s = Stop r -> n <= m -> loop_n m f s = Stop r.
Proof. rewrite !loop_n_run. intros H L. apply (run_n_stop_mono (N.to_nat n)); [exact H|lia]. Qed.

(* an invariant of the state carried through the iteration; [Q] is what a Stop result satisfies *)
Lemma run_n_inv {St Rs} (P : St -> Prop) (Q : Rs -> Prop) (f : St -> step_res St Rs) :
  (forall s s', P s -> f s = Continue s' -> P s') -> (forall s r, P s -> f s = Stop r -> Q r) ->
  forall n s, P s -> match run_n n f s with Continue s' => P s' | Stop r => Q r end.
Proof.
  intros Hc Hs. induction n as [|n IH]; intros s Hp; [exact Hp|].
  cbn [run_n]. destruct (f s) as [s1|r] eqn:E; [apply IH; eapply Hc; eassumption|eapply Hs; eassumption].
Qed.

Lemma loop_n_inv {St Rs} (P : St -> Prop) (Q : Rs -> Prop) (f : St -> step_res St Rs) :
  (forall s s', P s -> f s = Continue s' -> P s') -> (forall s r, P s -> f s = Stop r -> Q r) ->
  forall n s, P s -> match loop_n n f s with Continue s' => P s' | Stop r => Q r end.
Proof. intros Hc Hs n s Hp. rewrite loop_n_run. apply run_n_inv; assumption. Qed.

(* two step functions that agree on the results of interest *)
Lemma run_n_transfer {St Rs} (good : Rs -> Prop) (f g : St -> step_res St Rs) :
  (forall s s', f s = Continue s' -> g s = Continue s') ->
  (forall s r, f s = Stop r -> good r -> g s = Stop r) ->
  forall n s, (forall s', run_n n f s = Continue s' -> run_n n g s = Continue s')
           /\ (forall r, run_n n f s = Stop r -> good r -> run_n n g s = Stop r).
Proof.
  intros Hc Hs. induction n as [|n IH]; intros s; cbn [run_n].
  - split; [intros s' H; exact H|intros r H; discriminate H].
  - destruct (f s) as [s1|r1] eqn:E.
    + rewrite (Hc _ _ E). apply IH.
    + split; [intros s' H; discriminate H|]. intros r H G. inversion H; subst r1. rewrite (Hs _ _ E G). reflexivity.
Qed.

(* ------------------------------------------------------------------ budget monotonicity *)
Lemma bind_mono {A B} (m : R A) (f g : A -> R B) (r : B * bits) :
  (forall a bs, f a bs = Ok r -> g a bs = Ok r) -> forall bs, bind m f bs = Ok r -> bind m g bs = Ok r.
Proof.
  intros H bs. unfold bind. destruct (m bs) as [[a rest]|e]; [apply H|intros K; discriminate K].
Qed.

Section Dec.
  Variable dict_word : N -> N -> list N.
  Variable transform_tbl : N -> option (list N * N * list N).

  Lemma read_compressed_mono large window b1 b2 mlen o rg i r : b1 <= b2 -> forall bs,
    read_compressed dict_word transform_tbl large window b1 mlen o rg i bs = Ok r ->
    read_compressed dict_word transform_tbl large window b2 mlen o rg i bs = Ok r.
  Proof.
    intros Hb. unfold read_compressed.
    repeat (apply bind_mono; intros ?a;
            repeat match goal with p : (_ * _)%type |- _ => destruct p end; cbv beta iota zeta).
    intros bs H.
    destruct (loop_n (mlen + b1) _ _) as [c|[c|e]] eqn:E; try discriminate H.
    rewrite (loop_n_stop_mono _ (mlen + b2) _ _ _ E) by lia. exact H.
  Qed.

  Definition mb_good (r : mb_end) : Prop := match r with StreamDone _ => True | MbErr _ => False end.

  Lemma meta_block_mono large window b1 b2 s : b1 <= b2 ->
    (forall s', meta_block dict_word transform_tbl large window b1 s = Continue s' ->
                meta_block dict_word transform_tbl large window b2 s = Continue s') /\
    (forall r, meta_block dict_word transform_tbl large window b1 s = Stop r -> mb_good r ->
               meta_block dict_word transform_tbl large window b2 s = Stop r).
  Proof.
    intros Hb. unfold meta_block.
    destruct (read_mb_header (d_bits s)) as [[[islast k] r1]|e]; [|split; [intros ? H; discriminate H|intros r H G; inversion H; subst r; destruct G]].
    destruct k as [| |mlen [|]]; try (split; [intros ? H; exact H|intros ? H _; exact H]).
    destruct (read_compressed dict_word transform_tbl large window b1 mlen (d_out s) (d_ring s) (bump (d_info s) K_compressed) r1)
      as [[[[o rg] i] r4]|e] eqn:E.
    - rewrite (read_compressed_mono large window b1 b2 mlen _ _ _ _ Hb _ E). split; [intros ? H; exact H|intros ? H _; exact H].
    - split; [intros ? H; discriminate H|]. intros r H G. inversion H; subst r. destruct G.
  Qed.

  Lemma run_meta_mono large window b1 b2 : b1 <= b2 -> forall n s,
    (forall s', run_n n (meta_block dict_word transform_tbl large window b1) s = Continue s' ->
                run_n n (meta_block dict_word transform_tbl large window b2) s = Continue s') /\
    (forall s', run_n n (meta_block dict_word transform_tbl large window b1) s = Stop (StreamDone s') ->
                run_n n (meta_block dict_word transform_tbl large window b2) s = Stop (StreamDone s')).
  Proof.
    intros Hb n s.
    destruct (run_n_transfer mb_good (meta_block dict_word transform_tbl large window b1)
                (meta_block dict_word transform_tbl large window b2)
                (fun s0 => proj1 (meta_block_mono large window b1 b2 s0 Hb))
                (fun s0 => proj2 (meta_block_mono large window b1 b2 s0 Hb)) n s) as [A B].
    split; [exact A|]. intros s' H. apply B; [exact H|exact I].
  Qed.

  (* ------------------------------------------------------------------ o_pos counts the output *)
  Definition opos_ok (o : ostate) : Prop := o_pos o = N.of_nat (length (o_rev o)).

  Lemma opos_emit o b : opos_ok o -> opos_ok (emit o b).
  Proof. unfold opos_ok, emit. cbn [o_pos o_rev length]. intros H. rewrite H. lia. Qed.

  Lemma opos_emit_list l : forall o, opos_ok o -> opos_ok (emit_list o l).
  Proof.
    induction l as [|b t IH]; intros o H; [exact H|]. unfold emit_list in *. cbn [fold_left]. apply IH. apply opos_emit. exact H.
  Qed.

  Lemma opos_lit_step m c : opos_ok (c_out c) ->
    match lit_step m c with Continue c' => opos_ok (c_out c') | Stop _ => True end.
  Proof.
    intros H. unfold lit_step.
    destruct (if b_left (c_bl c) =? 0 then _ else _) as [[[bl bs] i]|e]; [|exact I].
    destruct (hdecode _ bs) as [[lit r]|e]; [|exact I].
    unfold upd_l. cbn [c_out]. apply opos_emit. exact H.
  Qed.

  Lemma opos_copy dist n : forall o, opos_ok o ->
    match loop_n n (copy_byte dist) o with Continue o' => opos_ok o' | Stop _ => True end.
  Proof.
    intros o H. apply (loop_n_inv opos_ok (fun _ => True)); [|intros; exact I|exact H].
    intros s s' Hs E. unfold copy_byte in E. inversion E; subst s'. apply opos_emit. exact Hs.
  Qed.

  Definition cmd_end_ok (r : cmd_end) : Prop := match r with MetaDone c => opos_ok (c_out c) | CmdErr _ => True end.

  Lemma opos_cmd_step m c : opos_ok (c_out c) ->
    match cmd_step dict_word transform_tbl m c with Continue c' => opos_ok (c_out c') | Stop r => cmd_end_ok r end.
  Proof.
    intros H. unfold cmd_step.
    destruct (with_switch (c_bi c) (c_info c) (c_bits c)) as [[[bi0 i0] bs0]|e]; [|exact I].
    destruct (hdecode _ bs0) as [[sym bs1]|e]; [|exact I].
    destruct (rfc_cell sym) as [[icode ccode] implicit].
    destruct (read_bits _ bs1) as [[ix bs2]|]; [|exact I].
    destruct (read_bits _ bs2) as [[cx bs3]|]; [|exact I].
    destruct (c_left c <? rfc_ins_base icode + ix); [exact I|].
    match goal with |- context [loop_n ?n (lit_step m) ?c1] =>
      pose proof (loop_n_inv (fun c => opos_ok (c_out c)) (fun _ => True) (lit_step m)
                    (fun s s' Hs E => ltac:(pose proof (opos_lit_step m s Hs) as K; rewrite E in K; exact K))
                    (fun _ _ _ _ => I) n c1 H) as L;
      destruct (loop_n n (lit_step m) c1) as [c2|e]; [|exact I] end.
    destruct (c_left c2 =? 0); [exact L|].
    match goal with |- context [match ?d with Ok _ => _ | Err _ => _ end] =>
      destruct d as [[[[[dist push] bd] i2] bs4]|e]; [|exact I] end.
    destruct (dist <=? N.min (m_window m) (o_pos (c_out c2))).
    - destruct (c_left c2 <? _); [exact I|].
      pose proof (opos_copy dist (rfc_copy_base ccode + cx) (c_out c2) L) as Lc.
      destruct (loop_n (rfc_copy_base ccode + cx) (copy_byte dist) (c_out c2)) as [o'|e]; [|exact I].
      match goal with |- context [if ?b then Stop _ else Continue _] => destruct b end; cbn [cmd_end_ok c_out]; exact Lc.
    - destruct (max_allowed_distance <? dist); [exact I|].
      destruct (dictionary_ref dict_word transform_tbl _ _) as [w|e]; [|exact I].
      destruct (c_left c2 <? _); [exact I|].
      match goal with |- context [if ?b then Stop _ else Continue _] => destruct b end; cbn [cmd_end_ok c_out];
        apply opos_emit_list; exact L.
  Qed.

  Lemma opos_read_compressed large window budget mlen o rg i bs o' rg' i' r :
    opos_ok o -> read_compressed dict_word transform_tbl large window budget mlen o rg i bs = Ok ((o', rg', i'), r) -> opos_ok o'.
  Proof.
    intros Ho. unfold read_compressed, bind.
    repeat match goal with
    | |- (match ?X with Ok _ => _ | Err _ => _ end) = _ -> _ =>
        destruct X as [[? ?]|?]; [|intros K; discriminate K];
        repeat match goal with p : (_ * _)%type |- _ => destruct p end; cbv beta iota zeta
    end.
    match goal with |- context [loop_n ?n (cmd_step dict_word transform_tbl ?m) ?c0] =>
      pose proof (loop_n_inv (fun c => opos_ok (c_out c)) cmd_end_ok (cmd_step dict_word transform_tbl m)
                    (fun s s' Hs E => ltac:(pose proof (opos_cmd_step m s Hs) as K; rewrite E in K; exact K))
                    (fun s r Hs E => ltac:(pose proof (opos_cmd_step m s Hs) as K; rewrite E in K; exact K))
                    n c0 Ho) as L;
      destruct (loop_n n (cmd_step dict_word transform_tbl m) c0) as [c|[c|e]] end; try (intros K; discriminate K).
    intros K. inversion K; subst. exact L.
  Qed.

  Definition mb_end_ok (r : mb_end) : Prop := match r with StreamDone s => opos_ok (d_out s) | MbErr _ => True end.

  Lemma opos_meta_block large window budget s : opos_ok (d_out s) ->
    match meta_block dict_word transform_tbl large window budget s with
    | Continue s' => opos_ok (d_out s') | Stop r => mb_end_ok r end.
  Proof.
    intros H. unfold meta_block.
    destruct (read_mb_header (d_bits s)) as [[[islast k] r1]|e]; [|exact I].
    destruct k as [| |mlen [|]].
    - exact H.
    - destruct (read_metadata_body r1) as [[sk r3]|e]; [|exact I]. destruct islast; exact H.
    - destruct ((do _ <- align; rbytes mlen) r1) as [[data r4]|e]; [|exact I]. cbn [d_out]. apply opos_emit_list. exact H.
    - destruct (read_compressed _ _ _ _ _ _ _ _ _ _) as [[[[o rg] i] r4]|e] eqn:E; [|exact I].
      pose proof (opos_read_compressed _ _ _ _ _ _ _ _ _ _ _ _ H E) as Ho.
      destruct islast; exact Ho.
  Qed.

  Lemma opos_run large window budget n s : opos_ok (d_out s) ->
    match run_n n (meta_block dict_word transform_tbl large window budget) s with
    | Continue s' => opos_ok (d_out s') | Stop r => mb_end_ok r end.
  Proof.
    intros H. apply (run_n_inv (fun s => opos_ok (d_out s)) mb_end_ok); [| |exact H].
    - intros s0 s' Hs E. pose proof (opos_meta_block large window budget s0 Hs) as K. rewrite E in K. exact K.
    - intros s0 r Hs E. pose proof (opos_meta_block large window budget s0 Hs) as K. rewrite E in K. exact K.
  Qed.

  (* ------------------------------------------------------------------ the premise of props/C01.v implies faithful_at *)
  Lemma backend_faithful_at large wbits input prev_lfp carry a B :
    8 * lenN (a_out a) + 64 <= B ->
    g_backend_faithful dict_word transform_tbl large wbits input prev_lfp carry a ->
    faithful_at dict_word transform_tbl B large wbits input prev_lfp carry a.
  Proof.
    intros HB H s rest _ Ho Hp.
    destruct (H s rest Ho Hp) as (s' & j & Hj & Hrun & Hr & Hout).
    exists s', j, 0%nat. split; [exact Hj|]. split; [|split; [exact Hr|split; [lia|split; [reflexivity|exact Hout]]]].
    rewrite loop_n_run in *. rewrite Nat2N.id in *.
    destruct (run_meta_mono large (2 ^ wbits - 16) _ B HB j
                {| d_out := d_out s; d_ring := d_ring s; d_info := d_info s; d_bits := g_answer_bits carry a ++ rest |}) as [A Bs].
    destruct (a_is_last a); [apply Bs|apply A]; exact Hrun.
  Qed.
End Dec.
