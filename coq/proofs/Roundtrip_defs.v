(* C01 composition (stream glue model x decoder spec): shared definitions.

   props/C01.v states the composition over a record type [call] that is local to that file; the
   definitions here are the same functions over an ABSTRACT call type (three projections), so that
   the theorems proved in proofs/Roundtrip_*.v instantiate, by conversion, to the statement of
   props/C01.v.  [g_run_calls], [g_answer_bits], [g_backend_faithful], [g_all_faithful] have
   literally the bodies of run_calls / answer_bits / backend_faithful / all_faithful there. *)
From Coq Require Import NArith ZArith List Bool.
From V Require Import lib.Words lib.PMap spec.RfcTables spec.PrefixCode spec.Decoder model.Stream model.MetaBlockHeader.
Import ListNotations.
Open Scope N_scope.

(* answers with the pending bits they were invoked on *)
Fixpoint annotate (lb lbb : N) (l : list answer) : list (N * N * answer) :=
  match l with [] => [] | a :: t => (lb, lbb, a) :: annotate (a_lb a) (a_lbb a) t end.

Definition state0 (params : list (N * N)) (answers : list answer) : st :=
  upd_misc (fold_left (fun s kv => snd (set_parameter s (fst kv) (snd kv))) params init_st) false answers.
(* WBITS of the stream header written by ensure_initialized *)
Definition stream_wbits (s1 : st) : N :=
  Z.to_N (Z.max (lgwin s1) (if ((quality s1 =? 0) || (quality s1 =? 1))%Z then 18 else 0)).

Section Calls.
  Variable C : Type.
  Variable c_op : C -> opk.
  Variable c_in : C -> list N.
  Variable c_cap : C -> N.

  Fixpoint g_run_calls (s : st) (cs : list C) (emitted : list N) : outcome (bool * st * list N) :=
    match cs with
    | [] => Done (true, s, emitted)
    | c :: t =>
      match compress_stream s (c_op c) (c_in c) (lenN (c_in c)) (c_cap c) with
      | Done (true, s', x) => if avail_in x =? 0 then g_run_calls s' t (emitted ++ produced x) else Done (false, s', emitted)
      | Done (false, s', _) => Done (false, s', emitted)
      | Panic w => Panic w | Mismatch w => Mismatch w | OutOfFuel => OutOfFuel
      end
    end.

  (* the input the script offers to the compressor: every chunk that is not a metadata payload *)
  Definition g_input (cs : list C) : list N :=
    concat (map c_in (filter (fun c => negb (opk_eqb (c_op c) OpMeta)) cs)).

  (* classes of scripts *)
  Definition no_meta (cs : list C) : bool := forallb (fun c => negb (opk_eqb (c_op c) OpMeta)) cs.
  Definition no_flush (cs : list C) : bool := forallb (fun c => negb (opk_eqb (c_op c) OpFlush)) cs.
  (* metadata payloads are bytes *)
  Definition meta_bytes_ok (cs : list C) : bool :=
    forallb (fun c => if opk_eqb (c_op c) OpMeta then forallb (fun b => b <? 256) (c_in c) else true) cs.

  (* the answers a script consumes, each with the pending partial byte(s) (value, bit count) the
     back end was invoked on: the first answer consumed in a call sees the encoder's last_bytes at
     call entry, later answers of the same call see what the previous answer left (a padding block
     or a metadata header, which reset the pending bits, end the consumption of answers in a call) *)
  Fixpoint g_ann (s : st) (cs : list C) : list (N * N * answer) :=
    match cs with
    | [] => []
    | c :: t =>
      let s1 := ensure_initialized s in
      match compress_stream s (c_op c) (c_in c) (lenN (c_in c)) (c_cap c) with
      | Done (true, s', x) =>
          annotate (last_bytes s1) (last_bytes_bits s1) (firstn (length (oracle s1) - length (oracle s')) (oracle s1))
          ++ (if avail_in x =? 0 then g_ann s' t else [])
      | _ => []
      end
    end.
End Calls.

Definition g_answer_bits (carry_in_bits : N) (a : answer) : bits :=
  skipn (N.to_nat carry_in_bits)
        (flat_map (fun b => N_to_bits 8 b) (a_out a) ++ N_to_bits (N.to_nat (a_lbb a)) (a_lb a)).

(* all the bits an invocation wrote, the carried-in ones included *)
Definition full_bits (a : answer) : bits :=
  bytes_bits (a_out a) ++ N_to_bits (N.to_nat (a_lbb a)) (a_lb a).

Section Faithful.
  Variable dict_word : N -> N -> list N.
  Variable transform_tbl : N -> option (list N * N * list N).

  Definition g_backend_faithful (large : bool) (wbits : N) (input : list N) (prev_lfp : N) (carry_in_bits : N) (a : answer) : Prop :=
    forall (s : dstate) rest,
      rev' (o_rev (d_out s)) = firstn (N.to_nat prev_lfp) input ->
      o_pos (d_out s) = prev_lfp ->
      exists s' j, (j <= length (g_answer_bits carry_in_bits a))%nat /\
        loop_n (N.of_nat j) (meta_block dict_word transform_tbl large (2 ^ wbits - 16) (8 * lenN (a_out a) + 64))
               {| d_out := d_out s; d_ring := d_ring s; d_info := d_info s; d_bits := g_answer_bits carry_in_bits a ++ rest |}
          = (if a_is_last a then Stop (StreamDone s') else Continue s') /\
        d_bits s' = rest /\
        rev' (o_rev (d_out s')) = firstn (N.to_nat (a_lfp a)) input.

  Fixpoint g_all_faithful (large : bool) (wbits : N) (input : list N) (prev_lfp carry : N) (l : list answer) : Prop :=
    match l with
    | [] => True
    | a :: t => g_backend_faithful large wbits input prev_lfp carry a /\ g_all_faithful large wbits input (a_lfp a) (a_lbb a) t
    end.

  (* ---- the hypothesis in the form the proofs use: WEAKER than g_backend_faithful in three ways
          (so every theorem about it is a theorem about g_backend_faithful):
          - the inner budget [B] of the decoder spec is a parameter (any B >= 8*|a_out| + 64 follows
            from g_backend_faithful, the spec's command loop being monotone in its budget);
          - only continuations [rest] that keep the whole stream a whole number of bytes are
            considered (the spec's fill-bit reader looks at the length of what remains);
          - the last meta-block may be followed by up to 7 zero fill bits inside the answer. ---- *)
  Definition faithful_at (B : N) (large : bool) (wbits : N) (input : list N) (prev_lfp : N) (carry_in_bits : N) (a : answer) : Prop :=
    forall (s : dstate) rest,
      Nat.modulo (N.to_nat (a_lbb a) + length rest) 8 = 0%nat ->
      rev' (o_rev (d_out s)) = firstn (N.to_nat prev_lfp) input ->
      o_pos (d_out s) = prev_lfp ->
      exists s' j pad, (j <= length (g_answer_bits carry_in_bits a))%nat /\
        loop_n (N.of_nat j) (meta_block dict_word transform_tbl large (2 ^ wbits - 16) B)
               {| d_out := d_out s; d_ring := d_ring s; d_info := d_info s; d_bits := g_answer_bits carry_in_bits a ++ rest |}
          = (if a_is_last a then Stop (StreamDone s') else Continue s') /\
        d_bits s' = repeat false pad ++ rest /\ (pad < 8)%nat /\ (a_is_last a = false -> pad = 0%nat) /\
        rev' (o_rev (d_out s')) = firstn (N.to_nat (a_lfp a)) input.

  (* faithful along a list of (pending value, pending bit count, answer): each answer decodes to the
     slice from the previous answer's flush position to its own *)
  Fixpoint faithful_ann (B : N) (large : bool) (wbits : N) (input : list N) (prev_lfp : N) (l : list (N * N * answer)) : Prop :=
    match l with
    | [] => True
    | c :: t => faithful_at B large wbits input prev_lfp (snd (fst c)) (snd c)
                /\ faithful_ann B large wbits input (a_lfp (snd c)) t
    end.
End Faithful.

(* ---- what the glue needs from an answer beyond answer_ok / answer_ok2 (none of it is implied by
        them; each item has a refutation of the unrestricted statement in proofs/Roundtrip_witness.v).
        All of it is BOOLEAN and refers only to the answer and to the pending partial byte(s)
        (last_bytes, last_bytes_bits) of the encoder state just before the back end is invoked, so
        that a check can apply it to every recorded invocation. ---- *)
Fixpoint beqb (a b : bits) : bool :=
  match a, b with
  | [], [] => true
  | x :: a', y :: b' => Bool.eqb x y && beqb a' b'
  | _, _ => false
  end.

(* the back end starts from the pending partial byte(s): the first [clbb] bits it wrote are the
   bits that were pending *)
Definition carry_kept (clb clbb : N) (a : answer) : Prop :=
  firstn (N.to_nat clbb) (full_bits a) = N_to_bits (N.to_nat clbb) clb.
Definition carry_keptb (clb clbb : N) (a : answer) : bool :=
  beqb (firstn (N.to_nat clbb) (full_bits a)) (N_to_bits (N.to_nat clbb) clb).
(* the partial last byte(s) have no bits above their length - except that after a byte-aligned meta-block
   (a_lbb = 0) the real encoder leaves stale bits in the SECOND byte of last_bytes_ (the low byte is 0): the
   next writer ignores it (the back end restarts from byte 0, a padding seal is only written for a_lbb <> 0,
   the metadata header writer masks the pending value to its first byte).  The last answer ends on a byte
   boundary. *)
Definition tail_clean (a : answer) : bool :=
  (((a_lbb a =? 0) && (a_lb a mod 256 =? 0)) || (a_lb a <? 2 ^ a_lbb a))
  && (if a_is_last a then a_lbb a =? 0 else true).
(* output cursors are 32-bit (answer_ok2 of NoPanic_proofs, as a boolean) *)
Definition size_ok (a : answer) : bool := lenN (a_out a) + 3 <? 2 ^ 32.

(* NEW relative to answer_ok: size_ok (= answer_ok2), tail_clean, carry_keptb *)
Definition answer_ok3s (a : answer) : bool := answer_ok a && size_ok a && tail_clean a.   (* state-independent part *)
Definition answer_ok3 (clb clbb : N) (a : answer) : bool := answer_ok3s a && carry_keptb clb clbb a.
Definition kept_ann (l : list (N * N * answer)) : bool :=
  forallb (fun c => carry_keptb (fst (fst c)) (snd (fst c)) (snd c)) l.
(* ... as a predicate of the encoder state before the invocation *)
Definition answer_ok3_st (s : st) (a : answer) : bool := answer_ok3 (last_bytes s) (last_bytes_bits s) a.
(* the chain of pending bits when nothing but answers writes to the stream (no FLUSH, no metadata):
   each answer is invoked on what the previous one left *)
Fixpoint kept_chain (lb lbb : N) (l : list answer) : bool :=
  match l with [] => true | a :: t => carry_keptb lb lbb a && kept_chain (a_lb a) (a_lbb a) t end.

(* ---- the one-pass/two-pass path (quality 0/1): the encoder's position counters stay 0 there and the
        recorded a_lfp is meaningless; the slice an invocation was given is determined by a_block (the
        glue checks a_block = min(2^lgwin, bytes offered) and consumes exactly that much input).  [repos]
        gives each answer the flush position that is the running sum of the blocks - g_answer_bits does
        not depend on a_lfp, so faithful_at of a repositioned answer is a statement about the answer's
        bits and the input slice [sum of earlier blocks, + a_block). ---- *)
Definition with_lfp (a : answer) (p : N) : answer :=
  {| a_fast := a_fast a; a_is_last := a_is_last a; a_force_flush := a_force_flush a; a_result := a_result a;
     a_inplace := a_inplace a; a_block := a_block a; a_out := a_out a; a_lb := a_lb a; a_lbb := a_lbb a;
     a_ipos := a_ipos a; a_lfp := p; a_lpp := a_lpp a; a_hint := a_hint a; a_no := a_no a |}.
Fixpoint repos (p : N) (l : list (N * N * answer)) : list (N * N * answer) :=
  match l with
  | [] => []
  | c :: t => let q := p + a_block (snd c) in (fst c, with_lfp (snd c) q) :: repos q t
  end.
(* what a check applies to a fast answer and the encoder state before the invocation: nothing beyond answer_ok3 *)
Definition fast_answer_ok3 (s : st) (a : answer) : bool := a_fast a && answer_ok3_st s a.
