(* C01 composition: the premises of roundtrip_main_path are satisfiable on a non-trivial script.
   Default parameters (quality 11, lgwin 22: 4 header bits), input "hi!", five calls with small output
   capacities, three back-end answers:
     FLUSH []      cap 1    answer 1: a flush with nothing to emit; the 4 header bits stay pending, so the
                            glue writes a padding block behind them (2 bytes, 1 delivered)
     PROCESS []    cap 100  (delivers the second byte; the flush completes)
     FLUSH "hi"    cap 100  answer 2: one uncompressed meta-block, invoked on NO pending bits
     FINISH "!"    cap 2    answer 3 (last): an uncompressed meta-block and the empty last meta-block
     FINISH []     cap 100  (delivers the rest)
   The answers are "stored" answers, whose faithfulness is provable from the header lemmas. *)
From Coq Require Import NArith ZArith List Bool Lia PeanoNat.
From V Require Import lib.Words lib.PMap spec.RfcTables spec.PrefixCode spec.Decoder model.Stream model.MetaBlockHeader
  proofs.Bitops proofs.MbHeader_proofs proofs.Stored_proofs proofs.Stream_proofs proofs.Slicing_proofs
  proofs.Roundtrip_defs proofs.Roundtrip_bits proofs.Roundtrip_dec proofs.Roundtrip_segs proofs.Roundtrip_chain proofs.Roundtrip_main.
Import ListNotations.
Open Scope N_scope.

Section StoredAnswers.
  Variable dict_word : N -> N -> list N.
  Variable transform_tbl : N -> option (list N * N * list N).

  (* one uncompressed meta-block: header, fill bits, raw bytes *)
  Lemma stored_step large window B c h p rest (s : dstate) : chunk_ok c ->
    store_uncompressed_meta_block_header (N.of_nat (length c)) [] = Some h -> (p < 8)%nat ->
    Nat.modulo (length rest) 8 = 0%nat ->
    meta_block dict_word transform_tbl large window B
      {| d_out := d_out s; d_ring := d_ring s; d_info := d_info s; d_bits := h ++ repeat false p ++ bytes_bits c ++ rest |}
    = Continue {| d_out := emit_list (d_out s) c; d_ring := d_ring s;
                  d_info := bump (d_info s) K_uncompressed; d_bits := rest |}.
  Proof.
    intros (L1 & L2 & Lb) Hh Hp Hr.
    destruct (uncompressed_header_roundtrip (N.of_nat (length c)) [] (repeat false p ++ bytes_bits c ++ rest) L1 L2) as (h' & Wh & Rh).
    rewrite Hh in Wh. cbn [app] in Wh. inversion Wh; subst h'.
    unfold meta_block. cbn [d_bits d_out d_ring d_info]. rewrite Rh. unfold bind.
    rewrite align_zeros; [|exact Hp|rewrite app_length, bytes_bits_length, mod8_add_mul; exact Hr].
    rewrite rbytes_spec by exact Lb. reflexivity.
  Qed.

  Lemma rev'_emit_list o c : rev' (o_rev (emit_list o c)) = rev' (o_rev o) ++ c.
  Proof. rewrite emit_list_rev. unfold rev'. rewrite <- !rev_alt, rev_app_distr, rev_involutive. reflexivity. Qed.
End StoredAnswers.

Definition ex_answer (last flush : bool) (out : list N) (lb lbb ipos hint : N) (no : nextout) : answer :=
  {| a_fast := false; a_is_last := last; a_force_flush := flush; a_result := true; a_inplace := false;
     a_block := 0; a_out := out; a_lb := lb; a_lbb := lbb; a_ipos := ipos; a_lfp := ipos; a_lpp := ipos;
     a_hint := hint; a_no := no |}.

Definition ex_a1 : answer := ex_answer false true [] 11 4 0 0 NoNone.
Definition ex_a2 : answer := ex_answer false true [8; 0; 8; 104; 105] 0 0 2 2 (NoDyn 0).
Definition ex_a3 : answer := ex_answer true false [0; 0; 8; 33; 3] 0 0 3 2 (NoDyn 0).
Definition ex_answers : list answer := [ex_a1; ex_a2; ex_a3].
Definition ex_input : list N := [104; 105; 33].
Definition ex_emitted : list N := [107; 0; 8; 0; 8; 104; 105; 0; 0; 8; 33; 3].

Section Example.
  Variable dict_word : N -> N -> list N.
  Variable transform_tbl : N -> option (list N * N * list N).
  Variable C : Type.
  Variable c_op : C -> opk.
  Variable c_in : C -> list N.
  Variable c_cap : C -> N.
  Variable mk : opk -> list N -> N -> C.
  Hypothesis mk_op : forall o i c, c_op (mk o i c) = o.
  Hypothesis mk_in : forall o i c, c_in (mk o i c) = i.
  Hypothesis mk_cap : forall o i c, c_cap (mk o i c) = c.

  Definition ex_script : list C :=
    [mk OpFlush [] 1; mk OpProcess [] 100; mk OpFlush [104; 105] 100; mk OpFinish [33] 2; mk OpFinish [] 100].

  (* a script of constructor applications runs like the same script over plain triples *)
  Definition triple_run := g_run_calls (opk * list N * N) (fun c => fst (fst c)) (fun c => snd (fst c)) snd.
  Definition triple_ann := g_ann (opk * list N * N) (fun c => fst (fst c)) (fun c => snd (fst c)) snd.
  Definition of_triple (c : opk * list N * N) : C := mk (fst (fst c)) (snd (fst c)) (snd c).

  Lemma run_of_triples : forall cs s em, g_run_calls C c_op c_in c_cap s (map of_triple cs) em = triple_run s cs em.
  Proof.
    induction cs as [|c t IH]; intros s em; [reflexivity|].
    cbn [map g_run_calls triple_run]. unfold of_triple at 1 2 3 4. rewrite mk_op, mk_in, mk_cap.
    destruct (compress_stream s (fst (fst c)) (snd (fst c)) (lenN (snd (fst c))) (snd c)) as [[[[|] s1] x]| | |]; try reflexivity.
    destruct (avail_in x =? 0); [apply IH|reflexivity].
  Qed.

  Lemma ann_of_triples : forall cs s, g_ann C c_op c_in c_cap s (map of_triple cs) = triple_ann s cs.
  Proof.
    induction cs as [|c t IH]; intros s; [reflexivity|].
    cbn [map g_ann triple_ann]. unfold of_triple at 1 2 3 4. rewrite mk_op, mk_in, mk_cap.
    destruct (compress_stream s (fst (fst c)) (snd (fst c)) (lenN (snd (fst c))) (snd c)) as [[[[|] s1] x]| | |]; try reflexivity.
    destruct (avail_in x =? 0); [rewrite IH; reflexivity|reflexivity].
  Qed.

  Lemma input_of_triples : forall cs, g_input C c_op c_in (map of_triple cs)
    = g_input (opk * list N * N) (fun c => fst (fst c)) (fun c => snd (fst c)) cs.
  Proof.
    induction cs as [|c t IH]; [reflexivity|]. unfold g_input in *. cbn [map filter]. unfold of_triple at 1. rewrite mk_op.
    destruct (negb (opk_eqb (fst (fst c)) OpMeta)); [|exact IH]. cbn [map concat]. unfold of_triple at 1. rewrite mk_in. f_equal. exact IH.
  Qed.

  Definition ex_triples : list (opk * list N * N) :=
    [(OpFlush, [], 1); (OpProcess, [], 100); (OpFlush, [104; 105], 100); (OpFinish, [33], 2); (OpFinish, [], 100)].
  Lemma ex_script_triples : ex_script = map of_triple ex_triples.
  Proof. reflexivity. Qed.

  Definition ex_s0 : st := state0 [] ex_answers.

  Lemma ex_runs : exists s', g_run_calls C c_op c_in c_cap ex_s0 ex_script [] = Done (true, s', ex_emitted) /\ is_finished s' = true.
  Proof. rewrite ex_script_triples, run_of_triples. eexists. split; vm_compute; reflexivity. Qed.

  Lemma ex_ann : g_ann C c_op c_in c_cap ex_s0 ex_script = [(11, 4, ex_a1); (0, 0, ex_a2); (0, 0, ex_a3)].
  Proof. rewrite ex_script_triples, ann_of_triples. vm_compute. reflexivity. Qed.

  Lemma ex_input_eq : g_input C c_op c_in ex_script = ex_input.
  Proof. rewrite ex_script_triples, input_of_triples. reflexivity. Qed.

  (* the three answers are faithful, for every budget *)
  Lemma ex_faithful B : faithful_ann dict_word transform_tbl B false 22 ex_input 0 [(11, 4, ex_a1); (0, 0, ex_a2); (0, 0, ex_a3)].
  Proof.
    cbn [faithful_ann fst snd]. split; [|split; [|split; [|exact I]]].
    - (* answer 1 contributes no bits *)
      intros s rest _ Ho Hp. eexists. exists 0%nat, 0%nat. change (g_answer_bits 4 ex_a1) with (@nil bool).
      split; [cbn; lia|]. split; [cbn [N.of_nat loop_n app a_is_last ex_a1 ex_answer]; reflexivity|].
      split; [reflexivity|]. split; [lia|]. split; [reflexivity|exact Ho].
    - (* answer 2: one uncompressed meta-block holding "hi" *)
      intros s rest Hal Ho Hp. change (N.to_nat (a_lbb ex_a2)) with 0%nat in Hal. cbn [Nat.add] in Hal.
      eexists. exists 1%nat, 0%nat. split; [vm_compute; lia|].
      split; [|split; [|split; [lia|split; [reflexivity|]]]].
      + cbn [N.of_nat Pos.of_succ_nat loop_n loop_pos a_is_last ex_a2 ex_answer].
        change (g_answer_bits 0 ex_a2) with
          ([false; false; false; true; false; false; false; false; false; false; false; false; false; false; false; false; false; false; false; true]
           ++ repeat false 4 ++ bytes_bits [104; 105]).
        rewrite <- !app_assoc.
        apply (stored_step dict_word transform_tbl false _ B [104; 105] _ 4 rest s).
        * split; [cbn; lia|]. split; [cbn; lia|]. repeat constructor.
        * reflexivity.
        * lia.
        * exact Hal.
      + reflexivity.
      + cbn [d_out]. rewrite rev'_emit_list, Ho. reflexivity.
    - (* answer 3: an uncompressed meta-block holding "!", then the empty last meta-block and 6 fill bits *)
      intros s rest Hal Ho Hp. change (N.to_nat (a_lbb ex_a3)) with 0%nat in Hal. cbn [Nat.add] in Hal.
      eexists. exists 2%nat, 6%nat. split; [vm_compute; lia|].
      split; [|split; [|split; [lia|split; [intros H; discriminate H|]]]].
      + rewrite loop_n_run. change (N.to_nat (N.of_nat 2)) with (1 + 1)%nat. rewrite run_n_add. cbn [run_n].
        cbn [a_is_last ex_a3 ex_answer].
        change (g_answer_bits 0 ex_a3) with
          ([false; false; false; false; false; false; false; false; false; false; false; false; false; false; false; false; false; false; false; true]
           ++ repeat false 4 ++ bytes_bits [33] ++ ([true; true] ++ repeat false 6)).
        rewrite <- !app_assoc.
        rewrite (stored_step dict_word transform_tbl false _ B [33] _ 4 ([true; true] ++ repeat false 6 ++ rest) s).
        * unfold meta_block at 1. cbn [d_bits].
          destruct (empty_last_roundtrip [] (repeat false 6 ++ rest)) as (_ & _ & _ & _ & R). rewrite R. reflexivity.
        * split; [cbn; lia|]. split; [cbn; lia|]. repeat constructor.
        * reflexivity.
        * lia.
        * rewrite !app_length, repeat_length. cbn [length].
          replace (2 + (6 + length rest))%nat with (8 * 1 + length rest)%nat by lia. rewrite mod8_add_mul. exact Hal.
      + reflexivity.
      + cbn [d_out]. rewrite rev'_emit_list, Ho. reflexivity.
  Qed.

  (* every premise of roundtrip_main_path holds for the example, hence its conclusion *)
  Example roundtrip_main_path_example :
    let s0 := state0 [] ex_answers in
    let s1 := ensure_initialized s0 in
    forallb answer_ok3s ex_answers = true /\ no_meta C c_op ex_script = true /\ fastcond s1 = false
    /\ kept_ann (g_ann C c_op c_in c_cap s0 ex_script) = true
    /\ large_window s1 = false /\ stream_wbits s1 = 22 /\ g_input C c_op c_in ex_script = ex_input
    /\ (forall B, faithful_ann dict_word transform_tbl B (large_window s1) (stream_wbits s1) ex_input 0 (g_ann C c_op c_in c_cap s0 ex_script))
    /\ (exists s', g_run_calls C c_op c_in c_cap s0 ex_script [] = Done (true, s', ex_emitted) /\ is_finished s' = true)
    /\ exists info, decode dict_word transform_tbl true [] ex_emitted = Ok (ex_input, info).
  Proof.
    cbv zeta. fold ex_s0. rewrite ex_ann.
    split; [vm_compute; reflexivity|]. split; [unfold no_meta, ex_script; cbn [forallb]; rewrite !mk_op; reflexivity|].
    split; [vm_compute; reflexivity|]. split; [vm_compute; reflexivity|]. split; [reflexivity|]. split; [vm_compute; reflexivity|].
    split; [exact ex_input_eq|]. split; [intros B; exact (ex_faithful B)|]. split; [exact ex_runs|].
    destruct ex_runs as (s' & Hrun & Hfin).
    assert (Hnm : no_meta C c_op ex_script = true) by (unfold no_meta, ex_script; cbn [forallb]; rewrite !mk_op; reflexivity).
    pose proof (roundtrip_main_path_decode dict_word transform_tbl C c_op c_in c_cap [] ex_script ex_answers s' ex_emitted) as T.
    cbv zeta in T. fold ex_s0 in T. rewrite ex_ann, ex_input_eq in T.
    apply T.
    - vm_compute; reflexivity.
    - exact Hnm.
    - vm_compute; reflexivity.
    - vm_compute; reflexivity.
    - vm_compute; reflexivity.
    - exact (ex_faithful _).
    - exact Hrun.
    - exact Hfin.
  Qed.
End Example.
