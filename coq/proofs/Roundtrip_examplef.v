(* C01 composition: the premises of roundtrip_fast_path are satisfiable.  Quality 0 (4 header bits, lgwin 22),
   input "hi!":
     FLUSH []      cap 1     no answer: a flush without input; the glue pads the 4 pending header bits (6B 00)
     PROCESS []    cap 100   (delivers the second byte)
     FLUSH "hi"    cap 100   answer 1, staged in the encoder's storage (cap < 2*2+503): one uncompressed block
     FINISH "!"    cap 1000  answer 2 (last), written in place: an uncompressed block + the empty last block
   The recorded a_lfp of both answers is 0 (as on real traces); the premise speaks about the repositioned
   answers (flush positions 2 and 3 = running sums of a_block). *)
From Coq Require Import NArith ZArith List Bool Lia PeanoNat.
From V Require Import lib.Words lib.PMap spec.RfcTables spec.PrefixCode spec.Decoder model.Stream model.MetaBlockHeader
  proofs.Bitops proofs.MbHeader_proofs proofs.Stored_proofs proofs.Stream_proofs proofs.Slicing_proofs
  proofs.Roundtrip_defs proofs.Roundtrip_bits proofs.Roundtrip_dec proofs.Roundtrip_segs proofs.Roundtrip_chain proofs.Roundtrip_main
  proofs.Roundtrip_example proofs.Roundtrip_fastrun.
Import ListNotations.
Open Scope N_scope.

Definition fx_answer (last flush inplace : bool) (block : N) (out : list N) : answer :=
  {| a_fast := true; a_is_last := last; a_force_flush := flush; a_result := true; a_inplace := inplace;
     a_block := block; a_out := out; a_lb := 0; a_lbb := 0; a_ipos := 0; a_lfp := 0; a_lpp := 0;
     a_hint := 0; a_no := NoNone |}.
Definition fx_a1 : answer := fx_answer false true false 2 [8; 0; 8; 104; 105].
Definition fx_a2 : answer := fx_answer true false true 1 [0; 0; 8; 33; 3].
Definition fx_answers : list answer := [fx_a1; fx_a2].
Definition fx_params : list (N * N) := [(1, 0)].

Section ExampleF.
  Variable dict_word : N -> N -> list N.
  Variable transform_tbl : N -> option (list N * N * list N).
  Variable C : Type.
  Variable c_op : C -> opk.
  Variable c_in : C -> list N.
  Variable c_cap : C -> N.
  Variable mk : opk -> list N -> N -> C.
  Hypothesis mk_op : forall o i c, c_op (mk o i c) = o.
  Hypothesis mk_in : forall o i c, c_in (mk o i c) = i.
  Hypothesis mk_cap : forall o i c, c_cap (mk o i c) = c.

  Definition fx_triples : list (opk * list N * N) :=
    [(OpFlush, [], 1); (OpProcess, [], 100); (OpFlush, [104; 105], 100); (OpFinish, [33], 1000)].
  Definition fx_script : list C := map (of_triple C mk) fx_triples.
  Definition fx_s0 : st := state0 fx_params fx_answers.

  Lemma fx_runs : exists s', g_run_calls C c_op c_in c_cap fx_s0 fx_script [] = Done (true, s', ex_emitted) /\ is_finished s' = true.
  Proof. unfold fx_script. rewrite (run_of_triples C c_op c_in c_cap mk mk_op mk_in mk_cap). eexists. split; vm_compute; reflexivity. Qed.

  Lemma fx_ann : g_ann C c_op c_in c_cap fx_s0 fx_script = [(0, 0, fx_a1); (0, 0, fx_a2)].
  Proof. unfold fx_script. rewrite (ann_of_triples C c_op c_in c_cap mk mk_op mk_in mk_cap). vm_compute. reflexivity. Qed.

  Lemma fx_input_eq : g_input C c_op c_in fx_script = ex_input.
  Proof. unfold fx_script. rewrite (input_of_triples C c_op c_in mk mk_op mk_in). reflexivity. Qed.

  Lemma fx_meta_ok : meta_bytes_ok C c_op c_in fx_script = true.
  Proof. unfold meta_bytes_ok, fx_script, fx_triples, of_triple. cbn [map forallb fst snd]. rewrite !mk_op. reflexivity. Qed.

  Lemma fx_faithful B : faithful_ann dict_word transform_tbl B false 22 ex_input 0 (repos 0 [(0, 0, fx_a1); (0, 0, fx_a2)]).
  Proof.
    cbn [repos faithful_ann fst snd]. split; [|split; [|exact I]].
    - intros s rest Hal Ho Hp. change (N.to_nat (a_lbb (with_lfp fx_a1 (0 + a_block fx_a1)))) with 0%nat in Hal. cbn [Nat.add] in Hal.
      eexists. exists 1%nat, 0%nat. split; [vm_compute; lia|].
      split; [|split; [|split; [lia|split; [reflexivity|]]]].
      + cbn [N.of_nat Pos.of_succ_nat loop_n loop_pos a_is_last with_lfp fx_a1 fx_answer].
        change (g_answer_bits 0 (with_lfp fx_a1 (0 + a_block fx_a1))) with
          ([false; false; false; true; false; false; false; false; false; false; false; false; false; false; false; false; false; false; false; true]
           ++ repeat false 4 ++ bytes_bits [104; 105]).
        rewrite <- !app_assoc.
        apply (stored_step dict_word transform_tbl false _ B [104; 105] _ 4 rest s).
        * split; [cbn; lia|]. split; [cbn; lia|]. repeat constructor.
        * reflexivity.
        * lia.
        * exact Hal.
      + reflexivity.
      + cbn [d_out]. rewrite rev'_emit_list, Ho. reflexivity.
    - intros s rest Hal Ho Hp. change (N.to_nat (a_lbb (with_lfp fx_a2 (0 + a_block fx_a1 + a_block fx_a2)))) with 0%nat in Hal. cbn [Nat.add] in Hal.
      eexists. exists 2%nat, 6%nat. split; [vm_compute; lia|].
      split; [|split; [|split; [lia|split; [intros H; discriminate H|]]]].
      + rewrite loop_n_run. change (N.to_nat (N.of_nat 2)) with (1 + 1)%nat. rewrite run_n_add. cbn [run_n].
        cbn [a_is_last with_lfp fx_a2 fx_answer].
        change (g_answer_bits 0 (with_lfp fx_a2 (0 + a_block fx_a1 + a_block fx_a2))) with
          ([false; false; false; false; false; false; false; false; false; false; false; false; false; false; false; false; false; false; false; true]
           ++ repeat false 4 ++ bytes_bits [33] ++ ([true; true] ++ repeat false 6)).
        rewrite <- !app_assoc.
        rewrite (stored_step dict_word transform_tbl false _ B [33] _ 4 ([true; true] ++ repeat false 6 ++ rest) s).
        * unfold meta_block at 1. cbn [d_bits].
          destruct (empty_last_roundtrip [] (repeat false 6 ++ rest)) as (_ & _ & _ & _ & R). rewrite R. reflexivity.
        * split; [cbn; lia|]. split; [cbn; lia|]. repeat constructor.
        * reflexivity.
        * lia.
        * rewrite !app_length, repeat_length. cbn [length].
          replace (2 + (6 + length rest))%nat with (8 * 1 + length rest)%nat by lia. rewrite mod8_add_mul. exact Hal.
      + reflexivity.
      + cbn [d_out]. rewrite rev'_emit_list, Ho. reflexivity.
  Qed.

  Example roundtrip_fast_path_example :
    let s0 := fx_s0 in
    let s1 := ensure_initialized s0 in
    forallb answer_ok3s fx_answers = true /\ meta_bytes_ok C c_op c_in fx_script = true /\ fastcond s1 = true
    /\ kept_ann (g_ann C c_op c_in c_cap s0 fx_script) = true
    /\ large_window s1 = false /\ stream_wbits s1 = 22 /\ g_input C c_op c_in fx_script = ex_input
    /\ (forall B, faithful_ann dict_word transform_tbl B (large_window s1) (stream_wbits s1) ex_input 0 (repos 0 (g_ann C c_op c_in c_cap s0 fx_script)))
    /\ (exists s', g_run_calls C c_op c_in c_cap s0 fx_script [] = Done (true, s', ex_emitted) /\ is_finished s' = true)
    /\ exists info, decode dict_word transform_tbl true [] ex_emitted = Ok (ex_input, info).
  Proof.
    cbv zeta. rewrite fx_ann.
    split; [vm_compute; reflexivity|]. split; [exact fx_meta_ok|].
    split; [vm_compute; reflexivity|]. split; [vm_compute; reflexivity|]. split; [reflexivity|]. split; [vm_compute; reflexivity|].
    split; [exact fx_input_eq|]. split; [intros B; exact (fx_faithful B)|]. split; [exact fx_runs|].
    destruct fx_runs as (s' & Hrun & Hfin).
    pose proof (roundtrip_fast_path_decode dict_word transform_tbl C c_op c_in c_cap fx_params fx_script fx_answers s' ex_emitted) as T.
    cbv zeta in T. fold fx_s0 in T. rewrite fx_ann, fx_input_eq in T.
    apply T.
    - vm_compute; reflexivity.
    - exact fx_meta_ok.
    - vm_compute; reflexivity.
    - vm_compute; reflexivity.
    - exact (fx_faithful _).
    - exact Hrun.
    - exact Hfin.
  Qed.
End ExampleF.
