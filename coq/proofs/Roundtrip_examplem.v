(* C01 composition: the premises of roundtrip_main_path_meta are satisfiable on a script with a metadata call.
   Default parameters, empty input:  EMIT_METADATA [1;2;3] cap 100;  FINISH [] cap 100.
   The metadata header absorbs the 4 pending stream-header bits (6B 09 00), the payload follows (01 02 03), and
   the only answer - the empty last meta-block, invoked on NO pending bits - ends the stream (03). *)
From Coq Require Import NArith ZArith List Bool Lia PeanoNat.
From V Require Import lib.Words lib.PMap spec.RfcTables spec.PrefixCode spec.Decoder model.Stream model.MetaBlockHeader
  proofs.Bitops proofs.MbHeader_proofs proofs.Stored_proofs proofs.Stream_proofs proofs.Slicing_proofs
  proofs.Roundtrip_defs proofs.Roundtrip_bits proofs.Roundtrip_dec proofs.Roundtrip_segs proofs.Roundtrip_chain proofs.Roundtrip_main
  proofs.Roundtrip_example proofs.Roundtrip_mainm.
Import ListNotations.
Open Scope N_scope.

Definition exm_a : answer := ex_answer true false [3] 0 0 0 0 (NoDyn 0).
Definition exm_emitted : list N := [107; 9; 0; 1; 2; 3; 3].

Section ExampleM.
  Variable dict_word : N -> N -> list N.
  Variable transform_tbl : N -> option (list N * N * list N).
  Variable C : Type.
  Variable c_op : C -> opk.
  Variable c_in : C -> list N.
  Variable c_cap : C -> N.
  Variable mk : opk -> list N -> N -> C.
  Hypothesis mk_op : forall o i c, c_op (mk o i c) = o.
  Hypothesis mk_in : forall o i c, c_in (mk o i c) = i.
  Hypothesis mk_cap : forall o i c, c_cap (mk o i c) = c.

  Definition exm_triples : list (opk * list N * N) := [(OpMeta, [1; 2; 3], 100); (OpFinish, [], 100)].
  Definition exm_script : list C := map (of_triple C mk) exm_triples.
  Definition exm_s0 : st := state0 [] [exm_a].

  Lemma exm_runs : exists s', g_run_calls C c_op c_in c_cap exm_s0 exm_script [] = Done (true, s', exm_emitted) /\ is_finished s' = true.
  Proof. unfold exm_script. rewrite (run_of_triples C c_op c_in c_cap mk mk_op mk_in mk_cap). eexists. split; vm_compute; reflexivity. Qed.

  Lemma exm_ann : g_ann C c_op c_in c_cap exm_s0 exm_script = [(0, 0, exm_a)].
  Proof. unfold exm_script. rewrite (ann_of_triples C c_op c_in c_cap mk mk_op mk_in mk_cap). vm_compute. reflexivity. Qed.

  Lemma exm_input_eq : g_input C c_op c_in exm_script = [].
  Proof. unfold exm_script. rewrite (input_of_triples C c_op c_in mk mk_op mk_in). reflexivity. Qed.

  Lemma exm_meta_ok : meta_bytes_ok C c_op c_in exm_script = true.
  Proof. unfold meta_bytes_ok, exm_script, exm_triples, of_triple. cbn [map forallb fst snd]. rewrite !mk_op, !mk_in. reflexivity. Qed.

  Lemma exm_faithful B : faithful_ann dict_word transform_tbl B false 22 [] 0 [(0, 0, exm_a)].
  Proof.
    cbn [faithful_ann fst snd]. split; [|exact I].
    intros s rest Hal Ho Hp. eexists. exists 1%nat, 6%nat. split; [vm_compute; lia|].
    split; [|split; [|split; [lia|split; [intros H; discriminate H|]]]].
    - cbn [N.of_nat Pos.of_succ_nat loop_n loop_pos a_is_last exm_a ex_answer].
      change (g_answer_bits 0 exm_a) with ([true; true] ++ repeat false 6). rewrite <- app_assoc.
      unfold meta_block. cbn [d_bits].
      destruct (empty_last_roundtrip [] (repeat false 6 ++ rest)) as (_ & _ & _ & _ & R). rewrite R. reflexivity.
    - reflexivity.
    - cbn [d_out]. exact Ho.
  Qed.

  Example roundtrip_main_path_meta_example :
    let s0 := exm_s0 in
    let s1 := ensure_initialized s0 in
    forallb answer_ok3s [exm_a] = true /\ meta_bytes_ok C c_op c_in exm_script = true /\ fastcond s1 = false
    /\ kept_ann (g_ann C c_op c_in c_cap s0 exm_script) = true
    /\ large_window s1 = false /\ stream_wbits s1 = 22 /\ g_input C c_op c_in exm_script = []
    /\ (forall B, faithful_ann dict_word transform_tbl B (large_window s1) (stream_wbits s1) [] 0 (g_ann C c_op c_in c_cap s0 exm_script))
    /\ (exists s', g_run_calls C c_op c_in c_cap s0 exm_script [] = Done (true, s', exm_emitted) /\ is_finished s' = true)
    /\ exists info, decode dict_word transform_tbl true [] exm_emitted = Ok ([], info).
  Proof.
    cbv zeta. rewrite exm_ann.
    split; [vm_compute; reflexivity|]. split; [exact exm_meta_ok|].
    split; [vm_compute; reflexivity|]. split; [vm_compute; reflexivity|]. split; [reflexivity|]. split; [vm_compute; reflexivity|].
    split; [exact exm_input_eq|]. split; [intros B; exact (exm_faithful B)|]. split; [exact exm_runs|].
    destruct exm_runs as (s' & Hrun & Hfin).
    pose proof (roundtrip_main_path_meta_decode dict_word transform_tbl C c_op c_in c_cap [] exm_script [exm_a] s' exm_emitted) as T.
    cbv zeta in T. fold exm_s0 in T. rewrite exm_ann, exm_input_eq in T.
    apply T.
    - vm_compute; reflexivity.
    - exact exm_meta_ok.
    - vm_compute; reflexivity.
    - vm_compute; reflexivity.
    - vm_compute; reflexivity.
    - exact (exm_faithful _).
    - exact Hrun.
    - exact Hfin.
  Qed.
End ExampleM.
