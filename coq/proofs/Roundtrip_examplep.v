(* C04 through the composition: the premises of prefix_all_paths are satisfiable.  Default parameters, input "hi!":
     FLUSH "hi" cap 3; FLUSH [] cap 100 (drains); EMIT_METADATA [1;2;3] cap 100; FLUSH "!" cap 100
   two completed flushes with a metadata block between them; two answers (a stored block after the 4 pending
   header bits; a stored block on no pending bits). *)
From Coq Require Import NArith ZArith List Bool Lia PeanoNat.
From V Require Import lib.Words lib.PMap spec.RfcTables spec.PrefixCode spec.Decoder model.Stream model.MetaBlockHeader
  proofs.Bitops proofs.MbHeader_proofs proofs.Stored_proofs proofs.Stream_proofs proofs.Slicing_proofs
  proofs.Roundtrip_defs proofs.Roundtrip_bits proofs.Roundtrip_dec proofs.Roundtrip_segs proofs.Roundtrip_chain proofs.Roundtrip_main
  proofs.Roundtrip_example proofs.Roundtrip_prefix.
Import ListNotations.
Open Scope N_scope.

Definition px_a1 : answer := ex_answer false true [139; 0; 128; 104; 105] 0 0 2 2 (NoDyn 0).
Definition px_a2 : answer := ex_answer false true [0; 0; 8; 33] 0 0 3 2 (NoDyn 0).
Definition px_answers : list answer := [px_a1; px_a2].
Definition px_script : list (opk * list N * N) :=
  [(OpFlush, [104; 105], 3); (OpFlush, [], 100); (OpMeta, [1; 2; 3], 100); (OpFlush, [33], 100)].
Definition px_emitted : list N := [139; 0; 128; 104; 105; 150; 0; 1; 2; 3; 0; 0; 8; 33].
Notation t_op := (fun c : opk * list N * N => fst (fst c)).
Notation t_in := (fun c : opk * list N * N => snd (fst c)).
Notation t_cap := (fun c : opk * list N * N => snd c).

Section ExampleP.
  Variable dict_word : N -> N -> list N.
  Variable transform_tbl : N -> option (list N * N * list N).

  Lemma px_faithful B : faithful_ann dict_word transform_tbl B false 22 ex_input 0 [(11, 4, px_a1); (0, 0, px_a2)].
  Proof.
    cbn [faithful_ann fst snd]. split; [|split; [|exact I]].
    - intros s rest Hal Ho Hp. change (N.to_nat (a_lbb px_a1)) with 0%nat in Hal. cbn [Nat.add] in Hal.
      eexists. exists 1%nat, 0%nat. split; [vm_compute; lia|].
      split; [|split; [|split; [lia|split; [reflexivity|]]]].
      + cbn [N.of_nat Pos.of_succ_nat loop_n loop_pos a_is_last px_a1 ex_answer].
        change (g_answer_bits 4 px_a1) with
          ([false; false; false; true; false; false; false; false; false; false; false; false; false; false; false; false; false; false; false; true]
           ++ repeat false 0 ++ bytes_bits [104; 105]).
        rewrite <- !app_assoc.
        apply (stored_step dict_word transform_tbl false _ B [104; 105] _ 0 rest s).
        * split; [cbn; lia|]. split; [cbn; lia|]. repeat constructor.
        * reflexivity.
        * lia.
        * exact Hal.
      + reflexivity.
      + cbn [d_out]. rewrite rev'_emit_list, Ho. reflexivity.
    - intros s rest Hal Ho Hp. change (N.to_nat (a_lbb px_a2)) with 0%nat in Hal. cbn [Nat.add] in Hal.
      eexists. exists 1%nat, 0%nat. split; [vm_compute; lia|].
      split; [|split; [|split; [lia|split; [reflexivity|]]]].
      + cbn [N.of_nat Pos.of_succ_nat loop_n loop_pos a_is_last px_a2 ex_answer].
        change (g_answer_bits 0 px_a2) with
          ([false; false; false; false; false; false; false; false; false; false; false; false; false; false; false; false; false; false; false; true]
           ++ repeat false 4 ++ bytes_bits [33]).
        rewrite <- !app_assoc.
        apply (stored_step dict_word transform_tbl false _ B [33] _ 4 rest s).
        * split; [cbn; lia|]. split; [cbn; lia|]. repeat constructor.
        * reflexivity.
        * lia.
        * exact Hal.
      + reflexivity.
      + cbn [d_out]. rewrite rev'_emit_list, Ho. reflexivity.
  Qed.

  Lemma px_runs : exists s', g_run_calls _ t_op t_in t_cap (state0 [] px_answers) px_script [] = Done (true, s', px_emitted) /\ at_rest s' = true.
  Proof. eexists. split; vm_compute; reflexivity. Qed.

  Lemma px_ann : g_ann _ t_op t_in t_cap (state0 [] px_answers) px_script = [(11, 4, px_a1); (0, 0, px_a2)].
  Proof. vm_compute. reflexivity. Qed.

  Example prefix_example :
    let s0 := state0 [] px_answers in
    let s1 := ensure_initialized s0 in
    forallb answer_ok3s px_answers = true /\ meta_bytes_ok _ t_op t_in px_script = true /\ fastcond s1 = false
    /\ kept_ann (g_ann _ t_op t_in t_cap s0 px_script) = true
    /\ large_window s1 = false /\ stream_wbits s1 = 22 /\ g_input _ t_op t_in px_script = ex_input
    /\ (forall B, faithful_ann dict_word transform_tbl B (large_window s1) (stream_wbits s1) ex_input 0 (g_ann _ t_op t_in t_cap s0 px_script))
    /\ (exists s', g_run_calls _ t_op t_in t_cap s0 px_script [] = Done (true, s', px_emitted) /\ at_rest s' = true)
    /\ forall B, exists rbits n sD,
         read_wbits true (bytes_bits px_emitted) = Ok ((22, false), rbits) /\ (n <= length rbits)%nat /\
         loop_n (N.of_nat n) (meta_block dict_word transform_tbl false (2 ^ 22 - 16) B)
                {| d_out := o_init []; d_ring := ring_init; d_info := PE; d_bits := rbits |} = Continue sD /\
         d_bits sD = [] /\ rev' (o_rev (d_out sD)) = ex_input.
  Proof.
    cbv zeta. rewrite px_ann.
    split; [vm_compute; reflexivity|]. split; [vm_compute; reflexivity|]. split; [vm_compute; reflexivity|].
    split; [vm_compute; reflexivity|]. split; [reflexivity|]. split; [vm_compute; reflexivity|]. split; [reflexivity|].
    split; [intros B; exact (px_faithful B)|]. split; [exact px_runs|].
    intros B. destruct px_runs as (s' & Hrun & Hrest).
    pose proof (prefix_all_paths dict_word transform_tbl _ t_op t_in t_cap [] px_script px_answers s' px_emitted B) as T.
    cbv zeta in T. rewrite px_ann in T.
    assert (E1 : fastcond (ensure_initialized (state0 [] px_answers)) = false) by (vm_compute; reflexivity).
    assert (E2 : stream_wbits (ensure_initialized (state0 [] px_answers)) = 22) by (vm_compute; reflexivity).
    assert (E3 : large_window (ensure_initialized (state0 [] px_answers)) = false) by reflexivity.
    assert (E4 : g_input _ t_op t_in px_script = ex_input) by reflexivity.
    rewrite E1, E2, E3, E4 in T.
    apply T.
    - vm_compute; reflexivity.
    - vm_compute; reflexivity.
    - vm_compute; reflexivity.
    - vm_compute; reflexivity.
    - exact (px_faithful B).
    - exact Hrun.
    - exact Hrest.
  Qed.
End ExampleP.
