(* C01 composition, glue side VI: the one-pass/two-pass path (fast_loop: quality 0/1, not catable, no
   magic).  One run of the loop appends to the wire the bits of the answers it consumes (each after the
   pending bits), and a padding block after a flush - also after a FLUSH with no input, which consumes no
   answer.  Input is consumed only by answers: the blocks of the consumed answers add up to the input
   the call took. *)
From Coq Require Import NArith ZArith List Bool Lia PeanoNat.
From V Require Import lib.Words spec.PrefixCode model.Stream model.MetaBlockHeader
  proofs.Bitops proofs.MbHeader_proofs proofs.Stored_proofs proofs.Stream_proofs proofs.Dist_proofs proofs.NoPanic_proofs
  proofs.Slicing_proofs proofs.Roundtrip_defs proofs.Roundtrip_bits proofs.Roundtrip_segs proofs.Roundtrip_chain proofs.Roundtrip_wire
  proofs.Roundtrip_loop.
Import ListNotations.
Open Scope N_scope.

Fixpoint sumb (l : list answer) : N := match l with [] => 0 | a :: t => a_block a + sumb t end.

Lemma sumb_app a b : sumb (a ++ b) = sumb a + sumb b.
Proof. induction a as [|x t IH]; [reflexivity|]. cbn [app sumb]. rewrite IH. lia. Qed.

Record fr_post (em : list N) (s : st) (x : io) (s' : st) (x' : io) (segs : list seg) (consumed : list answer) : Prop := {
  fp_oracle : oracle s = consumed ++ oracle s';
  fp_chain : schain (last_bytes s) (last_bytes_bits s) segs (last_bytes s') (last_bytes_bits s');
  fp_ans : ans_of segs = annotate (last_bytes s) (last_bytes_bits s) consumed;
  fp_idle : sstate_ s <> SProcessing -> consumed = [];
  fp_fin0 : sstate_ s = SFinished -> segs = [] /\ sstate_ s' = SFinished;
  fp_wire : kept segs -> wire (em ++ produced x') s' = wire (em ++ produced x) s ++ segs_bits segs;
  fp_blocks : sumb consumed + avail_in x' = avail_in x;
  fp_last : sstate_ s' = SFinished -> sstate_ s = SFinished \/
              exists pre a segs0 clb clbb, consumed = pre ++ [a] /\ Forall notlast pre /\ a_is_last a = true
                /\ avail_in x' = 0 /\ segs = segs0 ++ [SAns clb clbb a];
  fp_nolast : sstate_ s' <> SFinished -> Forall notlast consumed;
  fp_inv : inv s' /\ all_ok2 (oracle s') /\ Forall tclean (oracle s') /\ clean s'
}.

Lemma fast_answer_flags s il ff ip blk a s1 : fast_answer s il ff ip blk = Done (a, s1) ->
  a_is_last a = il /\ a_force_flush a = ff.
Proof.
  unfold fast_answer. intros H. destruct (oracle s) as [|a0 rest]; [discriminate|].
  destruct (a_fast a0); cbn [negb] in H; [|discriminate].
  destruct (Bool.eqb (a_is_last a0) il) eqn:E1; cbn [negb] in H; [|discriminate].
  destruct (Bool.eqb (a_force_flush a0) ff) eqn:E2; cbn [negb] in H; [|discriminate].
  repeat match type of H with (if ?c then _ else _) = _ => destruct c; try discriminate end.
  inversion H; subst. split; apply Bool.eqb_prop; assumption.
Qed.

(* the answer written straight into the caller's buffer *)
Lemma wire_answer_inplace em s s2 a : avail_out_ s = 0 -> pend s2 = [] -> last_bytes s2 = a_lb a -> last_bytes_bits s2 = a_lbb a ->
  carry_kept (last_bytes s) (last_bytes_bits s) a ->
  wire ((em ++ a_out a)) s2 = wire em s ++ g_answer_bits (last_bytes_bits s) a.
Proof.
  intros Hao Hp Hlb Hlbb Hk. unfold wire, lbits. rewrite Hp, Hlb, Hlbb, (pend_nil s Hao).
  rewrite !app_nil_r, bytes_bits_app, <- !app_assoc. f_equal. fold (full_bits a). apply kept_split. exact Hk.
Qed.

Lemma fr_compose em s x s5 x2 s' x' a rest segs consumed (ff : bool) :
  sstate_ s = SProcessing -> oracle s = a :: rest -> oracle s5 = rest ->
  last_bytes s5 = a_lb a -> last_bytes_bits s5 = a_lbb a ->
  sstate_ s5 = (if a_is_last a then SFinished else if ff then SFlushRequested else SProcessing) ->
  (a_is_last a = true -> avail_in x2 = 0) -> a_block a + avail_in x2 = avail_in x ->
  (carry_kept (last_bytes s) (last_bytes_bits s) a ->
     wire (em ++ produced x2) s5 = wire (em ++ produced x) s ++ g_answer_bits (last_bytes_bits s) a) ->
  fr_post em s5 x2 s' x' segs consumed ->
  fr_post em s x s' x' (SAns (last_bytes s) (last_bytes_bits s) a :: segs) (a :: consumed).
Proof.
  intros Hst O1 O2 F2 F3 Hs5 Hl0 Hblk Hw [T1 T2 T3 T4 T5 T6 T7 T8 T9 T10].
  rewrite O2 in T1. rewrite F2, F3 in T2, T3.
  constructor.
  - rewrite O1, T1. reflexivity.
  - cbn [schain]. repeat split; try reflexivity. exact T2.
  - cbn [ans_of annotate]. rewrite T3. reflexivity.
  - intros H. contradiction.
  - intros H. rewrite Hst in H. discriminate H.
  - intros K. unfold kept in K. cbn [ans_of] in K. inversion K as [|? ? K1 K2]; subst.
    unfold kept1 in K1. cbn [fst snd] in K1. rewrite (T6 K2), (Hw K1).
    change (segs_bits (SAns (last_bytes s) (last_bytes_bits s) a :: segs))
      with (g_answer_bits (last_bytes_bits s) a ++ segs_bits segs).
    rewrite <- app_assoc. reflexivity.
  - cbn [sumb]. lia.
  - intros Hf. right. destruct (a_is_last a) eqn:El.
    + destruct (T5 Hs5) as [Sg _]. pose proof (T4 ltac:(rewrite Hs5; discriminate)) as Cg. subst segs consumed.
      exists [], a, [], (last_bytes s), (last_bytes_bits s). repeat split; try reflexivity; try constructor; try assumption.
      specialize (Hl0 eq_refl). cbn [sumb] in T7. lia.
    + assert (Hn5 : sstate_ s5 <> SFinished) by (rewrite Hs5; destruct ff; discriminate).
      destruct (T8 Hf) as [K|(pre & a2 & segs0 & clb & clbb & K1 & K2 & K3 & K4 & K5)]; [contradiction|].
      exists (a :: pre), a2, (SAns (last_bytes s) (last_bytes_bits s) a :: segs0), clb, clbb.
      rewrite K1, K5. repeat split; try reflexivity; try assumption. constructor; [exact El|exact K2].
  - intros Hnf. destruct (a_is_last a) eqn:El.
    + destruct (T5 Hs5) as [_ K]. contradiction.
    + constructor; [exact El|]. apply T9. exact Hnf.
  - exact T10.
Qed.

Lemma fast_loop_trace : forall fuel op s x s' x' em,
  inv s -> all_ok2 (oracle s) -> Forall tclean (oracle s) -> clean s ->
  fast_loop fuel op s x = Done (true, s', x') ->
  exists segs consumed, fr_post em s x s' x' segs consumed.
Proof.
  induction fuel as [|fu IH]; intros op s x s' x' em Hi Hok Htc Hcl Hrun; [discriminate|].
  cbn [fast_loop] in Hrun. unfold inject_flush_or_push_output in Hrun. fold (padcond s) in Hrun.
  destruct (padcond s) eqn:Cpad.
  - (* padding block *)
    destruct (padcond_true s Cpad) as [Hfl Hlb].
    destruct (padding_inv s Hi Hfl Hlb) as [s1 [Ep [Hi1 Hst1]]]. rewrite Ep in Hrun.
    destruct (outcome_inv_padding s s1 Ep) as [_ [Hip [_ [Ho _]]]].
    assert (Hl16 : last_bytes_bits s < 16) by (destruct Hi as [_ [_ [_ H]]]; exact H).
    destruct (padding_wire (em ++ produced x) s s1 Hi Hfl Hlb Hcl Ep) as (W & L1 & L2).
    assert (Hcl1 : clean s1) by (unfold clean; rewrite L1, L2; exact cleanv_00).
    assert (Hok1 : all_ok2 (oracle s1)) by (rewrite Ho; exact Hok).
    assert (Htc1 : Forall tclean (oracle s1)) by (rewrite Ho; exact Htc).
    destruct (IH op s1 x s' x' em Hi1 Hok1 Htc1 Hcl1 Hrun) as (segs & consumed & T).
    destruct T as [T1 T2 T3 T4 T5 T6 T7 T8 T9 T10].
    assert (Hc0 : consumed = []) by (apply T4; rewrite Hst1, Hfl; discriminate).
    exists (SPad (last_bytes_bits s) :: segs), consumed. constructor.
    + rewrite <- Ho. exact T1.
    + cbn [schain]. rewrite L1, L2 in T2. repeat split; assumption.
    + cbn [ans_of]. rewrite T3, Hc0. reflexivity.
    + intros _. exact Hc0.
    + intros H. rewrite Hfl in H. discriminate H.
    + intros K. unfold kept in K. cbn [ans_of] in K. rewrite (T6 K), W.
      change (segs_bits (SPad (last_bytes_bits s) :: segs)) with (pad_bits (last_bytes_bits s) ++ segs_bits segs).
      rewrite <- app_assoc. reflexivity.
    + exact T7.
    + intros H. destruct (T8 H) as [K|(pre & a & _ & _ & _ & K & _)].
      * rewrite Hst1, Hfl in K. discriminate K.
      * rewrite Hc0 in K. destruct pre; discriminate K.
    + exact T9.
    + exact T10.
  - destruct (negb (avail_out_ s =? 0) && negb (cap x =? 0)) eqn:Cpush.
    + (* push pending bytes *)
      destruct (lenN (view s) <? N.min (avail_out_ s) (cap x)); [discriminate|].
      remember (N.min (avail_out_ s) (cap x)) as n eqn:En.
      assert (Hn : n <= avail_out_ s) by (subst n; apply N.le_min_l).
      change (upd_out s (no_incr (next_out s) n) (storage s) (storage_size s) (tiny s) (avail_out_ s - n)
                      (wadd64 (total_out_ s) n)) with (pushk s n) in Hrun.
      destruct (IH op (pushk s n) (io_push x (takeN n (view s)) (wadd64 (total_out_ s) n)) s' x' em
                  (inv_pushk s n Hi Hn) Hok Htc Hcl Hrun) as (segs & consumed & T).
      destruct T as [T1 T2 T3 T4 T5 T6 T7 T8 T9 T10].
      exists segs, consumed. constructor; try assumption.
      intros K. rewrite (T6 K). f_equal. cbn [produced io_push]. rewrite app_assoc.
      apply wire_push; [destruct Hi as [Hc _]; exact Hc|exact Hn].
    + destruct ((avail_out_ s =? 0) && sstate_eqb (sstate_ s) SProcessing
                && (negb (avail_in x =? 0) || negb (opk_eqb op OpProcess))) eqn:Cenc.
      * apply andb_true_iff in Cenc. destruct Cenc as [Cenc _]. apply andb_true_iff in Cenc. destruct Cenc as [Cao Cst].
        apply N.eqb_eq in Cao. apply sstate_eqb_spec in Cst.
        remember (N.min (2 ^ Z.to_N (lgwin s)) (avail_in x)) as block eqn:Eblk.
        assert (Hble : block <= avail_in x) by (subst block; apply N.le_min_r).
        set (il := (avail_in x =? block) && opk_eqb op OpFinish) in *.
        set (ff := (avail_in x =? block) && opk_eqb op OpFlush) in *.
        destruct (ff && (block =? 0)) eqn:Cff0.
        -- (* a flush with no input at all: no answer is consumed *)
           assert (Hi1 : inv (set_sstate s SFlushRequested)).
           { apply inv_set_sstate; [exact Hi|]. intros _ _ H. contradiction. }
           destruct (IH op (set_sstate s SFlushRequested) x s' x' em Hi1 Hok Htc Hcl Hrun) as (segs & consumed & T).
           destruct T as [T1 T2 T3 T4 T5 T6 T7 T8 T9 T10]. fs_in T1. fs_in T2. fs_in T3. fs_in T4. fs_in T5. fs_in T8.
           exists segs, consumed. constructor; try assumption.
           ++ intros H. contradiction.
           ++ intros H. rewrite Cst in H. discriminate H.
           ++ intros Hf. destruct (T8 Hf) as [K|K]; [discriminate K|right; exact K].
        -- pose proof (fast_answer_np s il ff (2 * block + 503 <=? cap x) block Hok) as FA.
           destruct (fast_answer s il ff (2 * block + 503 <=? cap x) block) as [[a s1]|w|w|] eqn:Efa; try discriminate.
           destruct FA as [Hok1 [Es1 [[Ha Ha32] Hsz]]].
           destruct (fast_answer_ok _ _ _ _ _ _ _ Efa) as [rest [O1 [O2 _]]].
           destruct (fast_answer_head _ _ _ _ _ _ _ Efa) as [rest' [_ [Of Ob]]].
           destruct (fast_answer_flags _ _ _ _ _ _ _ Efa) as [Fl Ff].
           destruct (answer_ok_parts a Ha) as [Hlbb _].
           assert (Hta : tclean a /\ Forall tclean rest) by (rewrite O1 in Htc; inversion Htc; split; assumption).
           assert (Hi1 : inv s1).
           { rewrite Es1. destruct Hi as [Hc [Hp [Ht Hl]]]. unfold inv, cursor_ok, pad_ok in *. fs. repeat split; assumption. }
           assert (Hao1 : avail_out_ s1 = 0) by (rewrite Es1; fs; exact Cao).
           assert (Hst1 : sstate_ s1 = SProcessing) by (rewrite Es1; fs; exact Cst).
           assert (Hil0 : a_is_last a = true -> avail_in x - block = 0).
           { intros E. rewrite Fl in E. unfold il in E. apply andb_true_iff in E. destruct E as [E _]. apply N.eqb_eq in E. lia. }
           destruct (2 * block + 503 <=? cap x).
           ++ (* in place *)
              match type of Hrun with fast_loop fu op ?t ?y = _ => set (s5 := t) in *; set (x2 := y) in * end.
              set (sA := upd_bits (upd_out s1 (next_out s1) (storage s1) (storage_size s1) (tiny s1) (avail_out_ s1)
                                   (wadd64 (total_out_ s1) (lenN (a_out a)))) (a_lb a) (a_lbb a)) in *.
              assert (HiA : inv sA).
              { destruct Hi1 as [Hc [Hp [Ht Hl]]]. unfold inv, cursor_ok, pad_ok, sA in *. fs.
                split; [exact Hc|]. split; [|split; assumption]. intros H; rewrite Hst1 in H; discriminate H. }
              assert (Hi5 : inv s5).
              { unfold s5. assert (HiB : inv (if ff then set_sstate sA SFlushRequested else sA)).
                { destruct ff; [|exact HiA]. apply inv_set_sstate; [exact HiA|]. intros _ _ H. unfold sA in H. fs_in H. contradiction. }
                destruct il; [|exact HiB]. apply inv_set_sstate; [exact HiB|]. intros H; discriminate H. }
              assert (F5 : oracle s5 = rest /\ last_bytes s5 = a_lb a /\ last_bytes_bits s5 = a_lbb a
                           /\ sstate_ s5 = (if il then SFinished else if ff then SFlushRequested else SProcessing)
                           /\ pend s5 = []).
              { unfold s5, sA. destruct ff, il; fs; repeat split; try assumption; try reflexivity; apply pend_nil; fs; exact Hao1. }
              destruct F5 as (F1 & F2 & F3 & F4 & F6).
              assert (Hcl5 : clean s5) by (unfold clean; rewrite F2, F3; exact (proj1 (proj1 Hta))).
              destruct (IH op s5 x2 s' x' em Hi5 ltac:(rewrite F1, <- O2; exact Hok1) ltac:(rewrite F1; exact (proj2 Hta)) Hcl5 Hrun)
                as (segs & consumed & T).
              exists (SAns (last_bytes s) (last_bytes_bits s) a :: segs), (a :: consumed).
              apply (fr_compose em s x s5 x2 s' x' a rest segs consumed ff Cst O1 F1 F2 F3); try assumption.
              ** rewrite Fl. exact F4.
              ** unfold x2. cbn [avail_in io_push io_consume]. rewrite Ob. lia.
              ** intros K. unfold x2. cbn [produced io_push io_consume]. rewrite app_assoc.
                 apply wire_answer_inplace; assumption.
           ++ (* staged in the encoder's storage *)
              match type of Hrun with fast_loop fu op ?t ?y = _ => set (s5 := t) in *; set (x2 := y) in * end.
              set (sA := upd_bits (upd_out s1 (NoDyn 0) (a_out a) (N.max (storage_size s1) (2 * block + 503)) (tiny s1)
                                   (lenN (a_out a)) (total_out_ s1)) (a_lb a) (a_lbb a)) in *.
              assert (HiA : inv sA).
              { destruct Hi1 as [Hc [Hp [Ht Hl]]]. unfold inv, cursor_ok, pad_ok, sA in *. fs.
                split; [split; lia|]. split; [|split; assumption]. intros H; rewrite Hst1 in H; discriminate H. }
              assert (Hi5 : inv s5).
              { unfold s5. assert (HiB : inv (if ff then set_sstate sA SFlushRequested else sA)).
                { destruct ff; [|exact HiA]. apply inv_set_sstate; [exact HiA|]. intros _ _ _. exists 0. unfold sA. fs. split; [reflexivity|]. split; lia. }
                destruct il; [|exact HiB]. apply inv_set_sstate; [exact HiB|]. intros H; discriminate H. }
              assert (F5 : oracle s5 = rest /\ last_bytes s5 = a_lb a /\ last_bytes_bits s5 = a_lbb a
                           /\ sstate_ s5 = (if il then SFinished else if ff then SFlushRequested else SProcessing)
                           /\ pend s5 = a_out a).
              { assert (Hp : takeN (lenN (a_out a)) (skipN 0 (a_out a)) = a_out a).
                { unfold takeN, skipN, lenN. rewrite Nat2N.id. cbn [N.to_nat skipn]. apply firstn_all. }
                unfold s5, sA. destruct ff, il; fs; repeat split; try assumption; try reflexivity; unfold pend, view; fs; exact Hp. }
              destruct F5 as (F1 & F2 & F3 & F4 & F6).
              assert (Hcl5 : clean s5) by (unfold clean; rewrite F2, F3; exact (proj1 (proj1 Hta))).
              destruct (IH op s5 x2 s' x' em Hi5 ltac:(rewrite F1, <- O2; exact Hok1) ltac:(rewrite F1; exact (proj2 Hta)) Hcl5 Hrun)
                as (segs & consumed & T).
              exists (SAns (last_bytes s) (last_bytes_bits s) a :: segs), (a :: consumed).
              apply (fr_compose em s x s5 x2 s' x' a rest segs consumed ff Cst O1 F1 F2 F3); try assumption.
              ** rewrite Fl. exact F4.
              ** unfold x2. cbn [avail_in io_consume]. rewrite Ob. lia.
              ** intros K. unfold x2. cbn [produced io_consume].
                 apply (wire_answer (em ++ produced x) s s5 a Cao F6 F2 F3 K).
      * (* the call returns *)
        inversion Hrun; subst s' x'; clear Hrun.
        destruct (cfc_fields s) as (G1 & G2 & G3 & G4 & G5 & G6).
        exists [], []. constructor.
        -- rewrite G3. reflexivity.
        -- cbn [schain]. split; assumption.
        -- reflexivity.
        -- intros _. reflexivity.
        -- intros H. split; [reflexivity|]. apply G5. exact H.
        -- intros _. rewrite wire_cfc. cbn [segs_bits flat_map]. rewrite app_nil_r. reflexivity.
        -- reflexivity.
        -- intros H. left. apply G5. exact H.
        -- intros _. constructor.
        -- split; [apply check_flush_inv; exact Hi|]. rewrite G3. split; [exact Hok|]. split; [exact Htc|].
           unfold clean. rewrite G1, G2. exact Hcl.
Qed.
