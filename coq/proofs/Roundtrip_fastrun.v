(* C01 composition, glue side VII: whole scripts on the one-pass/two-pass path (quality 0/1), with
   PROCESS / FLUSH / FINISH / EMIT_METADATA calls; and the theorem for that path. *)
From Coq Require Import NArith ZArith List Bool Lia PeanoNat.
From V Require Import lib.Words lib.PMap spec.RfcTables spec.PrefixCode spec.Decoder model.Stream model.MetaBlockHeader
  proofs.Bitops proofs.MbHeader_proofs proofs.Format_proofs proofs.Stored_proofs proofs.Stream_proofs proofs.Dist_proofs proofs.NoPanic_proofs
  proofs.Slicing_proofs proofs.Slicing_fast proofs.Roundtrip_defs proofs.Roundtrip_bits proofs.Roundtrip_dec proofs.Roundtrip_segs proofs.Roundtrip_chain
  proofs.Roundtrip_wire proofs.Roundtrip_loop proofs.Roundtrip_run proofs.Roundtrip_main proofs.Roundtrip_meta proofs.Roundtrip_runm
  proofs.Roundtrip_mainm proofs.Roundtrip_fast.
Import ListNotations.
Open Scope N_scope.

(* the loop never touches the position counters, and never enters a metadata state *)
Lemma fast_loop_misc : forall fuel op s x s' x', fast_loop fuel op s x = Done (true, s', x') ->
  input_pos s' = input_pos s /\ last_flush_pos s' = last_flush_pos s /\ (nometa_state s -> nometa_state s').
Proof.
  induction fuel as [|f IH]; intros op s x s' x' Hrun; [discriminate|].
  cbn [fast_loop] in Hrun.
  destruct (inject_flush_or_push_output s x) as [[[s1 x1]|]| | |] eqn:Einj; try discriminate.
  - destruct (inject_some s x s1 x1 Einj) as [A [B [C _]]].
    destruct (IH _ _ _ _ _ Hrun) as (R1 & R2 & R3). rewrite R1, R2, B, C.
    split; [reflexivity|]. split; [reflexivity|].
    intros Hn0. apply R3. unfold nometa_state. rewrite A. exact Hn0.
  - match type of Hrun with (if ?c then _ else _) = _ => destruct c end.
    + match type of Hrun with (if ?c then _ else _) = _ => destruct c end.
      * destruct (IH _ _ _ _ _ Hrun) as (R1 & R2 & R3). fs_in R1. fs_in R2.
        split; [exact R1|]. split; [exact R2|].
        intros _. apply R3. unfold nometa_state. fs. split; discriminate.
      * destruct (fast_answer _ _ _ _ _) as [[a s1]| | |] eqn:Efa; try discriminate.
        destruct (fast_answer_ok _ _ _ _ _ _ _ Efa) as [rest [_ [_ [O3 [O4 O5]]]]].
        assert (K : forall t y, fast_loop f op t y = Done (true, s', x') ->
                  input_pos t = input_pos s1 -> last_flush_pos t = last_flush_pos s1 -> (nometa_state s1 -> nometa_state t) ->
                  input_pos s' = input_pos s /\ last_flush_pos s' = last_flush_pos s /\ (nometa_state s -> nometa_state s')).
        { intros t y Hr F1 F2 F3. destruct (IH _ _ _ _ _ Hr) as (R1 & R2 & R3). rewrite R1, R2, F1, F2, O4, O5.
          split; [reflexivity|]. split; [reflexivity|].
          intros Hn0. apply R3, F3. unfold nometa_state. rewrite O3. exact Hn0. }
        match type of Hrun with context [if ?c then (_, _) else (_, _)] => destruct c end;
          (eapply K; [exact Hrun| | |]);
          match goal with |- context [if ?c1 then set_sstate (if ?c2 then _ else _) _ else _] => destruct c1, c2 end;
          fs; try reflexivity; unfold nometa_state; fs; try (intros _; split; discriminate); intros Hn0; exact Hn0.
    + inversion Hrun; subst s' x'. destruct (cfc_fields s) as (_ & _ & _ & G4 & _).
      split; [exact G4|]. split.
      * unfold check_flush_complete. destruct (sstate_eqb (sstate_ s) SFlushRequested && (avail_out_ s =? 0)); reflexivity.
      * intros Hn0. unfold nometa_state. destruct (cfc_state s) as [E|E]; rewrite E; [exact Hn0|split; discriminate].
Qed.

(* what the run needs from one call on this path *)
Record fcall_post (n : N) (em : list N) (s s' : st) (out : list N) (segs : list seg) (consumed : list answer) : Prop := {
  fq_oracle : oracle s = consumed ++ oracle s';
  fq_chain : schain (last_bytes s) (last_bytes_bits s) segs (last_bytes s') (last_bytes_bits s');
  fq_ans : ans_of segs = annotate (last_bytes s) (last_bytes_bits s) consumed;
  fq_wire : kept segs -> wire (em ++ out) s' = wire em s ++ segs_bits segs;
  fq_blocks : sumb consumed = n;
  fq_last : sstate_ s' = SFinished ->
            (sstate_ s = SFinished /\ segs = [] /\ consumed = [])
            \/ (sstate_ s <> SFinished /\ exists pre a segs0 clb clbb, consumed = pre ++ [a] /\ Forall notlast pre /\ a_is_last a = true
                  /\ segs = segs0 ++ [SAns clb clbb a]);
  fq_nolast : sstate_ s' <> SFinished -> Forall notlast consumed /\ sstate_ s <> SFinished;
  fq_inv : inv s' /\ all_ok2 (oracle s') /\ Forall tclean (oracle s') /\ clean s';
  fq_cfg : initialized s' = true /\ fastcond s' = true;
  fq_b : bstate_ok s';
  fq_quiet : quiet s'
}.

Lemma fastcond_magic s : fastcond s = true -> magic s = false.
Proof. unfold fastcond. intros H. apply andb_true_iff in H. destruct H as [_ H]. apply negb_true_iff in H. exact H. Qed.

Lemma fast_call_post s op payload offered capn s' x' em :
  initialized s = true -> fastcond s = true -> op <> OpMeta ->
  inv s -> all_ok2 (oracle s) -> Forall tclean (oracle s) -> clean s -> quiet s ->
  compress_stream s op payload offered capn = Done (true, s', x') -> avail_in x' = 0 ->
  exists segs consumed, fcall_post offered em s s' (produced x') segs consumed.
Proof.
  intros Hini Hfc Hop Hi Hok Htc Hcl Hq Hrun Hai.
  unfold compress_stream, compress_stream_from in Hrun. rewrite (ensure_initialized_id s Hini) in Hrun.
  fold (io0 offered capn) in Hrun.
  match type of Hrun with (if ?c then _ else _) = _ => destruct c end; [discriminate|].
  assert (Eop : opk_eqb op OpMeta = false) by (destruct op; try reflexivity; contradiction Hop; reflexivity).
  rewrite Eop in Hrun.
  destruct (sstate_eqb (sstate_ s) SMetaHead || sstate_eqb (sstate_ s) SMetaBody) eqn:Em; [discriminate|].
  apply orb_false_iff in Em. destruct Em as [E1 E2].
  assert (Hn : nometa_state s) by (split; intros E; rewrite E in *; discriminate).
  destruct (negb (sstate_eqb (sstate_ s) SProcessing) && negb (offered =? 0)) eqn:Cg; [discriminate|].
  fold (fastcond s) in Hrun. rewrite Hfc in Hrun.
  pose proof (same_cfg_fast_loop _ _ _ _ _ _ _ Hrun) as Hcfg.
  destruct (fast_loop_misc _ _ _ _ _ _ Hrun) as (P1 & P2 & P3).
  destruct (fast_loop_trace _ _ _ _ _ _ em Hi Hok Htc Hcl Hrun) as (segs & consumed & T).
  destruct T as [T1 T2 T3 T4 T5 T6 T7 T8 T9 T10].
  cbn [produced io0 avail_in] in T6, T7. rewrite app_nil_r in T6. rewrite Hai, N.add_0_r in T7.
  exists segs, consumed. constructor; try assumption.
  - intros Hf. destruct (T8 Hf) as [Hs|(pre & a & segs0 & clb & clbb & K1 & K2 & K3 & K4 & K5)].
    + left. destruct (T5 Hs) as [E _]. split; [exact Hs|]. split; [exact E|]. apply T4. rewrite Hs. discriminate.
    + right. split.
      * intros Hs. pose proof (T4 ltac:(rewrite Hs; discriminate)) as E. rewrite E in K1. destruct pre; discriminate K1.
      * exists pre, a, segs0, clb, clbb. repeat split; assumption.
  - intros Hnf. split; [exact (T9 Hnf)|]. intros Hs. destruct (T5 Hs) as [_ K]. contradiction.
  - split; [destruct Hcfg as [C1 _]; rewrite C1; exact Hini|]. rewrite (same_cfg_fastcond _ _ Hcfg). exact Hfc.
  - apply nometa_bstate. exact (P3 Hn).
  - unfold quiet in *. destruct Hcfg as (_ & _ & _ & C4 & _). rewrite P1, P2, C4. rewrite (fastcond_magic s Hfc) in *.
    cbn [andb] in *. exact Hq.
Qed.

Lemma meta_fcall_post s payload offered capn s' x' em :
  initialized s = true -> fastcond s = true ->
  inv s -> all_ok2 (oracle s) -> Forall tclean (oracle s) -> clean s -> bstate_ok s -> quiet s ->
  offered = lenN payload -> Forall (fun b => b < 256) payload ->
  compress_stream s OpMeta payload offered capn = Done (true, s', x') -> avail_in x' = 0 ->
  exists segs consumed, fcall_post 0 em s s' (produced x') segs consumed.
Proof.
  intros Hini Hfc Hi Hok Htc Hcl Hb Hq Hoff Hby Hrun Hai.
  destruct (meta_call_mpost s payload offered capn s' x' em Hini Hi Hok Htc Hcl Hb Hoff Hby Hrun Hai) as (segs & consumed & T).
  destruct T as [T1 T2 T3 T4 T5 T6 [T7a T7b] T8 T9 T10 T11 T12]. destruct (T12 Hq) as [Ec Hq'].
  exists segs, consumed. constructor; try assumption.
  - rewrite Ec. reflexivity.
  - intros Hf. contradiction.
  - intros _. split; assumption.
  - split; [destruct T10 as [C1 _]; rewrite C1; exact Hini|]. rewrite (same_cfg_fastcond _ _ T10). exact Hfc.
Qed.

(* ------------------------------------------------------------------ the invariant between calls *)
Record gfinv (answers : list answer) (hlb hlbb : N) (hdr : bits) (inp : list N) (s : st) (em : list N) (segs : list seg) : Prop := {
  gf_init : initialized s = true;
  gf_fc : fastcond s = true;
  gf_inv : inv s;
  gf_ok : all_ok2 (oracle s);
  gf_tc : Forall tclean (oracle s);
  gf_clean : clean s;
  gf_sum : sumb (map snd (ans_of segs)) = lenN inp;
  gf_chain : schain hlb hlbb segs (last_bytes s) (last_bytes_bits s);
  gf_wire : kept segs -> wire em s = hdr ++ segs_bits segs;
  gf_last : sstate_ s = SFinished ->
            exists pre clb clbb a, segs = pre ++ [SAns clb clbb a] /\ Forall (fun c => notlast (snd c)) (ans_of pre) /\ a_is_last a = true;
  gf_nolast : sstate_ s <> SFinished -> Forall (fun c => notlast (snd c)) (ans_of segs);
  gf_tail : Forall (fun c => tclean (snd c)) (ans_of segs);
  gf_or : map snd (ans_of segs) ++ oracle s = answers;
  gf_b : bstate_ok s;
  gf_quiet : quiet s
}.

Lemma gfinv_step answers hlb hlbb hdr inp inp' s em segs s1 out segs1 consumed :
  gfinv answers hlb hlbb hdr inp s em segs -> fcall_post (lenN inp') em s s1 out segs1 consumed ->
  gfinv answers hlb hlbb hdr (inp ++ inp') s1 (em ++ out) (segs ++ segs1).
Proof.
  intros [G1 G2 G3 G4 G5 G6 G7 G8 G9 G11 G12 G14 G15 G16 G17] [T1 T2 T3 T6 T7 T8 T9 T10 T12 T13 T14].
  destruct T10 as (Hi1 & Hok1 & Htc1 & Hcl1). destruct T12 as [Hini1 Hfc1].
  constructor; try assumption.
  - rewrite ans_of_app, map_app, sumb_app, T3, map_snd_annotate, G7, T7, lenN_app. reflexivity.
  - eapply schain_app; eassumption.
  - intros K. unfold kept in K. rewrite ans_of_app in K. apply Forall_app in K. destruct K as [K1 K2].
    rewrite (T6 K2), (G9 K1), segs_bits_app, <- app_assoc. reflexivity.
  - intros Hf. destruct (T8 Hf) as [(Hs & E & Ec)|(Hns & pre & a & segs0 & clb & clbb & K1 & K2 & K3 & K5)].
    + subst segs1. destruct (G11 Hs) as (pre & clb & clbb & a & K1 & K2 & K3).
      exists pre, clb, clbb, a. rewrite app_nil_r. repeat split; assumption.
    + exists (segs ++ segs0), clb, clbb, a. rewrite K5, app_assoc. repeat split; try assumption.
      rewrite ans_of_app. apply Forall_app. split; [apply G12; exact Hns|].
      rewrite K5, ans_of_app, K1 in T3. cbn [ans_of] in T3.
      destruct (annotate_app pre [a] (last_bytes s) (last_bytes_bits s)) as (lb' & lbb' & E). rewrite E in T3.
      cbn [annotate] in T3. apply app_inj_tail in T3. destruct T3 as [T3 _]. rewrite T3.
      apply (Forall_annotate notlast). exact K2.
  - intros Hnf1. destruct (T9 Hnf1) as [A B].
    rewrite ans_of_app. apply Forall_app. split; [apply G12; exact B|].
    rewrite T3. apply (Forall_annotate notlast). exact A.
  - rewrite ans_of_app. apply Forall_app. split; [exact G14|]. rewrite T3. apply (Forall_annotate tclean).
    rewrite T1 in G5. apply Forall_app in G5. exact (proj1 G5).
  - rewrite ans_of_app, map_app, T3, map_snd_annotate, <- app_assoc, <- T1. exact G15.
Qed.

(* ------------------------------------------------------------------ repositioned segments *)
Fixpoint rsegs (p : N) (segs : list seg) : list seg :=
  match segs with
  | [] => []
  | SAns clb clbb a :: t => let q := p + a_block a in SAns clb clbb (with_lfp a q) :: rsegs q t
  | g :: t => g :: rsegs p t
  end.

Lemma rsegs_bits : forall segs p, segs_bits (rsegs p segs) = segs_bits segs.
Proof.
  induction segs as [|g t IH]; intros p; [reflexivity|]. unfold segs_bits in *.
  destruct g as [clb clbb a|c|c q]; cbn [rsegs flat_map]; rewrite IH; reflexivity.
Qed.

Lemma rsegs_ans : forall segs p, ans_of (rsegs p segs) = repos p (ans_of segs).
Proof.
  induction segs as [|g t IH]; intros p; [reflexivity|].
  destruct g as [clb clbb a|c|c q]; cbn [rsegs ans_of repos fst snd]; rewrite IH; reflexivity.
Qed.

Lemma rsegs_chain : forall segs p lb lbb lb' lbb', schain lb lbb segs lb' lbb' -> schain lb lbb (rsegs p segs) lb' lbb'.
Proof.
  induction segs as [|g t IH]; intros p lb lbb lb' lbb' H; [exact H|].
  destruct g as [clb clbb a|c|c q]; cbn [rsegs schain] in *.
  - destruct H as (A & B & H). repeat split; try assumption. apply IH. exact H.
  - destruct H as (A & B & H). repeat split; try assumption. apply IH. exact H.
  - destruct H as (A & B & D & E & H). repeat split; try assumption. apply IH. exact H.
Qed.

Lemma rsegs_kept : forall segs p, kept segs -> kept (rsegs p segs).
Proof.
  unfold kept. induction segs as [|g t IH]; intros p H; [exact H|].
  destruct g as [clb clbb a|c|c q]; cbn [rsegs ans_of] in *; try (apply IH; exact H).
  inversion H as [|? ? K1 K2]; subst. constructor; [exact K1|apply IH; exact K2].
Qed.

Lemma rsegs_app : forall a b p, rsegs p (a ++ b) = rsegs p a ++ rsegs (p + sumb (map snd (ans_of a))) b.
Proof.
  induction a as [|g t IH]; intros b p; [cbn [app rsegs ans_of map sumb]; rewrite N.add_0_r; reflexivity|].
  destruct g as [clb clbb x|c|c q]; cbn [app rsegs ans_of map snd sumb]; rewrite IH; [|reflexivity|reflexivity].
  rewrite N.add_assoc. reflexivity.
Qed.

Lemma repos_lfp : forall l p, Forall (fun c => a_lfp (snd c) <= p + sumb (map snd l)) (repos p l).
Proof.
  induction l as [|c t IH]; intros p; [constructor|]. cbn [repos map sumb snd]. constructor.
  - cbn [snd with_lfp a_lfp]. lia.
  - eapply Forall_impl; [|apply IH]. intros c0 H. cbn beta in H. lia.
Qed.

Lemma repos_notlast : forall l p, Forall (fun c => notlast (snd c)) l -> Forall (fun c => notlast (snd c)) (repos p l).
Proof.
  induction l as [|c t IH]; intros p H; [constructor|]. inversion H; subst. cbn [repos]. constructor; [assumption|apply IH; assumption].
Qed.

Section FastMain.
  Variable dict_word : N -> N -> list N.
  Variable transform_tbl : N -> option (list N * N * list N).
  Variable C : Type.
  Variable c_op : C -> opk.
  Variable c_in : C -> list N.
  Variable c_cap : C -> N.
  Notation run := (g_run_calls C c_op c_in c_cap).
  Notation inputs := (g_input C c_op c_in).
  Notation anns := (g_ann C c_op c_in c_cap).

  Lemma run_trace_f answers hlb hlbb hdr : forall cs s em segs inp s' emitted,
    gfinv answers hlb hlbb hdr inp s em segs ->
    meta_bytes_ok C c_op c_in cs = true ->
    run s cs em = Done (true, s', emitted) ->
    exists segs', gfinv answers hlb hlbb hdr (inp ++ inputs cs) s' emitted (segs ++ segs') /\ ans_of segs' = anns s cs.
  Proof.
    induction cs as [|c t IH]; intros s em segs inp s' emitted G Hmb Hrun.
    - cbn [g_run_calls] in Hrun. inversion Hrun; subst s' emitted. exists []. rewrite !app_nil_r. split; [exact G|reflexivity].
    - cbn [g_run_calls] in Hrun. cbn [meta_bytes_ok forallb] in Hmb. apply andb_true_iff in Hmb. destruct Hmb as [Hmb1 Hmb2].
      destruct (compress_stream s (c_op c) (c_in c) (lenN (c_in c)) (c_cap c)) as [[[[|] s1] x]| | |] eqn:Ecall; try discriminate.
      destruct (N.eqb_spec (avail_in x) 0) as [Eai|]; [|discriminate].
      pose proof G as [G1 G2 G3 G4 G5 G6 _ _ _ _ _ _ _ G16 G17].
      assert (Hstep : exists segs1 consumed inp', inputs (c :: t) = (inp' ++ inputs t) /\
                fcall_post (lenN inp') em s s1 (produced x) segs1 consumed).
      { destruct (opk_eqb (c_op c) OpMeta) eqn:Eop.
        - assert (Hop : c_op c = OpMeta) by (destruct (c_op c); try discriminate Eop; reflexivity).
          rewrite Hop in Ecall.
          assert (Hby : Forall (fun b => b < 256) (c_in c)).
          { apply Forall_forall. intros b Hb. apply N.ltb_lt. exact (proj1 (forallb_forall _ _) Hmb1 b Hb). }
          destruct (meta_fcall_post s (c_in c) (lenN (c_in c)) (c_cap c) s1 x em G1 G2 G3 G4 G5 G6 G16 G17 eq_refl Hby Ecall Eai) as (segs1 & consumed & T).
          exists segs1, consumed, []. split; [apply (input_cons_meta C c_op c_in); exact Eop|exact T].
        - assert (Hop : c_op c <> OpMeta) by (intros E; rewrite E in Eop; discriminate Eop).
          destruct (fast_call_post s (c_op c) (c_in c) (lenN (c_in c)) (c_cap c) s1 x em G1 G2 Hop G3 G4 G5 G6 G17 Ecall Eai) as (segs1 & consumed & T).
          exists segs1, consumed, (c_in c). split; [apply input_cons_nometa; exact Eop|exact T]. }
      destruct Hstep as (segs1 & consumed & inp' & Ein & T).
      rewrite Ein in *.
      pose proof (gfinv_step answers hlb hlbb hdr inp inp' s em segs s1 (produced x) segs1 consumed G T) as G'.
      destruct (IH s1 (em ++ produced x) (segs ++ segs1) (inp ++ inp') s' emitted G' Hmb2 Hrun) as (segs2 & G2' & A2).
      exists (segs1 ++ segs2). rewrite !app_assoc in *. split; [exact G2'|].
      destruct T as [T1 _ T3 _ _ _ _ _ _ _ _].
      rewrite ans_of_app, A2, T3. cbn [g_ann]. rewrite (ensure_initialized_id s G1), Ecall.
      destruct (N.eqb_spec (avail_in x) 0) as [_|K]; [|contradiction].
      f_equal. f_equal. rewrite T1, app_length. replace (length consumed + length (oracle s1) - length (oracle s1))%nat with (length consumed) by lia.
      rewrite firstn_app, Nat.sub_diag, firstn_all. cbn [firstn]. rewrite app_nil_r. reflexivity.
  Qed.

  (* ================================================================================= *)
  (* THE THEOREM for the one-pass/two-pass path (quality 0/1, not catable, no magic)      *)
  (* ================================================================================= *)
  Theorem roundtrip_fast_path params cs answers s' emitted B :
    let s0 := state0 params answers in
    let s1 := ensure_initialized s0 in
    let input := inputs cs in
    forallb answer_ok3s answers = true ->
    meta_bytes_ok C c_op c_in cs = true -> fastcond s1 = true ->
    kept_ann (anns s0 cs) = true ->
    faithful_ann dict_word transform_tbl B (large_window s1) (stream_wbits s1) input 0 (repos 0 (anns s0 cs)) ->
    run s0 cs [] = Done (true, s', emitted) -> is_finished s' = true ->
    8 * lenN emitted <= B ->
    exists info, decode_bits dict_word transform_tbl true [] (bytes_bits emitted) B = Ok (input, info).
  Proof.
    intros s0 s1 input Hok3 Hmb Hfc Hk Hf Hrun Hfin HB.
    assert (Hpr : pristine s0).
    { unfold s0, state0. exact (pristine_fold params init_st ltac:(unfold pristine; repeat split; reflexivity)). }
    destruct (init_facts s0 Hpr) as (I1 & I2 & I3 & I4 & I5 & I6 & I7 & I8 & I9). fold s1 in I1, I2, I3, I4, I5, I6, I7, I8, I9.
    assert (Hor : oracle s1 = answers) by (rewrite I7; reflexivity).
    assert (Hall : Forall (fun a => answer_ok2 a /\ tclean a) answers).
    { apply Forall_forall. intros a Ha. apply answer_ok3s_parts. exact (proj1 (forallb_forall _ _) Hok3 a Ha). }
    assert (Hq1 : quiet s1).
    { unfold quiet. rewrite (fastcond_magic s1 Hfc), I4. cbn [andb]. rewrite orb_false_r.
      destruct Hpr as (Hi0 & _). unfold s1, ensure_initialized. rewrite Hi0.
      destruct (encode_window_bits _ _). fs. unfold s0, state0. fs.
      assert (L : forall params s, last_flush_pos s = 0 -> last_flush_pos (fold_left (fun s kv => snd (set_parameter s (fst kv) (snd kv))) params s) = 0).
      { induction params0 as [|kv t IHp]; intros s H; [exact H|]. cbn [fold_left]. apply IHp.
        unfold set_parameter. destruct (initialized s); [exact H|]. destruct (fst kv =? 4); [destruct ((snd kv =? 0) || (snd kv =? 1)); exact H|].
        destruct (negb (known_param (fst kv))); [exact H|]. cbn [snd].
        repeat match goal with |- context [if ?c then _ else _] => destruct c end; exact H. }
      rewrite (L params init_st eq_refl). reflexivity. }
    destruct cs as [|c t].
    { cbn [g_run_calls] in Hrun. inversion Hrun; subst s' emitted. exfalso.
      unfold is_finished in Hfin. destruct Hpr as (_ & Hs & _). rewrite Hs in Hfin. discriminate Hfin. }
    rewrite (run_init C c_op c_in c_cap) in Hrun. fold s1 in Hrun.
    assert (G : gfinv answers (last_bytes s1) (last_bytes_bits s1) (lbits s1) [] s1 [] []).
    { constructor; try assumption.
      - rewrite Hor. eapply Forall_impl; [|exact Hall]. intros a Ha. exact (proj1 Ha).
      - rewrite Hor. eapply Forall_impl; [|exact Hall]. intros a Ha. exact (proj2 Ha).
      - reflexivity.
      - cbn [schain]. split; reflexivity.
      - intros _. unfold wire. rewrite (pend_nil s1 I6). cbn [app bytes_bits flat_map segs_bits]. rewrite app_nil_r. reflexivity.
      - intros H. rewrite I5 in H. discriminate H.
      - intros _. constructor.
      - constructor.
      - apply nometa_bstate. split; rewrite I5; discriminate. }
    destruct (run_trace_f answers _ _ _ (c :: t) s1 [] [] [] s' emitted G Hmb Hrun) as (segs & G' & A).
    cbn [app] in G'. destruct G' as [G1 G2 G3 G4 G5 G6 G7 G8 G9 G11 G12 G14 G15 G16 G17].
    unfold is_finished, has_more_output in Hfin. apply andb_true_iff in Hfin. destruct Hfin as [Hf1 Hf2].
    apply sstate_eqb_spec in Hf1. apply negb_true_iff in Hf2. apply negb_false_iff in Hf2. apply N.eqb_eq in Hf2.
    destruct (G11 Hf1) as (pre & clb & clbb & a & E & Hnl & Hl).
    destruct (schain_snoc pre _ _ clb clbb a _ _ ltac:(rewrite <- E; exact G8)) as [Elb Elbb].
    assert (Hz : a_lbb a = 0).
    { rewrite E, ans_of_app in G14. apply Forall_app in G14. destruct G14 as [_ K]. cbn [ans_of] in K.
      pose proof (Forall_inv K) as K1. cbn [snd] in K1. exact (proj2 K1 Hl). }
    assert (Ha : ans_of segs = anns s0 (c :: t)) by (rewrite A; symmetry; apply ann_init).
    assert (Hkept : kept segs) by (unfold kept; rewrite Ha; apply kept_ann_sound; exact Hk).
    assert (Hw : bytes_bits emitted = lbits s1 ++ segs_bits segs).
    { rewrite <- (G9 Hkept). unfold wire. rewrite (pend_nil s' Hf2), app_nil_r.
      unfold lbits. rewrite Elbb, Hz. cbn [N.to_nat N_to_bits]. rewrite app_nil_r. reflexivity. }
    rewrite Hw. rewrite <- (rsegs_bits segs 0).
    set (tot := sumb (map snd (ans_of pre))).
    assert (Er : rsegs 0 segs = rsegs 0 pre ++ [SAns clb clbb (with_lfp a (tot + a_block a))]).
    { rewrite E, rsegs_app. cbn [rsegs]. rewrite N.add_0_l. reflexivity. }
    assert (Etot : tot + a_block a = lenN input).
    { rewrite E, ans_of_app, map_app, sumb_app in G7. cbn [ans_of map snd sumb] in G7. fold tot in G7.
      cbn [app] in G7. unfold input. rewrite <- G7. lia. }
    apply (dec_stream dict_word transform_tbl (large_window s1) (stream_wbits s1) B input (lbits s1)
             (last_bytes s1) (last_bytes_bits s1) (rsegs 0 segs) I9).
    - rewrite Er. eapply close_segs.
      + rewrite <- Er. apply rsegs_chain. exact G8.
      + rewrite <- Er. apply rsegs_kept. exact Hkept.
      + rewrite <- Er, rsegs_ans, Ha. exact Hf.
      + rewrite <- Er, rsegs_ans.
        pose proof (repos_lfp (ans_of segs) 0) as L. rewrite N.add_0_l, G7 in L. cbn [app] in L. exact L.
      + rewrite rsegs_ans. apply repos_notlast. exact Hnl.
      + exact Hl.
      + cbn [with_lfp a_lfp]. exact Etot.
      + exact Hz.
    - rewrite rsegs_bits. pose proof (f_equal (@length bool) Hw) as L. rewrite bytes_bits_length, app_length in L. unfold lenN in HB. lia.
  Qed.

  Corollary roundtrip_fast_path_decode params cs answers s' emitted :
    let s0 := state0 params answers in
    let s1 := ensure_initialized s0 in
    let input := inputs cs in
    forallb answer_ok3s answers = true ->
    meta_bytes_ok C c_op c_in cs = true -> fastcond s1 = true ->
    kept_ann (anns s0 cs) = true ->
    faithful_ann dict_word transform_tbl (8 * lenN emitted + 8) (large_window s1) (stream_wbits s1) input 0 (repos 0 (anns s0 cs)) ->
    run s0 cs [] = Done (true, s', emitted) -> is_finished s' = true ->
    exists info, decode dict_word transform_tbl true [] emitted = Ok (input, info).
  Proof.
    intros s0 s1 input Hok3 Hmb Hfc Hk Hf Hrun Hfin.
    apply (roundtrip_fast_path params cs answers s' emitted (8 * lenN emitted + 8) Hok3 Hmb Hfc Hk Hf Hrun Hfin). lia.
  Qed.

  (* ================================================================================= *)
  (* both paths under one statement: the parameters decide which premise is meant          *)
  (* ================================================================================= *)
  Theorem roundtrip_all_paths params cs answers s' emitted B :
    let s0 := state0 params answers in
    let s1 := ensure_initialized s0 in
    let input := inputs cs in
    forallb answer_ok3s answers = true ->
    meta_bytes_ok C c_op c_in cs = true -> lenN input < 2 ^ 64 ->
    kept_ann (anns s0 cs) = true ->
    faithful_ann dict_word transform_tbl B (large_window s1) (stream_wbits s1) input 0
                 (if fastcond s1 then repos 0 (anns s0 cs) else anns s0 cs) ->
    run s0 cs [] = Done (true, s', emitted) -> is_finished s' = true ->
    8 * lenN emitted <= B ->
    exists info, decode_bits dict_word transform_tbl true [] (bytes_bits emitted) B = Ok (input, info).
  Proof.
    intros s0 s1 input Hok3 Hmb H64 Hk Hf Hrun Hfin HB.
    destruct (fastcond s1) eqn:Hfc.
    - exact (roundtrip_fast_path params cs answers s' emitted B Hok3 Hmb Hfc Hk Hf Hrun Hfin HB).
    - exact (Roundtrip_mainm.roundtrip_main_path_meta dict_word transform_tbl C c_op c_in c_cap params cs answers s' emitted B Hok3 Hmb Hfc H64 Hk Hf Hrun Hfin HB).
  Qed.
End FastMain.
