(* C01 composition, glue side II: what one run of the main loop (stream_loop: quality >= 2, or
   catable, or magic) does to the wire: it appends the bits of the answers it consumes, each after
   the bits that were pending, and at most one padding block after a flushing answer - whatever
   output capacity the caller offers. *)
From Coq Require Import NArith ZArith List Bool Lia PeanoNat.
From V Require Import lib.Words spec.PrefixCode model.Stream model.MetaBlockHeader
  proofs.Bitops proofs.MbHeader_proofs proofs.Stored_proofs proofs.Stream_proofs proofs.Dist_proofs proofs.NoPanic_proofs
  proofs.Slicing_proofs proofs.Roundtrip_defs proofs.Roundtrip_bits proofs.Roundtrip_segs proofs.Roundtrip_chain proofs.Roundtrip_wire.
Import ListNotations.
Open Scope N_scope.

Fixpoint ans_of (segs : list seg) : list (N * N * answer) :=
  match segs with
  | [] => []
  | SAns clb clbb a :: t => (clb, clbb, a) :: ans_of t
  | _ :: t => ans_of t
  end.
(* the pending bits recorded in the segments are the running pending bits *)
Fixpoint schain (lb lbb : N) (segs : list seg) (lb' lbb' : N) : Prop :=
  match segs with
  | [] => lb' = lb /\ lbb' = lbb
  | SAns clb clbb a :: t => clb = lb /\ clbb = lbb /\ schain (a_lb a) (a_lbb a) t lb' lbb'
  | SPad clbb :: t => clbb = lbb /\ clbb < 16 /\ schain 0 0 t lb' lbb'
  | SMeta clbb p :: t => clbb = lbb /\ clbb < 16 /\ lenN p <= 2 ^ 24 /\ Forall (fun b => b < 256) p /\ schain 0 0 t lb' lbb'
  end.
Definition kept1 (c : N * N * answer) : Prop := carry_kept (fst (fst c)) (snd (fst c)) (snd c).
Definition kept (segs : list seg) : Prop := Forall kept1 (ans_of segs).
Definition tclean (a : answer) : Prop := cleanv (a_lb a) (a_lbb a) /\ (a_is_last a = true -> a_lbb a = 0).
Definition notlast (a : answer) : Prop := a_is_last a = false.

Lemma ans_of_app a b : ans_of (a ++ b) = ans_of a ++ ans_of b.
Proof. induction a as [|[clb clbb x|c|c p] t IH]; cbn [ans_of app]; rewrite ?IH; reflexivity. Qed.

Lemma schain_app : forall a lb lbb lb1 lbb1 b lb2 lbb2,
  schain lb lbb a lb1 lbb1 -> schain lb1 lbb1 b lb2 lbb2 -> schain lb lbb (a ++ b) lb2 lbb2.
Proof.
  induction a as [|g t IH]; intros lb lbb lb1 lbb1 b lb2 lbb2 Ha Hb.
  - destruct Ha as [-> ->]. exact Hb.
  - destruct g as [clb clbb x|c|c p]; cbn [schain app] in *.
    + destruct Ha as (A1 & A2 & A3). repeat split; try assumption. eapply IH; eassumption.
    + destruct Ha as (A1 & A2 & A3). repeat split; try assumption. eapply IH; eassumption.
    + destruct Ha as (A1 & A2 & A3 & A4 & A5). repeat split; try assumption. eapply IH; eassumption.
Qed.

Lemma segs_bits_app a b : segs_bits (a ++ b) = segs_bits a ++ segs_bits b.
Proof. unfold segs_bits. apply flat_map_app. Qed.

Definition notpad (g : seg) : Prop := match g with SAns _ _ _ => True | _ => False end.

Record tr_post (op : opk) (P : N) (em : list N) (s : st) (x : io) (s' : st) (x' : io) (segs : list seg) (consumed : list answer) : Prop := {
  tp_oracle : oracle s = consumed ++ oracle s';
  tp_chain : schain (last_bytes s) (last_bytes_bits s) segs (last_bytes s') (last_bytes_bits s');
  tp_ans : ans_of segs = annotate (last_bytes s) (last_bytes_bits s) consumed;
  tp_idle : sstate_ s <> SProcessing -> consumed = [];
  tp_fin0 : sstate_ s = SFinished -> segs = [] /\ sstate_ s' = SFinished;
  tp_wire : kept segs -> wire (em ++ produced x') s' = wire (em ++ produced x) s ++ segs_bits segs;
  tp_lfp : Forall (fun a => a_lfp a <= P) consumed;
  tp_last : sstate_ s' = SFinished -> sstate_ s = SFinished \/
              exists pre a segs0 clb clbb, consumed = pre ++ [a] /\ Forall notlast pre /\ a_is_last a = true
                /\ a_lfp a = input_pos s' /\ segs = segs0 ++ [SAns clb clbb a];
  tp_nolast : sstate_ s' <> SFinished -> Forall notlast consumed;
  tp_inv : inv s' /\ all_ok2 (oracle s') /\ Forall tclean (oracle s') /\ clean s';
  tp_pos : input_pos s' + avail_in x' = P /\ input_pos s <= input_pos s';
  tp_nopad : opk_eqb op OpFlush = false -> sstate_ s <> SFlushRequested -> Forall notpad segs /\ sstate_ s' <> SFlushRequested
}.

Lemma cfc_fields s :
  last_bytes (check_flush_complete s) = last_bytes s /\ last_bytes_bits (check_flush_complete s) = last_bytes_bits s
  /\ oracle (check_flush_complete s) = oracle s /\ input_pos (check_flush_complete s) = input_pos s
  /\ (sstate_ (check_flush_complete s) = SFinished <-> sstate_ s = SFinished)
  /\ (sstate_ s <> SFlushRequested -> sstate_ (check_flush_complete s) <> SFlushRequested).
Proof.
  unfold check_flush_complete.
  destruct (sstate_eqb (sstate_ s) SFlushRequested && (avail_out_ s =? 0)) eqn:C; fs; repeat split; try reflexivity; try tauto.
  - intros H; discriminate H.
  - apply andb_true_iff in C. destruct C as [C _]. apply sstate_eqb_spec in C. rewrite C. intros H; discriminate H.
  - intros _ H; discriminate H.
Qed.

Lemma hint_fields s a :
  last_bytes (update_size_hint s a) = last_bytes s /\ last_bytes_bits (update_size_hint s a) = last_bytes_bits s
  /\ input_pos (update_size_hint s a) = input_pos s /\ sstate_ (update_size_hint s a) = sstate_ s.
Proof. unfold update_size_hint. destruct (size_hint s =? 0); repeat split; reflexivity. Qed.

Lemma answer_ok_pos a : answer_ok a = true -> a_fast a = false ->
  a_lfp a <= a_ipos a /\ (a_is_last a = true -> a_lfp a = a_ipos a).
Proof.
  unfold answer_ok. intros H Hf. rewrite Hf in H.
  apply andb_true_iff in H. destruct H as [H H5].
  apply andb_true_iff in H. destruct H as [H _].
  apply andb_true_iff in H. destruct H as [_ H3].
  apply N.leb_le in H3. split; [exact H3|]. intros Hl. rewrite Hl in H5. cbn [orb] in H5.
  apply andb_true_iff in H5. destruct H5 as [H5 _]. apply andb_true_iff in H5. destruct H5 as [H5 _].
  apply N.eqb_eq. exact H5.
Qed.

Lemma stream_loop_trace : forall fuel op s x s' x' em P,
  inv s -> all_ok2 (oracle s) -> Forall tclean (oracle s) -> clean s ->
  input_pos s + avail_in x = P -> P < 2 ^ 64 ->
  stream_loop fuel op s x = Done (true, s', x') ->
  exists segs consumed, tr_post op P em s x s' x' segs consumed.
Proof.
  induction fuel as [|fu IH]; intros op s x s' x' em P Hi Hok Htc Hcl HP HP64 Hrun; [discriminate|].
  cbn [stream_loop] in Hrun.
  destruct (negb (remaining_input_block_size s =? 0) && negb (avail_in x =? 0)) eqn:Ccopy.
  - (* copy input *)
    set (c := N.min (remaining_input_block_size s) (avail_in x)) in *.
    assert (Hc : c <= avail_in x) by (unfold c; apply N.le_min_r).
    assert (Hw : wadd64 (input_pos s) c = input_pos s + c) by (apply wadd64_small; apply (N.le_lt_trans _ P); [lia|exact HP64]).
    rewrite Hw in Hrun.
    assert (HP1 : input_pos (upd_pos s (input_pos s + c) (last_flush_pos s) (last_processed_pos s)) + avail_in (io_consume x c) = P) by (fs; lia).
    destruct (IH _ _ _ _ _ em P (inv_upd_pos s _ _ _ Hi) Hok Htc Hcl HP1 HP64 Hrun) as (segs & consumed & T).
    exists segs, consumed. destruct T as [T1 T2 T3 T4 T5 T6 T7 T8 T9 T10 T11 T12]. fs_in T1. fs_in T2. fs_in T3. fs_in T4. fs_in T5. fs_in T6. fs_in T8. fs_in T11. fs_in T12.
    constructor; try assumption. destruct T11 as [A B]. split; [exact A|lia].
  - unfold inject_flush_or_push_output in Hrun. fold (padcond s) in Hrun.
    destruct (padcond s) eqn:Cpad.
    + (* padding block *)
      destruct (padcond_true s Cpad) as [Hfl Hlb].
      destruct (padding_inv s Hi Hfl Hlb) as [s1 [Ep [Hi1 Hst1]]]. rewrite Ep in Hrun.
      destruct (outcome_inv_padding s s1 Ep) as [_ [Hip [_ [Ho _]]]].
      assert (Hl16 : last_bytes_bits s < 16) by (destruct Hi as [_ [_ [_ H]]]; exact H).
      assert (Hcl1 : clean s1).
      { destruct (padding_wire [] s s1 Hi Hfl Hlb Hcl Ep) as (_ & L1 & L2). unfold clean. rewrite L1, L2. exact cleanv_00. }
      assert (Hok1 : all_ok2 (oracle s1)) by (rewrite Ho; exact Hok).
      assert (Htc1 : Forall tclean (oracle s1)) by (rewrite Ho; exact Htc).
      assert (HP1 : input_pos s1 + avail_in x = P) by (rewrite Hip; exact HP).
      destruct (IH _ _ _ _ _ em P Hi1 Hok1 Htc1 Hcl1 HP1 HP64 Hrun) as (segs & consumed & T).
      destruct T as [T1 T2 T3 T4 T5 T6 T7 T8 T9 T10 T11 T12].
      destruct (padding_wire (em ++ produced x) s s1 Hi Hfl Hlb Hcl Ep) as (W & L1 & L2).
      assert (Hc0 : consumed = []) by (apply T4; rewrite Hst1, Hfl; discriminate).
      exists (SPad (last_bytes_bits s) :: segs), consumed. constructor.
      * rewrite <- Ho. exact T1.
      * cbn [schain]. rewrite L1, L2 in T2. repeat split; assumption.
      * cbn [ans_of]. rewrite T3, Hc0. reflexivity.
      * intros _. exact Hc0.
      * intros H. rewrite Hfl in H. discriminate H.
      * intros K. unfold kept in K. cbn [ans_of] in K. rewrite (T6 K), W.
        change (segs_bits (SPad (last_bytes_bits s) :: segs)) with (pad_bits (last_bytes_bits s) ++ segs_bits segs).
        rewrite <- app_assoc. reflexivity.
      * exact T7.
      * intros H. destruct (T8 H) as [K|(pre & a & _ & _ & _ & K & _)].
        -- rewrite Hst1, Hfl in K. discriminate K.
        -- rewrite Hc0 in K. destruct pre; discriminate K.
      * exact T9.
      * exact T10.
      * rewrite Hip in T11. exact T11.
      * intros _ H. contradiction.
    + destruct (negb (avail_out_ s =? 0) && negb (cap x =? 0)) eqn:Cpush.
      * (* push pending bytes *)
        destruct (lenN (view s) <? N.min (avail_out_ s) (cap x)); [discriminate|].
        remember (N.min (avail_out_ s) (cap x)) as n eqn:En.
        assert (Hn : n <= avail_out_ s) by (subst n; apply N.le_min_l).
        change (upd_out s (no_incr (next_out s) n) (storage s) (storage_size s) (tiny s) (avail_out_ s - n)
                        (wadd64 (total_out_ s) n)) with (pushk s n) in Hrun.
        destruct (IH op (pushk s n) (io_push x (takeN n (view s)) (wadd64 (total_out_ s) n)) s' x' em P
                    (inv_pushk s n Hi Hn) Hok Htc Hcl HP HP64 Hrun) as (segs & consumed & T).
        destruct T as [T1 T2 T3 T4 T5 T6 T7 T8 T9 T10 T11 T12].
        exists segs, consumed. constructor; try assumption.
        intros K. rewrite (T6 K). f_equal. cbn [produced io_push]. rewrite app_assoc.
        apply wire_push; [destruct Hi as [Hc _]; exact Hc|exact Hn].
      * destruct ((avail_out_ s =? 0) && sstate_eqb (sstate_ s) SProcessing
                  && ((remaining_input_block_size s =? 0) || negb (opk_eqb op OpProcess))) eqn:Cenc.
        -- (* the back end runs *)
           apply andb_true_iff in Cenc. destruct Cenc as [Cenc Crem]. apply andb_true_iff in Cenc. destruct Cenc as [Cao Cst].
           apply N.eqb_eq in Cao. apply sstate_eqb_spec in Cst.
           destruct (update_size_hint_oracle s (avail_in x)) as [U1 U2].
           destruct (hint_fields s (avail_in x)) as (V1 & V2 & V3 & V4).
           set (il := (avail_in x =? 0) && opk_eqb op OpFinish) in *.
           set (ff := (avail_in x =? 0) && opk_eqb op OpFlush) in *.
           destruct (encode_data (update_size_hint s (avail_in x)) il ff) as [[[|] s2]|w|w|] eqn:Eenc; try discriminate.
           destruct (encode_data_inv _ _ _ _ _ (inv_size_hint s _ Hi) ltac:(rewrite U2; exact Cao) ltac:(rewrite U1; exact Hok) Eenc)
             as [Hi2 [Hok2 [Hst2 Hroom]]].
           destruct (encode_data_true _ _ _ _ Eenc) as (a & rest & O1 & O2 & O3 & O4 & O5 & O6 & O7 & O8 & O9 & O10).
           destruct (encode_data_out _ _ _ _ Eenc) as (a' & rest' & O1' & _ & Q1 & Q2 & Q3).
           rewrite O1 in O1'. inversion O1'; subst a' rest'; clear O1'.
           rewrite U1 in O1. rewrite V3 in O3, O8. rewrite V4 in O7.
           assert (Ha2 : answer_ok2 a) by (rewrite O1 in Hok; inversion Hok; assumption).
           assert (Hta : tclean a /\ Forall tclean rest) by (rewrite O1 in Htc; inversion Htc; split; assumption).
           destruct (answer_ok_pos a (proj1 Ha2) O6) as [Hlfp Hlast].
           match type of Hrun with stream_loop fu op ?t x = _ => set (s4 := t) in * end.
           assert (Hi4 : inv s4).
           { unfold s4.
             assert (Hi3 : inv (if ff then set_sstate s2 SFlushRequested else s2)).
             { destruct ff; [|exact Hi2].
               apply inv_set_sstate; [exact Hi2|]. intros _ _ Hne. destruct (Hroom eq_refl Hne) as [R1 [R2 R3]].
               exists 0. split; [exact R1|]. split; lia. }
             destruct il; [|exact Hi3]. apply inv_set_sstate; [exact Hi3|]. intros H; discriminate H. }
           assert (F4 : oracle s4 = rest /\ last_bytes s4 = a_lb a /\ last_bytes_bits s4 = a_lbb a /\ input_pos s4 = input_pos s
                        /\ forall e, wire e s4 = wire e s2).
           { unfold s4. destruct ff, il; fs; repeat split; try assumption; try reflexivity. }
           destruct F4 as (F1 & F2 & F3 & F5 & F6).
           assert (Hcl4 : clean s4) by (unfold clean; rewrite F2, F3; exact (proj1 (proj1 Hta))).
           assert (Hok4 : all_ok2 (oracle s4)) by (rewrite F1; rewrite <- O2; exact Hok2).
           assert (Htc4 : Forall tclean (oracle s4)) by (rewrite F1; exact (proj2 Hta)).
           assert (HP4 : input_pos s4 + avail_in x = P) by (rewrite F5; exact HP).
           destruct (IH _ _ _ _ _ em P Hi4 Hok4 Htc4 Hcl4 HP4 HP64 Hrun) as (segs & consumed & T).
           destruct T as [T1 T2 T3 T4 T5 T6 T7 T8 T9 T10 T11 T12].
           rewrite F1 in T1. rewrite F2, F3 in T2, T3. rewrite F5 in T11.
           exists (SAns (last_bytes s) (last_bytes_bits s) a :: segs), (a :: consumed). constructor.
           ++ rewrite O1, T1. reflexivity.
           ++ cbn [schain]. repeat split; try reflexivity. exact T2.
           ++ cbn [ans_of annotate]. rewrite T3. reflexivity.
           ++ intros H. contradiction.
           ++ intros H. rewrite Cst in H. discriminate H.
           ++ intros K. unfold kept in K. cbn [ans_of] in K. inversion K as [|? ? K1 K2]; subst.
              unfold kept1 in K1. cbn [fst snd] in K1.
              rewrite (T6 K2), F6.
              rewrite (wire_answer (em ++ produced x) (update_size_hint s (avail_in x)) s2 a) by
                (try assumption; try (rewrite U2; exact Cao); rewrite V1, V2; exact K1).
              rewrite wire_size_hint, V2.
              change (segs_bits (SAns (last_bytes s) (last_bytes_bits s) a :: segs))
                with (g_answer_bits (last_bytes_bits s) a ++ segs_bits segs).
              rewrite <- app_assoc. reflexivity.
           ++ constructor; [|exact T7]. rewrite O3 in Hlfp. lia.
           ++ intros Hf. right.
              destruct il eqn:Eil.
              ** (* the last answer: the encoder is finished, nothing follows *)
                 assert (Hs4 : sstate_ s4 = SFinished) by (unfold s4; destruct ff; reflexivity).
                 destruct (T5 Hs4) as [Sg _]. pose proof (T4 ltac:(rewrite Hs4; discriminate)) as Cg. subst segs consumed.
                 exists [], a, [], (last_bytes s), (last_bytes_bits s). repeat split; try reflexivity; try constructor.
                 --- exact O5.
                 --- rewrite (Hlast O5), O3.
                     assert (Hai : avail_in x = 0).
                     { unfold il in Eil. apply andb_true_iff in Eil. destruct Eil as [E _]. apply N.eqb_eq; exact E. }
                     destruct T11 as [A Bq]. lia.
              ** assert (Hs4 : sstate_ s4 <> SFinished).
                 { unfold s4. destruct ff; fs; [discriminate|]. rewrite Hst2, V4, Cst. discriminate. }
                 destruct (T8 Hf) as [K|(pre & a2 & segs0 & clb & clbb & K1 & K2 & K3 & K4 & K5)]; [contradiction|].
                 exists (a :: pre), a2, (SAns (last_bytes s) (last_bytes_bits s) a :: segs0), clb, clbb.
                 rewrite K1, K5. repeat split; try reflexivity; try assumption.
                 constructor; [exact O5|exact K2].
           ++ intros Hnf. destruct il eqn:Eil.
              ** assert (Hs4 : sstate_ s4 = SFinished) by (unfold s4; destruct ff; reflexivity).
                 destruct (T5 Hs4) as [_ K]. contradiction.
              ** constructor; [exact O5|]. apply T9. exact Hnf.
           ++ exact T10.
           ++ destruct T11 as [A Bq]. split; assumption.
           ++ intros Hop _.
              assert (Eff : ff = false) by (unfold ff; rewrite Hop; apply andb_false_r).
              assert (Hs4 : sstate_ s4 <> SFlushRequested).
              { unfold s4. rewrite Eff. destruct il; fs; [discriminate|]. rewrite Hst2, V4, Cst. discriminate. }
              destruct (T12 Hop Hs4) as [A Bq]. split; [constructor; [exact I|exact A]|exact Bq].
        -- (* the call returns *)
           inversion Hrun; subst s' x'; clear Hrun.
           destruct (cfc_fields s) as (G1 & G2 & G3 & G4 & G5 & G6).
           exists [], []. constructor.
           ++ rewrite G3. reflexivity.
           ++ cbn [schain]. split; assumption.
           ++ reflexivity.
           ++ intros _. reflexivity.
           ++ intros H. split; [reflexivity|]. apply G5. exact H.
           ++ intros _. rewrite wire_cfc. cbn [segs_bits flat_map]. rewrite app_nil_r. reflexivity.
           ++ constructor.
           ++ intros H. left. apply G5. exact H.
           ++ intros _. constructor.
           ++ split; [apply check_flush_inv; exact Hi|]. rewrite G3. split; [exact Hok|]. split; [exact Htc|].
              unfold clean. rewrite G1, G2. exact Hcl.
           ++ rewrite G4. split; [exact HP|lia].
           ++ intros _ H. split; [constructor|apply G6; exact H].
Qed.
