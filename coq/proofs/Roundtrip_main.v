(* C01 composition: the theorems.  Main path (quality >= 2, or catable, or magic: fastcond = false),
   scripts of PROCESS / FLUSH / FINISH calls with arbitrary input chunks and output capacities:
   if the back-end answers are faithful (faithful_at, at the pending bits computed by g_ann) and
   respect the pending partial byte (answer_ok3), the decoder spec decodes the emitted bytes to the
   input. *)
From Coq Require Import NArith ZArith List Bool Lia PeanoNat.
From V Require Import lib.Words lib.PMap spec.RfcTables spec.PrefixCode spec.Decoder model.Stream model.MetaBlockHeader
  proofs.Bitops proofs.MbHeader_proofs proofs.Format_proofs proofs.Stored_proofs proofs.Stream_proofs proofs.Dist_proofs proofs.NoPanic_proofs
  proofs.Slicing_proofs proofs.Roundtrip_defs proofs.Roundtrip_bits proofs.Roundtrip_dec proofs.Roundtrip_segs proofs.Roundtrip_chain
  proofs.Roundtrip_wire proofs.Roundtrip_loop proofs.Roundtrip_run.
Import ListNotations.
Open Scope N_scope.

Lemma answer_ok3s_parts a : answer_ok3s a = true -> answer_ok2 a /\ tclean a.
Proof.
  unfold answer_ok3s, size_ok, tail_clean. intros H.
  apply andb_true_iff in H. destruct H as [H H3]. apply andb_true_iff in H. destruct H as [H1 H2].
  apply andb_true_iff in H3. destruct H3 as [H3 H4]. apply N.ltb_lt in H2.
  split; [split; assumption|]. split.
  - apply orb_true_iff in H3. destruct H3 as [H3|H3].
    + apply andb_true_iff in H3. destruct H3 as [A B]. apply N.eqb_eq in A, B. left. split; assumption.
    + right. apply N.ltb_lt. exact H3.
  - intros Hl. rewrite Hl in H4. apply N.eqb_eq. exact H4.
Qed.

Lemma kept_ann_sound l : kept_ann l = true -> Forall kept1 l.
Proof.
  unfold kept_ann. intros H. apply Forall_forall. intros c Hc.
  pose proof (proj1 (forallb_forall _ _) H c Hc) as K. apply carry_keptb_sound. exact K.
Qed.

Section Main.
  Variable dict_word : N -> N -> list N.
  Variable transform_tbl : N -> option (list N * N * list N).

  (* ------------------------------------------------------------------ segments of a finished run => segs_ok *)
  Lemma close_segs B large wbits input : forall pre lb lbb pl clb clbb a lb' lbb',
    schain lb lbb (pre ++ [SAns clb clbb a]) lb' lbb' ->
    kept (pre ++ [SAns clb clbb a]) ->
    faithful_ann dict_word transform_tbl B large wbits input pl (ans_of (pre ++ [SAns clb clbb a])) ->
    Forall (fun c => a_lfp (snd c) <= lenN input) (ans_of (pre ++ [SAns clb clbb a])) ->
    Forall (fun c => notlast (snd c)) (ans_of pre) ->
    a_is_last a = true -> a_lfp a = lenN input -> a_lbb a = 0 ->
    segs_ok dict_word transform_tbl large wbits B input lb lbb pl (pre ++ [SAns clb clbb a]).
  Proof.
    induction pre as [|g t IH]; intros lb lbb pl clb clbb a lb' lbb' Hc Hk Hf Hl Hn Hlast Hfin Hz.
    - cbn [app schain ans_of] in *. destruct Hc as (-> & -> & _). unfold kept in Hk. cbn [ans_of] in Hk.
      inversion Hk as [|? ? K1 _]; subst. unfold kept1 in K1. cbn [fst snd] in K1.
      cbn [faithful_ann fst snd] in Hf. destruct Hf as [Hf _]. inversion Hl as [|? ? L1 _]; subst. cbn [snd] in L1.
      cbn [segs_ok]. rewrite Hlast. repeat split; try assumption; reflexivity.
    - destruct g as [c1 c2 a1|c|c p]; cbn [app schain ans_of] in *.
      + destruct Hc as (-> & -> & Hc). unfold kept in Hk. cbn [ans_of] in Hk. inversion Hk as [|? ? K1 K2]; subst.
        unfold kept1 in K1. cbn [fst snd] in K1. cbn [faithful_ann fst snd] in Hf. destruct Hf as [Hf1 Hf2].
        inversion Hl as [|? ? L1 L2]; subst. cbn [snd] in L1. inversion Hn as [|? ? N1 N2]; subst. cbn [snd] in N1.
        cbn [segs_ok]. unfold notlast in N1. rewrite N1. repeat split; try assumption; try reflexivity.
        eapply IH; eassumption.
      + destruct Hc as (-> & Hc16 & Hc). cbn [segs_ok]. repeat split; try assumption; try reflexivity. eapply IH; eassumption.
      + destruct Hc as (-> & Hc16 & Hp & Hb & Hc). cbn [segs_ok]. repeat split; try assumption; try reflexivity. eapply IH; eassumption.
  Qed.

  Section Script.
    Variable C : Type.
    Variable c_op : C -> opk.
    Variable c_in : C -> list N.
    Variable c_cap : C -> N.
    Notation run := (g_run_calls C c_op c_in c_cap).
    Notation inputs := (g_input C c_op c_in).
    Notation anns := (g_ann C c_op c_in c_cap).

    Lemma run_init s c t em : run s (c :: t) em = run (ensure_initialized s) (c :: t) em.
    Proof. cbn [g_run_calls]. rewrite compress_stream_init. reflexivity. Qed.

    Lemma ann_init s cs : anns s cs = anns (ensure_initialized s) cs.
    Proof. destruct cs as [|c t]; [reflexivity|]. cbn [g_ann]. rewrite compress_stream_init, ensure_initialized_idem. reflexivity. Qed.

    (* what a finished run has emitted *)
    Lemma run_final nf params cs answers s' emitted :
      let s0 := state0 params answers in
      let s1 := ensure_initialized s0 in
      let input := inputs cs in
      forallb answer_ok3s answers = true -> no_meta C c_op cs = true -> (nf = true -> no_flush C c_op cs = true) ->
      fastcond s1 = false -> lenN input < 2 ^ 64 ->
      run s0 cs [] = Done (true, s', emitted) -> is_finished s' = true ->
      exists pre clb clbb a,
        let segs := pre ++ [SAns clb clbb a] in
        (kept segs -> bytes_bits emitted = lbits s1 ++ segs_bits segs)
        /\ ans_of segs = anns s0 cs
        /\ schain (last_bytes s1) (last_bytes_bits s1) segs (a_lb a) (a_lbb a)
        /\ Forall (fun c => a_lfp (snd c) <= lenN input) (ans_of segs)
        /\ Forall (fun c => notlast (snd c)) (ans_of pre)
        /\ a_is_last a = true /\ a_lfp a = lenN input /\ a_lbb a = 0
        /\ (nf = true -> Forall notpad segs)
        /\ map snd (ans_of segs) ++ oracle s' = answers.
    Proof.
      intros s0 s1 input Hok3 Hnm Hnf Hfc H64 Hrun Hfin.
      assert (Hpr : pristine s0).
      { unfold s0, state0. pose proof (pristine_fold params init_st) as P.
        specialize (P ltac:(unfold pristine; repeat split; reflexivity)). exact P. }
      destruct (init_facts s0 Hpr) as (I1 & I2 & I3 & I4 & I5 & I6 & I7 & I8 & I9). fold s1 in I1, I2, I3, I4, I5, I6, I7, I8, I9.
      assert (Hor : oracle s1 = answers) by (rewrite I7; reflexivity).
      assert (Hall : Forall (fun a => answer_ok2 a /\ tclean a) answers).
      { apply Forall_forall. intros a Ha. apply answer_ok3s_parts. exact (proj1 (forallb_forall _ _) Hok3 a Ha). }
      destruct cs as [|c t].
      { cbn [g_run_calls] in Hrun. inversion Hrun; subst s' emitted. exfalso.
        unfold is_finished in Hfin. destruct Hpr as (_ & Hs & _). rewrite Hs in Hfin. discriminate Hfin. }
      rewrite run_init in Hrun. fold s1 in Hrun.
      assert (G : ginv nf answers (last_bytes s1) (last_bytes_bits s1) (lbits s1) [] s1 [] []).
      { constructor; try assumption.
        - rewrite Hor. eapply Forall_impl; [|exact Hall]. intros a Ha. exact (proj1 Ha).
        - rewrite Hor. eapply Forall_impl; [|exact Hall]. intros a Ha. exact (proj2 Ha).
        - cbn [schain]. split; reflexivity.
        - intros _. unfold wire. rewrite (pend_nil s1 I6). cbn [app bytes_bits flat_map segs_bits]. rewrite app_nil_r. reflexivity.
        - constructor.
        - intros H. rewrite I5 in H. discriminate H.
        - intros _. constructor.
        - intros _. split; [rewrite I5; discriminate|constructor].
        - constructor. }
      destruct (run_trace C c_op c_in c_cap nf answers _ _ _ (c :: t) s1 [] [] [] s' emitted G Hnm Hnf H64 Hrun) as (segs & G' & A).
      cbn [app] in G'. destruct G' as [G1 G2 G3 G4 G5 G6 G7 G8 G9 G10 G11 G12 G13 G14 G15].
      unfold is_finished, has_more_output in Hfin. apply andb_true_iff in Hfin. destruct Hfin as [Hf1 Hf2].
      apply sstate_eqb_spec in Hf1. apply negb_true_iff in Hf2. apply negb_false_iff in Hf2. apply N.eqb_eq in Hf2.
      destruct (G11 Hf1) as (pre & clb & clbb & a & E & Hnl & Hl & Hp).
      exists pre, clb, clbb, a. cbv zeta. rewrite <- E.
      destruct (schain_snoc pre _ _ clb clbb a _ _ ltac:(rewrite <- E; exact G8)) as [Elb Elbb].
      assert (Hz : a_lbb a = 0).
      { rewrite E, ans_of_app in G14. apply Forall_app in G14. destruct G14 as [_ K]. cbn [ans_of] in K.
        pose proof (Forall_inv K) as K1. cbn [snd] in K1. exact (proj2 K1 Hl). }
      split; [|split; [|split; [|split; [|split; [|split; [|split; [|split; [|split]]]]]]]].
      - intros K. rewrite <- (G9 K). unfold wire. rewrite (pend_nil s' Hf2), app_nil_r.
        unfold lbits. rewrite Elbb, Hz. cbn [N.to_nat N_to_bits]. rewrite app_nil_r. reflexivity.
      - rewrite A. symmetry. apply ann_init.
      - rewrite <- Elb, <- Elbb. exact G8.
      - exact G10.
      - exact Hnl.
      - exact Hl.
      - rewrite Hp, G7. reflexivity.
      - exact Hz.
      - intros E1. exact (proj2 (G13 E1)).
      - exact G15.
    Qed.

    (* ================================================================================= *)
    (* THE THEOREM for the main path without metadata calls (FLUSH calls allowed)          *)
    (* ================================================================================= *)
    Theorem roundtrip_main_path params cs answers s' emitted B :
      let s0 := state0 params answers in
      let s1 := ensure_initialized s0 in
      let input := inputs cs in
      forallb answer_ok3s answers = true ->
      no_meta C c_op cs = true -> fastcond s1 = false -> lenN input < 2 ^ 64 ->
      kept_ann (anns s0 cs) = true ->
      faithful_ann dict_word transform_tbl B (large_window s1) (stream_wbits s1) input 0 (anns s0 cs) ->
      run s0 cs [] = Done (true, s', emitted) -> is_finished s' = true ->
      8 * lenN emitted <= B ->
      exists info, decode_bits dict_word transform_tbl true [] (bytes_bits emitted) B = Ok (input, info).
    Proof.
      intros s0 s1 input Hok3 Hnm Hfc H64 Hk Hf Hrun Hfin HB.
      destruct (run_final false params cs answers s' emitted Hok3 Hnm ltac:(intros H; discriminate H) Hfc H64 Hrun Hfin)
        as (pre & clb & clbb & a & Hw & Ha & Hc & Hl & Hnl & Hlast & Hlfp & Hz & _ & _).
      cbv zeta in Hw, Ha, Hc, Hl. fold s0 in Ha. fold s1 in Hw, Hc. fold input in Hl, Hlfp.
      assert (Hkept : kept (pre ++ [SAns clb clbb a])) by (unfold kept; rewrite Ha; apply kept_ann_sound; exact Hk).
      rewrite (Hw Hkept).
      assert (Hpr : pristine s0).
      { unfold s0, state0. exact (pristine_fold params init_st ltac:(unfold pristine; repeat split; reflexivity)). }
      destruct (init_facts s0 Hpr) as (_ & _ & _ & _ & _ & _ & _ & _ & I9). fold s1 in I9.
      apply (dec_stream dict_word transform_tbl (large_window s1) (stream_wbits s1) B input (lbits s1)
               (last_bytes s1) (last_bytes_bits s1) (pre ++ [SAns clb clbb a]) I9).
      - eapply close_segs; try eassumption. rewrite Ha. exact Hf.
      - pose proof (f_equal (@length bool) (Hw Hkept)) as L. rewrite bytes_bits_length, app_length in L.
        unfold lenN in HB. lia.
    Qed.

    (* ... for the decoder spec's own entry point [decode] (budget 8*|stream| + 8) *)
    Corollary roundtrip_main_path_decode params cs answers s' emitted :
      let s0 := state0 params answers in
      let s1 := ensure_initialized s0 in
      let input := inputs cs in
      forallb answer_ok3s answers = true ->
      no_meta C c_op cs = true -> fastcond s1 = false -> lenN input < 2 ^ 64 ->
      kept_ann (anns s0 cs) = true ->
      faithful_ann dict_word transform_tbl (8 * lenN emitted + 8) (large_window s1) (stream_wbits s1) input 0 (anns s0 cs) ->
      run s0 cs [] = Done (true, s', emitted) -> is_finished s' = true ->
      exists info, decode dict_word transform_tbl true [] emitted = Ok (input, info).
    Proof.
      intros s0 s1 input Hok3 Hnm Hfc H64 Hk Hf Hrun Hfin.
      apply (roundtrip_main_path params cs answers s' emitted (8 * lenN emitted + 8) Hok3 Hnm Hfc H64 Hk Hf Hrun Hfin). lia.
    Qed.

    (* ================================================================================= *)
    (* no FLUSH, no metadata: the premise of props/C01.v VERBATIM (g_all_faithful), plus    *)
    (* the boolean premises about the pending partial byte                                  *)
    (* ================================================================================= *)
    Lemma nopad_ann : forall segs lb lbb lb' lbb', Forall notpad segs -> schain lb lbb segs lb' lbb' ->
      ans_of segs = annotate lb lbb (map snd (ans_of segs)).
    Proof.
      induction segs as [|g t IH]; intros lb lbb lb' lbb' Hn Hc; [reflexivity|].
      inversion Hn as [|? ? N1 N2]; subst. destruct g as [c1 c2 a1|c|c p]; try destruct N1.
      cbn [schain ans_of map snd annotate] in *. destruct Hc as (-> & -> & Hc). f_equal. eapply IH; eassumption.
    Qed.

    Lemma kept_chain_ann : forall l rest lb lbb, kept_chain lb lbb (l ++ rest) = true -> kept_ann (annotate lb lbb l) = true.
    Proof.
      induction l as [|a t IH]; intros rest lb lbb H; [reflexivity|].
      cbn [app kept_chain] in H. apply andb_true_iff in H. destruct H as [H1 H2].
      unfold kept_ann. cbn [annotate forallb fst snd]. rewrite H1. exact (IH rest _ _ H2).
    Qed.

    Lemma all_faithful_ann B large wbits input : forall l rest lb lbb pl,
      Forall (fun a => 8 * lenN (a_out a) + 64 <= B) (l ++ rest) ->
      g_all_faithful dict_word transform_tbl large wbits input pl lbb (l ++ rest) ->
      faithful_ann dict_word transform_tbl B large wbits input pl (annotate lb lbb l).
    Proof.
      induction l as [|a t IH]; intros rest lb lbb pl HB H; [exact I|].
      cbn [app g_all_faithful] in H. destruct H as [H1 H2]. cbn [app] in HB. inversion HB as [|? ? B1 B2]; subst.
      cbn [annotate faithful_ann fst snd]. split; [apply backend_faithful_at; assumption|].
      exact (IH rest _ _ _ B2 H2).
    Qed.

    Theorem roundtrip_noflush_verbatim params cs answers s' emitted B :
      let s0 := state0 params answers in
      let s1 := ensure_initialized s0 in
      let input := inputs cs in
      forallb answer_ok3s answers = true ->
      no_meta C c_op cs = true -> no_flush C c_op cs = true -> fastcond s1 = false -> lenN input < 2 ^ 64 ->
      kept_chain (last_bytes s1) (last_bytes_bits s1) answers = true ->
      g_all_faithful dict_word transform_tbl (large_window s1) (stream_wbits s1) input 0 (last_bytes_bits s1) answers ->
      run s0 cs [] = Done (true, s', emitted) -> is_finished s' = true ->
      8 * lenN emitted <= B -> Forall (fun a => 8 * lenN (a_out a) + 64 <= B) answers ->
      exists info, decode_bits dict_word transform_tbl true [] (bytes_bits emitted) B = Ok (input, info).
    Proof.
      intros s0 s1 input Hok3 Hnm Hnf Hfc H64 Hk Hf Hrun Hfin HB HBa.
      destruct (run_final true params cs answers s' emitted Hok3 Hnm (fun _ => Hnf) Hfc H64 Hrun Hfin)
        as (pre & clb & clbb & a & _ & Ha & Hc & _ & _ & _ & _ & _ & Hnp & Hor).
      cbv zeta in Ha, Hc. fold s0 in Ha. fold s1 in Hc.
      pose proof (nopad_ann _ _ _ _ _ (Hnp eq_refl) Hc) as E. rewrite Ha in E.
      set (consumed := map snd (g_ann C c_op c_in c_cap s0 cs)) in *.
      rewrite Ha in Hor. fold consumed in Hor.
      apply (roundtrip_main_path params cs answers s' emitted B Hok3 Hnm Hfc H64); try assumption.
      - fold s0. rewrite E. apply (kept_chain_ann consumed (oracle s')). rewrite Hor. exact Hk.
      - fold s0. rewrite E. apply (all_faithful_ann B _ _ _ consumed (oracle s')); rewrite Hor; assumption.
    Qed.
  End Script.
End Main.
