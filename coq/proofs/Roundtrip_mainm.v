(* C01 composition: the theorem for the main path WITH metadata calls. *)
From Coq Require Import NArith ZArith List Bool Lia PeanoNat.
From V Require Import lib.Words lib.PMap spec.RfcTables spec.PrefixCode spec.Decoder model.Stream model.MetaBlockHeader
  proofs.Bitops proofs.MbHeader_proofs proofs.Format_proofs proofs.Stored_proofs proofs.Stream_proofs proofs.Dist_proofs proofs.NoPanic_proofs
  proofs.Slicing_proofs proofs.Roundtrip_defs proofs.Roundtrip_bits proofs.Roundtrip_dec proofs.Roundtrip_segs proofs.Roundtrip_chain
  proofs.Roundtrip_wire proofs.Roundtrip_loop proofs.Roundtrip_run proofs.Roundtrip_main proofs.Roundtrip_meta proofs.Roundtrip_runm.
Import ListNotations.
Open Scope N_scope.

Record ginvm (answers : list answer) (hlb hlbb : N) (hdr : bits) (inp : list N) (s : st) (em : list N) (segs : list seg) : Prop := {
  gm_init : initialized s = true;
  gm_fc : fastcond s = false;
  gm_inv : inv s;
  gm_ok : all_ok2 (oracle s);
  gm_tc : Forall tclean (oracle s);
  gm_clean : clean s;
  gm_pos : input_pos s = lenN inp;
  gm_chain : schain hlb hlbb segs (last_bytes s) (last_bytes_bits s);
  gm_wire : kept segs -> wire em s = hdr ++ segs_bits segs;
  gm_lfp : Forall (fun c => a_lfp (snd c) <= lenN inp) (ans_of segs);
  gm_last : sstate_ s = SFinished ->
            exists pre clb clbb a, segs = pre ++ [SAns clb clbb a] /\ Forall (fun c => notlast (snd c)) (ans_of pre)
                                   /\ a_is_last a = true /\ a_lfp a = input_pos s;
  gm_nolast : sstate_ s <> SFinished -> Forall (fun c => notlast (snd c)) (ans_of segs);
  gm_tail : Forall (fun c => tclean (snd c)) (ans_of segs);
  gm_or : map snd (ans_of segs) ++ oracle s = answers;
  gm_b : bstate_ok s
}.

Lemma ginvm_step answers hlb hlbb hdr inp inp' s em segs s1 out segs1 consumed :
  ginvm answers hlb hlbb hdr inp s em segs -> call_post (lenN inp') em s s1 out segs1 consumed -> lenN inp <= lenN inp' ->
  ginvm answers hlb hlbb hdr inp' s1 (em ++ out) (segs ++ segs1).
Proof.
  intros [G1 G2 G3 G4 G5 G6 G7 G8 G9 G10 G11 G12 G14 G15 G16] [T1 T2 T3 T6 T7 T8 T9 T10 T11 T12 T13] Hle.
  destruct T10 as (Hi1 & Hok1 & Htc1 & Hcl1). destruct T12 as [Hini1 Hfc1].
  constructor; try assumption.
  - eapply schain_app; eassumption.
  - intros K. unfold kept in K. rewrite ans_of_app in K. apply Forall_app in K. destruct K as [K1 K2].
    rewrite (T6 K2), (G9 K1), segs_bits_app, <- app_assoc. reflexivity.
  - rewrite ans_of_app. apply Forall_app. split.
    + eapply Forall_impl; [|exact G10]. intros c0 Hc0. cbn beta in Hc0. lia.
    + rewrite T3. apply (Forall_annotate (fun a => a_lfp a <= lenN inp')). exact T7.
  - intros Hf. destruct (T8 Hf) as [(Hs & E & Ep)|(Hns & pre & a & segs0 & clb & clbb & K1 & K2 & K3 & K4 & K5)].
    + subst segs1. destruct (G11 Hs) as (pre & clb & clbb & a & K1 & K2 & K3 & K4).
      exists pre, clb, clbb, a. rewrite app_nil_r. repeat split; try assumption. rewrite K4. lia.
    + exists (segs ++ segs0), clb, clbb, a. rewrite K5, app_assoc. repeat split; try assumption.
      rewrite ans_of_app. apply Forall_app. split; [apply G12; exact Hns|].
      rewrite K5, ans_of_app, K1 in T3. cbn [ans_of] in T3.
      destruct (annotate_app pre [a] (last_bytes s) (last_bytes_bits s)) as (lb' & lbb' & E). rewrite E in T3.
      cbn [annotate] in T3. apply app_inj_tail in T3. destruct T3 as [T3 _]. rewrite T3.
      apply (Forall_annotate notlast). exact K2.
  - intros Hnf1. destruct (T9 Hnf1) as [A B].
    rewrite ans_of_app. apply Forall_app. split; [apply G12; exact B|].
    rewrite T3. apply (Forall_annotate notlast). exact A.
  - rewrite ans_of_app. apply Forall_app. split; [exact G14|]. rewrite T3. apply (Forall_annotate tclean).
    rewrite T1 in G5. apply Forall_app in G5. exact (proj1 G5).
  - rewrite ans_of_app, map_app, T3, map_snd_annotate, <- app_assoc, <- T1. exact G15.
Qed.

Section MainM.
  Variable dict_word : N -> N -> list N.
  Variable transform_tbl : N -> option (list N * N * list N).
  Variable C : Type.
  Variable c_op : C -> opk.
  Variable c_in : C -> list N.
  Variable c_cap : C -> N.
  Notation run := (g_run_calls C c_op c_in c_cap).
  Notation inputs := (g_input C c_op c_in).
  Notation anns := (g_ann C c_op c_in c_cap).

  Lemma input_cons_meta c t : opk_eqb (c_op c) OpMeta = true -> inputs (c :: t) = inputs t.
  Proof. intros H. unfold g_input. cbn [filter]. rewrite H. reflexivity. Qed.

  Lemma run_trace_m answers hlb hlbb hdr : forall cs s em segs inp s' emitted,
    ginvm answers hlb hlbb hdr inp s em segs ->
    meta_bytes_ok C c_op c_in cs = true -> lenN (inp ++ inputs cs) < 2 ^ 64 ->
    run s cs em = Done (true, s', emitted) ->
    exists segs', ginvm answers hlb hlbb hdr (inp ++ inputs cs) s' emitted (segs ++ segs') /\ ans_of segs' = anns s cs.
  Proof.
    induction cs as [|c t IH]; intros s em segs inp s' emitted G Hmb H64 Hrun.
    - cbn [g_run_calls] in Hrun. inversion Hrun; subst s' emitted. exists []. rewrite !app_nil_r. split; [exact G|reflexivity].
    - cbn [g_run_calls] in Hrun. cbn [meta_bytes_ok forallb] in Hmb. apply andb_true_iff in Hmb. destruct Hmb as [Hmb1 Hmb2].
      destruct (compress_stream s (c_op c) (c_in c) (lenN (c_in c)) (c_cap c)) as [[[[|] s1] x]| | |] eqn:Ecall; try discriminate.
      destruct (N.eqb_spec (avail_in x) 0) as [Eai|]; [|discriminate].
      pose proof G as [G1 G2 G3 G4 G5 G6 G7 _ _ _ _ _ _ _ G16].
      assert (Hstep : exists segs1 consumed inp', inputs (c :: t) = (inp' ++ inputs t) /\
                call_post (lenN (inp ++ inp')) em s s1 (produced x) segs1 consumed).
      { destruct (opk_eqb (c_op c) OpMeta) eqn:Eop.
        - assert (Hop : c_op c = OpMeta) by (destruct (c_op c); try discriminate Eop; reflexivity).
          rewrite Hop in Ecall.
          assert (Hby : Forall (fun b => b < 256) (c_in c)).
          { apply Forall_forall. intros b Hb. apply N.ltb_lt. exact (proj1 (forallb_forall _ _) Hmb1 b Hb). }
          destruct (meta_call_post s (c_in c) (lenN (c_in c)) (c_cap c) s1 x em G1 G2 G3 G4 G5 G6 G16 eq_refl Hby Ecall Eai) as (segs1 & consumed & T).
          exists segs1, consumed, []. split; [apply input_cons_meta; exact Eop|]. rewrite app_nil_r, <- G7. exact T.
        - assert (Hop : c_op c <> OpMeta) by (intros E; rewrite E in Eop; discriminate Eop).
          rewrite (input_cons_nometa C c_op c_in c t Eop) in H64.
          assert (H64c : input_pos s + lenN (c_in c) < 2 ^ 64).
          { rewrite G7. apply (N.le_lt_trans _ (lenN (inp ++ c_in c ++ inputs t))); [rewrite !lenN_app; lia|exact H64]. }
          destruct (stream_call_post s (c_op c) (c_in c) (lenN (c_in c)) (c_cap c) s1 x em G1 G2 Hop G3 G4 G5 G6 H64c Ecall Eai) as (segs1 & consumed & T).
          exists segs1, consumed, (c_in c). split; [apply input_cons_nometa; exact Eop|]. rewrite lenN_app, <- G7. exact T. }
      destruct Hstep as (segs1 & consumed & inp' & Ein & T).
      rewrite Ein in *. rewrite app_assoc in H64.
      pose proof (ginvm_step answers hlb hlbb hdr inp (inp ++ inp') s em segs s1 (produced x) segs1 consumed G T ltac:(rewrite lenN_app; lia)) as G'.
      destruct (IH s1 (em ++ produced x) (segs ++ segs1) (inp ++ inp') s' emitted G' Hmb2 H64 Hrun) as (segs2 & G2' & A2).
      exists (segs1 ++ segs2). rewrite !app_assoc in *. split; [exact G2'|].
      destruct T as [T1 _ T3 _ _ _ _ _ _ _ _].
      rewrite ans_of_app, A2, T3. cbn [g_ann]. rewrite (ensure_initialized_id s G1), Ecall.
      destruct (N.eqb_spec (avail_in x) 0) as [_|K]; [|contradiction].
      f_equal. f_equal. rewrite T1, app_length. replace (length consumed + length (oracle s1) - length (oracle s1))%nat with (length consumed) by lia.
      rewrite firstn_app, Nat.sub_diag, firstn_all. cbn [firstn]. rewrite app_nil_r. reflexivity.
  Qed.

  (* ================================================================================= *)
  (* THE THEOREM for the main path: PROCESS / FLUSH / FINISH / EMIT_METADATA calls          *)
  (* ================================================================================= *)
  Theorem roundtrip_main_path_meta params cs answers s' emitted B :
    let s0 := state0 params answers in
    let s1 := ensure_initialized s0 in
    let input := inputs cs in
    forallb answer_ok3s answers = true ->
    meta_bytes_ok C c_op c_in cs = true -> fastcond s1 = false -> lenN input < 2 ^ 64 ->
    kept_ann (anns s0 cs) = true ->
    faithful_ann dict_word transform_tbl B (large_window s1) (stream_wbits s1) input 0 (anns s0 cs) ->
    run s0 cs [] = Done (true, s', emitted) -> is_finished s' = true ->
    8 * lenN emitted <= B ->
    exists info, decode_bits dict_word transform_tbl true [] (bytes_bits emitted) B = Ok (input, info).
  Proof.
    intros s0 s1 input Hok3 Hmb Hfc H64 Hk Hf Hrun Hfin HB.
    assert (Hpr : pristine s0).
    { unfold s0, state0. exact (pristine_fold params init_st ltac:(unfold pristine; repeat split; reflexivity)). }
    destruct (init_facts s0 Hpr) as (I1 & I2 & I3 & I4 & I5 & I6 & I7 & I8 & I9). fold s1 in I1, I2, I3, I4, I5, I6, I7, I8, I9.
    assert (Hor : oracle s1 = answers) by (rewrite I7; reflexivity).
    assert (Hall : Forall (fun a => answer_ok2 a /\ tclean a) answers).
    { apply Forall_forall. intros a Ha. apply answer_ok3s_parts. exact (proj1 (forallb_forall _ _) Hok3 a Ha). }
    destruct cs as [|c t].
    { cbn [g_run_calls] in Hrun. inversion Hrun; subst s' emitted. exfalso.
      unfold is_finished in Hfin. destruct Hpr as (_ & Hs & _). rewrite Hs in Hfin. discriminate Hfin. }
    rewrite (run_init C c_op c_in c_cap) in Hrun. fold s1 in Hrun.
    assert (G : ginvm answers (last_bytes s1) (last_bytes_bits s1) (lbits s1) [] s1 [] []).
    { constructor; try assumption.
      - rewrite Hor. eapply Forall_impl; [|exact Hall]. intros a Ha. exact (proj1 Ha).
      - rewrite Hor. eapply Forall_impl; [|exact Hall]. intros a Ha. exact (proj2 Ha).
      - cbn [schain]. split; reflexivity.
      - intros _. unfold wire. rewrite (pend_nil s1 I6). cbn [app bytes_bits flat_map segs_bits]. rewrite app_nil_r. reflexivity.
      - constructor.
      - intros H. rewrite I5 in H. discriminate H.
      - intros _. constructor.
      - constructor.
      - apply nometa_bstate. split; rewrite I5; discriminate. }
    destruct (run_trace_m answers _ _ _ (c :: t) s1 [] [] [] s' emitted G Hmb H64 Hrun) as (segs & G' & A).
    cbn [app] in G'. destruct G' as [G1 G2 G3 G4 G5 G6 G7 G8 G9 G10 G11 G12 G14 G15 G16].
    unfold is_finished, has_more_output in Hfin. apply andb_true_iff in Hfin. destruct Hfin as [Hf1 Hf2].
    apply sstate_eqb_spec in Hf1. apply negb_true_iff in Hf2. apply negb_false_iff in Hf2. apply N.eqb_eq in Hf2.
    destruct (G11 Hf1) as (pre & clb & clbb & a & E & Hnl & Hl & Hp).
    destruct (schain_snoc pre _ _ clb clbb a _ _ ltac:(rewrite <- E; exact G8)) as [Elb Elbb].
    assert (Hz : a_lbb a = 0).
    { rewrite E, ans_of_app in G14. apply Forall_app in G14. destruct G14 as [_ K]. cbn [ans_of] in K.
      pose proof (Forall_inv K) as K1. cbn [snd] in K1. exact (proj2 K1 Hl). }
    assert (Ha : ans_of segs = anns s0 (c :: t)) by (rewrite A; symmetry; apply ann_init).
    assert (Hkept : kept segs) by (unfold kept; rewrite Ha; apply kept_ann_sound; exact Hk).
    assert (Hw : bytes_bits emitted = lbits s1 ++ segs_bits segs).
    { rewrite <- (G9 Hkept). unfold wire. rewrite (pend_nil s' Hf2), app_nil_r.
      unfold lbits. rewrite Elbb, Hz. cbn [N.to_nat N_to_bits]. rewrite app_nil_r. reflexivity. }
    rewrite Hw.
    apply (dec_stream dict_word transform_tbl (large_window s1) (stream_wbits s1) B input (lbits s1)
             (last_bytes s1) (last_bytes_bits s1) segs I9).
    - rewrite E. eapply close_segs; try eassumption.
      + rewrite <- E. exact G8.
      + rewrite <- E. exact Hkept.
      + rewrite <- E, Ha. exact Hf.
      + rewrite <- E. exact G10.
      + rewrite Hp, G7. reflexivity.
    - pose proof (f_equal (@length bool) Hw) as L. rewrite bytes_bits_length, app_length in L. unfold lenN in HB. lia.
  Qed.

  Corollary roundtrip_main_path_meta_decode params cs answers s' emitted :
    let s0 := state0 params answers in
    let s1 := ensure_initialized s0 in
    let input := inputs cs in
    forallb answer_ok3s answers = true ->
    meta_bytes_ok C c_op c_in cs = true -> fastcond s1 = false -> lenN input < 2 ^ 64 ->
    kept_ann (anns s0 cs) = true ->
    faithful_ann dict_word transform_tbl (8 * lenN emitted + 8) (large_window s1) (stream_wbits s1) input 0 (anns s0 cs) ->
    run s0 cs [] = Done (true, s', emitted) -> is_finished s' = true ->
    exists info, decode dict_word transform_tbl true [] emitted = Ok (input, info).
  Proof.
    intros s0 s1 input Hok3 Hmb Hfc H64 Hk Hf Hrun Hfin.
    apply (roundtrip_main_path_meta params cs answers s' emitted (8 * lenN emitted + 8) Hok3 Hmb Hfc H64 Hk Hf Hrun Hfin). lia.
  Qed.
End MainM.
