(* C01 composition, glue side IV: metadata calls (process_metadata / meta_loop).  A metadata call
   that consumes its payload appends to the wire: the bits of a forced-flush answer if input was
   pending, then the metadata block header (after the pending bits) and the payload bytes. *)
From Coq Require Import NArith ZArith List Bool Lia PeanoNat.
From V Require Import lib.Words spec.PrefixCode model.Stream model.MetaBlockHeader
  proofs.Bitops proofs.MbHeader_proofs proofs.Stored_proofs proofs.Stream_proofs proofs.Dist_proofs proofs.NoPanic_proofs
  proofs.Slicing_proofs proofs.MetaHeader_proofs proofs.Roundtrip_defs proofs.Roundtrip_bits proofs.Roundtrip_segs proofs.Roundtrip_chain
  proofs.Roundtrip_wire proofs.Roundtrip_loop.
Import ListNotations.
Open Scope N_scope.

(* nothing for a metadata call to flush first *)
Definition quiet (s : st) : Prop :=
  negb (input_pos s =? last_flush_pos s) || (magic s && first_pending s) = false.

Lemma lenN_0_nil (l : list N) : lenN l = 0 -> l = [].
Proof. destruct l; [reflexivity|]. unfold lenN. cbn [length]. lia. Qed.

Lemma take_skip (l : list N) off c : takeN c (skipN off l) ++ skipN (off + c) l = skipN off l.
Proof. rewrite <- skipN_skipN. unfold takeN, skipN. apply firstn_skipn. Qed.

Lemma firstn_le_bytes : forall a b v, (a <= b)%nat -> firstn a (le_bytes b v) = le_bytes a v.
Proof.
  induction a as [|a IH]; intros b v H; [reflexivity|]. destruct b as [|b]; [lia|].
  cbn [le_bytes firstn]. f_equal. apply IH. lia.
Qed.

Lemma padcond_meta s : sstate_ s = SMetaHead \/ sstate_ s = SMetaBody -> padcond s = false.
Proof. intros [H|H]; unfold padcond; rewrite H; reflexivity. Qed.

Lemma encode_data_meta s s2 : encode_data s false true = Done (true, s2) ->
  rem_meta s2 = rem_meta s /\ first_pending s2 = false /\ magic s2 = magic s.
Proof.
  unfold encode_data. intros H. destruct (oracle s) as [|a rest]; [discriminate|].
  repeat match type of H with (if ?c then _ else _) = _ => destruct c; try discriminate end;
  inversion H; subst s2; fs; repeat split; reflexivity.
Qed.

(* ------------------------------------------------------------------ the header *)
Lemma mhb_split lb lbb n : lbb < 16 -> lb < 2 ^ lbb -> n <= 2 ^ 24 ->
  metadata_header_bits lb lbb n = (lb + 2 ^ lbb * mh_val n, lbb + mh_len n).
Proof.
  intros Hl Hb Hn. destruct (N.eq_dec n 0) as [->|Hn0].
  - rewrite (header_bits_empty lb lbb Hl Hb). destruct mh_closed0 as [-> ->].
    apply f_equal2; [|lia]. rewrite N.pow_add_r. change (2 ^ 1) with 2. lia.
  - rewrite (header_bits_nonempty lb lbb n Hl Hb ltac:(lia)). destruct (mh_closed n ltac:(lia)) as [-> ->].
    apply f_equal2; [|lia]. rewrite !N.pow_add_r. change (2 ^ 1) with 2. change (2 ^ 4) with 16. change (2 ^ 6) with 64. change (2 ^ 2) with 4.
    remember (2 ^ lbb) as p. remember (nbytes_of n) as k. lia.
Qed.

Lemma header_wire em s : inv s -> avail_out_ s = 0 -> clean s -> rem_meta s <= 2 ^ 24 ->
  let s1 := set_sstate (write_metadata_header s) SMetaBody in
  wire em s1 = wire em s ++ meta_hdr_bits (last_bytes_bits s) (rem_meta s)
  /\ last_bytes s1 = 0 /\ last_bytes_bits s1 = 0 /\ inv s1 /\ oracle s1 = oracle s /\ rem_meta s1 = rem_meta s
  /\ sstate_ s1 = SMetaBody /\ input_pos s1 = input_pos s /\ last_flush_pos s1 = last_flush_pos s
  /\ magic s1 = magic s /\ first_pending s1 = first_pending s /\ same_cfg s s1.
Proof.
  intros Hi Hao Hcl Hn. cbv zeta.
  assert (Hl : last_bytes_bits s < 16) by (destruct Hi as [_ [_ [_ H]]]; exact H).
  pose proof (header_len_le (last_bytes s) (last_bytes_bits s) (rem_meta s) Hl Hn) as Hlen.
  assert (Hlb' : exists lb', lb' < 2 ^ last_bytes_bits s
            /\ metadata_header_bits (last_bytes s) (last_bytes_bits s) (rem_meta s) = metadata_header_bits lb' (last_bytes_bits s) (rem_meta s)
            /\ lbits s = N_to_bits (N.to_nat (last_bytes_bits s)) lb').
  { destruct Hcl as [[Z M]|Hcl]; [|exists (last_bytes s); split; [exact Hcl|split; reflexivity]].
    exists 0. unfold lbits. rewrite Z. split; [reflexivity|]. split; [|reflexivity].
    unfold metadata_header_bits. change (2 ^ (8 * (0 / 8 + 1))) with 256. rewrite M. reflexivity. }
  destruct Hlb' as (lb' & Hcl' & Emhb & Elb).
  unfold write_metadata_header. rewrite Emhb in *. rewrite (mhb_split _ _ _ Hl Hcl' Hn) in *. cbn [snd] in Hlen.
  set (v := lb' + 2 ^ last_bytes_bits s * mh_val (rem_meta s)) in *.
  set (k := (last_bytes_bits s + mh_len (rem_meta s) + 7) / 8) in *.
  split.
  - unfold wire. rewrite (pend_nil s Hao).
    assert (Hp : pend (set_sstate (upd_out (upd_bits s 0 0) (NoTiny 0) (storage (upd_bits s 0 0)) (storage_size (upd_bits s 0 0))
                                    (le_bytes 16 v) k (total_out_ (upd_bits s 0 0))) SMetaBody) = le_bytes (N.to_nat k) v).
    { unfold pend, view. fs. unfold takeN, skipN. cbn [N.to_nat skipn]. apply firstn_le_bytes. lia. }
    rewrite Hp. unfold lbits at 1. fs. cbn [N.to_nat N_to_bits]. rewrite !app_nil_r, bytes_bits_app, <- app_assoc. f_equal.
    rewrite le_bytes_bits. rewrite Elb. unfold meta_hdr_bits. fold k.
    destruct (fill_exists (last_bytes_bits s) (mh_len (rem_meta s))) as (f & Ef & Hf). fold k in Ef.
    replace (8 * N.to_nat k)%nat with (N.to_nat (last_bytes_bits s) + N.to_nat (8 * k - last_bytes_bits s))%nat by lia.
    unfold v. replace (2 ^ last_bytes_bits s) with (2 ^ N.of_nat (N.to_nat (last_bytes_bits s))) by (rewrite N2Nat.id; reflexivity).
    apply n2b_split. rewrite N2Nat.id. exact Hcl'.
  - fs. split; [reflexivity|]. split; [reflexivity|]. split; [|repeat split; reflexivity].
    destruct Hi as [Hc [Hp [Ht _]]]. unfold inv, cursor_ok, pad_ok. fs. rewrite lenN_le_bytes.
    split; [lia|]. split; [intros H; discriminate H|]. split; lia.
Qed.

(* ------------------------------------------------------------------ the payload *)
Lemma meta_body payload : forall fuel s x s' x' em,
  inv s -> sstate_ s = SMetaBody -> rem_meta s = avail_in x -> in_off x + avail_in x = lenN payload -> avail_in x <= 2 ^ 24 ->
  last_bytes s = 0 -> last_bytes_bits s = 0 -> quiet s ->
  meta_loop fuel payload s x = Done (true, s', x') -> avail_in x' = 0 ->
  wire (em ++ produced x') s' = wire (em ++ produced x) s ++ bytes_bits (skipN (in_off x) payload)
  /\ oracle s' = oracle s /\ inv s' /\ last_bytes s' = 0 /\ last_bytes_bits s' = 0 /\ input_pos s' = input_pos s /\ quiet s'
  /\ same_cfg s s'
  /\ ((sstate_ s' = SProcessing /\ rem_meta s' = U32MAX) \/ (sstate_ s' = SMetaBody /\ rem_meta s' = 0)).
Proof.
  induction fuel as [|fu IH]; intros s x s' x' em Hi Hst Hrem Hoff H24 Hlb Hlbb Hq Hrun Hai; [discriminate|].
  cbn [meta_loop] in Hrun. unfold inject_flush_or_push_output in Hrun. fold (padcond s) in Hrun.
  rewrite (padcond_meta s (or_intror Hst)) in Hrun.
  assert (Hsrc : lenN (skipN (in_off x) payload) = avail_in x) by (rewrite lenN_skipN; lia).
  destruct (negb (avail_out_ s =? 0) && negb (cap x =? 0)) eqn:Cpush.
  - (* push *)
    destruct (lenN (view s) <? N.min (avail_out_ s) (cap x)); [discriminate|].
    remember (N.min (avail_out_ s) (cap x)) as n eqn:En.
    assert (Hn : n <= avail_out_ s) by (subst n; apply N.le_min_l).
    change (upd_out s (no_incr (next_out s) n) (storage s) (storage_size s) (tiny s) (avail_out_ s - n)
                    (wadd64 (total_out_ s) n)) with (pushk s n) in Hrun.
    destruct (IH (pushk s n) (io_push x (takeN n (view s)) (wadd64 (total_out_ s) n)) s' x' em
                 (inv_pushk s n Hi Hn) Hst Hrem Hoff H24 Hlb Hlbb Hq Hrun Hai) as (W & R).
    split; [|exact R]. rewrite W. f_equal. cbn [produced io_push]. rewrite app_assoc.
    apply wire_push; [destruct Hi as [Hc _]; exact Hc|exact Hn].
  - destruct (N.eqb_spec (avail_out_ s) 0) as [Hao|Hao]; cbn [negb] in Hrun.
    + unfold quiet in Hq. rewrite Hq in Hrun. rewrite Hst in Hrun. cbn [sstate_eqb] in Hrun.
      destruct (N.eqb_spec (rem_meta s) 0) as [Hr0|Hr0].
      * (* the block is complete *)
        inversion Hrun; subst s' x'; clear Hrun.
        assert (E : skipN (in_off x) payload = []) by (apply lenN_0_nil; lia).
        rewrite E. cbn [bytes_bits flat_map]. rewrite app_nil_r.
        split; [reflexivity|]. split; [reflexivity|]. split.
        { destruct Hi as [Hc [Hp [Ht Hl]]]. unfold inv, cursor_ok, pad_ok in *. fs.
          split; [exact Hc|]. split; [intros H; discriminate H|split; assumption]. }
        split; [exact Hlb|]. split; [exact Hlbb|]. split; [reflexivity|]. split; [exact Hq|].
        split; [unfold same_cfg; fs; repeat split; reflexivity|]. left. split; reflexivity.
      * assert (Hlb0 : lbits s = []) by (unfold lbits; rewrite Hlbb; reflexivity).
        destruct (N.eqb_spec (cap x) 0) as [Hc0|Hc0]; cbn [negb] in Hrun.
        -- (* through the tiny buffer *)
           remember (N.min (rem_meta s) 16) as c eqn:Ec.
           assert (Hcle : c <= rem_meta s) by (subst c; apply N.le_min_l).
           assert (Hc16 : c <= 16) by (subst c; apply N.le_min_r).
           destruct (N.ltb_spec (lenN (skipN (in_off x) payload)) c) as [Hbad|Hgood]; [lia|].
           set (bs := takeN c (skipN (in_off x) payload)) in *.
           assert (Lbs : lenN bs = c) by (apply lenN_takeN; exact Hgood).
           match type of Hrun with meta_loop fu payload ?t ?y = _ => set (s2 := t) in *; set (x2 := y) in * end.
           assert (Hi2 : inv s2).
           { destruct Hi as [Hcu [Hp [Ht Hl]]]. unfold s2, inv, cursor_ok, pad_ok in *. fs.
             destruct (lenN_write_list bs (tiny s) 0) as [W1 _].
             split; [lia|]. split; [|split; [lia|assumption]]. intros H1. rewrite Hst in H1. discriminate H1. }
           assert (Hrem2 : rem_meta s2 = avail_in x2).
           { unfold s2, x2. fs. rewrite (wsub32_small (rem_meta s) c) by (try assumption; change (2 ^ 32) with 4294967296; change (2 ^ 24) with 16777216 in H24; lia). lia. }
           destruct (IH s2 x2 s' x' em Hi2 Hst Hrem2 ltac:(unfold x2; fs; lia) ltac:(unfold x2; fs; lia) Hlb Hlbb Hq Hrun Hai)
             as (W & O & R).
           assert (Hp2 : pend s2 = bs).
           { unfold s2, pend, view. fs. unfold takeN at 1, skipN at 1. change (N.to_nat 0) with 0%nat.
             replace (N.to_nat c) with (0 + length bs)%nat by (unfold lenN in Lbs; lia).
             change (write_list (tiny s) 0 bs) with (write_list (tiny s) (0 + 0) bs).
             rewrite (pend_after_write (tiny s) 0 0 bs) by lia. reflexivity. }
           split; [|split; [exact O|]].
           ++ rewrite W. unfold x2 at 1. cbn [produced io_consume]. unfold wire. rewrite Hp2, (pend_nil s Hao).
              change (lbits s2) with (lbits s). rewrite Hlb0, !app_nil_r.
              unfold x2. cbn [in_off io_consume]. rewrite bytes_bits_app, <- app_assoc, <- bytes_bits_app. f_equal. f_equal.
              apply take_skip.
           ++ destruct R as (R1 & R2 & R3 & R4 & R5 & R6 & R7).
              split; [exact R1|]. split; [exact R2|]. split; [exact R3|]. split; [exact R4|]. split; [exact R5|]. split; [|exact R7].
              eapply same_cfg_trans; [|exact R6]. unfold same_cfg, s2. fs. repeat split; reflexivity.
        -- (* straight into the caller's buffer *)
           remember (N.min (rem_meta s) (cap x)) as c eqn:Ec.
           assert (Hcle : c <= rem_meta s) by (subst c; apply N.le_min_l).
           destruct (N.ltb_spec (lenN (skipN (in_off x) payload)) c) as [Hbad|Hgood]; [lia|].
           set (bs := takeN c (skipN (in_off x) payload)) in *.
           match type of Hrun with meta_loop fu payload ?t ?y = _ => set (s2 := t) in *; set (x2 := y) in * end.
           assert (Hi2 : inv s2).
           { destruct Hi as [Hcu [Hp [Ht Hl]]]. unfold s2, inv, cursor_ok, pad_ok in *. fs.
             split; [exact Hcu|]. split; [exact Hp|split; assumption]. }
           assert (Hrem2 : rem_meta s2 = avail_in x2).
           { unfold s2, x2. fs. rewrite (wsub32_small (rem_meta s) c) by (try assumption; change (2 ^ 32) with 4294967296; change (2 ^ 24) with 16777216 in H24; lia). lia. }
           destruct (IH s2 x2 s' x' em Hi2 Hst Hrem2 ltac:(unfold x2; fs; lia) ltac:(unfold x2; fs; lia) Hlb Hlbb Hq Hrun Hai)
             as (W & O & R).
           split; [|split; [exact O|]].
           ++ rewrite W. unfold x2 at 1. cbn [produced]. unfold wire.
              change (pend s2) with (pend s). change (lbits s2) with (lbits s). rewrite (pend_nil s Hao), Hlb0, !app_nil_r.
              unfold x2. cbn [in_off io_consume]. rewrite app_assoc, bytes_bits_app, <- app_assoc, <- bytes_bits_app. f_equal. f_equal.
              apply take_skip.
           ++ destruct R as (R1 & R2 & R3 & R4 & R5 & R6 & R7).
              split; [exact R1|]. split; [exact R2|]. split; [exact R3|]. split; [exact R4|]. split; [exact R5|]. split; [|exact R7].
              eapply same_cfg_trans; [|exact R6]. unfold same_cfg, s2. fs. repeat split; reflexivity.
    + (* output pending and no room: the call returns *)
      inversion Hrun; subst s' x'; clear Hrun.
      assert (E : skipN (in_off x) payload = []) by (apply lenN_0_nil; lia).
      rewrite E. cbn [bytes_bits flat_map]. rewrite app_nil_r.
      split; [reflexivity|]. split; [reflexivity|]. split; [exact Hi|]. split; [exact Hlb|]. split; [exact Hlbb|].
      split; [reflexivity|]. split; [exact Hq|]. split; [apply same_cfg_refl|]. right. split; [exact Hst|lia].
Qed.

(* ------------------------------------------------------------------ a metadata call from its start *)
Definition meta_end (payload : list N) (s' : st) : Prop :=
  (sstate_ s' = SProcessing /\ rem_meta s' = U32MAX)
  \/ (sstate_ s' = SMetaBody /\ rem_meta s' = 0 /\ last_bytes s' = 0 /\ last_bytes_bits s' = 0 /\ quiet s')
  \/ (sstate_ s' = SMetaHead /\ rem_meta s' = 0 /\ payload = []).

Record mt_post (em : list N) (payload : list N) (s : st) (x : io) (s' : st) (x' : io) (segs : list seg) (consumed : list answer) : Prop := {
  mp_oracle : oracle s = consumed ++ oracle s';
  mp_chain : schain (last_bytes s) (last_bytes_bits s) segs (last_bytes s') (last_bytes_bits s');
  mp_ans : ans_of segs = annotate (last_bytes s) (last_bytes_bits s) consumed;
  mp_wire : kept segs -> wire (em ++ produced x') s' = wire (em ++ produced x) s ++ segs_bits segs;
  mp_lfp : Forall (fun a => a_lfp a <= input_pos s) consumed;
  mp_nolast : Forall notlast consumed;
  mp_inv : inv s' /\ all_ok2 (oracle s') /\ Forall tclean (oracle s') /\ clean s';
  mp_pos : input_pos s' = input_pos s;
  mp_cfg : same_cfg s s';
  mp_end : meta_end payload s';
  mp_quiet : quiet s -> consumed = [] /\ quiet s'
}.

Lemma meta_head payload : forall fuel s x s' x' em,
  inv s -> all_ok2 (oracle s) -> Forall tclean (oracle s) -> clean s ->
  sstate_ s = SMetaHead -> rem_meta s = avail_in x -> in_off x = 0 -> avail_in x = lenN payload -> avail_in x <= 2 ^ 24 ->
  Forall (fun b => b < 256) payload ->
  meta_loop fuel payload s x = Done (true, s', x') -> avail_in x' = 0 ->
  exists segs consumed, mt_post em payload s x s' x' segs consumed.
Proof.
  induction fuel as [|fu IH]; intros s x s' x' em Hi Hok Htc Hcl Hst Hrem Hoff Hlen H24 Hb Hrun Hai; [discriminate|].
  cbn [meta_loop] in Hrun. unfold inject_flush_or_push_output in Hrun. fold (padcond s) in Hrun.
  rewrite (padcond_meta s (or_introl Hst)) in Hrun.
  destruct (negb (avail_out_ s =? 0) && negb (cap x =? 0)) eqn:Cpush.
  - (* push *)
    destruct (lenN (view s) <? N.min (avail_out_ s) (cap x)); [discriminate|].
    remember (N.min (avail_out_ s) (cap x)) as n eqn:En.
    assert (Hn : n <= avail_out_ s) by (subst n; apply N.le_min_l).
    change (upd_out s (no_incr (next_out s) n) (storage s) (storage_size s) (tiny s) (avail_out_ s - n)
                    (wadd64 (total_out_ s) n)) with (pushk s n) in Hrun.
    destruct (IH (pushk s n) (io_push x (takeN n (view s)) (wadd64 (total_out_ s) n)) s' x' em
                 (inv_pushk s n Hi Hn) Hok Htc Hcl Hst Hrem Hoff Hlen H24 Hb Hrun Hai) as (segs & consumed & T).
    destruct T as [T1 T2 T3 T4 T5 T6 T7 T8 T9 T10 T11].
    exists segs, consumed. constructor; try assumption.
    intros K. rewrite (T4 K). f_equal. cbn [produced io_push]. rewrite app_assoc.
    apply wire_push; [destruct Hi as [Hc _]; exact Hc|exact Hn].
  - destruct (N.eqb_spec (avail_out_ s) 0) as [Hao|Hao]; cbn [negb] in Hrun.
    + destruct (negb (input_pos s =? last_flush_pos s) || (magic s && first_pending s)) eqn:Cq.
      * (* pending input is flushed first *)
        destruct (encode_data s false true) as [[[|] s2]|w|w|] eqn:Eenc; try discriminate.
        destruct (encode_data_inv _ _ _ _ _ Hi Hao Hok Eenc) as [Hi2 [Hok2 [Hst2 _]]].
        destruct (encode_data_true _ _ _ _ Eenc) as (a & rest & O1 & O2 & O3 & O4 & O5 & O6 & O7 & O8 & O9 & O10).
        destruct (encode_data_out _ _ _ _ Eenc) as (a' & rest' & O1' & _ & Q1 & Q2 & Q3).
        rewrite O1 in O1'. inversion O1'; subst a' rest'; clear O1'.
        destruct (encode_data_meta _ _ Eenc) as (M1 & _ & _).
        assert (Ha2 : answer_ok2 a) by (rewrite O1 in Hok; inversion Hok; assumption).
        assert (Hta : tclean a /\ Forall tclean rest) by (rewrite O1 in Htc; inversion Htc; split; assumption).
        destruct (answer_ok_pos a (proj1 Ha2) O6) as [Hlfp _].
        assert (Hcl2 : clean s2) by (unfold clean; rewrite Q2, Q3; exact (proj1 (proj1 Hta))).
        assert (Htc2 : Forall tclean (oracle s2)) by (rewrite O2; exact (proj2 Hta)).
        destruct (IH s2 x s' x' em Hi2 Hok2 Htc2 Hcl2 ltac:(rewrite Hst2; exact Hst) ltac:(rewrite M1; exact Hrem) Hoff Hlen H24 Hb Hrun Hai)
          as (segs & consumed & T).
        destruct T as [T1 T2 T3 T4 T5 T6 T7 T8 T9 T10 T11].
        rewrite O2 in T1. rewrite Q2, Q3 in T2, T3. rewrite O8 in T5, T8.
        exists (SAns (last_bytes s) (last_bytes_bits s) a :: segs), (a :: consumed). constructor.
        -- rewrite O1, T1. reflexivity.
        -- cbn [schain]. repeat split; try reflexivity. exact T2.
        -- cbn [ans_of annotate]. rewrite T3. reflexivity.
        -- intros K. unfold kept in K. cbn [ans_of] in K. inversion K as [|? ? K1 K2]; subst.
           unfold kept1 in K1. cbn [fst snd] in K1. rewrite (T4 K2).
           rewrite (wire_answer (em ++ produced x) s s2 a Hao Q1 Q2 Q3 K1).
           change (segs_bits (SAns (last_bytes s) (last_bytes_bits s) a :: segs))
             with (g_answer_bits (last_bytes_bits s) a ++ segs_bits segs).
           rewrite <- app_assoc. reflexivity.
        -- constructor; [rewrite O3 in Hlfp; exact Hlfp|exact T5].
        -- constructor; [exact O5|exact T6].
        -- exact T7.
        -- exact T8.
        -- eapply same_cfg_trans; [eapply same_cfg_encode; exact Eenc|exact T9].
        -- exact T10.
        -- intros Hq. unfold quiet in Hq. rewrite Hq in Cq. discriminate Cq.
      * (* the header, then the payload *)
        rewrite Hst in Hrun. cbn [sstate_eqb] in Hrun.
        assert (Hn24 : rem_meta s <= 2 ^ 24) by (rewrite Hrem; exact H24).
        destruct (header_wire (em ++ produced x) s Hi Hao Hcl Hn24) as (W1 & L1 & L2 & Hi1 & Ho1 & Hr1 & Hs1 & Hp1 & Hf1 & Hm1 & Hfp1 & Hc1).
        set (s1 := set_sstate (write_metadata_header s) SMetaBody) in *.
        assert (Hq1 : quiet s1) by (unfold quiet; rewrite Hp1, Hf1, Hm1, Hfp1; exact Cq).
        destruct (meta_body payload fu s1 x s' x' em Hi1 Hs1 ltac:(rewrite Hr1; exact Hrem) ltac:(rewrite Hoff; exact Hlen) H24 L1 L2 Hq1 Hrun Hai)
          as (W & O & Hi' & L1' & L2' & Hp' & Hq' & Hc' & He).
        assert (Hl16 : last_bytes_bits s < 16) by (destruct Hi as [_ [_ [_ H]]]; exact H).
        exists [SMeta (last_bytes_bits s) payload], []. constructor.
        -- cbn [app]. rewrite O, Ho1. reflexivity.
        -- cbn [schain]. repeat split; try assumption; try reflexivity. rewrite <- Hlen. exact H24.
        -- reflexivity.
        -- intros _. rewrite W, W1. rewrite Hoff. unfold skipN. cbn [N.to_nat skipn].
           cbn [segs_bits flat_map seg_bits]. rewrite app_nil_r, <- app_assoc. rewrite Hrem, Hlen. reflexivity.
        -- constructor.
        -- constructor.
        -- split; [exact Hi'|]. rewrite O, Ho1. split; [exact Hok|]. split; [exact Htc|]. unfold clean. rewrite L1', L2'. exact cleanv_00.
        -- rewrite Hp', Hp1. reflexivity.
        -- eapply same_cfg_trans; [exact Hc1|exact Hc'].
        -- destruct He as [[E1 E2]|[E1 E2]]; [left; split; assumption|right; left; repeat split; assumption].
        -- intros _. split; [reflexivity|exact Hq'].
    + (* output pending and no room: the call returns before the header *)
      inversion Hrun; subst s' x'; clear Hrun.
      exists [], []. constructor.
      * reflexivity.
      * cbn [schain]. split; reflexivity.
      * reflexivity.
      * intros _. cbn [segs_bits flat_map]. rewrite app_nil_r. reflexivity.
      * constructor.
      * constructor.
      * split; [exact Hi|]. split; [exact Hok|]. split; [exact Htc|exact Hcl].
      * reflexivity.
      * apply same_cfg_refl.
      * right. right. split; [exact Hst|]. split; [lia|]. apply lenN_0_nil. lia.
      * intros Hq. split; [reflexivity|exact Hq].
Qed.
