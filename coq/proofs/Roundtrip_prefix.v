(* C04 through the composition: whenever the encoder is at rest on a byte boundary with nothing pending and
   everything flushed (what a completed FLUSH or EMIT_METADATA call leaves), the bytes emitted so far are a
   prefix of a stream that the decoder spec's meta-block loop consumes ENTIRELY, ending at a meta-block
   boundary (Continue, no bits left) with exactly the input consumed so far as output.  Metadata blocks and
   padding blocks are skipped: metadata is transparent. *)
From Coq Require Import NArith ZArith List Bool Lia PeanoNat.
From V Require Import lib.Words lib.PMap spec.RfcTables spec.PrefixCode spec.Decoder model.Stream model.MetaBlockHeader
  proofs.Bitops proofs.MbHeader_proofs proofs.Format_proofs proofs.Stored_proofs proofs.Stream_proofs proofs.Dist_proofs proofs.NoPanic_proofs
  proofs.Slicing_proofs proofs.Slicing_fast proofs.Roundtrip_defs proofs.Roundtrip_bits proofs.Roundtrip_dec proofs.Roundtrip_segs proofs.Roundtrip_chain
  proofs.Roundtrip_wire proofs.Roundtrip_loop proofs.Roundtrip_run proofs.Roundtrip_main proofs.Roundtrip_meta proofs.Roundtrip_runm
  proofs.Roundtrip_mainm proofs.Roundtrip_fast proofs.Roundtrip_fastrun.
Import ListNotations.
Open Scope N_scope.

(* the flush position after a list of answers *)
Fixpoint llfp (p : N) (l : list answer) : N := match l with [] => p | a :: t => llfp (a_lfp a) t end.
Lemma llfp_app a : forall p b, llfp p (a ++ b) = llfp (llfp p a) b.
Proof. induction a as [|x t IH]; intros p b; [reflexivity|]. cbn [app llfp]. apply IH. Qed.

(* ------------------------------------------------------------------ decoder side: an open chain *)
Section OpenChain.
  Variable dict_word : N -> N -> list N.
  Variable transform_tbl : N -> option (list N * N * list N).
  Variable large : bool.
  Variable wbits B : N.
  Variable input : list N.
  Notation MB := (meta_block dict_word transform_tbl large (2 ^ wbits - 16) B).

  Fixpoint segs_open (lb lbb prev_lfp : N) (segs : list seg) (end_lfp : N) : Prop :=
    match segs with
    | [] => lbb = 0 /\ end_lfp = prev_lfp
    | SAns clb clbb a :: t =>
        clb = lb /\ clbb = lbb /\ carry_kept clb clbb a /\ a_lfp a <= lenN input /\
        faithful_at dict_word transform_tbl B large wbits input prev_lfp clbb a /\
        a_is_last a = false /\ segs_open (a_lb a) (a_lbb a) (a_lfp a) t end_lfp
    | SPad clbb :: t => clbb = lbb /\ clbb < 16 /\ segs_open 0 0 prev_lfp t end_lfp
    | SMeta clbb p :: t =>
        clbb = lbb /\ clbb < 16 /\ lenN p <= 2 ^ 24 /\ Forall (fun b => b < 256) p /\ segs_open 0 0 prev_lfp t end_lfp
    end.

  Lemma open_aligned : forall segs lb lbb pl pl', segs_open lb lbb pl segs pl' ->
    Nat.modulo (N.to_nat lbb + length (segs_bits segs)) 8 = 0%nat.
  Proof.
    induction segs as [|g t IH]; intros lb lbb pl pl' H.
    - destruct H as [-> _]. reflexivity.
    - unfold segs_bits in *. cbn [flat_map]. rewrite app_length.
      destruct g as [clb clbb a|clbb|clbb p]; cbn [segs_open seg_bits] in *.
      + destruct H as (_ & <- & Hk & _ & _ & _ & Hl).
        pose proof (answer_bits_length _ _ _ Hk) as L. specialize (IH _ _ _ _ Hl).
        replace (N.to_nat clbb + (length (g_answer_bits clbb a) + length (flat_map seg_bits t)))%nat
          with (8 * length (a_out a) + (N.to_nat (a_lbb a) + length (flat_map seg_bits t)))%nat by lia.
        rewrite mod8_add_mul. exact IH.
      + destruct H as (<- & Hc & Ht). destruct (pad_bits_length clbb Hc) as (q & E & _).
        specialize (IH _ _ _ _ Ht). change (N.to_nat 0) with 0%nat in IH. cbn [Nat.add] in IH.
        replace (N.to_nat clbb + (length (pad_bits clbb) + length (flat_map seg_bits t)))%nat
          with (8 * q + length (flat_map seg_bits t))%nat by lia.
        rewrite mod8_add_mul. exact IH.
      + destruct H as (<- & Hc & _ & _ & Ht). destruct (meta_hdr_bits_length clbb (lenN p)) as (q & E & _).
        specialize (IH _ _ _ _ Ht). change (N.to_nat 0) with 0%nat in IH. cbn [Nat.add] in IH.
        rewrite app_length, bytes_bits_length.
        replace (N.to_nat clbb + (length (meta_hdr_bits clbb (lenN p)) + 8 * length p + length (flat_map seg_bits t)))%nat
          with (8 * (q + length p) + length (flat_map seg_bits t))%nat by lia.
        rewrite mod8_add_mul. exact IH.
  Qed.

  Lemma chain_open_run : forall segs lb lbb pl pl' (s : dstate), segs_open lb lbb pl segs pl' ->
    opos_ok (d_out s) -> rev' (o_rev (d_out s)) = firstn (N.to_nat pl) input -> o_pos (d_out s) = pl ->
    exists n s', (n <= length (segs_bits segs))%nat /\
      run_n n MB (with_bits s (segs_bits segs)) = Continue s' /\
      d_bits s' = [] /\ rev' (o_rev (d_out s')) = firstn (N.to_nat pl') input.
  Proof.
    induction segs as [|g t IH]; intros lb lbb pl pl' s H Hop Hout Hpos.
    - destruct H as [_ ->]. exists 0%nat, (with_bits s []). repeat split; try reflexivity; try exact Hout.
    - unfold segs_bits in *. cbn [flat_map].
      destruct g as [clb clbb a|clbb|clbb p]; cbn [segs_open seg_bits] in *.
      + destruct H as (_ & <- & Hk & Hle & Hf & Hnl & Hl).
        pose proof (open_aligned _ _ _ _ _ Hl) as Hal.
        destruct (Hf s (flat_map seg_bits t) Hal Hout Hpos) as (s1 & j & pad & Hj & Hrun & Hbits & Hpad & Hpad0 & Hout1).
        rewrite loop_n_run, Nat2N.id in Hrun. rewrite Hnl in Hrun.
        specialize (Hpad0 Hnl). subst pad. cbn [repeat app] in Hbits.
        pose proof (opos_run dict_word transform_tbl large (2 ^ wbits - 16) B j
                      {| d_out := d_out s; d_ring := d_ring s; d_info := d_info s; d_bits := g_answer_bits clbb a ++ flat_map seg_bits t |} Hop) as Hop1.
        rewrite Hrun in Hop1.
        assert (Hpos1 : o_pos (d_out s1) = a_lfp a).
        { unfold opos_ok in Hop1. rewrite Hop1. rewrite <- (rev'_length (o_rev (d_out s1))), Hout1.
          rewrite firstn_length. unfold lenN in Hle. lia. }
        destruct (IH _ _ _ _ s1 Hl Hop1 Hout1 Hpos1) as (n2 & s2 & Hn2 & Hrun2 & Hb2 & Ho2).
        rewrite <- Hbits in Hrun2. rewrite with_bits_id in Hrun2.
        exists (j + n2)%nat, s2. split; [rewrite app_length; lia|]. split; [|split; [exact Hb2|exact Ho2]].
        rewrite run_n_add. unfold with_bits. rewrite Hrun. exact Hrun2.
      + destruct H as (<- & Hc & Ht).
        pose proof (open_aligned _ _ _ _ _ Ht) as Hal. change (N.to_nat 0) with 0%nat in Hal. cbn [Nat.add] in Hal.
        destruct (IH _ _ _ _ (skip_to s (flat_map seg_bits t)) Ht Hop Hout Hpos) as (n2 & s2 & Hn2 & Hrun2 & Hb2 & Ho2).
        destruct (pad_bits_length clbb Hc) as (_ & _ & L6).
        exists (1 + n2)%nat, s2. split; [rewrite app_length; lia|]. split; [|split; [exact Hb2|exact Ho2]].
        rewrite run_n_add. cbn [run_n]. unfold with_bits at 1.
        rewrite (pad_decodes dict_word transform_tbl large (2 ^ wbits - 16) B clbb (flat_map seg_bits t) s Hc Hal).
        rewrite <- (with_bits_id (skip_to s (flat_map seg_bits t))). exact Hrun2.
      + destruct H as (<- & Hc & Hn & Hb & Ht).
        pose proof (open_aligned _ _ _ _ _ Ht) as Hal. change (N.to_nat 0) with 0%nat in Hal. cbn [Nat.add] in Hal.
        destruct (IH _ _ _ _ (skip_to s (flat_map seg_bits t)) Ht Hop Hout Hpos) as (n2 & s2 & Hn2 & Hrun2 & Hb2 & Ho2).
        destruct (meta_hdr_bits_length clbb (lenN p)) as (_ & _ & L1).
        exists (1 + n2)%nat, s2. split; [rewrite !app_length; lia|]. split; [|split; [exact Hb2|exact Ho2]].
        rewrite run_n_add. cbn [run_n]. unfold with_bits at 1.
        rewrite (meta_decodes dict_word transform_tbl large (2 ^ wbits - 16) B clbb p (flat_map seg_bits t) s Hc Hn Hb Hal).
        rewrite <- (with_bits_id (skip_to s (flat_map seg_bits t))). exact Hrun2.
  Qed.

  (* the segments of a run that has not finished form an open chain *)
  Lemma open_of_chain : forall segs lb lbb pl lb',
    schain lb lbb segs lb' 0 -> kept segs ->
    faithful_ann dict_word transform_tbl B large wbits input pl (ans_of segs) ->
    Forall (fun c => a_lfp (snd c) <= lenN input) (ans_of segs) ->
    Forall (fun c => notlast (snd c)) (ans_of segs) ->
    segs_open lb lbb pl segs (llfp pl (map snd (ans_of segs))).
  Proof.
    induction segs as [|g t IH]; intros lb lbb pl lb' Hc Hk Hf Hl Hn.
    - destruct Hc as [_ E]. cbn [segs_open ans_of map llfp]. split; [symmetry; exact E|reflexivity].
    - destruct g as [c1 c2 a1|c|c p]; cbn [schain ans_of segs_open map snd llfp] in *.
      + destruct Hc as (-> & -> & Hc). unfold kept in Hk. cbn [ans_of] in Hk. inversion Hk as [|? ? K1 K2]; subst.
        unfold kept1 in K1. cbn [fst snd] in K1. cbn [faithful_ann fst snd] in Hf. destruct Hf as [Hf1 Hf2].
        pose proof (Forall_inv Hl) as L1. pose proof (Forall_inv_tail Hl) as L2. cbn [snd] in L1.
        pose proof (Forall_inv Hn) as N1. pose proof (Forall_inv_tail Hn) as N2. cbn [snd] in N1.
        repeat split; try assumption; try reflexivity. eapply IH; eassumption.
      + destruct Hc as (-> & Hc16 & Hc). repeat split; try assumption; try reflexivity. eapply IH; eassumption.
      + destruct Hc as (-> & Hc16 & Hp & Hb & Hc). repeat split; try assumption; try reflexivity. eapply IH; eassumption.
  Qed.

  (* header ++ open chain: the decoder spec reads the header and runs to a meta-block boundary *)
  Theorem dec_prefix hdr hlb segs hlb' :
    (forall rest, read_wbits true (hdr ++ rest) = Ok ((wbits, large), rest)) ->
    forall hlbb, schain hlb hlbb segs hlb' 0 -> kept segs ->
    faithful_ann dict_word transform_tbl B large wbits input 0 (ans_of segs) ->
    Forall (fun c => a_lfp (snd c) <= lenN input) (ans_of segs) ->
    Forall (fun c => notlast (snd c)) (ans_of segs) ->
    llfp 0 (map snd (ans_of segs)) = lenN input ->
    exists rbits n sD,
      read_wbits true (hdr ++ segs_bits segs) = Ok ((wbits, large), rbits) /\ (n <= length rbits)%nat /\
      loop_n (N.of_nat n) MB {| d_out := o_init []; d_ring := ring_init; d_info := PE; d_bits := rbits |} = Continue sD /\
      d_bits sD = [] /\ rev' (o_rev (d_out sD)) = input.
  Proof.
    intros Hh hlbb Hc Hk Hf Hl Hn He.
    pose proof (open_of_chain segs hlb hlbb 0 hlb' Hc Hk Hf Hl Hn) as Ho.
    set (s0 := {| d_out := o_init []; d_ring := ring_init; d_info := PE; d_bits := segs_bits segs |}).
    destruct (chain_open_run segs hlb hlbb 0 _ s0 Ho) as (n & sD & Hn' & Hrun & Hb & Hout); try reflexivity.
    exists (segs_bits segs), n, sD. split; [apply Hh|]. split; [exact Hn'|]. split; [|split; [exact Hb|]].
    - rewrite loop_n_run, Nat2N.id. exact Hrun.
    - rewrite Hout, He. unfold lenN. rewrite Nat2N.id. apply firstn_all.
  Qed.
End OpenChain.

(* ------------------------------------------------------------------ glue side (main path): the flush position *)
Lemma stream_loop_lfp : forall fuel op s x s' x', stream_loop fuel op s x = Done (true, s', x') ->
  exists consumed, oracle s = consumed ++ oracle s' /\ last_flush_pos s' = llfp (last_flush_pos s) consumed.
Proof.
  induction fuel as [|f IH]; intros op s x s' x' Hrun; [discriminate|].
  cbn [stream_loop] in Hrun.
  destruct (negb (remaining_input_block_size s =? 0) && negb (avail_in x =? 0)).
  - exact (IH _ _ _ _ _ Hrun).
  - destruct (inject_flush_or_push_output s x) as [[[s1 x1]|]| | |] eqn:Einj; try discriminate.
    + destruct (inject_some s x s1 x1 Einj) as [_ [_ [C [D _]]]].
      destruct (IH _ _ _ _ _ Hrun) as (cons & E1 & E2). exists cons. rewrite <- D, <- C. split; assumption.
    + match type of Hrun with (if ?c then _ else _) = _ => destruct c end.
      * destruct (encode_data _ _ _) as [[[|] s2]| | |] eqn:Eenc; try discriminate.
        destruct (encode_data_true _ _ _ _ Eenc) as (a & rest & O1 & O2 & _ & _ & _ & _ & _ & _ & O9 & _).
        destruct (update_size_hint_oracle s (avail_in x)) as [U1 _]. rewrite U1 in O1.
        destruct (IH _ _ _ _ _ Hrun) as (cons & E1 & E2).
        exists (a :: cons). split.
        -- rewrite O1. cbn [app]. f_equal. rewrite <- O2.
           destruct ((avail_in x =? 0) && opk_eqb op OpFlush), ((avail_in x =? 0) && opk_eqb op OpFinish); exact E1.
        -- cbn [llfp]. rewrite <- O9.
           destruct ((avail_in x =? 0) && opk_eqb op OpFlush), ((avail_in x =? 0) && opk_eqb op OpFinish); exact E2.
      * inversion Hrun; subst s' x'. exists []. destruct (cfc_fields s) as (_ & _ & G3 & _).
        split; [rewrite G3; reflexivity|].
        unfold check_flush_complete. destruct (sstate_eqb (sstate_ s) SFlushRequested && (avail_out_ s =? 0)); reflexivity.
Qed.

Lemma meta_loop_lfp payload : forall fuel s x s' x', meta_loop fuel payload s x = Done (true, s', x') ->
  exists consumed, oracle s = consumed ++ oracle s' /\ last_flush_pos s' = llfp (last_flush_pos s) consumed.
Proof.
  induction fuel as [|f IH]; intros s x s' x' Hrun; [discriminate|].
  cbn [meta_loop] in Hrun.
  destruct (inject_flush_or_push_output s x) as [[[s1 x1]|]| | |] eqn:Einj; try discriminate.
  - destruct (inject_some s x s1 x1 Einj) as [_ [_ [C [D _]]]].
    destruct (IH _ _ _ _ Hrun) as (cons & E1 & E2). exists cons. rewrite <- D, <- C. split; assumption.
  - destruct (negb (avail_out_ s =? 0)); [inversion Hrun; subst; exists []; split; reflexivity|].
    destruct (negb (input_pos s =? last_flush_pos s) || (magic s && first_pending s)).
    + destruct (encode_data s false true) as [[[|] s2]| | |] eqn:Eenc; try discriminate.
      destruct (encode_data_true _ _ _ _ Eenc) as (a & rest & O1 & O2 & _ & _ & _ & _ & _ & _ & O9 & _).
      destruct (IH _ _ _ _ Hrun) as (cons & E1 & E2).
      exists (a :: cons). split; [rewrite O1; cbn [app]; f_equal; rewrite <- O2; exact E1|cbn [llfp]; rewrite <- O9; exact E2].
    + destruct (sstate_eqb (sstate_ s) SMetaHead).
      * destruct (IH _ _ _ _ Hrun) as (cons & E1 & E2). exists cons.
        unfold write_metadata_header in E1, E2. destruct (metadata_header_bits _ _ _). fs_in E1. fs_in E2. split; assumption.
      * destruct (rem_meta s =? 0); [inversion Hrun; subst; exists []; split; reflexivity|].
        destruct (negb (cap x =? 0)).
        -- destruct (lenN (skipN (in_off x) payload) <? N.min (rem_meta s) (cap x)); [discriminate|].
           destruct (IH _ _ _ _ Hrun) as (cons & E1 & E2). exists cons. fs_in E1. fs_in E2. split; assumption.
        -- destruct (lenN (skipN (in_off x) payload) <? N.min (rem_meta s) 16); [discriminate|].
           destruct (IH _ _ _ _ Hrun) as (cons & E1 & E2). exists cons. fs_in E1. fs_in E2. split; assumption.
Qed.

Lemma hint_lfp s a : last_flush_pos (update_size_hint s a) = last_flush_pos s /\ oracle (update_size_hint s a) = oracle s.
Proof. unfold update_size_hint. destruct (size_hint s =? 0); split; reflexivity. Qed.

Lemma call_lfp s op payload offered capn s' x' : initialized s = true -> fastcond s = false ->
  compress_stream s op payload offered capn = Done (true, s', x') ->
  exists consumed, oracle s = consumed ++ oracle s' /\ last_flush_pos s' = llfp (last_flush_pos s) consumed.
Proof.
  intros Hini Hfc Hrun. unfold compress_stream, compress_stream_from, process_metadata in Hrun.
  set (fuel := 64%nat) in Hrun. clearbody fuel.
  rewrite (ensure_initialized_id s Hini) in Hrun.
  match type of Hrun with (if ?c then _ else _) = _ => destruct c end; [discriminate|].
  destruct (opk_eqb op OpMeta).
  - match type of Hrun with (if ?c then _ else _) = _ => destruct c end; [discriminate|].
    match type of Hrun with (if ?c then _ else _) = _ => destruct c end; [discriminate|].
    destruct (meta_loop_lfp _ _ _ _ _ _ Hrun) as (cons & E1 & E2). exists cons.
    destruct (hint_lfp s 0) as [H1 H2].
    destruct (sstate_eqb (sstate_ (update_size_hint s 0)) SProcessing); fs_in E1; fs_in E2; rewrite H1 in E2; rewrite H2 in E1; split; assumption.
  - match type of Hrun with (if ?c then _ else _) = _ => destruct c end; [discriminate|].
    match type of Hrun with (if ?c then _ else _) = _ => destruct c end; [discriminate|].
    fold (fastcond s) in Hrun. rewrite Hfc in Hrun. exact (stream_loop_lfp _ _ _ _ _ _ Hrun).
Qed.

Lemma same_cfg_meta_loop' payload : forall fuel s x r s' x', meta_loop fuel payload s x = Done (r, s', x') -> same_cfg s s'.
Proof.
  induction fuel as [|f IH]; intros s x r s' x' Hrun; [discriminate|].
  cbn [meta_loop] in Hrun.
  destruct (inject_flush_or_push_output s x) as [[[s1 x1]|]| | |] eqn:Einj; try discriminate.
  - eapply same_cfg_trans; [eapply same_cfg_inject; exact Einj|eapply IH; exact Hrun].
  - destruct (negb (avail_out_ s =? 0)); [inversion Hrun; subst; apply same_cfg_refl|].
    destruct (negb (input_pos s =? last_flush_pos s) || (magic s && first_pending s)).
    + destruct (encode_data s false true) as [[[|] s2]| | |] eqn:Eenc; try discriminate.
      * eapply same_cfg_trans; [eapply same_cfg_encode; exact Eenc|eapply IH; exact Hrun].
      * inversion Hrun; subst. eapply same_cfg_encode; exact Eenc.
    + destruct (sstate_eqb (sstate_ s) SMetaHead).
      * eapply same_cfg_trans; [|eapply IH; exact Hrun]. unfold write_metadata_header. destruct (metadata_header_bits _ _ _).
        unfold same_cfg. fs. repeat split; reflexivity.
      * destruct (rem_meta s =? 0); [inversion Hrun; subst; unfold same_cfg; fs; repeat split; reflexivity|].
        destruct (negb (cap x =? 0)).
        -- destruct (lenN (skipN (in_off x) payload) <? N.min (rem_meta s) (cap x)); [discriminate|].
           eapply same_cfg_trans; [|eapply IH; exact Hrun]. unfold same_cfg. fs. repeat split; reflexivity.
        -- destruct (lenN (skipN (in_off x) payload) <? N.min (rem_meta s) 16); [discriminate|].
           eapply same_cfg_trans; [|eapply IH; exact Hrun]. unfold same_cfg. fs. repeat split; reflexivity.
Qed.

Section Prefix.
  Variable dict_word : N -> N -> list N.
  Variable transform_tbl : N -> option (list N * N * list N).
  Variable C : Type.
  Variable c_op : C -> opk.
  Variable c_in : C -> list N.
  Variable c_cap : C -> N.
  Notation run := (g_run_calls C c_op c_in c_cap).
  Notation inputs := (g_input C c_op c_in).
  Notation anns := (g_ann C c_op c_in c_cap).

  Lemma call_cfg s op payload offered capn s' x' : initialized s = true ->
    compress_stream s op payload offered capn = Done (true, s', x') -> same_cfg s s'.
  Proof.
    intros Hini Hrun. unfold compress_stream, compress_stream_from, process_metadata in Hrun.
    set (fuel := 64%nat) in Hrun. clearbody fuel.
    rewrite (ensure_initialized_id s Hini) in Hrun.
    match type of Hrun with (if ?c then _ else _) = _ => destruct c end; [discriminate|].
    destruct (opk_eqb op OpMeta).
    - match type of Hrun with (if ?c then _ else _) = _ => destruct c end; [discriminate|].
      match type of Hrun with (if ?c then _ else _) = _ => destruct c end; [discriminate|].
      eapply same_cfg_trans; [apply (same_cfg_hint s 0)|].
      eapply same_cfg_trans; [|eapply same_cfg_meta_loop'; exact Hrun].
      destruct (sstate_eqb (sstate_ (update_size_hint s 0)) SProcessing); unfold same_cfg; fs; repeat split; reflexivity.
    - match type of Hrun with (if ?c then _ else _) = _ => destruct c end; [discriminate|].
      match type of Hrun with (if ?c then _ else _) = _ => destruct c end; [discriminate|].
      match type of Hrun with (if ?c then _ else _) = _ => destruct c end;
        [eapply same_cfg_fast_loop|eapply same_cfg_stream_loop]; exact Hrun.
  Qed.

  Lemma run_lfp : forall cs s em s' emitted, initialized s = true -> fastcond s = false ->
    run s cs em = Done (true, s', emitted) ->
    exists consumed, oracle s = consumed ++ oracle s' /\ last_flush_pos s' = llfp (last_flush_pos s) consumed.
  Proof.
    induction cs as [|c t IH]; intros s em s' emitted Hini Hfc Hrun.
    - cbn [g_run_calls] in Hrun. inversion Hrun; subst. exists []. split; reflexivity.
    - cbn [g_run_calls] in Hrun.
      destruct (compress_stream s (c_op c) (c_in c) (lenN (c_in c)) (c_cap c)) as [[[[|] s1] x]| | |] eqn:Ecall; try discriminate.
      destruct (avail_in x =? 0); [|discriminate].
      destruct (call_lfp _ _ _ _ _ _ _ Hini Hfc Ecall) as (c1 & A1 & A2).
      pose proof (call_cfg _ _ _ _ _ _ _ Hini Ecall) as Cf.
      assert (Hini1 : initialized s1 = true) by (destruct Cf as [C1 _]; rewrite C1; exact Hini).
      assert (Hfc1 : fastcond s1 = false) by (rewrite (same_cfg_fastcond _ _ Cf); exact Hfc).
      destruct (IH _ _ _ _ Hini1 Hfc1 Hrun) as (c2 & B1 & B2).
      exists (c1 ++ c2). rewrite llfp_app, <- A2, <- app_assoc, <- B1. split; assumption.
  Qed.

  Lemma init_lfp params answers : last_flush_pos (ensure_initialized (state0 params answers)) = 0.
  Proof.
    assert (L : forall ps s, last_flush_pos s = 0 -> last_flush_pos (fold_left (fun s kv => snd (set_parameter s (fst kv) (snd kv))) ps s) = 0).
    { induction ps as [|kv t IHp]; intros s H; [exact H|]. cbn [fold_left]. apply IHp.
      unfold set_parameter. destruct (initialized s); [exact H|]. destruct (fst kv =? 4); [destruct ((snd kv =? 0) || (snd kv =? 1)); exact H|].
      destruct (negb (known_param (fst kv))); [exact H|]. cbn [snd].
      repeat match goal with |- context [if ?c then _ else _] => destruct c end; exact H. }
    unfold ensure_initialized. destruct (initialized (state0 params answers)); [|destruct (encode_window_bits _ _)]; fs;
      unfold state0; fs; apply (L params init_st eq_refl).
  Qed.

  (* ================================================================================= *)
  (* main path                                                                            *)
  (* ================================================================================= *)
  Theorem prefix_main_path params cs answers s' emitted B :
    let s0 := state0 params answers in
    let s1 := ensure_initialized s0 in
    let input := inputs cs in
    forallb answer_ok3s answers = true ->
    meta_bytes_ok C c_op c_in cs = true -> fastcond s1 = false -> lenN input < 2 ^ 64 ->
    kept_ann (anns s0 cs) = true ->
    faithful_ann dict_word transform_tbl B (large_window s1) (stream_wbits s1) input 0 (anns s0 cs) ->
    run s0 cs [] = Done (true, s', emitted) ->
    initialized s' = true -> sstate_ s' <> SFinished ->
    avail_out_ s' = 0 -> last_bytes_bits s' = 0 -> last_flush_pos s' = input_pos s' ->
    exists rbits n sD,
      read_wbits true (bytes_bits emitted) = Ok ((stream_wbits s1, large_window s1), rbits) /\ (n <= length rbits)%nat /\
      loop_n (N.of_nat n) (meta_block dict_word transform_tbl (large_window s1) (2 ^ stream_wbits s1 - 16) B)
             {| d_out := o_init []; d_ring := ring_init; d_info := PE; d_bits := rbits |} = Continue sD /\
      d_bits sD = [] /\ rev' (o_rev (d_out sD)) = input.
  Proof.
    intros s0 s1 input Hok3 Hmb Hfc H64 Hk Hf Hrun Hini' Hnf Hao Hlbb Hlfp.
    assert (Hpr : pristine s0).
    { unfold s0, state0. exact (pristine_fold params init_st ltac:(unfold pristine; repeat split; reflexivity)). }
    destruct (init_facts s0 Hpr) as (I1 & I2 & I3 & I4 & I5 & I6 & I7 & I8 & I9). fold s1 in I1, I2, I3, I4, I5, I6, I7, I8, I9.
    assert (Hor : oracle s1 = answers) by (rewrite I7; reflexivity).
    assert (Hall : Forall (fun a => answer_ok2 a /\ tclean a) answers).
    { apply Forall_forall. intros a Ha. apply answer_ok3s_parts. exact (proj1 (forallb_forall _ _) Hok3 a Ha). }
    destruct cs as [|c t].
    { cbn [g_run_calls] in Hrun. inversion Hrun; subst s' emitted. exfalso.
      destruct Hpr as (Hi0 & _). rewrite Hi0 in Hini'. discriminate Hini'. }
    rewrite (run_init C c_op c_in c_cap) in Hrun. fold s1 in Hrun.
    assert (G : ginvm answers (last_bytes s1) (last_bytes_bits s1) (lbits s1) [] s1 [] []).
    { constructor; try assumption.
      - rewrite Hor. eapply Forall_impl; [|exact Hall]. intros a Ha. exact (proj1 Ha).
      - rewrite Hor. eapply Forall_impl; [|exact Hall]. intros a Ha. exact (proj2 Ha).
      - cbn [schain]. split; reflexivity.
      - intros _. unfold wire. rewrite (pend_nil s1 I6). cbn [app bytes_bits flat_map segs_bits]. rewrite app_nil_r. reflexivity.
      - constructor.
      - intros H. rewrite I5 in H. discriminate H.
      - intros _. constructor.
      - constructor.
      - apply nometa_bstate. split; rewrite I5; discriminate. }
    destruct (run_trace_m C c_op c_in c_cap answers _ _ _ (c :: t) s1 [] [] [] s' emitted G Hmb H64 Hrun) as (segs & G' & A).
    destruct (run_lfp (c :: t) s1 [] s' emitted I1 Hfc Hrun) as (cons & L1 & L2).
    cbn [app] in G'. destruct G' as [G1 G2 G3 G4 G5 G6 G7 G8 G9 G10 G11 G12 G14 G15 G16].
    assert (Ec : cons = map snd (ans_of segs)).
    { rewrite Hor, <- G15 in L1. apply app_inv_tail in L1. symmetry. exact L1. }
    assert (Ha : ans_of segs = anns s0 (c :: t)) by (rewrite A; symmetry; apply (ann_init C c_op c_in c_cap)).
    assert (Hkept : kept segs) by (unfold kept; rewrite Ha; apply kept_ann_sound; exact Hk).
    assert (Hw : bytes_bits emitted = lbits s1 ++ segs_bits segs).
    { rewrite <- (G9 Hkept). unfold wire. rewrite (pend_nil s' Hao), app_nil_r.
      unfold lbits. rewrite Hlbb. cbn [N.to_nat N_to_bits]. rewrite app_nil_r. reflexivity. }
    rewrite Hw. rewrite Hlbb in G8.
    apply (dec_prefix dict_word transform_tbl (large_window s1) (stream_wbits s1) B input (lbits s1)
             (last_bytes s1) segs (last_bytes s') I9 (last_bytes_bits s1) G8 Hkept).
    - rewrite Ha. exact Hf.
    - exact G10.
    - apply G12. exact Hnf.
    - rewrite <- Ec, <- (init_lfp params answers). fold s0. fold s1. rewrite <- L2, Hlfp, G7. reflexivity.
  Qed.

  (* ================================================================================= *)
  (* one-pass/two-pass path                                                               *)
  (* ================================================================================= *)
  Lemma llfp_repos : forall l p, llfp p (map snd (repos p l)) = p + sumb (map snd l).
  Proof.
    induction l as [|c t IH]; intros p; [cbn; lia|]. cbn [repos map snd llfp sumb with_lfp a_lfp]. rewrite IH. lia.
  Qed.

  Theorem prefix_fast_path params cs answers s' emitted B :
    let s0 := state0 params answers in
    let s1 := ensure_initialized s0 in
    let input := inputs cs in
    forallb answer_ok3s answers = true ->
    meta_bytes_ok C c_op c_in cs = true -> fastcond s1 = true ->
    kept_ann (anns s0 cs) = true ->
    faithful_ann dict_word transform_tbl B (large_window s1) (stream_wbits s1) input 0 (repos 0 (anns s0 cs)) ->
    run s0 cs [] = Done (true, s', emitted) ->
    initialized s' = true -> sstate_ s' <> SFinished ->
    avail_out_ s' = 0 -> last_bytes_bits s' = 0 ->
    exists rbits n sD,
      read_wbits true (bytes_bits emitted) = Ok ((stream_wbits s1, large_window s1), rbits) /\ (n <= length rbits)%nat /\
      loop_n (N.of_nat n) (meta_block dict_word transform_tbl (large_window s1) (2 ^ stream_wbits s1 - 16) B)
             {| d_out := o_init []; d_ring := ring_init; d_info := PE; d_bits := rbits |} = Continue sD /\
      d_bits sD = [] /\ rev' (o_rev (d_out sD)) = input.
  Proof.
    intros s0 s1 input Hok3 Hmb Hfc Hk Hf Hrun Hini' Hnf Hao Hlbb.
    assert (Hpr : pristine s0).
    { unfold s0, state0. exact (pristine_fold params init_st ltac:(unfold pristine; repeat split; reflexivity)). }
    destruct (init_facts s0 Hpr) as (I1 & I2 & I3 & I4 & I5 & I6 & I7 & I8 & I9). fold s1 in I1, I2, I3, I4, I5, I6, I7, I8, I9.
    assert (Hor : oracle s1 = answers) by (rewrite I7; reflexivity).
    assert (Hall : Forall (fun a => answer_ok2 a /\ tclean a) answers).
    { apply Forall_forall. intros a Ha. apply answer_ok3s_parts. exact (proj1 (forallb_forall _ _) Hok3 a Ha). }
    assert (Hq1 : quiet s1).
    { unfold quiet. rewrite (fastcond_magic s1 Hfc), I4. cbn [andb]. rewrite orb_false_r.
      unfold s1, s0. rewrite init_lfp. reflexivity. }
    destruct cs as [|c t].
    { cbn [g_run_calls] in Hrun. inversion Hrun; subst s' emitted. exfalso.
      destruct Hpr as (Hi0 & _). rewrite Hi0 in Hini'. discriminate Hini'. }
    rewrite (run_init C c_op c_in c_cap) in Hrun. fold s1 in Hrun.
    assert (G : gfinv answers (last_bytes s1) (last_bytes_bits s1) (lbits s1) [] s1 [] []).
    { constructor; try assumption.
      - rewrite Hor. eapply Forall_impl; [|exact Hall]. intros a Ha. exact (proj1 Ha).
      - rewrite Hor. eapply Forall_impl; [|exact Hall]. intros a Ha. exact (proj2 Ha).
      - reflexivity.
      - cbn [schain]. split; reflexivity.
      - intros _. unfold wire. rewrite (pend_nil s1 I6). cbn [app bytes_bits flat_map segs_bits]. rewrite app_nil_r. reflexivity.
      - intros H. rewrite I5 in H. discriminate H.
      - intros _. constructor.
      - constructor.
      - apply nometa_bstate. split; rewrite I5; discriminate. }
    destruct (run_trace_f C c_op c_in c_cap answers _ _ _ (c :: t) s1 [] [] [] s' emitted G Hmb Hrun) as (segs & G' & A).
    cbn [app] in G'. destruct G' as [G1 G2 G3 G4 G5 G6 G7 G8 G9 G11 G12 G14 G15 G16 G17].
    assert (Ha : ans_of segs = anns s0 (c :: t)) by (rewrite A; symmetry; apply (ann_init C c_op c_in c_cap)).
    assert (Hkept : kept segs) by (unfold kept; rewrite Ha; apply kept_ann_sound; exact Hk).
    assert (Hw : bytes_bits emitted = lbits s1 ++ segs_bits segs).
    { rewrite <- (G9 Hkept). unfold wire. rewrite (pend_nil s' Hao), app_nil_r.
      unfold lbits. rewrite Hlbb. cbn [N.to_nat N_to_bits]. rewrite app_nil_r. reflexivity. }
    rewrite Hw, <- (rsegs_bits segs 0). rewrite Hlbb in G8.
    apply (dec_prefix dict_word transform_tbl (large_window s1) (stream_wbits s1) B input (lbits s1)
             (last_bytes s1) (rsegs 0 segs) (last_bytes s') I9 (last_bytes_bits s1)).
    - apply rsegs_chain. exact G8.
    - apply rsegs_kept. exact Hkept.
    - rewrite rsegs_ans, Ha. exact Hf.
    - rewrite rsegs_ans. pose proof (repos_lfp (ans_of segs) 0) as L. rewrite N.add_0_l, G7 in L. cbn [app] in L. exact L.
    - rewrite rsegs_ans. apply repos_notlast. apply G12. exact Hnf.
    - rewrite rsegs_ans, llfp_repos, N.add_0_l, G7. reflexivity.
  Qed.

  (* both paths: [flushed s'] is what a completed FLUSH / EMIT_METADATA call leaves *)
  Definition at_rest (s' : st) : bool :=
    initialized s' && negb (sstate_eqb (sstate_ s') SFinished) && (avail_out_ s' =? 0) && (last_bytes_bits s' =? 0)
    && (fastcond s' || (last_flush_pos s' =? input_pos s')).

  Theorem prefix_all_paths params cs answers s' emitted B :
    let s0 := state0 params answers in
    let s1 := ensure_initialized s0 in
    let input := inputs cs in
    forallb answer_ok3s answers = true ->
    meta_bytes_ok C c_op c_in cs = true -> lenN input < 2 ^ 64 ->
    kept_ann (anns s0 cs) = true ->
    faithful_ann dict_word transform_tbl B (large_window s1) (stream_wbits s1) input 0
                 (if fastcond s1 then repos 0 (anns s0 cs) else anns s0 cs) ->
    run s0 cs [] = Done (true, s', emitted) -> at_rest s' = true ->
    exists rbits n sD,
      read_wbits true (bytes_bits emitted) = Ok ((stream_wbits s1, large_window s1), rbits) /\ (n <= length rbits)%nat /\
      loop_n (N.of_nat n) (meta_block dict_word transform_tbl (large_window s1) (2 ^ stream_wbits s1 - 16) B)
             {| d_out := o_init []; d_ring := ring_init; d_info := PE; d_bits := rbits |} = Continue sD /\
      d_bits sD = [] /\ rev' (o_rev (d_out sD)) = input.
  Proof.
    intros s0 s1 input Hok3 Hmb H64 Hk Hf Hrun Hr.
    unfold at_rest in Hr. apply andb_true_iff in Hr. destruct Hr as [Hr R5]. apply andb_true_iff in Hr. destruct Hr as [Hr R4].
    apply andb_true_iff in Hr. destruct Hr as [Hr R3]. apply andb_true_iff in Hr. destruct Hr as [R1 R2].
    apply N.eqb_eq in R3, R4. apply negb_true_iff in R2.
    assert (Hnf : sstate_ s' <> SFinished) by (intros E; rewrite E in R2; discriminate R2).
    assert (Hcfg : fastcond s' = fastcond s1).
    { destruct cs as [|c t]; [cbn [g_run_calls] in Hrun; inversion Hrun; subst; exfalso;
        assert (P : pristine s0) by (unfold s0, state0; exact (pristine_fold params init_st ltac:(unfold pristine; repeat split; reflexivity)));
        destruct P as (P0 & _); rewrite P0 in R1; discriminate R1|].
      rewrite (run_init C c_op c_in c_cap) in Hrun. fold s1 in Hrun.
      assert (K : forall l s em, initialized s = true -> run s l em = Done (true, s', emitted) -> fastcond s' = fastcond s).
      { induction l as [|c0 t0 IHc]; intros s em Hi Hr0; [cbn [g_run_calls] in Hr0; inversion Hr0; reflexivity|].
        cbn [g_run_calls] in Hr0.
        destruct (compress_stream s (c_op c0) (c_in c0) (lenN (c_in c0)) (c_cap c0)) as [[[[|] s2] x]| | |] eqn:Ecall; try discriminate.
        destruct (avail_in x =? 0); [|discriminate].
        pose proof (call_cfg _ _ _ _ _ _ _ Hi Ecall) as Cf.
        rewrite (IHc s2 _ ltac:(destruct Cf as [C1 _]; rewrite C1; exact Hi) Hr0). apply same_cfg_fastcond. exact Cf. }
      apply (K (c :: t) s1 []); [apply ensure_initialized_initialized|exact Hrun]. }
    destruct (fastcond s1) eqn:Hfc.
    - exact (prefix_fast_path params cs answers s' emitted B Hok3 Hmb Hfc Hk Hf Hrun R1 Hnf R3 R4).
    - rewrite Hcfg in R5. cbn [orb] in R5. apply N.eqb_eq in R5.
      exact (prefix_main_path params cs answers s' emitted B Hok3 Hmb Hfc H64 Hk Hf Hrun R1 Hnf R3 R4 R5).
  Qed.

  (* ================================================================================= *)
  (* metadata is transparent: scripts that differ only in EMIT_METADATA calls decode alike *)
  (* ================================================================================= *)
  Theorem metadata_transparent params cs1 cs2 answers s1' e1 s2' e2 B :
    let s0 := state0 params answers in
    let s1 := ensure_initialized s0 in
    filter (fun c => negb (opk_eqb (c_op c) OpMeta)) cs1 = filter (fun c => negb (opk_eqb (c_op c) OpMeta)) cs2 ->
    forallb answer_ok3s answers = true -> lenN (inputs cs1) < 2 ^ 64 ->
    meta_bytes_ok C c_op c_in cs1 = true -> meta_bytes_ok C c_op c_in cs2 = true ->
    kept_ann (anns s0 cs1) = true -> kept_ann (anns s0 cs2) = true ->
    faithful_ann dict_word transform_tbl B (large_window s1) (stream_wbits s1) (inputs cs1) 0
                 (if fastcond s1 then repos 0 (anns s0 cs1) else anns s0 cs1) ->
    faithful_ann dict_word transform_tbl B (large_window s1) (stream_wbits s1) (inputs cs2) 0
                 (if fastcond s1 then repos 0 (anns s0 cs2) else anns s0 cs2) ->
    run s0 cs1 [] = Done (true, s1', e1) -> at_rest s1' = true ->
    run s0 cs2 [] = Done (true, s2', e2) -> at_rest s2' = true ->
    inputs cs1 = inputs cs2 /\
    exists r1 n1 d1 r2 n2 d2,
      read_wbits true (bytes_bits e1) = Ok ((stream_wbits s1, large_window s1), r1) /\
      loop_n (N.of_nat n1) (meta_block dict_word transform_tbl (large_window s1) (2 ^ stream_wbits s1 - 16) B)
             {| d_out := o_init []; d_ring := ring_init; d_info := PE; d_bits := r1 |} = Continue d1 /\ d_bits d1 = [] /\
      read_wbits true (bytes_bits e2) = Ok ((stream_wbits s1, large_window s1), r2) /\
      loop_n (N.of_nat n2) (meta_block dict_word transform_tbl (large_window s1) (2 ^ stream_wbits s1 - 16) B)
             {| d_out := o_init []; d_ring := ring_init; d_info := PE; d_bits := r2 |} = Continue d2 /\ d_bits d2 = [] /\
      rev' (o_rev (d_out d1)) = rev' (o_rev (d_out d2)) /\ rev' (o_rev (d_out d1)) = inputs cs1.
  Proof.
    intros s0 s1 Hflt Hok3 H64 Hm1 Hm2 Hk1 Hk2 Hf1 Hf2 Hr1 Ha1 Hr2 Ha2.
    assert (Ein : inputs cs1 = inputs cs2) by (unfold g_input; rewrite Hflt; reflexivity).
    split; [exact Ein|].
    destruct (prefix_all_paths params cs1 answers s1' e1 B Hok3 Hm1 H64 Hk1 Hf1 Hr1 Ha1) as (r1 & n1 & d1 & A1 & _ & A3 & A4 & A5).
    destruct (prefix_all_paths params cs2 answers s2' e2 B Hok3 Hm2 ltac:(rewrite <- Ein; exact H64) Hk2 Hf2 Hr2 Ha2) as (r2 & n2 & d2 & B1 & _ & B3 & B4 & B5).
    exists r1, n1, d1, r2, n2, d2. repeat split; try assumption. rewrite A5, B5. exact Ein.
  Qed.
End Prefix.
