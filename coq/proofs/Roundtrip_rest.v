(* C04 through the composition: a completed FLUSH leaves the encoder at rest (at_rest of Roundtrip_prefix.v),
   for every script that precedes it, on both paths.  Purely about the glue: the only premise on the answers
   is answer_ok. *)
From Coq Require Import NArith ZArith List Bool Lia PeanoNat.
From V Require Import lib.Words lib.PMap spec.RfcTables spec.PrefixCode spec.Decoder model.Stream model.MetaBlockHeader
  proofs.Stream_proofs proofs.Dist_proofs proofs.NoPanic_proofs proofs.Slicing_proofs proofs.Slicing_fast
  proofs.Roundtrip_defs proofs.Roundtrip_bits proofs.Roundtrip_dec proofs.Roundtrip_segs proofs.Roundtrip_chain
  proofs.Roundtrip_wire proofs.Roundtrip_loop proofs.Roundtrip_run proofs.Roundtrip_main proofs.Roundtrip_meta proofs.Roundtrip_runm
  proofs.Roundtrip_mainm proofs.Roundtrip_fast proofs.Roundtrip_fastrun proofs.Roundtrip_prefix.
Import ListNotations.
Open Scope N_scope.

(* while a flush is pending on the main path, everything accepted has been handed to the back end *)
Definition fr_ok (s : st) : Prop := sstate_ s = SFlushRequested -> last_flush_pos s = input_pos s.

Lemma all_ok_app a b : all_ok (a ++ b) -> all_ok b.
Proof. unfold all_ok. rewrite forallb_app. intros H. apply andb_true_iff in H. exact (proj2 H). Qed.

Lemma stream_loop_fr : forall fuel op s x s' x',
  all_ok (oracle s) -> fr_ok s -> (sstate_ s <> SProcessing -> avail_in x = 0) ->
  stream_loop fuel op s x = Done (true, s', x') ->
  fr_ok s' /\ (sstate_ s = SFinished -> sstate_ s' = SFinished).
Proof.
  induction fuel as [|f IH]; intros op s x s' x' Hok Hfr Hg Hrun; [discriminate|].
  cbn [stream_loop] in Hrun.
  destruct (negb (remaining_input_block_size s =? 0) && negb (avail_in x =? 0)) eqn:Ccopy.
  - apply andb_true_iff in Ccopy. destruct Ccopy as [_ Cin]. apply negb_true_iff in Cin. apply N.eqb_neq in Cin.
    assert (Hp : sstate_ s = SProcessing).
    { destruct (sstate_ s) eqn:E; try reflexivity; exfalso; apply Cin, Hg; discriminate. }
    match type of Hrun with stream_loop f op ?t ?y = _ =>
      assert (F1 : fr_ok t) by (unfold fr_ok; fs; rewrite Hp; discriminate);
      assert (F2 : sstate_ t <> SProcessing -> avail_in y = 0) by (fs; intros H; contradiction);
      destruct (IH op t y s' x' Hok F1 F2 Hrun) as [A B] end.
    split; [exact A|]. intros H. rewrite Hp in H. discriminate H.
  - destruct (inject_flush_or_push_output s x) as [[[s1 x1]|]| | |] eqn:Einj; try discriminate.
    + destruct (inject_some s x s1 x1 Einj) as [A [B [C [D [E _]]]]].
      assert (F0 : all_ok (oracle s1)) by (rewrite D; exact Hok).
      assert (F1 : fr_ok s1) by (unfold fr_ok; rewrite A, B, C; exact Hfr).
      assert (F2 : sstate_ s1 <> SProcessing -> avail_in x1 = 0) by (rewrite A, E; exact Hg).
      destruct (IH op s1 x1 s' x' F0 F1 F2 Hrun) as [R1 R2].
      split; [exact R1|]. rewrite A in R2. exact R2.
    + destruct ((avail_out_ s =? 0) && sstate_eqb (sstate_ s) SProcessing
                && ((remaining_input_block_size s =? 0) || negb (opk_eqb op OpProcess))) eqn:Cenc.
      * apply andb_true_iff in Cenc. destruct Cenc as [Cenc _]. apply andb_true_iff in Cenc. destruct Cenc as [_ Cst].
        apply sstate_eqb_spec in Cst.
        destruct (encode_data _ _ _) as [[[|] s2]| | |] eqn:Eenc; try discriminate.
        destruct (encode_data_true _ _ _ _ Eenc) as (a & rest & O1 & O2 & O3 & O4 & O5 & O6 & O7 & O8 & O9 & O10).
        destruct (update_size_hint_fields s (avail_in x)) as [U1 [U2 [U3 [U4 _]]]].
        rewrite U4 in O1. rewrite O1 in Hok. destruct (all_ok_tail _ _ Hok) as [Ha Hrest].
        assert (R : fr_ok s' /\ (SProcessing = SFinished -> sstate_ s' = SFinished)); [|rewrite Cst; exact R].
        split; [|intros H; discriminate H].
        destruct ((avail_in x =? 0) && opk_eqb op OpFlush) eqn:Cf; destruct ((avail_in x =? 0) && opk_eqb op OpFinish) eqn:Cl.
        -- refine (proj1 (IH _ _ _ _ _ _ _ _ Hrun)); fs; [rewrite O2; exact Hrest|unfold fr_ok; fs; intros H; discriminate H|].
           intros _. apply andb_true_iff in Cf. apply N.eqb_eq. exact (proj1 Cf).
        -- refine (proj1 (IH _ _ _ _ _ _ _ _ Hrun)); fs; [rewrite O2; exact Hrest| |].
           ++ unfold fr_ok. fs. intros _. rewrite O9, O8, U2. rewrite (answer_ok_flush a Ha O6 O4), O3, U2. reflexivity.
           ++ intros _. apply andb_true_iff in Cf. apply N.eqb_eq. exact (proj1 Cf).
        -- refine (proj1 (IH _ _ _ _ _ _ _ _ Hrun)); fs; [rewrite O2; exact Hrest|unfold fr_ok; fs; intros H; discriminate H|].
           intros _. apply andb_true_iff in Cl. apply N.eqb_eq. exact (proj1 Cl).
        -- refine (proj1 (IH _ _ _ _ _ _ _ _ Hrun)); [rewrite O2; exact Hrest|unfold fr_ok; rewrite O7, U1, Cst; intros H; discriminate H|].
           rewrite O7, U1, Cst. intros H. contradiction.
      * inversion Hrun; subst s' x'. destruct (cfc_fields s) as (_ & _ & _ & G4 & G5 & _). split.
        -- unfold fr_ok. intros H. destruct (cfc_state s) as [E|E]; [|rewrite E in H; discriminate H].
           rewrite E in H. rewrite G4.
           unfold check_flush_complete. destruct (sstate_eqb (sstate_ s) SFlushRequested && (avail_out_ s =? 0)); fs; exact (Hfr H).
        -- intros H. apply G5. exact H.
Qed.

Lemma fast_loop_fin : forall fuel op s x s' x', fast_loop fuel op s x = Done (true, s', x') ->
  sstate_ s = SFinished -> sstate_ s' = SFinished.
Proof.
  induction fuel as [|f IH]; intros op s x s' x' Hrun Hs; [discriminate|].
  cbn [fast_loop] in Hrun.
  destruct (inject_flush_or_push_output s x) as [[[s1 x1]|]| | |] eqn:Einj; try discriminate.
  - destruct (inject_some s x s1 x1 Einj) as [A _]. apply (IH _ _ _ _ _ Hrun). rewrite A. exact Hs.
  - rewrite Hs in Hrun. cbn [sstate_eqb] in Hrun. rewrite andb_false_r in Hrun. cbn [andb] in Hrun.
    inversion Hrun; subst s' x'. destruct (cfc_fields s) as (_ & _ & _ & _ & G5 & _). apply G5. exact Hs.
Qed.

Lemma meta_loop_nofr payload : forall fuel s x s' x', meta_loop fuel payload s x = Done (true, s', x') ->
  sstate_ s = SMetaHead \/ sstate_ s = SMetaBody -> sstate_ s' <> SFlushRequested.
Proof.
  induction fuel as [|f IH]; intros s x s' x' Hrun Hs; [discriminate|].
  cbn [meta_loop] in Hrun.
  destruct (inject_flush_or_push_output s x) as [[[s1 x1]|]| | |] eqn:Einj; try discriminate.
  - destruct (inject_some s x s1 x1 Einj) as [A _]. apply (IH _ _ _ _ Hrun). rewrite A. exact Hs.
  - destruct (negb (avail_out_ s =? 0)); [inversion Hrun; subst; destruct Hs as [H|H]; rewrite H; discriminate|].
    destruct (negb (input_pos s =? last_flush_pos s) || (magic s && first_pending s)).
    + destruct (encode_data s false true) as [[[|] s2]| | |] eqn:Eenc; try discriminate.
      destruct (encode_data_true _ _ _ _ Eenc) as (a & rest & _ & _ & _ & _ & _ & _ & O7 & _).
      apply (IH _ _ _ _ Hrun). rewrite O7. exact Hs.
    + destruct (sstate_eqb (sstate_ s) SMetaHead) eqn:Eh.
      * apply (IH _ _ _ _ Hrun). right. reflexivity.
      * destruct (rem_meta s =? 0); [inversion Hrun; subst; fs; discriminate|].
        destruct (negb (cap x =? 0)).
        -- destruct (lenN (skipN (in_off x) payload) <? N.min (rem_meta s) (cap x)); [discriminate|].
           apply (IH _ _ _ _ Hrun). fs. exact Hs.
        -- destruct (lenN (skipN (in_off x) payload) <? N.min (rem_meta s) 16); [discriminate|].
           apply (IH _ _ _ _ Hrun). fs. exact Hs.
Qed.

(* the guards of a call that returned true *)
Lemma call_guards s op payload offered capn s' x' : initialized s = true -> op <> OpMeta ->
  compress_stream s op payload offered capn = Done (true, s', x') ->
  nometa_state s /\ (sstate_ s <> SProcessing -> offered = 0) /\
  (if fastcond s then fast_loop (loop_fuel offered) op s (io0 offered capn) else stream_loop (loop_fuel offered) op s (io0 offered capn))
    = Done (true, s', x').
Proof.
  intros Hini Hop Hrun. unfold compress_stream, compress_stream_from in Hrun. rewrite (ensure_initialized_id s Hini) in Hrun.
  fold (io0 offered capn) in Hrun.
  match type of Hrun with (if ?c then _ else _) = _ => destruct c end; [discriminate|].
  assert (Eop : opk_eqb op OpMeta = false) by (destruct op; try reflexivity; contradiction Hop; reflexivity).
  rewrite Eop in Hrun.
  destruct (sstate_eqb (sstate_ s) SMetaHead || sstate_eqb (sstate_ s) SMetaBody) eqn:Em; [discriminate|].
  apply orb_false_iff in Em. destruct Em as [E1 E2].
  destruct (negb (sstate_eqb (sstate_ s) SProcessing) && negb (offered =? 0)) eqn:Cg; [discriminate|].
  fold (fastcond s) in Hrun.
  split; [split; intros E; rewrite E in *; discriminate|]. split; [|exact Hrun].
  intros Hs. destruct (sstate_eqb (sstate_ s) SProcessing) eqn:E.
  - apply sstate_eqb_spec in E. contradiction.
  - cbn in Cg. apply negb_false_iff in Cg. apply N.eqb_eq. exact Cg.
Qed.

Lemma call_fr s op payload offered capn s' x' : initialized s = true -> fastcond s = false ->
  all_ok (oracle s) -> fr_ok s ->
  compress_stream s op payload offered capn = Done (true, s', x') -> fr_ok s'.
Proof.
  intros Hini Hfc Hok Hfr Hrun.
  destruct (opk_eqb op OpMeta) eqn:Eop.
  - assert (Hop : op = OpMeta) by (destruct op; try discriminate Eop; reflexivity). subst op.
    unfold compress_stream, compress_stream_from, process_metadata in Hrun.
    set (fuel := 64%nat) in Hrun. clearbody fuel.
    rewrite (ensure_initialized_id s Hini) in Hrun.
    match type of Hrun with (if ?c then _ else _) = _ => destruct c end; [discriminate|].
    cbn [opk_eqb] in Hrun.
    match type of Hrun with (if ?c then _ else _) = _ => destruct c end; [discriminate|].
    match type of Hrun with (if ?c then _ else _) = _ => destruct c eqn:Cg end; [discriminate|].
    match type of Hrun with meta_loop fuel payload ?t ?y = _ =>
      assert (Hs : sstate_ t = SMetaHead \/ sstate_ t = SMetaBody)
        by (clear Hrun; destruct (sstate_ t); cbn [sstate_eqb negb andb] in Cg; try discriminate Cg; auto) end.
    intros H. exfalso. exact (meta_loop_nofr _ _ _ _ _ _ Hrun Hs H).
  - assert (Hop : op <> OpMeta) by (intros E; rewrite E in Eop; discriminate Eop).
    destruct (call_guards _ _ _ _ _ _ _ Hini Hop Hrun) as (_ & Hg & Hl). rewrite Hfc in Hl.
    exact (proj1 (stream_loop_fr (loop_fuel offered) op s (io0 offered capn) s' x' Hok Hfr Hg Hl)).
Qed.

Section Rest.
  Variable C : Type.
  Variable c_op : C -> opk.
  Variable c_in : C -> list N.
  Variable c_cap : C -> N.
  Notation run := (g_run_calls C c_op c_in c_cap).

  Lemma run_app : forall a b s em s' e', run s (a ++ b) em = Done (true, s', e') ->
    exists s1 e1, run s a em = Done (true, s1, e1) /\ run s1 b e1 = Done (true, s', e').
  Proof.
    induction a as [|c t IH]; intros b s em s' e' H; [exists s, em; split; [reflexivity|exact H]|].
    cbn [app g_run_calls] in *.
    destruct (compress_stream s (c_op c) (c_in c) (lenN (c_in c)) (c_cap c)) as [[[[|] s2] x]| | |]; try discriminate.
    destruct (avail_in x =? 0); [|discriminate]. exact (IH _ _ _ _ _ H).
  Qed.

  (* main path: what holds after any successful run *)
  Lemma run_fr : forall cs s em s' e', initialized s = true -> fastcond s = false -> all_ok (oracle s) -> fr_ok s ->
    run s cs em = Done (true, s', e') ->
    initialized s' = true /\ fastcond s' = false /\ all_ok (oracle s') /\ fr_ok s'.
  Proof.
    induction cs as [|c t IH]; intros s em s' e' Hini Hfc Hok Hfr Hrun.
    - cbn [g_run_calls] in Hrun. inversion Hrun; subst. repeat split; assumption.
    - cbn [g_run_calls] in Hrun.
      destruct (compress_stream s (c_op c) (c_in c) (lenN (c_in c)) (c_cap c)) as [[[[|] s1] x]| | |] eqn:Ecall; try discriminate.
      destruct (avail_in x =? 0); [|discriminate].
      destruct (call_lfp _ _ _ _ _ _ _ Hini Hfc Ecall) as (c1 & A1 & _).
      pose proof (call_cfg _ _ _ _ _ _ _ Hini Ecall) as Cf.
      apply (IH s1 (em ++ produced x) s' e'); try assumption.
      + destruct Cf as [C1 _]. rewrite C1. exact Hini.
      + rewrite (same_cfg_fastcond _ _ Cf). exact Hfc.
      + rewrite A1 in Hok. exact (all_ok_app _ _ Hok).
      + exact (call_fr _ _ _ _ _ _ _ Hini Hfc Hok Hfr Ecall).
  Qed.

  Lemma run_cfg : forall cs s em s' e', initialized s = true -> run s cs em = Done (true, s', e') ->
    initialized s' = true /\ fastcond s' = fastcond s.
  Proof.
    induction cs as [|c t IH]; intros s em s' e' Hini Hrun.
    - cbn [g_run_calls] in Hrun. inversion Hrun; subst. split; [exact Hini|reflexivity].
    - cbn [g_run_calls] in Hrun.
      destruct (compress_stream s (c_op c) (c_in c) (lenN (c_in c)) (c_cap c)) as [[[[|] s1] x]| | |] eqn:Ecall; try discriminate.
      destruct (avail_in x =? 0); [|discriminate].
      pose proof (call_cfg _ _ _ _ _ _ _ Hini Ecall) as Cf.
      assert (Hini1 : initialized s1 = true) by (destruct Cf as [C1 _]; rewrite C1; exact Hini).
      destruct (IH s1 (em ++ produced x) s' e' Hini1 Hrun) as [A B].
      split; [exact A|]. rewrite B. apply same_cfg_fastcond. exact Cf.
  Qed.

  (* ================================================================================= *)
  (* a completed FLUSH leaves the encoder at rest                                         *)
  (* ================================================================================= *)
  Theorem completed_flush_at_rest params cs c answers s' emitted :
    let s0 := state0 params answers in
    forallb answer_ok answers = true ->
    c_op c = OpFlush ->
    run s0 (cs ++ [c]) [] = Done (true, s', emitted) ->
    has_more_output s' = false -> sstate_ s' <> SFinished ->
    at_rest s' = true.
  Proof.
    intros s0 Hok Hopc Hrun Hmo Hnf.
    unfold has_more_output in Hmo. apply negb_false_iff in Hmo. apply N.eqb_eq in Hmo.
    assert (Hpr : pristine s0).
    { unfold s0, state0. exact (pristine_fold params init_st ltac:(unfold pristine; repeat split; reflexivity)). }
    destruct (init_facts s0 Hpr) as (I1 & I2 & I3 & I4 & I5 & I6 & I7 & I8 & I9).
    set (s1 := ensure_initialized s0) in *.
    assert (Hrun1 : run s1 (cs ++ [c]) [] = Done (true, s', emitted)).
    { unfold s1. destruct cs as [|c0 t]; cbn [app] in *; rewrite <- (run_init C c_op c_in c_cap); exact Hrun. }
    destruct (run_app _ _ _ _ _ _ Hrun1) as (s2 & e2 & Ra & Rb).
    cbn [g_run_calls] in Rb. rewrite Hopc in Rb.
    destruct (compress_stream s2 OpFlush (c_in c) (lenN (c_in c)) (c_cap c)) as [[[[|] s3] x]| | |] eqn:Ecall; try discriminate.
    destruct (N.eqb_spec (avail_in x) 0) as [Eai|]; [|discriminate]. inversion Rb; subst s3 emitted; clear Rb.
    destruct (run_cfg _ _ _ _ _ I1 Ra) as [Hini2 Hfc2].
    pose proof (call_cfg _ _ _ _ _ _ _ Hini2 Ecall) as Cf.
    assert (Hini' : initialized s' = true) by (destruct Cf as [C1 _]; rewrite C1; exact Hini2).
    assert (Hne : OpFlush <> OpMeta) by discriminate.
    destruct (call_guards _ _ _ _ _ _ _ Hini2 Hne Ecall) as ([Hn1 Hn2] & Hg & Hl).
    unfold at_rest. rewrite Hini', Hmo. cbn [andb N.eqb].
    assert (Hnfb : negb (sstate_eqb (sstate_ s') SFinished) = true).
    { destruct (sstate_ s'); try reflexivity. contradiction Hnf; reflexivity. }
    rewrite Hnfb. cbn [andb].
    destruct (fastcond s2) eqn:Hf2.
    - (* one-pass/two-pass path *)
      assert (Hs2 : sstate_ s2 <> SFinished) by (intros E; apply Hnf; exact (fast_loop_fin _ _ _ _ _ _ Hl E)).
      assert (Hinv : fast_inv s2 (io0 (lenN (c_in c)) (c_cap c))).
      { unfold fast_inv. cbn [avail_in io0]. destruct (sstate_ s2) eqn:E; try (left; reflexivity);
          try (exfalso; apply Hs2; reflexivity); try (exfalso; apply Hn1; reflexivity); try (exfalso; apply Hn2; reflexivity).
        right. split; [reflexivity|]. apply Hg. discriminate. }
      destruct (fast_loop_aligned _ _ _ _ _ Hinv Hl Hmo Eai) as (R1 & _).
      rewrite R1. rewrite (same_cfg_fastcond _ _ Cf), Hf2. reflexivity.
    - (* main path *)
      assert (Hok1 : all_ok (oracle s1)) by (rewrite I7; unfold s0, state0; fs; exact Hok).
      assert (Hfr1 : fr_ok s1) by (unfold fr_ok; rewrite I5; intros H; discriminate H).
      destruct (run_fr _ _ _ _ _ I1 (eq_sym Hfc2) Hok1 Hfr1 Ra) as (_ & Hfcm & Hok2 & Hfr2).
      destruct (stream_loop_fr (loop_fuel (lenN (c_in c))) OpFlush s2 (io0 (lenN (c_in c)) (c_cap c)) s' x Hok2 Hfr2 Hg Hl) as [_ Hfin].
      assert (Hs2 : sstate_ s2 <> SFinished) by (intros E; apply Hnf; exact (Hfin E)).
      assert (Hinv : flush_inv s2 (io0 (lenN (c_in c)) (c_cap c))).
      { unfold flush_inv. cbn [avail_in io0]. destruct (sstate_ s2) eqn:E; try (left; reflexivity);
          try (exfalso; apply Hs2; reflexivity); try (exfalso; apply Hn1; reflexivity); try (exfalso; apply Hn2; reflexivity).
        right. split; [reflexivity|]. split; [apply Hfr2; exact E|]. apply Hg. discriminate. }
      destruct (flush_loop_aligned _ _ _ _ _ Hok2 Hinv Hl Hmo Eai) as (R1 & R2 & _).
      rewrite R1, R2. cbn [N.eqb andb]. rewrite N.eqb_refl. apply orb_true_r.
  Qed.

  Lemma ok3s_ok answers : forallb answer_ok3s answers = true -> forallb answer_ok answers = true.
  Proof.
    intros H. apply forallb_forall. intros a Ha. pose proof (proj1 (forallb_forall _ _) H a Ha) as K.
    unfold answer_ok3s in K. apply andb_true_iff in K. destruct K as [K _]. apply andb_true_iff in K. exact (proj1 K).
  Qed.

  (* the 'last call is a completed FLUSH' phrasing of prefix_all_paths *)
  Theorem completed_flush_prefix_decodes (dict_word : N -> N -> list N) (transform_tbl : N -> option (list N * N * list N))
      params cs c answers s' emitted B :
    let s0 := state0 params answers in
    let s1 := ensure_initialized s0 in
    let input := g_input C c_op c_in (cs ++ [c]) in
    forallb answer_ok3s answers = true ->
    meta_bytes_ok C c_op c_in (cs ++ [c]) = true -> lenN input < 2 ^ 64 ->
    kept_ann (g_ann C c_op c_in c_cap s0 (cs ++ [c])) = true ->
    faithful_ann dict_word transform_tbl B (large_window s1) (stream_wbits s1) input 0
                 (if fastcond s1 then repos 0 (g_ann C c_op c_in c_cap s0 (cs ++ [c])) else g_ann C c_op c_in c_cap s0 (cs ++ [c])) ->
    c_op c = OpFlush ->
    run s0 (cs ++ [c]) [] = Done (true, s', emitted) ->
    has_more_output s' = false -> sstate_ s' <> SFinished ->
    exists rbits n sD,
      read_wbits true (bytes_bits emitted) = Ok ((stream_wbits s1, large_window s1), rbits) /\ (n <= length rbits)%nat /\
      loop_n (N.of_nat n) (meta_block dict_word transform_tbl (large_window s1) (2 ^ stream_wbits s1 - 16) B)
             {| d_out := o_init []; d_ring := ring_init; d_info := PE; d_bits := rbits |} = Continue sD /\
      d_bits sD = [] /\ rev' (o_rev (d_out sD)) = input.
  Proof.
    intros s0 s1 input Hok3 Hmb H64 Hk Hf Hop Hrun Hmo Hnf.
    pose proof (completed_flush_at_rest params cs c answers s' emitted (ok3s_ok _ Hok3) Hop Hrun Hmo Hnf) as Hr.
    exact (prefix_all_paths dict_word transform_tbl C c_op c_in c_cap params (cs ++ [c]) answers s' emitted B Hok3 Hmb H64 Hk Hf Hrun Hr).
  Qed.
End Rest.
