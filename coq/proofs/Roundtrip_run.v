(* C01 composition, glue side III: a whole script on the main path without metadata calls.
   The bytes a finished encoder has emitted, read as bits, are the stream header followed by the
   segments of the run (answers after their pending bits, padding blocks); the answers appear
   with exactly the pending bits computed by g_ann. *)
From Coq Require Import NArith ZArith List Bool Lia PeanoNat.
From V Require Import lib.Words spec.PrefixCode spec.Decoder model.Stream model.MetaBlockHeader
  proofs.Bitops proofs.MbHeader_proofs proofs.Format_proofs proofs.Stored_proofs proofs.Stream_proofs proofs.Dist_proofs proofs.NoPanic_proofs
  proofs.Slicing_proofs proofs.Roundtrip_defs proofs.Roundtrip_bits proofs.Roundtrip_segs proofs.Roundtrip_chain proofs.Roundtrip_wire
  proofs.Roundtrip_loop.
Import ListNotations.
Open Scope N_scope.

(* ------------------------------------------------------------------ the state before the first call *)
Definition pristine (s : st) : Prop :=
  initialized s = false /\ sstate_ s = SProcessing /\ next_out s = NoNone /\ avail_out_ s = 0
  /\ tiny s = repeat 0 16 /\ input_pos s = 0.

Lemma pristine_set_parameter s id v : pristine s -> pristine (snd (set_parameter s id v)).
Proof.
  intros H. pose proof H as (Hi & _). unfold set_parameter. rewrite Hi.
  destruct (id =? 4); [destruct ((v =? 0) || (v =? 1)); exact H|].
  destruct (negb (known_param id)); [exact H|]. cbn [snd].
  repeat match goal with |- context [if ?c then _ else _] => destruct c end; exact H.
Qed.

Lemma pristine_fold params : forall s, pristine s ->
  pristine (fold_left (fun s kv => snd (set_parameter s (fst kv) (snd kv))) params s).
Proof.
  induction params as [|kv t IH]; intros s H; [exact H|]. cbn [fold_left]. apply IH. apply pristine_set_parameter. exact H.
Qed.

Lemma ewb_facts (w : Z) (lw : bool) : (10 <= w <= 30)%Z -> (lw = false -> (w <= 24)%Z) ->
  snd (encode_window_bits w lw) < 16 /\ fst (encode_window_bits w lw) < 2 ^ snd (encode_window_bits w lw).
Proof.
  intros Hw Hl.
  assert (I : In w (zrange 10 21)) by (apply zrange_In; cbn; lia).
  destruct lw.
  - cbn in I. repeat (destruct I as [<-|I]; [vm_compute; split; reflexivity|]). destruct I.
  - specialize (Hl eq_refl).
    assert (I2 : In w (zrange 10 15)) by (apply zrange_In; cbn; lia).
    cbn in I2. repeat (destruct I2 as [<-|I2]; [vm_compute; split; reflexivity|]). destruct I2.
Qed.

Lemma stream_lgwin_range w lw : (10 <= Stream.sanitize_lgwin w lw <= (if lw then 30 else 24))%Z.
Proof.
  unfold Stream.sanitize_lgwin.
  destruct (Z.ltb_spec w 10); [destruct lw; lia|]. destruct (Z.ltb_spec 24 w); [|destruct lw; lia].
  destruct lw; [|lia]. destruct (Z.ltb_spec 30 w); lia.
Qed.

(* the initialised state: the wire is the stream header, which the decoder spec reads back *)
Lemma init_facts s0 : pristine s0 ->
  let s1 := ensure_initialized s0 in
  initialized s1 = true /\ inv s1 /\ clean s1 /\ input_pos s1 = 0 /\ sstate_ s1 = SProcessing /\ avail_out_ s1 = 0
  /\ oracle s1 = oracle s0 /\ large_window s1 = large_window s0
  /\ (forall rest, read_wbits true (lbits s1 ++ rest) = Ok ((stream_wbits s1, large_window s1), rest)).
Proof.
  intros (Hi & Hs & Hn & Ha & Ht & Hp). cbv zeta. unfold ensure_initialized. rewrite Hi.
  set (q := sanitize_quality (quality s0)). set (w := sanitize_lgwin (lgwin s0) (large_window s0)).
  set (wb := if ((q =? 0) || (q =? 1))%Z then Z.max w 18 else w).
  pose proof (stream_lgwin_range (lgwin s0) (large_window s0)) as Rw. fold w in Rw.
  assert (Rwb : (10 <= wb <= 30)%Z /\ (large_window s0 = false -> (wb <= 24)%Z)).
  { unfold wb. clearbody w. destruct (large_window s0); destruct ((q =? 0) || (q =? 1))%Z; (split; [lia|intros H; try discriminate H; lia]). }
  destruct Rwb as [Rwb1 Rwb2].
  pose proof (ewb_facts wb (large_window s0) Rwb1 Rwb2) as [E1 E2].
  pose proof (window_bits_read wb (large_window s0) Rwb1 Rwb2) as Rd.
  destruct (encode_window_bits wb (large_window s0)) as [lb lbb] eqn:Ee. cbn [fst snd] in *.
  fs. split; [reflexivity|]. split.
  { unfold inv, cursor_ok, pad_ok. fs. rewrite Hn, Ha, Hs, Ht. split; [reflexivity|]. split; [intros H; discriminate H|].
    split; [cbn; lia|exact E1]. }
  split; [unfold clean; fs; right; exact E2|]. split; [exact Hp|]. split; [exact Hs|]. split; [exact Ha|].
  split; [reflexivity|]. split; [reflexivity|].
  intros rest. unfold lbits, stream_wbits. fs. rewrite Rd. f_equal. f_equal. f_equal.
  fold q. fold w. unfold wb. destruct ((q =? 0) || (q =? 1))%Z; f_equal; lia.
Qed.

Lemma ensure_initialized_idem s : ensure_initialized (ensure_initialized s) = ensure_initialized s.
Proof. apply ensure_initialized_id. apply ensure_initialized_initialized. Qed.

Lemma compress_stream_init s op payload offered capn :
  compress_stream (ensure_initialized s) op payload offered capn = compress_stream s op payload offered capn.
Proof. unfold compress_stream, compress_stream_from. rewrite ensure_initialized_idem. reflexivity. Qed.

(* ------------------------------------------------------------------ one call on the main path *)
Lemma call_trace s op payload offered capn s' x' em :
  initialized s = true -> fastcond s = false -> op <> OpMeta ->
  inv s -> all_ok2 (oracle s) -> Forall tclean (oracle s) -> clean s -> input_pos s + offered < 2 ^ 64 ->
  compress_stream s op payload offered capn = Done (true, s', x') ->
  (exists segs consumed, tr_post op (input_pos s + offered) em s (io0 offered capn) s' x' segs consumed)
  /\ initialized s' = true /\ fastcond s' = false /\ (sstate_ s <> SProcessing -> offered = 0).
Proof.
  intros Hini Hfc Hop Hi Hok Htc Hcl H64 Hrun. unfold compress_stream, compress_stream_from in Hrun.
  rewrite (ensure_initialized_id s Hini) in Hrun. fold (io0 offered capn) in Hrun.
  match type of Hrun with (if ?c then _ else _) = _ => destruct c end; [discriminate|].
  assert (Eop : opk_eqb op OpMeta = false) by (destruct op; try reflexivity; contradiction Hop; reflexivity).
  rewrite Eop in Hrun.
  match type of Hrun with (if ?c then _ else _) = _ => destruct c end; [discriminate|].
  destruct (negb (sstate_eqb (sstate_ s) SProcessing) && negb (offered =? 0)) eqn:Cg; [discriminate|].
  fold (fastcond s) in Hrun. rewrite Hfc in Hrun.
  pose proof (same_cfg_stream_loop _ _ _ _ _ _ _ Hrun) as Hcfg.
  split; [|split; [|split]].
  - apply (stream_loop_trace (loop_fuel offered) op s (io0 offered capn) s' x' em (input_pos s + offered) Hi Hok Htc Hcl); [reflexivity|exact H64|exact Hrun].
  - destruct Hcfg as [C1 _]. rewrite C1. exact Hini.
  - rewrite (same_cfg_fastcond _ _ Hcfg). exact Hfc.
  - intros Hs. destruct (sstate_eqb (sstate_ s) SProcessing) eqn:E.
    + apply sstate_eqb_spec in E. contradiction.
    + cbn in Cg. apply negb_false_iff in Cg. apply N.eqb_eq. exact Cg.
Qed.

(* ------------------------------------------------------------------ lists *)
Lemma map_snd_annotate : forall l lb lbb, map snd (annotate lb lbb l) = l.
Proof. induction l as [|a t IH]; intros lb lbb; [reflexivity|]. cbn [annotate map snd]. rewrite IH. reflexivity. Qed.

Lemma Forall_annotate (Q : answer -> Prop) : forall l lb lbb, Forall Q l -> Forall (fun c => Q (snd c)) (annotate lb lbb l).
Proof. induction l as [|a t IH]; intros lb lbb H; [constructor|]. inversion H; subst. cbn [annotate]. constructor; [assumption|apply IH; assumption]. Qed.

Lemma annotate_app : forall l1 l2 lb lbb, exists lb' lbb', annotate lb lbb (l1 ++ l2) = annotate lb lbb l1 ++ annotate lb' lbb' l2.
Proof.
  induction l1 as [|a t IH]; intros l2 lb lbb; [exists lb, lbb; reflexivity|].
  destruct (IH l2 (a_lb a) (a_lbb a)) as (lb' & lbb' & E). exists lb', lbb'. cbn [annotate app]. rewrite E. reflexivity.
Qed.

Lemma Forall_snd_of {A B} (Q : B -> Prop) (l : list (A * B)) : Forall (fun c => Q (snd c)) l <-> Forall Q (map snd l).
Proof. rewrite Forall_map. reflexivity. Qed.

Lemma schain_snoc : forall pre lb lbb clb clbb a lb' lbb',
  schain lb lbb (pre ++ [SAns clb clbb a]) lb' lbb' -> lb' = a_lb a /\ lbb' = a_lbb a.
Proof.
  induction pre as [|g t IH]; intros lb lbb clb clbb a lb' lbb' H.
  - cbn [app schain] in H. destruct H as (_ & _ & A & B). split; assumption.
  - destruct g as [c1 c2 a1|c|c p]; cbn [app schain] in H.
    + destruct H as (_ & _ & H). eapply IH; exact H.
    + destruct H as (_ & _ & H). eapply IH; exact H.
    + destruct H as (_ & _ & _ & _ & H). eapply IH; exact H.
Qed.

(* ------------------------------------------------------------------ the invariant between calls *)
(* [nf]: the script has no FLUSH call; then no padding block is ever written *)
Record ginv (nf : bool) (answers : list answer) (hlb hlbb : N) (hdr : bits) (inp : list N) (s : st) (em : list N) (segs : list seg) : Prop := {
  gi_init : initialized s = true;
  gi_fc : fastcond s = false;
  gi_inv : inv s;
  gi_ok : all_ok2 (oracle s);
  gi_tc : Forall tclean (oracle s);
  gi_clean : clean s;
  gi_pos : input_pos s = lenN inp;
  gi_chain : schain hlb hlbb segs (last_bytes s) (last_bytes_bits s);
  gi_wire : kept segs -> wire em s = hdr ++ segs_bits segs;
  gi_lfp : Forall (fun c => a_lfp (snd c) <= lenN inp) (ans_of segs);
  gi_last : sstate_ s = SFinished ->
            exists pre clb clbb a, segs = pre ++ [SAns clb clbb a] /\ Forall (fun c => notlast (snd c)) (ans_of pre)
                                   /\ a_is_last a = true /\ a_lfp a = input_pos s;
  gi_nolast : sstate_ s <> SFinished -> Forall (fun c => notlast (snd c)) (ans_of segs);
  gi_np : nf = true -> sstate_ s <> SFlushRequested /\ Forall notpad segs;
  gi_tail : Forall (fun c => tclean (snd c)) (ans_of segs);
  gi_or : map snd (ans_of segs) ++ oracle s = answers
}.

Section Run.
  Variable C : Type.
  Variable c_op : C -> opk.
  Variable c_in : C -> list N.
  Variable c_cap : C -> N.
  Notation run := (g_run_calls C c_op c_in c_cap).
  Notation inputs := (g_input C c_op c_in).
  Notation anns := (g_ann C c_op c_in c_cap).

  Lemma input_cons_nometa c t : opk_eqb (c_op c) OpMeta = false -> inputs (c :: t) = c_in c ++ inputs t.
  Proof. intros H. unfold g_input. cbn [filter map concat]. rewrite H. reflexivity. Qed.

  Lemma run_trace nf answers hlb hlbb hdr : forall cs s em segs inp s' emitted,
    ginv nf answers hlb hlbb hdr inp s em segs ->
    no_meta C c_op cs = true -> (nf = true -> no_flush C c_op cs = true) ->
    lenN (inp ++ inputs cs) < 2 ^ 64 ->
    run s cs em = Done (true, s', emitted) ->
    exists segs', ginv nf answers hlb hlbb hdr (inp ++ inputs cs) s' emitted (segs ++ segs') /\ ans_of segs' = anns s cs.
  Proof.
    induction cs as [|c t IH]; intros s em segs inp s' emitted G Hnm Hnf H64 Hrun.
    - cbn [g_run_calls] in Hrun. inversion Hrun; subst s' emitted. exists []. rewrite !app_nil_r.
      split; [exact G|reflexivity].
    - cbn [g_run_calls] in Hrun. cbn [no_meta forallb] in Hnm. apply andb_true_iff in Hnm. destruct Hnm as [Hm1 Hm2].
      apply negb_true_iff in Hm1.
      assert (Hop : c_op c <> OpMeta) by (intros E; rewrite E in Hm1; discriminate Hm1).
      rewrite (input_cons_nometa c t Hm1) in *.
      destruct G as [G1 G2 G3 G4 G5 G6 G7 G8 G9 G10 G11 G12 G13 G14 G15].
      destruct (compress_stream s (c_op c) (c_in c) (lenN (c_in c)) (c_cap c)) as [[[[|] s1] x]| | |] eqn:Ecall; try discriminate.
      destruct (N.eqb_spec (avail_in x) 0) as [Eai|]; [|discriminate].
      assert (Hlen : lenN (inp ++ c_in c ++ inputs t) = lenN inp + lenN (c_in c) + lenN (inputs t)).
      { rewrite !lenN_app. lia. }
      assert (H64c : input_pos s + lenN (c_in c) < 2 ^ 64).
      { rewrite G7. apply (N.le_lt_trans _ (lenN (inp ++ c_in c ++ inputs t))); [lia|exact H64]. }
      destruct (call_trace s (c_op c) (c_in c) (lenN (c_in c)) (c_cap c) s1 x em G1 G2 Hop G3 G4 G5 G6 H64c Ecall)
        as ((segs1 & consumed & T) & Hini1 & Hfc1 & Hidle).
      destruct T as [T1 T2 T3 T4 T5 T6 T7 T8 T9 T10 T11 T12].
      cbn [produced io0 avail_in] in T6, T11. rewrite app_nil_r in T6. rewrite Eai in T11.
      destruct T10 as (Hi1 & Hok1 & Htc1 & Hcl1). destruct T11 as [Tp1 Tp2]. rewrite N.add_0_r in Tp1.
      assert (Hpos1 : input_pos s1 = lenN (inp ++ c_in c)) by (rewrite lenN_app, Tp1, G7; reflexivity).
      assert (Hflush : nf = true -> opk_eqb (c_op c) OpFlush = false /\ no_flush C c_op t = true).
      { intros E. specialize (Hnf E). cbn [no_flush forallb] in Hnf. apply andb_true_iff in Hnf. destruct Hnf as [A B].
        apply negb_true_iff in A. split; assumption. }
      assert (G' : ginv nf answers hlb hlbb hdr (inp ++ c_in c) s1 (em ++ produced x) (segs ++ segs1)).
      { constructor; try assumption.
        - eapply schain_app; eassumption.
        - intros K. unfold kept in K. rewrite ans_of_app in K. apply Forall_app in K. destruct K as [K1 K2].
          rewrite (T6 K2), (G9 K1), segs_bits_app, <- app_assoc. reflexivity.
        - rewrite ans_of_app. apply Forall_app. split.
          + eapply Forall_impl; [|exact G10]. intros c0 Hc0. cbn beta in Hc0. rewrite lenN_app. lia.
          + rewrite T3. apply (Forall_annotate (fun a => a_lfp a <= lenN (inp ++ c_in c))). eapply Forall_impl; [|exact T7]. intros a Ha. cbn beta in Ha.
            rewrite lenN_app, <- G7. exact Ha.
        - intros Hf. destruct (T8 Hf) as [Hs|(pre & a & segs0 & clb & clbb & K1 & K2 & K3 & K4 & K5)].
          + destruct (T5 Hs) as [-> _]. destruct (G11 Hs) as (pre & clb & clbb & a & K1 & K2 & K3 & K4).
            exists pre, clb, clbb, a. rewrite app_nil_r. repeat split; try assumption.
            assert (Ho : lenN (c_in c) = 0) by (apply Hidle; rewrite Hs; discriminate).
            rewrite K4. lia.
          + assert (Hns : sstate_ s <> SFinished).
            { intros Hs. pose proof (T4 ltac:(rewrite Hs; discriminate)) as E. rewrite E in K1. destruct pre; discriminate K1. }
            exists (segs ++ segs0), clb, clbb, a. rewrite K5, app_assoc. repeat split; try assumption.
            rewrite ans_of_app. apply Forall_app. split; [apply G12; exact Hns|].
            rewrite K5, ans_of_app, K1 in T3. cbn [ans_of] in T3.
            destruct (annotate_app pre [a] (last_bytes s) (last_bytes_bits s)) as (lb' & lbb' & E). rewrite E in T3.
            cbn [annotate] in T3. apply app_inj_tail in T3. destruct T3 as [T3 _]. rewrite T3.
            apply (Forall_annotate notlast). exact K2.
        - intros Hnf1. assert (Hns : sstate_ s <> SFinished) by (intros Hs; destruct (T5 Hs) as [_ K]; contradiction).
          rewrite ans_of_app. apply Forall_app. split; [apply G12; exact Hns|].
          rewrite T3. apply (Forall_annotate notlast). apply T9. exact Hnf1.
        - intros E. destruct (G13 E) as [A B]. destruct (Hflush E) as [F1 _]. destruct (T12 F1 A) as [P1 P2].
          split; [exact P2|]. apply Forall_app. split; assumption.
        - rewrite ans_of_app. apply Forall_app. split; [exact G14|]. rewrite T3. apply (Forall_annotate tclean).
          rewrite T1 in G5. apply Forall_app in G5. exact (proj1 G5).
        - rewrite ans_of_app, map_app, T3, map_snd_annotate, <- app_assoc, <- T1. exact G15. }
      assert (Hnf' : nf = true -> no_flush C c_op t = true) by (intros E; exact (proj2 (Hflush E))).
      rewrite app_assoc in H64.
      destruct (IH s1 (em ++ produced x) (segs ++ segs1) (inp ++ c_in c) s' emitted G' Hm2 Hnf' H64 Hrun) as (segs2 & G2' & A2).
      exists (segs1 ++ segs2). rewrite !app_assoc in *. split; [exact G2'|].
      rewrite ans_of_app, A2, T3. cbn [g_ann]. rewrite (ensure_initialized_id s G1), Ecall.
      destruct (N.eqb_spec (avail_in x) 0) as [_|K]; [|contradiction].
      f_equal. f_equal. rewrite T1, app_length. replace (length consumed + length (oracle s1) - length (oracle s1))%nat with (length consumed) by lia.
      rewrite firstn_app, Nat.sub_diag, firstn_all. cbn [firstn]. rewrite app_nil_r. reflexivity.
  Qed.
End Run.
