(* C01 composition, glue side V: scripts with metadata calls on the main path. *)
From Coq Require Import NArith ZArith List Bool Lia PeanoNat.
From V Require Import lib.Words spec.PrefixCode spec.Decoder model.Stream model.MetaBlockHeader
  proofs.Bitops proofs.MbHeader_proofs proofs.Format_proofs proofs.Stored_proofs proofs.Stream_proofs proofs.Dist_proofs proofs.NoPanic_proofs
  proofs.Slicing_proofs proofs.Roundtrip_defs proofs.Roundtrip_bits proofs.Roundtrip_segs proofs.Roundtrip_chain proofs.Roundtrip_wire
  proofs.Roundtrip_loop proofs.Roundtrip_run proofs.Roundtrip_meta.
Import ListNotations.
Open Scope N_scope.

(* between calls a metadata block is either not begun, or its payload is consumed *)
Definition bstate_ok (s : st) : Prop :=
  (sstate_ s = SMetaHead -> rem_meta s = 0)
  /\ (sstate_ s = SMetaBody -> rem_meta s = 0 /\ last_bytes s = 0 /\ last_bytes_bits s = 0 /\ quiet s).
Definition nometa_state (s : st) : Prop := sstate_ s <> SMetaHead /\ sstate_ s <> SMetaBody.

Lemma nometa_bstate s : nometa_state s -> bstate_ok s.
Proof. intros [A B]. split; intros H; contradiction. Qed.

Lemma cfc_state s : sstate_ (check_flush_complete s) = sstate_ s \/ sstate_ (check_flush_complete s) = SProcessing.
Proof. unfold check_flush_complete. destruct (sstate_eqb (sstate_ s) SFlushRequested && (avail_out_ s =? 0)); [right|left]; reflexivity. Qed.

Lemma stream_loop_states : forall fuel op s x s' x', stream_loop fuel op s x = Done (true, s', x') ->
  nometa_state s -> nometa_state s'.
Proof.
  induction fuel as [|f IH]; intros op s x s' x' Hrun Hn; [discriminate|].
  cbn [stream_loop] in Hrun.
  destruct (negb (remaining_input_block_size s =? 0) && negb (avail_in x =? 0)).
  - eapply IH; [exact Hrun|]. exact Hn.
  - destruct (inject_flush_or_push_output s x) as [[[s1 x1]|]| | |] eqn:Einj; try discriminate.
    + destruct (inject_some s x s1 x1 Einj) as [A _]. eapply IH; [exact Hrun|]. unfold nometa_state. rewrite A. exact Hn.
    + match type of Hrun with (if ?c then _ else _) = _ => destruct c end.
      * destruct (encode_data _ _ _) as [[[|] s2]| | |] eqn:Eenc; try discriminate.
        destruct (encode_data_true _ _ _ _ Eenc) as (a & rest & _ & _ & _ & _ & _ & _ & O7 & _).
        destruct (hint_fields s (avail_in x)) as (_ & _ & _ & V4). rewrite V4 in O7.
        eapply IH; [exact Hrun|]. unfold nometa_state.
        destruct ((avail_in x =? 0) && opk_eqb op OpFlush), ((avail_in x =? 0) && opk_eqb op OpFinish); fs;
          try (split; discriminate). rewrite O7. exact Hn.
      * inversion Hrun; subst s' x'. unfold nometa_state. destruct (cfc_state s) as [E|E]; rewrite E; [exact Hn|split; discriminate].
Qed.

(* what the run needs from one call, of either kind *)
Record call_post (P : N) (em : list N) (s s' : st) (out : list N) (segs : list seg) (consumed : list answer) : Prop := {
  cq_oracle : oracle s = consumed ++ oracle s';
  cq_chain : schain (last_bytes s) (last_bytes_bits s) segs (last_bytes s') (last_bytes_bits s');
  cq_ans : ans_of segs = annotate (last_bytes s) (last_bytes_bits s) consumed;
  cq_wire : kept segs -> wire (em ++ out) s' = wire em s ++ segs_bits segs;
  cq_lfp : Forall (fun a => a_lfp a <= P) consumed;
  cq_last : sstate_ s' = SFinished ->
            (sstate_ s = SFinished /\ segs = [] /\ input_pos s' = input_pos s)
            \/ (sstate_ s <> SFinished /\ exists pre a segs0 clb clbb, consumed = pre ++ [a] /\ Forall notlast pre /\ a_is_last a = true
                  /\ a_lfp a = input_pos s' /\ segs = segs0 ++ [SAns clb clbb a]);
  cq_nolast : sstate_ s' <> SFinished -> Forall notlast consumed /\ sstate_ s <> SFinished;
  cq_inv : inv s' /\ all_ok2 (oracle s') /\ Forall tclean (oracle s') /\ clean s';
  cq_pos : input_pos s' = P;
  cq_cfg : initialized s' = true /\ fastcond s' = false;
  cq_b : bstate_ok s'
}.

Lemma stream_call_post s op payload offered capn s' x' em :
  initialized s = true -> fastcond s = false -> op <> OpMeta ->
  inv s -> all_ok2 (oracle s) -> Forall tclean (oracle s) -> clean s -> input_pos s + offered < 2 ^ 64 ->
  compress_stream s op payload offered capn = Done (true, s', x') -> avail_in x' = 0 ->
  exists segs consumed, call_post (input_pos s + offered) em s s' (produced x') segs consumed.
Proof.
  intros Hini Hfc Hop Hi Hok Htc Hcl H64 Hrun Hai.
  destruct (call_trace s op payload offered capn s' x' em Hini Hfc Hop Hi Hok Htc Hcl H64 Hrun) as ((segs & consumed & T) & Hini1 & Hfc1 & Hidle).
  assert (Hnm : nometa_state s /\ nometa_state s').
  { unfold compress_stream, compress_stream_from in Hrun. rewrite (ensure_initialized_id s Hini) in Hrun.
    match type of Hrun with (if ?c then _ else _) = _ => destruct c end; [discriminate|].
    assert (Eop : opk_eqb op OpMeta = false) by (destruct op; try reflexivity; contradiction Hop; reflexivity).
    rewrite Eop in Hrun.
    destruct (sstate_eqb (sstate_ s) SMetaHead || sstate_eqb (sstate_ s) SMetaBody) eqn:Em; [discriminate|].
    apply orb_false_iff in Em. destruct Em as [E1 E2].
    assert (Hn : nometa_state s).
    { split; intros E; rewrite E in *; discriminate. }
    split; [exact Hn|].
    match type of Hrun with (if ?c then _ else _) = _ => destruct c end; [discriminate|].
    fold (fastcond s) in Hrun. rewrite Hfc in Hrun. eapply stream_loop_states; eassumption. }
  destruct T as [T1 T2 T3 T4 T5 T6 T7 T8 T9 T10 T11 T12].
  cbn [produced io0 avail_in] in T6, T11. rewrite app_nil_r in T6. rewrite Hai in T11. destruct T11 as [Tp1 Tp2]. rewrite N.add_0_r in Tp1.
  exists segs, consumed. constructor; try assumption.
  - intros Hf. destruct (T8 Hf) as [Hs|(pre & a & segs0 & clb & clbb & K1 & K2 & K3 & K4 & K5)].
    + left. destruct (T5 Hs) as [E _]. split; [exact Hs|]. split; [exact E|].
      assert (Ho : offered = 0) by (apply Hidle; rewrite Hs; discriminate). lia.
    + right. split.
      * intros Hs. pose proof (T4 ltac:(rewrite Hs; discriminate)) as E. rewrite E in K1. destruct pre; discriminate K1.
      * exists pre, a, segs0, clb, clbb. repeat split; assumption.
  - intros Hnf. split; [exact (T9 Hnf)|]. intros Hs. destruct (T5 Hs) as [_ K]. contradiction.
  - split; assumption.
  - apply nometa_bstate. exact (proj2 Hnm).
Qed.

Lemma hint_more s a : rem_meta (update_size_hint s a) = rem_meta s /\ last_flush_pos (update_size_hint s a) = last_flush_pos s
  /\ magic (update_size_hint s a) = magic s /\ first_pending (update_size_hint s a) = first_pending s
  /\ initialized (update_size_hint s a) = initialized s.
Proof. unfold update_size_hint. destruct (size_hint s =? 0); repeat split; reflexivity. Qed.

(* what a metadata call gives, on either path *)
Record mcall_post (em : list N) (s s' : st) (out : list N) (segs : list seg) (consumed : list answer) : Prop := {
  mc_oracle : oracle s = consumed ++ oracle s';
  mc_chain : schain (last_bytes s) (last_bytes_bits s) segs (last_bytes s') (last_bytes_bits s');
  mc_ans : ans_of segs = annotate (last_bytes s) (last_bytes_bits s) consumed;
  mc_wire : kept segs -> wire (em ++ out) s' = wire em s ++ segs_bits segs;
  mc_lfp : Forall (fun a => a_lfp a <= input_pos s) consumed;
  mc_nolast : Forall notlast consumed;
  mc_nf : sstate_ s <> SFinished /\ sstate_ s' <> SFinished;
  mc_inv : inv s' /\ all_ok2 (oracle s') /\ Forall tclean (oracle s') /\ clean s';
  mc_pos : input_pos s' = input_pos s;
  mc_cfg : same_cfg s s';
  mc_b : bstate_ok s';
  mc_quiet : quiet s -> consumed = [] /\ quiet s'
}.

Lemma mt_to_mcall_post em payload s s1 s' x' offered capn segs consumed :
  sstate_ s <> SFinished ->
  last_bytes s1 = last_bytes s -> last_bytes_bits s1 = last_bytes_bits s -> oracle s1 = oracle s ->
  input_pos s1 = input_pos s -> same_cfg s s1 -> (forall e, wire e s1 = wire e s) -> (quiet s -> quiet s1) ->
  mt_post em payload s1 (io0 offered capn) s' x' segs consumed ->
  mcall_post em s s' (produced x') segs consumed.
Proof.
  intros Hnf E1 E2 E3 E4 E5 E6 E7 T. destruct T as [T1 T2 T3 T4 T5 T6 T7 T8 T9 T10 T11].
  rewrite E1, E2 in T2, T3. rewrite E3 in T1. rewrite E4 in T5, T8.
  assert (Hs' : sstate_ s' <> SFinished).
  { destruct T10 as [[E _]|[[E _]|[E _]]]; rewrite E; discriminate. }
  constructor; try assumption.
  - intros K. rewrite (T4 K). cbn [produced io0]. rewrite app_nil_r, E6. reflexivity.
  - split; assumption.
  - exact (same_cfg_trans _ _ _ E5 T9).
  - destruct T10 as [[A B]|[[A (B & C & D & E)]|[A (B & C)]]]; split; intros H; rewrite A in H; try discriminate H; try assumption.
    repeat split; assumption.
  - intros Hq. exact (T11 (E7 Hq)).
Qed.

Lemma mcall_to_call_post em s s' out segs consumed :
  initialized s = true -> fastcond s = false -> mcall_post em s s' out segs consumed ->
  call_post (input_pos s) em s s' out segs consumed.
Proof.
  intros Hini Hfc [T1 T2 T3 T4 T5 T6 [T7a T7b] T8 T9 T10 T11 T12].
  constructor; try assumption.
  - intros Hf. contradiction.
  - intros _. split; assumption.
  - split; [destruct T10 as [C1 _]; rewrite C1; exact Hini|]. rewrite (same_cfg_fastcond _ _ T10). exact Hfc.
Qed.

(* process_metadata after the guards, with the fuel abstract *)
Definition pm_body (fuel : nat) (s : st) (payload : list N) (x : io) : outcome (bool * st * io) :=
  let s1 := if sstate_eqb (sstate_ s) SProcessing then upd_core s (initialized s) SMetaHead (w32 (avail_in x)) else s in
  if negb (sstate_eqb (sstate_ s1) SMetaHead) && negb (sstate_eqb (sstate_ s1) SMetaBody) then Done (false, s1, x)
  else meta_loop fuel payload s1 x.

Lemma meta_call_unfold s payload offered capn s' x' : initialized s = true ->
  compress_stream s OpMeta payload offered capn = Done (true, s', x') ->
  (negb (rem_meta s =? U32MAX) && negb (offered =? rem_meta s)) = false /\ offered <= 2 ^ 24
  /\ exists fuel, pm_body fuel (update_size_hint s 0) payload (io0 offered capn) = Done (true, s', x').
Proof.
  intros Hini Hrun. unfold compress_stream, compress_stream_from, process_metadata in Hrun.
  set (fuel := 64%nat) in Hrun. clearbody fuel.
  rewrite (ensure_initialized_id s Hini) in Hrun. fold (io0 offered capn) in Hrun.
  cbn [opk_eqb negb orb] in Hrun. rewrite orb_false_r in Hrun.
  destruct (negb (rem_meta s =? U32MAX) && negb (offered =? rem_meta s)); [discriminate|].
  split; [reflexivity|]. cbn [avail_in io0] in Hrun.
  destruct (N.ltb_spec (2 ^ 24) offered) as [|H24]; [discriminate|]. split; [exact H24|].
  exists fuel. exact Hrun.
Qed.

Section MetaCall.
  Variables (s : st) (payload : list N) (offered capn : N) (s' : st) (x' : io) (em : list N) (fuel : nat).
  Hypothesis Hi : inv s.
  Hypothesis Hok : all_ok2 (oracle s).
  Hypothesis Htc : Forall tclean (oracle s).
  Hypothesis Hcl : clean s.
  Hypothesis Hoff : offered = lenN payload.
  Hypothesis Hby : Forall (fun b => b < 256) payload.
  Hypothesis H24 : offered <= 2 ^ 24.
  Hypothesis Hrun : pm_body fuel (update_size_hint s 0) payload (io0 offered capn) = Done (true, s', x').
  Hypothesis Hai : avail_in x' = 0.

  Let sh := update_size_hint s 0.

  Lemma meta_call_new : sstate_ s = SProcessing ->
    exists segs consumed, mcall_post em s s' (produced x') segs consumed.
  Proof.
    intros Est. destruct (hint_fields s 0) as (V1 & V2 & V3 & V4). destruct (update_size_hint_oracle s 0) as [U1 U2].
    fold sh in V1, V2, V3, V4, U1, U2.
    assert (Hih : inv sh) by (apply inv_size_hint; exact Hi).
    unfold pm_body in Hrun. fold sh in Hrun. rewrite V4, Est in Hrun. cbn [sstate_eqb avail_in io0] in Hrun. fs_in Hrun.
    cbn [sstate_eqb negb andb] in Hrun.
    set (s1 := upd_core sh (initialized sh) SMetaHead (w32 offered)) in *.
    assert (Hw : w32 offered = offered) by (apply w32_small; change (2 ^ 24) with 16777216 in H24; change (2 ^ 32) with 4294967296; lia).
    assert (Hi1 : inv s1).
    { destruct Hih as [Hc [Hp [Ht Hl]]]. unfold s1, inv, cursor_ok, pad_ok in *. fs. split; [exact Hc|]. split; [intros H; discriminate H|split; assumption]. }
    assert (A1 : all_ok2 (oracle s1)) by (unfold s1; fs; rewrite U1; exact Hok).
    assert (A2 : Forall tclean (oracle s1)) by (unfold s1; fs; rewrite U1; exact Htc).
    assert (A3 : clean s1) by (unfold clean, s1; fs; rewrite V1, V2; exact Hcl).
    assert (A4 : rem_meta s1 = avail_in (io0 offered capn)) by (unfold s1; fs; exact Hw).
    destruct (meta_head payload fuel s1 (io0 offered capn) s' x' em Hi1 A1 A2 A3 eq_refl A4 eq_refl Hoff H24 Hby Hrun Hai) as (segs & consumed & T).
    exists segs, consumed.
    assert (Ec : same_cfg s s1).
    { eapply same_cfg_trans; [apply (same_cfg_hint s 0)|]. unfold same_cfg, s1. fs. repeat split; reflexivity. }
    assert (Ew : forall e, wire e s1 = wire e s).
    { intros e. unfold s1. change (wire e (upd_core sh (initialized sh) SMetaHead (w32 offered))) with (wire e sh). apply wire_size_hint. }
    assert (Eq : quiet s -> quiet s1).
    { destruct (hint_more s 0) as (_ & M2 & M3 & M4 & _). fold sh in M2, M3, M4. unfold quiet, s1. fs. rewrite V3, M2, M3, M4. intros H; exact H. }
    apply (mt_to_mcall_post em payload s s1 s' x' offered capn segs consumed); try assumption.
    rewrite Est. discriminate.
  Qed.

  Lemma meta_call_head : sstate_ s = SMetaHead -> rem_meta s = 0 -> offered = 0 ->
    exists segs consumed, mcall_post em s s' (produced x') segs consumed.
  Proof.
    intros Est Hb1 Ho0. destruct (hint_fields s 0) as (V1 & V2 & V3 & V4). destruct (update_size_hint_oracle s 0) as [U1 U2].
    destruct (hint_more s 0) as (M1 & _). fold sh in V1, V2, V3, V4, U1, U2, M1.
    assert (Hih : inv sh) by (apply inv_size_hint; exact Hi).
    unfold pm_body in Hrun. fold sh in Hrun. rewrite V4, Est in Hrun. cbn [sstate_eqb] in Hrun. rewrite V4, Est in Hrun.
    cbn [sstate_eqb negb andb] in Hrun.
    assert (A1 : all_ok2 (oracle sh)) by (rewrite U1; exact Hok).
    assert (A2 : Forall tclean (oracle sh)) by (rewrite U1; exact Htc).
    assert (A3 : clean sh) by (unfold clean; rewrite V1, V2; exact Hcl).
    assert (A4 : rem_meta sh = avail_in (io0 offered capn)) by (rewrite M1, Hb1; cbn [avail_in io0]; lia).
    assert (A5 : sstate_ sh = SMetaHead) by (rewrite V4; exact Est).
    destruct (meta_head payload fuel sh (io0 offered capn) s' x' em Hih A1 A2 A3 A5 A4 eq_refl Hoff H24 Hby Hrun Hai) as (segs & consumed & T).
    exists segs, consumed.
    apply (mt_to_mcall_post em payload s sh s' x' offered capn segs consumed); try assumption.
    - rewrite Est. discriminate.
    - apply same_cfg_hint.
    - intros e. apply wire_size_hint.
    - destruct (hint_more s 0) as (_ & M2 & M3 & M4 & _). fold sh in M2, M3, M4. unfold quiet. rewrite V3, M2, M3, M4. intros H; exact H.
  Qed.

  Lemma meta_call_body : sstate_ s = SMetaBody -> rem_meta s = 0 -> last_bytes s = 0 -> last_bytes_bits s = 0 -> quiet s -> offered = 0 ->
    exists segs consumed, mcall_post em s s' (produced x') segs consumed.
  Proof.
    intros Est B1 B2 B3 B4 Ho0. destruct (hint_fields s 0) as (V1 & V2 & V3 & V4). destruct (update_size_hint_oracle s 0) as [U1 U2].
    destruct (hint_more s 0) as (M1 & M2 & M3 & M4 & M5). fold sh in V1, V2, V3, V4, U1, U2, M1, M2, M3, M4, M5.
    assert (Hih : inv sh) by (apply inv_size_hint; exact Hi).
    unfold pm_body in Hrun. fold sh in Hrun. rewrite V4, Est in Hrun. cbn [sstate_eqb] in Hrun. rewrite V4, Est in Hrun.
    cbn [sstate_eqb negb andb] in Hrun.
    assert (Hqh : quiet sh) by (unfold quiet; rewrite V3, M2, M3, M4; exact B4).
    assert (A4 : rem_meta sh = avail_in (io0 offered capn)) by (rewrite M1, B1; cbn [avail_in io0]; lia).
    assert (A5 : sstate_ sh = SMetaBody) by (rewrite V4; exact Est).
    assert (A6 : in_off (io0 offered capn) + avail_in (io0 offered capn) = lenN payload) by (cbn [in_off avail_in io0]; lia).
    assert (A7 : last_bytes sh = 0) by (rewrite V1; exact B2).
    assert (A8 : last_bytes_bits sh = 0) by (rewrite V2; exact B3).
    destruct (meta_body payload fuel sh (io0 offered capn) s' x' em Hih A5 A4 A6 H24 A7 A8 Hqh Hrun Hai)
      as (W & O & Hi' & L1 & L2 & Hp' & Hq' & Hc' & He).
    assert (Ep : payload = []) by (apply lenN_0_nil; lia).
    exists [], []. constructor.
    + cbn [app]. rewrite O, U1. reflexivity.
    + cbn [schain]. rewrite L1, L2, B2, B3. split; reflexivity.
    + reflexivity.
    + intros _. rewrite W. cbn [produced io0 in_off]. rewrite Ep. unfold skipN. cbn [N.to_nat skipn bytes_bits flat_map segs_bits].
      rewrite !app_nil_r. apply wire_size_hint.
    + constructor.
    + constructor.
    + split; [rewrite Est; discriminate|]. destruct He as [[E _]|[E _]]; rewrite E; discriminate.
    + split; [exact Hi'|]. rewrite O, U1. split; [exact Hok|]. split; [exact Htc|]. unfold clean. rewrite L1, L2. exact cleanv_00.
    + rewrite Hp', V3. reflexivity.
    + exact (same_cfg_trans _ _ _ (same_cfg_hint s 0) Hc').
    + destruct He as [[A B]|[A B]]; split; intros H; rewrite A in H; try discriminate H.
      repeat split; assumption.
    + intros _. split; [reflexivity|exact Hq'].
  Qed.
End MetaCall.

Lemma meta_call_mpost s payload offered capn s' x' em :
  initialized s = true ->
  inv s -> all_ok2 (oracle s) -> Forall tclean (oracle s) -> clean s -> bstate_ok s ->
  offered = lenN payload -> Forall (fun b => b < 256) payload ->
  compress_stream s OpMeta payload offered capn = Done (true, s', x') -> avail_in x' = 0 ->
  exists segs consumed, mcall_post em s s' (produced x') segs consumed.
Proof.
  intros Hini Hi Hok Htc Hcl [Hb1 Hb2] Hoff Hby Hrun Hai.
  destruct (meta_call_unfold s payload offered capn s' x' Hini Hrun) as (Cg & H24 & fuel & Hpm).
  destruct (sstate_ s) eqn:Est.
  - eapply meta_call_new; eassumption.
  - exfalso. unfold pm_body in Hpm. destruct (hint_fields s 0) as (_ & _ & _ & V4). rewrite V4, Est in Hpm.
    cbn [sstate_eqb] in Hpm. rewrite V4, Est in Hpm. cbn [sstate_eqb negb andb] in Hpm. discriminate Hpm.
  - exfalso. unfold pm_body in Hpm. destruct (hint_fields s 0) as (_ & _ & _ & V4). rewrite V4, Est in Hpm.
    cbn [sstate_eqb] in Hpm. rewrite V4, Est in Hpm. cbn [sstate_eqb negb andb] in Hpm. discriminate Hpm.
  - specialize (Hb1 eq_refl). rewrite Hb1 in Cg. cbn [N.eqb U32MAX negb andb] in Cg.
    apply negb_false_iff in Cg. apply N.eqb_eq in Cg.
    eapply meta_call_head; eassumption.
  - destruct (Hb2 eq_refl) as (B1 & B2 & B3 & B4). rewrite B1 in Cg. cbn [N.eqb U32MAX negb andb] in Cg.
    apply negb_false_iff in Cg. apply N.eqb_eq in Cg.
    eapply meta_call_body; eassumption.
Qed.

Lemma meta_call_post s payload offered capn s' x' em :
  initialized s = true -> fastcond s = false ->
  inv s -> all_ok2 (oracle s) -> Forall tclean (oracle s) -> clean s -> bstate_ok s ->
  offered = lenN payload -> Forall (fun b => b < 256) payload ->
  compress_stream s OpMeta payload offered capn = Done (true, s', x') -> avail_in x' = 0 ->
  exists segs consumed, call_post (input_pos s) em s s' (produced x') segs consumed.
Proof.
  intros Hini Hfc Hi Hok Htc Hcl Hb Hoff Hby Hrun Hai.
  destruct (meta_call_mpost s payload offered capn s' x' em Hini Hi Hok Htc Hcl Hb Hoff Hby Hrun Hai) as (segs & consumed & T).
  exists segs, consumed. apply mcall_to_call_post; assumption.
Qed.
