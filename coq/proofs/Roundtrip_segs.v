(* C01 composition, decoder side II: a stream that is  header ++ segments, where a segment is
     - the bits of one back-end answer (after the bits that were pending when it was invoked),
     - a padding block (empty metadata block + zero fill), or
     - a metadata block (header written by write_metadata_header + the caller's payload),
   is decoded by the decoder spec to the input, provided every answer segment is faithful. *)
From Coq Require Import NArith ZArith List Bool Lia PeanoNat.
From V Require Import lib.Words lib.PMap spec.RfcTables spec.PrefixCode spec.Decoder model.Stream model.MetaBlockHeader
  proofs.Bitops proofs.MbHeader_proofs proofs.Stored_proofs proofs.MetaHeader_proofs
  proofs.Roundtrip_defs proofs.Roundtrip_bits proofs.Roundtrip_dec.
Import ListNotations.
Open Scope N_scope.

Inductive seg :=
| SAns (clb clbb : N) (a : answer)        (* invoked with clbb pending bits of value clb *)
| SPad (clbb : N)
| SMeta (clbb : N) (payload : list N).

Definition seg_bits (g : seg) : bits :=
  match g with
  | SAns _ clbb a => g_answer_bits clbb a
  | SPad clbb => pad_bits clbb
  | SMeta clbb p => meta_hdr_bits clbb (lenN p) ++ bytes_bits p
  end.
Definition segs_bits (l : list seg) : bits := flat_map seg_bits l.

Lemma mod8_0 a : Nat.modulo (8 * a) 8 = 0%nat.
Proof. rewrite Nat.mul_comm. apply Nat.mod_mul. discriminate. Qed.

Lemma mod8_add_mul a b : Nat.modulo (8 * a + b) 8 = Nat.modulo b 8.
Proof. rewrite Nat.add_comm, Nat.mul_comm. apply Nat.mod_add. discriminate. Qed.

(* ------------------------------------------------------------------ the two glue-written blocks *)
Lemma mb_header_metadata X : read_mb_header (false :: true :: true :: X) = Ok ((false, MbMetadata), X).
Proof. reflexivity. Qed.

Lemma rbits1_false X : rbits 1 (false :: X) = Ok (0, X). Proof. reflexivity. Qed.
Lemma rbits2_ff X : rbits 2 (false :: false :: X) = Ok (0, X). Proof. reflexivity. Qed.
Lemma rbitsN0 X : rbitsN (8 * 0) X = Ok (0, X). Proof. reflexivity. Qed.

Lemma body_empty f rest : (f < 8)%nat -> Nat.modulo (length rest) 8 = 0%nat ->
  read_metadata_body (false :: false :: false :: repeat false f ++ rest) = Ok (0, rest).
Proof.
  intros Hf Hr. unfold read_metadata_body, bind.
  rewrite rbits1_false. cbv beta iota. change (negb (0 =? 0)) with false. cbv beta iota.
  rewrite rbits2_ff. cbv beta iota. rewrite rbitsN0. cbv beta iota.
  change ((1 <? 0) && (0 / 2 ^ (8 * (0 - 1)) =? 0)) with false. cbv beta iota.
  rewrite align_zeros by assumption. change (0 =? 0) with true. cbv beta iota. reflexivity.
Qed.

Section SegDec.
  Variable dict_word : N -> N -> list N.
  Variable transform_tbl : N -> option (list N * N * list N).
  Variable large : bool.
  Variable window B : N.

  Notation MB := (meta_block dict_word transform_tbl large window B).

  Definition skip_to (s : dstate) (bs : bits) : dstate :=
    {| d_out := d_out s; d_ring := d_ring s; d_info := bump (d_info s) K_metadata; d_bits := bs |}.

  Lemma pad_decodes clbb rest (s : dstate) : clbb < 16 -> Nat.modulo (length rest) 8 = 0%nat ->
    MB {| d_out := d_out s; d_ring := d_ring s; d_info := d_info s; d_bits := pad_bits clbb ++ rest |} = Continue (skip_to s rest).
  Proof.
    intros Hc Hr. destruct (pad_bits_shape clbb Hc) as (Sh & Hf & _ & _). rewrite Sh.
    unfold meta_block. cbn [d_bits app]. rewrite mb_header_metadata.
    rewrite body_empty by (try exact Hr; lia). reflexivity.
  Qed.

  Lemma mh_closed n : 1 <= n -> mh_val n = 6 + 2 ^ 4 * (nbytes_of n + 2 ^ 2 * (n - 1)) /\ mh_len n = 6 + 8 * nbytes_of n.
  Proof.
    intros Hn. unfold mh_val, mh_len. rewrite (header_bits_nonempty 0 0 n) by (try exact Hn; reflexivity).
    cbn [fst snd]. split; [|lia]. change (2 ^ (0 + 1)) with 2. change (2 ^ (0 + 4)) with 16. change (2 ^ (0 + 6)) with 64.
    change (2 ^ 4) with 16. change (2 ^ 2) with 4. lia.
  Qed.

  Lemma mh_closed0 : mh_val 0 = 6 /\ mh_len 0 = 6.
  Proof. split; reflexivity. Qed.

  Lemma fill_exists clbb L : exists f, 8 * ((clbb + L + 7) / 8) = clbb + L + f /\ f < 8.
  Proof.
    exists (8 * ((clbb + L + 7) / 8) - (clbb + L)).
    pose proof (N.div_mod (clbb + L + 7) 8 ltac:(discriminate)) as D.
    pose proof (N.mod_upper_bound (clbb + L + 7) 8 ltac:(discriminate)) as U.
    remember ((clbb + L + 7) / 8) as q. remember ((clbb + L + 7) mod 8) as r. split; lia.
  Qed.

  Lemma meta_decodes clbb p rest (s : dstate) : clbb < 16 -> lenN p <= 2 ^ 24 -> Forall (fun b => b < 256) p ->
    Nat.modulo (length rest) 8 = 0%nat ->
    MB {| d_out := d_out s; d_ring := d_ring s; d_info := d_info s; d_bits := (meta_hdr_bits clbb (lenN p) ++ bytes_bits p) ++ rest |}
      = Continue (skip_to s rest).
  Proof.
    intros Hc Hn Hb Hr. unfold meta_hdr_bits.
    destruct (fill_exists clbb (mh_len (lenN p))) as (f & Ef & Hf). rewrite Ef.
    assert (Hal : Nat.modulo (length (bytes_bits p ++ rest)) 8 = 0%nat).
    { rewrite app_length, bytes_bits_length. rewrite mod8_add_mul. exact Hr. }
    destruct (N.eq_dec (lenN p) 0) as [E0|E0].
    - (* empty payload: the same six bits as a padding block *)
      assert (Ep : p = []) by (destruct p; [reflexivity|unfold lenN in E0; cbn in E0; lia]). subst p.
      change (lenN []) with 0 in *. destruct mh_closed0 as [V L]. rewrite V, L in *.
      replace (N.to_nat (clbb + 6 + f - clbb)) with (3 + (3 + N.to_nat f))%nat by lia.
      rewrite (n2b_split 3 _ 6 0) by (cbn; lia). rewrite n2b_zero.
      change (N_to_bits 3 6) with [false; true; true].
      unfold meta_block. cbn [d_bits app bytes_bits flat_map]. rewrite mb_header_metadata.
      cbn [Nat.add repeat]. rewrite <- app_assoc. cbn [app]. rewrite body_empty by (try exact Hr; lia). reflexivity.
    - set (n := lenN p) in *. assert (Hn1 : 1 <= n) by lia.
      destruct (mh_closed n Hn1) as [V L]. rewrite V, L in *.
      set (k := nbytes_of n) in *.
      assert (Hk : (k = 1 /\ n - 1 < 2 ^ 8) \/ (k = 2 /\ 2 ^ 8 <= n - 1 /\ n - 1 < 2 ^ 16) \/ (k = 3 /\ 2 ^ 16 <= n - 1 /\ n - 1 < 2 ^ 24)).
      { destruct (nbytes_of_class n Hn1 Hn) as [[A K]|[[A [A' K]]|[A K]]]; fold k in K; [left|right; left|right; right];
          (split; [exact K|]); change (2 ^ 8) with 256; change (2 ^ 16) with 65536; change (2 ^ 24) with 16777216 in *; lia. }
      assert (Hk4 : k < 4) by (destruct Hk as [[K _]|[[K _]|[K _]]]; lia).
      assert (Hv : n - 1 < 2 ^ (8 * k)).
      { destruct Hk as [[K H1]|[[K [_ H1]]|[K [_ H1]]]]; rewrite K; exact H1. }
      replace (N.to_nat (clbb + (6 + 8 * k) + f - clbb)) with (4 + (2 + (N.to_nat (8 * k) + N.to_nat f)))%nat by lia.
      rewrite (n2b_split 4 _ 6 _) by (cbn; lia).
      rewrite (n2b_split 2 _ k _) by (cbn; lia).
      replace (n - 1) with (n - 1 + 2 ^ N.of_nat (N.to_nat (8 * k)) * 0) at 1 by lia.
      rewrite (n2b_split (N.to_nat (8 * k)) _ (n - 1) 0) by (rewrite N2Nat.id; exact Hv).
      rewrite n2b_zero. change (N_to_bits 4 6) with [false; true; true; false].
      unfold meta_block. cbn [d_bits]. rewrite <- !app_assoc. cbn [app]. rewrite mb_header_metadata.
      assert (E : read_metadata_body (false :: N_to_bits 2 k ++ N_to_bits (N.to_nat (8 * k)) (n - 1) ++ repeat false (N.to_nat f) ++ bytes_bits p ++ rest)
                  = Ok (n, rest)).
      { unfold read_metadata_body, bind.
        rewrite rbits1_false. cbv beta iota. change (negb (0 =? 0)) with false. cbv beta iota.
        rewrite (rbits_n2b 2 k) by (cbn; lia). cbv beta iota.
        rewrite (rbitsN_n2b (8 * k) (n - 1)) by exact Hv. cbv beta iota.
        assert (Hz : (1 <? k) && ((n - 1) / 2 ^ (8 * (k - 1)) =? 0) = false).
        { destruct Hk as [[K H1]|[[K [H0 H1]]|[K [H0 H1]]]]; rewrite K.
          - reflexivity.
          - change (8 * (2 - 1)) with 8. apply andb_false_iff. right. apply N.eqb_neq. intros Z.
            apply N.div_small_iff in Z; [lia|discriminate].
          - change (8 * (3 - 1)) with 16. apply andb_false_iff. right. apply N.eqb_neq. intros Z.
            apply N.div_small_iff in Z; [lia|discriminate]. }
        rewrite Hz. cbv beta iota.
        rewrite align_zeros by (try exact Hal; lia).
        assert (Hk0 : (k =? 0) = false) by (apply N.eqb_neq; destruct Hk as [[K _]|[[K _]|[K _]]]; lia).
        rewrite Hk0. replace (n - 1 + 1) with n by lia.
        unfold n, lenN. rewrite (rbytes_spec p rest Hb). reflexivity. }
      rewrite E. reflexivity.
  Qed.
End SegDec.
