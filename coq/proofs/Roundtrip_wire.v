(* C01 composition, glue side I: the "wire" of an encoder state - the bytes delivered so far, the
   pending bytes, the partial last byte(s), read as bits - and how each step of the stream glue
   changes it.  Pushing output to the caller (any amount) does not change the wire. *)
From Coq Require Import NArith ZArith List Bool Lia PeanoNat.
From V Require Import lib.Words spec.PrefixCode model.Stream model.MetaBlockHeader
  proofs.Bitops proofs.MbHeader_proofs proofs.Stored_proofs proofs.Stream_proofs proofs.Dist_proofs proofs.NoPanic_proofs
  proofs.Slicing_proofs proofs.MetaHeader_proofs proofs.Roundtrip_defs proofs.Roundtrip_bits proofs.Roundtrip_segs proofs.Roundtrip_chain.
Import ListNotations.
Open Scope N_scope.

(* pending value without bits above its length, or nothing pending and only stale bits in the second byte *)
Definition cleanv (lb lbb : N) : Prop := (lbb = 0 /\ lb mod 256 = 0) \/ lb < 2 ^ lbb.
Definition clean (s : st) : Prop := cleanv (last_bytes s) (last_bytes_bits s).
Lemma cleanv_00 : cleanv 0 0. Proof. right. reflexivity. Qed.
Lemma cleanv_nz lb lbb : cleanv lb lbb -> lbb <> 0 -> lb < 2 ^ lbb.
Proof. intros [[H _]|H] Hn; [contradiction|exact H]. Qed.
Definition lbits (s : st) : bits := N_to_bits (N.to_nat (last_bytes_bits s)) (last_bytes s).
Definition wire (em : list N) (s : st) : bits := bytes_bits (em ++ pend s) ++ lbits s.

(* ------------------------------------------------------------------ list facts *)
Lemma set_at_spec : forall (l : list N) i v, (i <= length l)%nat -> set_at l i v = firstn i l ++ [v] ++ skipn (S i) l.
Proof.
  intros l i. revert l. induction i as [|i IH]; intros l v H.
  - destruct l; reflexivity.
  - destruct l as [|x t]; [cbn in H; lia|]. cbn [set_at firstn skipn app]. f_equal. apply IH. cbn in H. lia.
Qed.

Lemma skipn_skipn' {A} a : forall b (l : list A), skipn a (skipn b l) = skipn (b + a) l.
Proof.
  intros b. induction b as [|b IH]; intros l; [reflexivity|]. destruct l as [|h t].
  - cbn [skipn Nat.add]. destruct a; reflexivity.
  - cbn [skipn Nat.add]. apply IH.
Qed.

Lemma write_list_spec : forall bs (l : list N) i, (i <= length l)%nat ->
  write_list l i bs = firstn i l ++ bs ++ skipn (i + length bs) l.
Proof.
  induction bs as [|b t IH]; intros l i H.
  - cbn [write_list app length]. rewrite Nat.add_0_r. symmetry. apply firstn_skipn.
  - cbn [write_list]. rewrite IH.
    + rewrite (set_at_spec l i b H).
      assert (Hl : length (firstn i l) = i) by (apply firstn_length_le; exact H).
      rewrite firstn_app, Hl. replace (S i - i)%nat with 1%nat by lia.
      rewrite (firstn_all2 (n := S i)) by lia. cbn [firstn app].
      rewrite <- !app_assoc. f_equal. cbn [app]. f_equal. f_equal.
      rewrite skipn_app, Hl. rewrite (skipn_all2 (n := S i + length t)) by lia. cbn [app].
      replace (S i + length t - i)%nat with (S (length t)) by lia.
      change (skipn (S (length t)) (b :: skipn (S i) l)) with (skipn (length t) (skipn (S i) l)).
      rewrite skipn_skipn'. f_equal. cbn [length]. lia.
    + rewrite (set_at_spec l i b H). rewrite !app_length, firstn_length_le by exact H. cbn [length]. lia.
Qed.

(* bytes written right behind the pending bytes extend the pending bytes *)
Lemma pend_after_write (l : list N) off a bs : (off + a <= length l)%nat ->
  firstn (a + length bs) (skipn off (write_list l (off + a) bs)) = firstn a (skipn off l) ++ bs.
Proof.
  intros H. rewrite write_list_spec by exact H.
  assert (Hl : length (firstn (off + a) l) = (off + a)%nat) by (apply firstn_length_le; exact H).
  rewrite skipn_app, Hl. replace (off - (off + a))%nat with 0%nat by lia. cbn [skipn].
  rewrite firstn_app. rewrite skipn_length, Hl. replace (off + a - off)%nat with a by lia.
  replace (a + length bs - a)%nat with (length bs) by lia.
  rewrite (firstn_all2 (n := a + length bs)) by (rewrite skipn_length, Hl; lia).
  rewrite firstn_app, Nat.sub_diag. cbn [firstn]. rewrite app_nil_r, firstn_all.
  f_equal. rewrite <- firstn_skipn_comm. reflexivity.
Qed.

Lemma takeN_0 (l : list N) : takeN 0 l = [].
Proof. reflexivity. Qed.

Lemma pend_nil s : avail_out_ s = 0 -> pend s = [].
Proof. unfold pend. intros ->. reflexivity. Qed.

(* ------------------------------------------------------------------ steps that keep the wire *)
Lemma wire_upd_pos em s a b c : wire em (upd_pos s a b c) = wire em s.
Proof. reflexivity. Qed.

Lemma wire_set_sstate em s ss : wire em (set_sstate s ss) = wire em s.
Proof. reflexivity. Qed.

Lemma wire_size_hint em s a : wire em (update_size_hint s a) = wire em s.
Proof. unfold update_size_hint. destruct (size_hint s =? 0); reflexivity. Qed.

Lemma wire_push em s k : cursor_ok s -> k <= avail_out_ s -> wire (em ++ takeN k (view s)) (pushk s k) = wire em s.
Proof.
  intros Hc Hk. destruct (pushall_pushk s k Hc Hk) as [_ P]. unfold wire.
  rewrite <- app_assoc, P. reflexivity.
Qed.

Lemma wire_cfc em s : wire em (check_flush_complete s) = wire em s.
Proof.
  unfold check_flush_complete.
  destruct (sstate_eqb (sstate_ s) SFlushRequested && (avail_out_ s =? 0)) eqn:C; [|reflexivity].
  apply andb_true_iff in C. destruct C as [_ C]. apply N.eqb_eq in C.
  unfold wire, pend. fs. rewrite C. reflexivity.
Qed.

(* ------------------------------------------------------------------ the back end (main path) *)
Lemma encode_data_out s il ff s2 : encode_data s il ff = Done (true, s2) ->
  exists a rest, oracle s = a :: rest /\ oracle s2 = rest /\ pend s2 = a_out a
    /\ last_bytes s2 = a_lb a /\ last_bytes_bits s2 = a_lbb a.
Proof.
  unfold encode_data. intros H. destruct (oracle s) as [|a rest] eqn:Eo; [discriminate|].
  destruct (a_fast a); [discriminate|].
  destruct (Bool.eqb (a_is_last a) il); cbn [negb] in H; [|discriminate].
  destruct (Bool.eqb (a_force_flush a) ff); cbn [negb] in H; [|discriminate].
  destruct (a_ipos a =? input_pos s); cbn [negb] in H; [|discriminate].
  destruct (a_hint a =? size_hint s); cbn [negb] in H; [|discriminate].
  destruct (last_emitted s).
  - destruct (a_result a); discriminate.
  - destruct (input_block_size s <? unprocessed s).
    + destruct (a_result a); discriminate.
    + destruct (a_result a); cbn [negb] in H; [|discriminate].
      match type of H with (if ?c then _ else _) = _ => destruct c eqn:Cno; [discriminate|] end.
      match type of H with (if ?c then _ else _) = _ => destruct c; [discriminate|] end.
      inversion H; subst s2; clear H. exists a, rest. fs. repeat split; try reflexivity.
      unfold pend, view. fs.
      destruct (a_out a) as [|b t] eqn:Eout; [reflexivity|].
      apply andb_false_iff in Cno. destruct Cno as [Cno|Cno]; [|discriminate Cno].
      apply negb_false_iff in Cno. destruct (a_no a) as [|o|o]; try discriminate Cno.
      cbn in Cno. apply N.eqb_eq in Cno. subst o.
      unfold takeN, skipN, lenN. rewrite Nat2N.id. cbn [N.to_nat skipn]. apply firstn_all.
Qed.

(* the bits the answer adds to the wire when it kept the pending bits *)
Lemma wire_answer em s s2 a : avail_out_ s = 0 -> pend s2 = a_out a -> last_bytes s2 = a_lb a -> last_bytes_bits s2 = a_lbb a ->
  carry_kept (last_bytes s) (last_bytes_bits s) a ->
  wire em s2 = wire em s ++ g_answer_bits (last_bytes_bits s) a.
Proof.
  intros Hao Hp Hlb Hlbb Hk. unfold wire, lbits. rewrite Hp, Hlb, Hlbb, (pend_nil s Hao).
  rewrite app_nil_r, bytes_bits_app, <- !app_assoc. f_equal.
  fold (full_bits a). apply kept_split. exact Hk.
Qed.

(* ------------------------------------------------------------------ the padding block *)
Lemma seal_value lb lbb : lbb < 16 -> lb < 2 ^ lbb ->
  w32 (N.lor lb (N.shiftl 6 lbb)) = lb + 2 ^ lbb * 6 /\ lb + 2 ^ lbb * 6 < 2 ^ 32.
Proof.
  intros Hl Hb. rewrite (lor_small_shiftl 6 lbb lb Hb).
  assert (P : 2 ^ lbb <= 2 ^ 15) by (apply N.pow_le_mono_r; lia).
  change (2 ^ 15) with 32768 in P. change (2 ^ 32) with 4294967296.
  remember (2 ^ lbb) as p. split; [|lia]. unfold w32. change (2 ^ 32) with 4294967296. rewrite N.mod_small by lia. lia.
Qed.

Lemma seal_bytes_le lbb (seal : N) : lbb < 16 ->
  [seal mod 256] ++ (if 8 <? lbb + 6 then [(seal / 256) mod 256] else [])
                 ++ (if 16 <? lbb + 6 then [(seal / 65536) mod 256] else [])
  = le_bytes (N.to_nat ((lbb + 13) / 8)) seal.
Proof.
  intros H.
  assert (D : (lbb + 13) / 8 = if 16 <? lbb + 6 then 3 else if 8 <? lbb + 6 then 2 else 1).
  { destruct (N.ltb_spec 16 (lbb + 6)); destruct (N.ltb_spec 8 (lbb + 6)); try lia; symmetry.
    - apply (N.div_unique (lbb + 13) 8 3 (lbb + 13 - 24)); lia.
    - apply (N.div_unique (lbb + 13) 8 2 (lbb + 13 - 16)); lia.
    - apply (N.div_unique (lbb + 13) 8 1 (lbb + 13 - 8)); lia. }
  rewrite D.
  assert (E : seal / 65536 = seal / 256 / 256) by (rewrite N.div_div by discriminate; reflexivity).
  destruct (N.ltb_spec 16 (lbb + 6)); destruct (N.ltb_spec 8 (lbb + 6)); try lia; cbn [N.to_nat Pos.to_nat Pos.iter_op Nat.add le_bytes app];
    rewrite ?E; reflexivity.
Qed.

Lemma padding_wire em s s' : inv s -> sstate_ s = SFlushRequested -> last_bytes_bits s <> 0 -> clean s ->
  inject_byte_padding_block s = Done s' ->
  wire em s' = wire em s ++ pad_bits (last_bytes_bits s) /\ last_bytes s' = 0 /\ last_bytes_bits s' = 0.
Proof.
  intros [Hc [Hp [Ht Hl]]] Hfl Hlb Hcl0 H.
  pose proof (cleanv_nz _ _ Hcl0 Hlb) as Hcl.
  unfold inject_byte_padding_block in H.
  destruct (seal_value (last_bytes s) (last_bytes_bits s) Hl Hcl) as [Sv Sb].
  rewrite Sv in H.
  set (seal := last_bytes s + 2 ^ last_bytes_bits s * 6) in *.
  rewrite (seal_bytes_le (last_bytes_bits s) seal Hl) in H.
  set (k := (last_bytes_bits s + 13) / 8) in *.
  replace ((last_bytes_bits s + 6 + 7) / 8) with k in H by (unfold k; f_equal; lia).
  set (bytes := le_bytes (N.to_nat k) seal) in *.
  assert (Lb : length bytes = N.to_nat k) by (unfold bytes; pose proof (lenN_le_bytes (N.to_nat k) seal) as L; unfold lenN in L; lia).
  destruct (pad_bits_shape (last_bytes_bits s) Hl) as (_ & Hf & _ & Ek). fold k in Ek.
  assert (Hk3 : k <= 3).
  { unfold k. apply N.lt_succ_r. apply N.div_lt_upper_bound; [discriminate|]. lia. }
  assert (Bb : bytes_bits bytes = lbits s ++ pad_bits (last_bytes_bits s)).
  { unfold bytes. rewrite le_bytes_bits. unfold lbits, pad_bits. fold k.
    replace (8 * N.to_nat k)%nat with (N.to_nat (last_bytes_bits s) + N.to_nat (8 * k - last_bytes_bits s))%nat by lia.
    unfold seal. replace (2 ^ last_bytes_bits s) with (2 ^ N.of_nat (N.to_nat (last_bytes_bits s))) by (rewrite N2Nat.id; reflexivity).
    apply n2b_split. rewrite N2Nat.id. exact Hcl. }
  assert (Fin : forall s3, pend s3 = pend s ++ bytes -> last_bytes s3 = 0 -> last_bytes_bits s3 = 0 ->
            wire em s3 = wire em s ++ pad_bits (last_bytes_bits s)).
  { intros s3 P3 L3 B3. unfold wire. rewrite P3. unfold lbits at 1. rewrite L3, B3. cbn [N.to_nat N_to_bits]. rewrite app_nil_r.
    rewrite app_assoc, bytes_bits_app, Bb, <- !app_assoc. reflexivity. }
  fs_in H.
  destruct (N.eqb_spec (avail_out_ s) 0) as [E0|E0].
  - fs_in H. unfold write_at_cursor in H. fs_in H.
    destruct (16 <? 0 + 0 + lenN bytes); [discriminate|].
    inversion H; subst s'; clear H. fs. split; [|split; reflexivity].
    apply Fin; [|reflexivity|reflexivity].
    unfold pend, view. fs. rewrite E0. cbn [takeN N.to_nat firstn app].
    unfold takeN, skipN. change (N.to_nat (0 + 0)) with (0 + 0)%nat.
    replace (N.to_nat (0 + k)) with (0 + length bytes)%nat by lia.
    change (N.to_nat 0) with 0%nat. change (write_list (tiny s) 0 bytes) with (write_list (tiny s) (0 + 0) bytes).
    rewrite (pend_after_write (tiny s) 0 0 bytes) by lia. reflexivity.
  - destruct (Hp Hfl Hlb E0) as [off [En [Hroom H32]]].
    fs_in H. rewrite En in H. unfold write_at_cursor in H. fs_in H. rewrite En in H.
    destruct (storage_size s <? off + avail_out_ s + lenN bytes); [discriminate|].
    inversion H; subst s'; clear H. fs. split; [|split; reflexivity].
    apply Fin; [|reflexivity|reflexivity].
    unfold pend, view. fs. rewrite En. unfold cursor_ok in Hc. rewrite En in Hc.
    unfold takeN, skipN.
    replace (N.to_nat (off + avail_out_ s)) with (N.to_nat off + N.to_nat (avail_out_ s))%nat by lia.
    replace (N.to_nat (avail_out_ s + k)) with (N.to_nat (avail_out_ s) + length bytes)%nat by lia.
    apply pend_after_write. unfold lenN in Hc. lia.
Qed.
