(* C01 composition: the statement of props/C01.v (C01_stream_roundtrip_modulo_heuristics_stmt) is
   FALSE as written.  Each witness below satisfies every premise of that statement (answers within
   answer_ok, every answer faithful in the sense of backend_faithful, the script runs to a finished
   encoder with every call returning true) and the decoder spec does not return the input.
   They isolate what the premises do not say about a back-end answer:
     W1  the bits an answer starts with need not be the pending partial byte (here: the stream header);
     W2  the last answer may leave bits in the partial byte, which a finished encoder never emits;
     W3  on the quality 0/1 path nothing ties a_lfp to the bytes the invocation was given. *)
From Coq Require Import NArith ZArith List Bool Lia.
From V Require Import lib.Words lib.PMap spec.RfcTables spec.PrefixCode spec.Decoder model.Stream model.MetaBlockHeader
  proofs.MbHeader_proofs proofs.Stream_proofs proofs.Roundtrip_defs.
Import ListNotations.
Open Scope N_scope.

(* the statement of props/C01.v over an abstract call type *)
Definition stmt_g (dict_word : N -> N -> list N) (transform_tbl : N -> option (list N * N * list N))
    (C : Type) (c_op : C -> opk) (c_in : C -> list N) (c_cap : C -> N) : Prop :=
  forall (params : list (N * N)) (cs : list C) (answers : list answer) s' emitted,
    let s0 := state0 params answers in
    let input := g_input C c_op c_in cs in
    let s1 := ensure_initialized s0 in
    all_ok answers ->
    g_all_faithful dict_word transform_tbl (large_window s1)
                   (Z.to_N (Z.max (lgwin s1) (if ((quality s1 =? 0) || (quality s1 =? 1))%Z then 18 else 0)))
                   input 0 (last_bytes_bits s1) answers ->
    g_run_calls C c_op c_in c_cap s0 cs [] = Done (true, s', emitted) -> is_finished s' = true ->
    exists info, decode dict_word transform_tbl true [] emitted = Ok (input, info).

Definition mk_answer (fast last : bool) (block : N) (out : list N) (lb lbb lfp : N) (no : nextout) : answer :=
  {| a_fast := fast; a_is_last := last; a_force_flush := false; a_result := true; a_inplace := fast;
     a_block := block; a_out := out; a_lb := lb; a_lbb := lbb; a_ipos := lfp; a_lfp := lfp; a_lpp := lfp;
     a_hint := 0; a_no := no |}.

Section W.
  Variable dict_word : N -> N -> list N.
  Variable transform_tbl : N -> option (list N * N * list N).
  (* any call type with a constructor *)
  Variable C : Type.
  Variable c_op : C -> opk.
  Variable c_in : C -> list N.
  Variable c_cap : C -> N.
  Variable mk : opk -> list N -> N -> C.
  Hypothesis mk_op : forall o i c, c_op (mk o i c) = o.
  Hypothesis mk_in : forall o i c, c_in (mk o i c) = i.
  Hypothesis mk_cap : forall o i c, c_cap (mk o i c) = c.
  Notation rrun := (g_run_calls C c_op c_in c_cap).
  Notation rinput := (g_input C c_op c_in).
  Notation stmt_r := (stmt_g dict_word transform_tbl C c_op c_in c_cap).

  Lemma one_call_run s o i cap :
    rrun s [mk o i cap] [] =
    match compress_stream s o i (lenN i) cap with
    | Done (true, s', x) => if avail_in x =? 0 then Done (true, s', [] ++ produced x) else Done (false, s', [])
    | Done (false, s', _) => Done (false, s', [])
    | Panic w => Panic w | Mismatch w => Mismatch w | OutOfFuel => OutOfFuel
    end.
  Proof. cbn [g_run_calls]. rewrite mk_op, mk_in, mk_cap. reflexivity. Qed.

  Lemma one_call_input o i cap : rinput [mk o i cap] = if negb (opk_eqb o OpMeta) then i ++ [] else [].
  Proof. unfold g_input. cbn [filter]. rewrite mk_op. destruct (negb (opk_eqb o OpMeta)); cbn [map concat]; rewrite ?mk_in; reflexivity. Qed.

  (* an answer whose own bits are just the empty last meta-block (ISLAST = 1, ISLASTEMPTY = 1) is
     faithful for the empty slice, whatever precedes it *)
  Lemma empty_last_faithful large wbits input lfp carry a :
    g_answer_bits carry a = [true; true] -> a_is_last a = true -> a_lfp a = lfp ->
    g_backend_faithful dict_word transform_tbl large wbits input lfp carry a.
  Proof.
    intros Hb Hl Hp s rest Ho Hpos. rewrite Hb, Hl.
    eexists. exists 1%nat. split; [cbn; lia|].
    cbn [N.of_nat Pos.of_succ_nat loop_n loop_pos]. unfold meta_block. cbn [d_bits].
    destruct (empty_last_roundtrip [] rest) as (_ & _ & _ & _ & R). rewrite R.
    split; [reflexivity|]. cbn [d_bits d_out]. split; [reflexivity|]. rewrite Hp. exact Ho.
  Qed.

  (* ---- W1: large window (14 header bits), empty input, one FINISH call.  The answer's two bytes
     carry the empty last meta-block in bits 14..15 but zeros where the stream header was pending. *)
  Definition w1_params : list (N * N) := [(6, 1)].
  Definition w1_script : list C := [mk OpFinish [] 100].
  Definition w1_answers : list answer := [mk_answer false true 0 [0; 192] 0 0 0 (NoDyn 0)].

  Lemma w1_runs : exists s', rrun (state0 w1_params w1_answers) w1_script [] = Done (true, s', [0; 192]) /\ is_finished s' = true.
  Proof. unfold w1_script. rewrite one_call_run. eexists. split; vm_compute; reflexivity. Qed.

  Theorem stmt_refuted_carry : ~ stmt_r.
  Proof.
    intros H. destruct w1_runs as (s' & Hrun & Hfin).
    destruct (H w1_params w1_script w1_answers s' [0; 192]) as (info & Hd).
    - reflexivity.
    - split; [|exact I]. apply empty_last_faithful; reflexivity.
    - exact Hrun.
    - exact Hfin.
    - unfold w1_script in Hd. rewrite one_call_input in Hd. vm_compute in Hd. discriminate Hd.
  Qed.

  (* the same answer with the pending header bits kept: the stream 11 D6 decodes to the empty input *)
  Example w1_kept :
    (exists s', rrun (state0 w1_params [mk_answer false true 0 [17; 214] 0 0 0 (NoDyn 0)]) w1_script [] = Done (true, s', [17; 214]))
    /\ exists info, decode dict_word transform_tbl true [] [17; 214] = Ok ([], info).
  Proof. split; [unfold w1_script; rewrite one_call_run; eexists; vm_compute; reflexivity|]. eexists. vm_compute. reflexivity. Qed.

  (* ---- W2: default parameters (4 header bits 1101), empty input.  The answer emits no whole byte
     and leaves header + empty last meta-block in its partial byte: nothing is ever emitted. *)
  Definition w2_script : list C := [mk OpFinish [] 100].
  Definition w2_answers : list answer := [mk_answer false true 0 [] 59 6 0 NoNone].

  Lemma w2_runs : exists s', rrun (state0 [] w2_answers) w2_script [] = Done (true, s', []) /\ is_finished s' = true.
  Proof. unfold w2_script. rewrite one_call_run. eexists. split; vm_compute; reflexivity. Qed.

  Theorem stmt_refuted_tail : ~ stmt_r.
  Proof.
    intros H. destruct w2_runs as (s' & Hrun & Hfin).
    destruct (H [] w2_script w2_answers s' []) as (info & Hd).
    - reflexivity.
    - split; [|exact I]. apply empty_last_faithful; reflexivity.
    - exact Hrun.
    - exact Hfin.
    - unfold w2_script in Hd. rewrite one_call_input in Hd. vm_compute in Hd. discriminate Hd.
  Qed.

  (* ---- W3: quality 0, large window, one input byte, one FINISH call.  The answer (one-pass path)
     claims a_lfp = 0 and emits the header + the empty last meta-block: a valid stream for the
     EMPTY input, "faithful" for the slice [0, a_lfp) = [0, 0), and the input byte is lost. *)
  Definition w3_params : list (N * N) := [(1, 0); (6, 1)].
  Definition w3_script : list C := [mk OpFinish [65] 1000].
  Definition w3_answers : list answer := [mk_answer true true 1 [17; 214] 0 0 0 NoNone].

  Lemma w3_runs : exists s', rrun (state0 w3_params w3_answers) w3_script [] = Done (true, s', [17; 214]) /\ is_finished s' = true.
  Proof. unfold w3_script. rewrite one_call_run. eexists. split; vm_compute; reflexivity. Qed.

  Theorem stmt_refuted_fast_positions : ~ stmt_r.
  Proof.
    intros H. destruct w3_runs as (s' & Hrun & Hfin).
    destruct (H w3_params w3_script w3_answers s' [17; 214]) as (info & Hd).
    - reflexivity.
    - split; [|exact I]. apply empty_last_faithful; reflexivity.
    - exact Hrun.
    - exact Hfin.
    - unfold w3_script in Hd. rewrite one_call_input in Hd. vm_compute in Hd. discriminate Hd.
  Qed.
End W.
