(* C05: output-slicing independence, one-pass/two-pass path (fast_loop: quality 0/1, not
   catable, no magic header).

   On this path the physical layout depends on the capacity offered (a block is compressed
   in place iff 2*block+503 <= capacity, otherwise staged in the encoder's storage; flush
   padding goes behind staged bytes or into the tiny buffer), and [fast_answer] compares the
   recorded [a_inplace] flag with the model's own decision.  So the statement is about the
   LOGICAL state [alpha s] (everything except cursor/storage/tiny, running total advanced by
   the pending bytes, [a_inplace] erased from the recorded answers) and the logical output
   (delivered ++ pending).  [afast] is the loop on logical states; it never looks at a
   capacity. *)
From Coq Require Import NArith ZArith List Bool Lia.
From V Require Import lib.Words model.Stream proofs.Stream_proofs proofs.Dist_proofs proofs.NoPanic_proofs
                      proofs.Slicing_proofs.
Import ListNotations.
Open Scope N_scope.

(* ---- list facts about write_list ---- *)
Lemma set_at_decomp : forall (l : list N) i v, (i <= length l)%nat ->
  set_at l i v = firstn i l ++ v :: skipn (S i) l.
Proof.
  intros l i. revert l. induction i as [|i IH]; intros l v H.
  - destruct l; reflexivity.
  - destruct l as [|x t]; [cbn in H; lia|]. cbn [set_at firstn skipn app]. f_equal.
    rewrite (IH t v) by (cbn in H; lia). reflexivity.
Qed.

Lemma firstn_write_list : forall bs (l : list N) i, (i <= length l)%nat ->
  firstn (i + length bs) (write_list l i bs) = firstn i l ++ bs.
Proof.
  induction bs as [|b t IH]; intros l i H; cbn [write_list length].
  - rewrite Nat.add_0_r, app_nil_r. reflexivity.
  - assert (Hl : (S i <= length (set_at l i b))%nat).
    { rewrite (set_at_decomp l i b H), app_length, firstn_length_le by exact H. cbn [length]. lia. }
    replace (i + S (length t))%nat with (S i + length t)%nat by lia.
    rewrite (IH (set_at l i b) (S i) Hl).
    rewrite (set_at_decomp l i b H).
    replace (S i) with (length (firstn i l ++ [b])) at 1
      by (rewrite app_length, firstn_length_le by exact H; cbn [length]; lia).
    replace (firstn i l ++ b :: skipn (S i) l) with ((firstn i l ++ [b]) ++ skipn (S i) l)
      by (rewrite <- app_assoc; reflexivity).
    rewrite firstn_app, Nat.sub_diag, firstn_all. cbn [firstn]. rewrite app_nil_r, <- app_assoc. reflexivity.
Qed.

Lemma takeN_all (l : list N) : takeN (lenN l) l = l.
Proof. unfold takeN, lenN. rewrite Nat2N.id. apply firstn_all. Qed.

(* the bytes of a padded cursor: old pending bytes followed by the written ones *)
Lemma take_skip_write (l : list N) off av bs :
  off + av <= lenN l ->
  takeN (av + lenN bs) (skipN off (write_list l (N.to_nat (off + av)) bs)) = takeN av (skipN off l) ++ bs.
Proof.
  unfold takeN, skipN, lenN. intros H.
  rewrite N2Nat.inj_add, Nat2N.id, N2Nat.inj_add.
  set (o := N.to_nat off). set (a := N.to_nat av).
  assert (Hl : (o + a <= length l)%nat) by (unfold o, a; lia).
  rewrite firstn_skipn_comm.
  replace (o + (a + length bs))%nat with ((o + a) + length bs)%nat by lia.
  rewrite (firstn_write_list bs l (o + a) Hl).
  rewrite skipn_app. rewrite firstn_length_le by exact Hl.
  replace (o - (o + a))%nat with 0%nat by lia. cbn [skipn].
  rewrite <- firstn_skipn_comm. reflexivity.
Qed.

(* ---- the logical state ---- *)
Definition erase (a : answer) : answer :=
  {| a_fast := a_fast a; a_is_last := a_is_last a; a_force_flush := a_force_flush a; a_result := a_result a;
     a_inplace := false; a_block := a_block a; a_out := a_out a; a_lb := a_lb a; a_lbb := a_lbb a;
     a_ipos := a_ipos a; a_lfp := a_lfp a; a_lpp := a_lpp a; a_hint := a_hint a; a_no := a_no a |}.

Definition alpha (s : st) : st :=
  upd_misc (upd_out s NoNone [] 0 [] 0 (wadd64 (total_out_ s) (avail_out_ s))) (last_emitted s) (map erase (oracle s)).

Definition seal_bytes (s : st) : list N :=
  let seal := w32 (N.lor (last_bytes s) (N.shiftl 6 (last_bytes_bits s))) in
  let seal_bits := last_bytes_bits s + 6 in
  [seal mod 256] ++ (if 8 <? seal_bits then [(seal / 256) mod 256] else [])
                 ++ (if 16 <? seal_bits then [(seal / 65536) mod 256] else []).

Definition apad (a : st) : st :=
  upd_out (upd_bits a 0 0) NoNone [] 0 [] 0 (wadd64 (total_out_ a) ((last_bytes_bits a + 6 + 7) / 8)).

Lemma wadd64_0 t : wadd64 (wadd64 t 0) 0 = wadd64 t 0.
Proof. rewrite wadd64_wadd64. reflexivity. Qed.

Lemma pad_alpha s : inv s -> padcond s = true ->
  exists s', inject_byte_padding_block s = Done s' /\ inv s' /\ sstate_ s' = sstate_ s /\ oracle s' = oracle s
             /\ alpha s' = apad (alpha s) /\ pend s' = pend s ++ seal_bytes s.
Proof.
  intros Hi Cp. destruct (padcond_true s Cp) as [Hfl Hlb].
  destruct (padding_inv s Hi Hfl Hlb) as [s' [E [Hi' Hst']]].
  destruct (outcome_inv_padding s s' E) as [_ [_ [_ [Ho _]]]].
  exists s'. split; [exact E|]. split; [exact Hi'|]. split; [exact Hst'|]. split; [exact Ho|].
  clear Hi' Hst' Ho.
  destruct Hi as [Hc [Hp [Ht Hl]]].
  unfold inject_byte_padding_block in E. fold (seal_bytes s) in E.
  destruct (seal_bytes_len (last_bytes_bits s) (w32 (N.lor (last_bytes s) (N.shiftl 6 (last_bytes_bits s)))) Hl) as [Lb [Lk3 Lk1]].
  fold (seal_bytes s) in Lb.
  remember (seal_bytes s) as bs eqn:Ebs. clear Ebs.
  fs_in E.
  destruct (N.eqb_spec (avail_out_ s) 0) as [E0|E0].
  - fs_in E. unfold write_at_cursor in E. fs_in E.
    destruct (16 <? 0 + 0 + lenN bs); [discriminate|].
    injection E as E. subst s'. split.
    + unfold alpha, apad. fs. rewrite E0. rewrite !wadd64_wadd64. rewrite !N.add_0_l. reflexivity.
    + unfold pend, view. fs. rewrite E0.
      pose proof (take_skip_write (tiny s) 0 0 bs ltac:(lia)) as W.
      rewrite Lb in W. exact W.
  - destruct (Hp Hfl Hlb E0) as [off [En [Hroom H32]]].
    fs_in E. rewrite En in E. unfold write_at_cursor in E. fs_in E. rewrite En in E.
    destruct (storage_size s <? off + avail_out_ s + lenN bs); [discriminate|].
    injection E as E. subst s'. split.
    + unfold alpha, apad. fs. rewrite !wadd64_wadd64. reflexivity.
    + unfold pend, view. fs. rewrite En.
      unfold cursor_ok in Hc. rewrite En in Hc. destruct Hc as [Hc1 Hc2].
      pose proof (take_skip_write (storage s) off (avail_out_ s) bs Hc1) as W.
      rewrite Lb in W. exact W.
Qed.

(* ---- the loop on logical states ---- *)
Fixpoint afast (fuel : nat) (op : opk) (a : st) (ain : N) (out : list N)
  : outcome (bool * st * N * list N) :=
  match fuel with
  | O => OutOfFuel
  | S f =>
    if padcond a then afast f op (apad a) ain (out ++ seal_bytes a)
    else if sstate_eqb (sstate_ a) SProcessing && (negb (ain =? 0) || negb (opk_eqb op OpProcess)) then
      let limit := 2 ^ Z.to_N (lgwin a) in
      let block := N.min limit ain in
      let is_last := (ain =? block) && opk_eqb op OpFinish in
      let force_flush := (ain =? block) && opk_eqb op OpFlush in
      if force_flush && (block =? 0) then afast f op (set_sstate a SFlushRequested) ain out
      else
        match fast_answer a is_last force_flush false block with
        | Panic w => Panic w | Mismatch w => Mismatch w | OutOfFuel => OutOfFuel
        | Done (ans, a1) =>
          let a2 := upd_out a1 NoNone [] 0 [] 0 (wadd64 (total_out_ a1) (lenN (a_out ans))) in
          let a3 := upd_bits a2 (a_lb ans) (a_lbb ans) in
          let a4 := if force_flush then set_sstate a3 SFlushRequested else a3 in
          let a5 := if is_last then set_sstate a4 SFinished else a4 in
          afast f op a5 (ain - block) (out ++ a_out ans)
        end
    else Done (true, check_flush_complete a, ain, out)
  end.

Lemma afast_mono : forall f op s ain out R, afast f op s ain out = Done R ->
  forall f', (f <= f')%nat -> afast f' op s ain out = Done R.
Proof.
  induction f as [|f IH]; intros op s ain out R H f' Hle; [discriminate|].
  destruct f' as [|f']; [lia|]. assert (Hle' : (f <= f')%nat) by lia.
  cbn [afast] in *.
  destruct (padcond s); [eapply IH; eassumption|].
  destruct (sstate_eqb (sstate_ s) SProcessing && (negb (ain =? 0) || negb (opk_eqb op OpProcess))); [|exact H].
  match type of H with (if ?c then _ else _) = _ => destruct c end; [eapply IH; eassumption|].
  destruct (fast_answer _ _ _ _ _) as [[ans a1]| | |]; try discriminate. eapply IH; eassumption.
Qed.

Lemma afast_det f1 f2 op s ain out R1 R2 :
  afast f1 op s ain out = Done R1 -> afast f2 op s ain out = Done R2 -> R1 = R2.
Proof.
  intros H1 H2.
  pose proof (afast_mono _ _ _ _ _ _ H1 (Nat.max f1 f2) (Nat.le_max_l _ _)) as A.
  pose proof (afast_mono _ _ _ _ _ _ H2 (Nat.max f1 f2) (Nat.le_max_r _ _)) as B.
  rewrite A in B. inversion B. reflexivity.
Qed.

(* the recorded answer is accepted by the logical loop whenever the real one accepts it *)
Lemma fast_answer_alpha s il ff ip blk a s1 : fast_answer s il ff ip blk = Done (a, s1) ->
  exists rest, oracle s = a :: rest /\ s1 = upd_misc s (last_emitted s) rest
  /\ fast_answer (alpha s) il ff false blk = Done (erase a, alpha s1).
Proof.
  unfold fast_answer. intros H. unfold alpha at 1. fs.
  destruct (oracle s) as [|a0 rest] eqn:Eo; [discriminate|]. cbn [map].
  change (a_fast (erase a0)) with (a_fast a0). change (a_is_last (erase a0)) with (a_is_last a0).
  change (a_force_flush (erase a0)) with (a_force_flush a0). change (a_block (erase a0)) with (a_block a0).
  change (a_inplace (erase a0)) with false. change (a_result (erase a0)) with (a_result a0).
  change (a_out (erase a0)) with (a_out a0).
  destruct (negb (a_fast a0)); [discriminate|].
  destruct (negb (Bool.eqb (a_is_last a0) il)); [discriminate|].
  destruct (negb (Bool.eqb (a_force_flush a0) ff)); [discriminate|].
  destruct (negb (a_block a0 =? blk)); [discriminate|].
  destruct (negb (Bool.eqb (a_inplace a0) ip)); [discriminate|].
  destruct (negb (a_result a0)); [discriminate|].
  destruct (2 * blk + 503 <? lenN (a_out a0) + 3); [discriminate|].
  injection H as H1 H2. subst a0 s1. cbn [Bool.eqb negb]. exists rest. split; [reflexivity|]. split; [reflexivity|].
  unfold alpha. fs. reflexivity.
Qed.

Lemma pend_nil s : avail_out_ s = 0 -> pend s = [].
Proof. intros H. unfold pend. rewrite H. reflexivity. Qed.

Lemma alpha_pushk s k : k <= avail_out_ s -> alpha (pushk s k) = alpha s.
Proof.
  intros H. unfold alpha, pushk. fs. rewrite wadd64_wadd64.
  replace (k + (avail_out_ s - k)) with (avail_out_ s) by lia. reflexivity.
Qed.

Definition fin (s3 : st) (bF bL : bool) : st :=
  let s4 := if bF then set_sstate s3 SFlushRequested else s3 in
  if bL then set_sstate s4 SFinished else s4.

Lemma alpha_set_sstate s ss : alpha (set_sstate s ss) = set_sstate (alpha s) ss.
Proof. reflexivity. Qed.

Lemma alpha_fin s3 bF bL : alpha (fin s3 bF bL) = fin (alpha s3) bF bL.
Proof. destruct bF, bL; reflexivity. Qed.

Lemma alpha_inplace s1 n lb lbb : avail_out_ s1 = 0 ->
  alpha (upd_bits (upd_out s1 (next_out s1) (storage s1) (storage_size s1) (tiny s1) (avail_out_ s1)
                           (wadd64 (total_out_ s1) n)) lb lbb)
  = upd_bits (upd_out (alpha s1) NoNone [] 0 [] 0 (wadd64 (total_out_ (alpha s1)) n)) lb lbb.
Proof.
  intros H. unfold alpha. fs. rewrite H, !wadd64_wadd64, N.add_0_r, N.add_0_l. reflexivity.
Qed.

Lemma alpha_staged s1 bs ssz lb lbb : avail_out_ s1 = 0 ->
  alpha (upd_bits (upd_out s1 (NoDyn 0) bs ssz (tiny s1) (lenN bs) (total_out_ s1)) lb lbb)
  = upd_bits (upd_out (alpha s1) NoNone [] 0 [] 0 (wadd64 (total_out_ (alpha s1)) (lenN bs))) lb lbb.
Proof.
  intros H. unfold alpha. fs. rewrite H, !wadd64_wadd64, N.add_0_l. reflexivity.
Qed.

Lemma fin_facts s3 bF bL :
  avail_out_ (fin s3 bF bL) = avail_out_ s3 /\ oracle (fin s3 bF bL) = oracle s3 /\ pend (fin s3 bF bL) = pend s3
  /\ (sstate_ (fin s3 bF bL) <> sstate_ s3 -> bF = true \/ bL = true).
Proof. destruct bF, bL; repeat split; try reflexivity; intros H; auto; contradiction H; reflexivity. Qed.

Lemma inv_fin s3 bF bL : inv s3 ->
  (last_bytes_bits s3 <> 0 -> avail_out_ s3 <> 0 ->
     exists off, next_out s3 = NoDyn off /\ off + avail_out_ s3 + 3 <= storage_size s3 /\ off + avail_out_ s3 + 3 < 2 ^ 32) ->
  inv (fin s3 bF bL).
Proof.
  intros Hi H. unfold fin.
  assert (HiB : inv (if bF then set_sstate s3 SFlushRequested else s3)).
  { destruct bF; [|exact Hi]. apply inv_set_sstate; [exact Hi|]. intros _. exact H. }
  destruct bL; [|exact HiB]. apply inv_set_sstate; [exact HiB|]. intros K; discriminate K.
Qed.

Definition afterF (op : opk) (s1 : st) (x1 : io) (pre : list N) (R : bool * st * N * list N) : Prop :=
  (avail_in x1 = 0 /\ avail_out_ s1 = 0 /\ R = (true, alpha s1, 0, pre ++ produced x1)) \/
  (~ (avail_in x1 = 0 /\ avail_out_ s1 = 0) /\
   exists f1, afast f1 op (alpha s1) (avail_in x1) (pre ++ produced x1 ++ pend s1) = Done R).

Lemma fast_sim : forall fuel op s x s1 x1 pre R,
  inv s -> all_ok2 (oracle s) -> guard_inv s x ->
  fast_loop fuel op s x = Done (true, s1, x1) ->
  afterF op s1 x1 pre R ->
  exists f, afast f op (alpha s) (avail_in x) (pre ++ produced x ++ pend s) = Done R.
Proof.
  induction fuel as [|fu IH]; intros op s x s1 x1 pre R Hi Hok Hg Hrun Haft; [discriminate|].
  cbn [fast_loop] in Hrun.
  unfold inject_flush_or_push_output in Hrun. fold (padcond s) in Hrun.
  destruct (padcond s) eqn:Cpad.
  - (* padding *)
    destruct (pad_alpha s Hi Cpad) as [s' [Ep [Hi' [Hst' [Ho [Ea Epd]]]]]]. rewrite Ep in Hrun.
    assert (Hg' : guard_inv s' x) by (intros Hs; rewrite Hst' in Hs; exact (Hg Hs)).
    destruct (IH _ _ _ _ _ pre R Hi' ltac:(rewrite Ho; exact Hok) Hg' Hrun Haft) as [f0 E].
    exists (S f0). cbn [afast]. change (padcond (alpha s)) with (padcond s). rewrite Cpad.
    change (seal_bytes (alpha s)) with (seal_bytes s). rewrite <- Ea. rewrite Epd in E.
    rewrite <- !app_assoc. exact E.
  - destruct (negb (avail_out_ s =? 0) && negb (cap x =? 0)) eqn:Cpush.
    + (* push: the logical state does not move *)
      destruct (lenN (view s) <? N.min (avail_out_ s) (cap x)); [discriminate|].
      remember (N.min (avail_out_ s) (cap x)) as n eqn:En.
      assert (Hn : n <= avail_out_ s) by (subst n; apply N.le_min_l).
      change (upd_out s (no_incr (next_out s) n) (storage s) (storage_size s) (tiny s) (avail_out_ s - n)
                      (wadd64 (total_out_ s) n)) with (pushk s n) in Hrun.
      assert (Hi' : inv (pushk s n)) by (apply inv_pushk; assumption).
      assert (Hg' : guard_inv (pushk s n) (io_push x (takeN n (view s)) (wadd64 (total_out_ s) n))).
      { intros Hs. exact (Hg Hs). }
      destruct (IH _ _ _ _ _ pre R Hi' Hok Hg' Hrun Haft) as [f0 E].
      exists f0. rewrite (alpha_pushk s n Hn) in E. fs_in E.
      destruct Hi as [Hc _]. destruct (pushall_pushk s n Hc Hn) as [_ P2].
      rewrite <- app_assoc in E. rewrite P2 in E. exact E.
    + destruct ((avail_out_ s =? 0) && sstate_eqb (sstate_ s) SProcessing
                && (negb (avail_in x =? 0) || negb (opk_eqb op OpProcess))) eqn:Cenc.
      * (* a block is compressed *)
        apply andb_true_iff in Cenc. destruct Cenc as [Cenc Cgo]. apply andb_true_iff in Cenc. destruct Cenc as [Cao Cst].
        apply N.eqb_eq in Cao. pose proof Cst as Cst'. apply sstate_eqb_spec in Cst.
        pose proof (pend_nil s Cao) as Hp0.
        remember (N.min (2 ^ Z.to_N (lgwin s)) (avail_in x)) as block eqn:Eblk.
        remember ((avail_in x =? block) && opk_eqb op OpFlush) as bF eqn:EbF.
        remember ((avail_in x =? block) && opk_eqb op OpFinish) as bL eqn:EbL.
        assert (Hnext : forall sx xx, (sstate_ sx <> SProcessing -> bF = true \/ bL = true) ->
                          avail_in xx = avail_in x - block -> guard_inv sx xx).
        { intros sx xx Hs Ha Hns. rewrite Ha. destruct (Hs Hns) as [H|H]; [rewrite EbF in H|rewrite EbL in H];
            apply andb_true_iff in H; destruct H as [H _]; apply N.eqb_eq in H; lia. }
        destruct (bF && (block =? 0)) eqn:C0.
        -- (* flush with no input *)
           assert (Hi' : inv (set_sstate s SFlushRequested)).
           { apply inv_set_sstate; [exact Hi|]. intros _ _ H. contradiction. }
           assert (Hg' : guard_inv (set_sstate s SFlushRequested) x).
           { intros _. apply andb_true_iff in C0. destruct C0 as [C1 C2]. rewrite EbF in C1.
             apply andb_true_iff in C1. destruct C1 as [C1 _]. apply N.eqb_eq in C1, C2. congruence. }
           destruct (IH _ _ _ _ _ pre R Hi' Hok Hg' Hrun Haft) as [f0 E].
           exists (S f0). cbn [afast]. change (padcond (alpha s)) with (padcond s). rewrite Cpad.
           change (sstate_ (alpha s)) with (sstate_ s). change (lgwin (alpha s)) with (lgwin s).
           rewrite Cst', Cgo. cbn [andb]. rewrite <- Eblk, <- EbF, C0. rewrite <- alpha_set_sstate. exact E.
        -- destruct (fast_answer s bL bF (2 * block + 503 <=? cap x) block) as [[a s1']|w|w|] eqn:Efa; try discriminate.
           pose proof (fast_answer_np s bL bF (2 * block + 503 <=? cap x) block Hok) as FA. rewrite Efa in FA.
           destruct FA as [Hok1 [_ [[Ha Ha32] Hsz]]].
           destruct (answer_ok_parts a Ha) as [Hlbb _].
           destruct (fast_answer_alpha _ _ _ _ _ _ _ Efa) as [rest [Eo [Es1 Efa']]].
           assert (Hi1 : inv s1').
           { rewrite Es1. destruct Hi as [Hc [Hp [Ht Hl]]]. unfold inv, cursor_ok, pad_ok in *. fs. repeat split; assumption. }
           assert (Hao1 : avail_out_ s1' = 0) by (rewrite Es1; fs; exact Cao).
           assert (Hst1 : sstate_ s1' = SProcessing) by (rewrite Es1; fs; exact Cst).
           destruct (2 * block + 503 <=? cap x) eqn:Cin.
           ++ (* in place *)
              set (sA := upd_bits (upd_out s1' (next_out s1') (storage s1') (storage_size s1') (tiny s1') (avail_out_ s1')
                                   (wadd64 (total_out_ s1') (lenN (a_out a)))) (a_lb a) (a_lbb a)) in *.
              change (fast_loop fu op (fin sA bF bL) (io_push (io_consume x block) (a_out a) (wadd64 (total_out_ s1') (lenN (a_out a))))
                      = Done (true, s1, x1)) in Hrun.
              assert (HiA : inv sA).
              { destruct Hi1 as [Hc [Hp [Ht Hl]]]. unfold inv, cursor_ok, pad_ok, sA in *. fs.
                split; [exact Hc|]. split; [|split; assumption]. intros H; rewrite Hst1 in H; discriminate H. }
              assert (HaoA : avail_out_ sA = 0) by (unfold sA; fs; exact Hao1).
              assert (HstA : sstate_ sA = SProcessing) by (unfold sA; fs; exact Hst1).
              destruct (fin_facts sA bF bL) as [F1 [F2 [F3 F4]]].
              assert (Hi5 : inv (fin sA bF bL)) by (apply inv_fin; [exact HiA|]; intros _ H; contradiction).
              assert (Hok5 : all_ok2 (oracle (fin sA bF bL))) by (rewrite F2; unfold sA; fs; exact Hok1).
              assert (Hg5 : guard_inv (fin sA bF bL) (io_push (io_consume x block) (a_out a) (wadd64 (total_out_ s1') (lenN (a_out a))))).
              { apply Hnext; [|reflexivity]. intros Hs. apply F4. rewrite HstA. exact Hs. }
              destruct (IH _ _ _ _ _ pre R Hi5 Hok5 Hg5 Hrun Haft) as [f0 E].
              exists (S f0). cbn [afast]. change (padcond (alpha s)) with (padcond s). rewrite Cpad.
              change (sstate_ (alpha s)) with (sstate_ s). change (lgwin (alpha s)) with (lgwin s).
              rewrite Cst', Cgo. cbn [andb]. rewrite <- Eblk, <- EbF, <- EbL, C0. rewrite Efa'.
              rewrite F3, (pend_nil sA HaoA) in E. rewrite Hp0. fs_in E. rewrite !app_nil_r in *.
              rewrite alpha_fin in E. unfold sA in E. rewrite (alpha_inplace s1' _ _ _ Hao1) in E.
              rewrite <- app_assoc. exact E.
           ++ (* staged *)
              set (sA := upd_bits (upd_out s1' (NoDyn 0) (a_out a) (N.max (storage_size s1') (2 * block + 503)) (tiny s1')
                                   (lenN (a_out a)) (total_out_ s1')) (a_lb a) (a_lbb a)) in *.
              change (fast_loop fu op (fin sA bF bL) (io_consume x block) = Done (true, s1, x1)) in Hrun.
              assert (HiA : inv sA).
              { destruct Hi1 as [Hc [Hp [Ht Hl]]]. unfold inv, cursor_ok, pad_ok, sA in *. fs.
                split; [split; lia|]. split; [|split; assumption]. intros H; rewrite Hst1 in H; discriminate H. }
              assert (HstA : sstate_ sA = SProcessing) by (unfold sA; fs; exact Hst1).
              assert (HpdA : pend sA = a_out a) by (unfold sA, pend, view; fs; apply takeN_all).
              destruct (fin_facts sA bF bL) as [F1 [F2 [F3 F4]]].
              assert (Hi5 : inv (fin sA bF bL)).
              { apply inv_fin; [exact HiA|]. intros _ _. exists 0. unfold sA. fs. split; [reflexivity|]. split; lia. }
              assert (Hok5 : all_ok2 (oracle (fin sA bF bL))) by (rewrite F2; unfold sA; fs; exact Hok1).
              assert (Hg5 : guard_inv (fin sA bF bL) (io_consume x block)).
              { apply Hnext; [|reflexivity]. intros Hs. apply F4. rewrite HstA. exact Hs. }
              destruct (IH _ _ _ _ _ pre R Hi5 Hok5 Hg5 Hrun Haft) as [f0 E].
              exists (S f0). cbn [afast]. change (padcond (alpha s)) with (padcond s). rewrite Cpad.
              change (sstate_ (alpha s)) with (sstate_ s). change (lgwin (alpha s)) with (lgwin s).
              rewrite Cst', Cgo. cbn [andb]. rewrite <- Eblk, <- EbF, <- EbL, C0. rewrite Efa'.
              rewrite F3, HpdA in E. rewrite Hp0. fs_in E. rewrite !app_nil_r in *.
              rewrite alpha_fin in E. unfold sA in E. rewrite (alpha_staged s1' _ _ _ _ Hao1) in E.
              rewrite <- app_assoc. exact E.
      * (* the call returns *)
        inversion Hrun; subst s1 x1; clear Hrun.
        destruct Haft as [[A1 [A2 A3]]|[Hnc [f1 E]]].
        -- rewrite cfc_avail in A2. subst R.
           exists 1%nat. cbn [afast]. change (padcond (alpha s)) with (padcond s). rewrite Cpad.
           change (sstate_ (alpha s)) with (sstate_ s).
           rewrite A2 in Cenc. cbn [N.eqb andb] in Cenc. rewrite A1. rewrite A1 in Cenc. rewrite Cenc.
           rewrite (pend_nil s A2), app_nil_r.
           f_equal. f_equal. f_equal. f_equal.
           unfold check_flush_complete. change (sstate_ (alpha s)) with (sstate_ s).
           change (avail_out_ (alpha s)) with 0. rewrite A2. cbn [N.eqb]. 
           destruct (sstate_eqb (sstate_ s) SFlushRequested && true); unfold alpha; fs; rewrite ?A2; reflexivity.
        -- rewrite cfc_avail in Hnc.
           assert (Eid : check_flush_complete s = s).
           { apply cfc_id. destruct (N.eq_dec (avail_out_ s) 0) as [E0|E0]; [right|left; exact E0].
             intros Hfl. apply Hnc. split; [|exact E0]. apply Hg. rewrite Hfl. discriminate. }
           rewrite Eid in E. exists f1. exact E.
Qed.

(* ---- configuration fields, cursors ---- *)
Lemma same_cfg_fast_answer s il ff ip blk a s1 : fast_answer s il ff ip blk = Done (a, s1) -> same_cfg s s1.
Proof.
  unfold fast_answer. intros H. destruct (oracle s) as [|a0 rest]; [discriminate|].
  repeat match type of H with (if ?c then _ else _) = _ => destruct c; try discriminate end.
  inversion H; subst. unfold same_cfg. fs. repeat split; reflexivity.
Qed.

Lemma same_cfg_fast_loop : forall fuel op s x r s' x',
  fast_loop fuel op s x = Done (r, s', x') -> same_cfg s s'.
Proof.
  induction fuel as [|f IH]; intros op s x r s' x' Hrun; [discriminate|].
  cbn [fast_loop] in Hrun.
  destruct (inject_flush_or_push_output s x) as [[[s1 x1]|]| | |] eqn:Einj; try discriminate.
  - eapply same_cfg_trans; [eapply same_cfg_inject; exact Einj|eapply IH; exact Hrun].
  - match type of Hrun with (if ?c then _ else _) = _ => destruct c end.
    + match type of Hrun with (if ?c then _ else _) = _ => destruct c end.
      * eapply same_cfg_trans; [|eapply IH; exact Hrun]. unfold same_cfg. fs. repeat split; reflexivity.
      * destruct (fast_answer _ _ _ _ _) as [[a s1]| | |] eqn:Efa; try discriminate.
        eapply same_cfg_trans; [eapply same_cfg_fast_answer; exact Efa|].
        destruct (2 * N.min (2 ^ Z.to_N (lgwin s)) (avail_in x) + 503 <=? cap x);
        (eapply same_cfg_trans; [|eapply IH; exact Hrun]);
        match goal with |- context [if ?c then _ else _] => destruct c end;
        match goal with |- context [if ?c then _ else _] => destruct c end;
          unfold same_cfg; fs; repeat split; reflexivity.
    + inversion Hrun; subst. apply same_cfg_cfc.
Qed.

Lemma all_ok2_all_ok l : all_ok2 l -> all_ok l.
Proof.
  unfold all_ok2, all_ok. induction 1 as [|a l [Ha _] _ IH]; [reflexivity|].
  cbn [forallb]. rewrite Ha, IH. reflexivity.
Qed.

(* ---- one API call on the one-pass/two-pass path ---- *)
Lemma call_simF s op payload offered capn s1 x1 pre R :
  ready s -> fastcond s = true -> op <> OpMeta ->
  compress_stream s op payload offered capn = Done (true, s1, x1) ->
  (ready s1 /\ fastcond s1 = true /\ in_off x1 + avail_in x1 = offered)
  /\ (afterF op s1 x1 pre R -> exists f, afast f op (alpha s) offered (pre ++ pend s) = Done R).
Proof.
  intros [Hini [Hi Hok]] Hfc Hop Hrun. unfold compress_stream, compress_stream_from in Hrun.
  rewrite (ensure_initialized_id s Hini) in Hrun.
  set (x0 := {| avail_in := offered; in_off := 0; cap := capn; produced := []; total_arg := 0 |}) in *.
  match type of Hrun with (if ?c then _ else _) = _ => destruct c end; [discriminate|].
  assert (Eop : opk_eqb op OpMeta = false) by (destruct op; try reflexivity; contradiction Hop; reflexivity).
  rewrite Eop in Hrun.
  match type of Hrun with (if ?c then _ else _) = _ => destruct c end; [discriminate|].
  destruct (negb (sstate_eqb (sstate_ s) SProcessing) && negb (offered =? 0)) eqn:Cg; [discriminate|].
  fold (fastcond s) in Hrun. rewrite Hfc in Hrun.
  assert (Hg : guard_inv s x0).
  { intros Hs. cbn. destruct (sstate_eqb (sstate_ s) SProcessing) eqn:E.
    - apply sstate_eqb_spec in E. contradiction.
    - cbn in Cg. apply negb_false_iff in Cg. apply N.eqb_eq; exact Cg. }
  pose proof (fast_loop_np (loop_fuel offered) op s x0 Hi Hok) as Hnp. rewrite Hrun in Hnp. destruct Hnp as [Hi1 Hok1].
  pose proof (same_cfg_fast_loop _ _ _ _ _ _ _ Hrun) as Hcfg.
  assert (Hk : curs offered capn x0) by (unfold curs; cbn; split; lia).
  destruct (curs_fast_loop offered capn _ _ _ _ _ _ _ (all_ok2_all_ok _ Hok) Hk Hrun) as [K1 _].
  split.
  - split; [|split; [rewrite (same_cfg_fastcond _ _ Hcfg); exact Hfc|exact K1]].
    destruct Hcfg as [C1 _]. split; [rewrite C1; exact Hini|split; assumption].
  - intros Haft. destruct (fast_sim _ _ _ _ _ _ pre R Hi Hok Hg Hrun Haft) as [f E].
    exists f. cbn [avail_in produced x0 app] in E. exact E.
Qed.

Lemma drive_simF : forall caps s op payload chunk acc out sf,
  ready s -> fastcond s = true -> op <> OpMeta ->
  drive_q s op payload chunk caps acc = Some (out, sf) ->
  (ready sf /\ fastcond sf = true /\ avail_out_ sf = 0)
  /\ exists f, afast f op (alpha s) chunk (acc ++ pend s) = Done (true, alpha sf, 0, out).
Proof.
  induction caps as [|c rest IH]; intros s op payload chunk acc out sf Hr Hfc Hop Hd; [discriminate|].
  cbn [drive_q] in Hd.
  destruct (compress_stream s op payload chunk c) as [[[[|] s'] x]| | |] eqn:Ecall; try discriminate.
  destruct (call_simF s op payload chunk c s' x acc (true, alpha sf, 0, out) Hr Hfc Hop Ecall) as [[Hr' [Hfc' Hcur]] Hsim].
  assert (Hleft : chunk - in_off x = avail_in x) by lia.
  rewrite Hleft in Hd.
  destruct ((avail_in x =? 0) && (avail_out_ s' =? 0)) eqn:Cdone.
  - inversion Hd; subst out sf; clear Hd.
    apply andb_true_iff in Cdone. destruct Cdone as [D1 D2]. apply N.eqb_eq in D1, D2.
    split; [split; [exact Hr'|split; assumption]|].
    apply Hsim. left. repeat split; assumption.
  - destruct (IH _ _ _ _ _ _ _ Hr' Hfc' Hop Hd) as [Hfin [f1 E]].
    split; [exact Hfin|]. apply Hsim. right. split.
    + intros [D1 D2]. rewrite D1, D2 in Cdone. discriminate.
    + exists f1. rewrite <- app_assoc in E. exact E.
Qed.

(* logical equivalence of two encoder states: same logical state, same pending bytes *)
Definition leq (s t : st) : Prop := alpha s = alpha t /\ pend s = pend t.

Theorem out_slicing_call_fast s t op payload chunk caps caps' acc out out' s1 t1 :
  initialized s = true -> inv s -> all_ok2 (oracle s) -> fastcond s = true ->
  initialized t = true -> inv t -> all_ok2 (oracle t) ->
  leq s t -> op <> OpMeta ->
  drive_q s op payload chunk caps acc = Some (out, s1) ->
  drive_q t op payload chunk caps' acc = Some (out', t1) ->
  out = out' /\ leq s1 t1 /\ avail_out_ s1 = 0 /\ avail_out_ t1 = 0.
Proof.
  intros Hini Hi Hok Hfc Hini' Hi' Hok' [Ea Ep] Hop D1 D2.
  assert (Hr : ready s) by (split; [|split]; assumption).
  assert (Hr' : ready t) by (split; [|split]; assumption).
  assert (Hfc' : fastcond t = true).
  { unfold fastcond in *. change (quality t) with (quality (alpha t)). change (catable t) with (catable (alpha t)).
    change (magic t) with (magic (alpha t)). rewrite <- Ea. exact Hfc. }
  destruct (drive_simF _ _ _ _ _ _ _ _ Hr Hfc Hop D1) as [[_ [_ A1]] [f1 E1]].
  destruct (drive_simF _ _ _ _ _ _ _ _ Hr' Hfc' Hop D2) as [[_ [_ A2]] [f2 E2]].
  rewrite Ea, Ep in E1.
  pose proof (afast_det _ _ _ _ _ _ _ _ E1 E2) as E.
  assert (E3 : alpha s1 = alpha t1) by congruence.
  assert (E4 : out = out') by congruence.
  split; [exact E4|]. split; [|split; assumption].
  split; [exact E3|]. rewrite (pend_nil _ A1), (pend_nil _ A2). reflexivity.
Qed.

Theorem out_slicing_seq_fast : forall calls s t capss capss' acc out out' s1 t1,
  initialized s = true -> inv s -> all_ok2 (oracle s) -> fastcond s = true ->
  initialized t = true -> inv t -> all_ok2 (oracle t) ->
  leq s t ->
  Forall (fun c => fst (fst c) <> OpMeta) calls ->
  drive_seq s calls capss acc = Some (out, s1) ->
  drive_seq t calls capss' acc = Some (out', t1) ->
  out = out' /\ leq s1 t1 /\ fastcond s1 = true.
Proof.
  induction calls as [|[[op chunk] payload] more IH]; intros s t capss capss' acc out out' s1 t1
    Hini Hi Hok Hfc Hini' Hi' Hok' Hleq Hops D1 D2.
  - cbn [drive_seq] in D1, D2. inversion D1; inversion D2; subst. split; [reflexivity|split; [exact Hleq|exact Hfc]].
  - cbn [drive_seq] in D1, D2.
    destruct capss as [|caps capss]; [discriminate|]. destruct capss' as [|caps' capss']; [discriminate|].
    destruct (drive_q s op payload chunk caps acc) as [[a1 u1]|] eqn:E1; [|discriminate].
    destruct (drive_q t op payload chunk caps' acc) as [[a2 u2]|] eqn:E2; [|discriminate].
    inversion Hops as [|? ? Hop Hrest]; subst. cbn [fst] in Hop.
    destruct (out_slicing_call_fast _ _ _ _ _ _ _ _ _ _ _ _ Hini Hi Hok Hfc Hini' Hi' Hok' Hleq Hop E1 E2)
      as [Ea [Hleq1 _]]. subst a2.
    assert (Hr : ready s) by (split; [|split]; assumption).
    assert (Hr' : ready t) by (split; [|split]; assumption).
    assert (Hfc' : fastcond t = true).
    { destruct Hleq as [Eal _]. unfold fastcond in *. change (quality t) with (quality (alpha t)).
      change (catable t) with (catable (alpha t)). change (magic t) with (magic (alpha t)). rewrite <- Eal. exact Hfc. }
    destruct (drive_simF _ _ _ _ _ _ _ _ Hr Hfc Hop E1) as [[[R1 [R2 R3]] [R4 _]] _].
    destruct (drive_simF _ _ _ _ _ _ _ _ Hr' Hfc' Hop E2) as [[[Q1 [Q2 Q3]] [Q4 _]] _].
    exact (IH _ _ _ _ _ _ _ _ _ R1 R2 R3 R4 Q1 Q2 Q3 Hleq1 Hrest D1 D2).
Qed.

(* what logical equivalence means field by field *)
Lemma leq_fields s t : leq s t ->
  quality s = quality t /\ lgwin s = lgwin t /\ lgblock s = lgblock t /\ size_hint s = size_hint t
  /\ sstate_ s = sstate_ t /\ rem_meta s = rem_meta t
  /\ input_pos s = input_pos t /\ last_flush_pos s = last_flush_pos t /\ last_processed_pos s = last_processed_pos t
  /\ last_bytes s = last_bytes t /\ last_bytes_bits s = last_bytes_bits t
  /\ last_emitted s = last_emitted t /\ first_pending s = first_pending t
  /\ wadd64 (total_out_ s) (avail_out_ s) = wadd64 (total_out_ t) (avail_out_ t)
  /\ map erase (oracle s) = map erase (oracle t)
  /\ pend s = pend t.
Proof.
  intros [E P].
  repeat match goal with |- _ /\ _ => split end; try exact P;
    match goal with |- ?f s = ?f t => change (f (alpha s) = f (alpha t)); rewrite E; reflexivity | _ => idtac end.
  - change (total_out_ (alpha s) = total_out_ (alpha t)). rewrite E. reflexivity.
  - change (oracle (alpha s) = oracle (alpha t)). rewrite E. reflexivity.
Qed.
