(* C05: output-slicing independence, metadata calls on the one-pass/two-pass path (quality 0/1).
   Same method as proofs/Slicing_meta.v over the abstraction [alpha] of proofs/Slicing_fast.v.
   On this path meta_loop never calls encode_data: the fast loop never moves input_pos or
   last_flush_pos and there is no magic header ([menc s = false], an invariant of all loops). *)
From Coq Require Import NArith ZArith List Bool Lia.
From V Require Import lib.Words model.Stream proofs.Stream_proofs proofs.Dist_proofs proofs.NoPanic_proofs
                      proofs.Slicing_proofs proofs.Slicing_fast proofs.Slicing_meta.
Import ListNotations.
Open Scope N_scope.

Lemma alpha_hint s a : alpha (update_size_hint s a) = update_size_hint (alpha s) a.
Proof.
  unfold update_size_hint. change (size_hint (alpha s)) with (size_hint s).
  change (unprocessed (alpha s)) with (unprocessed s).
  destruct (size_hint s =? 0); reflexivity.
Qed.

Lemma header_alpha s : avail_out_ s = 0 ->
  alpha (set_sstate (write_metadata_header s) SMetaBody) = norm (set_sstate (write_metadata_header (alpha s)) SMetaBody)
  /\ pend (set_sstate (write_metadata_header s) SMetaBody) = pend (set_sstate (write_metadata_header (alpha s)) SMetaBody).
Proof.
  intros H. unfold write_metadata_header.
  change (last_bytes (alpha s)) with (last_bytes s). change (last_bytes_bits (alpha s)) with (last_bytes_bits s).
  change (rem_meta (alpha s)) with (rem_meta s).
  destruct (metadata_header_bits (last_bytes s) (last_bytes_bits s) (rem_meta s)) as [v nb].
  split; [|reflexivity].
  unfold alpha, norm. fs. rewrite H, !wadd64_wadd64, !N.add_0_l. reflexivity.
Qed.

Lemma pay_direct_alpha s c : avail_out_ s = 0 ->
  let s1 := upd_out s (next_out s) (storage s) (storage_size s) (tiny s) (avail_out_ s) (wadd64 (total_out_ s) c) in
  let s' := upd_core s1 (initialized s1) (sstate_ s1) (wsub32 (rem_meta s1) c) in
  alpha s' = apay (alpha s) c /\ pend s' = [].
Proof.
  intros H s1 s'. split.
  - unfold s', s1, alpha, norm, apay. fs. rewrite H, !wadd64_wadd64, N.add_0_r, N.add_0_l. reflexivity.
  - apply pend_nil. exact H.
Qed.

Lemma pay_tiny_alpha s c bs : avail_out_ s = 0 -> lenN bs = c ->
  let s1 := upd_out s (NoTiny 0) (storage s) (storage_size s) (write_list (tiny s) 0 bs) c (total_out_ s) in
  let s' := upd_core s1 (initialized s1) (sstate_ s1) (wsub32 (rem_meta s1) c) in
  alpha s' = apay (alpha s) c /\ pend s' = bs.
Proof.
  intros H Hl s1 s'. split.
  - unfold s', s1, alpha, norm, apay. fs. rewrite H, !wadd64_wadd64, N.add_0_l. reflexivity.
  - unfold s', s1, pend, view. fs.
    pose proof (take_skip_write (tiny s) 0 0 bs ltac:(lia)) as W. rewrite Hl in W. exact W.
Qed.

Definition afterMF (payload : list N) (s1 : st) (x1 : io) (pre : list N) (R : bool * st * N * list N) : Prop :=
  (avail_in x1 = 0 /\ avail_out_ s1 = 0 /\ R = (true, alpha s1, 0, pre ++ produced x1)) \/
  (~ (avail_in x1 = 0 /\ avail_out_ s1 = 0) /\
   exists f1, ameta f1 (skipN (in_off x1) payload) (alpha s1) (avail_in x1) (pre ++ produced x1 ++ pend s1) = Done R).

Lemma meta_simLF payload : forall fuel s x s1 x1 pre R,
  inv s -> all_ok2 (oracle s) -> meta_rel payload s x -> avail_in x = rem_meta s -> menc s = false ->
  meta_loop fuel payload s x = Done (true, s1, x1) ->
  afterMF payload s1 x1 pre R ->
  exists f, ameta f (skipN (in_off x) payload) (alpha s) (avail_in x) (pre ++ produced x ++ pend s) = Done R.
Proof.
  induction fuel as [|fu IH]; intros s x s1 x1 pre R Hi Hok [Hm1 [Hm2 Hm3]] Hav Hme Hrun Haft; [discriminate|].
  cbn [meta_loop] in Hrun.
  unfold inject_flush_or_push_output in Hrun. fold (padcond s) in Hrun.
  rewrite (meta_state_nopad s Hm3) in Hrun.
  destruct (negb (avail_out_ s =? 0) && negb (cap x =? 0)) eqn:Cpush.
  - (* push *)
    destruct (lenN (view s) <? N.min (avail_out_ s) (cap x)); [discriminate|].
    remember (N.min (avail_out_ s) (cap x)) as n eqn:En.
    assert (Hn : n <= avail_out_ s) by (subst n; apply N.le_min_l).
    change (upd_out s (no_incr (next_out s) n) (storage s) (storage_size s) (tiny s) (avail_out_ s - n)
                    (wadd64 (total_out_ s) n)) with (pushk s n) in Hrun.
    assert (Hi' : inv (pushk s n)) by (apply inv_pushk; assumption).
    assert (Hm' : meta_rel payload (pushk s n) (io_push x (takeN n (view s)) (wadd64 (total_out_ s) n))).
    { unfold meta_rel. fs. repeat split; assumption. }
    destruct (IH _ _ _ _ pre R Hi' Hok Hm' Hav Hme Hrun Haft) as [f0 E].
    exists f0. rewrite (alpha_pushk s n Hn) in E. fs_in E.
    destruct Hi as [Hc _]. destruct (pushall_pushk s n Hc Hn) as [_ P2].
    rewrite <- app_assoc in E. rewrite P2 in E. exact E.
  - destruct (negb (avail_out_ s =? 0)) eqn:Cao.
    + (* no room and bytes pending: the call returns, nothing logical happened *)
      inversion Hrun; subst s1 x1; clear Hrun.
      apply negb_true_iff in Cao. apply N.eqb_neq in Cao.
      destruct Haft as [[_ [A2 _]]|[_ [f1 E]]]; [contradiction|]. exists f1. exact E.
    + apply negb_false_iff in Cao. apply N.eqb_eq in Cao.
      pose proof (pend_nil s Cao) as Hp0.
      fold (menc s) in Hrun.
      rewrite Hme in Hrun. pose proof Hme as Cm.
      * destruct (sstate_eqb (sstate_ s) SMetaHead) eqn:Ch.
        -- (* header *)
           pose proof (header_len_le (last_bytes s) (last_bytes_bits s) (rem_meta s)
                         ltac:(destruct Hi as [_ [_ [_ Hl]]]; exact Hl) Hm2) as Hlen.
           set (sh := set_sstate (write_metadata_header s) SMetaBody) in *.
           assert (Hh : inv sh /\ oracle sh = oracle s /\ rem_meta sh = rem_meta s /\ sstate_ sh = SMetaBody /\ menc sh = menc s).
           { destruct Hi as [Hc [Hp [Ht Hl]]]. unfold sh, write_metadata_header.
             destruct (metadata_header_bits (last_bytes s) (last_bytes_bits s) (rem_meta s)) as [v nb]. cbn [snd] in Hlen.
             split; [|repeat split; reflexivity].
             unfold inv, cursor_ok, pad_ok. fs. rewrite lenN_le_bytes.
             split; [lia|]. split; [intros H; discriminate H|]. split; lia. }
           destruct Hh as [Hih [Hoh [Hrh [Hsh Hmh]]]].
           assert (Hm' : meta_rel payload sh x).
           { unfold meta_rel. rewrite Hrh, Hsh. repeat split; try assumption. right; reflexivity. }
           destruct (IH _ _ _ _ pre R Hih ltac:(rewrite Hoh; exact Hok) Hm' ltac:(rewrite Hrh; exact Hav) ltac:(rewrite Hmh; exact Hme) Hrun Haft) as [f0 E].
           destruct (header_alpha s Cao) as [B1 B2]. fold sh in B1, B2.
           exists (S f0). cbn [ameta]. change (menc (alpha s)) with (menc s). rewrite Cm.
           change (sstate_ (alpha s)) with (sstate_ s). rewrite Ch.
           rewrite B1, B2 in E. rewrite Hp0, app_nil_r, <- app_assoc. exact E.
        -- destruct (rem_meta s =? 0) eqn:Cr.
           ++ (* the block is complete *)
              inversion Hrun; subst s1 x1; clear Hrun. apply N.eqb_eq in Cr.
              destruct Haft as [[A1 [A2 A3]]|[Hnc _]].
              ** subst R. exists 1%nat. cbn [ameta]. change (menc (alpha s)) with (menc s). rewrite Cm.
                 change (sstate_ (alpha s)) with (sstate_ s). rewrite Ch.
                 change (rem_meta (alpha s)) with (rem_meta s). rewrite Cr. cbn [N.eqb].
                 rewrite Hp0, app_nil_r, A1. reflexivity.
              ** exfalso. apply Hnc. split; [congruence|exact Cao].
           ++ apply N.eqb_neq in Cr.
              assert (Hnf : sstate_ s <> SFlushRequested) by (destruct Hm3 as [H|H]; rewrite H; discriminate).
              assert (H24 : rem_meta s < 2 ^ 32).
              { change (2 ^ 32) with 4294967296. change (2 ^ 24) with 16777216 in Hm2. lia. }
              assert (Hpl : rem_meta s <= lenN (skipN (in_off x) payload)) by (rewrite lenN_skipN; lia).
              destruct (negb (cap x =? 0)) eqn:Ccap.
              ** (* payload straight into the caller's buffer *)
                 apply negb_true_iff in Ccap. apply N.eqb_neq in Ccap.
                 remember (N.min (rem_meta s) (cap x)) as c eqn:Ec.
                 assert (Hcle : c <= rem_meta s) by (subst c; apply N.le_min_l).
                 assert (Hc0 : 0 < c) by (subst c; lia).
                 destruct (N.ltb_spec (lenN (skipN (in_off x) payload)) c) as [Hbad|_]; [lia|].
                 pose proof (pay_direct_alpha s c Cao) as PB. cbv zeta in PB. destruct PB as [B1 B2].
                 match type of Hrun with meta_loop fu payload ?s' ?x' = _ =>
                   assert (Hi' : inv s'); [|assert (Hm' : meta_rel payload s' x' /\ avail_in x' = rem_meta s')] end.
                 { destruct Hi as [Hc [Hp [Ht Hl]]]. unfold inv, cursor_ok, pad_ok in *. fs.
                   split; [exact Hc|]. split; [exact Hp|split; assumption]. }
                 { unfold meta_rel. fs. rewrite (wsub32_small (rem_meta s) c) by lia.
                   split; [repeat split; try lia; exact Hm3|lia]. }
                 destruct Hm' as [Hm' Hav'].
                 destruct (IH _ _ _ _ pre R Hi' Hok Hm' Hav' Hme Hrun Haft) as [f0 E].
                 rewrite B1, B2 in E. fs_in E. rewrite app_nil_r in E. rewrite <- skipN_skipN in E.
                 rewrite Hp0, app_nil_r. rewrite app_assoc in E.
                 apply (ameta_pay f0 (skipN (in_off x) payload) (alpha s) (avail_in x) (pre ++ produced x) c R); try assumption.
              ** (* payload through the tiny buffer *)
                 remember (N.min (rem_meta s) 16) as c eqn:Ec.
                 assert (Hcle : c <= rem_meta s) by (subst c; apply N.le_min_l).
                 assert (Hc16 : c <= 16) by (subst c; apply N.le_min_r).
                 assert (Hc0 : 0 < c) by (subst c; lia).
                 destruct (N.ltb_spec (lenN (skipN (in_off x) payload)) c) as [Hbad|Hgood]; [lia|].
                 pose proof (pay_tiny_alpha s c (takeN c (skipN (in_off x) payload)) Cao (lenN_takeN _ _ Hgood)) as PB.
                 cbv zeta in PB. destruct PB as [B1 B2].
                 match type of Hrun with meta_loop fu payload ?s' ?x' = _ =>
                   assert (Hi' : inv s'); [|assert (Hm' : meta_rel payload s' x' /\ avail_in x' = rem_meta s')] end.
                 { destruct Hi as [Hc [Hp [Ht Hl]]]. unfold inv, cursor_ok, pad_ok in *. fs.
                   destruct (lenN_write_list (takeN c (skipN (in_off x) payload)) (tiny s) 0) as [W1 _].
                   split; [lia|]. split; [|split; [lia|assumption]].
                   intros H1. contradiction. }
                 { unfold meta_rel. fs. rewrite (wsub32_small (rem_meta s) c) by lia.
                   split; [repeat split; try lia; exact Hm3|lia]. }
                 destruct Hm' as [Hm' Hav'].
                 destruct (IH _ _ _ _ pre R Hi' Hok Hm' Hav' Hme Hrun Haft) as [f0 E].
                 rewrite B1, B2 in E. fs_in E. rewrite <- skipN_skipN in E.
                 rewrite Hp0, app_nil_r. rewrite app_assoc in E.
                 apply (ameta_pay f0 (skipN (in_off x) payload) (alpha s) (avail_in x) (pre ++ produced x) c R); try assumption.
Qed.

(* ---- what the loops keep ---- *)
Lemma menc_padding s s' : inject_byte_padding_block s = Done s' -> menc s' = menc s /\ rem_meta s' = rem_meta s.
Proof.
  unfold inject_byte_padding_block, write_at_cursor. intros H.
  cbn [avail_out_ upd_bits] in H.
  destruct (avail_out_ s =? 0); cbn [next_out upd_bits upd_out] in H.
  - match type of H with context [if ?c then _ else _] => destruct c end; try discriminate.
    inversion H; subst s'; clear H. split; reflexivity.
  - destruct (next_out s) eqn:En; cbn [next_out upd_bits upd_out] in H; try rewrite En in H;
      match type of H with context [if ?c then _ else _] => destruct c end; try discriminate;
      inversion H; subst s'; clear H; split; reflexivity.
Qed.

Lemma menc_inject s x s' x' : inject_flush_or_push_output s x = Done (Some (s', x')) ->
  menc s' = menc s /\ rem_meta s' = rem_meta s.
Proof.
  unfold inject_flush_or_push_output. intros H.
  destruct (sstate_eqb (sstate_ s) SFlushRequested && negb (last_bytes_bits s =? 0)).
  - destruct (inject_byte_padding_block s) as [s1| | |] eqn:E; try discriminate.
    inversion H; subst s1 x'. eapply menc_padding; exact E.
  - destruct (negb (avail_out_ s =? 0) && negb (cap x =? 0)); try discriminate.
    destruct (lenN (view s) <? N.min (avail_out_ s) (cap x)); try discriminate.
    inversion H; subst s' x'. split; reflexivity.
Qed.

Lemma fast_answer_keep s il ff ip blk a s1 : fast_answer s il ff ip blk = Done (a, s1) ->
  s1 = upd_misc s (last_emitted s) (oracle s1).
Proof.
  unfold fast_answer. intros H. destruct (oracle s) as [|a0 rest]; [discriminate|].
  repeat match type of H with (if ?c then _ else _) = _ => destruct c; try discriminate end.
  inversion H; subst. reflexivity.
Qed.

Lemma fast_loop_keep : forall fuel op s x r s1 x1,
  nometa s -> fast_loop fuel op s x = Done (r, s1, x1) ->
  nometa s1 /\ menc s1 = menc s /\ rem_meta s1 = rem_meta s.
Proof.
  induction fuel as [|f IH]; intros op s x r s1 x1 Hn Hrun; [discriminate|].
  cbn [fast_loop] in Hrun.
  destruct (inject_flush_or_push_output s x) as [[[s' x']|]| | |] eqn:Einj; try discriminate.
  - destruct (inject_some s x s' x' Einj) as [A _]. destruct (menc_inject _ _ _ _ Einj) as [M1 M2].
    destruct (IH _ _ _ _ _ _ ltac:(unfold nometa; rewrite A; exact Hn) Hrun) as [K1 [K2 K3]].
    split; [exact K1|split; congruence].
  - match type of Hrun with (if ?c then _ else _) = _ => destruct c end.
    + match type of Hrun with (if ?c then _ else _) = _ => destruct c end.
      * refine (IH _ _ _ _ _ _ _ Hrun). split; discriminate.
      * destruct (fast_answer _ _ _ _ _) as [[a s2]| | |] eqn:Efa; try discriminate.
        pose proof (fast_answer_keep _ _ _ _ _ _ _ Efa) as Es2.
        destruct (fast_answer_ok _ _ _ _ _ _ _ Efa) as [rest [_ [_ [O3 _]]]].
        destruct (2 * N.min (2 ^ Z.to_N (lgwin s)) (avail_in x) + 503 <=? cap x);
        match type of Hrun with fast_loop f op ?s5 _ = _ =>
          assert (H5 : nometa s5 /\ menc s5 = menc s /\ rem_meta s5 = rem_meta s) end;
        try (rewrite Es2;
             destruct ((avail_in x =? N.min (2 ^ Z.to_N (lgwin s)) (avail_in x)) && opk_eqb op OpFlush),
                      ((avail_in x =? N.min (2 ^ Z.to_N (lgwin s)) (avail_in x)) && opk_eqb op OpFinish);
             unfold nometa; fs; (split; [first [split; discriminate|exact Hn]|split; reflexivity]));
        destruct H5 as [N5 [M5 R5]]; destruct (IH _ _ _ _ _ _ N5 Hrun) as [K1 [K2 K3]];
        (split; [exact K1|split; congruence]).
    + inversion Hrun; subst. unfold check_flush_complete.
      destruct (sstate_eqb (sstate_ s) SFlushRequested && (avail_out_ s =? 0)); [|split; [exact Hn|split; reflexivity]].
      split; [split; discriminate|split; reflexivity].
Qed.

Lemma meta_loop_menc payload : forall fuel s x r s1 x1,
  menc s = false -> meta_loop fuel payload s x = Done (r, s1, x1) -> menc s1 = false.
Proof.
  induction fuel as [|f IH]; intros s x r s1 x1 Hme Hrun; [discriminate|].
  cbn [meta_loop] in Hrun.
  destruct (inject_flush_or_push_output s x) as [[[s' x']|]| | |] eqn:Einj; try discriminate.
  - destruct (menc_inject _ _ _ _ Einj) as [M1 _]. refine (IH _ _ _ _ _ _ Hrun). congruence.
  - destruct (negb (avail_out_ s =? 0)); [inversion Hrun; subst; exact Hme|].
    fold (menc s) in Hrun. rewrite Hme in Hrun.
    destruct (sstate_eqb (sstate_ s) SMetaHead).
    + refine (IH _ _ _ _ _ _ Hrun). unfold write_metadata_header.
      destruct (metadata_header_bits (last_bytes s) (last_bytes_bits s) (rem_meta s)). exact Hme.
    + destruct (rem_meta s =? 0); [inversion Hrun; subst; exact Hme|].
      destruct (negb (cap x =? 0)).
      * destruct (lenN (skipN (in_off x) payload) <? N.min (rem_meta s) (cap x)); [discriminate|].
        refine (IH _ _ _ _ _ _ Hrun). exact Hme.
      * destruct (lenN (skipN (in_off x) payload) <? N.min (rem_meta s) 16); [discriminate|].
        refine (IH _ _ _ _ _ _ Hrun). exact Hme.
Qed.

(* ---- one API call, any operation, on logical states of the one-pass/two-pass path ---- *)
Definition acallF (f : nat) (op : opk) (a : st) (pl : list N) (ain : N) (out : list N) :=
  if opk_eqb op OpMeta then acallM f a pl ain out else afast f op a ain out.

Lemma acallF_det f1 f2 op a pl ain out R1 R2 :
  acallF f1 op a pl ain out = Done R1 -> acallF f2 op a pl ain out = Done R2 -> R1 = R2.
Proof.
  unfold acallF. destruct (opk_eqb op OpMeta) eqn:Eop.
  - intros H1 H2. apply (acall_det f1 f2 OpMeta a pl ain out); unfold acall; cbn [opk_eqb]; assumption.
  - apply afast_det.
Qed.

Lemma acallM_midF f s pl ain out :
  (sstate_ s = SMetaHead \/ sstate_ s = SMetaBody) -> rem_meta s = ain -> ain <= 2 ^ 24 -> hint_stable s ->
  acallM f (alpha s) pl ain out = ameta f pl (alpha s) ain out.
Proof.
  intros Hst Hr H24 HQ. unfold acallM. change (rem_meta (alpha s)) with (rem_meta s).
  rewrite Hr, N.eqb_refl. cbn [negb]. rewrite andb_false_r.
  rewrite <- alpha_hint, (ush_id s HQ).
  destruct (N.ltb_spec (2 ^ 24) ain) as [K|_]; [lia|].
  change (sstate_ (alpha s)) with (sstate_ s).
  destruct Hst as [K|K]; rewrite K; cbn [sstate_eqb]; cbv iota; change (sstate_ (alpha s)) with (sstate_ s); rewrite K; reflexivity.
Qed.

Definition afterGF (op : opk) (payload : list N) (s1 : st) (x1 : io) (pre : list N) (R : bool * st * N * list N) : Prop :=
  (avail_in x1 = 0 /\ avail_out_ s1 = 0 /\ R = (true, alpha s1, 0, pre ++ produced x1)) \/
  (~ (avail_in x1 = 0 /\ avail_out_ s1 = 0) /\
   exists f1, acallF f1 op (alpha s1) (skipN (in_off x1) payload) (avail_in x1) (pre ++ produced x1 ++ pend s1) = Done R).

Definition readyF (s : st) : Prop :=
  initialized s = true /\ inv s /\ all_ok2 (oracle s) /\ fastcond s = true /\ meta_ok s /\ menc s = false.

Lemma menc_hint s a : menc (update_size_hint s a) = menc s.
Proof. unfold update_size_hint. destruct (size_hint s =? 0); reflexivity. Qed.

Lemma call_simGF s op payload offered capn s1 x1 pre R :
  readyF s -> (op = OpMeta -> offered <= lenN payload) ->
  compress_stream s op payload offered capn = Done (true, s1, x1) ->
  (readyF s1 /\ in_off x1 + avail_in x1 = offered
   /\ (op = OpMeta -> in_off x1 + avail_in x1 <= lenN payload))
  /\ (afterGF op payload s1 x1 pre R -> exists f, acallF f op (alpha s) payload offered (pre ++ pend s) = Done R).
Proof.
  intros [Hini [Hi [Hok [Hfc [Hmo Hme]]]]] Hpay Hrun.
  destruct (opk_eqb op OpMeta) eqn:Eop.
  - (* metadata *)
    unfold compress_stream, compress_stream_from in Hrun.
    rewrite (ensure_initialized_id s Hini) in Hrun.
    set (x0 := {| avail_in := offered; in_off := 0; cap := capn; produced := []; total_arg := 0 |}) in *.
    destruct (negb (rem_meta s =? U32MAX) && (negb (offered =? rem_meta s) || negb (opk_eqb op OpMeta))) eqn:Cg; [discriminate|].
    rewrite Eop in Hrun, Cg.
    assert (Hop : op = OpMeta) by (destruct op; try discriminate; reflexivity). subst op.
    specialize (Hpay eq_refl).
    unfold process_metadata in Hrun. cbn [avail_in x0] in Hrun.
    destruct (N.ltb_spec (2 ^ 24) offered) as [Hbig|Hsmall]; [discriminate|].
    assert (H32 : offered < 2 ^ 32).
    { change (2 ^ 32) with 4294967296. change (2 ^ 24) with 16777216 in Hsmall. lia. }
    set (sh := update_size_hint s 0) in *.
    assert (Hih : inv sh) by (apply inv_size_hint; exact Hi).
    destruct (update_size_hint_fields s 0) as [U1 [U2 [U3 [U4 [U5 U6]]]]]. fold sh in U1, U2, U3, U4, U5, U6.
    assert (Ur : rem_meta sh = rem_meta s) by (unfold sh, update_size_hint; destruct (size_hint s =? 0); reflexivity).
    assert (HQh : hint_stable sh) by apply hint_stable_ush.
    assert (Hcfh : same_cfg s sh) by apply same_cfg_hint.
    assert (Hmeh : menc sh = false) by (unfold sh; rewrite menc_hint; exact Hme).
    set (sm := if sstate_eqb (sstate_ sh) SProcessing then upd_core sh (initialized sh) SMetaHead (w32 offered) else sh) in *.
    destruct (negb (sstate_eqb (sstate_ sm) SMetaHead) && negb (sstate_eqb (sstate_ sm) SMetaBody)) eqn:Cm; [discriminate|].
    assert (Hsm : inv sm /\ all_ok2 (oracle sm) /\ meta_rel payload sm x0 /\ avail_in x0 = rem_meta sm
                  /\ hint_stable sm /\ same_cfg s sm /\ pend sm = pend s /\ menc sm = false).
    { unfold sm in *. destruct (sstate_eqb (sstate_ sh) SProcessing) eqn:Ep.
      - split.
        { destruct Hih as [Hc [Hpd [Ht Hl]]]. unfold inv, cursor_ok, pad_ok in *. fs.
          split; [exact Hc|]. split; [intros H; discriminate H|split; assumption]. }
        split; [fs; rewrite U4; exact Hok|].
        split; [unfold meta_rel; fs; unfold x0; fs; rewrite (w32_small offered H32); repeat split; try lia; left; reflexivity|].
        split; [fs; unfold x0; fs; rewrite (w32_small offered H32); reflexivity|].
        split; [exact HQh|]. split; [|split; [unfold sh; apply (pend_hint s 0)|exact Hmeh]].
        eapply same_cfg_trans; [exact Hcfh|]. unfold same_cfg. fs. repeat split; reflexivity.
      - assert (Hst : sstate_ s = SMetaHead \/ sstate_ s = SMetaBody).
        { rewrite U1 in Cm. apply andb_false_iff in Cm.
          destruct Cm as [Cm|Cm]; apply negb_false_iff in Cm; apply sstate_eqb_spec in Cm; auto. }
        pose proof (Hmo Hst) as Hrem.
        assert (Hne : rem_meta s <> U32MAX) by (intros E; rewrite E in Hrem; vm_compute in Hrem; apply Hrem; reflexivity).
        destruct (N.eqb_spec (rem_meta s) U32MAX) as [E|_]; [contradiction|]. cbn [negb andb] in Cg.
        rewrite orb_false_r in Cg. apply negb_false_iff in Cg. apply N.eqb_eq in Cg.
        split; [exact Hih|]. split; [rewrite U4; exact Hok|].
        split; [unfold meta_rel; rewrite Ur, U1; unfold x0; fs; repeat split; try lia; exact Hst|].
        split; [rewrite Ur; exact Cg|]. split; [exact HQh|]. split; [exact Hcfh|].
        split; [unfold sh; apply (pend_hint s 0)|exact Hmeh]. }
    destruct Hsm as [Him [Hokm [Hrelm [Havm [HQm [Hcfm [Hpm Hmem]]]]]]].
    pose proof (meta_loop_np payload 64 sm x0 Him Hokm Hrelm) as Hnp. rewrite Hrun in Hnp. destruct Hnp as [Hi1 Hok1].
    destruct (meta_facts payload 64 sm x0 s1 x1 Him Hokm Hrelm Havm HQm Hrun) as [Hcf1 [HQ1 [Hcur Hkind]]].
    pose proof (meta_loop_menc payload 64 sm x0 _ _ _ Hmem Hrun) as Hme1.
    pose proof (same_cfg_trans _ _ _ Hcfm Hcf1) as Hcfg.
    assert (Hcur' : in_off x1 + avail_in x1 = offered) by (rewrite Hcur; unfold x0; fs; lia).
    split.
    + split; [|split; [exact Hcur'|intros _; lia]].
      destruct Hcfg as [C1 _]. split; [rewrite C1; exact Hini|]. split; [exact Hi1|]. split; [exact Hok1|].
      split; [rewrite (same_cfg_fastcond _ _ (same_cfg_trans _ _ _ Hcfm Hcf1)); exact Hfc|]. split; [|exact Hme1].
      unfold meta_ok. destruct Hkind as [[_ [_ [K _]]]|[_ [[_ [K _]] _]]].
      * intros [H|H]; rewrite K in H; discriminate.
      * intros _. exact K.
    + intros Haft.
      assert (HaftM : afterMF payload s1 x1 pre R).
      { destruct Haft as [A|[Hnc [f1 E]]]; [left; exact A|right]. split; [exact Hnc|].
        destruct Hkind as [[K1 [K2 _]]|[K1 [[K2 [K3 K4]] K5]]]; [exfalso; apply Hnc; split; assumption|].
        exists f1. unfold acallF in E. cbn [opk_eqb] in E.
        rewrite (acallM_midF f1 s1 _ _ _ K4 (eq_sym K5)) in E; [exact E| |exact HQ1]. rewrite K5. exact K3. }
      destruct (meta_simLF payload 64 sm x0 s1 x1 pre R Him Hokm Hrelm Havm Hmem Hrun HaftM) as [f E].
      exists f. unfold acallF, acallM. cbn [opk_eqb].
      change (rem_meta (alpha s)) with (rem_meta s).
      assert (Cg' : negb (rem_meta s =? U32MAX) && negb (offered =? rem_meta s) = false).
      { cbn [negb] in Cg. rewrite orb_false_r in Cg. exact Cg. }
      rewrite Cg'. rewrite <- alpha_hint. fold sh.
      destruct (N.ltb_spec (2 ^ 24) offered) as [K|_]; [lia|].
      change (sstate_ (alpha sh)) with (sstate_ sh).
      assert (Eb : (if sstate_eqb (sstate_ sh) SProcessing
                    then upd_core (alpha sh) (initialized (alpha sh)) SMetaHead (w32 offered) else alpha sh) = alpha sm).
      { unfold sm. destruct (sstate_eqb (sstate_ sh) SProcessing); reflexivity. }
      rewrite Eb. change (sstate_ (alpha sm)) with (sstate_ sm). rewrite Cm.
      cbn [in_off x0 avail_in produced app] in E. rewrite Hpm in E. exact E.
  - (* process / flush / finish *)
    assert (Hop : op <> OpMeta) by (intros K; rewrite K in Eop; discriminate Eop).
    assert (Hr : ready s) by (split; [|split]; assumption).
    destruct (call_simF s op payload offered capn s1 x1 pre R Hr Hfc Hop Hrun) as [[[Hini1 [Hi1 Hok1]] [Hfc1 Hcur]] Hsim].
    (* what the loop keeps *)
    unfold compress_stream, compress_stream_from in Hrun.
    rewrite (ensure_initialized_id s Hini) in Hrun.
    destruct (negb (rem_meta s =? U32MAX) && (negb (offered =? rem_meta s) || negb (opk_eqb op OpMeta))); [discriminate|].
    rewrite Eop in Hrun.
    destruct (sstate_eqb (sstate_ s) SMetaHead || sstate_eqb (sstate_ s) SMetaBody) eqn:Cmeta; [discriminate|].
    destruct (negb (sstate_eqb (sstate_ s) SProcessing) && negb (offered =? 0)); [discriminate|].
    fold (fastcond s) in Hrun. rewrite Hfc in Hrun.
    assert (Hnm : nometa s).
    { apply orb_false_iff in Cmeta. destruct Cmeta as [M1 M2]. split; intros K; rewrite K in *; discriminate. }
    destruct (fast_loop_keep _ _ _ _ _ _ _ Hnm Hrun) as [[N1 N2] [M1 _]].
    split.
    + split; [|split; [exact Hcur|intros K; contradiction]].
      split; [exact Hini1|]. split; [exact Hi1|]. split; [exact Hok1|]. split; [exact Hfc1|].
      split; [intros [K|K]; contradiction|congruence].
    + intros Haft. 
      assert (HaftF : afterF op s1 x1 pre R).
      { destruct Haft as [A|[Hnc [f1 E]]]; [left; exact A|right]. split; [exact Hnc|].
        exists f1. unfold acallF in E. rewrite Eop in E. exact E. }
      destruct (Hsim HaftF) as [f E]. exists f. unfold acallF. rewrite Eop. exact E.
Qed.

Lemma drive_simGF : forall caps s op payload chunk acc out sf,
  readyF s -> (op = OpMeta -> chunk <= lenN payload) ->
  drive_q s op payload chunk caps acc = Some (out, sf) ->
  (readyF sf /\ avail_out_ sf = 0)
  /\ exists f, acallF f op (alpha s) payload chunk (acc ++ pend s) = Done (true, alpha sf, 0, out).
Proof.
  induction caps as [|c rest IH]; intros s op payload chunk acc out sf Hr Hpay Hd; [discriminate|].
  cbn [drive_q] in Hd.
  destruct (compress_stream s op payload chunk c) as [[[[|] s'] x]| | |] eqn:Ecall; try discriminate.
  destruct (call_simGF s op payload chunk c s' x acc (true, alpha sf, 0, out) Hr Hpay Ecall) as [[Hr' [Hcur Hpl]] Hsim].
  assert (Hleft : chunk - in_off x = avail_in x) by lia.
  rewrite Hleft in Hd.
  destruct ((avail_in x =? 0) && (avail_out_ s' =? 0)) eqn:Cdone.
  - inversion Hd; subst out sf; clear Hd.
    apply andb_true_iff in Cdone. destruct Cdone as [D1 D2]. apply N.eqb_eq in D1, D2.
    split; [split; assumption|].
    apply Hsim. left. repeat split; assumption.
  - assert (Hpay' : op = OpMeta -> avail_in x <= lenN (skipN (in_off x) payload)).
    { intros Hop. specialize (Hpl Hop). rewrite lenN_skipN. lia. }
    destruct (IH _ _ _ _ _ _ _ Hr' Hpay' Hd) as [Hfin [f1 E]].
    split; [exact Hfin|]. apply Hsim. right. split.
    + intros [D1 D2]. rewrite D1, D2 in Cdone. discriminate.
    + exists f1. rewrite <- app_assoc in E. exact E.
Qed.

Theorem out_slicing_call_fastmeta s t op payload chunk caps caps' acc out out' s1 t1 :
  readyF s -> readyF t -> leq s t -> (op = OpMeta -> chunk <= lenN payload) ->
  drive_q s op payload chunk caps acc = Some (out, s1) ->
  drive_q t op payload chunk caps' acc = Some (out', t1) ->
  out = out' /\ leq s1 t1 /\ readyF s1 /\ readyF t1.
Proof.
  intros Hr Hr' [Ea Ep] Hpay D1 D2.
  destruct (drive_simGF _ _ _ _ _ _ _ _ Hr Hpay D1) as [[R1 A1] [f1 E1]].
  destruct (drive_simGF _ _ _ _ _ _ _ _ Hr' Hpay D2) as [[R2 A2] [f2 E2]].
  rewrite Ea, Ep in E1.
  pose proof (acallF_det _ _ _ _ _ _ _ _ _ E1 E2) as E.
  assert (E3 : alpha s1 = alpha t1) by congruence.
  assert (E4 : out = out') by congruence.
  split; [exact E4|]. split; [|split; assumption].
  split; [exact E3|]. rewrite (pend_nil _ A1), (pend_nil _ A2). reflexivity.
Qed.

Theorem out_slicing_seq_fastmeta : forall calls s t capss capss' acc out out' s1 t1,
  readyF s -> readyF t -> leq s t ->
  Forall (fun c => fst (fst c) = OpMeta -> snd (fst c) <= lenN (snd c)) calls ->
  drive_seq s calls capss acc = Some (out, s1) ->
  drive_seq t calls capss' acc = Some (out', t1) ->
  out = out' /\ leq s1 t1 /\ readyF s1 /\ readyF t1.
Proof.
  induction calls as [|[[op chunk] payload] more IH]; intros s t capss capss' acc out out' s1 t1 Hr Hr' Hleq Hpl D1 D2.
  - cbn [drive_seq] in D1, D2. inversion D1; inversion D2; subst. split; [reflexivity|split; [exact Hleq|split; assumption]].
  - cbn [drive_seq] in D1, D2.
    destruct capss as [|caps capss]; [discriminate|]. destruct capss' as [|caps' capss']; [discriminate|].
    destruct (drive_q s op payload chunk caps acc) as [[a1 u1]|] eqn:E1; [|discriminate].
    destruct (drive_q t op payload chunk caps' acc) as [[a2 u2]|] eqn:E2; [|discriminate].
    inversion Hpl as [|? ? Hp Hrest]; subst. cbn [fst snd] in Hp.
    destruct (out_slicing_call_fastmeta _ _ _ _ _ _ _ _ _ _ _ _ Hr Hr' Hleq Hp E1 E2) as [Ea [Hleq1 [R1 R2]]]. subst a2.
    exact (IH _ _ _ _ _ _ _ _ _ R1 R2 Hleq1 Hrest D1 D2).
Qed.

(* ---- both paths, all four operations ---- *)
Definition slicing_pre_full (s : st) : Prop :=
  initialized s = true /\ inv s /\ all_ok2 (oracle s) /\ meta_ok s /\ (fastcond s = true -> menc s = false).

Theorem out_slicing_full : forall calls s t capss capss' acc out out' s1 t1,
  slicing_pre_full s -> slicing_pre_full t -> leqU s t ->
  Forall (fun c => fst (fst c) = OpMeta -> snd (fst c) <= lenN (snd c)) calls ->
  drive_seq s calls capss acc = Some (out, s1) ->
  drive_seq t calls capss' acc = Some (out', t1) ->
  out = out' /\ leqU s1 t1 /\ slicing_pre_full s1 /\ slicing_pre_full t1.
Proof.
  intros calls s t capss capss' acc out out' s1 t1 [Hini [Hi [Hok [Hmo Hfm]]]] [Hini' [Hi' [Hok' [Hmo' Hfm']]]] Hleq Hpl D1 D2.
  unfold leqU in Hleq. destruct (fastcond s) eqn:Hfc.
  - assert (Hfc' : fastcond t = true).
    { destruct Hleq as [Eb _]. unfold fastcond in *. change (quality t) with (quality (alpha t)).
      change (catable t) with (catable (alpha t)). change (magic t) with (magic (alpha t)). rewrite <- Eb. exact Hfc. }
    assert (Hr : readyF s) by (split; [|split; [|split; [|split; [|split]]]]; auto).
    assert (Hr' : readyF t) by (split; [|split; [|split; [|split; [|split]]]]; auto).
    destruct (out_slicing_seq_fastmeta _ _ _ _ _ _ _ _ _ _ Hr Hr' Hleq Hpl D1 D2)
      as [E [L [[A1 [A2 [A3 [A4 [A5 A6]]]]] [B1 [B2 [B3 [B4 [B5 B6]]]]]]]].
    split; [exact E|]. split; [unfold leqU; rewrite A4; exact L|].
    split; (split; [|split; [|split; [|split]]]; auto).
  - assert (Hfc' : fastcond t = false).
    { destruct Hleq as [Eb _]. unfold fastcond in *. change (quality t) with (quality (beta t)).
      change (catable t) with (catable (beta t)). change (magic t) with (magic (beta t)). rewrite <- Eb. exact Hfc. }
    assert (Hr : readyM s) by (split; [|split; [|split; [|split]]]; assumption).
    assert (Hr' : readyM t) by (split; [|split; [|split; [|split]]]; assumption).
    destruct (out_slicing_seq_meta _ _ _ _ _ _ _ _ _ _ Hr Hr' Hleq Hpl D1 D2)
      as [E [L [[A1 [A2 [A3 [A4 A5]]]] [B1 [B2 [B3 [B4 B5]]]]]]].
    split; [exact E|]. split; [unfold leqU; rewrite A4; exact L|].
    split; (split; [|split; [|split; [|split]]]; try assumption); intros K; congruence.
Qed.

(* the hypotheses hold for every encoder that has only seen set_parameter calls *)
Theorem slicing_pre_initial : forall s o,
  fresh s -> initialized s = false -> input_pos s = last_flush_pos s -> magic s = false -> all_ok2 o ->
  slicing_pre_full (upd_misc (ensure_initialized s) (last_emitted s) o).
Proof.
  intros s o Hf Hini Hpos Hmag Hok.
  destruct (fresh_inv s Hf Hini) as [Hi [Hm _]].
  assert (E : forall le, upd_misc (ensure_initialized s) le o = upd_misc (ensure_initialized s) le o) by reflexivity.
  unfold slicing_pre_full.
  assert (Hfields : initialized (ensure_initialized s) = true /\ input_pos (ensure_initialized s) = input_pos s
                    /\ last_flush_pos (ensure_initialized s) = last_flush_pos s /\ magic (ensure_initialized s) = magic s
                    /\ sstate_ (ensure_initialized s) = sstate_ s).
  { unfold ensure_initialized. rewrite Hini. destruct (encode_window_bits _ _). repeat split; reflexivity. }
  destruct Hfields as [F1 [F2 [F3 [F4 F5]]]].
  split; [exact F1|]. split.
  { destruct Hi as [Hc [Hp [Ht Hl]]]. unfold inv, cursor_ok, pad_ok in *. fs. repeat split; assumption. }
  split; [exact Hok|]. split.
  { unfold meta_ok in *. fs. exact Hm. }
  intros _. unfold menc. fs. rewrite F2, F3, F4, Hpos, Hmag, N.eqb_refl. reflexivity.
Qed.
