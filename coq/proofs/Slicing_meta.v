(* C05: output-slicing independence on the main path INCLUDING metadata calls.

   meta_loop moves the payload straight into the caller's buffer when there is room and through
   the 16-byte tiny buffer when there is none, so after a metadata block the cursor and the
   tiny buffer depend on the capacity schedule, and a later encode_data that emits nothing
   records that cursor in a_no.  The statement is therefore about the logical state [beta s]
   (cursor, storage contents and tiny buffer dropped, running total advanced by the pending
   bytes, a_no erased from the recorded answers; storage_size is kept: encode_data reads it)
   and the logical output (delivered ++ pending).  [astreamL], [ameta] are the loops on logical
   states; they never look at a capacity. *)
From Coq Require Import NArith ZArith List Bool Lia.
From V Require Import lib.Words model.Stream proofs.Stream_proofs proofs.Dist_proofs proofs.NoPanic_proofs
                      proofs.Slicing_proofs proofs.Slicing_fast.
Import ListNotations.
Open Scope N_scope.

Definition erase_no (a : answer) : answer :=
  {| a_fast := a_fast a; a_is_last := a_is_last a; a_force_flush := a_force_flush a; a_result := a_result a;
     a_inplace := a_inplace a; a_block := a_block a; a_out := a_out a; a_lb := a_lb a; a_lbb := a_lbb a;
     a_ipos := a_ipos a; a_lfp := a_lfp a; a_lpp := a_lpp a; a_hint := a_hint a; a_no := NoDyn 0 |}.

Definition norm (s : st) : st :=
  upd_out s NoNone [] (storage_size s) [] 0 (wadd64 (total_out_ s) (avail_out_ s)).
Definition beta (s : st) : st := upd_misc (norm s) (last_emitted s) (map erase_no (oracle s)).

Definition apadB (a : st) : st :=
  upd_out (upd_bits a 0 0) NoNone [] (storage_size a) [] 0 (wadd64 (total_out_ a) ((last_bytes_bits a + 6 + 7) / 8)).

Lemma beta_pushk s k : k <= avail_out_ s -> beta (pushk s k) = beta s.
Proof.
  intros H. unfold beta, norm, pushk. fs. rewrite wadd64_wadd64.
  replace (k + (avail_out_ s - k)) with (avail_out_ s) by lia. reflexivity.
Qed.

Lemma beta_set_sstate s ss : beta (set_sstate s ss) = set_sstate (beta s) ss.
Proof. reflexivity. Qed.

Lemma beta_fin s3 bF bL : beta (fin s3 bF bL) = fin (beta s3) bF bL.
Proof. destruct bF, bL; reflexivity. Qed.

Lemma beta_hint s a : beta (update_size_hint s a) = update_size_hint (beta s) a.
Proof.
  unfold update_size_hint. change (size_hint (beta s)) with (size_hint s).
  change (unprocessed (beta s)) with (unprocessed s).
  destruct (size_hint s =? 0); reflexivity.
Qed.

Lemma beta_cfc s : avail_out_ s = 0 -> beta (check_flush_complete s) = check_flush_complete (beta s).
Proof.
  intros H. unfold check_flush_complete. change (sstate_ (beta s)) with (sstate_ s).
  change (avail_out_ (beta s)) with 0. rewrite H.
  destruct (sstate_eqb (sstate_ s) SFlushRequested && (0 =? 0)); unfold beta, norm; fs; rewrite ?H; reflexivity.
Qed.

Lemma pad_beta s : inv s -> padcond s = true ->
  exists s', inject_byte_padding_block s = Done s' /\ inv s' /\ sstate_ s' = sstate_ s /\ oracle s' = oracle s
             /\ beta s' = apadB (beta s) /\ pend s' = pend s ++ seal_bytes s.
Proof.
  intros Hi Cp. destruct (pad_alpha s Hi Cp) as [s' [E [Hi' [Hst [Ho [_ Hp]]]]]].
  exists s'. repeat (split; [assumption|]). split; [|exact Hp].
  destruct (padcond_true s Cp) as [Hfl Hlb].
  destruct Hi as [Hc [Hpd [Ht Hl]]].
  unfold inject_byte_padding_block in E. fold (seal_bytes s) in E.
  remember (seal_bytes s) as bs eqn:Ebs. clear Ebs Hp Hi' Hst Ho.
  fs_in E.
  destruct (N.eqb_spec (avail_out_ s) 0) as [E0|E0].
  - fs_in E. unfold write_at_cursor in E. fs_in E.
    destruct (16 <? 0 + 0 + lenN bs); [discriminate|].
    injection E as E. subst s'.
    unfold beta, norm, apadB. fs. rewrite E0. rewrite !wadd64_wadd64. rewrite !N.add_0_l. reflexivity.
  - destruct (Hpd Hfl Hlb E0) as [off [En [Hroom H32]]].
    fs_in E. rewrite En in E. unfold write_at_cursor in E. fs_in E. rewrite En in E.
    destruct (storage_size s <? off + avail_out_ s + lenN bs); [discriminate|].
    injection E as E. subst s'.
    unfold beta, norm, apadB. fs. rewrite !wadd64_wadd64. reflexivity.
Qed.

(* the back end on the logical state *)
Lemma encode_beta c il ff c2 :
  avail_out_ c = 0 -> all_ok2 (oracle c) ->
  encode_data c il ff = Done (true, c2) ->
  exists a2, encode_data (beta c) il ff = Done (true, a2) /\ beta c2 = norm a2 /\ pend c2 = pend a2.
Proof.
  intros Hao Hok H. unfold encode_data, unprocessed, input_block_size in *. unfold beta, norm. fs.
  destruct (oracle c) as [|a rest] eqn:Eo; [discriminate|]. cbn [map]. fs_in H.
  inversion Hok as [|? ? [Ha Ha32] Hrest]; subst.
  destruct (answer_ok_parts a Ha) as [_ Hno].
  change (a_fast (erase_no a)) with (a_fast a). change (a_is_last (erase_no a)) with (a_is_last a).
  change (a_force_flush (erase_no a)) with (a_force_flush a). change (a_ipos (erase_no a)) with (a_ipos a).
  change (a_hint (erase_no a)) with (a_hint a). change (a_result (erase_no a)) with (a_result a).
  change (a_out (erase_no a)) with (a_out a). change (a_no (erase_no a)) with (NoDyn 0).
  change (a_lb (erase_no a)) with (a_lb a). change (a_lbb (erase_no a)) with (a_lbb a).
  change (a_lfp (erase_no a)) with (a_lfp a). change (a_lpp (erase_no a)) with (a_lpp a).
  destruct (a_fast a) eqn:Ef; [discriminate|].
  destruct (negb (Bool.eqb (a_is_last a) il)); [discriminate|].
  destruct (negb (Bool.eqb (a_force_flush a) ff)); [discriminate|].
  destruct (negb (a_ipos a =? input_pos c)); [discriminate|].
  destruct (negb (a_hint a =? size_hint c)); [discriminate|].
  destruct (last_emitted c); [destruct (a_result a); discriminate|].
  match type of H with (if ?c then _ else _) = _ => destruct c; [destruct (a_result a); discriminate|] end.
  destruct (negb (a_result a)); [discriminate|].
  cbn [nextout_eqb N.eqb negb andb].
  match type of H with (if ?c then _ else _) = _ => destruct c; [discriminate|] end.
  match type of H with (if ?c then _ else _) = _ => destruct c; [discriminate|] end.
  injection H as H. subst c2.
  eexists. split; [reflexivity|]. split.
  - unfold beta, norm. fs. rewrite Hao. rewrite !wadd64_wadd64, !N.add_0_l. reflexivity.
  - unfold pend, view. fs.
    destruct (a_out a) as [|b t] eqn:Eout.
    + reflexivity.
    + rewrite (Hno eq_refl ltac:(discriminate)). reflexivity.
Qed.

(* ---- the main loop on logical states ---- *)
Fixpoint astreamL (fuel : nat) (op : opk) (a : st) (ain : N) (out : list N)
  : outcome (bool * st * N * list N) :=
  match fuel with
  | O => OutOfFuel
  | S f =>
    let rem := remaining_input_block_size a in
    if negb (rem =? 0) && negb (ain =? 0) then
      let c := N.min rem ain in
      astreamL f op (upd_pos a (wadd64 (input_pos a) c) (last_flush_pos a) (last_processed_pos a)) (ain - c) out
    else if padcond a then astreamL f op (apadB a) ain (out ++ seal_bytes a)
    else if sstate_eqb (sstate_ a) SProcessing && ((rem =? 0) || negb (opk_eqb op OpProcess)) then
      let is_last := (ain =? 0) && opk_eqb op OpFinish in
      let force_flush := (ain =? 0) && opk_eqb op OpFlush in
      match encode_data (update_size_hint a ain) is_last force_flush with
      | Panic w => Panic w | Mismatch w => Mismatch w | OutOfFuel => OutOfFuel
      | Done (false, a2) => Done (false, a2, ain, out)
      | Done (true, a2) => astreamL f op (fin (norm a2) force_flush is_last) ain (out ++ pend a2)
      end
    else Done (true, check_flush_complete a, ain, out)
  end.

Lemma astreamL_mono : forall f op s ain out R, astreamL f op s ain out = Done R ->
  forall f', (f <= f')%nat -> astreamL f' op s ain out = Done R.
Proof.
  induction f as [|f IH]; intros op s ain out R H f' Hle; [discriminate|].
  destruct f' as [|f']; [lia|]. assert (Hle' : (f <= f')%nat) by lia.
  cbn [astreamL] in *.
  destruct (negb (remaining_input_block_size s =? 0) && negb (ain =? 0)); [eapply IH; eassumption|].
  destruct (padcond s); [eapply IH; eassumption|].
  destruct (sstate_eqb (sstate_ s) SProcessing && ((remaining_input_block_size s =? 0) || negb (opk_eqb op OpProcess))); [|exact H].
  destruct (encode_data _ _ _) as [[[|] s2]| | |]; try discriminate; [eapply IH; eassumption|exact H].
Qed.

Definition afterS (op : opk) (s1 : st) (x1 : io) (pre : list N) (R : bool * st * N * list N) : Prop :=
  (avail_in x1 = 0 /\ avail_out_ s1 = 0 /\ R = (true, beta s1, 0, pre ++ produced x1)) \/
  (~ (avail_in x1 = 0 /\ avail_out_ s1 = 0) /\
   exists f1, astreamL f1 op (beta s1) (avail_in x1) (pre ++ produced x1 ++ pend s1) = Done R).

Lemma stream_simL : forall fuel op s x s1 x1 pre R,
  inv s -> all_ok2 (oracle s) -> guard_inv s x ->
  stream_loop fuel op s x = Done (true, s1, x1) ->
  afterS op s1 x1 pre R ->
  exists f, astreamL f op (beta s) (avail_in x) (pre ++ produced x ++ pend s) = Done R.
Proof.
  induction fuel as [|fu IH]; intros op s x s1 x1 pre R Hi Hok Hg Hrun Haft; [discriminate|].
  cbn [stream_loop] in Hrun.
  destruct (negb (remaining_input_block_size s =? 0) && negb (avail_in x =? 0)) eqn:Ccopy.
  - (* copy input *)
    assert (Hg' : guard_inv (upd_pos s (wadd64 (input_pos s) (N.min (remaining_input_block_size s) (avail_in x)))
                                    (last_flush_pos s) (last_processed_pos s))
                            (io_consume x (N.min (remaining_input_block_size s) (avail_in x)))).
    { intros Hs. fs_in Hs. specialize (Hg Hs).
      apply andb_true_iff in Ccopy. destruct Ccopy as [_ C]. apply negb_true_iff in C. apply N.eqb_neq in C. contradiction. }
    destruct (IH _ _ _ _ _ pre R (inv_upd_pos s _ _ _ Hi) Hok Hg' Hrun Haft) as [f0 E].
    exists (S f0). cbn [astreamL]. change (remaining_input_block_size (beta s)) with (remaining_input_block_size s).
    rewrite Ccopy. exact E.
  - unfold inject_flush_or_push_output in Hrun. fold (padcond s) in Hrun.
    destruct (padcond s) eqn:Cpad.
    + (* padding *)
      destruct (pad_beta s Hi Cpad) as [s' [Ep [Hi' [Hst' [Ho [Ea Epd]]]]]]. rewrite Ep in Hrun.
      assert (Hg' : guard_inv s' x) by (intros Hs; rewrite Hst' in Hs; exact (Hg Hs)).
      destruct (IH _ _ _ _ _ pre R Hi' ltac:(rewrite Ho; exact Hok) Hg' Hrun Haft) as [f0 E].
      exists (S f0). cbn [astreamL]. change (remaining_input_block_size (beta s)) with (remaining_input_block_size s).
      rewrite Ccopy. change (padcond (beta s)) with (padcond s). rewrite Cpad.
      change (seal_bytes (beta s)) with (seal_bytes s). rewrite <- Ea. rewrite Epd in E.
      rewrite <- !app_assoc. exact E.
    + destruct (negb (avail_out_ s =? 0) && negb (cap x =? 0)) eqn:Cpush.
      * (* push: the logical state does not move *)
        destruct (lenN (view s) <? N.min (avail_out_ s) (cap x)); [discriminate|].
        remember (N.min (avail_out_ s) (cap x)) as n eqn:En.
        assert (Hn : n <= avail_out_ s) by (subst n; apply N.le_min_l).
        change (upd_out s (no_incr (next_out s) n) (storage s) (storage_size s) (tiny s) (avail_out_ s - n)
                        (wadd64 (total_out_ s) n)) with (pushk s n) in Hrun.
        assert (Hi' : inv (pushk s n)) by (apply inv_pushk; assumption).
        assert (Hg' : guard_inv (pushk s n) (io_push x (takeN n (view s)) (wadd64 (total_out_ s) n))).
        { intros Hs. exact (Hg Hs). }
        destruct (IH _ _ _ _ _ pre R Hi' Hok Hg' Hrun Haft) as [f0 E].
        exists f0. rewrite (beta_pushk s n Hn) in E. fs_in E.
        destruct Hi as [Hc _]. destruct (pushall_pushk s n Hc Hn) as [_ P2].
        rewrite <- app_assoc in E. rewrite P2 in E. exact E.
      * destruct ((avail_out_ s =? 0) && sstate_eqb (sstate_ s) SProcessing
                  && ((remaining_input_block_size s =? 0) || negb (opk_eqb op OpProcess))) eqn:Cenc.
        -- (* the back end runs *)
           apply andb_true_iff in Cenc. destruct Cenc as [Cenc Crem]. apply andb_true_iff in Cenc. destruct Cenc as [Cao Cst].
           apply N.eqb_eq in Cao. pose proof Cst as Cst'. apply sstate_eqb_spec in Cst.
           pose proof (pend_nil s Cao) as Hp0.
           destruct (update_size_hint_oracle s (avail_in x)) as [U1 U2].
           destruct (update_size_hint_fields s (avail_in x)) as [V1 _].
           remember ((avail_in x =? 0) && opk_eqb op OpFlush) as bF eqn:EbF.
           remember ((avail_in x =? 0) && opk_eqb op OpFinish) as bL eqn:EbL.
           destruct (encode_data (update_size_hint s (avail_in x)) bL bF) as [[[|] s2]|w|w|] eqn:Eenc; try discriminate.
           destruct (encode_data_inv _ _ _ _ _ (inv_size_hint s _ Hi) ltac:(rewrite U2; exact Cao) ltac:(rewrite U1; exact Hok) Eenc)
             as [Hi2 [Hok2 [Hst2 Hroom]]].
           destruct (encode_beta _ _ _ _ ltac:(rewrite U2; exact Cao) ltac:(rewrite U1; exact Hok) Eenc) as [a2 [Ea2 [Eb2 Ep2]]].
           change (stream_loop fu op (fin s2 bF bL) x = Done (true, s1, x1)) in Hrun.
           destruct (fin_facts s2 bF bL) as [F1 [F2 [F3 F4]]].
           assert (Hi4 : inv (fin s2 bF bL)).
           { apply inv_fin; [exact Hi2|]. intros _ Hne. destruct (Hroom eq_refl Hne) as [R1 [R2 R3]].
             exists 0. split; [exact R1|]. split; lia. }
           assert (Hok4 : all_ok2 (oracle (fin s2 bF bL))) by (rewrite F2; exact Hok2).
           assert (Hg4 : guard_inv (fin s2 bF bL) x).
           { intros Hs. assert (Hne : sstate_ (fin s2 bF bL) <> sstate_ s2) by (rewrite Hst2, V1, Cst; exact Hs).
             destruct (F4 Hne) as [K|K]; [rewrite EbF in K|rewrite EbL in K];
               apply andb_true_iff in K; destruct K as [K _]; apply N.eqb_eq; exact K. }
           destruct (IH _ _ _ _ _ pre R Hi4 Hok4 Hg4 Hrun Haft) as [f0 E].
           exists (S f0). cbn [astreamL]. change (remaining_input_block_size (beta s)) with (remaining_input_block_size s).
           rewrite Ccopy. change (padcond (beta s)) with (padcond s). rewrite Cpad.
           change (sstate_ (beta s)) with (sstate_ s). rewrite Cst', Crem. cbn [andb].
           rewrite <- EbF, <- EbL. rewrite <- beta_hint. rewrite Ea2.
           rewrite beta_fin, Eb2, F3, Ep2 in E. rewrite Hp0, app_nil_r. rewrite <- app_assoc. exact E.
        -- (* the call returns *)
           inversion Hrun; subst s1 x1; clear Hrun.
           destruct Haft as [[A1 [A2 A3]]|[Hnc [f1 E]]].
           ++ rewrite cfc_avail in A2. subst R.
              exists 1%nat. cbn [astreamL]. change (remaining_input_block_size (beta s)) with (remaining_input_block_size s).
              rewrite Ccopy. change (padcond (beta s)) with (padcond s). rewrite Cpad.
              change (sstate_ (beta s)) with (sstate_ s).
              rewrite A2 in Cenc. cbn [N.eqb andb] in Cenc. rewrite Cenc.
              rewrite (pend_nil s A2), app_nil_r, A1, (beta_cfc s A2). reflexivity.
           ++ rewrite cfc_avail in Hnc.
              assert (Eid : check_flush_complete s = s).
              { apply cfc_id. destruct (N.eq_dec (avail_out_ s) 0) as [E0|E0]; [right|left; exact E0].
                intros Hfl. apply Hnc. split; [|exact E0]. apply Hg. rewrite Hfl. discriminate. }
              rewrite Eid in E. exists f1. exact E.
Qed.

(* ---- the metadata loop on logical states ---- *)
Definition apay (a : st) (c : N) : st :=
  let a1 := upd_out a NoNone [] (storage_size a) [] 0 (wadd64 (total_out_ a) c) in
  upd_core a1 (initialized a1) (sstate_ a1) (wsub32 (rem_meta a1) c).

Definition menc (a : st) : bool := negb (input_pos a =? last_flush_pos a) || (magic a && first_pending a).

Fixpoint ameta (fuel : nat) (pl : list N) (a : st) (ain : N) (out : list N)
  : outcome (bool * st * N * list N) :=
  match fuel with
  | O => OutOfFuel
  | S f =>
    if menc a then
      match encode_data a false true with
      | Panic w => Panic w | Mismatch w => Mismatch w | OutOfFuel => OutOfFuel
      | Done (false, a2) => Done (false, a2, ain, out)
      | Done (true, a2) => ameta f pl (norm a2) ain (out ++ pend a2)
      end
    else if sstate_eqb (sstate_ a) SMetaHead then
      let a1 := set_sstate (write_metadata_header a) SMetaBody in
      ameta f pl (norm a1) ain (out ++ pend a1)
    else if rem_meta a =? 0 then Done (true, upd_core a (initialized a) SProcessing U32MAX, ain, out)
    else
      let c := rem_meta a in
      if lenN pl <? c then Panic 5
      else ameta f (skipN c pl) (apay a c) (ain - c) (out ++ takeN c pl)
  end.

Lemma ameta_mono : forall f pl s ain out R, ameta f pl s ain out = Done R ->
  forall f', (f <= f')%nat -> ameta f' pl s ain out = Done R.
Proof.
  induction f as [|f IH]; intros pl s ain out R H f' Hle; [discriminate|].
  destruct f' as [|f']; [lia|]. assert (Hle' : (f <= f')%nat) by lia.
  cbn [ameta] in *.
  destruct (menc s).
  - destruct (encode_data s false true) as [[[|] s2]| | |]; try discriminate; [eapply IH; eassumption|exact H].
  - destruct (sstate_eqb (sstate_ s) SMetaHead); [eapply IH; eassumption|].
    destruct (rem_meta s =? 0); [exact H|].
    destruct (lenN pl <? rem_meta s); [discriminate|]. eapply IH; eassumption.
Qed.

Lemma wsub32_self r : r < 2 ^ 32 -> wsub32 r r = 0.
Proof. intros H. rewrite wsub32_small by lia. lia. Qed.

Lemma apay_apay a c d : c + d < 2 ^ 32 -> c + d <= rem_meta a -> rem_meta a < 2 ^ 32 ->
  apay (apay a c) d = apay a (c + d).
Proof.
  intros H1 H2 H3. unfold apay. fs. rewrite wadd64_wadd64.
  rewrite (wsub32_small (rem_meta a) c) by lia.
  rewrite (wsub32_small (rem_meta a - c) d) by lia.
  rewrite (wsub32_small (rem_meta a) (c + d)) by lia.
  replace (rem_meta a - c - d) with (rem_meta a - (c + d)) by lia. reflexivity.
Qed.

(* a partial delivery of payload bytes followed by the rest = delivering all at once *)
Lemma ameta_pay f0 pl a ain out c R :
  menc a = false -> sstate_eqb (sstate_ a) SMetaHead = false ->
  0 < c -> c <= rem_meta a -> rem_meta a < 2 ^ 32 -> rem_meta a <= lenN pl ->
  ameta f0 (skipN c pl) (apay a c) (ain - c) (out ++ takeN c pl) = Done R ->
  exists f, ameta f pl a ain out = Done R.
Proof.
  intros Cm Ch Hc0 Hc Hr Hpl E.
  destruct (N.eq_dec c (rem_meta a)) as [Eall|Epart].
  - exists (S f0). cbn [ameta]. rewrite Cm, Ch.
    destruct (N.eqb_spec (rem_meta a) 0) as [K|_]; [lia|].
    destruct (N.ltb_spec (lenN pl) (rem_meta a)) as [K|_]; [lia|].
    rewrite <- Eall. exact E.
  - destruct f0 as [|f0]; [discriminate|]. cbn [ameta] in E.
    change (menc (apay a c)) with (menc a) in E. change (sstate_ (apay a c)) with (sstate_ a) in E.
    rewrite Cm, Ch in E.
    assert (Hrem : rem_meta (apay a c) = rem_meta a - c).
    { unfold apay. fs. apply wsub32_small; lia. }
    rewrite Hrem in E.
    destruct (N.eqb_spec (rem_meta a - c) 0) as [K|_]; [lia|].
    destruct (lenN (skipN c pl) <? rem_meta a - c); [discriminate|].
    rewrite skipN_skipN in E.
    rewrite apay_apay in E by lia.
    replace (c + (rem_meta a - c)) with (rem_meta a) in E by lia.
    replace (ain - c - (rem_meta a - c)) with (ain - rem_meta a) in E by lia.
    rewrite <- app_assoc in E. rewrite <- (takeN_split pl c (rem_meta a) Hc) in E.
    exists (S f0). cbn [ameta]. rewrite Cm, Ch.
    destruct (N.eqb_spec (rem_meta a) 0) as [K|_]; [lia|].
    destruct (N.ltb_spec (lenN pl) (rem_meta a)) as [K|_]; [lia|].
    exact E.
Qed.

Lemma header_beta s : avail_out_ s = 0 ->
  beta (set_sstate (write_metadata_header s) SMetaBody) = norm (set_sstate (write_metadata_header (beta s)) SMetaBody)
  /\ pend (set_sstate (write_metadata_header s) SMetaBody) = pend (set_sstate (write_metadata_header (beta s)) SMetaBody).
Proof.
  intros H. unfold write_metadata_header.
  change (last_bytes (beta s)) with (last_bytes s). change (last_bytes_bits (beta s)) with (last_bytes_bits s).
  change (rem_meta (beta s)) with (rem_meta s).
  destruct (metadata_header_bits (last_bytes s) (last_bytes_bits s) (rem_meta s)) as [v nb].
  split; [|reflexivity].
  unfold beta, norm. fs. rewrite H, !wadd64_wadd64, !N.add_0_l. reflexivity.
Qed.

Lemma pay_direct_beta s c : avail_out_ s = 0 ->
  let s1 := upd_out s (next_out s) (storage s) (storage_size s) (tiny s) (avail_out_ s) (wadd64 (total_out_ s) c) in
  let s' := upd_core s1 (initialized s1) (sstate_ s1) (wsub32 (rem_meta s1) c) in
  beta s' = apay (beta s) c /\ pend s' = [].
Proof.
  intros H s1 s'. split.
  - unfold s', s1, beta, norm, apay. fs. rewrite H, !wadd64_wadd64, N.add_0_r, N.add_0_l. reflexivity.
  - apply pend_nil. exact H.
Qed.

Lemma pay_tiny_beta s c bs : avail_out_ s = 0 -> lenN bs = c ->
  let s1 := upd_out s (NoTiny 0) (storage s) (storage_size s) (write_list (tiny s) 0 bs) c (total_out_ s) in
  let s' := upd_core s1 (initialized s1) (sstate_ s1) (wsub32 (rem_meta s1) c) in
  beta s' = apay (beta s) c /\ pend s' = bs.
Proof.
  intros H Hl s1 s'. split.
  - unfold s', s1, beta, norm, apay. fs. rewrite H, !wadd64_wadd64, N.add_0_l. reflexivity.
  - unfold s', s1, pend, view. fs.
    pose proof (take_skip_write (tiny s) 0 0 bs ltac:(lia)) as W. rewrite Hl in W. exact W.
Qed.

Lemma encode_rem_meta s il ff r s2 : encode_data s il ff = Done (r, s2) -> rem_meta s2 = rem_meta s.
Proof.
  unfold encode_data. intros H. destruct (oracle s); [discriminate|].
  repeat match type of H with (if ?c then _ else _) = _ => destruct c; try discriminate end;
    inversion H; reflexivity.
Qed.

Lemma meta_state_nopad s : sstate_ s = SMetaHead \/ sstate_ s = SMetaBody -> padcond s = false.
Proof. intros [H|H]; unfold padcond; rewrite H; reflexivity. Qed.

Definition afterM (payload : list N) (s1 : st) (x1 : io) (pre : list N) (R : bool * st * N * list N) : Prop :=
  (avail_in x1 = 0 /\ avail_out_ s1 = 0 /\ R = (true, beta s1, 0, pre ++ produced x1)) \/
  (~ (avail_in x1 = 0 /\ avail_out_ s1 = 0) /\
   exists f1, ameta f1 (skipN (in_off x1) payload) (beta s1) (avail_in x1) (pre ++ produced x1 ++ pend s1) = Done R).

Lemma meta_simL payload : forall fuel s x s1 x1 pre R,
  inv s -> all_ok2 (oracle s) -> meta_rel payload s x -> avail_in x = rem_meta s ->
  meta_loop fuel payload s x = Done (true, s1, x1) ->
  afterM payload s1 x1 pre R ->
  exists f, ameta f (skipN (in_off x) payload) (beta s) (avail_in x) (pre ++ produced x ++ pend s) = Done R.
Proof.
  induction fuel as [|fu IH]; intros s x s1 x1 pre R Hi Hok [Hm1 [Hm2 Hm3]] Hav Hrun Haft; [discriminate|].
  cbn [meta_loop] in Hrun.
  unfold inject_flush_or_push_output in Hrun. fold (padcond s) in Hrun.
  rewrite (meta_state_nopad s Hm3) in Hrun.
  destruct (negb (avail_out_ s =? 0) && negb (cap x =? 0)) eqn:Cpush.
  - (* push *)
    destruct (lenN (view s) <? N.min (avail_out_ s) (cap x)); [discriminate|].
    remember (N.min (avail_out_ s) (cap x)) as n eqn:En.
    assert (Hn : n <= avail_out_ s) by (subst n; apply N.le_min_l).
    change (upd_out s (no_incr (next_out s) n) (storage s) (storage_size s) (tiny s) (avail_out_ s - n)
                    (wadd64 (total_out_ s) n)) with (pushk s n) in Hrun.
    assert (Hi' : inv (pushk s n)) by (apply inv_pushk; assumption).
    assert (Hm' : meta_rel payload (pushk s n) (io_push x (takeN n (view s)) (wadd64 (total_out_ s) n))).
    { unfold meta_rel. fs. repeat split; assumption. }
    destruct (IH _ _ _ _ pre R Hi' Hok Hm' Hav Hrun Haft) as [f0 E].
    exists f0. rewrite (beta_pushk s n Hn) in E. fs_in E.
    destruct Hi as [Hc _]. destruct (pushall_pushk s n Hc Hn) as [_ P2].
    rewrite <- app_assoc in E. rewrite P2 in E. exact E.
  - destruct (negb (avail_out_ s =? 0)) eqn:Cao.
    + (* no room and bytes pending: the call returns, nothing logical happened *)
      inversion Hrun; subst s1 x1; clear Hrun.
      apply negb_true_iff in Cao. apply N.eqb_neq in Cao.
      destruct Haft as [[_ [A2 _]]|[_ [f1 E]]]; [contradiction|]. exists f1. exact E.
    + apply negb_false_iff in Cao. apply N.eqb_eq in Cao.
      pose proof (pend_nil s Cao) as Hp0.
      fold (menc s) in Hrun.
      destruct (menc s) eqn:Cm.
      * (* unprocessed input (or a pending magic header) is flushed first *)
        destruct (encode_data s false true) as [[[|] s2]|w|w|] eqn:Eenc; try discriminate.
        destruct (encode_data_inv _ _ _ _ _ Hi Cao Hok Eenc) as [Hi2 [Hok2 [Hst2 _]]].
        pose proof (encode_rem_meta _ _ _ _ _ Eenc) as Hr.
        destruct (encode_beta _ _ _ _ Cao Hok Eenc) as [a2 [Ea2 [Eb2 Ep2]]].
        assert (Hm' : meta_rel payload s2 x) by (unfold meta_rel; rewrite Hr, Hst2; repeat split; assumption).
        destruct (IH _ _ _ _ pre R Hi2 Hok2 Hm' ltac:(rewrite Hr; exact Hav) Hrun Haft) as [f0 E].
        exists (S f0). cbn [ameta]. change (menc (beta s)) with (menc s). rewrite Cm, Ea2.
        rewrite Eb2, Ep2 in E. rewrite Hp0, app_nil_r, <- app_assoc. exact E.
      * destruct (sstate_eqb (sstate_ s) SMetaHead) eqn:Ch.
        -- (* header *)
           pose proof (header_len_le (last_bytes s) (last_bytes_bits s) (rem_meta s)
                         ltac:(destruct Hi as [_ [_ [_ Hl]]]; exact Hl) Hm2) as Hlen.
           set (sh := set_sstate (write_metadata_header s) SMetaBody) in *.
           assert (Hh : inv sh /\ oracle sh = oracle s /\ rem_meta sh = rem_meta s /\ sstate_ sh = SMetaBody).
           { destruct Hi as [Hc [Hp [Ht Hl]]]. unfold sh, write_metadata_header.
             destruct (metadata_header_bits (last_bytes s) (last_bytes_bits s) (rem_meta s)) as [v nb]. cbn [snd] in Hlen.
             split; [|repeat split; reflexivity].
             unfold inv, cursor_ok, pad_ok. fs. rewrite lenN_le_bytes.
             split; [lia|]. split; [intros H; discriminate H|]. split; lia. }
           destruct Hh as [Hih [Hoh [Hrh Hsh]]].
           assert (Hm' : meta_rel payload sh x).
           { unfold meta_rel. rewrite Hrh, Hsh. repeat split; try assumption. right; reflexivity. }
           destruct (IH _ _ _ _ pre R Hih ltac:(rewrite Hoh; exact Hok) Hm' ltac:(rewrite Hrh; exact Hav) Hrun Haft) as [f0 E].
           destruct (header_beta s Cao) as [B1 B2]. fold sh in B1, B2.
           exists (S f0). cbn [ameta]. change (menc (beta s)) with (menc s). rewrite Cm.
           change (sstate_ (beta s)) with (sstate_ s). rewrite Ch.
           rewrite B1, B2 in E. rewrite Hp0, app_nil_r, <- app_assoc. exact E.
        -- destruct (rem_meta s =? 0) eqn:Cr.
           ++ (* the block is complete *)
              inversion Hrun; subst s1 x1; clear Hrun. apply N.eqb_eq in Cr.
              destruct Haft as [[A1 [A2 A3]]|[Hnc _]].
              ** subst R. exists 1%nat. cbn [ameta]. change (menc (beta s)) with (menc s). rewrite Cm.
                 change (sstate_ (beta s)) with (sstate_ s). rewrite Ch.
                 change (rem_meta (beta s)) with (rem_meta s). rewrite Cr. cbn [N.eqb].
                 rewrite Hp0, app_nil_r, A1. reflexivity.
              ** exfalso. apply Hnc. split; [congruence|exact Cao].
           ++ apply N.eqb_neq in Cr.
              assert (Hnf : sstate_ s <> SFlushRequested) by (destruct Hm3 as [H|H]; rewrite H; discriminate).
              assert (H24 : rem_meta s < 2 ^ 32).
              { change (2 ^ 32) with 4294967296. change (2 ^ 24) with 16777216 in Hm2. lia. }
              assert (Hpl : rem_meta s <= lenN (skipN (in_off x) payload)) by (rewrite lenN_skipN; lia).
              destruct (negb (cap x =? 0)) eqn:Ccap.
              ** (* payload straight into the caller's buffer *)
                 apply negb_true_iff in Ccap. apply N.eqb_neq in Ccap.
                 remember (N.min (rem_meta s) (cap x)) as c eqn:Ec.
                 assert (Hcle : c <= rem_meta s) by (subst c; apply N.le_min_l).
                 assert (Hc0 : 0 < c) by (subst c; lia).
                 destruct (N.ltb_spec (lenN (skipN (in_off x) payload)) c) as [Hbad|_]; [lia|].
                 pose proof (pay_direct_beta s c Cao) as PB. cbv zeta in PB. destruct PB as [B1 B2].
                 match type of Hrun with meta_loop fu payload ?s' ?x' = _ =>
                   assert (Hi' : inv s'); [|assert (Hm' : meta_rel payload s' x' /\ avail_in x' = rem_meta s')] end.
                 { destruct Hi as [Hc [Hp [Ht Hl]]]. unfold inv, cursor_ok, pad_ok in *. fs.
                   split; [exact Hc|]. split; [exact Hp|split; assumption]. }
                 { unfold meta_rel. fs. rewrite (wsub32_small (rem_meta s) c) by lia.
                   split; [repeat split; try lia; exact Hm3|lia]. }
                 destruct Hm' as [Hm' Hav'].
                 destruct (IH _ _ _ _ pre R Hi' Hok Hm' Hav' Hrun Haft) as [f0 E].
                 rewrite B1, B2 in E. fs_in E. rewrite app_nil_r in E. rewrite <- skipN_skipN in E.
                 rewrite Hp0, app_nil_r. rewrite app_assoc in E.
                 apply (ameta_pay f0 (skipN (in_off x) payload) (beta s) (avail_in x) (pre ++ produced x) c R); try assumption.
              ** (* payload through the tiny buffer *)
                 remember (N.min (rem_meta s) 16) as c eqn:Ec.
                 assert (Hcle : c <= rem_meta s) by (subst c; apply N.le_min_l).
                 assert (Hc16 : c <= 16) by (subst c; apply N.le_min_r).
                 assert (Hc0 : 0 < c) by (subst c; lia).
                 destruct (N.ltb_spec (lenN (skipN (in_off x) payload)) c) as [Hbad|Hgood]; [lia|].
                 pose proof (pay_tiny_beta s c (takeN c (skipN (in_off x) payload)) Cao (lenN_takeN _ _ Hgood)) as PB.
                 cbv zeta in PB. destruct PB as [B1 B2].
                 match type of Hrun with meta_loop fu payload ?s' ?x' = _ =>
                   assert (Hi' : inv s'); [|assert (Hm' : meta_rel payload s' x' /\ avail_in x' = rem_meta s')] end.
                 { destruct Hi as [Hc [Hp [Ht Hl]]]. unfold inv, cursor_ok, pad_ok in *. fs.
                   destruct (lenN_write_list (takeN c (skipN (in_off x) payload)) (tiny s) 0) as [W1 _].
                   split; [lia|]. split; [|split; [lia|assumption]].
                   intros H1. contradiction. }
                 { unfold meta_rel. fs. rewrite (wsub32_small (rem_meta s) c) by lia.
                   split; [repeat split; try lia; exact Hm3|lia]. }
                 destruct Hm' as [Hm' Hav'].
                 destruct (IH _ _ _ _ pre R Hi' Hok Hm' Hav' Hrun Haft) as [f0 E].
                 rewrite B1, B2 in E. fs_in E. rewrite <- skipN_skipN in E.
                 rewrite Hp0, app_nil_r. rewrite app_assoc in E.
                 apply (ameta_pay f0 (skipN (in_off x) payload) (beta s) (avail_in x) (pre ++ produced x) c R); try assumption.
Qed.

(* ---- update_size_hint at the head of every metadata call is idempotent ---- *)
Definition hint_stable (s : st) : Prop := size_hint s <> 0 \/ unprocessed s = 0.

Lemma ush_id s : hint_stable s -> update_size_hint s 0 = s.
Proof.
  intros H. unfold update_size_hint.
  destruct (N.eqb_spec (size_hint s) 0) as [E0|E0]; [|reflexivity].
  destruct H as [H|H]; [contradiction|]. rewrite H.
  change ((2 ^ 30 <=? 0) || (2 ^ 30 <=? 0) || (2 ^ 30 <=? wadd64 0 0)) with false. cbv iota.
  change (w32 (wadd64 0 0)) with 0.
  destruct s. cbn in E0. subst. reflexivity.
Qed.

Lemma hint_stable_ush s : hint_stable (update_size_hint s 0).
Proof.
  unfold update_size_hint.
  destruct (N.eqb_spec (size_hint s) 0) as [E0|E0]; [|left; exact E0].
  unfold hint_stable, set_hint. fs. change (unprocessed (upd_params s (quality s) (lgwin s) (lgblock s) (large_window s)
      (catable s) (appendable s) _)) with (unprocessed s).
  remember (unprocessed s) as d eqn:Ed.
  assert (Hd : d < 2 ^ 64) by (subst d; unfold unprocessed, wsub64, w64; apply N.mod_lt; discriminate).
  destruct (N.leb_spec (2 ^ 30) d) as [H1|H1]; cbn [orb].
  - left. discriminate.
  - change (2 ^ 30 <=? 0) with false. cbn [orb].
    assert (Hw : wadd64 d 0 = d) by (rewrite wadd64_small; lia).
    rewrite Hw. destruct (N.leb_spec (2 ^ 30) d) as [H2|H2]; [lia|].
    assert (H32 : w32 d = d) by (apply w32_small; change (2 ^ 32) with 4294967296; change (2 ^ 30) with 1073741824 in H1; lia).
    rewrite H32. destruct (N.eq_dec d 0) as [Z|Z]; [right; exact Z|left; exact Z].
Qed.

Lemma wsub64_self p : wsub64 p p = 0.
Proof.
  unfold wsub64, w64.
  pose proof (N.div_mod p (2 ^ 64) ltac:(discriminate)) as D.
  pose proof (N.mod_lt p (2 ^ 64) ltac:(discriminate)) as L.
  replace (p + 2 ^ 64 - p mod 2 ^ 64) with ((p / 2 ^ 64 + 1) * 2 ^ 64) by (remember (p / 2 ^ 64) as q; remember (p mod 2 ^ 64) as r; lia).
  apply N.mod_mul. discriminate.
Qed.

Lemma encode_flush_stable s il s2 : all_ok2 (oracle s) -> hint_stable s ->
  encode_data s il true = Done (true, s2) -> hint_stable s2.
Proof.
  intros Hok HQ H. unfold encode_data in H.
  destruct (oracle s) as [|a rest] eqn:Eo; [discriminate|].
  inversion Hok as [|? ? [Ha _] _]; subst.
  destruct (a_fast a) eqn:Ef; [discriminate|].
  destruct (Bool.eqb (a_is_last a) il); cbn [negb] in H; [|discriminate].
  destruct (Bool.eqb (a_force_flush a) true) eqn:Eff; cbn [negb] in H; [|discriminate].
  apply Bool.eqb_prop in Eff.
  destruct (N.eqb_spec (a_ipos a) (input_pos s)) as [Eip|]; cbn [negb] in H; [|discriminate].
  destruct (a_hint a =? size_hint s); cbn [negb] in H; [|discriminate].
  destruct (last_emitted s); [destruct (a_result a); discriminate|].
  match type of H with (if ?c then _ else _) = _ => destruct c; [destruct (a_result a); discriminate|] end.
  destruct (a_result a); cbn [negb] in H; [|discriminate].
  match type of H with (if ?c then _ else _) = _ => destruct c; [discriminate|] end.
  match type of H with (if ?c then _ else _) = _ => destruct c; [discriminate|] end.
  injection H as H. subst s2.
  right. unfold unprocessed. fs.
  unfold answer_ok in Ha. rewrite Ef, Eff in Ha. rewrite orb_true_r in Ha.
  repeat (apply andb_true_iff in Ha; destruct Ha as [Ha ?]).
  repeat match goal with K : (_ && _)%bool = true |- _ => apply andb_true_iff in K; destruct K end.
  match goal with K : (a_lpp a =? a_ipos a) = true |- _ => apply N.eqb_eq in K; rewrite K, Eip end.
  apply wsub64_self.
Qed.

(* ---- facts about the state a metadata call returns ---- *)
Definition meta_done (s1 : st) (x1 : io) : Prop :=
  avail_out_ s1 = 0 /\ avail_in x1 = 0 /\ sstate_ s1 = SProcessing /\ rem_meta s1 = U32MAX.
Definition meta_mid (payload : list N) (s1 : st) (x1 : io) : Prop :=
  avail_out_ s1 <> 0 /\ meta_rel payload s1 x1 /\ avail_in x1 = rem_meta s1.

Lemma meta_facts payload : forall fuel s x s1 x1,
  inv s -> all_ok2 (oracle s) -> meta_rel payload s x -> avail_in x = rem_meta s -> hint_stable s ->
  meta_loop fuel payload s x = Done (true, s1, x1) ->
  same_cfg s s1 /\ hint_stable s1 /\ in_off x1 + avail_in x1 = in_off x + avail_in x
  /\ (meta_done s1 x1 \/ meta_mid payload s1 x1).
Proof.
  induction fuel as [|fu IH]; intros s x s1 x1 Hi Hok [Hm1 [Hm2 Hm3]] Hav HQ Hrun; [discriminate|].
  cbn [meta_loop] in Hrun.
  unfold inject_flush_or_push_output in Hrun. fold (padcond s) in Hrun.
  rewrite (meta_state_nopad s Hm3) in Hrun.
  destruct (negb (avail_out_ s =? 0) && negb (cap x =? 0)) eqn:Cpush.
  - destruct (lenN (view s) <? N.min (avail_out_ s) (cap x)); [discriminate|].
    remember (N.min (avail_out_ s) (cap x)) as n eqn:En.
    assert (Hn : n <= avail_out_ s) by (subst n; apply N.le_min_l).
    change (upd_out s (no_incr (next_out s) n) (storage s) (storage_size s) (tiny s) (avail_out_ s - n)
                    (wadd64 (total_out_ s) n)) with (pushk s n) in Hrun.
    assert (Hi' : inv (pushk s n)) by (apply inv_pushk; assumption).
    assert (Hm' : meta_rel payload (pushk s n) (io_push x (takeN n (view s)) (wadd64 (total_out_ s) n))).
    { unfold meta_rel. fs. repeat split; assumption. }
    destruct (IH _ _ _ _ Hi' Hok Hm' Hav HQ Hrun) as [F1 [F2 [F3 F4]]].
    split; [|split; [exact F2|split; [exact F3|exact F4]]].
    eapply same_cfg_trans; [|exact F1]. unfold same_cfg, pushk. fs. repeat split; reflexivity.
  - destruct (negb (avail_out_ s =? 0)) eqn:Cao.
    + inversion Hrun; subst s1 x1; clear Hrun.
      apply negb_true_iff in Cao. apply N.eqb_neq in Cao.
      split; [apply same_cfg_refl|]. split; [exact HQ|]. split; [reflexivity|].
      right. split; [exact Cao|]. split; [repeat split; assumption|exact Hav].
    + apply negb_false_iff in Cao. apply N.eqb_eq in Cao.
      fold (menc s) in Hrun.
      destruct (menc s) eqn:Cm.
      * destruct (encode_data s false true) as [[[|] s2]|w|w|] eqn:Eenc; try discriminate.
        destruct (encode_data_inv _ _ _ _ _ Hi Cao Hok Eenc) as [Hi2 [Hok2 [Hst2 _]]].
        pose proof (encode_rem_meta _ _ _ _ _ Eenc) as Hr.
        assert (Hm' : meta_rel payload s2 x) by (unfold meta_rel; rewrite Hr, Hst2; repeat split; assumption).
        destruct (IH _ _ _ _ Hi2 Hok2 Hm' ltac:(rewrite Hr; exact Hav) (encode_flush_stable _ _ _ Hok HQ Eenc) Hrun)
          as [F1 [F2 [F3 F4]]].
        split; [|split; [exact F2|split; [exact F3|exact F4]]].
        eapply same_cfg_trans; [eapply same_cfg_encode; exact Eenc|exact F1].
      * destruct (sstate_eqb (sstate_ s) SMetaHead) eqn:Ch.
        -- pose proof (header_len_le (last_bytes s) (last_bytes_bits s) (rem_meta s)
                         ltac:(destruct Hi as [_ [_ [_ Hl]]]; exact Hl) Hm2) as Hlen.
           set (sh := set_sstate (write_metadata_header s) SMetaBody) in *.
           assert (Hh : inv sh /\ oracle sh = oracle s /\ rem_meta sh = rem_meta s /\ sstate_ sh = SMetaBody
                        /\ same_cfg s sh /\ hint_stable sh).
           { destruct Hi as [Hc [Hp [Ht Hl]]]. unfold sh, write_metadata_header.
             destruct (metadata_header_bits (last_bytes s) (last_bytes_bits s) (rem_meta s)) as [v nb]. cbn [snd] in Hlen.
             split; [|repeat split; try reflexivity; exact HQ].
             unfold inv, cursor_ok, pad_ok. fs. rewrite lenN_le_bytes.
             split; [lia|]. split; [intros H; discriminate H|]. split; lia. }
           destruct Hh as [Hih [Hoh [Hrh [Hsh [Hcf HQh]]]]].
           assert (Hm' : meta_rel payload sh x).
           { unfold meta_rel. rewrite Hrh, Hsh. repeat split; try assumption. right; reflexivity. }
           destruct (IH _ _ _ _ Hih ltac:(rewrite Hoh; exact Hok) Hm' ltac:(rewrite Hrh; exact Hav) HQh Hrun)
             as [F1 [F2 [F3 F4]]].
           split; [|split; [exact F2|split; [exact F3|exact F4]]].
           eapply same_cfg_trans; [exact Hcf|exact F1].
        -- destruct (rem_meta s =? 0) eqn:Cr.
           ++ inversion Hrun; subst s1 x1; clear Hrun. apply N.eqb_eq in Cr.
              split; [unfold same_cfg; fs; repeat split; reflexivity|]. split; [exact HQ|]. split; [reflexivity|].
              left. unfold meta_done. fs. repeat split; try assumption; try reflexivity. congruence.
           ++ apply N.eqb_neq in Cr.
              assert (H24 : rem_meta s < 2 ^ 32).
              { change (2 ^ 32) with 4294967296. change (2 ^ 24) with 16777216 in Hm2. lia. }
              destruct (negb (cap x =? 0)) eqn:Ccap.
              ** remember (N.min (rem_meta s) (cap x)) as c eqn:Ec.
                 assert (Hcle : c <= rem_meta s) by (subst c; apply N.le_min_l).
                 destruct (N.ltb_spec (lenN (skipN (in_off x) payload)) c) as [Hbad|_]; [rewrite lenN_skipN in Hbad; lia|].
                 match type of Hrun with meta_loop fu payload ?s' ?x' = _ =>
                   assert (Hi' : inv s'); [|assert (Hm' : meta_rel payload s' x' /\ avail_in x' = rem_meta s')] end.
                 { destruct Hi as [Hc [Hp [Ht Hl]]]. unfold inv, cursor_ok, pad_ok in *. fs.
                   split; [exact Hc|]. split; [exact Hp|split; assumption]. }
                 { unfold meta_rel. fs. rewrite (wsub32_small (rem_meta s) c) by lia.
                   split; [repeat split; try lia; exact Hm3|lia]. }
                 destruct Hm' as [Hm' Hav'].
                 destruct (IH _ _ _ _ Hi' Hok Hm' Hav' HQ Hrun) as [F1 [F2 [F3 F4]]].
                 split; [|split; [exact F2|split; [fs_in F3; lia|exact F4]]].
                 eapply same_cfg_trans; [|exact F1]. unfold same_cfg. fs. repeat split; reflexivity.
              ** remember (N.min (rem_meta s) 16) as c eqn:Ec.
                 assert (Hcle : c <= rem_meta s) by (subst c; apply N.le_min_l).
                 assert (Hc16 : c <= 16) by (subst c; apply N.le_min_r).
                 destruct (N.ltb_spec (lenN (skipN (in_off x) payload)) c) as [Hbad|Hgood]; [rewrite lenN_skipN in Hbad; lia|].
                 match type of Hrun with meta_loop fu payload ?s' ?x' = _ =>
                   assert (Hi' : inv s'); [|assert (Hm' : meta_rel payload s' x' /\ avail_in x' = rem_meta s')] end.
                 { destruct Hi as [Hc [Hp [Ht Hl]]]. unfold inv, cursor_ok, pad_ok in *. fs.
                   destruct (lenN_write_list (takeN c (skipN (in_off x) payload)) (tiny s) 0) as [W1 _].
                   split; [lia|]. split; [|split; [lia|assumption]].
                   intros H1. destruct Hm3 as [K|K]; rewrite K in H1; discriminate. }
                 { unfold meta_rel. fs. rewrite (wsub32_small (rem_meta s) c) by lia.
                   split; [repeat split; try lia; exact Hm3|lia]. }
                 destruct Hm' as [Hm' Hav'].
                 destruct (IH _ _ _ _ Hi' Hok Hm' Hav' HQ Hrun) as [F1 [F2 [F3 F4]]].
                 split; [|split; [exact F2|split; [fs_in F3; lia|exact F4]]].
                 eapply same_cfg_trans; [|exact F1]. unfold same_cfg. fs. repeat split; reflexivity.
Qed.

(* ---- one API call, any operation, on logical states ---- *)
Definition acallM (f : nat) (a : st) (pl : list N) (ain : N) (out : list N) : outcome (bool * st * N * list N) :=
  if negb (rem_meta a =? U32MAX) && negb (ain =? rem_meta a) then Done (false, a, ain, out)
  else
    let a0 := update_size_hint a 0 in
    if 2 ^ 24 <? ain then Done (false, a0, ain, out)
    else
      let a1 := if sstate_eqb (sstate_ a0) SProcessing then upd_core a0 (initialized a0) SMetaHead (w32 ain) else a0 in
      if negb (sstate_eqb (sstate_ a1) SMetaHead) && negb (sstate_eqb (sstate_ a1) SMetaBody)
      then Done (false, a1, ain, out)
      else ameta f pl a1 ain out.

Definition acall (f : nat) (op : opk) (a : st) (pl : list N) (ain : N) (out : list N) :=
  if opk_eqb op OpMeta then acallM f a pl ain out else astreamL f op a ain out.

Lemma acall_det f1 f2 op a pl ain out R1 R2 :
  acall f1 op a pl ain out = Done R1 -> acall f2 op a pl ain out = Done R2 -> R1 = R2.
Proof.
  unfold acall, acallM. intros H1 H2.
  destruct (opk_eqb op OpMeta).
  - destruct (negb (rem_meta a =? U32MAX) && negb (ain =? rem_meta a)); [congruence|].
    destruct (2 ^ 24 <? ain); [congruence|].
    match type of H1 with (if ?c then _ else _) = _ => destruct c; [congruence|] end.
    pose proof (ameta_mono _ _ _ _ _ _ H1 (Nat.max f1 f2) (Nat.le_max_l _ _)) as A.
    pose proof (ameta_mono _ _ _ _ _ _ H2 (Nat.max f1 f2) (Nat.le_max_r _ _)) as B.
    rewrite A in B. inversion B. reflexivity.
  - pose proof (astreamL_mono _ _ _ _ _ _ H1 (Nat.max f1 f2) (Nat.le_max_l _ _)) as A.
    pose proof (astreamL_mono _ _ _ _ _ _ H2 (Nat.max f1 f2) (Nat.le_max_r _ _)) as B.
    rewrite A in B. inversion B. reflexivity.
Qed.

(* in the middle of a metadata block the call prologue does nothing *)
Lemma acallM_mid f s pl ain out :
  (sstate_ s = SMetaHead \/ sstate_ s = SMetaBody) -> rem_meta s = ain -> ain <= 2 ^ 24 -> hint_stable s ->
  acallM f (beta s) pl ain out = ameta f pl (beta s) ain out.
Proof.
  intros Hst Hr H24 HQ. unfold acallM. change (rem_meta (beta s)) with (rem_meta s).
  rewrite Hr, N.eqb_refl. cbn [negb]. rewrite andb_false_r.
  rewrite <- beta_hint, (ush_id s HQ).
  destruct (N.ltb_spec (2 ^ 24) ain) as [K|_]; [lia|].
  change (sstate_ (beta s)) with (sstate_ s).
  destruct Hst as [K|K]; rewrite K; cbn [sstate_eqb]; cbv iota; change (sstate_ (beta s)) with (sstate_ s); rewrite K; reflexivity.
Qed.

Definition afterG (op : opk) (payload : list N) (s1 : st) (x1 : io) (pre : list N) (R : bool * st * N * list N) : Prop :=
  (avail_in x1 = 0 /\ avail_out_ s1 = 0 /\ R = (true, beta s1, 0, pre ++ produced x1)) \/
  (~ (avail_in x1 = 0 /\ avail_out_ s1 = 0) /\
   exists f1, acall f1 op (beta s1) (skipN (in_off x1) payload) (avail_in x1) (pre ++ produced x1 ++ pend s1) = Done R).

Definition nometa (s : st) : Prop := sstate_ s <> SMetaHead /\ sstate_ s <> SMetaBody.

Lemma encode_sstate s il ff r s2 : encode_data s il ff = Done (r, s2) -> sstate_ s2 = sstate_ s.
Proof.
  unfold encode_data. intros H. destruct (oracle s); [discriminate|].
  repeat match type of H with (if ?c then _ else _) = _ => destruct c; try discriminate end;
    inversion H; reflexivity.
Qed.

Lemma stream_loop_nometa : forall fuel op s x r s1 x1,
  nometa s -> stream_loop fuel op s x = Done (r, s1, x1) -> nometa s1 /\ rem_meta s1 = rem_meta s.
Proof.
  induction fuel as [|f IH]; intros op s x r s1 x1 Hn Hrun; [discriminate|].
  cbn [stream_loop] in Hrun.
  destruct (negb (remaining_input_block_size s =? 0) && negb (avail_in x =? 0)).
  - refine (IH _ _ _ _ _ _ _ Hrun). exact Hn.
  - destruct (inject_flush_or_push_output s x) as [[[s' x']|]| | |] eqn:Einj; try discriminate.
    + destruct (inject_some s x s' x' Einj) as [A _].
      assert (Hr : rem_meta s' = rem_meta s).
      { unfold inject_flush_or_push_output in Einj.
        destruct (sstate_eqb (sstate_ s) SFlushRequested && negb (last_bytes_bits s =? 0)).
        - destruct (inject_byte_padding_block s) as [sp| | |] eqn:Ep; try discriminate. inversion Einj; subst.
          clear - Ep. unfold inject_byte_padding_block, write_at_cursor in Ep. cbn [avail_out_ upd_bits] in Ep.
          destruct (avail_out_ s =? 0); cbn [next_out upd_bits upd_out] in Ep.
          + match type of Ep with context [if ?c then _ else _] => destruct c end; try discriminate.
            inversion Ep; reflexivity.
          + destruct (next_out s) eqn:En; cbn [next_out upd_bits upd_out] in Ep; try rewrite En in Ep;
              match type of Ep with context [if ?c then _ else _] => destruct c end; try discriminate;
              inversion Ep; reflexivity.
        - destruct (negb (avail_out_ s =? 0) && negb (cap x =? 0)); try discriminate.
          destruct (lenN (view s) <? N.min (avail_out_ s) (cap x)); try discriminate.
          inversion Einj; reflexivity. }
      destruct (IH _ _ _ _ _ _ ltac:(unfold nometa; rewrite A; exact Hn) Hrun) as [K1 K2].
      split; [exact K1|congruence].
    + match type of Hrun with (if ?c then _ else _) = _ => destruct c end.
      * destruct (encode_data _ _ _) as [[[|] s2]| | |] eqn:Eenc; try discriminate.
        -- pose proof (encode_sstate _ _ _ _ _ Eenc) as Es. pose proof (encode_rem_meta _ _ _ _ _ Eenc) as Er.
           destruct (update_size_hint_fields s (avail_in x)) as [U1 _].
           assert (Ur : rem_meta (update_size_hint s (avail_in x)) = rem_meta s)
             by (unfold update_size_hint; destruct (size_hint s =? 0); reflexivity).
           match type of Hrun with stream_loop f op ?s4 x = _ =>
             assert (Hn4 : nometa s4 /\ rem_meta s4 = rem_meta s) end.
           { destruct ((avail_in x =? 0) && opk_eqb op OpFlush), ((avail_in x =? 0) && opk_eqb op OpFinish);
               unfold nometa; fs; (split; [|congruence]); try (split; discriminate).
             rewrite Es, U1. exact Hn. }
           destruct Hn4 as [Hn4 Hr4]. destruct (IH _ _ _ _ _ _ Hn4 Hrun) as [K1 K2]. split; [exact K1|congruence].
        -- inversion Hrun; subst. pose proof (encode_sstate _ _ _ _ _ Eenc) as Es. pose proof (encode_rem_meta _ _ _ _ _ Eenc) as Er.
           destruct (update_size_hint_fields s (avail_in x1)) as [U1 _].
           assert (Ur : rem_meta (update_size_hint s (avail_in x1)) = rem_meta s)
             by (unfold update_size_hint; destruct (size_hint s =? 0); reflexivity).
           split; [unfold nometa; rewrite Es, U1; exact Hn|congruence].
      * inversion Hrun; subst. unfold check_flush_complete.
        destruct (sstate_eqb (sstate_ s) SFlushRequested && (avail_out_ s =? 0)); [|split; [exact Hn|reflexivity]].
        split; [split; discriminate|reflexivity].
Qed.

Definition readyM (s : st) : Prop :=
  initialized s = true /\ inv s /\ all_ok2 (oracle s) /\ fastcond s = false /\ meta_ok s.

Lemma pend_hint s a : pend (update_size_hint s a) = pend s.
Proof. unfold update_size_hint. destruct (size_hint s =? 0); reflexivity. Qed.

Lemma call_simG s op payload offered capn s1 x1 pre R :
  readyM s -> (op = OpMeta -> offered <= lenN payload) ->
  compress_stream s op payload offered capn = Done (true, s1, x1) ->
  (readyM s1 /\ in_off x1 + avail_in x1 = offered
   /\ (op = OpMeta -> in_off x1 + avail_in x1 <= lenN payload))
  /\ (afterG op payload s1 x1 pre R -> exists f, acall f op (beta s) payload offered (pre ++ pend s) = Done R).
Proof.
  intros [Hini [Hi [Hok [Hfc Hmo]]]] Hpay Hrun. unfold compress_stream, compress_stream_from in Hrun.
  rewrite (ensure_initialized_id s Hini) in Hrun.
  set (x0 := {| avail_in := offered; in_off := 0; cap := capn; produced := []; total_arg := 0 |}) in *.
  destruct (negb (rem_meta s =? U32MAX) && (negb (offered =? rem_meta s) || negb (opk_eqb op OpMeta))) eqn:Cg; [discriminate|].
  destruct (opk_eqb op OpMeta) eqn:Eop.
  - (* metadata *)
    assert (Hop : op = OpMeta) by (destruct op; try discriminate; reflexivity). subst op.
    specialize (Hpay eq_refl).
    unfold process_metadata in Hrun. cbn [avail_in x0] in Hrun.
    destruct (N.ltb_spec (2 ^ 24) offered) as [Hbig|Hsmall]; [discriminate|].
    assert (H32 : offered < 2 ^ 32).
    { change (2 ^ 32) with 4294967296. change (2 ^ 24) with 16777216 in Hsmall. lia. }
    set (sh := update_size_hint s 0) in *.
    assert (Hih : inv sh) by (apply inv_size_hint; exact Hi).
    destruct (update_size_hint_fields s 0) as [U1 [U2 [U3 [U4 [U5 U6]]]]]. fold sh in U1, U2, U3, U4, U5, U6.
    assert (Ur : rem_meta sh = rem_meta s) by (unfold sh, update_size_hint; destruct (size_hint s =? 0); reflexivity).
    assert (HQh : hint_stable sh) by apply hint_stable_ush.
    assert (Hcfh : same_cfg s sh) by apply same_cfg_hint.
    set (sm := if sstate_eqb (sstate_ sh) SProcessing then upd_core sh (initialized sh) SMetaHead (w32 offered) else sh) in *.
    destruct (negb (sstate_eqb (sstate_ sm) SMetaHead) && negb (sstate_eqb (sstate_ sm) SMetaBody)) eqn:Cm; [discriminate|].
    assert (Hsm : inv sm /\ all_ok2 (oracle sm) /\ meta_rel payload sm x0 /\ avail_in x0 = rem_meta sm
                  /\ hint_stable sm /\ same_cfg s sm /\ pend sm = pend s).
    { unfold sm in *. destruct (sstate_eqb (sstate_ sh) SProcessing) eqn:Ep.
      - split.
        { destruct Hih as [Hc [Hpd [Ht Hl]]]. unfold inv, cursor_ok, pad_ok in *. fs.
          split; [exact Hc|]. split; [intros H; discriminate H|split; assumption]. }
        split; [fs; rewrite U4; exact Hok|].
        split; [unfold meta_rel; fs; unfold x0; fs; rewrite (w32_small offered H32); repeat split; try lia; left; reflexivity|].
        split; [fs; unfold x0; fs; rewrite (w32_small offered H32); reflexivity|].
        split; [exact HQh|]. split; [|unfold sh; apply (pend_hint s 0)].
        eapply same_cfg_trans; [exact Hcfh|]. unfold same_cfg. fs. repeat split; reflexivity.
      - assert (Hst : sstate_ s = SMetaHead \/ sstate_ s = SMetaBody).
        { rewrite U1 in Cm. apply andb_false_iff in Cm.
          destruct Cm as [Cm|Cm]; apply negb_false_iff in Cm; apply sstate_eqb_spec in Cm; auto. }
        pose proof (Hmo Hst) as Hrem.
        assert (Hne : rem_meta s <> U32MAX) by (intros E; rewrite E in Hrem; vm_compute in Hrem; apply Hrem; reflexivity).
        destruct (N.eqb_spec (rem_meta s) U32MAX) as [E|_]; [contradiction|]. cbn [negb andb] in Cg.
        rewrite orb_false_r in Cg. apply negb_false_iff in Cg. apply N.eqb_eq in Cg.
        split; [exact Hih|]. split; [rewrite U4; exact Hok|].
        split; [unfold meta_rel; rewrite Ur, U1; unfold x0; fs; repeat split; try lia; exact Hst|].
        split; [rewrite Ur; exact Cg|]. split; [exact HQh|]. split; [exact Hcfh|unfold sh; apply (pend_hint s 0)]. }
    destruct Hsm as [Him [Hokm [Hrelm [Havm [HQm [Hcfm Hpm]]]]]].
    pose proof (meta_loop_np payload 64 sm x0 Him Hokm Hrelm) as Hnp. rewrite Hrun in Hnp. destruct Hnp as [Hi1 Hok1].
    destruct (meta_facts payload 64 sm x0 s1 x1 Him Hokm Hrelm Havm HQm Hrun) as [Hcf1 [HQ1 [Hcur Hkind]]].
    pose proof (same_cfg_trans _ _ _ Hcfm Hcf1) as Hcfg.
    assert (Hcur' : in_off x1 + avail_in x1 = offered) by (rewrite Hcur; unfold x0; fs; lia).
    split.
    + split; [|split; [exact Hcur'|intros _; lia]].
      destruct Hcfg as [C1 _]. split; [rewrite C1; exact Hini|]. split; [exact Hi1|]. split; [exact Hok1|].
      split; [rewrite (same_cfg_fastcond _ _ (same_cfg_trans _ _ _ Hcfm Hcf1)); exact Hfc|].
      unfold meta_ok. destruct Hkind as [[_ [_ [K _]]]|[_ [[_ [K _]] _]]].
      * intros [H|H]; rewrite K in H; discriminate.
      * intros _. exact K.
    + intros Haft.
      assert (HaftM : afterM payload s1 x1 pre R).
      { destruct Haft as [A|[Hnc [f1 E]]]; [left; exact A|right]. split; [exact Hnc|].
        destruct Hkind as [[K1 [K2 _]]|[K1 [[K2 [K3 K4]] K5]]]; [exfalso; apply Hnc; split; assumption|].
        exists f1. unfold acall in E. cbn [opk_eqb] in E.
        rewrite (acallM_mid f1 s1 _ _ _ K4 (eq_sym K5)) in E; [exact E| |exact HQ1]. rewrite K5. exact K3. }
      destruct (meta_simL payload 64 sm x0 s1 x1 pre R Him Hokm Hrelm Havm Hrun HaftM) as [f E].
      exists f. unfold acall, acallM. cbn [opk_eqb].
      change (rem_meta (beta s)) with (rem_meta s).
      assert (Cg' : negb (rem_meta s =? U32MAX) && negb (offered =? rem_meta s) = false).
      { cbn [negb] in Cg. rewrite orb_false_r in Cg. exact Cg. }
      rewrite Cg'. rewrite <- beta_hint. fold sh.
      destruct (N.ltb_spec (2 ^ 24) offered) as [K|_]; [lia|].
      change (sstate_ (beta sh)) with (sstate_ sh).
      assert (Eb : (if sstate_eqb (sstate_ sh) SProcessing
                    then upd_core (beta sh) (initialized (beta sh)) SMetaHead (w32 offered) else beta sh) = beta sm).
      { unfold sm. destruct (sstate_eqb (sstate_ sh) SProcessing); reflexivity. }
      rewrite Eb. change (sstate_ (beta sm)) with (sstate_ sm). rewrite Cm.
      cbn [in_off x0 avail_in produced app] in E. rewrite Hpm in E. exact E.
  - (* process / flush / finish *)
    destruct (sstate_eqb (sstate_ s) SMetaHead || sstate_eqb (sstate_ s) SMetaBody) eqn:Cmeta; [discriminate|].
    destruct (negb (sstate_eqb (sstate_ s) SProcessing) && negb (offered =? 0)) eqn:Cgd; [discriminate|].
    fold (fastcond s) in Hrun. rewrite Hfc in Hrun.
    assert (Hg : guard_inv s x0).
    { intros Hs. cbn. destruct (sstate_eqb (sstate_ s) SProcessing) eqn:E.
      - apply sstate_eqb_spec in E. contradiction.
      - cbn in Cgd. apply negb_false_iff in Cgd. apply N.eqb_eq; exact Cgd. }
    assert (Hnm : nometa s).
    { apply orb_false_iff in Cmeta. destruct Cmeta as [M1 M2]. split; intros K; rewrite K in *; discriminate. }
    pose proof (stream_loop_np (loop_fuel offered) op s x0 Hi Hok) as Hnp. rewrite Hrun in Hnp. destruct Hnp as [Hi1 Hok1].
    pose proof (same_cfg_stream_loop _ _ _ _ _ _ _ Hrun) as Hcfg.
    destruct (stream_loop_nometa _ _ _ _ _ _ _ Hnm Hrun) as [[N1 N2] _].
    assert (Hk : curs offered capn x0) by (unfold curs; cbn; split; lia).
    destruct (curs_stream_loop offered capn _ _ _ _ _ _ _ Hk Hrun) as [K1 _].
    split.
    + split; [|split; [exact K1|intros K; rewrite K in Eop; discriminate Eop]].
      destruct Hcfg as [C1 _]. split; [rewrite C1; exact Hini|]. split; [exact Hi1|]. split; [exact Hok1|].
      split; [rewrite (same_cfg_fastcond _ _ (same_cfg_stream_loop _ _ _ _ _ _ _ Hrun)); exact Hfc|].
      intros [K|K]; contradiction.
    + intros Haft.
      assert (HaftS : afterS op s1 x1 pre R).
      { destruct Haft as [A|[Hnc [f1 E]]]; [left; exact A|right]. split; [exact Hnc|].
        exists f1. unfold acall in E. rewrite Eop in E. exact E. }
      destruct (stream_simL _ _ _ _ _ _ pre R Hi Hok Hg Hrun HaftS) as [f E].
      exists f. unfold acall. rewrite Eop. cbn [avail_in produced x0 app] in E. exact E.
Qed.

Lemma drive_simG : forall caps s op payload chunk acc out sf,
  readyM s -> (op = OpMeta -> chunk <= lenN payload) ->
  drive_q s op payload chunk caps acc = Some (out, sf) ->
  (readyM sf /\ avail_out_ sf = 0)
  /\ exists f, acall f op (beta s) payload chunk (acc ++ pend s) = Done (true, beta sf, 0, out).
Proof.
  induction caps as [|c rest IH]; intros s op payload chunk acc out sf Hr Hpay Hd; [discriminate|].
  cbn [drive_q] in Hd.
  destruct (compress_stream s op payload chunk c) as [[[[|] s'] x]| | |] eqn:Ecall; try discriminate.
  destruct (call_simG s op payload chunk c s' x acc (true, beta sf, 0, out) Hr Hpay Ecall) as [[Hr' [Hcur Hpl]] Hsim].
  assert (Hleft : chunk - in_off x = avail_in x) by lia.
  rewrite Hleft in Hd.
  destruct ((avail_in x =? 0) && (avail_out_ s' =? 0)) eqn:Cdone.
  - inversion Hd; subst out sf; clear Hd.
    apply andb_true_iff in Cdone. destruct Cdone as [D1 D2]. apply N.eqb_eq in D1, D2.
    split; [split; assumption|].
    apply Hsim. left. repeat split; assumption.
  - assert (Hpay' : op = OpMeta -> avail_in x <= lenN (skipN (in_off x) payload)).
    { intros Hop. specialize (Hpl Hop). rewrite lenN_skipN. lia. }
    destruct (IH _ _ _ _ _ _ _ Hr' Hpay' Hd) as [Hfin [f1 E]].
    split; [exact Hfin|]. apply Hsim. right. split.
    + intros [D1 D2]. rewrite D1, D2 in Cdone. discriminate.
    + exists f1. rewrite <- app_assoc in E. exact E.
Qed.

(* logical equivalence on the main path *)
Definition leqB (s t : st) : Prop := beta s = beta t /\ pend s = pend t.

Lemma leqB_refl s : leqB s s. Proof. split; reflexivity. Qed.

Theorem out_slicing_call_meta s t op payload chunk caps caps' acc out out' s1 t1 :
  readyM s -> readyM t -> leqB s t -> (op = OpMeta -> chunk <= lenN payload) ->
  drive_q s op payload chunk caps acc = Some (out, s1) ->
  drive_q t op payload chunk caps' acc = Some (out', t1) ->
  out = out' /\ leqB s1 t1 /\ readyM s1 /\ readyM t1.
Proof.
  intros Hr Hr' [Ea Ep] Hpay D1 D2.
  destruct (drive_simG _ _ _ _ _ _ _ _ Hr Hpay D1) as [[R1 A1] [f1 E1]].
  destruct (drive_simG _ _ _ _ _ _ _ _ Hr' Hpay D2) as [[R2 A2] [f2 E2]].
  rewrite Ea, Ep in E1.
  pose proof (acall_det _ _ _ _ _ _ _ _ _ E1 E2) as E.
  assert (E3 : beta s1 = beta t1) by congruence.
  assert (E4 : out = out') by congruence.
  split; [exact E4|]. split; [|split; assumption].
  split; [exact E3|]. rewrite (pend_nil _ A1), (pend_nil _ A2). reflexivity.
Qed.

Theorem out_slicing_seq_meta : forall calls s t capss capss' acc out out' s1 t1,
  readyM s -> readyM t -> leqB s t ->
  Forall (fun c => fst (fst c) = OpMeta -> snd (fst c) <= lenN (snd c)) calls ->
  drive_seq s calls capss acc = Some (out, s1) ->
  drive_seq t calls capss' acc = Some (out', t1) ->
  out = out' /\ leqB s1 t1 /\ readyM s1 /\ readyM t1.
Proof.
  induction calls as [|[[op chunk] payload] more IH]; intros s t capss capss' acc out out' s1 t1 Hr Hr' Hleq Hpl D1 D2.
  - cbn [drive_seq] in D1, D2. inversion D1; inversion D2; subst. split; [reflexivity|split; [exact Hleq|split; assumption]].
  - cbn [drive_seq] in D1, D2.
    destruct capss as [|caps capss]; [discriminate|]. destruct capss' as [|caps' capss']; [discriminate|].
    destruct (drive_q s op payload chunk caps acc) as [[a1 u1]|] eqn:E1; [|discriminate].
    destruct (drive_q t op payload chunk caps' acc) as [[a2 u2]|] eqn:E2; [|discriminate].
    inversion Hpl as [|? ? Hp Hrest]; subst. cbn [fst snd] in Hp.
    destruct (out_slicing_call_meta _ _ _ _ _ _ _ _ _ _ _ _ Hr Hr' Hleq Hp E1 E2) as [Ea [Hleq1 [R1 R2]]]. subst a2.
    exact (IH _ _ _ _ _ _ _ _ _ R1 R2 Hleq1 Hrest D1 D2).
Qed.

Lemma leqB_fields s t : leqB s t ->
  quality s = quality t /\ lgwin s = lgwin t /\ lgblock s = lgblock t /\ size_hint s = size_hint t
  /\ sstate_ s = sstate_ t /\ rem_meta s = rem_meta t
  /\ input_pos s = input_pos t /\ last_flush_pos s = last_flush_pos t /\ last_processed_pos s = last_processed_pos t
  /\ last_bytes s = last_bytes t /\ last_bytes_bits s = last_bytes_bits t
  /\ last_emitted s = last_emitted t /\ first_pending s = first_pending t
  /\ storage_size s = storage_size t
  /\ wadd64 (total_out_ s) (avail_out_ s) = wadd64 (total_out_ t) (avail_out_ t)
  /\ map erase_no (oracle s) = map erase_no (oracle t)
  /\ pend s = pend t.
Proof.
  intros [E P].
  repeat match goal with |- _ /\ _ => split end; try exact P;
    match goal with |- ?f s = ?f t => change (f (beta s) = f (beta t)); rewrite E; reflexivity | _ => idtac end.
  - change (total_out_ (beta s) = total_out_ (beta t)). rewrite E. reflexivity.
  - change (oracle (beta s) = oracle (beta t)). rewrite E. reflexivity.
Qed.

(* ---- the two paths under one statement ---- *)
Definition leqU (s t : st) : Prop := if fastcond s then leq s t else leqB s t.

Definition slicing_pre (s : st) : Prop := initialized s = true /\ inv s /\ all_ok2 (oracle s) /\ meta_ok s.

Theorem out_slicing_partial : forall calls s t capss capss' acc out out' s1 t1,
  slicing_pre s -> slicing_pre t -> leqU s t ->
  Forall (fun c => fst (fst c) = OpMeta -> snd (fst c) <= lenN (snd c)) calls ->
  (fastcond s = false \/ Forall (fun c => fst (fst c) <> OpMeta) calls) ->
  drive_seq s calls capss acc = Some (out, s1) ->
  drive_seq t calls capss' acc = Some (out', t1) ->
  out = out' /\ leqU s1 t1.
Proof.
  intros calls s t capss capss' acc out out' s1 t1 [Hini [Hi [Hok Hmo]]] [Hini' [Hi' [Hok' Hmo']]] Hleq Hpl Hcase D1 D2.
  unfold leqU in Hleq. destruct (fastcond s) eqn:Hfc.
  - destruct Hcase as [K|Hnm]; [discriminate|].
    destruct (out_slicing_seq_fast _ _ _ _ _ _ _ _ _ _ Hini Hi Hok Hfc Hini' Hi' Hok' Hleq Hnm D1 D2) as [E [L F]].
    split; [exact E|]. unfold leqU. rewrite F. exact L.
  - assert (Hfc' : fastcond t = false).
    { destruct Hleq as [Eb _]. unfold fastcond in *. change (quality t) with (quality (beta t)).
      change (catable t) with (catable (beta t)). change (magic t) with (magic (beta t)). rewrite <- Eb. exact Hfc. }
    assert (Hr : readyM s) by (split; [|split; [|split; [|split]]]; assumption).
    assert (Hr' : readyM t) by (split; [|split; [|split; [|split]]]; assumption).
    destruct (out_slicing_seq_meta _ _ _ _ _ _ _ _ _ _ Hr Hr' Hleq Hpl D1 D2) as [E [L [[_ [_ [_ [F _]]]] _]]].
    split; [exact E|]. unfold leqU. rewrite F. exact L.
Qed.
