(* C05: output-slicing independence of the stream glue (model/Stream.v), main path
   (stream_loop: quality >= 2, or catable, or magic header).

   Method.  [astream] is the same loop as [stream_loop] run with an unbounded output buffer:
   whenever bytes are pending and no padding is due it hands out ALL of them.  A call with a
   finite capacity performs exactly the same steps as [astream] until it has to cut a push
   short; it then returns, and [astream] restarted from the returned state (same operation,
   unconsumed input) reaches the same result as [astream] from the state before the call
   (absorption).  A call that returns with all input consumed and nothing pending IS an
   [astream] run (completion).  So every capacity schedule that drives a logical call to
   quiescence computes the [astream] result, which does not mention capacities. *)
From Coq Require Import NArith ZArith List Bool Lia.
From V Require Import lib.Words model.Stream proofs.Stream_proofs proofs.Dist_proofs proofs.NoPanic_proofs.
Import ListNotations.
Open Scope N_scope.

(* ---- pushing k of the pending bytes; the pending bytes ---- *)
Definition pushk (s : st) (k : N) : st :=
  upd_out s (no_incr (next_out s) k) (storage s) (storage_size s) (tiny s) (avail_out_ s - k)
          (wadd64 (total_out_ s) k).
Definition pushall (s : st) : st := pushk s (avail_out_ s).
Definition pend (s : st) : list N := takeN (avail_out_ s) (view s).

Lemma firstn_split_add : forall (l : list N) a b, firstn (a + b) l = firstn a l ++ firstn b (skipn a l).
Proof.
  intros l a. revert l. induction a as [|a IH]; intros l b; [reflexivity|].
  destruct l as [|h t]; cbn [Nat.add firstn skipn app].
  - destruct b; reflexivity.
  - rewrite IH. reflexivity.
Qed.

Lemma takeN_split (l : list N) k n : k <= n -> takeN n l = takeN k l ++ takeN (n - k) (skipN k l).
Proof.
  intros H. unfold takeN, skipN. rewrite <- firstn_split_add. f_equal. lia.
Qed.

Lemma skipN_nil k : skipN k (@nil N) = [].
Proof. unfold skipN. destruct (N.to_nat k); reflexivity. Qed.

Lemma wadd64_wadd64 t a b : wadd64 (wadd64 t a) b = wadd64 t (a + b).
Proof. unfold wadd64. rewrite w64_w64_add. f_equal. lia. Qed.

Lemma view_pushk s k : cursor_ok s -> k <= avail_out_ s -> view (pushk s k) = skipN k (view s).
Proof.
  unfold cursor_ok, view, pushk. intros Hc Hk. fs.
  destruct (next_out s) as [|off|off]; cbn [no_incr].
  - symmetry. apply skipN_nil.
  - rewrite (w32_small (off + k)) by lia. symmetry. apply skipN_skipN.
  - rewrite (w32_small (off + k)) by lia. symmetry. apply skipN_skipN.
Qed.

Lemma no_incr_no_incr no a b :
  (forall off, no = NoDyn off \/ no = NoTiny off -> off + a < 2 ^ 32) ->
  no_incr (no_incr no a) b = no_incr no (a + b).
Proof.
  intros H. destruct no as [|off|off]; cbn [no_incr]; [reflexivity| |];
    rewrite (w32_small (off + a)) by (apply H; auto); f_equal; f_equal; lia.
Qed.

Lemma pushall_pushk s k : cursor_ok s -> k <= avail_out_ s ->
  pushall (pushk s k) = pushall s /\ takeN k (view s) ++ pend (pushk s k) = pend s.
Proof.
  intros Hc Hk. split.
  - unfold pushall, pushk. fs. rewrite no_incr_no_incr, wadd64_wadd64.
    + replace (k + (avail_out_ s - k)) with (avail_out_ s) by lia.
      rewrite !N.sub_diag. reflexivity.
    + unfold cursor_ok in Hc. intros off [E|E]; rewrite E in Hc; lia.
  - unfold pend. rewrite (view_pushk s k Hc Hk). unfold pushk at 1. fs.
    symmetry. apply takeN_split. exact Hk.
Qed.

(* ---- the loop with an unbounded output buffer ---- *)
Definition padcond (s : st) : bool := sstate_eqb (sstate_ s) SFlushRequested && negb (last_bytes_bits s =? 0).

Fixpoint astream (fuel : nat) (op : opk) (s : st) (ain : N) (out : list N)
  : outcome (bool * st * N * list N) :=
  match fuel with
  | O => OutOfFuel
  | S f =>
    let rem := remaining_input_block_size s in
    if negb (rem =? 0) && negb (ain =? 0) then
      let c := N.min rem ain in
      astream f op (upd_pos s (wadd64 (input_pos s) c) (last_flush_pos s) (last_processed_pos s)) (ain - c) out
    else if padcond s then
      match inject_byte_padding_block s with
      | Done s' => astream f op s' ain out
      | Panic w => Panic w | Mismatch w => Mismatch w | OutOfFuel => OutOfFuel
      end
    else if negb (avail_out_ s =? 0) then astream f op (pushall s) ain (out ++ pend s)
    else if sstate_eqb (sstate_ s) SProcessing && ((rem =? 0) || negb (opk_eqb op OpProcess)) then
      let is_last := (ain =? 0) && opk_eqb op OpFinish in
      let force_flush := (ain =? 0) && opk_eqb op OpFlush in
      match encode_data (update_size_hint s ain) is_last force_flush with
      | Panic w => Panic w | Mismatch w => Mismatch w | OutOfFuel => OutOfFuel
      | Done (false, s2) => Done (false, s2, ain, out)
      | Done (true, s2) =>
        let s3 := if force_flush then set_sstate s2 SFlushRequested else s2 in
        let s4 := if is_last then set_sstate s3 SFinished else s3 in
        astream f op s4 ain out
      end
    else Done (true, check_flush_complete s, ain, out)
  end.

Lemma astream_mono : forall f op s ain out R, astream f op s ain out = Done R ->
  forall f', (f <= f')%nat -> astream f' op s ain out = Done R.
Proof.
  induction f as [|f IH]; intros op s ain out R H f' Hle; [discriminate|].
  destruct f' as [|f']; [lia|]. assert (Hle' : (f <= f')%nat) by lia.
  cbn [astream] in *.
  destruct (negb (remaining_input_block_size s =? 0) && negb (ain =? 0)); [eapply IH; eassumption|].
  destruct (padcond s).
  - destruct (inject_byte_padding_block s); try discriminate. eapply IH; eassumption.
  - destruct (negb (avail_out_ s =? 0)); [eapply IH; eassumption|].
    destruct (sstate_eqb (sstate_ s) SProcessing && ((remaining_input_block_size s =? 0) || negb (opk_eqb op OpProcess))); [|exact H].
    destruct (encode_data _ _ _) as [[[|] s2]| | |]; try discriminate; [eapply IH; eassumption|exact H].
Qed.

Lemma astream_det f1 f2 op s ain out R1 R2 :
  astream f1 op s ain out = Done R1 -> astream f2 op s ain out = Done R2 -> R1 = R2.
Proof.
  intros H1 H2.
  pose proof (astream_mono _ _ _ _ _ _ H1 (Nat.max f1 f2) (Nat.le_max_l _ _)) as A.
  pose proof (astream_mono _ _ _ _ _ _ H2 (Nat.max f1 f2) (Nat.le_max_r _ _)) as B.
  rewrite A in B. inversion B. reflexivity.
Qed.

(* ---- invariant facts for the individual steps ---- *)
Lemma inv_pushk s k : inv s -> k <= avail_out_ s -> inv (pushk s k).
Proof.
  intros [Hc [Hp [Ht Hl]]] Hn. unfold inv, cursor_ok, pad_ok, pushk in *. fs.
  destruct (next_out s) as [|off|off] eqn:Eno; cbn [no_incr].
  - split; [lia|]. split; [|split; assumption]. intros H1 H2 H3. destruct (Hp H1 H2 ltac:(lia)) as [o [Eo _]]. discriminate.
  - destruct Hc as [Hc1 Hc2].
    rewrite (w32_small (off + k)) by lia. split; [split; lia|]. split; [|split; assumption].
    intros H1 H2 H3. destruct (Hp H1 H2 ltac:(lia)) as [o [Eo [R1 R2]]]. inversion Eo; subst o.
    exists (off + k). split; [reflexivity|]. split; lia.
  - rewrite (w32_small (off + k)) by lia. split; [lia|]. split; [|split; assumption].
    intros H1 H2 H3. destruct (Hp H1 H2 ltac:(lia)) as [o [Eo _]]. discriminate.
Qed.

Lemma padcond_true s : padcond s = true -> sstate_ s = SFlushRequested /\ last_bytes_bits s <> 0.
Proof.
  unfold padcond. intros C. apply andb_true_iff in C. destruct C as [C1 C2]. apply sstate_eqb_spec in C1.
  apply negb_true_iff in C2. apply N.eqb_neq in C2. split; assumption.
Qed.

Lemma cfc_id s : avail_out_ s <> 0 \/ sstate_ s <> SFlushRequested -> check_flush_complete s = s.
Proof.
  intros H. unfold check_flush_complete.
  destruct (sstate_eqb (sstate_ s) SFlushRequested && (avail_out_ s =? 0)) eqn:C; [|reflexivity].
  apply andb_true_iff in C. destruct C as [C1 C2]. apply sstate_eqb_spec in C1. apply N.eqb_eq in C2.
  destruct H as [H|H]; contradiction.
Qed.

Lemma cfc_avail s : avail_out_ (check_flush_complete s) = avail_out_ s.
Proof. unfold check_flush_complete. destruct (sstate_eqb (sstate_ s) SFlushRequested && (avail_out_ s =? 0)); reflexivity. Qed.

(* a call that has run out of room with bytes still pending returns at once *)
Lemma stream_stuck f op s x :
  negb (remaining_input_block_size s =? 0) && negb (avail_in x =? 0) = false ->
  padcond s = false -> cap x = 0 -> avail_out_ s <> 0 ->
  stream_loop (S f) op s x = Done (true, s, x).
Proof.
  intros Cc Cp Hcap Hao. cbn [stream_loop]. rewrite Cc. unfold inject_flush_or_push_output.
  fold (padcond s). rewrite Cp, Hcap. cbn [N.eqb negb]. rewrite andb_false_r.
  destruct (N.eqb_spec (avail_out_ s) 0) as [E|_]; [contradiction|]. cbn [andb].
  rewrite cfc_id by (left; exact Hao). reflexivity.
Qed.

(* what the caller knows after a call that returned (s1, x1): either the logical call is
   complete, or restarting the unbounded loop from s1 with the unconsumed input yields R *)
Definition after (op : opk) (s1 : st) (x1 : io) (pre : list N) (R : bool * st * N * list N) : Prop :=
  (avail_in x1 = 0 /\ avail_out_ s1 = 0 /\ R = (true, s1, 0, pre ++ produced x1)) \/
  (~ (avail_in x1 = 0 /\ avail_out_ s1 = 0) /\
   exists f1, astream f1 op s1 (avail_in x1) (pre ++ produced x1) = Done R).

Lemma stream_sim : forall fuel op s x s1 x1 pre R,
  inv s -> all_ok2 (oracle s) -> guard_inv s x ->
  stream_loop fuel op s x = Done (true, s1, x1) ->
  after op s1 x1 pre R ->
  exists f, astream f op s (avail_in x) (pre ++ produced x) = Done R.
Proof.
  induction fuel as [|fu IH]; intros op s x s1 x1 pre R Hi Hok Hg Hrun Haft; [discriminate|].
  pose proof Hrun as Hrun0.
  cbn [stream_loop] in Hrun.
  destruct (negb (remaining_input_block_size s =? 0) && negb (avail_in x =? 0)) eqn:Ccopy.
  - (* copy input *)
    assert (Hg' : guard_inv (upd_pos s (wadd64 (input_pos s) (N.min (remaining_input_block_size s) (avail_in x)))
                                    (last_flush_pos s) (last_processed_pos s))
                            (io_consume x (N.min (remaining_input_block_size s) (avail_in x)))).
    { intros Hs. fs_in Hs. specialize (Hg Hs).
      apply andb_true_iff in Ccopy. destruct Ccopy as [_ C]. apply negb_true_iff in C. apply N.eqb_neq in C. contradiction. }
    destruct (IH _ _ _ _ _ pre R (inv_upd_pos s _ _ _ Hi) Hok Hg' Hrun Haft) as [f0 E].
    exists (S f0). cbn [astream]. rewrite Ccopy. exact E.
  - unfold inject_flush_or_push_output in Hrun. fold (padcond s) in Hrun.
    destruct (padcond s) eqn:Cpad.
    + (* padding *)
      destruct (padcond_true s Cpad) as [Hfl Hlb].
      destruct (padding_inv s Hi Hfl Hlb) as [s' [Ep [Hi' Hst']]]. rewrite Ep in Hrun.
      destruct (outcome_inv_padding s s' Ep) as [_ [_ [_ [Ho _]]]].
      assert (Hg' : guard_inv s' x) by (intros Hs; rewrite Hst' in Hs; exact (Hg Hs)).
      destruct (IH _ _ _ _ _ pre R Hi' ltac:(rewrite Ho; exact Hok) Hg' Hrun Haft) as [f0 E].
      exists (S f0). cbn [astream]. rewrite Ccopy, Cpad, Ep. exact E.
    + destruct (negb (avail_out_ s =? 0) && negb (cap x =? 0)) eqn:Cpush.
      * (* push *)
        apply andb_true_iff in Cpush. destruct Cpush as [Cp1 Cp2].
        pose proof Cp1 as Cp1b. apply negb_true_iff in Cp1. apply N.eqb_neq in Cp1.
        apply negb_true_iff in Cp2. apply N.eqb_neq in Cp2.
        destruct (lenN (view s) <? N.min (avail_out_ s) (cap x)); [discriminate|].
        remember (N.min (avail_out_ s) (cap x)) as n eqn:En.
        assert (Hn : n <= avail_out_ s) by (subst n; apply N.le_min_l).
        change (upd_out s (no_incr (next_out s) n) (storage s) (storage_size s) (tiny s) (avail_out_ s - n)
                        (wadd64 (total_out_ s) n)) with (pushk s n) in Hrun.
        assert (Hi' : inv (pushk s n)) by (apply inv_pushk; assumption).
        assert (Hg' : guard_inv (pushk s n) (io_push x (takeN n (view s)) (wadd64 (total_out_ s) n))).
        { intros Hs. exact (Hg Hs). }
        destruct (N.eq_dec n (avail_out_ s)) as [Eall|Epart].
        -- (* everything pending fits *)
           destruct (IH _ _ _ _ _ pre R Hi' Hok Hg' Hrun Haft) as [f0 E].
           exists (S f0). cbn [astream]. rewrite Ccopy, Cpad, Cp1b.
           fs_in E. rewrite app_assoc in E. unfold pushall, pend. rewrite <- Eall. exact E.
        -- (* the push is cut short: the call returns here *)
           assert (Hcap0 : cap (io_push x (takeN n (view s)) (wadd64 (total_out_ s) n)) = 0).
           { fs. assert (lenN (takeN n (view s)) = n).
             { apply lenN_takeN. destruct Hi as [Hc [_ [Ht _]]]. pose proof (view_enough s Hc Ht). lia. }
             lia. }
           assert (Hao' : avail_out_ (pushk s n) <> 0) by (unfold pushk; fs; lia).
           destruct fu as [|fu']; [discriminate|].
           rewrite (stream_stuck fu' op (pushk s n) (io_push x (takeN n (view s)) (wadd64 (total_out_ s) n)) Ccopy Cpad Hcap0 Hao') in Hrun.
           inversion Hrun; subst s1 x1; clear Hrun.
           destruct Haft as [[_ [K _]]|[_ [f1 E]]]; [contradiction|].
           destruct f1 as [|f1]; [discriminate|]. cbn [astream] in E.
           change (remaining_input_block_size (pushk s n)) with (remaining_input_block_size s) in E.
           change (padcond (pushk s n)) with (padcond s) in E.
           fs_in E. rewrite Ccopy, Cpad in E.
           destruct (N.eqb_spec (avail_out_ (pushk s n)) 0) as [K|_]; [contradiction|]. cbn [negb] in E.
           destruct Hi as [Hc _].
           destruct (pushall_pushk s n Hc Hn) as [P1 P2].
           rewrite P1 in E. rewrite app_assoc in E. rewrite <- (app_assoc (pre ++ produced x)) in E. rewrite P2 in E.
           exists (S f1). cbn [astream]. rewrite Ccopy, Cpad, Cp1b. exact E.
      * (* nothing to push (or no room) *)
        destruct ((avail_out_ s =? 0) && sstate_eqb (sstate_ s) SProcessing
                  && ((remaining_input_block_size s =? 0) || negb (opk_eqb op OpProcess))) eqn:Cenc.
        -- (* the back end runs *)
           apply andb_true_iff in Cenc. destruct Cenc as [Cenc Crem]. apply andb_true_iff in Cenc. destruct Cenc as [Cao Cst].
           pose proof Cao as Cao'. apply N.eqb_eq in Cao. pose proof Cst as Cst'. apply sstate_eqb_spec in Cst.
           destruct (update_size_hint_oracle s (avail_in x)) as [U1 U2].
           destruct (update_size_hint_fields s (avail_in x)) as [V1 _].
           destruct (encode_data (update_size_hint s (avail_in x)) ((avail_in x =? 0) && opk_eqb op OpFinish)
                                 ((avail_in x =? 0) && opk_eqb op OpFlush)) as [[[|] s2]|w|w|] eqn:Eenc; try discriminate.
           destruct (encode_data_inv _ _ _ _ _ (inv_size_hint s _ Hi) ltac:(rewrite U2; exact Cao) ltac:(rewrite U1; exact Hok) Eenc)
             as [Hi2 [Hok2 [Hst2 Hroom]]].
           match type of Hrun with stream_loop fu op ?s4 x = _ =>
             assert (Hi4 : inv s4); [|assert (Hok4 : all_ok2 (oracle s4)); [|assert (Hg4 : guard_inv s4 x)]] end.
           { assert (Hi3 : inv (if (avail_in x =? 0) && opk_eqb op OpFlush then set_sstate s2 SFlushRequested else s2)).
             { destruct ((avail_in x =? 0) && opk_eqb op OpFlush); [|exact Hi2].
               apply inv_set_sstate; [exact Hi2|]. intros _ _ Hne. destruct (Hroom eq_refl Hne) as [R1 [R2 R3]].
               exists 0. split; [exact R1|]. split; lia. }
             destruct ((avail_in x =? 0) && opk_eqb op OpFinish); [|exact Hi3].
             apply inv_set_sstate; [exact Hi3|]. intros H; discriminate H. }
           { destruct ((avail_in x =? 0) && opk_eqb op OpFlush), ((avail_in x =? 0) && opk_eqb op OpFinish); exact Hok2. }
           { intros Hs.
             destruct ((avail_in x =? 0) && opk_eqb op OpFlush) eqn:Cf; destruct ((avail_in x =? 0) && opk_eqb op OpFinish) eqn:Cl;
               try (apply andb_true_iff in Cf; destruct Cf as [Cf _]; apply N.eqb_eq; exact Cf);
               try (apply andb_true_iff in Cl; destruct Cl as [Cl _]; apply N.eqb_eq; exact Cl).
             exfalso. apply Hs. rewrite Hst2, V1. exact Cst. }
           destruct (IH _ _ _ _ _ pre R Hi4 Hok4 Hg4 Hrun Haft) as [f0 E].
           exists (S f0). cbn [astream]. rewrite Ccopy, Cpad, Cao', Cst', Crem. cbn [negb andb].
           rewrite Eenc. exact E.
        -- (* the call returns *)
           inversion Hrun; subst s1 x1; clear Hrun.
           destruct Haft as [[A1 [A2 A3]]|[Hnc [f1 E]]].
           ++ rewrite cfc_avail in A2. subst R.
              exists 1%nat. cbn [astream]. rewrite Ccopy, Cpad, A2. cbn [N.eqb negb].
              rewrite A2 in Cenc. cbn [N.eqb andb] in Cenc. rewrite Cenc. rewrite A1. reflexivity.
           ++ rewrite cfc_avail in Hnc.
              assert (Eid : check_flush_complete s = s).
              { apply cfc_id. destruct (N.eq_dec (avail_out_ s) 0) as [E0|E0]; [right|left; exact E0].
                intros Hfl. apply Hnc. split; [|exact E0]. apply Hg. rewrite Hfl. discriminate. }
              rewrite Eid in E. exists f1. exact E.
Qed.

(* ---- configuration fields are not touched by the loop ---- *)
Definition fastcond (s : st) : bool :=
  ((quality s =? 0) || (quality s =? 1))%Z && negb (catable s) && negb (magic s).
Definition same_cfg (s s' : st) : Prop :=
  initialized s' = initialized s /\ quality s' = quality s /\ catable s' = catable s /\ magic s' = magic s
  /\ lgwin s' = lgwin s /\ lgblock s' = lgblock s.

Lemma same_cfg_refl s : same_cfg s s. Proof. unfold same_cfg. repeat split; reflexivity. Qed.
Lemma same_cfg_trans a b c : same_cfg a b -> same_cfg b c -> same_cfg a c.
Proof. unfold same_cfg. intros [A1 [A2 [A3 [A4 [A5 A6]]]]] [B1 [B2 [B3 [B4 [B5 B6]]]]]. repeat split; congruence. Qed.

Lemma same_cfg_padding s s' : inject_byte_padding_block s = Done s' -> same_cfg s s'.
Proof.
  unfold inject_byte_padding_block, write_at_cursor. intros H.
  cbn [avail_out_ upd_bits] in H.
  destruct (avail_out_ s =? 0); cbn [next_out upd_bits upd_out] in H.
  - match type of H with context [if ?c then _ else _] => destruct c end; try discriminate.
    inversion H; subst s'; clear H. unfold same_cfg. fs. repeat split; reflexivity.
  - destruct (next_out s) eqn:En; cbn [next_out upd_bits upd_out] in H; try rewrite En in H;
      match type of H with context [if ?c then _ else _] => destruct c end; try discriminate;
      inversion H; subst s'; clear H; unfold same_cfg; fs; repeat split; reflexivity.
Qed.

Lemma same_cfg_inject s x s' x' : inject_flush_or_push_output s x = Done (Some (s', x')) -> same_cfg s s'.
Proof.
  unfold inject_flush_or_push_output. intros H.
  destruct (sstate_eqb (sstate_ s) SFlushRequested && negb (last_bytes_bits s =? 0)).
  - destruct (inject_byte_padding_block s) as [s1| | |] eqn:E; try discriminate.
    inversion H; subst s1 x'. eapply same_cfg_padding; exact E.
  - destruct (negb (avail_out_ s =? 0) && negb (cap x =? 0)); try discriminate.
    destruct (lenN (view s) <? N.min (avail_out_ s) (cap x)); try discriminate.
    inversion H; subst s' x'. unfold same_cfg. fs. repeat split; reflexivity.
Qed.

Lemma same_cfg_encode s il ff r s2 : encode_data s il ff = Done (r, s2) -> same_cfg s s2.
Proof.
  unfold encode_data. intros H. destruct (oracle s) as [|a rest]; [discriminate|].
  repeat match type of H with
  | (if ?c then _ else _) = _ => destruct c; try discriminate
  end; inversion H; subst; unfold same_cfg; fs; repeat split; reflexivity.
Qed.

Lemma same_cfg_hint s a : same_cfg s (update_size_hint s a).
Proof. unfold update_size_hint. destruct (size_hint s =? 0); unfold same_cfg, set_hint; fs; repeat split; reflexivity. Qed.

Lemma same_cfg_cfc s : same_cfg s (check_flush_complete s).
Proof.
  unfold check_flush_complete. destruct (sstate_eqb (sstate_ s) SFlushRequested && (avail_out_ s =? 0));
    unfold same_cfg; fs; repeat split; reflexivity.
Qed.

Lemma same_cfg_stream_loop : forall fuel op s x r s' x',
  stream_loop fuel op s x = Done (r, s', x') -> same_cfg s s'.
Proof.
  induction fuel as [|f IH]; intros op s x r s' x' Hrun; [discriminate|].
  cbn [stream_loop] in Hrun.
  destruct (negb (remaining_input_block_size s =? 0) && negb (avail_in x =? 0)).
  - eapply same_cfg_trans; [|eapply IH; exact Hrun]. unfold same_cfg. fs. repeat split; reflexivity.
  - destruct (inject_flush_or_push_output s x) as [[[s1 x1]|]| | |] eqn:Einj; try discriminate.
    + eapply same_cfg_trans; [eapply same_cfg_inject; exact Einj|eapply IH; exact Hrun].
    + match type of Hrun with (if ?c then _ else _) = _ => destruct c end.
      * destruct (encode_data _ _ _) as [[[|] s2]| | |] eqn:Eenc; try discriminate.
        -- eapply same_cfg_trans; [apply (same_cfg_hint s (avail_in x))|].
           eapply same_cfg_trans; [eapply same_cfg_encode; exact Eenc|].
           eapply same_cfg_trans; [|eapply IH; exact Hrun].
           destruct ((avail_in x =? 0) && opk_eqb op OpFlush), ((avail_in x =? 0) && opk_eqb op OpFinish);
             unfold same_cfg; fs; repeat split; reflexivity.
        -- inversion Hrun; subst.
           eapply same_cfg_trans; [eapply same_cfg_hint|eapply same_cfg_encode; exact Eenc].
      * inversion Hrun; subst. apply same_cfg_cfc.
Qed.

Lemma same_cfg_fastcond s s' : same_cfg s s' -> fastcond s' = fastcond s.
Proof. intros [_ [A [B [C _]]]]. unfold fastcond. rewrite A, B, C. reflexivity. Qed.

(* ---- one API call on the main path ---- *)
Definition ready (s : st) : Prop :=
  initialized s = true /\ inv s /\ all_ok2 (oracle s).

Lemma call_sim s op payload offered capn s1 x1 pre R :
  ready s -> fastcond s = false -> op <> OpMeta ->
  compress_stream s op payload offered capn = Done (true, s1, x1) ->
  (ready s1 /\ fastcond s1 = false /\ in_off x1 + avail_in x1 = offered)
  /\ (after op s1 x1 pre R -> exists f, astream f op s offered pre = Done R).
Proof.
  intros [Hini [Hi Hok]] Hfc Hop Hrun. unfold compress_stream, compress_stream_from in Hrun.
  rewrite (ensure_initialized_id s Hini) in Hrun.
  set (x0 := {| avail_in := offered; in_off := 0; cap := capn; produced := []; total_arg := 0 |}) in *.
  match type of Hrun with (if ?c then _ else _) = _ => destruct c end; [discriminate|].
  assert (Eop : opk_eqb op OpMeta = false) by (destruct op; try reflexivity; contradiction Hop; reflexivity).
  rewrite Eop in Hrun.
  match type of Hrun with (if ?c then _ else _) = _ => destruct c end; [discriminate|].
  destruct (negb (sstate_eqb (sstate_ s) SProcessing) && negb (offered =? 0)) eqn:Cg; [discriminate|].
  fold (fastcond s) in Hrun. rewrite Hfc in Hrun.
  assert (Hg : guard_inv s x0).
  { intros Hs. cbn. destruct (sstate_eqb (sstate_ s) SProcessing) eqn:E.
    - apply sstate_eqb_spec in E. contradiction.
    - cbn in Cg. apply negb_false_iff in Cg. apply N.eqb_eq; exact Cg. }
  pose proof (stream_loop_np (loop_fuel offered) op s x0 Hi Hok) as Hnp. rewrite Hrun in Hnp. destruct Hnp as [Hi1 Hok1].
  pose proof (same_cfg_stream_loop _ _ _ _ _ _ _ Hrun) as Hcfg.
  assert (Hk : curs offered capn x0) by (unfold curs; cbn; split; lia).
  destruct (curs_stream_loop offered capn _ _ _ _ _ _ _ Hk Hrun) as [K1 _].
  split.
  - split; [|split; [rewrite (same_cfg_fastcond _ _ Hcfg); exact Hfc|exact K1]].
    destruct Hcfg as [C1 _]. split; [rewrite C1; exact Hini|split; assumption].
  - intros Haft. destruct (stream_sim _ _ _ _ _ _ pre R Hi Hok Hg Hrun Haft) as [f E].
    exists f. cbn [avail_in produced x0] in E. rewrite app_nil_r in E. exact E.
Qed.

(* ---- driving one logical call (operation, chunk) to quiescence under a capacity schedule:
        the call is repeated with the unconsumed input until it returns with all input
        consumed and nothing pending ---- *)
Fixpoint drive_q (s : st) (op : opk) (payload : list N) (chunk : N) (caps : list N) (acc : list N)
  : option (list N * st) :=
  match caps with
  | [] => None
  | c :: rest =>
    match compress_stream s op payload chunk c with
    | Done (true, s', x) =>
        let left := chunk - in_off x in
        if (left =? 0) && (avail_out_ s' =? 0) then Some (acc ++ produced x, s')
        else drive_q s' op (skipN (in_off x) payload) left rest (acc ++ produced x)
    | _ => None
    end
  end.

Lemma drive_sim : forall caps s op payload chunk acc out sf,
  ready s -> fastcond s = false -> op <> OpMeta ->
  drive_q s op payload chunk caps acc = Some (out, sf) ->
  (ready sf /\ fastcond sf = false /\ avail_out_ sf = 0)
  /\ exists f, astream f op s chunk acc = Done (true, sf, 0, out).
Proof.
  induction caps as [|c rest IH]; intros s op payload chunk acc out sf Hr Hfc Hop Hd; [discriminate|].
  cbn [drive_q] in Hd.
  destruct (compress_stream s op payload chunk c) as [[[[|] s'] x]| | |] eqn:Ecall; try discriminate.
  destruct (call_sim s op payload chunk c s' x acc (true, sf, 0, out) Hr Hfc Hop Ecall) as [[Hr' [Hfc' Hcur]] Hsim].
  assert (Hleft : chunk - in_off x = avail_in x) by lia.
  rewrite Hleft in Hd.
  destruct ((avail_in x =? 0) && (avail_out_ s' =? 0)) eqn:Cdone.
  - inversion Hd; subst out sf; clear Hd.
    apply andb_true_iff in Cdone. destruct Cdone as [D1 D2]. apply N.eqb_eq in D1, D2.
    split; [split; [exact Hr'|split; assumption]|].
    apply Hsim. left. repeat split; assumption.
  - destruct (IH _ _ _ _ _ _ _ Hr' Hfc' Hop Hd) as [Hfin [f1 E]].
    split; [exact Hfin|]. apply Hsim. right. split; [|exists f1; exact E].
    intros [D1 D2]. rewrite D1, D2 in Cdone. discriminate.
Qed.

(* ---- the theorem for one logical call ---- *)
Theorem out_slicing_call s op payload chunk caps caps' acc out out' s1 s2 :
  initialized s = true -> inv s -> all_ok2 (oracle s) -> fastcond s = false -> op <> OpMeta ->
  drive_q s op payload chunk caps acc = Some (out, s1) ->
  drive_q s op payload chunk caps' acc = Some (out', s2) ->
  out = out' /\ s1 = s2.
Proof.
  intros Hini Hi Hok Hfc Hop D1 D2.
  assert (Hr : ready s) by (split; [|split]; assumption).
  destruct (drive_sim _ _ _ _ _ _ _ _ Hr Hfc Hop D1) as [_ [f1 E1]].
  destruct (drive_sim _ _ _ _ _ _ _ _ Hr Hfc Hop D2) as [_ [f2 E2]].
  pose proof (astream_det _ _ _ _ _ _ _ _ E1 E2) as E. inversion E. split; reflexivity.
Qed.

(* ---- a sequence of logical calls, each with its own capacity schedule ---- *)
(* a logical call = (operation, number of input bytes, metadata payload); the payload is only
   looked at by OpMeta *)
Fixpoint drive_seq (s : st) (calls : list (opk * N * list N)) (capss : list (list N)) (acc : list N)
  : option (list N * st) :=
  match calls, capss with
  | [], _ => Some (acc, s)
  | (op, chunk, payload) :: more, caps :: capss' =>
    match drive_q s op payload chunk caps acc with
    | Some (acc', s') => drive_seq s' more capss' acc'
    | None => None
    end
  | _ :: _, [] => None
  end.


Theorem out_slicing_seq : forall calls s capss capss' acc out out' s1 s2,
  initialized s = true -> inv s -> all_ok2 (oracle s) -> fastcond s = false ->
  Forall (fun c => fst (fst c) <> OpMeta) calls ->
  drive_seq s calls capss acc = Some (out, s1) ->
  drive_seq s calls capss' acc = Some (out', s2) ->
  out = out' /\ s1 = s2.
Proof.
  induction calls as [|[[op chunk] payload] more IH]; intros s capss capss' acc out out' s1 s2 Hini Hi Hok Hfc Hops D1 D2.
  - cbn [drive_seq] in D1, D2. inversion D1; inversion D2; subst. split; reflexivity.
  - cbn [drive_seq] in D1, D2.
    destruct capss as [|caps capss]; [discriminate|]. destruct capss' as [|caps' capss']; [discriminate|].
    destruct (drive_q s op payload chunk caps acc) as [[a1 t1]|] eqn:E1; [|discriminate].
    destruct (drive_q s op payload chunk caps' acc) as [[a2 t2]|] eqn:E2; [|discriminate].
    inversion Hops as [|? ? Hop Hrest]; subst. cbn [fst] in Hop.
    destruct (out_slicing_call _ _ _ _ _ _ _ _ _ _ _ Hini Hi Hok Hfc Hop E1 E2) as [Ea Et]. subst a2 t2.
    assert (Hr : ready s) by (split; [|split]; assumption).
    destruct (drive_sim _ _ _ _ _ _ _ _ Hr Hfc Hop E1) as [[[R1 [R2 R3]] [R4 _]] _].
    exact (IH _ _ _ _ _ _ _ _ R1 R2 R3 R4 Hrest D1 D2).
Qed.

Lemma inv_upd_misc s le o : inv s -> inv (upd_misc s le o).
Proof. intros [Hc [Hp [Ht Hl]]]. unfold inv, cursor_ok, pad_ok in *. fs. repeat split; assumption. Qed.
