(* C17_store: the RFC 7932 reader applied to what the serialisers emit returns the code lengths.
   This file: StoreSimpleHuffmanTree (section 3.4, NSYM = 2..4). *)
From Coq Require Import NArith ZArith List Lia Bool Arith.
From V Require Import lib.Words lib.Finite gen.GenHuffman spec.PrefixCode model.Huffman
  proofs.Canonical_proofs proofs.Huffman_proofs proofs.Rle_proofs.
Import ListNotations.
Open Scope N_scope.

(* ------------------------------------------------------------------ Kraft equality with 2..4 lengths *)
Definition term (l : N) : N := 2 ^ (15 - l).

Definition in15 (l : N) : bool := (1 <=? l) && (l <=? 15).

Definition pat2 (a b : N) : bool := (a =? 1) && (b =? 1).
Definition pat3 (a b c : N) : bool :=
  existsb (fun p => match p with (x, y, z) => (a =? x) && (b =? y) && (c =? z) end)
          [(1, 2, 2); (2, 1, 2); (2, 2, 1)].
Definition perms4 : list (N * N * N * N) :=
  [(2, 2, 2, 2);
   (1, 2, 3, 3); (1, 3, 2, 3); (1, 3, 3, 2); (2, 1, 3, 3); (3, 1, 2, 3); (3, 1, 3, 2);
   (2, 3, 1, 3); (3, 2, 1, 3); (3, 3, 1, 2); (2, 3, 3, 1); (3, 2, 3, 1); (3, 3, 2, 1)].
Definition pat4 (a b c d : N) : bool :=
  existsb (fun p => match p with (x, y, z, w) => (a =? x) && (b =? y) && (c =? z) && (d =? w) end) perms4.

Definition lens15 : list N := range_nat 1 15.

Lemma kraft2_all : forallb (fun a => forallb (fun b =>
  implb (term a + term b =? 32768) (pat2 a b)) lens15) lens15 = true.
Proof. vm_compute. reflexivity. Qed.
Lemma kraft3_all : forallb (fun a => forallb (fun b => forallb (fun c =>
  implb (term a + term b + term c =? 32768) (pat3 a b c)) lens15) lens15) lens15 = true.
Proof. vm_compute. reflexivity. Qed.
Lemma kraft4_all : forallb (fun a => forallb (fun b => forallb (fun c => forallb (fun d =>
  implb (term a + term b + term c + term d =? 32768) (pat4 a b c d)) lens15) lens15) lens15) lens15 = true.
Proof. vm_compute. reflexivity. Qed.

Lemma in_lens15 l : 1 <= l -> l <= 15 -> In l lens15.
Proof. intros H1 H2. apply range_nat_In; [exact H1|]. change (1 + N.of_nat 15) with 16. lia. Qed.

Lemma kraft2 a b : 1 <= a <= 15 -> 1 <= b <= 15 -> term a + term b = 32768 -> pat2 a b = true.
Proof.
  intros Ha Hb E. pose proof kraft2_all as K. rewrite forallb_forall in K.
  specialize (K a (in_lens15 a (proj1 Ha) (proj2 Ha))). rewrite forallb_forall in K.
  specialize (K b (in_lens15 b (proj1 Hb) (proj2 Hb))). apply N.eqb_eq in E. rewrite E in K. exact K.
Qed.
Lemma kraft3 a b c : 1 <= a <= 15 -> 1 <= b <= 15 -> 1 <= c <= 15 ->
  term a + term b + term c = 32768 -> pat3 a b c = true.
Proof.
  intros Ha Hb Hc E. pose proof kraft3_all as K. rewrite forallb_forall in K.
  specialize (K a (in_lens15 a (proj1 Ha) (proj2 Ha))). rewrite forallb_forall in K.
  specialize (K b (in_lens15 b (proj1 Hb) (proj2 Hb))). rewrite forallb_forall in K.
  specialize (K c (in_lens15 c (proj1 Hc) (proj2 Hc))). apply N.eqb_eq in E. rewrite E in K. exact K.
Qed.
Lemma kraft4 a b c d : 1 <= a <= 15 -> 1 <= b <= 15 -> 1 <= c <= 15 -> 1 <= d <= 15 ->
  term a + term b + term c + term d = 32768 -> pat4 a b c d = true.
Proof.
  intros Ha Hb Hc Hd E. pose proof kraft4_all as K. rewrite forallb_forall in K.
  specialize (K a (in_lens15 a (proj1 Ha) (proj2 Ha))). rewrite forallb_forall in K.
  specialize (K b (in_lens15 b (proj1 Hb) (proj2 Hb))). rewrite forallb_forall in K.
  specialize (K c (in_lens15 c (proj1 Hc) (proj2 Hc))). rewrite forallb_forall in K.
  specialize (K d (in_lens15 d (proj1 Hd) (proj2 Hd))). apply N.eqb_eq in E. rewrite E in K. exact K.
Qed.

(* ------------------------------------------------------------------ vectors built by assignments *)
Lemma set_nth_upd l i v : set_nth l i v = upd l i v.
Proof. revert i. induction l as [|h t IH]; intros [|i]; cbn; try reflexivity. rewrite IH. reflexivity. Qed.

Lemma set_nth_length l i v : length (set_nth l i v) = length l.
Proof. rewrite set_nth_upd. apply upd_length. Qed.

Lemma zeros_length n : length (zeros n) = N.to_nat n.
Proof. unfold zeros. apply repeat_length. Qed.

Lemma nth_zeros n i : nth i (zeros n) 0 = 0.
Proof. unfold zeros. revert i. induction (N.to_nat n) as [|m IH]; intros [|i]; cbn; auto. Qed.

Lemma kraft_zeros n : kraft (zeros n) = 0.
Proof. unfold zeros. induction (N.to_nat n) as [|m IH]; [reflexivity|]. cbn [repeat]. rewrite kraft_cons, IH. reflexivity. Qed.

Lemma kraft_set_nth l i v : (i < length l)%nat -> nth i l 0 = 0 -> v <> 0 ->
  kraft (set_nth l i v) = kraft l + term v.
Proof.
  revert i. induction l as [|h t IH]; intros [|i] Hi Hz Hv; cbn in Hi; try lia.
  - cbn in Hz. subst h. cbn [set_nth]. rewrite !kraft_cons. destruct (N.eqb_spec v 0); [contradiction|].
    change (0 =? 0) with true. cbv iota. unfold term. ring.
  - cbn [set_nth]. rewrite !kraft_cons, IH by (try lia; assumption). lia.
Qed.

Section Assign.
  Variable kf : N -> N.

  Lemma assign_length : forall syms l, length (assign_lengths l syms (map kf syms)) = length l.
  Proof. induction syms as [|s syms IH]; intros l; [reflexivity|]. cbn [map assign_lengths]. rewrite IH, set_nth_length. reflexivity. Qed.

  Lemma assign_nth : forall syms l i, (forall s, In s syms -> (N.to_nat s < length l)%nat) ->
    nth (N.to_nat i) (assign_lengths l syms (map kf syms)) 0 =
    if existsb (N.eqb i) syms then kf i else nth (N.to_nat i) l 0.
  Proof.
    induction syms as [|s syms IH]; intros l i Hs; [reflexivity|].
    cbn [map assign_lengths existsb]. rewrite IH by (intros s' Hs'; rewrite set_nth_length; apply Hs; right; exact Hs').
    destruct (existsb (N.eqb i) syms); [rewrite orb_true_r; reflexivity|]. rewrite orb_false_r.
    rewrite set_nth_upd. destruct (N.eqb_spec i s) as [->|Hne].
    - rewrite upd_nth_same by (apply Hs; left; reflexivity). reflexivity.
    - rewrite upd_nth_other by lia. reflexivity.
  Qed.

  Lemma kraft_assign : forall syms l, NoDup syms -> (forall s, In s syms -> (N.to_nat s < length l)%nat) ->
    (forall s, In s syms -> nth (N.to_nat s) l 0 = 0) -> (forall s, In s syms -> kf s <> 0) ->
    kraft (assign_lengths l syms (map kf syms)) = kraft l + fold_right (fun s acc => term (kf s) + acc) 0 syms.
  Proof.
    induction syms as [|s syms IH]; intros l Hnd Hlt Hz Hk; [cbn [map assign_lengths fold_right]; rewrite N.add_0_r; reflexivity|].
    inversion Hnd as [|? ? Hnotin Hnd']; subst. cbn [map assign_lengths fold_right].
    rewrite IH.
    - rewrite kraft_set_nth by (try apply Hlt; try apply Hz; try apply Hk; left; reflexivity). ring.
    - exact Hnd'.
    - intros s' Hs'. rewrite set_nth_length. apply Hlt. right. exact Hs'.
    - intros s' Hs'. rewrite set_nth_upd, upd_nth_other; [apply Hz; right; exact Hs'|].
      intros E. apply Hnotin. apply N2Nat.inj in E. subst s'. exact Hs'.
    - intros s' Hs'. apply Hk. right. exact Hs'.
  Qed.
End Assign.

Lemma list_ext (l1 l2 : list N) : length l1 = length l2 ->
  (forall i, (i < length l1)%nat -> nth i l1 0 = nth i l2 0) -> l1 = l2.
Proof.
  revert l2. induction l1 as [|a l1 IH]; intros [|b l2] Hl Hn; cbn in Hl; try lia; [reflexivity|].
  f_equal; [apply (Hn 0%nat); cbn; lia|]. apply IH; [lia|]. intros i Hi. apply (Hn (S i)). cbn. lia.
Qed.

Lemma existsb_ext_in (f : N -> bool) l1 l2 : (forall x, In x l1 <-> In x l2) -> existsb f l1 = existsb f l2.
Proof.
  intros H. destruct (existsb f l1) eqn:E1; destruct (existsb f l2) eqn:E2; try reflexivity.
  - apply existsb_exists in E1. destruct E1 as [x [Hx Hf]]. apply H in Hx.
    assert (existsb f l2 = true) by (apply existsb_exists; exists x; auto). congruence.
  - apply existsb_exists in E2. destruct E2 as [x [Hx Hf]]. apply H in Hx.
    assert (existsb f l1 = true) by (apply existsb_exists; exists x; auto). congruence.
Qed.

(* assignments of kf over two lists with the same members build the same vector *)
Lemma assign_same_members kf asz syms syms' :
  (forall x, In x syms <-> In x syms') -> (forall s, In s syms -> s < asz) ->
  assign_lengths (zeros asz) syms' (map kf syms') = assign_lengths (zeros asz) syms (map kf syms).
Proof.
  intros Hin Hlt. apply list_ext; [rewrite !assign_length; reflexivity|].
  intros i Hi. rewrite <- (Nat2N.id i).
  rewrite !assign_nth.
  - rewrite (existsb_ext_in _ syms' syms); [reflexivity|]. intros x. symmetry. apply Hin.
  - intros s Hs. rewrite zeros_length. apply Hlt in Hs. lia.
  - intros s Hs. rewrite zeros_length. apply Hin in Hs. apply Hlt in Hs. lia.
Qed.

(* ------------------------------------------------------------------ the exchange sort of StoreSimpleHuffmanTree *)
Definition cs (depths : list N) (i j : N) (symbols : list N) : res (list N) :=
  sj <- getA symbols j ;; si <- getA symbols i ;;
  dj <- getA depths sj ;; di <- getA depths si ;;
  if dj <? di then symbols <- setA symbols j si ;; setA symbols i sj else Done symbols.

Definition cswap (k : N -> N) (i j : nat) (l : list N) : list N :=
  if k (nth j l 0) <? k (nth i l 0) then upd (upd l j (nth i l 0)) i (nth j l 0) else l.

Lemma sort2_unfold depths syms :
  sort_symbols_by_depth depths syms 2 =
  (s <- (s <- cs depths 0 1 syms ;; Done s) ;; s <- Done s ;; Done s).
Proof. reflexivity. Qed.
Lemma sort3_unfold depths syms :
  sort_symbols_by_depth depths syms 3 =
  (s <- (s <- cs depths 0 1 syms ;; s <- cs depths 0 2 s ;; Done s) ;;
   s <- (s <- cs depths 1 2 s ;; Done s) ;;
   s <- Done s ;; Done s).
Proof. reflexivity. Qed.
Lemma sort4_unfold depths syms :
  sort_symbols_by_depth depths syms 4 =
  (s <- (s <- cs depths 0 1 syms ;; s <- cs depths 0 2 s ;; s <- cs depths 0 3 s ;; Done s) ;;
   s <- (s <- cs depths 1 2 s ;; s <- cs depths 1 3 s ;; Done s) ;;
   s <- (s <- cs depths 2 3 s ;; Done s) ;;
   s <- Done s ;; Done s).
Proof. reflexivity. Qed.

Lemma In_upd (l : list N) i v x : In x (upd l i v) -> x = v \/ In x l.
Proof.
  revert i. induction l as [|h t IH]; intros [|i] H; cbn in *; auto.
  - destruct H as [H|H]; auto.
  - destruct H as [H|H]; auto. apply IH in H. tauto.
Qed.

Lemma cs_cswap depths k syms i j :
  (N.to_nat i < length syms)%nat -> (N.to_nat j < length syms)%nat ->
  (forall x, In x syms -> getA depths x = Done (k x)) ->
  cs depths i j syms = Done (cswap k (N.to_nat i) (N.to_nat j) syms).
Proof.
  intros Hi Hj Hk. unfold cs, cswap.
  rewrite (getA_ok syms j 0 Hj), (getA_ok syms i 0 Hi). cbn [bind].
  rewrite !Hk by (apply nth_In; assumption). cbn [bind].
  destruct (k (nth (N.to_nat j) syms 0) <? k (nth (N.to_nat i) syms 0)); [|reflexivity].
  rewrite (setA_ok syms j _ Hj). cbn [bind]. rewrite setA_ok by (rewrite upd_length; exact Hi). reflexivity.
Qed.

Lemma cswap_length k i j l : length (cswap k i j l) = length l.
Proof. unfold cswap. destruct (_ <? _); [rewrite !upd_length|]; reflexivity. Qed.

Lemma cswap_In k i j l x : (i < length l)%nat -> (j < length l)%nat -> In x (cswap k i j l) -> In x l.
Proof.
  intros Hi Hj. unfold cswap. destruct (_ <? _); [|auto]. intros H.
  apply In_upd in H. destruct H as [->|H]; [apply nth_In; exact Hj|].
  apply In_upd in H. destruct H as [->|H]; [apply nth_In; exact Hi|exact H].
Qed.

(* ------------------------------------------------------------------ bits written and read back *)
Lemma lsb_bits_eq n v : lsb_bits n v = N_to_bits n v.
Proof. revert v. induction n as [|n IH]; intros v; [reflexivity|]. cbn. rewrite IH. reflexivity. Qed.

Lemma write_bits_ok n v out : n <= 56 -> v < 2 ^ n ->
  write_bits n v out = Done (out ++ N_to_bits (N.to_nat n) v).
Proof.
  intros Hn Hv. unfold write_bits.
  assert (E : N.shiftr v n = 0) by (rewrite N.shiftr_div_pow2; apply N.div_small; exact Hv).
  rewrite E. cbn [N.eqb negb]. destruct (N.ltb_spec 56 n); [lia|]. rewrite lsb_bits_eq. reflexivity.
Qed.

Lemma take_bits_app x r : take_bits (length x) (x ++ r) = Some (x, r).
Proof. induction x as [|b x IH]; [reflexivity|]. cbn [length app take_bits]. rewrite IH. reflexivity. Qed.

Lemma read_bits_written n v r : v < 2 ^ N.of_nat n -> read_bits n (N_to_bits n v ++ r) = Some (v, r).
Proof.
  intros Hv. unfold read_bits.
  rewrite <- (N_to_bits_length n v) at 1. rewrite take_bits_app, bits_to_N_to_bits, N.mod_small by exact Hv.
  reflexivity.
Qed.

Definition sorted2 k (l : list N) := cswap k 0 1 l.
Definition sorted3 k (l : list N) := cswap k 1 2 (cswap k 0 2 (cswap k 0 1 l)).
Definition sorted4 k (l : list N) := cswap k 2 3 (cswap k 1 3 (cswap k 1 2 (cswap k 0 3 (cswap k 0 2 (cswap k 0 1 l))))).

Section Simple.
  Variable asz : N.
  Variable depths : list N.
  Hypothesis Hlen : length depths = N.to_nat asz.
  Let k (x : N) : N := nth (N.to_nat x) depths 0.

  Lemma lookup x : x < asz -> getA depths x = Done (k x).
  Proof. intros H. apply getA_ok. lia. Qed.

  Ltac cs_step :=
    rewrite (cs_cswap depths k) by
      (try (rewrite ?cswap_length; cbn [length]; lia);
       intros x Hx; apply lookup;
       repeat (apply cswap_In in Hx; [|rewrite ?cswap_length; cbn [length]; lia|rewrite ?cswap_length; cbn [length]; lia]);
       auto);
    cbn [bind].

  Lemma sort4_ok l : length l = 4%nat -> (forall x, In x l -> x < asz) ->
    sort_symbols_by_depth depths l 4 = Done (sorted4 k l).
  Proof.
    intros Hl Hin. rewrite sort4_unfold.
    change (N.to_nat 0) with 0%nat in *.
    do 6 cs_step. reflexivity.
  Qed.

  Lemma sort3_ok l : length l = 4%nat -> (forall x, In x l -> x < asz) ->
    sort_symbols_by_depth depths l 3 = Done (sorted3 k l).
  Proof.
    intros Hl Hin. rewrite sort3_unfold. change (N.to_nat 0) with 0%nat in *.
    do 3 cs_step. reflexivity.
  Qed.
  Lemma sort2_ok l : length l = 4%nat -> (forall x, In x l -> x < asz) ->
    sort_symbols_by_depth depths l 2 = Done (sorted2 k l).
  Proof.
    intros Hl Hin. rewrite sort2_unfold. change (N.to_nat 0) with 0%nat in *.
    do 1 cs_step. reflexivity.
  Qed.

  Hypothesis Hasz : asz <= 2 ^ 32.
  Let w := alphabet_bits asz.
  Let mb := N.of_nat w.

  Lemma mb_small : mb <= 33.
  Proof.
    unfold mb, w, alphabet_bits. rewrite N2Nat.id.
    destruct (N.eq_dec (asz - 1) 0) as [E|E]; [rewrite E; cbn; lia|].
    rewrite N.size_log2 by exact E.
    assert (N.log2 (asz - 1) < 32); [|lia]. apply N.log2_lt_pow2; lia.
  Qed.
  Lemma w8_mb : w8 mb = mb.
  Proof. pose proof mb_small. unfold w8. apply N.mod_small. change (2 ^ 8) with 256. lia. Qed.
  Lemma sym_fits s : s < asz -> s < 2 ^ mb.
  Proof.
    intros H. unfold mb, w, alphabet_bits. rewrite N2Nat.id.
    eapply N.le_lt_trans; [|apply N.size_gt]. lia.
  Qed.

  Lemma write_sym s o : s < asz -> write_bits (w8 mb) s o = Done (o ++ N_to_bits w s).
  Proof.
    intros H. rewrite w8_mb. pose proof mb_small. rewrite write_bits_ok by (try lia; apply sym_fits; exact H).
    unfold mb. rewrite Nat2N.id. reflexivity.
  Qed.
  Lemma read_sym s r : s < asz -> read_bits w (N_to_bits w s ++ r) = Some (s, r).
  Proof. intros H. apply read_bits_written. fold mb. apply sym_fits. exact H. Qed.

  Variable out r : bits.

  Lemma core4 l s0 s1 s2 s3 :
    sort_symbols_by_depth depths l 4 = Done [s0; s1; s2; s3] ->
    s0 < asz -> s1 < asz -> s2 < asz -> s3 < asz -> distinct [s0; s1; s2; s3] = true ->
    assign_lengths (zeros asz) [s0; s1; s2; s3] (if k s0 =? 1 then [1; 2; 3; 3] else [2; 2; 2; 2]) = depths ->
    exists bs, store_simple_huffman_tree depths l 4 mb out = Done (out ++ bs) /\
      rfc_read_prefix_code asz (bs ++ r) = Some ({| pc_lengths := depths; pc_single := None |}, r).
  Proof.
    intros Hsort H0 H1 H2 H3 Hd Hassign. unfold store_simple_huffman_tree.
    rewrite write_bits_ok by (cbn; lia). cbn [bind].
    change (wsub64 4 1) with 3. rewrite write_bits_ok by (cbn; lia). cbn [bind].
    rewrite Hsort. cbn [bind]. change (4 =? 2) with false. change (4 =? 3) with false. cbv iota.
    unfold write_symbols, for_in. change (N.to_nat (4 - 0)) with 4%nat. cbn [for_range].
    change (getA [s0; s1; s2; s3] 0) with (Done s0). cbn [bind]. rewrite write_sym by assumption. cbn [bind].
    change (getA [s0; s1; s2; s3] (0 + 1)) with (Done s1). cbn [bind]. rewrite write_sym by assumption. cbn [bind].
    change (getA [s0; s1; s2; s3] (0 + 1 + 1)) with (Done s2). cbn [bind]. rewrite write_sym by assumption. cbn [bind].
    change (getA [s0; s1; s2; s3] (0 + 1 + 1 + 1)) with (Done s3). cbn [bind]. rewrite write_sym by assumption. cbn [bind].
    rewrite (lookup s0 H0). cbn [bind].
    rewrite write_bits_ok by (try (cbn; lia); destruct (k s0 =? 1); cbn; lia). cbn [bind].
    change (N.to_nat 2) with 2%nat. change (N.to_nat 1) with 1%nat.
    repeat rewrite <- app_assoc. eexists. split; [reflexivity|].
    unfold rfc_read_prefix_code. repeat rewrite <- app_assoc.
    rewrite read_bits_written by (cbn; lia). change (1 =? 1) with true. cbv iota.
    unfold rfc_read_simple. rewrite read_bits_written by (cbn; lia).
    change (N.to_nat (3 + 1)) with 4%nat. fold w. cbn [read_symbols].
    rewrite !read_sym by assumption.
    assert (Hall : forallb (fun s => s <? asz) [s0; s1; s2; s3] = true).
    { cbn [forallb]. apply N.ltb_lt in H0, H1, H2, H3. rewrite H0, H1, H2, H3. reflexivity. }
    rewrite Hall, Hd. cbn [andb negb].
    rewrite read_bits_written by (destruct (k s0 =? 1); cbn; lia).
    destruct (k s0 =? 1).
    - change (1 =? 0) with false. cbv iota. rewrite Hassign. reflexivity.
    - change (0 =? 0) with true. cbv iota. rewrite Hassign. reflexivity.
  Qed.

  Lemma core3 l s0 s1 s2 e :
    sort_symbols_by_depth depths l 3 = Done [s0; s1; s2; e] ->
    s0 < asz -> s1 < asz -> s2 < asz -> distinct [s0; s1; s2] = true ->
    assign_lengths (zeros asz) [s0; s1; s2] [1; 2; 2] = depths ->
    exists bs, store_simple_huffman_tree depths l 3 mb out = Done (out ++ bs) /\
      rfc_read_prefix_code asz (bs ++ r) = Some ({| pc_lengths := depths; pc_single := None |}, r).
  Proof.
    intros Hsort H0 H1 H2 Hd Hassign. unfold store_simple_huffman_tree.
    rewrite write_bits_ok by (cbn; lia). cbn [bind].
    change (wsub64 3 1) with 2. rewrite write_bits_ok by (cbn; lia). cbn [bind].
    rewrite Hsort. cbn [bind]. change (3 =? 2) with false. change (3 =? 3) with true. cbv iota.
    unfold write_symbols, for_in. change (N.to_nat (3 - 0)) with 3%nat. cbn [for_range].
    change (getA [s0; s1; s2; e] 0) with (Done s0). cbn [bind]. rewrite write_sym by assumption. cbn [bind].
    change (getA [s0; s1; s2; e] (0 + 1)) with (Done s1). cbn [bind]. rewrite write_sym by assumption. cbn [bind].
    change (getA [s0; s1; s2; e] (0 + 1 + 1)) with (Done s2). cbn [bind]. rewrite write_sym by assumption. cbn [bind].
    change (N.to_nat 2) with 2%nat.
    repeat rewrite <- app_assoc. eexists. split; [reflexivity|].
    unfold rfc_read_prefix_code. repeat rewrite <- app_assoc.
    rewrite read_bits_written by (cbn; lia). change (1 =? 1) with true. cbv iota.
    unfold rfc_read_simple. rewrite read_bits_written by (cbn; lia).
    change (N.to_nat (2 + 1)) with 3%nat. fold w. cbn [read_symbols].
    rewrite !read_sym by assumption.
    assert (Hall : forallb (fun s => s <? asz) [s0; s1; s2] = true).
    { cbn [forallb]. apply N.ltb_lt in H0, H1, H2. rewrite H0, H1, H2. reflexivity. }
    rewrite Hall, Hd. cbn [andb negb]. rewrite Hassign. reflexivity.
  Qed.

  Lemma core2 l s0 s1 e f :
    sort_symbols_by_depth depths l 2 = Done [s0; s1; e; f] ->
    s0 < asz -> s1 < asz -> distinct [s0; s1] = true ->
    assign_lengths (zeros asz) [s0; s1] [1; 1] = depths ->
    exists bs, store_simple_huffman_tree depths l 2 mb out = Done (out ++ bs) /\
      rfc_read_prefix_code asz (bs ++ r) = Some ({| pc_lengths := depths; pc_single := None |}, r).
  Proof.
    intros Hsort H0 H1 Hd Hassign. unfold store_simple_huffman_tree.
    rewrite write_bits_ok by (cbn; lia). cbn [bind].
    change (wsub64 2 1) with 1. rewrite write_bits_ok by (cbn; lia). cbn [bind].
    rewrite Hsort. cbn [bind]. change (2 =? 2) with true. cbv iota.
    unfold write_symbols, for_in. change (N.to_nat (2 - 0)) with 2%nat. cbn [for_range].
    change (getA [s0; s1; e; f] 0) with (Done s0). cbn [bind]. rewrite write_sym by assumption. cbn [bind].
    change (getA [s0; s1; e; f] (0 + 1)) with (Done s1). cbn [bind]. rewrite write_sym by assumption. cbn [bind].
    change (N.to_nat 2) with 2%nat.
    repeat rewrite <- app_assoc. eexists. split; [reflexivity|].
    unfold rfc_read_prefix_code. repeat rewrite <- app_assoc.
    rewrite read_bits_written by (cbn; lia). change (1 =? 1) with true. cbv iota.
    unfold rfc_read_simple. rewrite read_bits_written by (cbn; lia).
    change (N.to_nat (1 + 1)) with 2%nat. fold w. cbn [read_symbols].
    rewrite !read_sym by assumption.
    assert (Hall : forallb (fun s => s <? asz) [s0; s1] = true).
    { cbn [forallb]. apply N.ltb_lt in H0, H1. rewrite H0, H1. reflexivity. }
    rewrite Hall, Hd. cbn [andb negb]. rewrite Hassign. reflexivity.
  Qed.
End Simple.

Lemma distinct_NoDup l : NoDup l -> distinct l = true.
Proof.
  induction 1 as [|x l Hnotin Hnd IH]; [reflexivity|]. cbn [distinct]. rewrite IH, andb_true_r.
  apply negb_true_iff. destruct (existsb (N.eqb x) l) eqn:E; [|reflexivity].
  apply existsb_exists in E. destruct E as [y [Hy Hxy]]. apply N.eqb_eq in Hxy. subst y. contradiction.
Qed.

Ltac eval_cswap Ka Kb Kc Kd :=
  repeat match goal with
  | |- context [cswap ?kk ?i ?j (?x :: ?y :: ?z :: ?t :: nil)] =>
    let e := eval cbv [cswap nth upd] in (cswap kk i j [x; y; z; t]) in
    change (cswap kk i j [x; y; z; t]) with e;
    rewrite ?Ka, ?Kb, ?Kc, ?Kd;
    cbn [N.ltb N.compare Pos.compare Pos.compare_cont]
  end.

Theorem simple4 asz kf a b c d out r :
  asz <= 2 ^ 32 -> NoDup [a; b; c; d] -> a < asz -> b < asz -> c < asz -> d < asz ->
  1 <= kf a <= 15 -> 1 <= kf b <= 15 -> 1 <= kf c <= 15 -> 1 <= kf d <= 15 ->
  let depths := assign_lengths (zeros asz) [a; b; c; d] (map kf [a; b; c; d]) in
  kraft depths = 32768 ->
  exists bs, store_simple_huffman_tree depths [a; b; c; d] 4 (N.of_nat (alphabet_bits asz)) out = Done (out ++ bs) /\
    rfc_read_prefix_code asz (bs ++ r) = Some ({| pc_lengths := depths; pc_single := None |}, r).
Proof.
  intros Hasz Hnd Ha Hb Hc Hd Ra Rb Rc Rd depths Hk.
  assert (Hlen : length depths = N.to_nat asz) by (unfold depths; rewrite assign_length, zeros_length; reflexivity).
  assert (Hin : forall s, In s [a; b; c; d] -> (N.to_nat s < length (zeros asz))%nat).
  { intros s Hs. rewrite zeros_length. cbn [In] in Hs. destruct Hs as [<-|[<-|[<-|[<-|[]]]]]; lia. }
  set (kk := fun x : N => nth (N.to_nat x) depths 0).
  assert (Ka : kk a = kf a) by (unfold kk, depths; rewrite assign_nth by exact Hin; cbn [existsb]; rewrite N.eqb_refl; reflexivity).
  assert (Kb : kk b = kf b) by (unfold kk, depths; rewrite assign_nth by exact Hin; cbn [existsb]; rewrite N.eqb_refl, ?orb_true_r; reflexivity).
  assert (Kc : kk c = kf c) by (unfold kk, depths; rewrite assign_nth by exact Hin; cbn [existsb]; rewrite N.eqb_refl, ?orb_true_r; reflexivity).
  assert (Kd : kk d = kf d) by (unfold kk, depths; rewrite assign_nth by exact Hin; cbn [existsb]; rewrite N.eqb_refl, ?orb_true_r; reflexivity).
  assert (Hsum : term (kf a) + term (kf b) + term (kf c) + term (kf d) = 32768).
  { unfold depths in Hk. rewrite kraft_assign in Hk.
    - rewrite kraft_zeros in Hk. cbn [fold_right] in Hk. rewrite <- Hk. ring.
    - exact Hnd.
    - exact Hin.
    - intros s _. apply nth_zeros.
    - intros s Hs. cbn [In] in Hs. destruct Hs as [<-|[<-|[<-|[<-|[]]]]]; lia. }
  pose proof (kraft4 _ _ _ _ Ra Rb Rc Rd Hsum) as Hpat.
  assert (Hneq : a <> b /\ a <> c /\ a <> d /\ b <> c /\ b <> d /\ c <> d).
  { inversion Hnd as [|? ? N1 Hnd1]; subst. inversion Hnd1 as [|? ? N2 Hnd2]; subst.
    inversion Hnd2 as [|? ? N3 Hnd3]; subst. cbn [In] in N1, N2, N3.
    repeat split; intros E; subst; tauto. }
  destruct Hneq as [Nab [Nac [Nad [Nbc [Nbd Ncd]]]]].
  assert (Hsort : sort_symbols_by_depth depths [a; b; c; d] 4 = Done (sorted4 kk [a; b; c; d])).
  { apply (sort4_ok asz depths Hlen); [reflexivity|]. intros x Hx. cbn [In] in Hx. destruct Hx as [<-|[<-|[<-|[<-|[]]]]]; assumption. }
  unfold pat4, perms4 in Hpat. cbn [existsb] in Hpat.
  repeat (apply orb_true_iff in Hpat; destruct Hpat as [Hpat|Hpat]); try discriminate;
    repeat (apply andb_true_iff in Hpat; destruct Hpat as [Hpat ?]);
    repeat match goal with H : (_ =? _) = true |- _ => apply N.eqb_eq in H end;
    match goal with Ea : kf a = _, Eb : kf b = _, Ec : kf c = _, Ed : kf d = _ |- _ =>
      rewrite Ea in Ka; rewrite Eb in Kb; rewrite Ec in Kc; rewrite Ed in Kd;
      revert Hsort; unfold sorted4; eval_cswap Ka Kb Kc Kd; intros Hsort;
      match type of Hsort with _ = Done [?s0; ?s1; ?s2; ?s3] =>
        apply (core4 asz depths Hlen Hasz out r [a; b; c; d] s0 s1 s2 s3 Hsort); try assumption;
        [ apply distinct_NoDup; repeat constructor; cbn [In]; intuition congruence
        | change (nth (N.to_nat s0) depths 0) with (kk s0); rewrite ?Ka, ?Kb, ?Kc, ?Kd;
          cbn [N.eqb Pos.eqb]; cbv iota;
          transitivity (assign_lengths (zeros asz) [s0; s1; s2; s3] (map kf [s0; s1; s2; s3]));
          [ cbn [map]; rewrite Ea, Eb, Ec, Ed; reflexivity
          | apply assign_same_members; [intros x; cbn [In]; tauto|
              intros s Hs; cbn [In] in Hs; destruct Hs as [<-|[<-|[<-|[<-|[]]]]]; assumption] ] ]
      end
    end.
Qed.

Theorem simple3 asz kf a b c e out r :
  asz <= 2 ^ 32 -> NoDup [a; b; c] -> a < asz -> b < asz -> c < asz -> e < asz ->
  1 <= kf a <= 15 -> 1 <= kf b <= 15 -> 1 <= kf c <= 15 ->
  let depths := assign_lengths (zeros asz) [a; b; c] (map kf [a; b; c]) in
  kraft depths = 32768 ->
  exists bs, store_simple_huffman_tree depths [a; b; c; e] 3 (N.of_nat (alphabet_bits asz)) out = Done (out ++ bs) /\
    rfc_read_prefix_code asz (bs ++ r) = Some ({| pc_lengths := depths; pc_single := None |}, r).
Proof.
  intros Hasz Hnd Ha Hb Hc He Ra Rb Rc depths Hk.
  assert (Hlen : length depths = N.to_nat asz) by (unfold depths; rewrite assign_length, zeros_length; reflexivity).
  assert (Hin : forall s, In s [a; b; c] -> (N.to_nat s < length (zeros asz))%nat).
  { intros s Hs. rewrite zeros_length. cbn [In] in Hs. destruct Hs as [<-|[<-|[<-|[]]]]; lia. }
  set (kk := fun x : N => nth (N.to_nat x) depths 0).
  assert (Ka : kk a = kf a) by (unfold kk, depths; rewrite assign_nth by exact Hin; cbn [existsb]; rewrite N.eqb_refl; reflexivity).
  assert (Kb : kk b = kf b) by (unfold kk, depths; rewrite assign_nth by exact Hin; cbn [existsb]; rewrite N.eqb_refl, ?orb_true_r; reflexivity).
  assert (Kc : kk c = kf c) by (unfold kk, depths; rewrite assign_nth by exact Hin; cbn [existsb]; rewrite N.eqb_refl, ?orb_true_r; reflexivity).
  assert (Hsum : term (kf a) + term (kf b) + term (kf c) = 32768).
  { unfold depths in Hk. rewrite kraft_assign in Hk.
    - rewrite kraft_zeros in Hk. cbn [fold_right] in Hk. rewrite <- Hk. ring.
    - exact Hnd.
    - exact Hin.
    - intros s _. apply nth_zeros.
    - intros s Hs. cbn [In] in Hs. destruct Hs as [<-|[<-|[<-|[]]]]; lia. }
  pose proof (kraft3 _ _ _ Ra Rb Rc Hsum) as Hpat.
  assert (Hneq : a <> b /\ a <> c /\ b <> c).
  { inversion Hnd as [|? ? N1 Hnd1]; subst. inversion Hnd1 as [|? ? N2 Hnd2]; subst.
    cbn [In] in N1, N2. repeat split; intros E; subst; tauto. }
  destruct Hneq as [Nab [Nac Nbc]].
  assert (Hsort : sort_symbols_by_depth depths [a; b; c; e] 3 = Done (sorted3 kk [a; b; c; e])).
  { apply (sort3_ok asz depths Hlen); [reflexivity|]. intros x Hx. cbn [In] in Hx. destruct Hx as [<-|[<-|[<-|[<-|[]]]]]; assumption. }
  unfold pat3 in Hpat. cbn [existsb] in Hpat.
  repeat (apply orb_true_iff in Hpat; destruct Hpat as [Hpat|Hpat]); try discriminate;
    repeat (apply andb_true_iff in Hpat; destruct Hpat as [Hpat ?]);
    repeat match goal with H : (_ =? _) = true |- _ => apply N.eqb_eq in H end;
    match goal with Ea : kf a = _, Eb : kf b = _, Ec : kf c = _ |- _ =>
      rewrite Ea in Ka; rewrite Eb in Kb; rewrite Ec in Kc;
      revert Hsort; unfold sorted3; eval_cswap Ka Kb Kc Kc; intros Hsort;
      match type of Hsort with _ = Done [?s0; ?s1; ?s2; ?s3] =>
        apply (core3 asz depths Hlen Hasz out r [a; b; c; e] s0 s1 s2 s3 Hsort); try assumption;
        [ apply distinct_NoDup; repeat constructor; cbn [In]; intuition congruence
        | transitivity (assign_lengths (zeros asz) [s0; s1; s2] (map kf [s0; s1; s2]));
          [ cbn [map]; rewrite Ea, Eb, Ec; reflexivity
          | apply assign_same_members; [intros x; cbn [In]; tauto|
              intros s Hs; cbn [In] in Hs; destruct Hs as [<-|[<-|[<-|[]]]]; assumption] ] ]
      end
    end.
Qed.

Theorem simple2 asz kf a b e f out r :
  asz <= 2 ^ 32 -> NoDup [a; b] -> a < asz -> b < asz -> e < asz -> f < asz ->
  1 <= kf a <= 15 -> 1 <= kf b <= 15 ->
  let depths := assign_lengths (zeros asz) [a; b] (map kf [a; b]) in
  kraft depths = 32768 ->
  exists bs, store_simple_huffman_tree depths [a; b; e; f] 2 (N.of_nat (alphabet_bits asz)) out = Done (out ++ bs) /\
    rfc_read_prefix_code asz (bs ++ r) = Some ({| pc_lengths := depths; pc_single := None |}, r).
Proof.
  intros Hasz Hnd Ha Hb He Hf Ra Rb depths Hk.
  assert (Hlen : length depths = N.to_nat asz) by (unfold depths; rewrite assign_length, zeros_length; reflexivity).
  assert (Hin : forall s, In s [a; b] -> (N.to_nat s < length (zeros asz))%nat).
  { intros s Hs. rewrite zeros_length. cbn [In] in Hs. destruct Hs as [<-|[<-|[]]]; lia. }
  set (kk := fun x : N => nth (N.to_nat x) depths 0).
  assert (Ka : kk a = kf a) by (unfold kk, depths; rewrite assign_nth by exact Hin; cbn [existsb]; rewrite N.eqb_refl; reflexivity).
  assert (Kb : kk b = kf b) by (unfold kk, depths; rewrite assign_nth by exact Hin; cbn [existsb]; rewrite N.eqb_refl, ?orb_true_r; reflexivity).
  assert (Hsum : term (kf a) + term (kf b) = 32768).
  { unfold depths in Hk. rewrite kraft_assign in Hk.
    - rewrite kraft_zeros in Hk. cbn [fold_right] in Hk. rewrite <- Hk. ring.
    - exact Hnd.
    - exact Hin.
    - intros s _. apply nth_zeros.
    - intros s Hs. cbn [In] in Hs. destruct Hs as [<-|[<-|[]]]; lia. }
  pose proof (kraft2 _ _ Ra Rb Hsum) as Hpat.
  assert (Nab : a <> b).
  { inversion Hnd as [|? ? N1 Hnd1]; subst. cbn [In] in N1. intros E; subst; tauto. }
  assert (Hsort : sort_symbols_by_depth depths [a; b; e; f] 2 = Done (sorted2 kk [a; b; e; f])).
  { apply (sort2_ok asz depths Hlen); [reflexivity|]. intros x Hx. cbn [In] in Hx. destruct Hx as [<-|[<-|[<-|[<-|[]]]]]; assumption. }
  unfold pat2 in Hpat. apply andb_true_iff in Hpat. destruct Hpat as [Ea Eb]. apply N.eqb_eq in Ea, Eb.
  rewrite Ea in Ka. rewrite Eb in Kb.
  revert Hsort. unfold sorted2. eval_cswap Ka Kb Kb Kb. intros Hsort.
  apply (core2 asz depths Hlen Hasz out r [a; b; e; f] a b e f Hsort); try assumption.
  - apply distinct_NoDup. repeat constructor; cbn [In]; intuition congruence.
  - unfold depths. cbn [map]. rewrite Ea, Eb. reflexivity.
Qed.
