(* C01 (e), the part of the composition that lies entirely within modelled code: a stream made of a
   stream header, uncompressed meta-blocks (header, JumpToByteBoundary, raw bytes -- the writer of
   BrotliStoreUncompressedMetaBlock) and the empty last meta-block is decoded by the RFC 7932
   decoder spec to exactly the bytes that were stored. *)
From Coq Require Import NArith ZArith List Lia Bool PeanoNat.
From V Require Import lib.Words lib.PMap spec.RfcTables spec.PrefixCode spec.Decoder model.MetaBlockHeader
  proofs.Bitops proofs.MbHeader_proofs.
Import ListNotations.
Open Scope N_scope.

(* ------------------------------------------------------------------ bounded iteration *)
Fixpoint run_n {St Rs} (n : nat) (f : St -> step_res St Rs) (s : St) : step_res St Rs :=
  match n with
  | O => Continue s
  | S m => match f s with Continue s' => run_n m f s' | Stop r => Stop r end
  end.

Lemma run_n_add {St Rs} a b (f : St -> step_res St Rs) s :
  run_n (a + b) f s = match run_n a f s with Continue s' => run_n b f s' | Stop r => Stop r end.
Proof.
  revert s. induction a as [|a IH]; intros s; [reflexivity|]. cbn [Nat.add run_n].
  destruct (f s); [apply IH|reflexivity].
Qed.

Lemma loop_pos_run {St Rs} p (f : St -> step_res St Rs) s : loop_pos p f s = run_n (Pos.to_nat p) f s.
Proof.
  revert s. induction p as [q IH|q IH|]; intros s; cbn [loop_pos].
  - rewrite Pos2Nat.inj_xI. replace (S (2 * Pos.to_nat q))%nat with (1 + (Pos.to_nat q + Pos.to_nat q))%nat by lia.
    rewrite run_n_add. cbn [run_n]. destruct (f s) as [s1|r]; [|reflexivity].
    rewrite run_n_add. rewrite IH. destruct (run_n (Pos.to_nat q) f s1); [apply IH|reflexivity].
  - rewrite Pos2Nat.inj_xO. replace (2 * Pos.to_nat q)%nat with (Pos.to_nat q + Pos.to_nat q)%nat by lia.
    rewrite run_n_add. rewrite IH. destruct (run_n (Pos.to_nat q) f s); [apply IH|reflexivity].
  - change (Pos.to_nat 1) with 1%nat. cbn [run_n]. destruct (f s); reflexivity.
Qed.

Lemma run_n_stop_mono {St Rs} n m (f : St -> step_res St Rs) s r : run_n n f s = Stop r -> (n <= m)%nat -> run_n m f s = Stop r.
Proof.
  revert m s. induction n as [|n IH]; intros m s H L; [discriminate|].
  destruct m as [|m]; [lia|]. cbn [run_n] in *. destruct (f s); [apply IH; [exact H|lia]|exact H].
Qed.

Lemma loop_n_stop {St Rs} (budget : N) n (f : St -> step_res St Rs) s r :
  run_n n f s = Stop r -> N.of_nat n <= budget -> loop_n budget f s = Stop r.
Proof.
  intros H L. destruct budget as [|p]; [destruct n; [discriminate|lia]|].
  cbn [loop_n]. rewrite loop_pos_run. apply (run_n_stop_mono n); [exact H|lia].
Qed.

(* ------------------------------------------------------------------ alignment and raw bytes *)
Lemma len_mod8_spec : forall n (l : bits), (length l <= n)%nat -> len_mod8 l = Nat.modulo (length l) 8.
Proof.
  induction n as [n IH] using lt_wf_ind. intros l Hl.
  destruct l as [|b1 [|b2 [|b3 [|b4 [|b5 [|b6 [|b7 [|b8 r]]]]]]]]; try reflexivity.
  cbn [len_mod8]. rewrite (IH (length r)); [|cbn [length] in Hl; lia|lia].
  cbn [length].
  replace (S (S (S (S (S (S (S (S (length r))))))))) with (length r + 1 * 8)%nat by lia.
  rewrite Nat.mod_add by discriminate. reflexivity.
Qed.

Lemma n2b_zero n : N_to_bits n 0 = repeat false n.
Proof.
  induction n as [|n IH]; [reflexivity|]. cbn [N_to_bits repeat].
  change (N.div2 0) with 0. change (N.odd 0) with false. rewrite IH. reflexivity.
Qed.

Lemma align_zeros p rest : (p < 8)%nat -> Nat.modulo (length rest) 8 = 0%nat ->
  align (repeat false p ++ rest) = Ok (tt, rest).
Proof.
  intros Hp Hr. unfold align.
  rewrite (len_mod8_spec _ _ (le_n _)). rewrite app_length, repeat_length.
  assert (E : Nat.modulo (p + length rest) 8 = p).
  { pose proof (Nat.div_mod (length rest) 8 ltac:(discriminate)) as D. rewrite Hr in D.
    replace (p + length rest)%nat with (p + (length rest / 8) * 8)%nat by lia.
    rewrite Nat.mod_add by discriminate. apply Nat.mod_small. exact Hp. }
  rewrite E. rewrite <- n2b_zero. rewrite read_bits_n2b; [reflexivity|].
  apply N.neq_0_lt_0. apply N.pow_nonzero. discriminate.
Qed.

Lemma bytes_bits_app a b : bytes_bits (a ++ b) = bytes_bits a ++ bytes_bits b.
Proof. unfold bytes_bits. apply flat_map_app. Qed.
Lemma bytes_bits_length l : length (bytes_bits l) = (8 * length l)%nat.
Proof.
  induction l as [|b t IH]; [reflexivity|]. unfold bytes_bits in *. cbn [flat_map]. rewrite app_length, IH, n2b_length.
  cbn [length]. lia.
Qed.

Lemma rbytes_pos_spec p : forall acc l rest, length l = Pos.to_nat p -> Forall (fun b => b < 256) l ->
  rbytes_pos p acc (bytes_bits l ++ rest) = Ok (rev l ++ acc, rest).
Proof.
  induction p as [q IH|q IH|]; intros acc l rest Hl Hb; cbn [rbytes_pos].
  - (* 1 + q + q *)
    destruct l as [|b l]; [rewrite Pos2Nat.inj_xI in Hl; cbn in Hl; lia|].
    rewrite Pos2Nat.inj_xI in Hl. cbn [length] in Hl.
    inversion Hb as [|? ? Hb0 Hb1]; subst.
    set (la := firstn (Pos.to_nat q) l). set (lc := skipn (Pos.to_nat q) l).
    assert (El : l = la ++ lc) by (symmetry; apply firstn_skipn).
    assert (Ha : length la = Pos.to_nat q) by (unfold la; rewrite firstn_length; lia).
    assert (Hc : length lc = Pos.to_nat q) by (unfold lc; rewrite skipn_length; lia).
    assert (Fa : Forall (fun b => b < 256) la) by (rewrite El in Hb1; apply Forall_app in Hb1; tauto).
    assert (Fc : Forall (fun b => b < 256) lc) by (rewrite El in Hb1; apply Forall_app in Hb1; tauto).
    change (bytes_bits (b :: l)) with (N_to_bits 8 b ++ bytes_bits l). rewrite <- app_assoc.
    rewrite read_bits_n2b by exact Hb0.
    rewrite El at 1. rewrite bytes_bits_app, <- app_assoc.
    rewrite (IH (b :: acc) la _ Ha Fa). rewrite (IH _ lc rest Hc Fc).
    f_equal. f_equal. rewrite El. cbn [rev]. rewrite rev_app_distr. rewrite <- !app_assoc. reflexivity.
  - rewrite Pos2Nat.inj_xO in Hl.
    set (la := firstn (Pos.to_nat q) l). set (lc := skipn (Pos.to_nat q) l).
    assert (El : l = la ++ lc) by (symmetry; apply firstn_skipn).
    assert (Ha : length la = Pos.to_nat q) by (unfold la; rewrite firstn_length; lia).
    assert (Hc : length lc = Pos.to_nat q) by (unfold lc; rewrite skipn_length; lia).
    assert (Fa : Forall (fun b => b < 256) la) by (rewrite El in Hb; apply Forall_app in Hb; tauto).
    assert (Fc : Forall (fun b => b < 256) lc) by (rewrite El in Hb; apply Forall_app in Hb; tauto).
    rewrite El at 1. rewrite bytes_bits_app, <- app_assoc.
    rewrite (IH acc la _ Ha Fa). rewrite (IH _ lc rest Hc Fc).
    f_equal. f_equal. rewrite El. rewrite rev_app_distr. rewrite <- !app_assoc. reflexivity.
  - destruct l as [|b [|b2 l]]; try (cbn in Hl; lia).
    inversion Hb as [|? ? Hb0 _]; subst.
    change (bytes_bits [b]) with (N_to_bits 8 b ++ []). rewrite <- app_assoc. cbn [app].
    rewrite read_bits_n2b by exact Hb0. reflexivity.
Qed.

Lemma rbytes_spec l rest : Forall (fun b => b < 256) l ->
  rbytes (N.of_nat (length l)) (bytes_bits l ++ rest) = Ok (l, rest).
Proof.
  intros Hb. unfold rbytes. destruct l as [|b t]; [reflexivity|].
  cbn [length N.of_nat]. unfold bind.
  rewrite (rbytes_pos_spec _ [] (b :: t) rest); [|cbn [length]; rewrite SuccNat2Pos.id_succ; reflexivity|exact Hb].
  unfold ret. rewrite app_nil_r. unfold rev'. rewrite <- rev_alt. rewrite rev_involutive. reflexivity.
Qed.

(* ------------------------------------------------------------------ the stored-stream writer (model/MetaBlockHeader.v: store_chunks) *)
Definition chunk_ok (c : list N) : Prop := 1 <= N.of_nat (length c) /\ N.of_nat (length c) <= 2 ^ 24 /\ Forall (fun b => b < 256) c.

Section Stored.
  Variable dict_word : N -> N -> list N.
  Variable transform_tbl : N -> option (list N * N * list N).

  Definition with_bits (s : dstate) (bs : bits) : dstate :=
    {| d_out := d_out s; d_ring := d_ring s; d_info := d_info s; d_bits := bs |}.

  Lemma emit_list_app o a b : emit_list (emit_list o a) b = emit_list o (a ++ b).
  Proof. unfold emit_list. rewrite fold_left_app. reflexivity. Qed.

  Lemma emit_list_rev l : forall o, o_rev (emit_list o l) = rev l ++ o_rev o.
  Proof.
    induction l as [|b t IH]; intros o; [reflexivity|].
    unfold emit_list in *. cbn [fold_left]. rewrite IH. cbn [emit o_rev rev]. rewrite <- app_assoc. reflexivity.
  Qed.

  Lemma jump_spec o : exists p, jump_to_byte_boundary o = o ++ repeat false p /\ (p < 8)%nat /\ Nat.modulo (length o + p) 8 = 0%nat.
  Proof.
    unfold jump_to_byte_boundary. set (L := length o).
    exists (Nat.modulo (8 - Nat.modulo L 8) 8). split; [reflexivity|].
    assert (Hm : (Nat.modulo L 8 < 8)%nat) by (apply Nat.mod_upper_bound; discriminate).
    split; [apply Nat.mod_upper_bound; discriminate|].
    pose proof (Nat.div_mod L 8 ltac:(discriminate)) as E.
    remember (Nat.modulo L 8) as r eqn:Er. remember (Nat.div L 8) as q eqn:Eq.
    destruct (Nat.eq_dec r 0) as [->|Hr].
    - change (Nat.modulo (8 - 0) 8) with 0%nat. replace (L + 0)%nat with (0 + q * 8)%nat by lia.
      apply Nat.mod_add. discriminate.
    - rewrite (Nat.mod_small (8 - r) 8) by lia. replace (L + (8 - r))%nat with (0 + (q + 1) * 8)%nat by lia.
      apply Nat.mod_add. discriminate.
  Qed.

  Lemma mod8_split a b : Nat.modulo a 8 = 0%nat -> Nat.modulo (a + b) 8 = 0%nat -> Nat.modulo b 8 = 0%nat.
  Proof.
    intros Ha Hab. pose proof (Nat.div_mod a 8 ltac:(discriminate)) as E. rewrite Ha in E.
    replace (a + b)%nat with (b + (a / 8) * 8)%nat in Hab by lia. rewrite Nat.mod_add in Hab by discriminate. exact Hab.
  Qed.

  (* the suffix written for a list of chunks is consumed by the meta-block loop in |chunks| + 1 steps *)
  Lemma stored_suffix chunks : Forall chunk_ok chunks -> forall out,
    exists sfx, store_chunks chunks out = Some (out ++ sfx) /\ Nat.modulo (length (out ++ sfx)) 8 = 0%nat /\
      forall large w budget (s : dstate),
        exists s', run_n (S (length chunks)) (meta_block dict_word transform_tbl large w budget) (with_bits s sfx) = Stop (StreamDone s') /\
                   d_out s' = emit_list (d_out s) (concat chunks) /\
                   exists pad, d_bits s' = repeat false pad /\ (pad < 8)%nat.
  Proof.
    induction chunks as [|c t IH]; intros Hok out.
    - destruct (empty_last_roundtrip out []) as (pad & W & M & P & _).
      exists ([true; true] ++ repeat false pad). split; [exact W|]. split.
      + rewrite !app_length, repeat_length. cbn [length]. replace (length out + (2 + pad))%nat with (length out + 2 + pad)%nat by lia. exact M.
      + intros large w budget s. eexists. split.
        * cbn [length run_n]. unfold meta_block. cbn [with_bits d_bits].
          destruct (empty_last_roundtrip out (repeat false pad)) as (_ & _ & _ & _ & Rd).
          rewrite Rd. reflexivity.
        * cbn [d_out d_bits concat]. split; [reflexivity|]. exists pad. split; [reflexivity|exact P].
    - inversion Hok as [|? ? (L1 & L2 & Lb) Ht]; subst.
      cbn [store_chunks].
      destruct (uncompressed_header_roundtrip (N.of_nat (length c)) out [] L1 L2) as (h & Wh & _).
      rewrite Wh. cbn [obind].
      destruct (jump_spec (out ++ h)) as (p & Jp & Pp & Mp). rewrite Jp.
      set (out2 := ((out ++ h) ++ repeat false p) ++ bytes_bits c).
      assert (M2 : Nat.modulo (length out2) 8 = 0%nat).
      { unfold out2. rewrite app_length, bytes_bits_length. rewrite (app_length (out ++ h)), repeat_length.
        pose proof (Nat.div_mod (length (out ++ h) + p) 8 ltac:(discriminate)) as E. rewrite Mp in E.
        replace (length (out ++ h) + p + 8 * length c)%nat with (0 + ((length (out ++ h) + p) / 8 + length c) * 8)%nat by lia.
        apply Nat.mod_add. discriminate. }
      destruct (IH Ht out2) as (sfx2 & W2 & Mall & Run2).
      exists (h ++ repeat false p ++ bytes_bits c ++ sfx2). split; [|split].
      + rewrite W2. f_equal. unfold out2. rewrite <- !app_assoc. reflexivity.
      + replace (out ++ h ++ repeat false p ++ bytes_bits c ++ sfx2) with (out2 ++ sfx2)
          by (unfold out2; rewrite <- !app_assoc; reflexivity). exact Mall.
      + intros large w budget s.
        assert (Ms : Nat.modulo (length sfx2) 8 = 0%nat) by (apply (mod8_split (length out2)); [exact M2|rewrite <- app_length; exact Mall]).
        destruct (uncompressed_header_roundtrip (N.of_nat (length c)) out (repeat false p ++ bytes_bits c ++ sfx2) L1 L2) as (h' & Wh' & Rh).
        assert (Eh : h' = h).
        { rewrite Wh in Wh'. inversion Wh' as [E]. apply app_inv_head in E. symmetry. exact E. }
        subst h'.
        set (s1 := {| d_out := emit_list (d_out s) c; d_ring := d_ring s; d_info := bump (d_info s) K_uncompressed; d_bits := sfx2 |}).
        destruct (Run2 large w budget s1) as (s' & R2 & O2 & Pad2).
        exists s'. split; [|split].
        * cbn [length]. change (S (S (length t))) with (1 + S (length t))%nat.
          rewrite run_n_add. cbn [run_n]. unfold meta_block at 1. cbn [with_bits d_bits d_out d_ring d_info].
          rewrite Rh. unfold bind.
          rewrite align_zeros; [|exact Pp|rewrite app_length, bytes_bits_length; 
            pose proof (Nat.div_mod (length sfx2) 8 ltac:(discriminate)) as E; rewrite Ms in E;
            replace (8 * length c + length sfx2)%nat with (0 + (length c + length sfx2 / 8) * 8)%nat by lia;
            apply Nat.mod_add; discriminate].
          rewrite rbytes_spec by exact Lb.
          fold s1. replace s1 with (with_bits s1 sfx2) by reflexivity. exact R2.
        * rewrite O2. unfold s1. cbn [d_out]. rewrite emit_list_app. reflexivity.
        * exact Pad2.
  Qed.

  (* (e, proved part) any stream header that read_wbits accepts, followed by stored chunks, decodes to
     the concatenation of the chunks *)
  Theorem stored_stream_roundtrip hb wbits large chunks budget :
    (forall rest, read_wbits true (hb ++ rest) = Ok ((wbits, large), rest)) ->
    Forall chunk_ok chunks -> N.of_nat (length chunks) + 1 <= budget ->
    exists bs info, store_chunks chunks hb = Some bs /\ Nat.modulo (length bs) 8 = 0%nat /\
      decode_bits dict_word transform_tbl true [] bs budget = Ok (concat chunks, info).
  Proof.
    intros Hh Hok Hb.
    destruct (stored_suffix chunks Hok hb) as (sfx & W & M & Run).
    set (i0 := nset (if large then bump PE K_large else PE) K_wbits wbits).
    set (s0 := {| d_out := o_init []; d_ring := ring_init; d_info := i0; d_bits := sfx |}).
    destruct (Run large (2 ^ wbits - 16) budget s0) as (s' & R & O & (pad & Bp & Pp)).
    exists (hb ++ sfx), (d_info s'). split; [exact W|]. split; [exact M|].
    unfold decode_bits. rewrite Hh. fold i0. fold s0.
    assert (E0 : with_bits s0 sfx = s0) by reflexivity. rewrite E0 in R.
    rewrite (loop_n_stop budget _ _ _ _ R) by lia.
    rewrite Bp. replace (repeat false pad) with (repeat false pad ++ []) by apply app_nil_r.
    rewrite align_zeros by (try exact Pp; reflexivity).
    f_equal. f_equal. rewrite O. rewrite emit_list_rev. cbn [o_init fold_left o_rev]. rewrite app_nil_r.
    unfold rev'. rewrite <- rev_alt. apply rev_involutive.
  Qed.
End Stored.

(* the stream header of the encoder (EncodeWindowBits, model/Stream.v) satisfies the header premise:
   for every window the encoder can declare, D reads back that window and the large-window flag *)
From V Require Import model.Stream proofs.Format_proofs.
Lemma window_bits_read (w : Z) (lw : bool) : (10 <= w <= 30)%Z -> (lw = false -> (w <= 24)%Z) ->
  forall rest, read_wbits true (N_to_bits (N.to_nat (snd (encode_window_bits w lw))) (fst (encode_window_bits w lw)) ++ rest)
               = Ok ((Z.to_N w, lw), rest).
Proof.
  intros Hw Hl rest.
  assert (I : In w (zrange 10 21)) by (apply zrange_In; cbn; lia).
  destruct lw.
  - cbn in I. repeat (destruct I as [<-|I]; [vm_compute; reflexivity|]). destruct I.
  - specialize (Hl eq_refl).
    assert (I2 : In w (zrange 10 15)) by (apply zrange_In; cbn; lia).
    cbn in I2. repeat (destruct I2 as [<-|I2]; [vm_compute; reflexivity|]). destruct I2.
Qed.
