(* Theorems about the stream state machine model (model/Stream.v).  They hold for EVERY
   oracle (list of recorded back-end answers): the glue logic decides them. *)
From Coq Require Import NArith ZArith List Bool Lia.
From V Require Import lib.Words model.Stream.
Import ListNotations.
Open Scope N_scope.

Lemma sstate_eqb_spec a b : sstate_eqb a b = true <-> a = b.
Proof. destruct a, b; cbn; split; intros H; try reflexivity; try discriminate. Qed.

(* ---- parameters are frozen by the first stream call ---- *)
Lemma set_parameter_frozen s id v : initialized s = true -> set_parameter s id v = (false, s).
Proof. intros H. unfold set_parameter. rewrite H. reflexivity. Qed.

Lemma ensure_initialized_initialized s : initialized (ensure_initialized s) = true.
Proof.
  unfold ensure_initialized. destruct (initialized s) eqn:E; [exact E|].
  destruct (encode_window_bits _ _) as [lb lbb]. reflexivity.
Qed.

Lemma ensure_initialized_id s : initialized s = true -> ensure_initialized s = s.
Proof. intros H. unfold ensure_initialized. rewrite H. reflexivity. Qed.

(* every path through compress_stream leaves the encoder initialised, whatever it returns *)
Definition io0 (offered capn : N) : io :=
  {| avail_in := offered; in_off := 0; cap := capn; produced := []; total_arg := 0 |}.

(* ---- finished is absorbing ---- *)
Lemma loop_fuel_pos n : exists f, loop_fuel n = S f.
Proof.
  unfold loop_fuel. exists (63 + N.to_nat (n / 256))%nat. rewrite N2Nat.inj_add.
  change (N.to_nat 64) with 64%nat. remember (N.to_nat (n / 256)) as k. lia.
Qed.

Lemma finished_no_push s x : is_finished s = true ->
  inject_flush_or_push_output s x = Done None.
Proof.
  unfold is_finished, has_more_output, inject_flush_or_push_output. intros H.
  apply andb_true_iff in H. destruct H as [H1 H2]. apply sstate_eqb_spec in H1.
  rewrite negb_true_iff, negb_false_iff in H2. rewrite H1, H2. reflexivity.
Qed.

Lemma finished_check_flush s : is_finished s = true -> check_flush_complete s = s.
Proof.
  unfold is_finished, check_flush_complete. intros H.
  apply andb_true_iff in H. destruct H as [H1 _]. apply sstate_eqb_spec in H1. rewrite H1. reflexivity.
Qed.

Theorem finished_absorbing s op payload offered capn :
  initialized s = true -> rem_meta s = U32MAX -> is_finished s = true ->
  exists r s',
    compress_stream s op payload offered capn = Done (r, s', io0 offered capn)
    /\ is_finished s' = true /\ oracle s' = oracle s /\ total_out_ s' = total_out_ s
    /\ (offered <> 0 -> r = false).
Proof.
  intros Hi Hr Hf. unfold compress_stream. rewrite (ensure_initialized_id s Hi). fold (io0 offered capn).
  rewrite Hr. rewrite N.eqb_refl. cbn [negb andb].
  assert (Hs : sstate_ s = SFinished).
  { unfold is_finished in Hf. apply andb_true_iff in Hf. destruct Hf as [H1 _]. apply sstate_eqb_spec; exact H1. }
  destruct (opk_eqb op OpMeta) eqn:Eop.
  - (* metadata after finish: refused *)
    unfold process_metadata.
    assert (Hs' : sstate_ (update_size_hint s 0) = SFinished).
    { unfold update_size_hint. destruct (size_hint s =? 0); [|exact Hs]. exact Hs. }
    assert (Hf' : is_finished (update_size_hint s 0) = true).
    { unfold update_size_hint. destruct (size_hint s =? 0); exact Hf. }
    assert (Ho : oracle (update_size_hint s 0) = oracle s /\ total_out_ (update_size_hint s 0) = total_out_ s).
    { unfold update_size_hint. destruct (size_hint s =? 0); split; reflexivity. }
    cbn [avail_in io0].
    destruct (2 ^ 24 <? offered).
    + exists false, (update_size_hint s 0). repeat split; try tauto; try exact Hf'; apply Ho.
    + cbv zeta. rewrite !Hs'. cbn [sstate_eqb negb andb]. rewrite !Hs'. cbn [sstate_eqb negb andb].
      exists false, (update_size_hint s 0). repeat split; try tauto; try exact Hf'; apply Ho.
  - rewrite Hs. cbn [sstate_eqb orb negb andb].
    destruct (offered =? 0) eqn:Eo.
    + cbn [negb].
      apply N.eqb_eq in Eo. subst offered.
      assert (L1 : forall f, stream_loop (S f) op s (io0 0 capn) = Done (true, s, io0 0 capn)).
      { intros f. cbn [stream_loop]. cbn [avail_in io0]. rewrite N.eqb_refl. rewrite andb_false_r.
        rewrite (finished_no_push s _ Hf). rewrite Hs. cbn [sstate_eqb]. rewrite andb_false_r. cbn [andb].
        rewrite (finished_check_flush s Hf). reflexivity. }
      assert (L2 : forall f, fast_loop (S f) op s (io0 0 capn) = Done (true, s, io0 0 capn)).
      { intros f. cbn [fast_loop]. rewrite (finished_no_push s _ Hf). rewrite Hs. cbn [sstate_eqb].
        rewrite andb_false_r. cbn [andb]. rewrite (finished_check_flush s Hf). reflexivity. }
      destruct (loop_fuel_pos 0) as [f Ef]. rewrite Ef.
      destruct (((quality s =? 0)%Z || (quality s =? 1)%Z) && negb (catable s) && negb (magic s)).
      * exists true, s. rewrite L2. repeat split; try assumption. intros H; contradiction H; reflexivity.
      * exists true, s. rewrite L1. repeat split; try assumption. intros H; contradiction H; reflexivity.
    + cbn [negb]. exists false, s. repeat split; assumption || reflexivity.
Qed.

(* ---- contract violations are refused before any state change ---- *)
Theorem metadata_midblock_refused s op payload offered capn :
  initialized s = true -> rem_meta s <> U32MAX ->
  (offered <> rem_meta s \/ op <> OpMeta) ->
  compress_stream s op payload offered capn = Done (false, s, io0 offered capn).
Proof.
  intros Hi Hr Hv. unfold compress_stream. rewrite (ensure_initialized_id s Hi). fold (io0 offered capn).
  destruct (N.eqb_spec (rem_meta s) U32MAX) as [E|_]; [contradiction|]. cbn [negb andb].
  destruct Hv as [Hv|Hv].
  - destruct (N.eqb_spec offered (rem_meta s)) as [E|_]; [contradiction|]. reflexivity.
  - destruct op; try (rewrite orb_true_r; reflexivity). contradiction Hv; reflexivity.
Qed.

Theorem metadata_oversize_refused s payload offered capn :
  initialized s = true -> rem_meta s = U32MAX -> 2 ^ 24 < offered ->
  compress_stream s OpMeta payload offered capn = Done (false, update_size_hint s 0, io0 offered capn).
Proof.
  intros Hi Hr Hv. unfold compress_stream. rewrite (ensure_initialized_id s Hi). fold (io0 offered capn).
  rewrite Hr, N.eqb_refl. cbn [negb andb opk_eqb]. unfold process_metadata. cbn [avail_in io0].
  destruct (N.ltb_spec (2 ^ 24) offered) as [_|H]; [reflexivity|lia].
Qed.

Theorem input_refused_unless_processing s op payload offered capn :
  initialized s = true -> rem_meta s = U32MAX -> op <> OpMeta ->
  sstate_ s <> SProcessing -> offered <> 0 ->
  compress_stream s op payload offered capn = Done (false, s, io0 offered capn).
Proof.
  intros Hi Hr Hop Hs Ho. unfold compress_stream. rewrite (ensure_initialized_id s Hi). fold (io0 offered capn).
  rewrite Hr, N.eqb_refl. cbn [negb andb].
  assert (Eop : opk_eqb op OpMeta = false) by (destruct op; try reflexivity; contradiction Hop; reflexivity).
  rewrite Eop.
  destruct (sstate_eqb (sstate_ s) SMetaHead || sstate_eqb (sstate_ s) SMetaBody); [reflexivity|].
  assert (Es : sstate_eqb (sstate_ s) SProcessing = false).
  { destruct (sstate_eqb (sstate_ s) SProcessing) eqn:E; [|reflexivity]. apply sstate_eqb_spec in E. contradiction. }
  rewrite Es. destruct (N.eqb_spec offered 0) as [E|_]; [contradiction|]. reflexivity.
Qed.
