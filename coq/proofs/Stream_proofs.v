(* Theorems about the stream state machine model (model/Stream.v).  They hold for EVERY
   oracle (list of recorded back-end answers): the glue logic decides them. *)
From Coq Require Import NArith ZArith List Bool Lia.
From V Require Import lib.Words model.Stream.
Import ListNotations.
Open Scope N_scope.

Lemma sstate_eqb_spec a b : sstate_eqb a b = true <-> a = b.
Proof. destruct a, b; cbn; split; intros H; try reflexivity; try discriminate. Qed.

(* ---- parameters are frozen by the first stream call ---- *)
Lemma set_parameter_frozen s id v : initialized s = true -> set_parameter s id v = (false, s).
Proof. intros H. unfold set_parameter. rewrite H. reflexivity. Qed.

Lemma ensure_initialized_initialized s : initialized (ensure_initialized s) = true.
Proof.
  unfold ensure_initialized. destruct (initialized s) eqn:E; [exact E|].
  destruct (encode_window_bits _ _) as [lb lbb]. reflexivity.
Qed.

Lemma ensure_initialized_id s : initialized s = true -> ensure_initialized s = s.
Proof. intros H. unfold ensure_initialized. rewrite H. reflexivity. Qed.

(* every path through compress_stream leaves the encoder initialised, whatever it returns *)
Definition io0 (offered capn : N) : io :=
  {| avail_in := offered; in_off := 0; cap := capn; produced := []; total_arg := 0 |}.

(* ---- finished is absorbing ---- *)
Lemma loop_fuel_pos n : exists f, loop_fuel n = S f.
Proof.
  unfold loop_fuel. exists (63 + N.to_nat (n / 256))%nat. rewrite N2Nat.inj_add.
  change (N.to_nat 64) with 64%nat. remember (N.to_nat (n / 256)) as k. lia.
Qed.

Lemma finished_no_push s x : is_finished s = true ->
  inject_flush_or_push_output s x = Done None.
Proof.
  unfold is_finished, has_more_output, inject_flush_or_push_output. intros H.
  apply andb_true_iff in H. destruct H as [H1 H2]. apply sstate_eqb_spec in H1.
  rewrite negb_true_iff, negb_false_iff in H2. rewrite H1, H2. reflexivity.
Qed.

Lemma finished_check_flush s : is_finished s = true -> check_flush_complete s = s.
Proof.
  unfold is_finished, check_flush_complete. intros H.
  apply andb_true_iff in H. destruct H as [H1 _]. apply sstate_eqb_spec in H1. rewrite H1. reflexivity.
Qed.

Theorem finished_absorbing s op payload offered capn :
  initialized s = true -> rem_meta s = U32MAX -> is_finished s = true ->
  exists r s',
    compress_stream s op payload offered capn = Done (r, s', io0 offered capn)
    /\ is_finished s' = true /\ oracle s' = oracle s /\ total_out_ s' = total_out_ s
    /\ (offered <> 0 -> r = false).
Proof.
  intros Hi Hr Hf. unfold compress_stream, compress_stream_from. rewrite (ensure_initialized_id s Hi). fold (io0 offered capn).
  rewrite Hr. rewrite N.eqb_refl. cbn [negb andb].
  assert (Hs : sstate_ s = SFinished).
  { unfold is_finished in Hf. apply andb_true_iff in Hf. destruct Hf as [H1 _]. apply sstate_eqb_spec; exact H1. }
  destruct (opk_eqb op OpMeta) eqn:Eop.
  - (* metadata after finish: refused *)
    unfold process_metadata.
    assert (Hs' : sstate_ (update_size_hint s 0) = SFinished).
    { unfold update_size_hint. destruct (size_hint s =? 0); [|exact Hs]. exact Hs. }
    assert (Hf' : is_finished (update_size_hint s 0) = true).
    { unfold update_size_hint. destruct (size_hint s =? 0); exact Hf. }
    assert (Ho : oracle (update_size_hint s 0) = oracle s /\ total_out_ (update_size_hint s 0) = total_out_ s).
    { unfold update_size_hint. destruct (size_hint s =? 0); split; reflexivity. }
    cbn [avail_in io0].
    destruct (2 ^ 24 <? offered).
    + exists false, (update_size_hint s 0). repeat split; try tauto; try exact Hf'; apply Ho.
    + cbv zeta. rewrite !Hs'. cbn [sstate_eqb negb andb]. rewrite !Hs'. cbn [sstate_eqb negb andb].
      exists false, (update_size_hint s 0). repeat split; try tauto; try exact Hf'; apply Ho.
  - rewrite Hs. cbn [sstate_eqb orb negb andb].
    destruct (offered =? 0) eqn:Eo.
    + cbn [negb].
      apply N.eqb_eq in Eo. subst offered.
      assert (L1 : forall f, stream_loop (S f) op s (io0 0 capn) = Done (true, s, io0 0 capn)).
      { intros f. cbn [stream_loop]. cbn [avail_in io0]. rewrite N.eqb_refl. rewrite andb_false_r.
        rewrite (finished_no_push s _ Hf). rewrite Hs. cbn [sstate_eqb]. rewrite andb_false_r. cbn [andb].
        rewrite (finished_check_flush s Hf). reflexivity. }
      assert (L2 : forall f, fast_loop (S f) op s (io0 0 capn) = Done (true, s, io0 0 capn)).
      { intros f. cbn [fast_loop]. rewrite (finished_no_push s _ Hf). rewrite Hs. cbn [sstate_eqb].
        rewrite andb_false_r. cbn [andb]. rewrite (finished_check_flush s Hf). reflexivity. }
      destruct (loop_fuel_pos 0) as [f Ef]. rewrite Ef.
      destruct (((quality s =? 0)%Z || (quality s =? 1)%Z) && negb (catable s) && negb (magic s)).
      * exists true, s. rewrite L2. repeat split; try assumption. intros H; contradiction H; reflexivity.
      * exists true, s. rewrite L1. repeat split; try assumption. intros H; contradiction H; reflexivity.
    + cbn [negb]. exists false, s. repeat split; assumption || reflexivity.
Qed.

(* ---- contract violations are refused before any state change ---- *)
Theorem metadata_midblock_refused s op payload offered capn :
  initialized s = true -> rem_meta s <> U32MAX ->
  (offered <> rem_meta s \/ op <> OpMeta) ->
  compress_stream s op payload offered capn = Done (false, s, io0 offered capn).
Proof.
  intros Hi Hr Hv. unfold compress_stream, compress_stream_from. rewrite (ensure_initialized_id s Hi). fold (io0 offered capn).
  destruct (N.eqb_spec (rem_meta s) U32MAX) as [E|_]; [contradiction|]. cbn [negb andb].
  destruct Hv as [Hv|Hv].
  - destruct (N.eqb_spec offered (rem_meta s)) as [E|_]; [contradiction|]. reflexivity.
  - destruct op; try (rewrite orb_true_r; reflexivity). contradiction Hv; reflexivity.
Qed.

Theorem metadata_oversize_refused s payload offered capn :
  initialized s = true -> rem_meta s = U32MAX -> 2 ^ 24 < offered ->
  compress_stream s OpMeta payload offered capn = Done (false, update_size_hint s 0, io0 offered capn).
Proof.
  intros Hi Hr Hv. unfold compress_stream, compress_stream_from. rewrite (ensure_initialized_id s Hi). fold (io0 offered capn).
  rewrite Hr, N.eqb_refl. cbn [negb andb opk_eqb]. unfold process_metadata. cbn [avail_in io0].
  destruct (N.ltb_spec (2 ^ 24) offered) as [_|H]; [reflexivity|lia].
Qed.

Theorem input_refused_unless_processing s op payload offered capn :
  initialized s = true -> rem_meta s = U32MAX -> op <> OpMeta ->
  sstate_ s <> SProcessing -> offered <> 0 ->
  compress_stream s op payload offered capn = Done (false, s, io0 offered capn).
Proof.
  intros Hi Hr Hop Hs Ho. unfold compress_stream, compress_stream_from. rewrite (ensure_initialized_id s Hi). fold (io0 offered capn).
  rewrite Hr, N.eqb_refl. cbn [negb andb].
  assert (Eop : opk_eqb op OpMeta = false) by (destruct op; try reflexivity; contradiction Hop; reflexivity).
  rewrite Eop.
  destruct (sstate_eqb (sstate_ s) SMetaHead || sstate_eqb (sstate_ s) SMetaBody); [reflexivity|].
  assert (Es : sstate_eqb (sstate_ s) SProcessing = false).
  { destruct (sstate_eqb (sstate_ s) SProcessing) eqn:E; [|reflexivity]. apply sstate_eqb_spec in E. contradiction. }
  rewrite Es. destruct (N.eqb_spec offered 0) as [E|_]; [contradiction|]. reflexivity.
Qed.

(* ====================================================================================== *)
(* C04: a completed flush ends on a byte boundary with everything emitted                  *)
(* ====================================================================================== *)

Definition all_ok (l : list answer) : Prop := forallb answer_ok l = true.

Lemma outcome_inv_padding s s' : inject_byte_padding_block s = Done s' ->
  sstate_ s' = sstate_ s /\ input_pos s' = input_pos s /\ last_flush_pos s' = last_flush_pos s
  /\ oracle s' = oracle s /\ last_bytes_bits s' = 0.
Proof.
  unfold inject_byte_padding_block, write_at_cursor. intros H.
  cbn [avail_out_ upd_bits] in H.
  destruct (avail_out_ s =? 0); cbn [next_out upd_bits upd_out] in H.
  - match type of H with context [if ?c then _ else _] => destruct c end; try discriminate.
    inversion H; subst s'; clear H. cbn. repeat split; reflexivity.
  - destruct (next_out s) eqn:En; cbn [next_out upd_bits upd_out] in H; try rewrite En in H;
      match type of H with context [if ?c then _ else _] => destruct c end; try discriminate;
      inversion H; subst s'; clear H; cbn; repeat split; reflexivity.
Qed.

Lemma inject_some s x s' x' : inject_flush_or_push_output s x = Done (Some (s', x')) ->
  sstate_ s' = sstate_ s /\ input_pos s' = input_pos s /\ last_flush_pos s' = last_flush_pos s
  /\ oracle s' = oracle s /\ avail_in x' = avail_in x
  /\ (sstate_ s = SFlushRequested -> last_bytes_bits s <> 0 -> last_bytes_bits s' = 0).
Proof.
  unfold inject_flush_or_push_output. intros H.
  destruct (sstate_eqb (sstate_ s) SFlushRequested && negb (last_bytes_bits s =? 0)) eqn:C.
  - destruct (inject_byte_padding_block s) as [s1| | |] eqn:E; try discriminate.
    inversion H; subst s1 x'; clear H.
    destruct (outcome_inv_padding s s' E) as [A [B [C' [D F]]]]. repeat split; try assumption. intros _ _; exact F.
  - destruct (negb (avail_out_ s =? 0) && negb (cap x =? 0)); try discriminate.
    destruct (lenN (view s) <? N.min (avail_out_ s) (cap x)); try discriminate.
    inversion H; subst s' x'; clear H. cbn. repeat split; try reflexivity.
    intros Hs Hb. apply andb_false_iff in C. destruct C as [C|C].
    + rewrite Hs in C. discriminate.
    + apply negb_false_iff in C. apply N.eqb_eq in C. contradiction.
Qed.

Lemma inject_none s x : inject_flush_or_push_output s x = Done None ->
  (sstate_ s = SFlushRequested -> last_bytes_bits s = 0).
Proof.
  unfold inject_flush_or_push_output. intros H Hs. rewrite Hs in H. cbn [sstate_eqb andb] in H.
  destruct (N.eqb_spec (last_bytes_bits s) 0) as [E|E]; [exact E|]. cbn [negb] in H.
  destruct (inject_byte_padding_block s); discriminate.
Qed.

Lemma update_size_hint_fields s a :
  sstate_ (update_size_hint s a) = sstate_ s /\ input_pos (update_size_hint s a) = input_pos s
  /\ last_flush_pos (update_size_hint s a) = last_flush_pos s /\ oracle (update_size_hint s a) = oracle s
  /\ avail_out_ (update_size_hint s a) = avail_out_ s /\ last_bytes_bits (update_size_hint s a) = last_bytes_bits s.
Proof. unfold update_size_hint. destruct (size_hint s =? 0); cbn; repeat split; reflexivity. Qed.

Lemma encode_data_true s il ff s2 : encode_data s il ff = Done (true, s2) ->
  exists a rest, oracle s = a :: rest /\ oracle s2 = rest /\ a_ipos a = input_pos s
    /\ a_force_flush a = ff /\ a_is_last a = il /\ a_fast a = false
    /\ sstate_ s2 = sstate_ s /\ input_pos s2 = input_pos s /\ last_flush_pos s2 = a_lfp a
    /\ last_bytes_bits s2 = a_lbb a.
Proof.
  unfold encode_data. intros H. destruct (oracle s) as [|a rest] eqn:Eo; [discriminate|].
  destruct (a_fast a) eqn:Ef; [discriminate|].
  destruct (Bool.eqb (a_is_last a) il) eqn:E1; cbn [negb] in H; [|discriminate].
  destruct (Bool.eqb (a_force_flush a) ff) eqn:E2; cbn [negb] in H; [|discriminate].
  destruct (a_ipos a =? input_pos s) eqn:E3; cbn [negb] in H; [|discriminate].
  destruct (a_hint a =? size_hint s) eqn:E4; cbn [negb] in H; [|discriminate].
  apply Bool.eqb_prop in E1. apply Bool.eqb_prop in E2. apply N.eqb_eq in E3.
  destruct (last_emitted s).
  - destruct (a_result a); discriminate.
  - destruct (input_block_size s <? unprocessed s).
    + destruct (a_result a); discriminate.
    + destruct (a_result a); cbn [negb] in H; [|discriminate].
      match type of H with (if ?c then _ else _) = _ => destruct c; [discriminate|] end.
      match type of H with (if ?c then _ else _) = _ => destruct c; [discriminate|] end.
      inversion H; subst s2; clear H. exists a, rest. cbn. repeat split; try assumption; reflexivity.
Qed.

Lemma all_ok_tail a l : all_ok (a :: l) -> answer_ok a = true /\ all_ok l.
Proof. unfold all_ok. cbn [forallb]. intros H. apply andb_true_iff in H. exact H. Qed.

Lemma answer_ok_flush a : answer_ok a = true -> a_fast a = false -> a_force_flush a = true ->
  a_lfp a = a_ipos a.
Proof.
  unfold answer_ok. intros H Hf Hff. rewrite Hf, Hff in H. rewrite orb_true_r in H.
  repeat (apply andb_true_iff in H; destruct H as [H ?]).
  match goal with K : (_ && _ && _)%bool = true |- _ => idtac | _ => idtac end.
  repeat match goal with K : (_ && _)%bool = true |- _ => apply andb_true_iff in K; destruct K end.
  match goal with K : (a_lfp a =? a_ipos a) = true |- _ => apply N.eqb_eq in K; exact K end.
Qed.

Definition flush_inv (s : st) (x : io) : Prop :=
  sstate_ s = SProcessing \/
  (sstate_ s = SFlushRequested /\ last_flush_pos s = input_pos s /\ avail_in x = 0).

Lemma flush_loop_aligned : forall fuel s x s' x',
  all_ok (oracle s) -> flush_inv s x ->
  stream_loop fuel OpFlush s x = Done (true, s', x') ->
  avail_out_ s' = 0 -> avail_in x' = 0 ->
  last_bytes_bits s' = 0 /\ last_flush_pos s' = input_pos s' /\ sstate_ s' = SProcessing /\ next_out s' = NoNone.
Proof.
  induction fuel as [|f IH]; intros s x s' x' Hok Hinv Hrun Hao Hai; [discriminate|].
  cbn [stream_loop] in Hrun.
  destruct (negb (remaining_input_block_size s =? 0) && negb (avail_in x =? 0)) eqn:Ccopy.
  - (* copy input: only possible while processing *)
    apply andb_true_iff in Ccopy. destruct Ccopy as [_ Cin]. apply negb_true_iff in Cin. apply N.eqb_neq in Cin.
    refine (IH _ _ s' x' _ _ Hrun Hao Hai); [exact Hok|].
    destruct Hinv as [Hp|[_ [_ H0]]]; [left; exact Hp|contradiction].
  - destruct (inject_flush_or_push_output s x) as [[[s1 x1]|]| | |] eqn:Einj; try discriminate.
    + destruct (inject_some s x s1 x1 Einj) as [A [B [C [D [E F]]]]].
      apply (IH s1 x1 s' x'); try assumption.
      * rewrite D; exact Hok.
      * destruct Hinv as [Hp|[Hp [Hq Hr]]]; [left; rewrite A; exact Hp|right].
        rewrite A, B, C, E. repeat split; assumption.
    + destruct ((avail_out_ s =? 0) && sstate_eqb (sstate_ s) SProcessing
                && ((remaining_input_block_size s =? 0) || negb (opk_eqb OpFlush OpProcess))) eqn:Cenc.
      * (* the back end runs *)
        cbn [opk_eqb andb] in Hrun. rewrite andb_false_r in Hrun.
        destruct (update_size_hint_fields s (avail_in x)) as [U1 [U2 [U3 [U4 [U5 U6]]]]].
        destruct (encode_data (update_size_hint s (avail_in x)) false ((avail_in x =? 0) && true)) as [[[|] s2]| | |] eqn:Eenc; try discriminate.
        destruct (encode_data_true _ _ _ _ Eenc) as [a [rest [O1 [O2 [O3 [O4 [O5 [O6 [O7 [O8 [O9 O10]]]]]]]]]]].
        rewrite U4 in O1. rewrite O1 in Hok. destruct (all_ok_tail _ _ Hok) as [Ha Hrest].
        rewrite andb_true_r in *.
        destruct (avail_in x =? 0) eqn:Ein.
        -- (* forced flush: last_flush_pos catches up with input_pos *)
           refine (IH _ _ s' x' _ _ Hrun Hao Hai).
           ++ cbn. rewrite O2. exact Hrest.
           ++ right. cbn. repeat split.
              ** rewrite O9, O8, U2. rewrite (answer_ok_flush a Ha O6 O4). rewrite O3, U2. reflexivity.
              ** apply N.eqb_eq; exact Ein.
        -- refine (IH _ _ s' x' _ _ Hrun Hao Hai).
           ++ rewrite O2. exact Hrest.
           ++ left. rewrite O7, U1. apply andb_true_iff in Cenc. destruct Cenc as [Cenc _].
              apply andb_true_iff in Cenc. destruct Cenc as [_ Cs]. apply sstate_eqb_spec; exact Cs.
      * (* exit *)
        inversion Hrun; subst s' x'; clear Hrun.
        assert (Hao' : avail_out_ s = 0).
        { unfold check_flush_complete in Hao. destruct (sstate_eqb (sstate_ s) SFlushRequested && (avail_out_ s =? 0)); exact Hao. }
        assert (Hfl : sstate_ s = SFlushRequested).
        { destruct Hinv as [Hp|[Hp _]]; [|exact Hp]. exfalso.
          rewrite Hao', Hp in Cenc. cbn in Cenc. rewrite orb_true_r in Cenc. discriminate. }
        pose proof (inject_none s x Einj Hfl) as Hlbb.
        unfold check_flush_complete. rewrite Hfl, Hao'. cbn.
        destruct Hinv as [Hp|[_ [Hq _]]]; [rewrite Hp in Hfl; discriminate|].
        repeat split; assumption.
Qed.

(* ---- the one-pass/two-pass path (quality 0/1, not catable, no magic header) ---- *)
Lemma fast_answer_ok s il ff ip blk a s1 : fast_answer s il ff ip blk = Done (a, s1) ->
  exists rest, oracle s = a :: rest /\ oracle s1 = rest /\ sstate_ s1 = sstate_ s
    /\ input_pos s1 = input_pos s /\ last_flush_pos s1 = last_flush_pos s.
Proof.
  unfold fast_answer. intros H. destruct (oracle s) as [|a0 rest] eqn:Eo; [discriminate|].
  repeat match type of H with (if ?c then _ else _) = _ => destruct c; try discriminate end.
  inversion H; subst a0 s1; clear H. exists rest. cbn. repeat split; reflexivity.
Qed.

Definition fast_inv (s : st) (x : io) : Prop :=
  sstate_ s = SProcessing \/ (sstate_ s = SFlushRequested /\ avail_in x = 0).

Lemma fast_loop_aligned : forall fuel s x s' x',
  fast_inv s x ->
  fast_loop fuel OpFlush s x = Done (true, s', x') ->
  avail_out_ s' = 0 -> avail_in x' = 0 ->
  last_bytes_bits s' = 0 /\ sstate_ s' = SProcessing /\ next_out s' = NoNone
  /\ input_pos s' = input_pos s /\ last_flush_pos s' = last_flush_pos s.
Proof.
  induction fuel as [|f IH]; intros s x s' x' Hinv Hrun Hao Hai; [discriminate|].
  cbn [fast_loop] in Hrun.
  destruct (inject_flush_or_push_output s x) as [[[s1 x1]|]| | |] eqn:Einj; try discriminate.
  - destruct (inject_some s x s1 x1 Einj) as [A [B [C [D [E F]]]]].
    assert (Hinv1 : fast_inv s1 x1).
    { destruct Hinv as [Hp|[Hp Hr]]; [left; rewrite A; exact Hp|right; rewrite A, E; split; assumption]. }
    destruct (IH s1 x1 s' x' Hinv1 Hrun Hao Hai) as [R1 [R2 [R3 [R4 R5]]]].
    repeat split; try assumption; congruence.
  - destruct ((avail_out_ s =? 0) && sstate_eqb (sstate_ s) SProcessing
              && (negb (avail_in x =? 0) || negb (opk_eqb OpFlush OpProcess))) eqn:Cenc.
    + cbn [opk_eqb andb] in Hrun. rewrite andb_false_r in Hrun. rewrite andb_true_r in Hrun.
      assert (Hproc : sstate_ s = SProcessing).
      { apply andb_true_iff in Cenc. destruct Cenc as [Cenc _]. apply andb_true_iff in Cenc.
        destruct Cenc as [_ Cs]. apply sstate_eqb_spec; exact Cs. }
      remember (N.min (2 ^ Z.to_N (lgwin s)) (avail_in x)) as block eqn:Eblk.
      destruct ((avail_in x =? block) && (block =? 0)) eqn:Cff0.
      * (* flush with no input at all *)
        apply andb_true_iff in Cff0. destruct Cff0 as [Ca Cb]. apply N.eqb_eq in Ca, Cb.
        assert (Hinv1 : fast_inv (set_sstate s SFlushRequested) x) by (right; split; [reflexivity|congruence]).
        destruct (IH _ _ s' x' Hinv1 Hrun Hao Hai) as [R1 [R2 [R3 [R4 R5]]]]. repeat split; assumption.
      * destruct (fast_answer s false (avail_in x =? block) (2 * block + 503 <=? cap x) block) as [[a s1]| | |] eqn:Efa; try discriminate.
        destruct (fast_answer_ok _ _ _ _ _ _ _ Efa) as [rest [O1 [O2 [O3 [O4 O5]]]]].
        destruct (2 * block + 503 <=? cap x) eqn:Cin.
        -- (* in place *)
           destruct (avail_in x =? block) eqn:Cfl.
           ++ apply N.eqb_eq in Cfl.
              match type of Hrun with fast_loop f OpFlush ?sa ?xa = _ =>
                assert (Hinv1 : fast_inv sa xa) by (right; split; [reflexivity|cbn; lia]);
                destruct (IH sa xa s' x' Hinv1 Hrun Hao Hai) as [R1 [R2 [R3 [R4 R5]]]] end.
              cbn in R4, R5. repeat split; try assumption; congruence.
           ++ match type of Hrun with fast_loop f OpFlush ?sa ?xa = _ =>
                assert (Hinv1 : fast_inv sa xa) by (left; cbn; congruence);
                destruct (IH sa xa s' x' Hinv1 Hrun Hao Hai) as [R1 [R2 [R3 [R4 R5]]]] end.
              cbn in R4, R5. repeat split; try assumption; congruence.
        -- destruct (avail_in x =? block) eqn:Cfl.
           ++ apply N.eqb_eq in Cfl.
              match type of Hrun with fast_loop f OpFlush ?sa ?xa = _ =>
                assert (Hinv1 : fast_inv sa xa) by (right; split; [reflexivity|cbn; lia]);
                destruct (IH sa xa s' x' Hinv1 Hrun Hao Hai) as [R1 [R2 [R3 [R4 R5]]]] end.
              cbn in R4, R5. repeat split; try assumption; congruence.
           ++ match type of Hrun with fast_loop f OpFlush ?sa ?xa = _ =>
                assert (Hinv1 : fast_inv sa xa) by (left; cbn; congruence);
                destruct (IH sa xa s' x' Hinv1 Hrun Hao Hai) as [R1 [R2 [R3 [R4 R5]]]] end.
              cbn in R4, R5. repeat split; try assumption; congruence.
    + inversion Hrun; subst s' x'; clear Hrun.
      assert (Hao' : avail_out_ s = 0).
      { unfold check_flush_complete in Hao. destruct (sstate_eqb (sstate_ s) SFlushRequested && (avail_out_ s =? 0)); exact Hao. }
      assert (Hfl : sstate_ s = SFlushRequested).
      { destruct Hinv as [Hp|[Hp _]]; [|exact Hp]. exfalso.
        rewrite Hao', Hp in Cenc. cbn in Cenc. rewrite orb_true_r in Cenc. discriminate. }
      pose proof (inject_none s x Einj Hfl) as Hlbb.
      unfold check_flush_complete. rewrite Hfl, Hao'. cbn. repeat split; assumption.
Qed.

(* ---- the statement at the level of the API call ---- *)
Theorem flush_completed_aligned s payload offered capn s' x' :
  initialized s = true -> rem_meta s = U32MAX -> all_ok (oracle s) ->
  (sstate_ s = SProcessing \/ (sstate_ s = SFlushRequested /\ last_flush_pos s = input_pos s)) ->
  last_flush_pos s <= input_pos s ->
  compress_stream s OpFlush payload offered capn = Done (true, s', x') ->
  avail_in x' = 0 -> avail_out_ s' = 0 ->
  last_bytes_bits s' = 0 /\ sstate_ s' = SProcessing /\ next_out s' = NoNone /\
  (last_flush_pos s' = input_pos s' \/
   (* one/two-pass path: it never touches the position counters *)
   (input_pos s' = input_pos s /\ last_flush_pos s' = last_flush_pos s)).
Proof.
  intros Hi Hr Hok Hst Hle Hrun Hai Hao. unfold compress_stream, compress_stream_from in Hrun.
  rewrite (ensure_initialized_id s Hi) in Hrun. rewrite Hr, N.eqb_refl in Hrun. cbn [negb andb opk_eqb] in Hrun.
  assert (Hnm : sstate_eqb (sstate_ s) SMetaHead || sstate_eqb (sstate_ s) SMetaBody = false).
  { destruct Hst as [Hp|[Hp _]]; rewrite Hp; reflexivity. }
  rewrite Hnm in Hrun.
  destruct (negb (sstate_eqb (sstate_ s) SProcessing) && negb (offered =? 0)) eqn:Cg; [discriminate|].
  assert (Hoff : sstate_ s = SFlushRequested -> offered = 0).
  { intros Hf. rewrite Hf in Cg. cbn in Cg. apply negb_false_iff in Cg. apply N.eqb_eq; exact Cg. }
  destruct (((quality s =? 0)%Z || (quality s =? 1)%Z) && negb (catable s) && negb (magic s)).
  - assert (Hinv : fast_inv s {| avail_in := offered; in_off := 0; cap := capn; produced := []; total_arg := 0 |}).
    { destruct Hst as [Hp|[Hp _]]; [left; exact Hp|right; split; [exact Hp|cbn; apply Hoff; exact Hp]]. }
    destruct (fast_loop_aligned _ _ _ _ _ Hinv Hrun Hao Hai) as [R1 [R2 [R3 [R4 R5]]]].
    repeat split; try assumption. right. split; assumption.
  - assert (Hinv : flush_inv s {| avail_in := offered; in_off := 0; cap := capn; produced := []; total_arg := 0 |}).
    { destruct Hst as [Hp|[Hp Hq]]; [left; exact Hp|right; repeat split; [exact Hp|exact Hq|cbn; apply Hoff; exact Hp]]. }
    destruct (flush_loop_aligned _ _ _ _ _ Hok Hinv Hrun Hao Hai) as [R1 [R2 [R3 R4]]].
    repeat split; try assumption. left; exact R2.
Qed.

(* ====================================================================================== *)
(* C05: pushing output into the caller's buffer and taking it hand out the same bytes and   *)
(* leave the same encoder state                                                             *)
(* ====================================================================================== *)
Lemma push_take_same s x n :
  avail_out_ s <> 0 -> n <> 0 -> cap x = n ->
  (sstate_ s = SFlushRequested -> last_bytes_bits s = 0) ->
  N.min (avail_out_ s) n <= lenN (view s) ->
  let k := N.min (avail_out_ s) n in
  exists s1 x1,
    inject_flush_or_push_output s x = Done (Some (s1, x1))
    /\ produced x1 = produced x ++ takeN k (view s)
    /\ avail_in x1 = avail_in x /\ in_off x1 = in_off x
    /\ take_output s n = Done (takeN k (view s), check_flush_complete s1).
Proof.
  intros Ha Hn Hc Hfl Hlen k. subst k.
  unfold inject_flush_or_push_output, take_output.
  assert (G : sstate_eqb (sstate_ s) SFlushRequested && negb (last_bytes_bits s =? 0) = false).
  { destruct (sstate_eqb (sstate_ s) SFlushRequested) eqn:E; [|reflexivity].
    apply sstate_eqb_spec in E. rewrite (Hfl E). reflexivity. }
  rewrite G. rewrite Hc.
  destruct (N.eqb_spec (avail_out_ s) 0) as [E|_]; [contradiction|].
  destruct (N.eqb_spec n 0) as [E|_]; [contradiction|]. cbn [negb andb].
  destruct (N.ltb_spec (lenN (view s)) (N.min (avail_out_ s) n)) as [E|_]; [lia|].
  rewrite (N.min_comm n (avail_out_ s)).
  destruct (N.eqb_spec (N.min (avail_out_ s) n) 0) as [E|_]; [lia|].
  destruct (N.ltb_spec (lenN (view s)) (N.min (avail_out_ s) n)) as [E|_]; [lia|].
  eexists; eexists. split; [reflexivity|]. cbn [produced avail_in in_off io_push].
  repeat split; reflexivity.
Qed.

(* ====================================================================================== *)
(* C13: byte accounting.  After any stream call the caller's total_out cell (seeded by the   *)
(* C ABI with the encoder's running total) equals the running total, and the running total   *)
(* grew by exactly the number of bytes the call delivered.                                   *)
(* ====================================================================================== *)
Lemma lenN_app (a b : list N) : lenN (a ++ b) = lenN a + lenN b.
Proof. unfold lenN. rewrite app_length. lia. Qed.

Lemma lenN_takeN n (v : list N) : n <= lenN v -> lenN (takeN n v) = n.
Proof.
  unfold lenN, takeN. intros H. rewrite firstn_length_le; lia.
Qed.

Lemma w64_w64_add a b : w64 (w64 a + b) = w64 (a + b).
Proof. unfold w64. rewrite N.add_mod_idemp_l by discriminate. reflexivity. Qed.

Definition acct (T0 : N) (s : st) (x : io) : Prop :=
  total_arg x = total_out_ s /\ total_out_ s = w64 (T0 + lenN (produced x)).

Lemma acct_padding T0 s s' x : acct T0 s x -> inject_byte_padding_block s = Done s' -> acct T0 s' x.
Proof.
  unfold acct, inject_byte_padding_block, write_at_cursor. intros [A B] H.
  cbn [avail_out_ upd_bits] in H.
  destruct (avail_out_ s =? 0); cbn [next_out upd_bits upd_out] in H.
  - match type of H with context [if ?c then _ else _] => destruct c end; try discriminate.
    inversion H; subst s'; clear H. cbn. split; assumption.
  - destruct (next_out s) eqn:En; cbn [next_out upd_bits upd_out] in H; try rewrite En in H;
      match type of H with context [if ?c then _ else _] => destruct c end; try discriminate;
      inversion H; subst s'; clear H; cbn; split; assumption.
Qed.

Lemma acct_inject T0 s x s' x' : acct T0 s x ->
  inject_flush_or_push_output s x = Done (Some (s', x')) -> acct T0 s' x'.
Proof.
  unfold inject_flush_or_push_output. intros Hk H.
  destruct (sstate_eqb (sstate_ s) SFlushRequested && negb (last_bytes_bits s =? 0)).
  - destruct (inject_byte_padding_block s) as [s1| | |] eqn:E; try discriminate.
    inversion H; subst s1 x'; clear H. eapply acct_padding; eassumption.
  - destruct (negb (avail_out_ s =? 0) && negb (cap x =? 0)); try discriminate.
    destruct (N.ltb_spec (lenN (view s)) (N.min (avail_out_ s) (cap x))) as [|Hlen]; try discriminate.
    inversion H; subst s' x'; clear H. destruct Hk as [A B]. unfold acct. cbn.
    split; [reflexivity|]. rewrite lenN_app, (lenN_takeN _ _ Hlen). unfold wadd64. rewrite B.
    rewrite w64_w64_add. f_equal. lia.
Qed.

Lemma encode_data_total s il ff r s2 : encode_data s il ff = Done (r, s2) -> total_out_ s2 = total_out_ s.
Proof.
  unfold encode_data. intros H. destruct (oracle s) as [|a rest]; [discriminate|].
  repeat match type of H with
  | (if ?c then _ else _) = _ => destruct c; try discriminate
  end; inversion H; subst; reflexivity.
Qed.

Lemma update_size_hint_total s a : total_out_ (update_size_hint s a) = total_out_ s.
Proof. unfold update_size_hint. destruct (size_hint s =? 0); reflexivity. Qed.

Lemma check_flush_total s : total_out_ (check_flush_complete s) = total_out_ s.
Proof. unfold check_flush_complete. destruct (sstate_eqb (sstate_ s) SFlushRequested && (avail_out_ s =? 0)); reflexivity. Qed.

Lemma acct_stream_loop T0 : forall fuel op s x r s' x',
  acct T0 s x -> stream_loop fuel op s x = Done (r, s', x') -> acct T0 s' x'.
Proof.
  induction fuel as [|f IH]; intros op s x r s' x' Hk Hrun; [discriminate|].
  cbn [stream_loop] in Hrun.
  destruct (negb (remaining_input_block_size s =? 0) && negb (avail_in x =? 0)).
  - eapply IH; [|exact Hrun]. exact Hk.
  - destruct (inject_flush_or_push_output s x) as [[[s1 x1]|]| | |] eqn:Einj; try discriminate.
    + eapply IH; [|exact Hrun]. eapply acct_inject; eassumption.
    + match type of Hrun with (if ?c then _ else _) = _ => destruct c end.
      * destruct (encode_data _ _ _) as [[[|] s2]| | |] eqn:Eenc; try discriminate.
        -- pose proof (encode_data_total _ _ _ _ _ Eenc) as Et. rewrite update_size_hint_total in Et.
           eapply IH; [|exact Hrun]. destruct Hk as [A B]. unfold acct.
           destruct ((avail_in x =? 0) && opk_eqb op OpFlush), ((avail_in x =? 0) && opk_eqb op OpFinish); cbn;
             rewrite Et; split; assumption.
        -- inversion Hrun; subst. pose proof (encode_data_total _ _ _ _ _ Eenc) as Et.
           rewrite update_size_hint_total in Et. destruct Hk as [A B]. unfold acct. rewrite Et. split; assumption.
      * inversion Hrun; subst. destruct Hk as [A B]. unfold acct. rewrite check_flush_total. split; assumption.
Qed.

Lemma acct_fast_loop T0 : forall fuel op s x r s' x',
  acct T0 s x -> fast_loop fuel op s x = Done (r, s', x') -> acct T0 s' x'.
Proof.
  induction fuel as [|f IH]; intros op s x r s' x' Hk Hrun; [discriminate|].
  cbn [fast_loop] in Hrun.
  destruct (inject_flush_or_push_output s x) as [[[s1 x1]|]| | |] eqn:Einj; try discriminate.
  - eapply IH; [|exact Hrun]. eapply acct_inject; eassumption.
  - match type of Hrun with (if ?c then _ else _) = _ => destruct c end.
    + match type of Hrun with (if ?c then _ else _) = _ => destruct c end.
      * eapply IH; [|exact Hrun]. exact Hk.
      * destruct (fast_answer _ _ _ _ _) as [[a s1]| | |] eqn:Efa; try discriminate.
        assert (Et : total_out_ s1 = total_out_ s).
        { unfold fast_answer in Efa. destruct (oracle s) as [|a0 rest]; [discriminate|].
          repeat match type of Efa with (if ?c then _ else _) = _ => destruct c; try discriminate end.
          inversion Efa; subst; reflexivity. }
        destruct Hk as [A B].
        destruct (2 * N.min (2 ^ Z.to_N (lgwin s)) (avail_in x) + 503 <=? cap x).
        -- eapply IH; [|exact Hrun]. unfold acct.
           match goal with |- context [if ?c then _ else _] => destruct c end;
           match goal with |- context [if ?c then _ else _] => destruct c end; cbn;
           (split; [reflexivity|]); rewrite lenN_app, Et, B; unfold wadd64; rewrite w64_w64_add; f_equal; lia.
        -- eapply IH; [|exact Hrun]. unfold acct.
           match goal with |- context [if ?c then _ else _] => destruct c end;
           match goal with |- context [if ?c then _ else _] => destruct c end; cbn;
           rewrite Et; split; assumption.
    + inversion Hrun; subst. destruct Hk as [A B]. unfold acct. rewrite check_flush_total. split; assumption.
Qed.

Lemma acct_meta_loop T0 payload : forall fuel s x r s' x',
  acct T0 s x -> meta_loop fuel payload s x = Done (r, s', x') -> acct T0 s' x'.
Proof.
  induction fuel as [|f IH]; intros s x r s' x' Hk Hrun; [discriminate|].
  cbn [meta_loop] in Hrun.
  destruct (inject_flush_or_push_output s x) as [[[s1 x1]|]| | |] eqn:Einj; try discriminate.
  - eapply IH; [|exact Hrun]. eapply acct_inject; eassumption.
  - destruct (negb (avail_out_ s =? 0)); [inversion Hrun; subst; exact Hk|].
    destruct (negb (input_pos s =? last_flush_pos s) || (magic s && first_pending s)).
    + destruct (encode_data s false true) as [[[|] s2]| | |] eqn:Eenc; try discriminate.
      * pose proof (encode_data_total _ _ _ _ _ Eenc) as Et.
        eapply IH; [|exact Hrun]. destruct Hk as [A B]. unfold acct. rewrite Et. split; assumption.
      * inversion Hrun; subst. pose proof (encode_data_total _ _ _ _ _ Eenc) as Et.
        destruct Hk as [A B]. unfold acct. rewrite Et. split; assumption.
    + destruct (sstate_eqb (sstate_ s) SMetaHead).
      * eapply IH; [|exact Hrun]. destruct Hk as [A B]. unfold acct, write_metadata_header.
        destruct (metadata_header_bits _ _ _). cbn. split; assumption.
      * destruct (rem_meta s =? 0); [inversion Hrun; subst; exact Hk|].
        destruct (negb (cap x =? 0)).
        -- destruct (N.ltb_spec (lenN (skipN (in_off x) payload)) (N.min (rem_meta s) (cap x))) as [|Hlen]; try discriminate.
           eapply IH; [|exact Hrun]. destruct Hk as [A B]. unfold acct. cbn.
           split; [reflexivity|]. rewrite lenN_app, (lenN_takeN _ _ Hlen). unfold wadd64. rewrite B.
           rewrite w64_w64_add. f_equal. lia.
        -- destruct (lenN (skipN (in_off x) payload) <? N.min (rem_meta s) 16); try discriminate.
           eapply IH; [|exact Hrun]. destruct Hk as [A B]. unfold acct. cbn. split; assumption.
Qed.

Lemma ensure_initialized_total s : total_out_ (ensure_initialized s) = total_out_ s.
Proof.
  unfold ensure_initialized. destruct (initialized s); [reflexivity|].
  destruct (encode_window_bits _ _). reflexivity.
Qed.

Theorem stream_call_accounting s0 op payload offered capn r s' x' :
  total_out_ s0 < 2 ^ 64 ->
  compress_stream_from (total_out_ s0) s0 op payload offered capn = Done (r, s', x') ->
  total_arg x' = total_out_ s' /\ total_out_ s' = w64 (total_out_ s0 + lenN (produced x')).
Proof.
  intros Hlt Hrun. unfold compress_stream_from in Hrun.
  set (s := ensure_initialized s0) in *.
  assert (Hk : acct (total_out_ s0) s {| avail_in := offered; in_off := 0; cap := capn; produced := []; total_arg := total_out_ s0 |}).
  { unfold acct. cbn. subst s. rewrite ensure_initialized_total. split; [reflexivity|].
    rewrite N.add_0_r. symmetry. apply N.mod_small. exact Hlt. }
  match type of Hrun with (if ?c then _ else _) = _ => destruct c end; [inversion Hrun; subst; exact Hk|].
  destruct (opk_eqb op OpMeta).
  - unfold process_metadata in Hrun.
    assert (Hk' : forall s1, total_out_ s1 = total_out_ s ->
            acct (total_out_ s0) s1 {| avail_in := offered; in_off := 0; cap := capn; produced := []; total_arg := total_out_ s0 |}).
    { intros s1 E. destruct Hk as [A B]. unfold acct. rewrite E. split; assumption. }
    match type of Hrun with (if ?c then _ else _) = _ => destruct c end.
    + inversion Hrun; subst. apply Hk'. apply update_size_hint_total.
    + match type of Hrun with (if ?c then _ else _) = _ => destruct c end.
      * inversion Hrun; subst. apply Hk'.
        destruct (sstate_eqb (sstate_ (update_size_hint s 0)) SProcessing); cbn; apply update_size_hint_total.
      * eapply acct_meta_loop; [|exact Hrun]. apply Hk'.
        destruct (sstate_eqb (sstate_ (update_size_hint s 0)) SProcessing); cbn; apply update_size_hint_total.
  - match type of Hrun with (if ?c then _ else _) = _ => destruct c end; [inversion Hrun; subst; exact Hk|].
    match type of Hrun with (if ?c then _ else _) = _ => destruct c end; [inversion Hrun; subst; exact Hk|].
    match type of Hrun with (if ?c then _ else _) = _ => destruct c end.
    + eapply acct_fast_loop; eassumption.
    + eapply acct_stream_loop; eassumption.
Qed.

(* ---- cursor accounting: what the call consumed / produced stays inside the buffers, and the
        "available" counters decrease by exactly the amounts the cursors advance ---- *)
Definition curs (offered capn : N) (x : io) : Prop :=
  in_off x + avail_in x = offered /\ lenN (produced x) + cap x = capn.

Lemma curs_inject offered capn s x s' x' : curs offered capn x ->
  inject_flush_or_push_output s x = Done (Some (s', x')) -> curs offered capn x'.
Proof.
  unfold inject_flush_or_push_output. intros Hk H.
  destruct (sstate_eqb (sstate_ s) SFlushRequested && negb (last_bytes_bits s =? 0)).
  - destruct (inject_byte_padding_block s) as [s1| | |]; try discriminate. inversion H; subst; exact Hk.
  - destruct (negb (avail_out_ s =? 0) && negb (cap x =? 0)); try discriminate.
    destruct (N.ltb_spec (lenN (view s)) (N.min (avail_out_ s) (cap x))) as [|Hlen]; try discriminate.
    inversion H; subst s' x'; clear H. destruct Hk as [A B]. unfold curs. cbn.
    split; [exact A|]. rewrite lenN_app, (lenN_takeN _ _ Hlen). lia.
Qed.

Lemma curs_stream_loop offered capn : forall fuel op s x r s' x',
  curs offered capn x -> stream_loop fuel op s x = Done (r, s', x') -> curs offered capn x'.
Proof.
  induction fuel as [|f IH]; intros op s x r s' x' Hk Hrun; [discriminate|].
  cbn [stream_loop] in Hrun.
  destruct (negb (remaining_input_block_size s =? 0) && negb (avail_in x =? 0)).
  - eapply IH; [|exact Hrun]. destruct Hk as [A B]. unfold curs. cbn. split; [lia|exact B].
  - destruct (inject_flush_or_push_output s x) as [[[s1 x1]|]| | |] eqn:Einj; try discriminate.
    + eapply IH; [|exact Hrun]. eapply curs_inject; eassumption.
    + match type of Hrun with (if ?c then _ else _) = _ => destruct c end.
      * destruct (encode_data _ _ _) as [[[|] s2]| | |] eqn:Eenc; try discriminate.
        -- eapply IH; [|exact Hrun]. exact Hk.
        -- inversion Hrun; subst. exact Hk.
      * inversion Hrun; subst. exact Hk.
Qed.

Lemma fast_answer_head s il ff ip blk a s1 : fast_answer s il ff ip blk = Done (a, s1) ->
  exists rest, oracle s = a :: rest /\ a_fast a = true /\ a_block a = blk.
Proof.
  unfold fast_answer. intros H. destruct (oracle s) as [|a0 rest]; [discriminate|].
  destruct (a_fast a0) eqn:Ef; cbn [negb] in H; [|discriminate].
  destruct (Bool.eqb (a_is_last a0) il); cbn [negb] in H; [|discriminate].
  destruct (Bool.eqb (a_force_flush a0) ff); cbn [negb] in H; [|discriminate].
  destruct (N.eqb_spec (a_block a0) blk) as [Eb|]; cbn [negb] in H; [|discriminate].
  destruct (Bool.eqb (a_inplace a0) ip); cbn [negb] in H; [|discriminate].
  destruct (a_result a0); cbn [negb] in H; [|discriminate].
  match type of H with (if ?c then _ else _) = _ => destruct c; [discriminate|] end.
  inversion H; subst. exists rest. repeat split; assumption.
Qed.

Lemma answer_ok_fast_size a : answer_ok a = true -> a_fast a = true -> lenN (a_out a) <= 2 * a_block a + 503.
Proof.
  unfold answer_ok. intros H Hf. rewrite Hf in H.
  apply andb_true_iff in H. destruct H as [_ H]. apply N.leb_le; exact H.
Qed.

Lemma curs_fast_loop offered capn : forall fuel op s x r s' x',
  all_ok (oracle s) -> curs offered capn x -> fast_loop fuel op s x = Done (r, s', x') -> curs offered capn x'.
Proof.
  induction fuel as [|f IH]; intros op s x r s' x' Hok Hk Hrun; [discriminate|].
  cbn [fast_loop] in Hrun.
  destruct (inject_flush_or_push_output s x) as [[[s1 x1]|]| | |] eqn:Einj; try discriminate.
  - destruct (inject_some s x s1 x1 Einj) as [_ [_ [_ [D _]]]].
    eapply IH; [| |exact Hrun]; [rewrite D; exact Hok|eapply curs_inject; eassumption].
  - match type of Hrun with (if ?c then _ else _) = _ => destruct c end.
    + match type of Hrun with (if ?c then _ else _) = _ => destruct c end.
      * eapply IH; [| |exact Hrun]; [exact Hok|exact Hk].
      * destruct (fast_answer _ _ _ _ _) as [[a s1]| | |] eqn:Efa; try discriminate.
        destruct (fast_answer_ok _ _ _ _ _ _ _ Efa) as [rest [O1 [O2 _]]].
        destruct (fast_answer_head _ _ _ _ _ _ _ Efa) as [rest' [O1' [Of Ob]]].
        rewrite O1 in Hok. destruct (all_ok_tail _ _ Hok) as [Ha Hrest].
        pose proof (answer_ok_fast_size a Ha Of) as Hsz. rewrite Ob in Hsz.
        destruct Hk as [A B].
        remember (N.min (2 ^ Z.to_N (lgwin s)) (avail_in x)) as block eqn:Eblk.
        assert (Hble : block <= avail_in x) by (subst block; apply N.le_min_r).
        destruct (N.leb_spec (2 * block + 503) (cap x)) as [Hcap|Hcap].
        -- eapply IH; [| |exact Hrun].
           ++ match goal with |- context [if ?c then _ else _] => destruct c end;
              match goal with |- context [if ?c then _ else _] => destruct c end; cbn; rewrite O2; exact Hrest.
           ++ unfold curs. cbn. split; [lia|]. rewrite lenN_app. lia.
        -- eapply IH; [| |exact Hrun].
           ++ match goal with |- context [if ?c then _ else _] => destruct c end;
              match goal with |- context [if ?c then _ else _] => destruct c end; cbn; rewrite O2; exact Hrest.
           ++ unfold curs. cbn. split; [lia|exact B].
    + inversion Hrun; subst. exact Hk.
Qed.

Theorem stream_call_cursors s0 op payload offered capn r s' x' :
  op <> OpMeta -> all_ok (oracle s0) ->
  compress_stream s0 op payload offered capn = Done (r, s', x') ->
  in_off x' + avail_in x' = offered /\ lenN (produced x') + cap x' = capn.
Proof.
  intros Hop Hok Hrun. unfold compress_stream, compress_stream_from in Hrun.
  assert (Hk : curs offered capn {| avail_in := offered; in_off := 0; cap := capn; produced := []; total_arg := 0 |}).
  { unfold curs. cbn. split; lia. }
  assert (Hok' : all_ok (oracle (ensure_initialized s0))).
  { unfold ensure_initialized. destruct (initialized s0); [exact Hok|]. destruct (encode_window_bits _ _). exact Hok. }
  match type of Hrun with (if ?c then _ else _) = _ => destruct c end; [inversion Hrun; subst; exact Hk|].
  assert (Eop : opk_eqb op OpMeta = false) by (destruct op; try reflexivity; contradiction Hop; reflexivity).
  rewrite Eop in Hrun.
  match type of Hrun with (if ?c then _ else _) = _ => destruct c end; [inversion Hrun; subst; exact Hk|].
  match type of Hrun with (if ?c then _ else _) = _ => destruct c end; [inversion Hrun; subst; exact Hk|].
  match type of Hrun with (if ?c then _ else _) = _ => destruct c end.
  - eapply curs_fast_loop; eassumption.
  - eapply curs_stream_loop; eassumption.
Qed.

(* ---- take_output hands out a prefix of the pending bytes and keeps the rest ---- *)
Lemma skipN_skipN a b (l : list N) : skipN a (skipN b l) = skipN (b + a) l.
Proof.
  unfold skipN. rewrite N2Nat.inj_add.
  generalize (N.to_nat a) (N.to_nat b). clear a b. intros a b. revert l.
  induction b as [|b IH]; intros l; [reflexivity|]. destruct l as [|h t].
  - cbn [skipn Nat.add]. destruct a; reflexivity.
  - cbn [skipn Nat.add]. apply IH.
Qed.

Theorem take_output_prefix s n bs s' :
  take_output s n = Done (bs, s') ->
  (forall off, next_out s = NoDyn off \/ next_out s = NoTiny off -> off + avail_out_ s < 2 ^ 32) ->
  let k := if n =? 0 then avail_out_ s else N.min n (avail_out_ s) in
  bs = takeN k (view s) /\ avail_out_ s' = avail_out_ s - k
  /\ total_out_ s' = (if k =? 0 then total_out_ s else wadd64 (total_out_ s) k)
  /\ (avail_out_ s' <> 0 -> view s' = skipN k (view s)).
Proof.
  unfold take_output. intros H Hno. cbv zeta.
  remember (if n =? 0 then avail_out_ s else N.min n (avail_out_ s)) as k eqn:Ek.
  assert (Hk : k <= avail_out_ s) by (subst k; destruct (n =? 0); [lia|apply N.le_min_r]).
  destruct (N.eqb_spec k 0) as [E0|E0].
  - inversion H; subst bs s'. rewrite E0. repeat split; try reflexivity; try lia.
  - destruct (lenN (view s) <? k); try discriminate. inversion H; subst bs s'; clear H.
    split; [reflexivity|]. rewrite !check_flush_total.
    assert (Ha : forall z, avail_out_ (check_flush_complete z) = avail_out_ z).
    { intros z. unfold check_flush_complete. destruct (sstate_eqb (sstate_ z) SFlushRequested && (avail_out_ z =? 0)); reflexivity. }
    rewrite Ha. cbn [avail_out_ upd_out total_out_]. split; [reflexivity|]. split; [reflexivity|].
    intros Hrem. unfold check_flush_complete. cbn [avail_out_ upd_out sstate_].
    destruct (N.eqb_spec (avail_out_ s - k) 0) as [C|_]; [contradiction|]. rewrite andb_false_r.
    unfold view. cbn [next_out upd_out storage tiny].
    destruct (next_out s) as [|off|off] eqn:En; cbn [no_incr].
    + unfold skipN. destruct (N.to_nat k); reflexivity.
    + assert (Hw : w32 (off + k) = off + k).
      { apply N.mod_small. specialize (Hno off (or_introl eq_refl)). lia. }
      rewrite Hw. symmetry. apply skipN_skipN.
    + assert (Hw : w32 (off + k) = off + k).
      { apply N.mod_small. specialize (Hno off (or_intror eq_refl)). lia. }
      rewrite Hw. symmetry. apply skipN_skipN.
Qed.

(* ====================================================================================== *)
(* C20 progress: a stream call that returns true either used up the output space it was     *)
(* given or completed the request (all offered input consumed, nothing pending).            *)
(* ====================================================================================== *)
Definition guard_inv (s : st) (x : io) : Prop := sstate_ s <> SProcessing -> avail_in x = 0.

Lemma stream_loop_exit : forall fuel op s x s' x',
  guard_inv s x ->
  stream_loop fuel op s x = Done (true, s', x') ->
  cap x' = 0 \/ (avail_in x' = 0 /\ avail_out_ s' = 0).
Proof.
  induction fuel as [|f IH]; intros op s x s' x' Hg Hrun; [discriminate|].
  cbn [stream_loop] in Hrun.
  destruct (negb (remaining_input_block_size s =? 0) && negb (avail_in x =? 0)) eqn:Ccopy.
  - apply (IH _ _ _ _ _) in Hrun; [exact Hrun|].
    intros Hs. cbn in Hs. specialize (Hg Hs).
    apply andb_true_iff in Ccopy. destruct Ccopy as [_ C]. apply negb_true_iff in C. apply N.eqb_neq in C. contradiction.
  - destruct (inject_flush_or_push_output s x) as [[[s1 x1]|]| | |] eqn:Einj; try discriminate.
    + destruct (inject_some s x s1 x1 Einj) as [A [_ [_ [_ [E _]]]]].
      apply (IH _ _ _ _ _) in Hrun; [exact Hrun|]. intros Hs. rewrite A in Hs. rewrite E. exact (Hg Hs).
    + destruct ((avail_out_ s =? 0) && sstate_eqb (sstate_ s) SProcessing
                && ((remaining_input_block_size s =? 0) || negb (opk_eqb op OpProcess))) eqn:Cenc.
      * destruct (encode_data _ _ _) as [[[|] s2]| | |] eqn:Eenc; try discriminate.
        destruct (encode_data_true _ _ _ _ Eenc) as [a [rest [_ [_ [_ [_ [_ [_ [O7 _]]]]]]]]].
        destruct (update_size_hint_fields s (avail_in x)) as [U1 _].
        apply (IH _ _ _ _ _) in Hrun; [exact Hrun|].
        intros Hs.
        destruct ((avail_in x =? 0) && opk_eqb op OpFlush) eqn:Cf; destruct ((avail_in x =? 0) && opk_eqb op OpFinish) eqn:Cl;
          try (apply andb_true_iff in Cf; destruct Cf as [Cf _]; apply N.eqb_eq; exact Cf);
          try (apply andb_true_iff in Cl; destruct Cl as [Cl _]; apply N.eqb_eq; exact Cl).
        cbn in Hs. rewrite O7, U1 in Hs. exact (Hg Hs).
      * inversion Hrun; subst s' x'; clear Hrun.
        destruct (N.eq_dec (cap x) 0) as [Hc|Hc]; [left; exact Hc|right].
        (* nothing pending: otherwise it would have been pushed *)
        assert (Hao : avail_out_ s = 0).
        { unfold inject_flush_or_push_output in Einj.
          destruct (sstate_eqb (sstate_ s) SFlushRequested && negb (last_bytes_bits s =? 0)).
          - destruct (inject_byte_padding_block s); discriminate.
          - destruct (N.eqb_spec (avail_out_ s) 0) as [E|E]; [exact E|].
            destruct (N.eqb_spec (cap x) 0) as [E'|E']; [contradiction|]. cbn [negb andb] in Einj.
            destruct (lenN (view s) <? N.min (avail_out_ s) (cap x)); discriminate. }
        assert (Hai : avail_in x = 0).
        { destruct (N.eq_dec (avail_in x) 0) as [E|E]; [exact E|exfalso].
          assert (Hp : sstate_ s = SProcessing).
          { destruct (sstate_eqb (sstate_ s) SProcessing) eqn:Es; [apply sstate_eqb_spec; exact Es|].
            exfalso. apply E. apply Hg. intros C. rewrite C in Es. discriminate. }
          apply N.eqb_neq in E. rewrite E in Ccopy. rewrite andb_true_r in Ccopy. apply negb_false_iff in Ccopy.
          rewrite Hao, Hp, Ccopy in Cenc. cbn in Cenc. discriminate. }
        split; [exact Hai|].
        unfold check_flush_complete. destruct (sstate_eqb (sstate_ s) SFlushRequested && (avail_out_ s =? 0)); cbn; exact Hao.
Qed.

Lemma fast_loop_exit : forall fuel op s x s' x',
  guard_inv s x ->
  fast_loop fuel op s x = Done (true, s', x') ->
  cap x' = 0 \/ (avail_in x' = 0 /\ avail_out_ s' = 0).
Proof.
  induction fuel as [|f IH]; intros op s x s' x' Hg Hrun; [discriminate|].
  cbn [fast_loop] in Hrun.
  destruct (inject_flush_or_push_output s x) as [[[s1 x1]|]| | |] eqn:Einj; try discriminate.
  - destruct (inject_some s x s1 x1 Einj) as [A [_ [_ [_ [E _]]]]].
    apply (IH _ _ _ _ _) in Hrun; [exact Hrun|]. intros Hs. rewrite A in Hs. rewrite E. exact (Hg Hs).
  - destruct ((avail_out_ s =? 0) && sstate_eqb (sstate_ s) SProcessing
              && (negb (avail_in x =? 0) || negb (opk_eqb op OpProcess))) eqn:Cenc.
    + remember (N.min (2 ^ Z.to_N (lgwin s)) (avail_in x)) as block eqn:Eblk.
      destruct (((avail_in x =? block) && opk_eqb op OpFlush) && (block =? 0)) eqn:C0.
      * apply (IH _ _ _ _ _) in Hrun; [exact Hrun|]. intros _.
        apply andb_true_iff in C0. destruct C0 as [C1 C2]. apply andb_true_iff in C1. destruct C1 as [C1 _].
        apply N.eqb_eq in C1, C2. congruence.
      * destruct (fast_answer _ _ _ _ _) as [[a s1]| | |] eqn:Efa; try discriminate.
        destruct (fast_answer_ok _ _ _ _ _ _ _ Efa) as [rest [_ [_ [O3 _]]]].
        assert (Hnext : forall sx xx, (sstate_ sx <> SProcessing ->
                          ((avail_in x =? block) && opk_eqb op OpFlush = true \/ (avail_in x =? block) && opk_eqb op OpFinish = true)) ->
                          avail_in xx = avail_in x - block -> guard_inv sx xx).
        { intros sx xx Hs Ha Hns. rewrite Ha. destruct (Hs Hns) as [H|H]; apply andb_true_iff in H; destruct H as [H _];
            apply N.eqb_eq in H; lia. }
        assert (Hproc : sstate_ s = SProcessing).
        { apply andb_true_iff in Cenc. destruct Cenc as [Cenc _]. apply andb_true_iff in Cenc.
          destruct Cenc as [_ Cs]. apply sstate_eqb_spec; exact Cs. }
        destruct (2 * block + 503 <=? cap x);
        destruct ((avail_in x =? block) && opk_eqb op OpFlush) eqn:Cf;
        destruct ((avail_in x =? block) && opk_eqb op OpFinish) eqn:Cl;
        (apply (IH _ _ _ _ _) in Hrun; [exact Hrun|]; apply Hnext; [|reflexivity]; cbn; intros Hs;
         first [left; reflexivity | right; reflexivity | (exfalso; apply Hs; cbn; rewrite ?O3; exact Hproc)]).
    + inversion Hrun; subst s' x'; clear Hrun.
      destruct (N.eq_dec (cap x) 0) as [Hc|Hc]; [left; exact Hc|right].
      assert (Hao : avail_out_ s = 0).
      { unfold inject_flush_or_push_output in Einj.
        destruct (sstate_eqb (sstate_ s) SFlushRequested && negb (last_bytes_bits s =? 0)).
        - destruct (inject_byte_padding_block s); discriminate.
        - destruct (N.eqb_spec (avail_out_ s) 0) as [E|E]; [exact E|].
          destruct (N.eqb_spec (cap x) 0) as [E'|E']; [contradiction|]. cbn [negb andb] in Einj.
          destruct (lenN (view s) <? N.min (avail_out_ s) (cap x)); discriminate. }
      assert (Hai : avail_in x = 0).
      { destruct (N.eq_dec (avail_in x) 0) as [E|E]; [exact E|exfalso].
        assert (Hp : sstate_ s = SProcessing).
        { destruct (sstate_eqb (sstate_ s) SProcessing) eqn:Es; [apply sstate_eqb_spec; exact Es|].
          exfalso. apply E. apply Hg. intros C. rewrite C in Es. discriminate. }
        apply N.eqb_neq in E. rewrite Hao, Hp, E in Cenc. cbn in Cenc. discriminate. }
      split; [exact Hai|].
      unfold check_flush_complete. destruct (sstate_eqb (sstate_ s) SFlushRequested && (avail_out_ s =? 0)); cbn; exact Hao.
Qed.

Theorem call_progress s0 op payload offered capn s' x' :
  op <> OpMeta -> all_ok (oracle s0) -> 1 <= capn ->
  compress_stream s0 op payload offered capn = Done (true, s', x') ->
  (* the call filled the output buffer it was given ... *)
  (lenN (produced x') = capn) \/
  (* ... or the request is complete *)
  (in_off x' = offered /\ avail_out_ s' = 0).
Proof.
  intros Hop Hok Hcap Hrun.
  destruct (stream_call_cursors s0 op payload offered capn true s' x' Hop Hok Hrun) as [K1 K2].
  unfold compress_stream, compress_stream_from in Hrun.
  set (s := ensure_initialized s0) in *.
  set (x0 := {| avail_in := offered; in_off := 0; cap := capn; produced := []; total_arg := 0 |}) in *.
  match type of Hrun with (if ?c then _ else _) = _ => destruct c end; [discriminate|].
  assert (Eop : opk_eqb op OpMeta = false) by (destruct op; try reflexivity; contradiction Hop; reflexivity).
  rewrite Eop in Hrun.
  match type of Hrun with (if ?c then _ else _) = _ => destruct c end; [discriminate|].
  destruct (negb (sstate_eqb (sstate_ s) SProcessing) && negb (offered =? 0)) eqn:Cg; [discriminate|].
  assert (Hg : guard_inv s x0).
  { intros Hs. cbn. destruct (sstate_eqb (sstate_ s) SProcessing) eqn:E.
    - apply sstate_eqb_spec in E. contradiction.
    - cbn in Cg. apply negb_false_iff in Cg. apply N.eqb_eq; exact Cg. }
  assert (D : cap x' = 0 \/ (avail_in x' = 0 /\ avail_out_ s' = 0)).
  { match type of Hrun with (if ?c then _ else _) = _ => destruct c end.
    - eapply fast_loop_exit; eassumption.
    - eapply stream_loop_exit; eassumption. }
  destruct D as [D|[D1 D2]]; [left; lia|right; split; [lia|exact D2]].
Qed.

(* ====================================================================================== *)
(* C20: the flush padding block cannot panic when nothing is pending (repaired code); as    *)
(* found it did when a metadata block had left the cursor at the end of the tiny buffer.    *)
(* ====================================================================================== *)
Theorem padding_no_panic_when_drained s : avail_out_ s = 0 ->
  exists s', inject_byte_padding_block s = Done s'.
Proof.
  intros H. unfold inject_byte_padding_block, write_at_cursor. cbn [avail_out_ upd_bits]. rewrite H.
  cbn [N.eqb next_out upd_out upd_bits].
  match goal with |- context [if ?c then _ else _] => destruct c eqn:E end.
  - exfalso. revert E. unfold lenN. cbn [N.add]. 
    destruct (8 <? last_bytes_bits s + 6); destruct (16 <? last_bytes_bits s + 6); cbn; intros; discriminate.
  - eexists; reflexivity.
Qed.

Theorem padding_asfound_refuted :
  exists s, avail_out_ s = 0 /\ inject_byte_padding_block_asfound s = Panic 3
            /\ exists s', inject_byte_padding_block s = Done s'.
Proof.
  exists (upd_bits (upd_out (ensure_initialized init_st) (NoTiny 16) [] 0 (repeat 0 16) 0 0) 14 7).
  split; [reflexivity|]. split; [vm_compute; reflexivity|]. eexists. vm_compute. reflexivity.
Qed.
