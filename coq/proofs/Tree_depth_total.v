(* C17_tree, totality part 3: BrotliSetDepth on a pool that holds a tree never panics, never runs out
   of fuel, and answers `true` whenever every leaf level is within max_depth. *)
From Coq Require Import NArith ZArith List Lia Bool Arith Permutation.
From V Require Import lib.Words lib.Finite gen.GenHuffman spec.PrefixCode model.Huffman
  proofs.Canonical_proofs proofs.Huffman_proofs proofs.Store_proofs proofs.Tree_proofs.
Import ListNotations.
Open Scope N_scope.

Lemma getZ_ok {A} (l : list A) z d : (0 <= z)%Z -> (Z.to_nat z < length l)%nat -> getZ l z = Done (nth (Z.to_nat z) l d).
Proof.
  intros Hz Hl. unfold getZ. destruct (Z.ltb_spec z 0); [lia|]. rewrite (getA_ok l (Z.to_N z) d) by lia.
  rewrite Z_N_nat. reflexivity.
Qed.

Lemma setZ_ok {A} (l : list A) z x : (0 <= z)%Z -> (Z.to_nat z < length l)%nat -> setZ l z x = Done (upd l (Z.to_nat z) x).
Proof.
  intros Hz Hl. unfold setZ. destruct (Z.ltb_spec z 0); [lia|]. rewrite setA_ok by lia. rewrite Z_N_nat. reflexivity.
Qed.

Fixpoint tsize (t : tree) : nat :=
  match t with Leaf _ => 1%nat | Node a b => S (tsize a + tsize b) end.
Definition isize (items : list (tree * Z)) : nat := fold_right (fun it acc => (tsize (fst it) + acc)%nat) 0%nat items.

Lemma tsize_tvals t : (tsize t + 1 = 2 * length (tvals t))%nat.
Proof. induction t as [v|a IHa b IHb]; [reflexivity|]. cbn [tsize tvals]. rewrite app_length. lia. Qed.

Fixpoint theight (t : tree) : nat :=
  match t with Leaf _ => 0%nat | Node a b => S (Nat.max (theight a) (theight b)) end.

Lemma levels_height maxd t : forall lvl, (lvl + Z.of_nat (theight t) <= maxd)%Z -> levels_ok maxd (lleaves t lvl).
Proof.
  induction t as [v|a IHa b IHb]; intros lvl H; cbn [lleaves theight] in *.
  - constructor; [cbn; lia|constructor].
  - apply Forall_app. split; [apply IHa|apply IHb]; lia.
Qed.

Lemma pop_total stack : forall fuel m, (m < fuel)%nat -> (m <= length stack)%nat ->
  exists l', pop_levels fuel stack (Z.of_nat m - 1) = Done l'.
Proof.
  induction fuel as [|f IH]; intros m Hf Hm; [lia|].
  cbn [pop_levels]. destruct m as [|m].
  - cbn. eauto.
  - replace (Z.of_nat (S m) - 1)%Z with (Z.of_nat m) by lia.
    destruct (Z.leb_spec 0 (Z.of_nat m)); [|lia].
    rewrite (getZ_ok stack (Z.of_nat m) 0%Z) by lia. cbn [bind].
    destruct (nth (Z.to_nat (Z.of_nat m)) stack 0 =? -1)%Z; [|eauto]. apply IH; lia.
Qed.

Section DepthTotal.
  Variable pool : list node.
  Variable maxd : Z.
  Hypothesis Hmaxd : (0 <= maxd <= 15)%Z.

  Definition inr (depth : list N) (v : Z) : Prop := (0 <= v)%Z /\ (Z.to_nat v < length depth)%nat.

  Lemma loop_total : forall fuel depth stack m p t items,
    (1 <= m)%nat -> is_tree pool p t -> pend_rel pool stack m items -> length stack = 16%nat ->
    (Z.of_nat m - 1 <= maxd)%Z -> (tsize t + isize items <= fuel)%nat ->
    (forall v, In v (tvals t) -> inr depth v) ->
    (forall it, In it items -> forall v, In v (tvals (fst it)) -> inr depth v) ->
    exists b depth', set_depth_loop fuel pool depth stack (Z.of_nat m - 1) p maxd = Done (b, depth') /\
      length depth' = length depth /\
      (levels_ok maxd (lleaves t (Z.of_nat m - 1)) -> levels_ok maxd (flat items) -> b = true).
  Proof.
    induction fuel as [|f IH]; intros depth stack m p t items Hm Ht Hp Hst Hlm Hfuel Hin Hini.
    { destruct t; cbn [tsize] in Hfuel; lia. }
    cbn [set_depth_loop].
    destruct Ht as [p nd Hp0 Hnd Hleft|p nd ta tb Hp0 Hnd Hleft Hl1 Hl2 Hta Htb].
    - (* leaf *)
      rewrite (getZ_ok pool p node0) by (try lia; apply nth_error_Some; congruence). cbn [bind].
      rewrite (nth_error_nth _ _ _ Hnd).
      destruct (Z.leb_spec 0 (index_left_ nd)); [lia|].
      destruct (Hin (index_right_or_value_ nd)) as [Hv0 Hv1]; [left; reflexivity|].
      rewrite setZ_ok by assumption. cbn [bind].
      destruct (pop_total stack 18 m ltac:(lia) ltac:(lia)) as [l1 Epop]. rewrite Epop. cbn [bind].
      destruct (pop_spec pool stack 18 m items l1 Hp Epop) as [[-> ->]|[m' [t' [rest [-> [Hm' [Hne [Ht' [-> Hp']]]]]]]]].
      + cbn. eexists. eexists. split; [reflexivity|]. rewrite upd_length. auto.
      + destruct (Z.ltb_spec (Z.of_nat m') 0); [lia|].
        rewrite (getZ_ok stack (Z.of_nat m') 0%Z) by lia. cbn [bind].
        rewrite setZ_ok by lia. cbn [bind]. rewrite Nat2Z.id.
        replace (Z.of_nat m') with (Z.of_nat (S m') - 1)%Z by lia.
        set (depth1 := upd depth (Z.to_nat (index_right_or_value_ nd)) (u8_of_Z (Z.of_nat m - 1))).
        assert (Hl1 : length depth1 = length depth) by (unfold depth1; apply upd_length).
        destruct (IH depth1 (upd stack m' (-1)%Z) (S m') (nth m' stack 0%Z) t' rest) as [b [depth' [E1 [E2 E3]]]]; try lia.
        * exact Ht'.
        * cbn [pend_rel]. left. split; [unfold sget; rewrite upd_nth_same by lia; reflexivity|].
          apply pend_rel_upd; [lia|exact Hp'].
        * rewrite upd_length. exact Hst.
        * cbn [isize fold_right fst tsize] in Hfuel. fold (isize rest) in Hfuel. lia.
        * intros v Hv. unfold inr. rewrite Hl1. apply (Hini (t', Z.of_nat m')); [left; reflexivity|exact Hv].
        * intros it Hit v Hv. unfold inr. rewrite Hl1. apply (Hini it); [right; exact Hit|exact Hv].
        * exists b, depth'. split; [exact E1|]. split; [lia|].
          intros _ Hitems. cbn [flat flat_map fst snd] in Hitems. apply Forall_app in Hitems. destruct Hitems as [Hi1 Hi2].
          apply E3; [exact Hi1|exact Hi2].
    - (* internal node *)
      rewrite (getZ_ok pool p node0) by (try lia; apply nth_error_Some; congruence). cbn [bind].
      rewrite (nth_error_nth _ _ _ Hnd).
      destruct (Z.leb_spec 0 (index_left_ nd)); [|lia].
      destruct (Z.ltb_spec maxd (Z.of_nat m - 1 + 1)) as [Hover|Hfit].
      + exists false, depth. split; [reflexivity|]. split; [reflexivity|].
        intros Hlv _. exfalso. cbn [lleaves] in Hlv. apply Forall_app in Hlv. destruct Hlv as [Hlva _].
        destruct (lleaves_nonempty ta (Z.of_nat m - 1 + 1)) as [w Hw].
        pose proof (lleaves_ge ta _ w Hw). unfold levels_ok in Hlva. rewrite Forall_forall in Hlva.
        specialize (Hlva w Hw). cbn beta in Hlva. lia.
      + rewrite setZ_ok by lia. cbn [bind].
        replace (Z.to_nat (Z.of_nat m - 1 + 1)) with m by lia.
        replace (Z.of_nat m - 1 + 1)%Z with (Z.of_nat (S m) - 1)%Z by lia.
        destruct (IH depth (upd stack m (index_right_or_value_ nd)) (S m) (index_left_ nd) ta
                     ((tb, Z.of_nat m) :: items)) as [b [depth' [E1 [E2 E3]]]]; try lia.
        * exact Hta.
        * cbn [pend_rel]. right. exists tb, items.
          assert (Es : sget (upd stack m (index_right_or_value_ nd)) m = index_right_or_value_ nd)
            by (unfold sget; apply upd_nth_same; lia).
          rewrite Es. split; [pose proof (is_tree_nonneg _ _ _ Htb); lia|]. split; [exact Htb|].
          split; [reflexivity|]. apply pend_rel_upd; [lia|exact Hp].
        * rewrite upd_length. exact Hst.
        * cbn [isize fold_right fst tsize] in *. fold (isize items). lia.
        * intros v Hv. apply Hin. cbn [tvals]. apply in_or_app. left. exact Hv.
        * intros it [<-|Hit] v Hv; [apply Hin; cbn [tvals fst] in *; apply in_or_app; right; exact Hv|].
          apply (Hini it Hit v Hv).
        * exists b, depth'. split; [exact E1|]. split; [exact E2|].
          intros Hlv Hitems. cbn [lleaves] in Hlv. apply Forall_app in Hlv. destruct Hlv as [Hlva Hlvb].
          replace (Z.of_nat m - 1 + 1)%Z with (Z.of_nat (S m) - 1)%Z in Hlva, Hlvb by lia.
          apply E3; [exact Hlva|]. cbn [flat flat_map fst snd]. apply Forall_app. split; [|exact Hitems].
          replace (Z.of_nat m) with (Z.of_nat (S m) - 1)%Z by lia. exact Hlvb.
  Qed.

  Lemma set_depth_total T p0 depth :
    is_tree pool p0 T -> (tsize T <= 2 * length pool + 2)%nat ->
    (forall v, In v (tvals T) -> inr depth v) ->
    exists b depth', set_depth p0 pool depth maxd = Done (b, depth') /\ length depth' = length depth /\
      (levels_ok maxd (lleaves T 0) -> b = true).
  Proof.
    intros HT Hsz Hin. unfold set_depth.
    destruct (loop_total (2 * length pool + 2) depth stack0 1 p0 T []) as [b [depth' [E1 [E2 E3]]]]; try lia.
    - exact HT.
    - cbn [pend_rel]. left. split; reflexivity.
    - reflexivity.
    - cbn [isize fold_right]. lia.
    - exact Hin.
    - intros it [].
    - exists b, depth'. split; [exact E1|]. split; [exact E2|]. intros Hlv. apply E3; [exact Hlv|constructor].
  Qed.
End DepthTotal.
