(* C17_tree, totality part 2: the two-queue merge of BrotliCreateHuffmanTree as a pure function on
   lists of (weight, tree) (`amerge`), and the proof that merge_loop on the pool never fails and
   builds exactly that tree. *)
From Coq Require Import NArith ZArith List Lia Bool Arith Permutation.
From V Require Import lib.Words lib.Finite gen.GenHuffman spec.PrefixCode model.Huffman
  proofs.Canonical_proofs proofs.Huffman_proofs proofs.Store_proofs proofs.Tree_proofs.
Import ListNotations.
Open Scope N_scope.

(* ------------------------------------------------------------------ the abstract merge *)
Definition qitem := (N * tree)%type.

(* the smaller head of the two queues, ties to the leaf queue; an empty queue never wins *)
Definition apick (A B : list qitem) : option (qitem * list qitem * list qitem) :=
  match A, B with
  | a :: A', b :: B' => if fst a <=? fst b then Some (a, A', B) else Some (b, A, B')
  | a :: A', [] => Some (a, A', [])
  | [], b :: B' => Some (b, [], B')
  | [], [] => None
  end.

Fixpoint amerge (k : nat) (A B : list qitem) : option tree :=
  match k with
  | O => match B with b :: _ => Some (snd b) | [] => None end
  | S k' =>
    match apick A B with
    | Some (x, A1, B1) =>
      match apick A1 B1 with
      | Some (y, A2, B2) => amerge k' A2 (B2 ++ [(fst x + fst y, Node (snd x) (snd y))])
      | None => None
      end
    | None => None
    end
  end.

Definition sumw (A : list qitem) : N := fold_right (fun a acc => fst a + acc) 0 A.
Definition flatq (A : list qitem) : list Z := flat_map (fun a => tvals (snd a)) A.

Lemma sumw_cons a A : sumw (a :: A) = fst a + sumw A.
Proof. reflexivity. Qed.
Lemma sumw_nil : sumw [] = 0.
Proof. reflexivity. Qed.

Lemma sumw_app a b : sumw (a ++ b) = sumw a + sumw b.
Proof. induction a as [|x a IH]; [reflexivity|]. cbn [app sumw fold_right]. fold (sumw (a ++ b)). fold (sumw a). lia. Qed.

Lemma flatq_app a b : flatq (a ++ b) = flatq a ++ flatq b.
Proof. apply flat_map_app. Qed.

Lemma apick_facts A B a A' B' : apick A B = Some (a, A', B') ->
  (length A' + length B' + 1 = length A + length B)%nat /\
  fst a + (sumw A' + sumw B') = sumw A + sumw B /\
  Permutation (tvals (snd a) ++ flatq (A' ++ B')) (flatq (A ++ B)).
Proof.
  unfold apick. destruct A as [|x A0]; destruct B as [|y B0]; try discriminate.
  - intros H. inversion H; subst. rewrite !sumw_cons, !sumw_nil. cbn [length app flatq flat_map]. split; [lia|]. split; [lia|reflexivity].
  - intros H. inversion H; subst. rewrite !sumw_cons, !sumw_nil. cbn [length app flatq flat_map]. split; [lia|]. split; [lia|reflexivity].
  - destruct (fst x <=? fst y); intros H; inversion H; subst.
    + rewrite !sumw_cons. cbn [length app flatq flat_map]. split; [lia|]. split; [lia|reflexivity].
    + split; [cbn [length]; lia|]. split; [rewrite !sumw_cons; lia|].
      change (x :: A0) with ([x] ++ A0). rewrite !flatq_app. cbn [flatq flat_map]. rewrite app_nil_r.
      fold (flatq A0). fold (flatq B'). rewrite !app_assoc. apply Permutation_app_tail.
      rewrite <- app_assoc. apply Permutation_app_comm.
Qed.

(* the result carries exactly the leaves of the two queues *)
Lemma amerge_perm : forall k A B T, (length A + length B = S k)%nat -> amerge k A B = Some T ->
  Permutation (tvals T) (flatq (A ++ B)).
Proof.
  induction k as [|k IH]; intros A B T Hk Hrun.
  - cbn [amerge] in Hrun. destruct B as [|b B]; [discriminate|]. inversion Hrun; subst.
    cbn [length] in Hk. assert (A = []) by (destruct A; [reflexivity|cbn in Hk; lia]).
    assert (B = []) by (destruct B; [reflexivity|cbn in Hk; lia]). subst.
    cbn [app flatq flat_map]. rewrite app_nil_r. reflexivity.
  - cbn [amerge] in Hrun. destruct (apick A B) as [[[x A1] B1]|] eqn:E1; [|discriminate].
    destruct (apick A1 B1) as [[[y A2] B2]|] eqn:E2; [|discriminate].
    destruct (apick_facts _ _ _ _ _ E1) as [L1 [_ P1]]. destruct (apick_facts _ _ _ _ _ E2) as [L2 [_ P2]].
    apply IH in Hrun; [|rewrite app_length; cbn [length]; lia].
    eapply Permutation_trans; [exact Hrun|]. eapply Permutation_trans; [|exact P1].
    eapply Permutation_trans; [|apply Permutation_app_head; exact P2].
    rewrite !flatq_app. cbn [flatq flat_map snd tvals]. rewrite app_nil_r. fold (flatq A2). fold (flatq B2).
    rewrite (app_assoc (flatq A2)). etransitivity; [apply Permutation_app_comm|]. rewrite <- app_assoc. reflexivity.
Qed.

(* ------------------------------------------------------------------ naturality: weights may be scaled, leaves relabelled *)
Fixpoint erase (t : tree) : tree :=
  match t with Leaf _ => Leaf 0 | Node a b => Node (erase a) (erase b) end.

Section Natural.
  Variable g : N -> N.
  Variable h : tree -> tree.
  Hypothesis g_add : forall a b, g (a + b) = g a + g b.
  Hypothesis g_le : forall a b, (g a <=? g b) = (a <=? b).
  Hypothesis h_node : forall a b, h (Node a b) = Node (h a) (h b).
  Definition qf (a : qitem) : qitem := (g (fst a), h (snd a)).

  Lemma apick_nat A B : apick (map qf A) (map qf B) =
    match apick A B with Some (a, A', B') => Some (qf a, map qf A', map qf B') | None => None end.
  Proof.
    destruct A as [|x A]; destruct B as [|y B]; cbn [map apick]; try reflexivity.
    cbn [qf fst]. rewrite g_le. destruct (fst x <=? fst y); reflexivity.
  Qed.

  Lemma amerge_nat : forall k A B, amerge k (map qf A) (map qf B) =
    match amerge k A B with Some t => Some (h t) | None => None end.
  Proof.
    induction k as [|k IH]; intros A B.
    - cbn [amerge]. destruct B as [|b B]; reflexivity.
    - cbn [amerge]. rewrite apick_nat. destruct (apick A B) as [[[x A1] B1]|]; [|reflexivity].
      rewrite apick_nat. destruct (apick A1 B1) as [[[y A2] B2]|]; [|reflexivity].
      rewrite <- IH. rewrite map_app. cbn [map]. unfold qf. cbn [fst snd]. rewrite g_add, h_node. reflexivity.
  Qed.
End Natural.

(* ------------------------------------------------------------------ the pool realises the abstract queues *)
Definition qrep (pool : list node) (i : N) (A : list qitem) : Prop :=
  Forall2 (fun x a => is_tree pool (Z.of_N x) (snd a) /\ cnt_at pool x = fst a) (Finite.range_nat i (length A)) A.

Lemma nth_of_nth_error_eq {A} (l l' : list A) q d : nth_error l' q = nth_error l q -> nth q l' d = nth q l d.
Proof.
  intros H. destruct (nth_error l q) as [x|] eqn:E.
  - rewrite (nth_error_nth _ _ _ H), (nth_error_nth _ _ _ E). reflexivity.
  - apply nth_error_None in H. apply nth_error_None in E. rewrite !nth_overflow by lia. reflexivity.
Qed.

Lemma qrep_stable pool pool' i A bound :
  qrep pool i A -> i + N.of_nat (length A) <= bound ->
  (forall q, (q < N.to_nat bound)%nat -> nth_error pool' q = nth_error pool q) -> qrep pool' i A.
Proof.
  unfold qrep. revert i. induction A as [|a A IH]; intros i H Hb Hs; [constructor|].
  cbn [length] in *. rewrite range_nat_S in *. inversion H as [|? ? ? ? [Ht Hc] HA]; subst. constructor.
  - split.
    + apply (is_tree_stable pool); [exact Ht|]. intros q Hq. apply Hs. lia.
    + rewrite <- Hc. unfold cnt_at. f_equal. apply nth_of_nth_error_eq. apply Hs. lia.
  - apply IH; [exact HA|lia|exact Hs].
Qed.

Lemma qrep_cons pool i a A : qrep pool i (a :: A) ->
  is_tree pool (Z.of_N i) (snd a) /\ cnt_at pool i = fst a /\ qrep pool (i + 1) A.
Proof.
  unfold qrep. cbn [length]. rewrite range_nat_S. intros H. inversion H as [|? ? ? ? [Ht Hc] HA]; subst. auto.
Qed.

Lemma qrep_snoc pool i A a : qrep pool i A ->
  is_tree pool (Z.of_N (i + N.of_nat (length A))) (snd a) -> cnt_at pool (i + N.of_nat (length A)) = fst a ->
  qrep pool i (A ++ [a]).
Proof.
  unfold qrep. intros HA Ht Hc. rewrite app_length. cbn [length]. rewrite Nat.add_1_r, range_nat_snoc.
  apply Forall2_app; [exact HA|]. constructor; [split; assumption|constructor].
Qed.

Lemma qrep_nil pool i : qrep pool i [].
Proof. constructor. Qed.

Lemma sumw_ge A a : In a A -> fst a <= sumw A.
Proof.
  induction A as [|x A IH]; intros H; [destruct H|]. rewrite sumw_cons. destruct H as [->|H]; [lia|].
  apply IH in H. lia.
Qed.

Lemma cnt_sentinel pool q : nth_error pool (N.to_nat q) = Some sentinel -> cnt_at pool q = MAXC.
Proof. intros H. unfold cnt_at. rewrite (nth_error_nth _ _ _ H). reflexivity. Qed.

Section MergeTotal.
  Variable n : N.
  Hypothesis Hn2 : 2 <= n.
  Hypothesis Hn16 : 2 * n + 1 <= 32768.
  Variable W : N.
  Hypothesis HW : W < MAXC.

  Lemma pick_total pool i j A B :
    i + N.of_nat (length A) = n -> n + 1 <= j -> j + N.of_nat (length B) <= 2 * n ->
    (N.to_nat (2 * n) < length pool)%nat ->
    nth_error pool (N.to_nat n) = Some sentinel ->
    nth_error pool (N.to_nat (j + N.of_nat (length B))) = Some sentinel ->
    qrep pool i A -> qrep pool j B -> sumw A + sumw B <= W -> (1 <= length A + length B)%nat ->
    exists a A' B' x i' j',
      apick A B = Some (a, A', B') /\ pick pool i j = Done (x, i', j') /\
      is_tree pool (Z.of_N x) (snd a) /\ cnt_at pool x = fst a /\
      qrep pool i' A' /\ qrep pool j' B' /\
      i' + N.of_nat (length A') = n /\ j' + N.of_nat (length B') = j + N.of_nat (length B) /\
      x < j + N.of_nat (length B) /\ j <= j'.
  Proof.
    intros Hi Hj1 Hje Hlen Hsn Hsje HA HB Hsum Hne. unfold pick.
    rewrite (getA_ok pool i node0) by lia. rewrite (getA_ok pool j node0) by lia. cbn [bind].
    change (total_count_ (nth (N.to_nat i) pool node0)) with (cnt_at pool i).
    change (total_count_ (nth (N.to_nat j) pool node0)) with (cnt_at pool j).
    destruct A as [|a A0]; destruct B as [|b B0]; cbn [length] in *.
    - lia.
    - assert (i = n) by lia. subst i. rewrite (cnt_sentinel pool n Hsn).
      destruct (qrep_cons _ _ _ _ HB) as [Ht [Hc HB']]. rewrite Hc.
      assert (fst b <= W) by (rewrite sumw_cons in Hsum; lia).
      destruct (N.leb_spec MAXC (fst b)); [lia|].
      exists b, [], B0, j, n, (j + 1). cbn [apick length]. repeat split; try assumption; try lia; try apply qrep_nil.
    - rewrite N.add_0_r in Hsje. rewrite (cnt_sentinel pool j Hsje).
      destruct (qrep_cons _ _ _ _ HA) as [Ht [Hc HA']]. rewrite Hc.
      assert (fst a <= W) by (rewrite sumw_cons in Hsum; lia).
      destruct (N.leb_spec (fst a) MAXC); [|lia].
      exists a, A0, [], i, (i + 1), j. cbn [apick length]. repeat split; try assumption; try lia.
    - destruct (qrep_cons _ _ _ _ HA) as [Hta [Hca HA']]. destruct (qrep_cons _ _ _ _ HB) as [Htb [Hcb HB']].
      rewrite Hca, Hcb. cbn [apick]. destruct (fst a <=? fst b).
      + exists a, A0, (b :: B0), i, (i + 1), j. cbn [length]. repeat split; try assumption; try lia.
      + exists b, (a :: A0), B0, j, i, (j + 1). cbn [length]. repeat split; try assumption; try lia.
  Qed.

  Lemma merge_total : forall k pool i j A B,
    i + N.of_nat (length A) = n -> n + 1 <= j ->
    (N.to_nat (2 * n) < length pool)%nat ->
    nth_error pool (N.to_nat n) = Some sentinel ->
    nth_error pool (N.to_nat (j + N.of_nat (length B))) = Some sentinel ->
    qrep pool i A -> qrep pool j B -> sumw A + sumw B <= W ->
    (length A + length B = S k)%nat -> j + N.of_nat (length B) + N.of_nat k = 2 * n ->
    (1 <= length B)%nat \/ j + N.of_nat (length B) = n + 1 ->
    exists pool' T, merge_loop k n pool i j = Done pool' /\ amerge k A B = Some T /\
                    is_tree pool' (Z.of_N (2 * n - 1)) T /\ length pool' = length pool.
  Proof.
    induction k as [|k IH]; intros pool i j A B Hi Hj1 Hlen Hsn Hsje HA HB Hsum Hk Hje Hfresh.
    - destruct B as [|b [|b' B]]; cbn [length] in *; try lia.
      exists pool, (snd b). cbn [merge_loop amerge]. repeat split; try reflexivity.
      destruct (qrep_cons _ _ _ _ HB) as [Ht _]. replace (2 * n - 1) with j by lia. exact Ht.
    - cbn [merge_loop amerge].
      destruct (pick_total pool i j A B Hi Hj1 ltac:(lia) Hlen Hsn Hsje HA HB Hsum ltac:(lia))
        as [a1 [A1 [B1 [x1 [i1 [j1 [Ea1 [Ep1 [Ht1 [Hc1 [HA1 [HB1 [Hi1 [Hj1e [Hx1 Hjj1]]]]]]]]]]]]]]].
      destruct (apick_facts _ _ _ _ _ Ea1) as [L1 [S1 _]].
      assert (Hsje1 : nth_error pool (N.to_nat (j1 + N.of_nat (length B1))) = Some sentinel) by (rewrite Hj1e; exact Hsje).
      destruct (pick_total pool i1 j1 A1 B1 Hi1 ltac:(lia) ltac:(lia) Hlen Hsn Hsje1 HA1 HB1 ltac:(lia) ltac:(lia))
        as [a2 [A2 [B2 [x2 [i2 [j2 [Ea2 [Ep2 [Ht2 [Hc2 [HA2 [HB2 [Hi2 [Hj2e [Hx2 Hjj2]]]]]]]]]]]]]]].
      destruct (apick_facts _ _ _ _ _ Ea2) as [L2 [S2 _]].
      rewrite Ep1, Ea1. cbn [bind]. rewrite Ep2, Ea2. cbn [bind].
      set (je := j + N.of_nat (length B)) in *.
      replace (2 * n - N.of_nat (S k)) with je by lia.
      rewrite (getA_ok pool x1 node0) by lia. rewrite (getA_ok pool x2 node0) by lia. cbn [bind].
      change (total_count_ (nth (N.to_nat x1) pool node0)) with (cnt_at pool x1).
      change (total_count_ (nth (N.to_nat x2) pool node0)) with (cnt_at pool x2).
      rewrite Hc1, Hc2.
      assert (Hadd : wadd32 (fst a1) (fst a2) = fst a1 + fst a2).
      { unfold wadd32, w32. apply N.mod_small. unfold MAXC in HW. change (2 ^ 32) with 4294967296 in *. lia. }
      rewrite Hadd.
      set (newnode := mk_node (fst a1 + fst a2) (i16 x1) (i16 x2)).
      rewrite setA_ok by lia. cbn [bind]. rewrite setA_ok by (rewrite upd_length; lia). cbn [bind].
      set (pool2 := upd (upd pool (N.to_nat je) newnode) (N.to_nat (je + 1)) sentinel).
      assert (Hst : forall q, (q < N.to_nat je)%nat -> nth_error pool2 q = nth_error pool q).
      { intros q Hq. unfold pool2. rewrite !nth_error_upd_other by lia. reflexivity. }
      assert (Hnew : nth_error pool2 (N.to_nat je) = Some newnode).
      { unfold pool2. rewrite nth_error_upd_other by lia. apply nth_error_upd_same. lia. }
      assert (Hlen2 : length pool2 = length pool) by (unfold pool2; rewrite !upd_length; reflexivity).
      set (new := (fst a1 + fst a2, Node (snd a1) (snd a2)) : qitem).
      destruct (IH pool2 i2 j2 A2 (B2 ++ [new])) as [pool' [T [E1 [E2 [E3 E4]]]]]; try lia.
      + rewrite Hst by lia. exact Hsn.
      + rewrite app_length. cbn [length]. replace (j2 + N.of_nat (length B2 + 1)) with (je + 1) by lia.
        unfold pool2. apply nth_error_upd_same. rewrite upd_length. lia.
      + apply (qrep_stable pool pool2 i2 A2 je HA2); [lia|exact Hst].
      + apply qrep_snoc.
        * apply (qrep_stable pool pool2 j2 B2 je HB2); [lia|exact Hst].
        * replace (j2 + N.of_nat (length B2)) with je by lia. cbn [new snd].
          apply (it_node pool2 (Z.of_N je) newnode (snd a1) (snd a2)); try lia.
          -- replace (Z.to_nat (Z.of_N je)) with (N.to_nat je) by lia. exact Hnew.
          -- cbn [newnode index_left_]. rewrite i16_small by lia. lia.
          -- cbn [newnode index_left_]. rewrite i16_small by lia. lia.
          -- cbn [newnode index_right_or_value_]. rewrite i16_small by lia. lia.
          -- cbn [newnode index_left_]. rewrite i16_small by lia.
             apply (is_tree_stable pool); [exact Ht1|]. intros q Hq. apply Hst. lia.
          -- cbn [newnode index_right_or_value_]. rewrite i16_small by lia.
             apply (is_tree_stable pool); [exact Ht2|]. intros q Hq. apply Hst. lia.
        * replace (j2 + N.of_nat (length B2)) with je by lia. unfold cnt_at.
          rewrite (nth_error_nth _ _ _ Hnew). reflexivity.
      + rewrite sumw_app. unfold new at 1. rewrite sumw_cons, sumw_nil. cbn [fst]. lia.
      + rewrite app_length. cbn [length]. lia.
      + rewrite app_length. cbn [length]. lia.
      + left. rewrite app_length. cbn [length]. lia.
      + exists pool', T. repeat split; try assumption. lia.
  Qed.
End MergeTotal.
