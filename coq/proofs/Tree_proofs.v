(* C17_tree (partial: "returns => correct"): whatever depth vector BrotliCreateHuffmanTree returns
   is the depth map of a full binary tree over exactly the symbols that occur. *)
From Coq Require Import NArith ZArith List Lia Bool Arith Permutation.
From V Require Import lib.Words gen.GenHuffman spec.PrefixCode model.Huffman
  proofs.Canonical_proofs proofs.Huffman_proofs proofs.Store_proofs.
Import ListNotations.
Open Scope N_scope.

(* ------------------------------------------------------------------ trees in the pool *)
Inductive tree : Type := Leaf (v : Z) | Node (a b : tree).

(* node p of the pool is the root of t; children have smaller indices *)
Inductive is_tree (pool : list node) : Z -> tree -> Prop :=
| it_leaf p nd : (0 <= p)%Z -> nth_error pool (Z.to_nat p) = Some nd -> (index_left_ nd < 0)%Z ->
    is_tree pool p (Leaf (index_right_or_value_ nd))
| it_node p nd a b : (0 <= p)%Z -> nth_error pool (Z.to_nat p) = Some nd -> (0 <= index_left_ nd)%Z ->
    (index_left_ nd < p)%Z -> (index_right_or_value_ nd < p)%Z ->
    is_tree pool (index_left_ nd) a -> is_tree pool (index_right_or_value_ nd) b ->
    is_tree pool p (Node a b).

(* leaves with their levels, in depth-first order *)
Fixpoint lleaves (t : tree) (lvl : Z) : list (Z * Z) :=
  match t with
  | Leaf v => [(v, lvl)]
  | Node a b => lleaves a (lvl + 1) ++ lleaves b (lvl + 1)
  end.

(* the writes depth[v] = level as u8, in order; None when one of them is out of bounds *)
Fixpoint apply_writes (ws : list (Z * Z)) (depth : list N) : option (list N) :=
  match ws with
  | [] => Some depth
  | (v, l) :: t => match setZ depth v (u8_of_Z l) with Done d' => apply_writes t d' | _ => None end
  end.

Lemma apply_writes_app a b depth :
  apply_writes (a ++ b) depth = match apply_writes a depth with Some d' => apply_writes b d' | None => None end.
Proof.
  revert depth. induction a as [|[v l] a IH]; intros depth; [reflexivity|]. cbn [app apply_writes].
  destruct (setZ depth v (u8_of_Z l)); try reflexivity. apply IH.
Qed.

Lemma getZ_done {A} (l : list A) z x : getZ l z = Done x -> (0 <= z)%Z /\ nth_error l (Z.to_nat z) = Some x.
Proof.
  unfold getZ. destruct (Z.ltb_spec z 0) as [Hneg|Hpos]; [discriminate|]. unfold getA. rewrite Z_N_nat.
  destruct (nth_error l (Z.to_nat z)) eqn:E; intros H; inversion H. subst. auto.
Qed.

Ltac inv_bind H :=
  let a := fresh "a" in let E := fresh "E" in
  apply bind_done in H; destruct H as [a [E H]].

Lemma setZ_done {A} (l l' : list A) z x : setZ l z x = Done l' ->
  (0 <= z)%Z /\ (Z.to_nat z < length l)%nat /\ l' = upd l (Z.to_nat z) x.
Proof.
  unfold setZ. destruct (Z.ltb_spec z 0) as [Hneg|Hpos]; [discriminate|]. intros H.
  apply setA_done in H. rewrite Z_N_nat in H. tauto.
Qed.

Section SetDepth.
  Variable pool : list node.
  Variable maxd : Z.

  Definition sget (stack : list Z) (m : nat) : Z := nth m stack 0%Z.

  (* the subtrees still to be visited, read off stack entries m-1 .. 0 *)
  Fixpoint pend_rel (stack : list Z) (m : nat) (items : list (tree * Z)) : Prop :=
    match m with
    | O => items = []
    | S m' => (sget stack m' = (-1)%Z /\ pend_rel stack m' items) \/
              (exists t rest, sget stack m' <> (-1)%Z /\ is_tree pool (sget stack m') t /\
                              items = (t, Z.of_nat m') :: rest /\ pend_rel stack m' rest)
    end.

  Definition flat (items : list (tree * Z)) : list (Z * Z) :=
    flat_map (fun it => lleaves (fst it) (snd it)) items.

  Lemma pend_rel_upd stack m items k v : (m <= k)%nat ->
    pend_rel (upd stack k v) m items <-> pend_rel stack m items.
  Proof.
    revert items. induction m as [|m IH]; intros items Hk; [reflexivity|].
    cbn [pend_rel]. unfold sget. rewrite upd_nth_other by lia.
    split; intros [[H1 H2]|[t [rest [H1 [H2 [H3 H4]]]]]].
    - left. split; [exact H1|apply IH; [lia|exact H2]].
    - right. exists t, rest. repeat split; try assumption. apply IH; [lia|exact H4].
    - left. split; [exact H1|apply IH; [lia|exact H2]].
    - right. exists t, rest. repeat split; try assumption. apply IH; [lia|exact H4].
  Qed.

  Lemma getZ_sget stack z x : getZ stack z = Done x -> x = sget stack (Z.to_nat z) /\ (0 <= z)%Z /\ (Z.to_nat z < length stack)%nat.
  Proof.
    intros H. apply getZ_done in H. destruct H as [Hz H]. split; [|split; [exact Hz|]].
    - unfold sget. symmetry. apply nth_error_nth. exact H.
    - apply nth_error_Some. congruence.
  Qed.

  Lemma pop_spec stack : forall fuel m items l',
    pend_rel stack m items -> pop_levels fuel stack (Z.of_nat m - 1) = Done l' ->
    (l' = (-1)%Z /\ items = []) \/
    (exists m' t rest, l' = Z.of_nat m' /\ (m' < m)%nat /\ sget stack m' <> (-1)%Z /\
       is_tree pool (sget stack m') t /\ items = (t, l') :: rest /\ pend_rel stack m' rest).
  Proof.
    induction fuel as [|f IH]; intros m items l' Hp Hpop; [discriminate|].
    cbn [pop_levels] in Hpop. destruct m as [|m].
    - cbn in Hpop. inversion Hpop. left. split; [reflexivity|exact Hp].
    - replace (Z.of_nat (S m) - 1)%Z with (Z.of_nat m) in Hpop by lia.
      destruct (Z.leb_spec 0 (Z.of_nat m)) as [Hle|Hgt]; [|lia].
      inv_bind Hpop. apply getZ_sget in E. rewrite Nat2Z.id in E. destruct E as [-> _].
      cbn [pend_rel] in Hp. destruct (Z.eqb_spec (sget stack m) (-1)) as [Em|Em].
      + destruct Hp as [[_ Hp]|[t [rest [Hne _]]]]; [|contradiction].
        replace (Z.of_nat m - 1)%Z with (Z.of_nat m - 1)%Z in Hpop by reflexivity.
        destruct (IH m items l' Hp Hpop) as [Hd|[m' [t [rest [H1 [H2 H3]]]]]]; [left; exact Hd|].
        right. exists m', t, rest. split; [exact H1|]. split; [lia|exact H3].
      + destruct Hp as [[He _]|[t [rest [Hne [Ht [Hi Hr]]]]]]; [contradiction|].
        inversion Hpop. subst l'. right. exists m, t, rest. repeat split; try assumption. lia.
  Qed.

  Variable T : tree.
  Variable depth0 : list N.

  Definition levels_ok (ws : list (Z * Z)) : Prop := Forall (fun w => (snd w <= maxd)%Z) ws.

  Lemma is_tree_nonneg p t : is_tree pool p t -> (0 <= p)%Z.
  Proof. intros H. inversion H; assumption. Qed.

  Lemma loop_spec : forall fuel depth stack m p t items written b depth',
    (1 <= m)%nat ->
    is_tree pool p t -> pend_rel stack m items ->
    apply_writes written depth0 = Some depth -> levels_ok written ->
    written ++ lleaves t (Z.of_nat m - 1) ++ flat items = lleaves T 0 ->
    (Z.of_nat m - 1 <= maxd)%Z ->
    set_depth_loop fuel pool depth stack (Z.of_nat m - 1) p maxd = Done (b, depth') ->
    exists w, apply_writes w depth0 = Some depth' /\ (exists rest, w ++ rest = lleaves T 0) /\
              (b = true -> w = lleaves T 0 /\ levels_ok w).
  Proof.
    induction fuel as [|f IH]; intros depth stack m p t items written b depth' Hm Ht Hp Hw Hl Heq Hlm Hrun;
      [discriminate|].
    cbn [set_depth_loop] in Hrun. inv_bind Hrun. apply getZ_done in E. destruct E as [Hp0 Hnd].
    destruct Ht as [p nd Hp0' Hnd' Hleft|p nd ta tb Hp0' Hnd' Hleft Hl1 Hl2 Hta Htb].
    - (* leaf *)
      rewrite Hnd' in Hnd. inversion Hnd. subst a.
      destruct (Z.leb_spec 0 (index_left_ nd)); [lia|].
      inv_bind Hrun. rename a into depth1.
      assert (Hw1 : apply_writes (written ++ [(index_right_or_value_ nd, (Z.of_nat m - 1)%Z)]) depth0 = Some depth1).
      { rewrite apply_writes_app, Hw. cbn [apply_writes]. rewrite E. reflexivity. }
      assert (Hl1 : levels_ok (written ++ [(index_right_or_value_ nd, (Z.of_nat m - 1)%Z)])).
      { apply Forall_app. split; [exact Hl|]. constructor; [cbn; lia|constructor]. }
      inv_bind Hrun. rename a into l1.
      destruct (pop_spec stack 18 m items l1 Hp E0) as [[-> ->]|[m' [t' [rest [-> [Hm' [Hne [Ht' [-> Hp']]]]]]]]].
      + cbn in Hrun. inversion Hrun. subst b depth'.
        cbn [lleaves flat flat_map] in Heq. rewrite app_nil_r in Heq.
        exists (written ++ [(index_right_or_value_ nd, (Z.of_nat m - 1)%Z)]).
        split; [exact Hw1|]. split; [exists []; rewrite app_nil_r; exact Heq|].
        intros _. split; [exact Heq|exact Hl1].
      + destruct (Z.ltb_spec (Z.of_nat m') 0); [lia|].
        inv_bind Hrun. apply getZ_sget in E1. rewrite Nat2Z.id in E1. destruct E1 as [-> [_ Hlen]].
        inv_bind Hrun. apply setZ_done in E1. rewrite Nat2Z.id in E1. destruct E1 as [_ [_ ->]].
        replace (Z.of_nat m') with (Z.of_nat (S m') - 1)%Z in Hrun by lia.
        apply (IH depth1 (upd stack m' (-1)%Z) (S m') (sget stack m') t' rest
                  (written ++ [(index_right_or_value_ nd, (Z.of_nat m - 1)%Z)]) b depth'); try assumption; try lia.
        * cbn [pend_rel]. left. split; [unfold sget; rewrite upd_nth_same by exact Hlen; reflexivity|].
          apply pend_rel_upd; [lia|exact Hp'].
        * rewrite <- Heq. cbn [lleaves flat flat_map fst snd]. rewrite <- !app_assoc.
          replace (Z.of_nat (S m') - 1)%Z with (Z.of_nat m') by lia. reflexivity.
    - (* internal node *)
      rewrite Hnd' in Hnd. inversion Hnd. subst a.
      destruct (Z.leb_spec 0 (index_left_ nd)); [|lia].
      destruct (Z.ltb_spec maxd (Z.of_nat m - 1 + 1)) as [Hover|Hfit].
      + inversion Hrun. subst b depth'. exists written. split; [exact Hw|].
        split; [eexists; exact Heq|discriminate].
      + inv_bind Hrun. apply setZ_done in E. destruct E as [_ [Hlen ->]].
        replace (Z.to_nat (Z.of_nat m - 1 + 1)) with m in * by lia.
        replace (Z.of_nat m - 1 + 1)%Z with (Z.of_nat (S m) - 1)%Z in Hrun by lia.
        apply (IH depth (upd stack m (index_right_or_value_ nd)) (S m) (index_left_ nd) ta
                  ((tb, Z.of_nat m) :: items) written b depth'); try assumption; try lia.
        * cbn [pend_rel]. right. exists tb, items.
          assert (Es : sget (upd stack m (index_right_or_value_ nd)) m = index_right_or_value_ nd)
            by (unfold sget; apply upd_nth_same; exact Hlen).
          rewrite Es. split; [pose proof (is_tree_nonneg _ _ Htb); lia|]. split; [exact Htb|].
          split; [reflexivity|]. apply pend_rel_upd; [lia|exact Hp].
        * rewrite <- Heq. cbn [lleaves flat flat_map fst snd]. rewrite <- !app_assoc.
          replace (Z.of_nat (S m) - 1)%Z with (Z.of_nat m - 1 + 1)%Z by lia.
          replace (Z.of_nat m) with (Z.of_nat m - 1 + 1)%Z at 2 by lia. reflexivity.
  Qed.
End SetDepth.

Lemma set_depth_spec pool maxd T p0 depth b depth' :
  is_tree pool p0 T -> (0 <= maxd)%Z ->
  set_depth p0 pool depth maxd = Done (b, depth') ->
  exists w, apply_writes w depth = Some depth' /\ (exists rest, w ++ rest = lleaves T 0) /\
            (b = true -> w = lleaves T 0 /\ levels_ok maxd w).
Proof.
  intros Ht Hm Hrun. unfold set_depth in Hrun.
  apply (loop_spec pool maxd T depth (2 * length pool + 2)%nat depth stack0 1 p0 T [] [] b depth'); try assumption; try lia.
  - cbn [pend_rel]. left. split; reflexivity.
  - reflexivity.
  - constructor.
  - cbn [flat flat_map app]. rewrite app_nil_r. reflexivity.
Qed.

(* ------------------------------------------------------------------ what the writes do to the vector *)
Lemma apply_writes_length ws : forall depth depth', apply_writes ws depth = Some depth' -> length depth' = length depth.
Proof.
  induction ws as [|[v l] ws IH]; intros depth depth' H; [inversion H; reflexivity|].
  cbn [apply_writes] in H. destruct (setZ depth v (u8_of_Z l)) as [d1| |] eqn:E; try discriminate.
  apply setZ_done in E. destruct E as [_ [_ ->]]. rewrite (IH _ _ H), upd_length. reflexivity.
Qed.

Lemma apply_writes_other ws : forall depth depth' q, apply_writes ws depth = Some depth' ->
  (forall w, In w ws -> Z.to_nat (fst w) <> q) -> nth q depth' 0 = nth q depth 0.
Proof.
  induction ws as [|[v l] ws IH]; intros depth depth' q H Hq; [inversion H; reflexivity|].
  cbn [apply_writes] in H. destruct (setZ depth v (u8_of_Z l)) as [d1| |] eqn:E; try discriminate.
  apply setZ_done in E. destruct E as [_ [_ ->]].
  rewrite (IH _ _ q H) by (intros w Hw; apply Hq; right; exact Hw).
  apply upd_nth_other. apply (Hq (v, l)). left. reflexivity.
Qed.

Lemma apply_writes_in_range ws : forall depth depth' w, apply_writes ws depth = Some depth' -> In w ws ->
  (0 <= fst w)%Z /\ (Z.to_nat (fst w) < length depth)%nat.
Proof.
  induction ws as [|[v l] ws IH]; intros depth depth' w H Hin; [destruct Hin|].
  cbn [apply_writes] in H. destruct (setZ depth v (u8_of_Z l)) as [d1| |] eqn:E; try discriminate.
  apply setZ_done in E. destruct E as [Hv [Hlt ->]]. destruct Hin as [<-|Hin]; [cbn; auto|].
  destruct (IH _ _ w H Hin) as [H1 H2]. rewrite upd_length in H2. auto.
Qed.

Lemma apply_writes_at ws : forall depth depth' v l, apply_writes ws depth = Some depth' ->
  NoDup (map (fun w => Z.to_nat (fst w)) ws) -> In (v, l) ws ->
  nth (Z.to_nat v) depth' 0 = u8_of_Z l.
Proof.
  induction ws as [|[v0 l0] ws IH]; intros depth depth' v l H Hnd Hin; [destruct Hin|].
  cbn [apply_writes] in H. destruct (setZ depth v0 (u8_of_Z l0)) as [d1| |] eqn:E; try discriminate.
  apply setZ_done in E. destruct E as [Hv [Hlt ->]].
  cbn [map fst] in Hnd. inversion Hnd as [|? ? Hnotin Hnd']; subst.
  destruct Hin as [Heq|Hin].
  - inversion Heq; subst.
    rewrite (apply_writes_other ws _ depth' (Z.to_nat v) H).
    + apply upd_nth_same. exact Hlt.
    + intros w Hw E. apply Hnotin. rewrite <- E. apply (in_map (fun w => Z.to_nat (fst w))). exact Hw.
  - apply (IH _ _ v l H Hnd' Hin).
Qed.

(* ------------------------------------------------------------------ the two-queue merge *)
Fixpoint tvals (t : tree) : list Z :=
  match t with Leaf v => [v] | Node a b => tvals a ++ tvals b end.

Lemma lleaves_vals t lvl : map fst (lleaves t lvl) = tvals t.
Proof. revert lvl. induction t as [v|a IHa b IHb]; intros lvl; [reflexivity|]. cbn. rewrite map_app, IHa, IHb. reflexivity. Qed.

Definition MAXC : N := 2 ^ 32 - 1.
Definition cnt_at (pool : list node) (x : N) : N := total_count_ (nth (N.to_nat x) pool node0).
Definition sumc (pool : list node) (l : list N) : N := fold_right (fun x acc => cnt_at pool x + acc) 0 l.
Definition rootsP (pool : list node) (A : list N) (tA : list tree) : Prop :=
  Forall2 (fun x t => is_tree pool (Z.of_N x) t) A tA.

Lemma sumc_cons pool x l : sumc pool (x :: l) = cnt_at pool x + sumc pool l.
Proof. reflexivity. Qed.

Lemma sumc_ge pool l y : In y l -> cnt_at pool y <= sumc pool l.
Proof.
  induction l as [|x l IH]; intros H; [destruct H|]. cbn [sumc fold_right]. fold (sumc pool l).
  destruct H as [->|H]; [lia|]. apply IH in H. lia.
Qed.

Lemma range_nat_S lo k : Finite.range_nat lo (S k) = lo :: Finite.range_nat (lo + 1) k.
Proof. cbn [Finite.range_nat]. rewrite N.add_1_r. reflexivity. Qed.

Lemma range_nat_snoc k : forall lo, Finite.range_nat lo (S k) = Finite.range_nat lo k ++ [lo + N.of_nat k].
Proof.
  induction k as [|k IH]; intros lo.
  - cbn. rewrite N.add_0_r. reflexivity.
  - rewrite range_nat_S, IH, range_nat_S. cbn [app]. f_equal. f_equal. f_equal. lia.
Qed.

Lemma range_nat_lt k : forall lo x, In x (Finite.range_nat lo k) -> lo <= x < lo + N.of_nat k.
Proof.
  induction k as [|k IH]; intros lo x H; [destruct H|]. rewrite range_nat_S in H.
  destruct H as [<-|H]; [lia|]. apply IH in H. lia.
Qed.

Lemma is_tree_stable pool pool' p t : is_tree pool p t ->
  (forall q, (q <= Z.to_nat p)%nat -> nth_error pool' q = nth_error pool q) -> is_tree pool' p t.
Proof.
  induction 1 as [p nd Hp Hnd Hl|p nd a b Hp Hnd Hl Hl1 Hl2 Ha IHa Hb IHb]; intros Hs.
  - apply it_leaf; [exact Hp|rewrite Hs by lia; exact Hnd|exact Hl].
  - eapply it_node; [exact Hp|rewrite Hs by lia; exact Hnd|exact Hl|exact Hl1|exact Hl2| |].
    + apply IHa. intros q Hq. apply Hs. lia.
    + apply IHb. intros q Hq. apply Hs. pose proof (is_tree_nonneg _ _ _ Hb). lia.
Qed.

Lemma nth_error_upd_other {A} (l : list A) i j x : i <> j -> nth_error (upd l i x) j = nth_error l j.
Proof. revert i j. induction l as [|h t IH]; intros [|i] [|j] H; cbn; auto; try congruence. Qed.

Lemma nth_error_upd_same {A} (l : list A) i x : (i < length l)%nat -> nth_error (upd l i x) i = Some x.
Proof. revert i. induction l as [|h t IH]; intros [|i] H; cbn in *; try lia; auto. apply IH. lia. Qed.

Lemma i16_small x : x < 32768 -> i16 x = Z.of_N x.
Proof.
  intros H. unfold i16. rewrite N.mod_small by lia. destruct (N.ltb_spec x 32768); [reflexivity|lia].
Qed.

Lemma Forall2_nil_inv {A B} (R : A -> B -> Prop) l : Forall2 R [] l -> l = [].
Proof. intros H. inversion H. reflexivity. Qed.
Lemma Forall2_cons_inv {A B} (R : A -> B -> Prop) x a l : Forall2 R (x :: a) l ->
  exists t l', l = t :: l' /\ R x t /\ Forall2 R a l'.
Proof. intros H. inversion H; subst. eauto. Qed.

Section Merge.
  Variable n : N.
  Hypothesis Hn2 : 2 <= n.
  Hypothesis Hn16 : 2 * n + 1 <= 32768.
  Variable L : list Z.
  Variable W : N.
  Hypothesis HW : W < MAXC.

  (* the state between merges: leaf queue [i, i+la), node queue [j, j+lb) *)
  Record Inv (pool : list node) (i j : N) (la lb : nat) : Prop := {
    inv_i : i + N.of_nat la = n;
    inv_j1 : n + 1 <= j;
    inv_je : j + N.of_nat lb <= 2 * n;
    inv_sn : nth_error pool (N.to_nat n) = Some sentinel;
    inv_sje : nth_error pool (N.to_nat (j + N.of_nat lb)) = Some sentinel;
    inv_trees : exists tA tB, rootsP pool (Finite.range_nat i la) tA /\ rootsP pool (Finite.range_nat j lb) tB /\
                              Permutation (flat_map tvals (tA ++ tB)) L;
    inv_w : sumc pool (Finite.range_nat i la) + sumc pool (Finite.range_nat j lb) = W
  }.

  Lemma nth_of_error (pool : list node) q nd : nth_error pool q = Some nd -> nth q pool node0 = nd.
  Proof. intros H. apply nth_error_nth. exact H. Qed.

  Lemma getA_node (pool : list node) x nd : getA pool x = Done nd -> nd = nth (N.to_nat x) pool node0.
  Proof. intros H. apply (getA_done pool x nd node0) in H. tauto. Qed.

  (* one pick removes the head of one of the two queues *)
  Lemma pick_pop pool i j la lb tA tB x i' j' :
    i + N.of_nat la = n -> n + 1 <= j -> nth_error pool (N.to_nat n) = Some sentinel ->
    nth_error pool (N.to_nat (j + N.of_nat lb)) = Some sentinel ->
    rootsP pool (Finite.range_nat i la) tA -> rootsP pool (Finite.range_nat j lb) tB ->
    sumc pool (Finite.range_nat i la) + sumc pool (Finite.range_nat j lb) <= W ->
    (1 <= la + lb)%nat ->
    pick pool i j = Done (x, i', j') ->
    exists t la' lb' tA' tB',
      is_tree pool (Z.of_N x) t /\ rootsP pool (Finite.range_nat i' la') tA' /\ rootsP pool (Finite.range_nat j' lb') tB' /\
      i' + N.of_nat la' = n /\ j' + N.of_nat lb' = j + N.of_nat lb /\ (la' + lb' + 1 = la + lb)%nat /\
      Permutation (tvals t ++ flat_map tvals (tA' ++ tB')) (flat_map tvals (tA ++ tB)) /\
      cnt_at pool x + (sumc pool (Finite.range_nat i' la') + sumc pool (Finite.range_nat j' lb'))
        = sumc pool (Finite.range_nat i la) + sumc pool (Finite.range_nat j lb) /\
      x < j + N.of_nat lb /\ j <= j' /\ j' <= j + 1 /\ (j' = j + 1 -> (1 <= lb)%nat).
  Proof.
    intros Hi Hj1 Hsn Hsje HA HB Hsum Hne Hpick. unfold pick in Hpick.
    inv_bind Hpick. rename a into ti. apply getA_node in E. inv_bind Hpick. rename a into tj. apply getA_node in E0.
    assert (Hcti : total_count_ ti = cnt_at pool i) by (subst ti; reflexivity).
    assert (Hctj : total_count_ tj = cnt_at pool j) by (subst tj; reflexivity).
    (* take from the leaf queue *)
    assert (TakeA : forall la0, la = S la0 -> x = i -> i' = i + 1 -> j' = j ->
      exists t la' lb' tA' tB',
      is_tree pool (Z.of_N x) t /\ rootsP pool (Finite.range_nat i' la') tA' /\ rootsP pool (Finite.range_nat j' lb') tB' /\
      i' + N.of_nat la' = n /\ j' + N.of_nat lb' = j + N.of_nat lb /\ (la' + lb' + 1 = la + lb)%nat /\
      Permutation (tvals t ++ flat_map tvals (tA' ++ tB')) (flat_map tvals (tA ++ tB)) /\
      cnt_at pool x + (sumc pool (Finite.range_nat i' la') + sumc pool (Finite.range_nat j' lb'))
        = sumc pool (Finite.range_nat i la) + sumc pool (Finite.range_nat j lb) /\
      x < j + N.of_nat lb /\ j <= j' /\ j' <= j + 1 /\ (j' = j + 1 -> (1 <= lb)%nat)).
    { intros la0 -> -> -> ->. rewrite range_nat_S in HA.
      apply Forall2_cons_inv in HA. destruct HA as [t [tA' [-> [Ht HA']]]].
      exists t, la0, lb, tA', tB. split; [exact Ht|]. split; [exact HA'|]. split; [exact HB|].
      split; [lia|]. split; [lia|]. split; [lia|]. split; [cbn [app flat_map]; reflexivity|].
      split; [rewrite range_nat_S, sumc_cons; lia|]. split; [lia|]. split; [lia|]. split; [lia|]. lia. }
    assert (TakeB : forall lb0, lb = S lb0 -> x = j -> i' = i -> j' = j + 1 ->
      exists t la' lb' tA' tB',
      is_tree pool (Z.of_N x) t /\ rootsP pool (Finite.range_nat i' la') tA' /\ rootsP pool (Finite.range_nat j' lb') tB' /\
      i' + N.of_nat la' = n /\ j' + N.of_nat lb' = j + N.of_nat lb /\ (la' + lb' + 1 = la + lb)%nat /\
      Permutation (tvals t ++ flat_map tvals (tA' ++ tB')) (flat_map tvals (tA ++ tB)) /\
      cnt_at pool x + (sumc pool (Finite.range_nat i' la') + sumc pool (Finite.range_nat j' lb'))
        = sumc pool (Finite.range_nat i la) + sumc pool (Finite.range_nat j lb) /\
      x < j + N.of_nat lb /\ j <= j' /\ j' <= j + 1 /\ (j' = j + 1 -> (1 <= lb)%nat)).
    { intros lb0 -> -> -> ->. rewrite range_nat_S in HB.
      apply Forall2_cons_inv in HB. destruct HB as [t [tB' [-> [Ht HB']]]].
      exists t, la, lb0, tA, tB'. split; [exact Ht|]. split; [exact HA|]. split; [exact HB'|].
      split; [lia|]. split; [lia|]. split; [lia|]. split.
      - rewrite !flat_map_app. cbn [flat_map]. rewrite app_assoc.
        rewrite (app_assoc (flat_map tvals tA)). apply Permutation_app_tail. apply Permutation_app_comm.
      - split; [rewrite range_nat_S, sumc_cons; lia|]. split; [lia|]. split; [lia|]. split; [lia|]. lia. }
    destruct la as [|la0]; destruct lb as [|lb0]; try lia.
    - (* leaf queue empty: tree[i] is the sentinel *)
      assert (Ei : i = n) by lia. subst i.
      assert (Hti : total_count_ ti = MAXC).
      { rewrite Hcti. unfold cnt_at. rewrite (nth_of_error _ _ _ Hsn). reflexivity. }
      assert (Hj : cnt_at pool j <= W).
      { etransitivity; [apply (sumc_ge pool (Finite.range_nat j (S lb0)) j); rewrite range_nat_S; left; reflexivity|].
        lia. }
      rewrite Hti, Hctj in Hpick. destruct (N.leb_spec MAXC (cnt_at pool j)); [lia|].
      inversion Hpick; subst. eapply TakeB; reflexivity.
    - (* node queue empty: tree[j] is the sentinel *)
      assert (Htj : total_count_ tj = MAXC).
      { rewrite Hctj. unfold cnt_at. rewrite N.add_0_r in Hsje. rewrite (nth_of_error _ _ _ Hsje). reflexivity. }
      assert (Hi' : cnt_at pool i <= W).
      { etransitivity; [apply (sumc_ge pool (Finite.range_nat i (S la0)) i); rewrite range_nat_S; left; reflexivity|]. lia. }
      rewrite Htj, Hcti in Hpick. destruct (N.leb_spec (cnt_at pool i) MAXC); [|unfold MAXC in *; lia].
      inversion Hpick; subst. eapply TakeA; reflexivity.
    - destruct (total_count_ ti <=? total_count_ tj); inversion Hpick; subst;
        [eapply TakeA; reflexivity|eapply TakeB; reflexivity].
  Qed.

  Lemma sumc_app pool a b : sumc pool (a ++ b) = sumc pool a + sumc pool b.
  Proof. induction a as [|x a IH]; [reflexivity|]. cbn [app]. rewrite !sumc_cons, IH. lia. Qed.

  Lemma sumc_stable pool pool' l : (forall x, In x l -> nth (N.to_nat x) pool' node0 = nth (N.to_nat x) pool node0) ->
    sumc pool' l = sumc pool l.
  Proof.
    induction l as [|x l IH]; intros H; [reflexivity|]. rewrite !sumc_cons, IH by (intros y Hy; apply H; right; exact Hy).
    unfold cnt_at. rewrite H by (left; reflexivity). reflexivity.
  Qed.

  Lemma rootsP_stable pool pool' A tA bound :
    rootsP pool A tA -> (forall x, In x A -> x < bound) ->
    (forall q, (q < N.to_nat bound)%nat -> nth_error pool' q = nth_error pool q) -> rootsP pool' A tA.
  Proof.
    intros H. induction H as [|x t A tA Hx HA IH]; intros Hb Hs; [constructor|].
    constructor.
    - apply (is_tree_stable pool); [exact Hx|]. intros q Hq. apply Hs.
      pose proof (Hb x ltac:(left; reflexivity)). lia.
    - apply IH; [intros y Hy; apply Hb; right; exact Hy|exact Hs].
  Qed.

  Lemma merge_spec : forall k pool i j la lb pool',
    Inv pool i j la lb -> (la + lb = S k)%nat -> j + N.of_nat lb + N.of_nat k = 2 * n ->
    (1 <= lb)%nat \/ j + N.of_nat lb = n + 1 ->
    merge_loop k n pool i j = Done pool' ->
    exists T, is_tree pool' (Z.of_N (2 * n - 1)) T /\ Permutation (tvals T) L.
  Proof.
    induction k as [|k IH]; intros pool i j la lb pool' HI Hk Hje Hfresh Hrun.
    - cbn in Hrun. inversion Hrun. subst pool'. destruct HI as [Hi Hj1 Hje2 Hsn Hsje [tA [tB [HA [HB HP]]]] Hw].
      assert (lb = 1%nat /\ la = 0%nat) as [-> ->] by lia.
      cbn [Finite.range_nat] in HA, HB. apply Forall2_nil_inv in HA. subst tA.
      apply Forall2_cons_inv in HB. destruct HB as [T [tB' [-> [HT HB']]]]. apply Forall2_nil_inv in HB'. subst tB'.
      exists T. split; [|cbn [app flat_map] in HP; rewrite app_nil_r in HP; exact HP].
      replace (2 * n - 1) with j by lia. exact HT.
    - cbn [merge_loop] in Hrun.
      destruct HI as [Hi Hj1 Hje2 Hsn Hsje [tA [tB [HA [HB HP]]]] Hw].
      inv_bind Hrun. destruct a as [[x1 i1] j1].
      destruct (pick_pop pool i j la lb tA tB x1 i1 j1 Hi Hj1 Hsn Hsje HA HB ltac:(lia) ltac:(lia) E)
        as [t1 [la1 [lb1 [tA1 [tB1 [Ht1 [HA1 [HB1 [Hi1 [Hj1e [Hl1 [HP1 [Hw1 [Hx1 [Hjj1 [Hjj1' Hlb1]]]]]]]]]]]]]]]].
      inv_bind Hrun. destruct a as [[x2 i2] j2].
      assert (Hsje1 : nth_error pool (N.to_nat (j1 + N.of_nat lb1)) = Some sentinel) by (rewrite Hj1e; exact Hsje).
      destruct (pick_pop pool i1 j1 la1 lb1 tA1 tB1 x2 i2 j2 Hi1 ltac:(lia) Hsn Hsje1 HA1 HB1 ltac:(lia) ltac:(lia) E0)
        as [t2 [la2 [lb2 [tA2 [tB2 [Ht2 [HA2 [HB2 [Hi2 [Hj2e [Hl2 [HP2 [Hw2 [Hx2 [Hjj2 [Hjj2' Hlb2]]]]]]]]]]]]]]]].
      set (je := j + N.of_nat lb) in *.
      assert (Eje : 2 * n - N.of_nat (S k) = je) by lia.
      rewrite Eje in Hrun.
      inv_bind Hrun. rename a into tl. apply getA_node in E1.
      inv_bind Hrun. rename a into tr. apply getA_node in E2.
      inv_bind Hrun. rename a into pool1. apply setA_done in E3. destruct E3 as [Hlen1 ->].
      inv_bind Hrun. rename a into pool2. apply setA_done in E3. destruct E3 as [Hlen2 ->].
      rewrite upd_length in Hlen2.
      set (newnode := mk_node (wadd32 (total_count_ tl) (total_count_ tr)) (i16 x1) (i16 x2)) in *.
      set (pool2 := upd (upd pool (N.to_nat je) newnode) (N.to_nat (je + 1)) sentinel) in *.
      assert (Hst : forall q, (q < N.to_nat je)%nat -> nth_error pool2 q = nth_error pool q).
      { intros q Hq. unfold pool2. rewrite !nth_error_upd_other by lia. reflexivity. }
      assert (Hc1 : total_count_ tl = cnt_at pool x1) by (subst tl; reflexivity).
      assert (Hc2 : total_count_ tr = cnt_at pool x2) by (subst tr; reflexivity).
      assert (Hnew : nth_error pool2 (N.to_nat je) = Some newnode).
      { unfold pool2. rewrite nth_error_upd_other by lia. apply nth_error_upd_same. exact Hlen1. }
      assert (Hje16 : je < 32768) by lia.
      assert (HA2' : forall x, In x (Finite.range_nat i2 la2) -> x < je) by (intros x Hx; apply range_nat_lt in Hx; lia).
      assert (HB2' : forall x, In x (Finite.range_nat j2 lb2) -> x < je) by (intros x Hx; apply range_nat_lt in Hx; lia).
      apply (IH pool2 i2 j2 la2 (S lb2) pool'); try lia; [|exact Hrun].
      constructor; try lia.
      + rewrite Hst by lia. exact Hsn.
      + replace (j2 + N.of_nat (S lb2)) with (je + 1) by lia. unfold pool2. apply nth_error_upd_same.
        rewrite upd_length. exact Hlen2.
      + exists tA2, (tB2 ++ [Node t1 t2]). split; [|split].
        * apply (rootsP_stable pool pool2 _ _ je HA2 HA2' Hst).
        * rewrite range_nat_snoc. apply Forall2_app; [apply (rootsP_stable pool pool2 _ _ je HB2 HB2' Hst)|].
          constructor; [|constructor]. replace (j2 + N.of_nat lb2) with je by lia.
          apply (it_node pool2 (Z.of_N je) newnode t1 t2); try lia.
          -- replace (Z.to_nat (Z.of_N je)) with (N.to_nat je) by lia. exact Hnew.
          -- cbn [newnode index_left_]. rewrite i16_small by lia. lia.
          -- cbn [newnode index_left_]. rewrite i16_small by lia. lia.
          -- cbn [newnode index_right_or_value_]. rewrite i16_small by lia. lia.
          -- cbn [newnode index_left_]. rewrite i16_small by lia.
             apply (is_tree_stable pool); [exact Ht1|]. intros q Hq. apply Hst. lia.
          -- cbn [newnode index_right_or_value_]. rewrite i16_small by lia.
             apply (is_tree_stable pool); [exact Ht2|]. intros q Hq. apply Hst. lia.
        * eapply Permutation_trans; [|exact HP]. eapply Permutation_trans; [|exact HP1].
          eapply Permutation_trans; [|apply Permutation_app_head; exact HP2].
          rewrite !flat_map_app. cbn [flat_map tvals]. rewrite app_nil_r.
          rewrite (app_assoc (flat_map tvals tA2)).
          etransitivity; [apply Permutation_app_comm|]. rewrite <- app_assoc. reflexivity.
      + rewrite range_nat_snoc, sumc_app.
        assert (Hnth : forall x, x < je -> nth (N.to_nat x) pool2 node0 = nth (N.to_nat x) pool node0).
        { intros x Hx. unfold pool2. rewrite !upd_nth_other by lia. reflexivity. }
        rewrite (sumc_stable pool pool2 (Finite.range_nat i2 la2)) by (intros x Hx; apply Hnth, HA2', Hx).
        rewrite (sumc_stable pool pool2 (Finite.range_nat j2 lb2)) by (intros x Hx; apply Hnth, HB2', Hx).
        replace (j2 + N.of_nat lb2) with je by lia.
        assert (Hcje : sumc pool2 [je] = cnt_at pool x1 + cnt_at pool x2).
        { cbn [sumc fold_right]. unfold cnt_at at 1. rewrite (nth_of_error _ _ _ Hnew). cbn [newnode total_count_].
          rewrite Hc1, Hc2. unfold wadd32, w32. rewrite N.mod_small; [lia|].
          unfold MAXC in HW. change (2 ^ 32) with 4294967296 in *. lia. }
        rewrite Hcje. lia.
  Qed.
End Merge.

(* ------------------------------------------------------------------ SortHuffmanTreeItems permutes *)
Lemma node_eq_dec (a b : node) : {a = b} + {a <> b}.
Proof. decide equality; try apply Z.eq_dec; apply N.eq_dec. Defined.

Definition ind (a b : node) : nat := if node_eq_dec a b then 1%nat else 0%nat.

Lemma count_upd (l : list node) i v x d : (i < length l)%nat ->
  (count_occ node_eq_dec (upd l i v) x + ind (nth i l d) x = count_occ node_eq_dec l x + ind v x)%nat.
Proof.
  revert i. induction l as [|h t IH]; intros [|i] H; cbn in H; try lia.
  - cbn [upd count_occ nth]. unfold ind. destruct (node_eq_dec v x); destruct (node_eq_dec h x); lia.
  - cbn [upd count_occ nth]. specialize (IH i ltac:(lia)). destruct (node_eq_dec h x); lia.
Qed.

Lemma upd_nth_id (l : list node) i d : (i < length l)%nat -> upd l i (nth i l d) = l.
Proof. revert i. induction l as [|h t IH]; intros [|i] H; cbn in *; try lia; [reflexivity|]. rewrite IH by lia. reflexivity. Qed.

(* moving the hole: writing l[i] into the hole at j and making i the new hole *)
Lemma hole_move (l : list node) j i tmp d : (i < length l)%nat -> (j < length l)%nat ->
  Permutation (upd (upd l j (nth i l d)) i tmp) (upd l j tmp).
Proof.
  intros Hi Hj. apply (Permutation_count_occ node_eq_dec). intros x.
  pose proof (count_upd (upd l j (nth i l d)) i tmp x d ltac:(rewrite upd_length; lia)) as H1.
  pose proof (count_upd l j (nth i l d) x d Hj) as H2.
  pose proof (count_upd l j tmp x d Hj) as H3.
  destruct (Nat.eq_dec i j) as [->|Hne].
  - rewrite upd_nth_same in H1 by lia. lia.
  - rewrite upd_nth_other in H1 by lia. lia.
Qed.

Lemma for_range_inv_done {St} (P : N -> St -> Prop) (body : N -> St -> res St) :
  forall todo i s s', P i s ->
    (forall j s s1, i <= j -> j < i + N.of_nat todo -> P j s -> body j s = Done s1 -> P (j + 1) s1) ->
    for_range todo i body s = Done s' -> P (i + N.of_nat todo) s'.
Proof.
  induction todo as [|todo IH]; intros i s s' HP Hstep Hrun.
  - cbn in Hrun. inversion Hrun. subst. rewrite N.add_0_r. exact HP.
  - cbn [for_range] in Hrun. inv_bind Hrun.
    replace (i + N.of_nat (S todo)) with (i + 1 + N.of_nat todo) by lia.
    apply (IH (i + 1) a s'); [apply (Hstep i s a); try lia; assumption| |exact Hrun].
    intros j s0 s1 H1 H2. apply Hstep; lia.
Qed.

Section Sort.
  Variable cmp : node -> node -> bool.

  Lemma shell_inner_spec tmp gap : forall fuel items j items' j',
    (N.to_nat j < length items)%nat ->
    shell_inner fuel cmp items tmp gap j = Done (items', j') ->
    length items' = length items /\ (N.to_nat j' < length items')%nat /\ j' <= j /\
    Permutation (upd items' (N.to_nat j') tmp) (upd items (N.to_nat j) tmp) /\
    (forall q, (N.to_nat j < q)%nat -> nth_error items' q = nth_error items q).
  Proof.
    induction fuel as [|f IH]; intros items j items' j' Hj Hrun; [discriminate|].
    cbn [shell_inner] in Hrun.
    assert (Base : (items', j') = (items, j) ->
      length items' = length items /\ (N.to_nat j' < length items')%nat /\ j' <= j /\
      Permutation (upd items' (N.to_nat j') tmp) (upd items (N.to_nat j) tmp) /\
      (forall q, (N.to_nat j < q)%nat -> nth_error items' q = nth_error items q)).
    { intros E. inversion E. subst. repeat split; auto; try lia. }
    destruct (N.leb_spec gap j) as [Hg|Hg]; [|apply Base; inversion Hrun; reflexivity].
    inv_bind Hrun. rename a into x. apply (getA_done items _ x node0) in E. destruct E as [Hx ->].
    destruct (cmp tmp (nth (N.to_nat (j - gap)) items node0)); [|apply Base; inversion Hrun; reflexivity].
    inv_bind Hrun. apply setA_done in E. destruct E as [_ ->].
    destruct (IH _ (j - gap) items' j' ltac:(rewrite upd_length; exact Hx) Hrun) as [H1 [H2 [H3 [H4 H5]]]].
    rewrite upd_length in H1. split; [exact H1|]. split; [exact H2|]. split; [lia|]. split.
    - eapply Permutation_trans; [exact H4|]. apply hole_move; assumption.
    - intros q Hq. rewrite H5 by lia. apply nth_error_upd_other. lia.
  Qed.

  Lemma small_inner_spec tmp : forall fuel items k j items' k',
    (N.to_nat k < length items)%nat -> j <= k ->
    small_inner fuel cmp items tmp k j = Done (items', k') ->
    length items' = length items /\ (N.to_nat k' < length items')%nat /\ k' <= k /\
    Permutation (upd items' (N.to_nat k') tmp) (upd items (N.to_nat k) tmp) /\
    (forall q, (N.to_nat k < q)%nat -> nth_error items' q = nth_error items q).
  Proof.
    induction fuel as [|f IH]; intros items k j items' k' Hk Hjk Hrun; [discriminate|].
    cbn [small_inner] in Hrun.
    inv_bind Hrun. rename a into x. apply (getA_done items _ x node0) in E. destruct E as [Hx ->].
    destruct (cmp tmp (nth (N.to_nat j) items node0)).
    2:{ inversion Hrun. subst. repeat split; auto; try lia. }
    inv_bind Hrun. apply setA_done in E. destruct E as [_ ->].
    assert (Hmove : Permutation (upd (upd items (N.to_nat k) (nth (N.to_nat j) items node0)) (N.to_nat j) tmp)
                                (upd items (N.to_nat k) tmp)) by (apply hole_move; assumption).
    destruct (N.eqb_spec j 0) as [Ej|Ej].
    - inversion Hrun. subst. rewrite upd_length. split; [reflexivity|]. split; [lia|]. split; [lia|].
      split; [exact Hmove|]. intros q Hq. apply nth_error_upd_other. lia.
    - destruct (IH _ j (j - 1) items' k' ltac:(rewrite upd_length; exact Hx) ltac:(lia) Hrun) as [H1 [H2 [H3 [H4 H5]]]].
      rewrite upd_length in H1. split; [exact H1|]. split; [exact H2|]. split; [lia|]. split.
      + eapply Permutation_trans; [exact H4|exact Hmove].
      + intros q Hq. rewrite H5 by lia. apply nth_error_upd_other. lia.
  Qed.

  (* invariant of every pass: same length, a permutation, entries from n on untouched *)
  Definition sortP (items0 : list node) (n : N) (items : list node) : Prop :=
    length items = length items0 /\ Permutation items items0 /\
    (forall q, (N.to_nat n <= q)%nat -> nth_error items q = nth_error items0 q).

  Lemma sortP_refl items0 n : sortP items0 n items0.
  Proof. split; [reflexivity|]. split; [apply Permutation_refl|]. auto. Qed.

  Lemma insert_step items0 n items i items1 j tmp :
    sortP items0 n items -> i < n -> (N.to_nat i < length items)%nat -> tmp = nth (N.to_nat i) items node0 ->
    length items1 = length items -> (N.to_nat j < length items1)%nat -> j <= i ->
    Permutation (upd items1 (N.to_nat j) tmp) (upd items (N.to_nat i) tmp) ->
    (forall q, (N.to_nat i < q)%nat -> nth_error items1 q = nth_error items q) ->
    sortP items0 n (upd items1 (N.to_nat j) tmp).
  Proof.
    intros [P1 [P2 P3]] Hin Hi -> H1 H2 H3 H4 H5. rewrite upd_nth_id in H4 by exact Hi.
    split; [rewrite upd_length; lia|]. split; [eapply Permutation_trans; eassumption|].
    intros q Hq. rewrite nth_error_upd_other by lia. rewrite H5 by lia. apply P3. exact Hq.
  Qed.

  Lemma shell_pass_spec items0 n gap items items' :
    sortP items0 n items -> shell_pass cmp items n gap = Done items' -> sortP items0 n items'.
  Proof.
    intros HP Hrun. unfold shell_pass, for_in in Hrun.
    apply (for_range_inv_done (fun _ it => sortP items0 n it) _ _ _ _ _ HP) in Hrun; [exact Hrun|].
    intros i it it1 Hi1 Hi2 HPi Hbody.
    inv_bind Hbody. rename a into tmp. apply (getA_done it _ tmp node0) in E. destruct E as [Hi Htmp].
    inv_bind Hbody. destruct a as [items1 j]. apply setA_done in Hbody. destruct Hbody as [_ ->].
    destruct (shell_inner_spec tmp gap _ it i items1 j Hi E) as [H1 [H2 [H3 [H4 H5]]]].
    apply (insert_step items0 n it i items1 j tmp); try assumption. lia.
  Qed.

  Lemma small_sort_spec items0 n items items' :
    sortP items0 n items -> small_sort cmp items n = Done items' -> sortP items0 n items'.
  Proof.
    intros HP Hrun. unfold small_sort, for_in in Hrun.
    apply (for_range_inv_done (fun _ it => sortP items0 n it) _ _ _ _ _ HP) in Hrun; [exact Hrun|].
    intros i it it1 Hi1 Hi2 HPi Hbody.
    inv_bind Hbody. rename a into tmp. apply (getA_done it _ tmp node0) in E. destruct E as [Hi Htmp].
    inv_bind Hbody. destruct a as [items1 k]. apply setA_done in Hbody. destruct Hbody as [_ ->].
    destruct (small_inner_spec tmp _ it i (i - 1) items1 k Hi ltac:(lia) E) as [H1 [H2 [H3 [H4 H5]]]].
    apply (insert_step items0 n it i items1 k tmp); try assumption. lia.
  Qed.

  Lemma shell_gaps_spec items0 n : forall fuel items g items',
    sortP items0 n items -> shell_gaps_loop fuel cmp items n g = Done items' -> sortP items0 n items'.
  Proof.
    induction fuel as [|f IH]; intros items g items' HP Hrun; [discriminate|].
    cbn [shell_gaps_loop] in Hrun. destruct (g <? 6); [|inversion Hrun; subst; exact HP].
    inv_bind Hrun. inv_bind Hrun. apply (IH a0 (g + 1) items'); [|exact Hrun].
    apply (shell_pass_spec items0 n a items a0 HP E0).
  Qed.

  Lemma sort_items_spec items n items' :
    sort_items cmp items n = Done items' -> sortP items n items'.
  Proof.
    unfold sort_items. destruct (n <? sort_small_threshold).
    - apply small_sort_spec. apply sortP_refl.
    - apply shell_gaps_spec. apply sortP_refl.
  Qed.
End Sort.

(* ------------------------------------------------------------------ the leaves *)
Section Leaves.
  Variable data : list N.
  Variable cl : N.

  Definition leaf_at (i : nat) : node := mk_node (N.max (nth i data 0) cl) (-1) (i16 (N.of_nat i)).

  (* positions with a non-zero count below i, in the order the code visits them (descending) *)
  Fixpoint supp (i : nat) : list nat :=
    match i with
    | O => []
    | S i' => if nth i' data 0 =? 0 then supp i' else i' :: supp i'
    end.

  Lemma supp_spec i s : In s (supp i) <-> (s < i)%nat /\ nth s data 0 <> 0.
  Proof.
    induction i as [|i IH]; [cbn; split; [tauto|lia]|].
    cbn [supp]. destruct (N.eqb_spec (nth i data 0) 0) as [E|E].
    - rewrite IH. split; [intros [H1 H2]; split; [lia|exact H2]|].
      intros [H1 H2]. split; [|exact H2]. destruct (Nat.eq_dec s i) as [->|]; [contradiction|lia].
    - cbn [In]. rewrite IH. split.
      + intros [<-|[H1 H2]]; [split; [lia|exact E]|split; [lia|exact H2]].
      + intros [H1 H2]. destruct (Nat.eq_dec s i) as [->|]; [left; reflexivity|right; split; [lia|exact H2]].
  Qed.

  Lemma supp_NoDup i : NoDup (supp i).
  Proof.
    induction i as [|i IH]; [constructor|]. cbn [supp]. destruct (nth i data 0 =? 0); [exact IH|].
    constructor; [|exact IH]. rewrite supp_spec. lia.
  Qed.

  Lemma firstn_upd_snoc {A} (l : list A) k x : (k < length l)%nat -> firstn (S k) (upd l k x) = firstn k l ++ [x].
  Proof.
    revert k. induction l as [|h t IH]; intros [|k] H; cbn in H; try lia; [reflexivity|].
    cbn [upd firstn app]. f_equal. apply IH. lia.
  Qed.

  Lemma collect_spec : forall i pool n0 pool' n',
    (i <= length data)%nat ->
    collect_leaves i data cl pool n0 = Done (pool', n') ->
    n' = n0 + N.of_nat (length (supp i)) /\ length pool' = length pool /\
    firstn (N.to_nat n') pool' = firstn (N.to_nat n0) pool ++ map leaf_at (supp i).
  Proof.
    induction i as [|i IH]; intros pool n0 pool' n' Hi Hrun.
    - cbn in Hrun. inversion Hrun. subst. cbn [supp map length]. rewrite N.add_0_r, app_nil_r. auto.
    - cbn [collect_leaves] in Hrun. inv_bind Hrun. rename a into x.
      apply (getA_done data _ x 0) in E. rewrite Nat2N.id in E. destruct E as [_ ->].
      cbn [supp]. destruct (N.eqb_spec (nth i data 0) 0) as [Ez|Ez]; cbn [negb] in Hrun.
      + apply IH; [lia|exact Hrun].
      + inv_bind Hrun. apply setA_done in E. destruct E as [Hlt ->].
        destruct (IH _ _ _ _ ltac:(lia) Hrun) as [H1 [H2 H3]].
        rewrite upd_length in H2. split; [cbn [length]; lia|]. split; [exact H2|].
        rewrite H3. replace (N.to_nat (n0 + 1)) with (S (N.to_nat n0)) by lia.
        rewrite firstn_upd_snoc by exact Hlt. rewrite <- app_assoc. reflexivity.
  Qed.
End Leaves.

(* ------------------------------------------------------------------ Kraft equality of a full binary tree *)
Definition tz (l : Z) : N := 2 ^ (15 - Z.to_N l).
Definition wsum (ws : list (Z * Z)) : N := fold_right (fun w acc => tz (snd w) + acc) 0 ws.

Lemma wsum_app a b : wsum (a ++ b) = wsum a + wsum b.
Proof. induction a as [|x a IH]; [reflexivity|]. cbn [app wsum fold_right]. fold (wsum (a ++ b)). fold (wsum a). rewrite IH. ring. Qed.

Lemma lleaves_ge t : forall lvl w, In w (lleaves t lvl) -> (lvl <= snd w)%Z.
Proof.
  induction t as [v|a IHa b IHb]; intros lvl w H; cbn [lleaves] in H.
  - destruct H as [<-|[]]. cbn. lia.
  - apply in_app_or in H. destruct H as [H|H]; [apply IHa in H|apply IHb in H]; lia.
Qed.

Lemma lleaves_nonempty t lvl : exists w, In w (lleaves t lvl).
Proof.
  revert lvl. induction t as [v|a IHa b IHb]; intros lvl; cbn [lleaves].
  - eexists. left. reflexivity.
  - destruct (IHa (lvl + 1)%Z) as [w Hw]. exists w. apply in_or_app. left. exact Hw.
Qed.

Lemma tree_kraft t : forall lvl, (0 <= lvl)%Z -> levels_ok 15 (lleaves t lvl) -> wsum (lleaves t lvl) = tz lvl.
Proof.
  induction t as [v|a IHa b IHb]; intros lvl Hl Hok; cbn [lleaves].
  - cbn. rewrite N.add_0_r. reflexivity.
  - cbn [lleaves] in Hok. apply Forall_app in Hok. destruct Hok as [Ha Hb].
    destruct (lleaves_nonempty a (lvl + 1)) as [w Hw].
    pose proof (lleaves_ge a _ w Hw) as Hge.
    pose proof Ha as Ha'. unfold levels_ok in Ha'. rewrite Forall_forall in Ha'. specialize (Ha' w Hw). cbn beta in Ha'.
    rewrite wsum_app, IHa, IHb by (try lia; assumption).
    unfold tz. replace (Z.to_N (lvl + 1)) with (Z.to_N lvl + 1) by lia.
    rewrite <- (pow_split (Z.to_N lvl)) by lia. lia.
Qed.

Lemma sum_perm {A} (g : A -> N) l1 l2 : Permutation l1 l2 ->
  fold_right (fun x acc => g x + acc) 0 l1 = fold_right (fun x acc => g x + acc) 0 l2.
Proof. induction 1; cbn [fold_right]; lia. Qed.

(* ------------------------------------------------------------------ the sorted leaves as initial queue *)
Lemma leaves_roots pool : forall l off,
  (forall k, (k < length l)%nat -> nth_error pool (off + k) = Some (nth k l node0)) ->
  Forall (fun nd => (index_left_ nd < 0)%Z) l ->
  rootsP pool (Finite.range_nat (N.of_nat off) (length l)) (map (fun nd => Leaf (index_right_or_value_ nd)) l).
Proof.
  induction l as [|nd l IH]; intros off Hn Hf; [constructor|].
  cbn [length map]. rewrite range_nat_S. inversion Hf as [|? ? Hnd Hf']; subst. constructor.
  - apply it_leaf; [lia| |exact Hnd]. replace (Z.to_nat (Z.of_N (N.of_nat off))) with off by lia. specialize (Hn 0%nat ltac:(cbn; lia)).
    rewrite Nat.add_0_r in Hn. exact Hn.
  - replace (N.of_nat off + 1) with (N.of_nat (S off)) by lia. apply IH; [|exact Hf'].
    intros k Hk. specialize (Hn (S k) ltac:(cbn; lia)). replace (S off + k)%nat with (off + S k)%nat by lia. exact Hn.
Qed.

Lemma leaves_sumc pool : forall l off,
  (forall k, (k < length l)%nat -> nth_error pool (off + k) = Some (nth k l node0)) ->
  sumc pool (Finite.range_nat (N.of_nat off) (length l)) = fold_right (fun nd acc => total_count_ nd + acc) 0 l.
Proof.
  induction l as [|nd l IH]; intros off Hn; [reflexivity|].
  cbn [length fold_right]. rewrite range_nat_S, sumc_cons.
  replace (N.of_nat off + 1) with (N.of_nat (S off)) by lia. rewrite IH.
  - f_equal. unfold cnt_at. rewrite Nat2N.id. specialize (Hn 0%nat ltac:(cbn; lia)). rewrite Nat.add_0_r in Hn.
    rewrite (nth_error_nth _ _ _ Hn). reflexivity.
  - intros k Hk. specialize (Hn (S k) ltac:(cbn; lia)). replace (S off + k)%nat with (off + S k)%nat by lia. exact Hn.
Qed.

(* ------------------------------------------------------------------ one attempt of the retry loop *)
Definition clamped_total (counts : list N) (cl : N) : N :=
  fold_right (fun c acc => if c =? 0 then acc else N.max c cl + acc) 0 counts.

Lemma clamped_app a b cl : clamped_total (a ++ b) cl = clamped_total a cl + clamped_total b cl.
Proof.
  induction a as [|x a IH]; [reflexivity|]. cbn [app clamped_total fold_right].
  fold (clamped_total (a ++ b) cl). fold (clamped_total a cl). rewrite IH. destruct (x =? 0); lia.
Qed.

Lemma clamped_supp counts cl : forall i, (i <= length counts)%nat ->
  fold_right (fun nd acc => total_count_ nd + acc) 0 (map (leaf_at counts cl) (supp counts i))
  = clamped_total (firstn i counts) cl.
Proof.
  induction i as [|i IH]; intros Hi; [reflexivity|].
  rewrite firstn_succ_snoc by lia. rewrite clamped_app. cbn [supp clamped_total fold_right].
  destruct (nth i counts 0 =? 0).
  - rewrite IH by lia. lia.
  - cbn [map fold_right leaf_at total_count_]. rewrite IH by lia. lia.
Qed.

Lemma skipn_ext {A} (l1 l2 : list A) n : length l1 = length l2 ->
  (forall q, (n <= q)%nat -> nth_error l1 q = nth_error l2 q) -> skipn n l1 = skipn n l2.
Proof.
  revert l2 n. induction l1 as [|a l1 IH]; intros [|b l2] n Hl Hq; cbn in Hl; try lia.
  - reflexivity.
  - destruct n as [|n].
    + cbn [skipn]. f_equal.
      * specialize (Hq 0%nat ltac:(lia)). cbn in Hq. congruence.
      * specialize (IH l2 0%nat ltac:(lia)). rewrite !skipn_O in IH. apply IH.
        intros q _. apply (Hq (S q)). lia.
    + cbn [skipn]. apply IH; [lia|]. intros q Hq'. apply (Hq (S q)). lia.
Qed.

Lemma nth_error_firstn_some {A} (l : list A) n k d : (k < n)%nat -> (n <= length l)%nat ->
  nth_error l k = Some (nth k (firstn n l) d).
Proof.
  revert n k. induction l as [|a l IH]; intros [|n] [|k] Hk Hn; cbn in *; try lia; [reflexivity|].
  apply IH; lia.
Qed.

Lemma flat_map_leaf (l : list node) :
  flat_map tvals (map (fun nd => Leaf (index_right_or_value_ nd)) l) = map index_right_or_value_ l.
Proof. induction l as [|x l IH]; [reflexivity|]. cbn. rewrite IH. reflexivity. Qed.

Section Attempt.
  Variable counts : list N.
  Let len := length counts.
  Hypothesis Hlen16 : 2 * N.of_nat len + 1 <= 32768.
  Variable limit : Z.
  Hypothesis Hlim : (0 <= limit <= 15)%Z.
  Let S0 := supp counts len.
  Hypothesis Hnz : (2 <= length S0)%nat.

  Lemma supp_lt s : In s S0 -> (s < len)%nat.
  Proof. intros H. apply supp_spec in H. tauto. Qed.

  Lemma length_S0_le : (length S0 <= len)%nat.
  Proof.
    unfold S0. generalize len. intros m. induction m as [|m IH]; [cbn; lia|]. cbn [supp].
    destruct (nth m counts 0 =? 0); cbn [length]; lia.
  Qed.

  Lemma attempt_spec pool depth cl pool' depth' ok :
    clamped_total counts cl < MAXC ->
    huffman_attempt counts (N.of_nat len) limit pool depth cl = Done (pool', depth', ok) ->
    length depth' = length depth /\
    (forall q, ~ In q S0 -> nth q depth' 0 = nth q depth 0) /\
    (ok = true -> exists T, Permutation (tvals T) (map Z.of_nat S0) /\
                            apply_writes (lleaves T 0) depth = Some depth' /\ levels_ok limit (lleaves T 0)).
  Proof.
    intros Hguard Hrun. unfold huffman_attempt in Hrun. pose proof length_S0_le as HS0le.
    inv_bind Hrun. destruct a as [pool1 n]. rewrite Nat2N.id in E.
    destruct (collect_spec counts cl len pool 0 pool1 n ltac:(unfold len; lia) E) as [Hn [Hl1 Hf1]].
    fold S0 in Hn, Hf1. cbn [N.to_nat firstn app] in Hf1. rewrite N.add_0_l in Hn.
    set (LV := map (leaf_at counts cl) S0) in *.
    assert (HnLV : N.to_nat n = length LV) by (unfold LV; rewrite map_length; lia).
    destruct (N.eqb_spec n 1); [lia|]. destruct (N.eqb_spec n 0); [lia|].
    inv_bind Hrun. rename a into pool2.
    destruct (sort_items_spec cmp_sort pool1 n pool2 E0) as [Hl2 [Hperm2 Hrest2]].
    inv_bind Hrun. rename a into pool3a. apply setA_done in E1. destruct E1 as [Hlt3a ->].
    inv_bind Hrun. rename a into pool3. apply setA_done in E1. destruct E1 as [Hlt3 ->].
    rewrite upd_length in Hlt3.
    inv_bind Hrun. rename a into pool4.
    inv_bind Hrun. destruct a as [ok' depth1]. inversion Hrun. subst pool' depth' ok. clear Hrun.
    set (pool3 := upd (upd pool2 (N.to_nat n) sentinel) (N.to_nat (n + 1)) sentinel) in *.
    (* the sorted prefix is a permutation of the leaves *)
    set (SL := firstn (N.to_nat n) pool2).
    assert (HpermSL : Permutation SL LV).
    { assert (Hsk : skipn (N.to_nat n) pool2 = skipn (N.to_nat n) pool1) by (apply skipn_ext; assumption).
      rewrite <- (firstn_skipn (N.to_nat n) pool2), <- (firstn_skipn (N.to_nat n) pool1) in Hperm2.
      rewrite Hsk, Hf1 in Hperm2. apply Permutation_app_inv_r in Hperm2. exact Hperm2. }
    assert (HlenSL : length SL = N.to_nat n) by (unfold SL; rewrite firstn_length; lia).
    assert (HSLnth : forall k, (k < length SL)%nat -> nth_error pool3 (0 + k) = Some (nth k SL node0)).
    { intros k Hk. unfold pool3. rewrite !nth_error_upd_other by lia. cbn [plus].
      unfold SL. apply nth_error_firstn_some; lia. }
    assert (HleafLV : Forall (fun nd => (index_left_ nd < 0)%Z) LV).
    { unfold LV. apply Forall_forall. intros nd Hnd. apply in_map_iff in Hnd. destruct Hnd as [s [<- _]]. cbn. lia. }
    assert (HleafSL : Forall (fun nd => (index_left_ nd < 0)%Z) SL).
    { apply Forall_forall. intros nd Hnd. rewrite Forall_forall in HleafLV. apply HleafLV.
      apply (Permutation_in _ HpermSL). exact Hnd. }
    set (L := map Z.of_nat S0).
    assert (HvalsLV : map index_right_or_value_ LV = L).
    { unfold LV, L. rewrite map_map. apply map_ext_in. intros s Hs. cbn [leaf_at index_right_or_value_].
      apply supp_lt in Hs. rewrite i16_small by lia. lia. }
    set (W := clamped_total counts cl).
    assert (HsumLV : fold_right (fun nd acc => total_count_ nd + acc) 0 LV = W).
    { unfold LV, S0, W. rewrite clamped_supp by (unfold len; lia). unfold len. rewrite firstn_all. reflexivity. }
    (* the initial state of the merge *)
    assert (HInv : Inv n L W pool3 0 (n + 1) (N.to_nat n) 0).
    { constructor; try lia.
      - unfold pool3. rewrite nth_error_upd_other by lia. apply nth_error_upd_same. exact Hlt3a.
      - replace (n + 1 + N.of_nat 0) with (n + 1) by lia. unfold pool3. apply nth_error_upd_same.
        rewrite upd_length. exact Hlt3.
      - exists (map (fun nd => Leaf (index_right_or_value_ nd)) SL), []. split; [|split].
        + rewrite <- HlenSL. apply (leaves_roots pool3 SL 0 HSLnth HleafSL).
        + constructor.
        + rewrite app_nil_r, flat_map_leaf, <- HvalsLV. apply Permutation_map. exact HpermSL.
      - change (sumc pool3 (Finite.range_nat (n + 1) 0)) with 0. rewrite N.add_0_r, <- HlenSL.
        pose proof (leaves_sumc pool3 SL 0 HSLnth) as Hs. change (N.of_nat 0) with 0 in Hs. rewrite Hs, <- HsumLV.
        apply (sum_perm total_count_). exact HpermSL. }
    destruct (merge_spec n ltac:(lia) ltac:(lia) L W Hguard (N.to_nat (n - 1)) pool3 0 (n + 1) (N.to_nat n) 0 pool4 HInv
                ltac:(lia) ltac:(lia) ltac:(right; lia) E1) as [T [HT HpermT]].
    replace (Z.of_N (2 * n - 1)) with (Z.of_N (2 * n - 1)) in HT by reflexivity.
    destruct (set_depth_spec pool4 limit T (Z.of_N (2 * n - 1)) depth ok' depth1 HT ltac:(lia) E2)
      as [w [Hw [[rest Hrest] Hok]]].
    split; [apply (apply_writes_length _ _ _ Hw)|]. split.
    - intros q Hq. apply (apply_writes_other w _ _ q Hw). intros [v l] Hin E'. cbn [fst] in E'. apply Hq.
      assert (Hv : In v (tvals T)).
      { rewrite <- (lleaves_vals T 0), <- Hrest, map_app. apply in_or_app. left.
        apply (in_map fst) in Hin. exact Hin. }
      apply (Permutation_in _ HpermT) in Hv. unfold L in Hv. apply in_map_iff in Hv.
      destruct Hv as [s [Es Hs]]. subst v. rewrite Nat2Z.id in E'. subst q. exact Hs.
    - intros Hok'. destruct (Hok Hok') as [-> Hlv]. exists T. split; [exact HpermT|]. split; [exact Hw|exact Hlv].
  Qed.
End Attempt.

(* ------------------------------------------------------------------ the retry loop and the result *)
Lemma clamped_mono counts cl cl' : cl <= cl' -> clamped_total counts cl <= clamped_total counts cl'.
Proof.
  intros H. induction counts as [|c counts IH]; [reflexivity|]. cbn [clamped_total fold_right].
  fold (clamped_total counts cl). fold (clamped_total counts cl'). destruct (c =? 0); lia.
Qed.

Definition cl_of (j : N) : N := 2 ^ j mod 2 ^ 32.

Lemma cl_of_step j : wmul32 (cl_of j) 2 = cl_of (j + 1).
Proof.
  unfold wmul32, w32, cl_of. rewrite N.mul_mod_idemp_l by (apply N.pow_nonzero; discriminate).
  rewrite N.add_1_r, N.pow_succ_r', (N.mul_comm 2). reflexivity.
Qed.

Lemma cl_small j : j < 32 -> cl_of j = 2 ^ j.
Proof. intros H. unfold cl_of. apply N.mod_small. apply N.pow_lt_mono_r; lia. Qed.

Lemma loop_retries counts lenN limit : forall fuel pool depth cl j d pool' r,
  create_loop fuel counts lenN limit pool depth cl j = Done (d, pool', r) -> j <= r.
Proof.
  induction fuel as [|f IH]; intros pool depth cl j d pool' r Hrun; [discriminate|].
  cbn [create_loop] in Hrun. inv_bind Hrun. destruct a as [[p1 d1] ok]. destruct ok.
  - inversion Hrun. lia.
  - apply IH in Hrun. lia.
Qed.

Section Create.
  Variable counts : list N.
  Let len := length counts.
  Hypothesis Hlen16 : 2 * N.of_nat len + 1 <= 32768.
  Variable limit : Z.
  Hypothesis Hlim : (0 <= limit <= 15)%Z.
  Let S0 := supp counts len.
  Hypothesis Hnz : (2 <= length S0)%nat.

  Definition clean (depth : list N) : Prop := length depth = len /\ forall q, ~ In q S0 -> nth q depth 0 = 0.

  Lemma create_loop_spec : forall fuel pool depth j d pool' r,
    clean depth ->
    create_loop fuel counts (N.of_nat len) limit pool depth (cl_of j) j = Done (d, pool', r) ->
    r < 32 -> clamped_total counts (2 ^ r) < MAXC ->
    exists T depthb, Permutation (tvals T) (map Z.of_nat S0) /\ apply_writes (lleaves T 0) depthb = Some d /\
                     levels_ok limit (lleaves T 0) /\ clean depthb.
  Proof.
    induction fuel as [|f IH]; intros pool depth j d pool' r Hclean Hrun Hr Hguard; [discriminate|].
    pose proof (loop_retries _ _ _ _ _ _ _ _ _ _ _ Hrun) as Hjr.
    cbn [create_loop] in Hrun. inv_bind Hrun. destruct a as [[pool1 depth1] ok].
    assert (Hg : clamped_total counts (cl_of j) < MAXC).
    { eapply N.le_lt_trans; [|exact Hguard]. apply clamped_mono. rewrite cl_small by lia.
      apply N.pow_le_mono_r; lia. }
    destruct (attempt_spec counts Hlen16 limit Hlim Hnz pool depth (cl_of j) pool1 depth1 ok Hg E) as [H1 [H2 H3]].
    destruct ok.
    - inversion Hrun. subst d pool' r. destruct (H3 eq_refl) as [T [HT1 [HT2 HT3]]].
      exists T, depth. auto.
    - rewrite cl_of_step in Hrun. apply (IH pool1 depth1 (j + 1) d pool' r); try assumption.
      destruct Hclean as [C1 C2]. split; [lia|]. intros q Hq. rewrite H2 by exact Hq. apply C2. exact Hq.
  Qed.

  Lemma tvals_length_leaf t : (2 <= length (tvals t))%nat -> exists a b, t = Node a b.
  Proof. destruct t as [v|a b]; [cbn; lia|]. eauto. Qed.

  Theorem tree_result T depthb d :
    Permutation (tvals T) (map Z.of_nat S0) -> apply_writes (lleaves T 0) depthb = Some d ->
    levels_ok limit (lleaves T 0) -> clean depthb ->
    length d = len /\
    (forall i, (i < len)%nat -> (nth i d 0 <> 0 <-> nth i counts 0 <> 0)) /\
    (forall i, nth i d 0 <= Z.to_N limit) /\
    kraft d = 32768.
  Proof.
    intros HP Hw Hlv [C1 C2].
    assert (Hlen : length d = len) by (rewrite (apply_writes_length _ _ _ Hw); exact C1).
    pose proof (supp_NoDup counts len) as HndS. fold S0 in HndS.
    assert (Hkeys : map (fun w => Z.to_nat (fst w)) (lleaves T 0) = map Z.to_nat (tvals T))
      by (rewrite <- (lleaves_vals T 0), map_map; reflexivity).
    assert (HpermN : Permutation (map Z.to_nat (tvals T)) S0).
    { eapply Permutation_trans; [apply Permutation_map; exact HP|]. rewrite map_map.
      rewrite (map_ext _ (fun x => x)) by (intros; apply Nat2Z.id). rewrite map_id. apply Permutation_refl. }
    assert (HndK : NoDup (map (fun w => Z.to_nat (fst w)) (lleaves T 0))).
    { rewrite Hkeys. apply (Permutation_NoDup (Permutation_sym HpermN)). exact HndS. }
    assert (HTnode : exists a b, T = Node a b).
    { apply tvals_length_leaf. rewrite (Permutation_length HP), map_length. exact Hnz. }
    (* every leaf: its depth entry *)
    assert (Hleaf : forall v l, In (v, l) (lleaves T 0) ->
              nth (Z.to_nat v) d 0 = Z.to_N l /\ (1 <= l <= limit)%Z /\ In (Z.to_nat v) S0).
    { intros v l Hin. split; [|split].
      - rewrite (apply_writes_at _ _ _ v l Hw HndK Hin). unfold u8_of_Z.
        unfold levels_ok in Hlv. rewrite Forall_forall in Hlv. specialize (Hlv _ Hin). cbn in Hlv.
        destruct HTnode as [a [b ->]]. cbn [lleaves] in Hin.
        assert (1 <= l)%Z by (apply in_app_or in Hin; destruct Hin as [Hin|Hin]; apply lleaves_ge in Hin; cbn in Hin; lia).
        rewrite Z.mod_small by lia. reflexivity.
      - unfold levels_ok in Hlv. rewrite Forall_forall in Hlv. specialize (Hlv _ Hin). cbn in Hlv.
        destruct HTnode as [a [b ->]]. cbn [lleaves] in Hin.
        apply in_app_or in Hin; destruct Hin as [Hin|Hin]; apply lleaves_ge in Hin; cbn in Hin; lia.
      - apply (Permutation_in _ HpermN). apply in_map. rewrite <- (lleaves_vals T 0).
        apply (in_map fst) in Hin. exact Hin. }
    assert (Hsupp : forall s, In s S0 -> exists l, In (Z.of_nat s, l) (lleaves T 0)).
    { intros s Hs. assert (Hv : In (Z.of_nat s) (tvals T)).
      { apply (Permutation_in _ (Permutation_sym HP)). apply in_map. exact Hs. }
      rewrite <- (lleaves_vals T 0) in Hv. apply in_map_iff in Hv. destruct Hv as [[v l] [Ev Hin]].
      cbn in Ev. subst v. exists l. exact Hin. }
    assert (Hout : forall q, ~ In q S0 -> nth q d 0 = 0).
    { intros q Hq. rewrite (apply_writes_other _ _ _ q Hw); [apply C2; exact Hq|].
      intros [v l] Hin E. cbn in E. destruct (Hleaf v l Hin) as [_ [_ Hs]]. rewrite E in Hs. contradiction. }
    split; [exact Hlen|]. split; [|split].
    - intros i Hi. destruct (in_dec Nat.eq_dec i S0) as [Hin|Hnin].
      + destruct (Hsupp i Hin) as [l Hl]. destruct (Hleaf _ _ Hl) as [Hd [Hl1 _]]. rewrite Nat2Z.id in Hd.
        apply supp_spec in Hin. split; [tauto|]. intros _. rewrite Hd. lia.
      + rewrite (Hout i Hnin). split; [congruence|]. intros Hc. exfalso. apply Hnin. apply supp_spec. auto.
    - intros i. destruct (in_dec Nat.eq_dec i S0) as [Hin|Hnin].
      + destruct (Hsupp i Hin) as [l Hl]. destruct (Hleaf _ _ Hl) as [Hd [Hl1 _]]. rewrite Nat2Z.id in Hd.
        rewrite Hd. lia.
      + rewrite (Hout i Hnin). lia.
    - (* Kraft equality *)
      set (kf := fun x : N => nth (N.to_nat x) d 0).
      set (SN := map N.of_nat S0).
      assert (HSNlt : forall s, In s SN -> (N.to_nat s < length (zeros (N.of_nat len)))%nat).
      { intros s Hs. rewrite zeros_length. apply in_map_iff in Hs. destruct Hs as [s0 [<- Hs0]].
        apply supp_spec in Hs0. lia. }
      assert (Hd : d = assign_lengths (zeros (N.of_nat len)) SN (map kf SN)).
      { apply list_ext; [rewrite assign_length, zeros_length; lia|].
        intros i Hi. rewrite <- (Nat2N.id i) at 2. rewrite assign_nth by exact HSNlt.
        destruct (existsb (N.eqb (N.of_nat i)) SN) eqn:Eb.
        - unfold kf. rewrite Nat2N.id. reflexivity.
        - rewrite Nat2N.id, nth_zeros. apply Hout. intros Hin.
          assert (existsb (N.eqb (N.of_nat i)) SN = true); [|congruence].
          apply existsb_exists. exists (N.of_nat i). split; [apply in_map; exact Hin|apply N.eqb_refl]. }
      rewrite Hd at 1. rewrite kraft_assign.
      + rewrite kraft_zeros, N.add_0_l.
        assert (E1 : fold_right (fun s acc => term (kf s) + acc) 0 SN
                     = fold_right (fun v acc => term (nth (Z.to_nat v) d 0) + acc) 0 (tvals T)).
        { rewrite (sum_perm (fun v => term (nth (Z.to_nat v) d 0)) _ _ HP).
          unfold SN. clear. induction S0 as [|s l IH]; [reflexivity|]. cbn [map fold_right].
          rewrite IH. unfold kf. rewrite Nat2N.id, Nat2Z.id. reflexivity. }
        rewrite E1, <- (lleaves_vals T 0).
        assert (E2 : forall ws, (forall v l, In (v, l) ws -> nth (Z.to_nat v) d 0 = Z.to_N l) ->
                     fold_right (fun v acc => term (nth (Z.to_nat v) d 0) + acc) 0 (map fst ws) = wsum ws).
        { induction ws as [|[v l] ws IHw]; intros Hall; [reflexivity|]. cbn [map fold_right fst wsum snd].
          fold (wsum ws). rewrite IHw by (intros v' l' Hin; apply Hall; right; exact Hin).
          rewrite (Hall v l) by (left; reflexivity). reflexivity. }
        rewrite E2 by (intros v l Hin; apply (Hleaf v l Hin)).
        rewrite tree_kraft; [reflexivity|lia|].
        unfold levels_ok in *. rewrite Forall_forall in *. intros w Hwin. specialize (Hlv w Hwin). lia.
      + unfold SN. apply FinFun.Injective_map_NoDup; [intros x y; apply Nat2N.inj|exact HndS].
      + exact HSNlt.
      + intros s _. apply nth_zeros.
      + intros s Hs. unfold kf. apply in_map_iff in Hs. destruct Hs as [s0 [<- Hs0]]. rewrite Nat2N.id.
        destruct (Hsupp s0 Hs0) as [l Hl]. destruct (Hleaf _ _ Hl) as [Hd' [Hl1 _]]. rewrite Nat2Z.id in Hd'.
        rewrite Hd'. lia.
  Qed.
End Create.

(* ------------------------------------------------------------------ C17_tree_partial *)
Definition nonzero_count (counts : list N) : nat := length (filter (fun c => negb (c =? 0)) counts).

Lemma supp_length counts : forall i, (i <= length counts)%nat ->
  length (supp counts i) = nonzero_count (firstn i counts).
Proof.
  induction i as [|i IH]; intros Hi; [reflexivity|].
  rewrite firstn_succ_snoc by lia. unfold nonzero_count. rewrite filter_app, app_length. cbn [supp filter].
  fold (nonzero_count (firstn i counts)). rewrite <- IH by lia.
  destruct (nth i counts 0 =? 0); cbn [negb length]; lia.
Qed.

Theorem tree_partial counts limit pool depth0 d pool' r :
  2 * N.of_nat (length counts) + 1 <= 32768 ->
  (0 <= limit <= 15)%Z ->
  (2 <= nonzero_count counts)%nat ->
  length depth0 = length counts ->
  (forall i, nth i counts 0 = 0 -> nth i depth0 0 = 0) ->
  create_huffman_tree counts (N.of_nat (length counts)) limit pool depth0 = Done (d, pool', r) ->
  r < 32 -> clamped_total counts (2 ^ r) < 2 ^ 32 - 1 ->
  length d = length counts /\
  (forall i, (i < length counts)%nat -> (nth i d 0 <> 0 <-> nth i counts 0 <> 0)) /\
  (forall i, nth i d 0 <= Z.to_N limit) /\
  kraft d = 32768.
Proof.
  intros H16 Hlim Hnz Hd0 Hz Hrun Hr Hguard.
  assert (Hnz' : (2 <= length (supp counts (length counts)))%nat).
  { rewrite supp_length by lia. rewrite firstn_all. exact Hnz. }
  assert (Hclean : clean counts depth0).
  { split; [exact Hd0|]. intros q Hq. destruct (Nat.lt_ge_cases q (length counts)) as [Hlt|Hge].
    - apply Hz. destruct (N.eq_dec (nth q counts 0) 0) as [|Hne]; [assumption|].
      exfalso. apply Hq. apply supp_spec. auto.
    - apply nth_overflow. lia. }
  unfold create_huffman_tree in Hrun. change 1 with (cl_of 0) in Hrun.
  destruct (create_loop_spec counts H16 limit Hlim Hnz' 64 pool depth0 0 d pool' r Hclean Hrun Hr Hguard)
    as [T [depthb [HP [Hw [Hlv Hcb]]]]].
  exact (tree_result counts H16 limit Hlim Hnz' T depthb d HP Hw Hlv Hcb).
Qed.

(* the single-symbol case: depth 1 for that symbol, nothing else touched, no retry *)
Theorem tree_one counts limit pool depth0 d pool' r s :
  2 * N.of_nat (length counts) + 1 <= 32768 ->
  supp counts (length counts) = [s] ->
  create_huffman_tree counts (N.of_nat (length counts)) limit pool depth0 = Done (d, pool', r) ->
  d = upd depth0 s 1 /\ (s < length depth0)%nat /\ r = 0.
Proof.
  intros H16 Hs Hrun. unfold create_huffman_tree in Hrun. cbn [create_loop] in Hrun.
  inv_bind Hrun. destruct a as [[pool1 depth1] ok]. unfold huffman_attempt in E.
  inv_bind E. destruct a as [pool2 n]. rewrite Nat2N.id in E0.
  destruct (collect_spec counts 1 (length counts) pool 0 pool2 n ltac:(lia) E0) as [Hn [Hl Hf]].
  rewrite Hs in Hn, Hf. cbn [length map firstn N.to_nat app] in Hn, Hf. replace n with 1 in * by lia.
  change (1 =? 1) with true in E. cbv iota in E.
  inv_bind E. rename a into t0. apply (getA_done pool2 0 t0 node0) in E1. destruct E1 as [_ Et0].
  change (N.to_nat 1) with 1%nat in Hf. change (N.to_nat 0) with 0%nat in Et0.
  assert (Ht0 : t0 = leaf_at counts 1 s).
  { rewrite Et0. destruct pool2 as [|x pool2]; [discriminate|]. cbn in Hf. inversion Hf. reflexivity. }
  inv_bind E. apply setZ_done in E1. destruct E1 as [_ [Hlt ->]]. inversion E. subst pool1 depth1 ok.
  inversion Hrun. subst d pool' r.
  assert (Hslt : (s < length counts)%nat).
  { assert (Hin : In s (supp counts (length counts))) by (rewrite Hs; left; reflexivity). apply supp_spec in Hin. tauto. }
  rewrite Ht0 in *. cbn [leaf_at index_right_or_value_] in *. rewrite i16_small in * by lia.
  replace (Z.to_nat (Z.of_N (N.of_nat s))) with s in * by lia. auto.
Qed.
