(* C17_tree, the finite sweep, part 2: n leaves of equal weight are merged by the two-queue merge
   (`amerge`) into a tree of height at most ceil(log2 n), for every n = 2 .. 16383, i.e. for all
   alphabets whose node indices fit i16.  `amerge` projects to `hmerge` (heights only), whose
   canonical runs are swept in Tree_sweep_core.v. *)
From Coq Require Import NArith ZArith List Lia Bool Arith.
From V Require Import lib.Finite model.Huffman proofs.Tree_proofs proofs.Tree_merge_total proofs.Tree_depth_total
  proofs.Tree_sweep_core.
Import ListNotations.
Open Scope N_scope.

Definition hf (a : qitem) : hitem := (fst a, N.of_nat (theight (snd a))).

Lemma hpick_nat A B : hpick (map hf A) (map hf B) =
  match apick A B with Some (a, A', B') => Some (hf a, map hf A', map hf B') | None => None end.
Proof.
  destruct A as [|x A]; destruct B as [|y B]; cbn [map apick hpick]; try reflexivity.
  cbn [hf fst]. destruct (fst x <=? fst y); reflexivity.
Qed.

Lemma hmerge_nat : forall k A B, hmerge k (map hf A) (map hf B) =
  match amerge k A B with Some t => Some (N.of_nat (theight t)) | None => None end.
Proof.
  induction k as [|k IH]; intros A B.
  - cbn [amerge hmerge]. destruct B as [|b B]; reflexivity.
  - cbn [amerge hmerge]. rewrite hpick_nat. destruct (apick A B) as [[[x A1] B1]|]; [|reflexivity].
    rewrite hpick_nat. destruct (apick A1 B1) as [[[y A2] B2]|]; [|reflexivity].
    rewrite <- IH. rewrite map_app. cbn [map]. f_equal. f_equal. f_equal.
    unfold hf, hnode. cbn [fst snd theight]. f_equal. lia.
Qed.

Definition canon_items (n : nat) : list qitem := repeat (1, Leaf 0%Z) n.

Lemma canon_cA n : map hf (canon_items n) = cA n.
Proof.
  unfold canon_items, cA. induction n as [|n IH]; [reflexivity|].
  cbn [repeat map]. rewrite IH. reflexivity.
Qed.

(* (3) n equal weights give a tree of height <= ceil(log2 n), n = 2 .. 16383 *)
Lemma canon_height n T : 2 <= n -> n <= 16383 ->
  amerge (N.to_nat (n - 1)) (canon_items (N.to_nat n)) [] = Some T -> N.of_nat (theight T) <= N.log2_up n.
Proof.
  intros H2 Hmax HT. destruct (canon_hmerge n H2 Hmax) as [h [Hh Hle]].
  rewrite <- canon_cA in Hh. change (@nil hitem) with (map hf []) in Hh.
  rewrite hmerge_nat, HT in Hh. inversion Hh. subst h. exact Hle.
Qed.
