(* C17_tree, the finite sweep, part 1 (independent of the model): the two-queue merge projected to
   (weight, height) pairs (`hmerge`), and a run-length version of it for n unit-weight leaves
   (`rmerge`: the node queue is a list of (item, multiplicity) runs and a whole run of equal items
   is paired off in one macro step), proved sound against `hmerge`; with it the height of the
   canonical equal-weight tree is computed for every n = 2 .. 16383 in about a second. *)
From Coq Require Import NArith List Lia Bool Arith.
From V Require Import lib.Finite.
Import ListNotations.
Open Scope N_scope.

(* ------------------------------------------------------------------ the merge on (weight, height) *)
Definition hitem := (N * N)%type.

Definition hpick (A B : list hitem) : option (hitem * list hitem * list hitem) :=
  match A, B with
  | a :: A', b :: B' => if fst a <=? fst b then Some (a, A', B) else Some (b, A, B')
  | a :: A', [] => Some (a, A', [])
  | [], b :: B' => Some (b, [], B')
  | [], [] => None
  end.

Definition hnode (x y : hitem) : hitem := (fst x + fst y, N.succ (N.max (snd x) (snd y))).

Fixpoint hmerge (k : nat) (A B : list hitem) : option N :=
  match k with
  | O => match B with b :: _ => Some (snd b) | [] => None end
  | S k' =>
    match hpick A B with
    | Some (x, A1, B1) =>
      match hpick A1 B1 with
      | Some (y, A2, B2) => hmerge k' A2 (B2 ++ [hnode x y])
      | None => None
      end
    | None => None
    end
  end.

(* ------------------------------------------------------------------ macro steps *)
Definition u : hitem := (1, 0).
Definition cA (na : nat) : list hitem := repeat u na.

Lemma repeat_snoc {X} (x : X) m : repeat x m ++ [x] = repeat x (S m).
Proof. induction m as [|m IH]; [reflexivity|]. cbn [repeat app]. rewrite IH. reflexivity. Qed.

Lemma repeat_cons_app {X} (x : X) m l : l ++ repeat x (S m) = (l ++ [x]) ++ repeat x m.
Proof. rewrite <- app_assoc. reflexivity. Qed.

Definition leaf_first (B : list hitem) : bool := match B with [] => true | b :: _ => 1 <=? fst b end.

(* while two leaves remain and the head of the node queue is not lighter than a leaf, both picks are leaves *)
Lemma leaf_phase : forall m k A' B, leaf_first B = true ->
  hmerge (m + k) (repeat u (2 * m) ++ A') B = hmerge k A' (B ++ repeat (hnode u u) m).
Proof.
  induction m as [|m IH]; intros k A' B HB.
  - cbn [repeat app Nat.mul Nat.add]. rewrite app_nil_r. reflexivity.
  - replace (2 * S m)%nat with (S (S (2 * m))) by lia. cbn [repeat app Nat.add hmerge].
    destruct B as [|b B'].
    + cbn [hpick app]. rewrite IH by reflexivity. reflexivity.
    + cbn [leaf_first] in HB. cbn [hpick u fst]. fold u. rewrite HB. cbn [hpick u fst]. fold u. rewrite HB.
      rewrite IH by exact HB. f_equal. cbn [repeat app]. rewrite <- app_assoc. reflexivity.
Qed.

(* with the leaf queue empty, a run of 2m equal items at the head is paired off in m steps *)
Lemma node_phase x : forall m k B',
  hmerge (m + k) [] (repeat x (2 * m) ++ B') = hmerge k [] (B' ++ repeat (hnode x x) m).
Proof.
  induction m as [|m IH]; intros k B'.
  - cbn [repeat app Nat.mul Nat.add]. rewrite app_nil_r. reflexivity.
  - replace (2 * S m)%nat with (S (S (2 * m))) by lia. cbn [repeat app Nat.add hmerge hpick].
    rewrite <- app_assoc. rewrite IH. f_equal. cbn [repeat app]. rewrite <- app_assoc. reflexivity.
Qed.

Lemma last_leaf_step k x B' : (1 <=? fst x) = true ->
  hmerge (S k) [u] (x :: B') = hmerge k [] (B' ++ [hnode u x]).
Proof. intros H. cbn [hmerge hpick u fst]. fold u. rewrite H. reflexivity. Qed.

Lemma node_step k x y B'' : hmerge (S k) [] (x :: y :: B'') = hmerge k [] (B'' ++ [hnode x y]).
Proof. reflexivity. Qed.

(* ------------------------------------------------------------------ the run-length merge *)
Definition run := (hitem * N)%type.
Definition expand (Bc : list run) : list hitem := flat_map (fun r => repeat (fst r) (N.to_nat (snd r))) Bc.

Lemma expand_cons x c Bc : expand ((x, c) :: Bc) = repeat x (N.to_nat c) ++ expand Bc.
Proof. reflexivity. Qed.

Lemma expand_snoc Bc x c : expand (Bc ++ [(x, c)]) = expand Bc ++ repeat x (N.to_nat c).
Proof. unfold expand. rewrite flat_map_app. cbn [flat_map fst snd]. rewrite app_nil_r. reflexivity. Qed.

Fixpoint rmerge (fuel : nat) (k na : N) (Bc : list run) : option N :=
  match fuel with
  | O => None
  | S f =>
    match Bc with
    | (x, c) :: Bc' =>
      if c =? 0 then rmerge f k na Bc'
      else if k =? 0 then Some (snd x)
      else if 2 <=? na then
        if 1 <=? fst x then let m := N.min (na / 2) k in rmerge f (k - m) (na - 2 * m) (Bc ++ [(hnode u u, m)])
        else None
      else if na =? 1 then
        if 1 <=? fst x then rmerge f (k - 1) 0 ((x, c - 1) :: Bc' ++ [(hnode u x, 1)]) else None
      else if 2 <=? c then
        let m := N.min (c / 2) k in rmerge f (k - m) 0 ((x, c - 2 * m) :: Bc' ++ [(hnode x x, m)])
      else
        match Bc' with
        | (y, d) :: Bc'' => if d =? 0 then None else rmerge f (k - 1) 0 ((y, d - 1) :: Bc'' ++ [(hnode x y, 1)])
        | [] => None
        end
    | [] =>
      if k =? 0 then None
      else if 2 <=? na then let m := N.min (na / 2) k in rmerge f (k - m) (na - 2 * m) [(hnode u u, m)]
      else None
    end
  end.

Lemma cA_split na m : (2 * m <= na)%nat -> cA na = repeat u (2 * m) ++ cA (na - 2 * m).
Proof. intros H. unfold cA. rewrite <- repeat_app. f_equal. lia. Qed.

Lemma repeat_split {X} (x : X) c m : (m <= c)%nat -> repeat x c = repeat x m ++ repeat x (c - m).
Proof. intros H. rewrite <- repeat_app. f_equal. lia. Qed.

Lemma rmerge_sound : forall fuel k na Bc h, rmerge fuel k na Bc = Some h ->
  hmerge (N.to_nat k) (cA (N.to_nat na)) (expand Bc) = Some h.
Proof.
  induction fuel as [|f IH]; intros k na Bc h Hrun; [discriminate|].
  cbn [rmerge] in Hrun. destruct Bc as [|[x c] Bc'].
  - (* node queue empty *)
    destruct (N.eqb_spec k 0) as [Ek|Ek]; [discriminate|].
    destruct (N.leb_spec 2 na) as [Hna|Hna]; [|discriminate]. cbv zeta in Hrun.
    set (m := N.min (na / 2) k) in *.
    assert (Hm : 2 * m <= na /\ m <= k).
    { assert (2 * (na / 2) <= na) by (apply N.mul_div_le; discriminate). unfold m. lia. }
    apply IH in Hrun. rewrite <- Hrun. clear Hrun.
    rewrite (cA_split (N.to_nat na) (N.to_nat m)) by lia.
    replace (N.to_nat k) with (N.to_nat m + N.to_nat (k - m))%nat by lia.
    rewrite leaf_phase by reflexivity. replace (N.to_nat (na - 2 * m)) with (N.to_nat na - 2 * N.to_nat m)%nat by lia.
    cbn [expand flat_map fst snd app]. rewrite app_nil_r. reflexivity.
  - destruct (N.eqb_spec c 0) as [Ec|Ec].
    { apply IH in Hrun. rewrite expand_cons, Ec. exact Hrun. }
    assert (Hhead : exists l, repeat x (N.to_nat c) = x :: l).
    { destruct (N.to_nat c) as [|c'] eqn:E; [lia|]. eexists. reflexivity. }
    destruct (N.eqb_spec k 0) as [Ek|Ek].
    { inversion Hrun. subst. rewrite expand_cons. destruct Hhead as [l ->]. reflexivity. }
    destruct (N.leb_spec 2 na) as [Hna|Hna].
    + (* two leaves *)
      destruct (1 <=? fst x) eqn:Hx; [|discriminate]. cbv zeta in Hrun.
      set (m := N.min (na / 2) k) in *.
      assert (Hm : 2 * m <= na /\ m <= k).
      { assert (2 * (na / 2) <= na) by (apply N.mul_div_le; discriminate). unfold m. lia. }
      apply IH in Hrun. rewrite <- Hrun. clear Hrun.
      rewrite (cA_split (N.to_nat na) (N.to_nat m)) by lia.
      replace (N.to_nat k) with (N.to_nat m + N.to_nat (k - m))%nat by lia.
      rewrite leaf_phase.
      * replace (N.to_nat (na - 2 * m)) with (N.to_nat na - 2 * N.to_nat m)%nat by lia.
        rewrite expand_snoc. reflexivity.
      * rewrite expand_cons. destruct Hhead as [l ->]. cbn [app leaf_first]. exact Hx.
    + destruct (N.eqb_spec na 1) as [Ena|Ena].
      * (* the last leaf *)
        destruct (1 <=? fst x) eqn:Hx; [|discriminate].
        apply IH in Hrun. rewrite <- Hrun. clear Hrun. subst na.
        replace (N.to_nat k) with (S (N.to_nat (k - 1))) by lia.
        rewrite !expand_cons. rewrite (repeat_split x (N.to_nat c) 1) by lia. cbn [repeat app].
        change (cA (N.to_nat 1)) with [u]. rewrite last_leaf_step by exact Hx.
        change (cA (N.to_nat 0)) with (@nil hitem).
        replace (N.to_nat (c - 1)) with (N.to_nat c - 1)%nat by lia.
        rewrite expand_snoc. change (N.to_nat 1) with 1%nat. cbn [repeat]. rewrite app_assoc. reflexivity.
      * assert (na = 0) by lia. subst na. change (cA (N.to_nat 0)) with (@nil hitem).
        destruct (N.leb_spec 2 c) as [Hc|Hc].
        -- (* a run of equal nodes *)
           cbv zeta in Hrun. set (m := N.min (c / 2) k) in *.
           assert (Hm : 2 * m <= c /\ m <= k).
           { assert (2 * (c / 2) <= c) by (apply N.mul_div_le; discriminate). unfold m. lia. }
           apply IH in Hrun. rewrite <- Hrun. clear Hrun. change (cA (N.to_nat 0)) with (@nil hitem).
           replace (N.to_nat k) with (N.to_nat m + N.to_nat (k - m))%nat by lia.
           rewrite !expand_cons. rewrite (repeat_split x (N.to_nat c) (2 * N.to_nat m)) by lia.
           rewrite <- app_assoc. rewrite node_phase.
           replace (N.to_nat (c - 2 * m)) with (N.to_nat c - 2 * N.to_nat m)%nat by lia.
           rewrite expand_snoc. rewrite app_assoc. reflexivity.
        -- (* two different nodes *)
           assert (c = 1) by lia. subst c.
           destruct Bc' as [|[y d] Bc'']; [discriminate|].
           destruct (N.eqb_spec d 0) as [Ed|Ed]; [discriminate|].
           apply IH in Hrun. rewrite <- Hrun. clear Hrun. change (cA (N.to_nat 0)) with (@nil hitem).
           replace (N.to_nat k) with (S (N.to_nat (k - 1))) by lia.
           rewrite !expand_cons. rewrite (repeat_split y (N.to_nat d) 1) by lia.
           change (N.to_nat 1) with 1%nat. cbn [repeat app]. rewrite node_step.
           replace (N.to_nat (d - 1)) with (N.to_nat d - 1)%nat by lia.
           rewrite expand_snoc. change (N.to_nat 1) with 1%nat. cbn [repeat]. rewrite app_assoc. reflexivity.
Qed.

(* ------------------------------------------------------------------ the sweep *)
(* height of the tree over n unit-weight leaves is at most ceil(log2 n).  The fuel stays a variable
   in every lemma so that the kernel never unfolds `rmerge` on a symbolic n. *)
Definition check_h (n : N) (o : option N) : bool :=
  match o with Some h => h <=? N.log2_up n | None => false end.
Definition canon_ok (fuel : nat) (n : N) : bool := check_h n (rmerge fuel (n - 1) n []).

Lemma check_h_spec n o : check_h n o = true -> exists h, o = Some h /\ h <= N.log2_up n.
Proof. destruct o as [h|]; cbn [check_h]; [|discriminate]. intros H. exists h. split; [reflexivity|apply N.leb_le; exact H]. Qed.

Lemma canon_ok_sound fuel n : canon_ok fuel n = true ->
  exists h, hmerge (N.to_nat (n - 1)) (cA (N.to_nat n)) [] = Some h /\ h <= N.log2_up n.
Proof.
  unfold canon_ok. intros H. apply check_h_spec in H. destruct H as [h [E Hh]].
  exists h. split; [exact (rmerge_sound fuel (n - 1) n [] h E)|exact Hh].
Qed.

Lemma canon_sweep : all_between (canon_ok 400) 2 16382 = true.
Proof. vm_compute. reflexivity. Qed.

Lemma canon_hmerge n : 2 <= n -> n <= 16383 ->
  exists h, hmerge (N.to_nat (n - 1)) (cA (N.to_nat n)) [] = Some h /\ h <= N.log2_up n.
Proof.
  intros H2 Hmax. apply (canon_ok_sound 400 n).
  exact (all_between_spec (canon_ok 400) 2 16382 canon_sweep n H2 ltac:(lia)).
Qed.
