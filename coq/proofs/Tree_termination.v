(* C17_tree: termination of the `count_limit *= 2` retry loop of BrotliCreateHuffmanTree.
   Every attempt returns (no panic, no fuel exhaustion); once count_limit reaches the largest
   count all leaves weigh the same, the sort is the identity, the merge builds the tree of the
   canonical unit-weight run (scaling + relabelling), whose height is at most ceil(log2 n) by a
   computed sweep over n = 2 .. 16383 (Tree_sweep.v); so the depth test passes and the loop exits. *)
From Coq Require Import NArith ZArith List Lia Bool Arith Permutation.
From V Require Import lib.Words lib.Finite gen.GenHuffman spec.PrefixCode model.Huffman
  proofs.Canonical_proofs proofs.Huffman_proofs proofs.Store_proofs proofs.Tree_proofs
  proofs.Tree_total proofs.Tree_merge_total proofs.Tree_depth_total proofs.Tree_sweep_core proofs.Tree_sweep.
Import ListNotations.
Open Scope N_scope.

Lemma theight_erase t : theight (erase t) = theight t.
Proof. induction t as [v|a IHa b IHb]; [reflexivity|]. cbn [erase theight]. rewrite IHa, IHb. reflexivity. Qed.

(* (2) shape lemma: leaves of one common weight w > 0, whatever their symbols, are merged into a
   tree whose shape is that of the canonical run *)
Lemma equal_weight_shape (w : N) (vals : list Z) k T : 0 < w ->
  amerge k (map (fun v => (w, Leaf v)) vals) [] = Some T ->
  amerge k (canon_items (length vals)) [] = Some (erase T).
Proof.
  intros Hw HT.
  set (A1 := map (fun v : Z => (1, Leaf v)) vals).
  assert (E1 : map (fun v : Z => (w, Leaf v)) vals = map (qf (N.mul w) (fun t => t)) A1).
  { unfold A1. rewrite map_map. apply map_ext. intros v. unfold qf. cbn [fst snd]. rewrite N.mul_1_r. reflexivity. }
  assert (E2 : canon_items (length vals) = map (qf (fun x => x) erase) A1).
  { unfold A1, canon_items. rewrite map_map. unfold qf. cbn [fst snd erase]. clear.
    induction vals as [|v vals IH]; [reflexivity|]. cbn [length repeat map]. rewrite IH. reflexivity. }
  rewrite E1 in HT. change (@nil qitem) with (map (qf (N.mul w) (fun t => t)) []) in HT.
  rewrite amerge_nat in HT.
  - rewrite E2. change (@nil qitem) with (map (qf (fun x => x) erase) []).
    rewrite amerge_nat; try reflexivity.
    destruct (amerge k A1 []) as [t|]; [|discriminate]. inversion HT. reflexivity.
  - intros a b. apply N.mul_add_distr_l.
  - intros a b. destruct (N.leb_spec a b) as [H|H].
    + apply N.leb_le. apply N.mul_le_mono_l. exact H.
    + apply N.leb_gt. apply N.mul_lt_mono_pos_l; assumption.
  - reflexivity.
Qed.

(* ------------------------------------------------------------------ the initial queues of the merge *)
Definition item_of (nd : node) : qitem := (total_count_ nd, Leaf (index_right_or_value_ nd)).

Lemma leaves_qrep pool : forall l off,
  (forall k, (k < length l)%nat -> nth_error pool (off + k) = Some (nth k l node0)) ->
  Forall (fun nd => (index_left_ nd < 0)%Z) l ->
  qrep pool (N.of_nat off) (map item_of l).
Proof.
  unfold qrep. induction l as [|nd l IH]; intros off Hn Hf; [constructor|].
  cbn [length map]. rewrite range_nat_S. inversion Hf as [|? ? Hnd Hf']; subst.
  pose proof (Hn 0%nat ltac:(cbn; lia)) as H0. rewrite Nat.add_0_r in H0. cbn [nth] in H0. constructor.
  - cbn [item_of fst snd]. split.
    + apply it_leaf; [lia| |exact Hnd]. replace (Z.to_nat (Z.of_N (N.of_nat off))) with off by lia. exact H0.
    + unfold cnt_at. rewrite Nat2N.id. rewrite (nth_error_nth _ _ _ H0). reflexivity.
  - replace (N.of_nat off + 1) with (N.of_nat (S off)) by lia. apply IH; [|exact Hf'].
    intros k Hk. specialize (Hn (S k) ltac:(cbn; lia)). replace (S off + k)%nat with (off + S k)%nat by lia. exact Hn.
Qed.

Lemma sumw_items l : sumw (map item_of l) = fold_right (fun nd acc => total_count_ nd + acc) 0 l.
Proof. induction l as [|nd l IH]; [reflexivity|]. cbn [map]. rewrite sumw_cons, IH. reflexivity. Qed.

Lemma flatq_items l : flatq (map item_of l) = map index_right_or_value_ l.
Proof. induction l as [|nd l IH]; [reflexivity|]. cbn [map flatq flat_map item_of snd tvals app]. fold (flatq (map item_of l)). rewrite IH. reflexivity. Qed.

Lemma nth_firstn_lt {A} (l : list A) n k d : (k < n)%nat -> (n <= length l)%nat -> nth k (firstn n l) d = nth k l d.
Proof.
  intros Hk Hn. pose proof (nth_error_firstn_some l n k d Hk Hn) as H.
  symmetry. apply (nth_error_nth _ _ _ H).
Qed.

(* ------------------------------------------------------------------ one attempt always returns *)
Section AttemptTotal.
  Variable counts : list N.
  Let len := length counts.
  Hypothesis Hlen16 : 2 * N.of_nat len + 1 <= 32768.
  Variable limit : Z.
  Hypothesis Hlim : (0 <= limit <= 15)%Z.
  Let S0 := supp counts len.
  Hypothesis Hnz : (2 <= length S0)%nat.

  Lemma attempt_total pool depth cl :
    clamped_total counts cl < MAXC ->
    (2 * len + 1 <= length pool)%nat -> length depth = len ->
    exists pool' depth' ok,
      huffman_attempt counts (N.of_nat len) limit pool depth cl = Done (pool', depth', ok) /\
      length pool' = length pool /\ length depth' = length depth /\
      exists SL T, Permutation SL (map (leaf_at counts cl) S0) /\
        ((forall a b, (a < b)%nat -> (b < length S0)%nat ->
            cmp_sort (leaf_at counts cl (nth b S0 0%nat)) (leaf_at counts cl (nth a S0 0%nat)) = false) ->
         SL = map (leaf_at counts cl) S0) /\
        amerge (length S0 - 1) (map item_of SL) [] = Some T /\
        ((Z.of_nat (theight T) <= limit)%Z -> ok = true).
  Proof.
    intros Hguard Hpool Hdepth. unfold huffman_attempt. pose proof (length_S0_le counts) as HS0le.
    fold len in HS0le. fold S0 in HS0le. rewrite Nat2N.id.
    destruct (collect_total counts cl len pool 0) as [pool1 [n E]]; [unfold len; lia|fold S0; cbn; lia|].
    rewrite E. cbn [bind].
    destruct (collect_spec counts cl len pool 0 pool1 n ltac:(unfold len; lia) E) as [Hn [Hl1 Hf1]].
    fold S0 in Hn, Hf1. cbn [N.to_nat firstn app] in Hf1. rewrite N.add_0_l in Hn.
    set (LV := map (leaf_at counts cl) S0) in *.
    assert (HnLV : N.to_nat n = length LV) by (unfold LV; rewrite map_length; lia).
    assert (HnS0 : N.to_nat n = length S0) by lia.
    destruct (N.eqb_spec n 1); [lia|]. destruct (N.eqb_spec n 0); [lia|].
    destruct (sort_items_total cmp_sort pool1 n ltac:(lia)) as [pool2 E0]. rewrite E0. cbn [bind].
    destruct (sort_items_spec cmp_sort pool1 n pool2 E0) as [Hl2 [Hperm2 Hrest2]].
    rewrite setA_ok by lia. cbn [bind]. rewrite setA_ok by (rewrite upd_length; lia). cbn [bind].
    set (pool3 := upd (upd pool2 (N.to_nat n) sentinel) (N.to_nat (n + 1)) sentinel).
    set (SL := firstn (N.to_nat n) pool2).
    assert (HpermSL : Permutation SL LV).
    { assert (Hsk : skipn (N.to_nat n) pool2 = skipn (N.to_nat n) pool1) by (apply skipn_ext; assumption).
      rewrite <- (firstn_skipn (N.to_nat n) pool2), <- (firstn_skipn (N.to_nat n) pool1) in Hperm2.
      rewrite Hsk, Hf1 in Hperm2. apply Permutation_app_inv_r in Hperm2. exact Hperm2. }
    assert (HlenSL : length SL = N.to_nat n) by (unfold SL; rewrite firstn_length; lia).
    assert (HSLnth : forall k, (k < length SL)%nat -> nth_error pool3 (0 + k) = Some (nth k SL node0)).
    { intros k Hk. unfold pool3. rewrite !nth_error_upd_other by lia. cbn [plus].
      unfold SL. apply nth_error_firstn_some; lia. }
    assert (HleafLV : Forall (fun nd => (index_left_ nd < 0)%Z) LV).
    { unfold LV. apply Forall_forall. intros nd Hnd. apply in_map_iff in Hnd. destruct Hnd as [s [<- _]]. cbn. lia. }
    assert (HleafSL : Forall (fun nd => (index_left_ nd < 0)%Z) SL).
    { apply Forall_forall. intros nd Hnd. rewrite Forall_forall in HleafLV. apply HleafLV.
      apply (Permutation_in _ HpermSL). exact Hnd. }
    assert (HvalsLV : map index_right_or_value_ LV = map Z.of_nat S0).
    { unfold LV. rewrite map_map. apply map_ext_in. intros s Hs. cbn [leaf_at index_right_or_value_].
      apply supp_spec in Hs. rewrite i16_small by lia. lia. }
    set (W := clamped_total counts cl).
    assert (HsumLV : fold_right (fun nd acc => total_count_ nd + acc) 0 LV = W).
    { unfold LV, S0, W. rewrite clamped_supp by (unfold len; lia). unfold len. rewrite firstn_all. reflexivity. }
    set (A := map item_of SL).
    assert (HlenA : length A = N.to_nat n) by (unfold A; rewrite map_length; exact HlenSL).
    destruct (merge_total n ltac:(lia) ltac:(lia) W Hguard (N.to_nat (n - 1)) pool3 0 (n + 1) A [])
      as [pool4 [T [E1 [E2 [E3 E4]]]]]; cbn [length]; try lia.
    - unfold pool3. rewrite !upd_length. lia.
    - unfold pool3. rewrite nth_error_upd_other by lia. apply nth_error_upd_same. lia.
    - replace (n + 1 + N.of_nat 0) with (n + 1) by lia. unfold pool3. apply nth_error_upd_same.
      rewrite upd_length. lia.
    - change 0 with (N.of_nat 0). apply (leaves_qrep pool3 SL 0 HSLnth HleafSL).
    - apply qrep_nil.
    - unfold A. rewrite sumw_items, sumw_nil, N.add_0_r.
      rewrite (sum_perm total_count_ _ _ HpermSL), HsumLV. lia.
    - rewrite E1. cbn [bind].
      assert (HpermT : Permutation (tvals T) (map Z.of_nat S0)).
      { eapply Permutation_trans; [apply (amerge_perm (N.to_nat (n - 1)) A [] T); [cbn [length]; lia|exact E2]|].
        rewrite app_nil_r. unfold A. rewrite flatq_items, <- HvalsLV. apply Permutation_map. exact HpermSL. }
      assert (Hl4 : length pool4 = length pool).
      { rewrite E4. unfold pool3. rewrite !upd_length. lia. }
      destruct (set_depth_total pool4 limit Hlim T (Z.of_N (2 * n - 1)) depth E3) as [b [depth' [D1 [D2 D3]]]].
      + pose proof (tsize_tvals T) as Hts. rewrite (Permutation_length HpermT), map_length in Hts. lia.
      + intros v Hv. apply (Permutation_in _ HpermT) in Hv. apply in_map_iff in Hv. destruct Hv as [s [<- Hs]].
        apply supp_spec in Hs. unfold inr. rewrite Nat2Z.id. fold len in Hs. lia.
      + rewrite D1. cbn [bind]. exists pool4, depth', b. split; [reflexivity|]. split; [exact Hl4|]. split; [exact D2|].
        exists SL, T. split; [exact HpermSL|]. split; [|split].
        * intros Hsorted. assert (Eid : sort_items cmp_sort pool1 n = Done pool1).
          { apply sort_items_id; [lia|]. intros xa xb Hab Hb.
            rewrite <- (nth_firstn_lt pool1 (N.to_nat n) xa node0) by lia.
            rewrite <- (nth_firstn_lt pool1 (N.to_nat n) xb node0) by lia.
            rewrite Hf1. unfold LV. rewrite (nth_indep _ node0 (leaf_at counts cl 0%nat)) by (rewrite map_length; lia).
            rewrite (nth_indep _ node0 (leaf_at counts cl 0%nat)) by (rewrite map_length; lia).
            rewrite !map_nth. apply Hsorted; lia. }
          rewrite Eid in E0. inversion E0. subst pool2. unfold SL. exact Hf1.
        * replace (length S0 - 1)%nat with (N.to_nat (n - 1)) by lia. exact E2.
        * intros Hh. apply D3. apply levels_height. lia.
  Qed.
End AttemptTotal.

(* ------------------------------------------------------------------ the retry loop *)
Lemma max_ge counts : forall c, In c counts -> c <= fold_right N.max 1 counts.
Proof.
  induction counts as [|x counts IH]; intros c H; [destruct H|]. cbn [fold_right].
  destruct H as [->|H]; [lia|]. apply IH in H. lia.
Qed.

Lemma clamped_le_mul counts cl M : (forall c, In c counts -> N.max c cl <= M) ->
  clamped_total counts cl <= N.of_nat (length counts) * M.
Proof.
  induction counts as [|x counts IH]; intros H; [cbn; lia|].
  cbn [clamped_total fold_right length]. fold (clamped_total counts cl).
  pose proof (H x ltac:(left; reflexivity)) as Hx.
  pose proof (IH ltac:(intros c Hc; apply H; right; exact Hc)) as Hr.
  remember (N.of_nat (length counts)) as L eqn:EL.
  replace (N.of_nat (S (length counts))) with (L + 1) by lia.
  destruct (x =? 0); lia.
Qed.

Section CreateTotal.
  Variable counts : list N.
  Let len := length counts.
  Hypothesis Hlen16 : 2 * N.of_nat len + 1 <= 32768.
  Variable limit : Z.
  Hypothesis Hlim : (0 <= limit <= 15)%Z.
  Let S0 := supp counts len.
  Hypothesis Hnz : (2 <= length S0)%nat.
  (* r0 doublings make count_limit at least every count *)
  Variable r0 : N.
  Hypothesis Hr0 : r0 < 32.
  Hypothesis Hmax : forall c, In c counts -> c <= 2 ^ r0.
  Hypothesis Hguard : clamped_total counts (2 ^ r0) < MAXC.
  (* the canonical equal-weight tree over as many leaves fits the limit *)
  Hypothesis Hcanon : forall T, amerge (length S0 - 1) (canon_items (length S0)) [] = Some T ->
    (Z.of_nat (theight T) <= limit)%Z.

  (* (1) equal weights: at count_limit = 2^r0 every leaf weighs 2^r0 *)
  Lemma leaf_equal s : In s S0 -> leaf_at counts (2 ^ r0) s = mk_node (2 ^ r0) (-1) (Z.of_nat s).
  Proof.
    intros Hs. apply supp_spec in Hs. destruct Hs as [Hs _]. unfold leaf_at.
    assert (Hc : nth s counts 0 <= 2 ^ r0) by (apply Hmax, nth_In; exact Hs).
    rewrite N.max_r by exact Hc. rewrite i16_small by (fold len in Hs; lia). f_equal. lia.
  Qed.

  Lemma equal_attempt_height SL T :
    ((forall a b, (a < b)%nat -> (b < length S0)%nat ->
        cmp_sort (leaf_at counts (2 ^ r0) (nth b S0 0%nat)) (leaf_at counts (2 ^ r0) (nth a S0 0%nat)) = false) ->
     SL = map (leaf_at counts (2 ^ r0)) S0) ->
    amerge (length S0 - 1) (map item_of SL) [] = Some T -> (Z.of_nat (theight T) <= limit)%Z.
  Proof.
    intros Hid Ham. rewrite Hid in Ham.
    - assert (E : map item_of (map (leaf_at counts (2 ^ r0)) S0) = map (fun v : Z => (2 ^ r0, Leaf v)) (map Z.of_nat S0)).
      { rewrite !map_map. apply map_ext_in. intros s Hs. rewrite (leaf_equal s Hs). reflexivity. }
      rewrite E in Ham. apply equal_weight_shape in Ham; [|apply N.neq_0_lt_0, N.pow_nonzero; discriminate].
      rewrite map_length in Ham. apply Hcanon in Ham. rewrite theight_erase in Ham. exact Ham.
    - intros a b Hab Hb.
      rewrite (leaf_equal (nth b S0 0%nat)) by (apply nth_In; lia).
      rewrite (leaf_equal (nth a S0 0%nat)) by (apply nth_In; lia).
      unfold cmp_sort. cbn [total_count_ index_right_or_value_]. rewrite N.eqb_refl. cbn [negb].
      pose proof (supp_desc counts len a b Hab Hb) as Hd. fold S0 in Hd. apply Z.ltb_ge. lia.
  Qed.

  (* (4) termination: at most r0 doublings *)
  Lemma create_loop_total : forall fuel pool depth j,
    j <= r0 -> (N.to_nat (r0 - j) < fuel)%nat -> (2 * len + 1 <= length pool)%nat -> length depth = len ->
    exists d pool' r,
      create_loop fuel counts (N.of_nat len) limit pool depth (cl_of j) j = Done (d, pool', r) /\ r <= r0.
  Proof.
    induction fuel as [|f IH]; intros pool depth j Hj Hf Hpool Hdepth; [lia|].
    cbn [create_loop].
    assert (Hg : clamped_total counts (cl_of j) < MAXC).
    { eapply N.le_lt_trans; [|exact Hguard]. apply clamped_mono. rewrite cl_small by lia.
      apply N.pow_le_mono_r; lia. }
    destruct (attempt_total counts Hlen16 limit Hlim Hnz pool depth (cl_of j) Hg Hpool Hdepth)
      as [pool1 [depth1 [ok [E [Hl1 [Hd1 [SL [T [HP [Hid [Ham Hok]]]]]]]]]]].
    unfold len. rewrite E. cbn [bind]. destruct ok.
    - exists depth1, pool1, j. split; [reflexivity|exact Hj].
    - destruct (N.eq_dec j r0) as [->|Hne].
      + exfalso. rewrite cl_small in Hid by exact Hr0.
        pose proof (Hok (equal_attempt_height SL T Hid Ham)). discriminate.
      + rewrite cl_of_step. apply IH; try lia.
  Qed.
End CreateTotal.

(* ------------------------------------------------------------------ C17_tree *)
Theorem tree_total counts limit pool depth0 :
  (0 <= limit <= 15)%Z ->
  (2 <= nonzero_count counts)%nat ->
  2 * N.of_nat (length counts) + 1 <= 32768 ->
  N.of_nat (length counts) <= 2 ^ Z.to_N limit ->
  2 * N.of_nat (length counts) + 1 <= N.of_nat (length pool) ->
  N.of_nat (length counts) * (2 * fold_right N.max 1 counts) < 2 ^ 32 - 1 ->
  length depth0 = length counts ->
  (forall i, nth i counts 0 = 0 -> nth i depth0 0 = 0) ->
  exists d pool' r,
    create_huffman_tree counts (N.of_nat (length counts)) limit pool depth0 = Done (d, pool', r) /\
    r <= N.log2_up (fold_right N.max 1 counts) /\
    length d = length counts /\
    (forall i, (i < length counts)%nat -> (nth i d 0 <> 0 <-> nth i counts 0 <> 0)) /\
    (forall i, nth i d 0 <= Z.to_N limit) /\
    kraft d = 32768.
Proof.
  intros Hlim Hnz H16 Hfit Hpool Hguard Hd0 Hz.
  set (M := fold_right N.max 1 counts) in *. set (r0 := N.log2_up M).
  assert (HM1 : 1 <= M).
  { unfold M. clear. induction counts as [|x l IH]; cbn [fold_right]; lia. }
  assert (Hup : M <= 2 ^ r0) by (apply (N.log2_log2_up_spec M); lia).
  assert (Hlow : 2 ^ r0 < 2 * M).
  { destruct (N.eq_dec M 1) as [E|E]; [unfold r0; rewrite E; cbn; lia|].
    destruct (N.log2_up_spec M ltac:(lia)) as [Hs _]. fold r0 in Hs.
    assert (0 < r0) by (apply N.log2_up_pos; lia).
    replace r0 with (N.succ (N.pred r0)) by lia. rewrite N.pow_succ_r'. lia. }
  assert (Hnz' : (2 <= length (supp counts (length counts)))%nat).
  { rewrite supp_length by lia. rewrite firstn_all. exact Hnz. }
  assert (Hlen1 : (2 <= length counts)%nat).
  { pose proof (length_S0_le counts). lia. }
  assert (Hct : clamped_total counts (2 ^ r0) < 2 ^ 32 - 1).
  { eapply N.le_lt_trans; [apply (clamped_le_mul counts (2 ^ r0) (2 ^ r0))|].
    - intros c Hc. pose proof (max_ge counts c Hc). fold M in H. lia.
    - remember (N.of_nat (length counts)) as L. remember (2 ^ r0) as P.
      assert (L * P <= L * (2 * M)) by (apply N.mul_le_mono_l; lia). lia. }
  assert (Hr0 : r0 < 32).
  { apply (N.pow_lt_mono_r_iff 2); [lia|]. remember (N.of_nat (length counts)) as L. remember (2 ^ r0) as P.
    assert (1 * (2 * M) <= L * (2 * M)) by (apply N.mul_le_mono_r; lia).
    change (2 ^ 32) with 4294967296 in *. lia. }
  assert (Hcanon : forall T, amerge (length (supp counts (length counts)) - 1)
                               (canon_items (length (supp counts (length counts)))) [] = Some T ->
                             (Z.of_nat (theight T) <= limit)%Z).
  { intros T HT. set (n := length (supp counts (length counts))) in *.
    pose proof (length_S0_le counts) as Hle. fold n in Hle.
    assert (Hh : N.of_nat (theight T) <= N.log2_up (N.of_nat n)).
    { apply canon_height; try lia. replace (N.to_nat (N.of_nat n - 1)) with (n - 1)%nat by lia.
      rewrite Nat2N.id. exact HT. }
    assert (N.log2_up (N.of_nat n) <= N.log2_up (N.of_nat (length counts))) by (apply N.log2_up_le_mono; lia).
    assert (N.log2_up (N.of_nat (length counts)) <= Z.to_N limit) by (apply N.log2_up_le_pow2; lia).
    lia. }
  unfold create_huffman_tree. change 1 with (cl_of 0).
  destruct (create_loop_total counts H16 limit Hlim Hnz' r0 Hr0) with (fuel := 64%nat) (pool := pool) (depth := depth0) (j := 0)
    as [d [pool' [r [Hrun Hr]]]]; try lia.
  - intros c Hc. pose proof (max_ge counts c Hc). fold M in H. lia.
  - exact Hct.
  - exact Hcanon.
  - exists d, pool', r. split; [exact Hrun|]. split; [exact Hr|].
    apply (tree_partial counts limit pool depth0 d pool' r); try assumption; try lia.
    eapply N.le_lt_trans; [|exact Hct]. apply clamped_mono. apply N.pow_le_mono_r; lia.
Qed.

(* the statement C17_tree_stmt of props/C17.v, with the one hypothesis it lacks (node indices fit
   i16, the guard C17_tree_partial already has) *)
Theorem tree_total_stmt counts limit pool depth0 :
  2 * N.of_nat (length counts) + 1 <= 32768 ->
  In limit [15; 14; 5]%Z ->
  (2 <= nonzero_count counts)%nat ->
  N.of_nat (length counts) <= 2 ^ Z.to_N limit ->
  2 * N.of_nat (length counts) + 1 <= N.of_nat (length pool) ->
  N.of_nat (length counts) * (2 * fold_right N.max 1 counts) < 2 ^ 32 - 1 ->
  length depth0 = length counts ->
  (forall i, nth i counts 0 = 0 -> nth i depth0 0 = 0) ->
  exists d pool' r,
    create_huffman_tree counts (N.of_nat (length counts)) limit pool depth0 = Done (d, pool', r) /\
    length d = length counts /\
    (forall i, (i < length counts)%nat -> (nth i d 0 <> 0 <-> nth i counts 0 <> 0)) /\
    (forall i, nth i d 0 <= Z.to_N limit) /\
    kraft d = 32768.
Proof.
  intros H16 Hin Hnz Hfit Hpool Hguard Hd0 Hz.
  assert (Hlim : (0 <= limit <= 15)%Z) by (cbn [In] in Hin; lia).
  destruct (tree_total counts limit pool depth0 Hlim Hnz H16 Hfit Hpool Hguard Hd0 Hz)
    as [d [pool' [r [Hrun [_ Hres]]]]].
  exists d, pool', r. split; [exact Hrun|exact Hres].
Qed.
