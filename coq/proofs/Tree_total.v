(* C17_tree, totality part 1: collect_leaves and SortHuffmanTreeItems never panic and never run
   out of fuel (inside the array), and the sort leaves an already sorted array unchanged. *)
From Coq Require Import NArith ZArith List Lia Bool Arith Permutation.
From V Require Import lib.Words lib.Finite gen.GenHuffman spec.PrefixCode model.Huffman
  proofs.Canonical_proofs proofs.Huffman_proofs proofs.Store_proofs proofs.Tree_proofs.
Import ListNotations.
Open Scope N_scope.

(* pin the regenerated constants the proofs below compute with *)
Lemma pin_sort_constants :
  shell_gaps = [132; 57; 23; 10; 4; 1] /\ sort_small_threshold = 13 /\ sort_gap_threshold = 57 /\
  sort_gap_start_small = 2 /\ sort_gap_start_large = 0.
Proof. repeat split; reflexivity. Qed.

(* ------------------------------------------------------------------ collect_leaves *)
Lemma collect_total data cl : forall i pool n0,
  (i <= length data)%nat -> (N.to_nat n0 + length (supp data i) <= length pool)%nat ->
  exists pool' n', collect_leaves i data cl pool n0 = Done (pool', n').
Proof.
  induction i as [|i IH]; intros pool n0 Hi Hroom; [cbn; eauto|].
  cbn [collect_leaves]. rewrite (getA_ok data (N.of_nat i) 0) by lia. cbn [bind]. rewrite Nat2N.id.
  cbn [supp] in Hroom. destruct (nth i data 0 =? 0); cbn [negb].
  - apply IH; lia.
  - cbn [length] in Hroom. rewrite setA_ok by lia. cbn [bind]. apply IH; [lia|]. rewrite upd_length. lia.
Qed.

(* the used positions are visited in strictly descending order *)
Lemma supp_desc data : forall i a b, (a < b)%nat -> (b < length (supp data i))%nat ->
  (nth b (supp data i) 0 < nth a (supp data i) 0)%nat.
Proof.
  induction i as [|i IH]; intros a b Hab Hb; [cbn in Hb; lia|].
  cbn [supp] in *. destruct (nth i data 0 =? 0); [apply IH; assumption|].
  cbn [length] in Hb. destruct a as [|a]; destruct b as [|b]; try lia.
  - cbn [nth]. assert (Hin : In (nth b (supp data i) 0%nat) (supp data i)) by (apply nth_In; lia).
    apply supp_spec in Hin. lia.
  - cbn [nth]. apply IH; lia.
Qed.

(* ------------------------------------------------------------------ the sort never fails *)
Section SortTotal.
  Variable cmp : node -> node -> bool.

  Lemma small_inner_total tmp : forall fuel items k j,
    (N.to_nat j < fuel)%nat -> (N.to_nat j < length items)%nat -> (N.to_nat k < length items)%nat ->
    exists r, small_inner fuel cmp items tmp k j = Done r.
  Proof.
    induction fuel as [|f IH]; intros items k j Hf Hj Hk; [lia|].
    cbn [small_inner]. rewrite (getA_ok items j node0) by exact Hj. cbn [bind].
    destruct (cmp tmp (nth (N.to_nat j) items node0)); [|eauto].
    rewrite setA_ok by exact Hk. cbn [bind]. destruct (N.eqb_spec j 0); [eauto|].
    apply IH; rewrite ?upd_length; lia.
  Qed.

  Lemma shell_inner_total tmp gap : 1 <= gap -> forall fuel items j,
    (N.to_nat j < fuel)%nat -> (N.to_nat j < length items)%nat ->
    exists r, shell_inner fuel cmp items tmp gap j = Done r.
  Proof.
    intros Hgap. induction fuel as [|f IH]; intros items j Hf Hj; [lia|].
    cbn [shell_inner]. destruct (N.leb_spec gap j) as [Hg|Hg]; [|eauto].
    rewrite (getA_ok items (j - gap) node0) by lia. cbn [bind].
    destruct (cmp tmp (nth (N.to_nat (j - gap)) items node0)); [|eauto].
    rewrite setA_ok by exact Hj. cbn [bind]. apply IH; rewrite ?upd_length; lia.
  Qed.

  Lemma small_sort_total items n : (N.to_nat n <= length items)%nat ->
    exists items', small_sort cmp items n = Done items'.
  Proof.
    intros Hn. unfold small_sort, for_in.
    destruct (for_range_inv (fun _ it => length it = length items)
                (fun i items => tmp <- getA items i ;;
                   '(items, k) <- small_inner (S (N.to_nat i)) cmp items tmp i (i - 1) ;; setA items k tmp)
                (N.to_nat (n - 1)) 1 items eq_refl) as [s' [E _]]; [|eauto].
    intros i it Hi1 Hi2 Hlen. rewrite (getA_ok it i node0) by lia. cbn [bind].
    destruct (small_inner_total (nth (N.to_nat i) it node0) (S (N.to_nat i)) it i (i - 1)) as [[items1 k] E]; try lia.
    rewrite E. cbn [bind].
    destruct (small_inner_spec cmp _ _ it i (i - 1) items1 k ltac:(lia) ltac:(lia) E) as [H1 [H2 _]].
    rewrite setA_ok by exact H2. eexists. split; [reflexivity|]. rewrite upd_length. lia.
  Qed.

  Lemma shell_pass_total items n gap : 1 <= gap -> (N.to_nat n <= length items)%nat ->
    exists items', shell_pass cmp items n gap = Done items' /\ length items' = length items.
  Proof.
    intros Hgap Hn. unfold shell_pass, for_in.
    destruct (for_range_inv (fun _ it => length it = length items)
                (fun i items => tmp <- getA items i ;;
                   '(items, j) <- shell_inner (S (N.to_nat i)) cmp items tmp gap i ;; setA items j tmp)
                (N.to_nat (n - gap)) gap items eq_refl) as [s' [E HP]]; [|eauto].
    intros i it Hi1 Hi2 Hlen. rewrite (getA_ok it i node0) by lia. cbn [bind].
    destruct (shell_inner_total (nth (N.to_nat i) it node0) gap Hgap (S (N.to_nat i)) it i) as [[items1 j] E]; try lia.
    rewrite E. cbn [bind].
    destruct (shell_inner_spec cmp _ gap _ it i items1 j ltac:(lia) E) as [H1 [H2 _]].
    rewrite setA_ok by exact H2. eexists. split; [reflexivity|]. rewrite upd_length. lia.
  Qed.

  Lemma gap_at g : g < 6 -> exists gap, getA shell_gaps g = Done gap /\ 1 <= gap.
  Proof.
    intros Hg. assert (H : g = 0 \/ g = 1 \/ g = 2 \/ g = 3 \/ g = 4 \/ g = 5) by lia.
    destruct H as [->|[->|[->|[->|[->| ->]]]]]; vm_compute; eexists; (split; [reflexivity|discriminate]).
  Qed.

  Lemma shell_gaps_total n : forall fuel items g,
    (6 - N.to_nat g < fuel)%nat -> (N.to_nat n <= length items)%nat ->
    exists items', shell_gaps_loop fuel cmp items n g = Done items'.
  Proof.
    induction fuel as [|f IH]; intros items g Hf Hn; [lia|].
    cbn [shell_gaps_loop]. destruct (N.ltb_spec g 6) as [Hg|Hg]; [|eauto].
    destruct (gap_at g Hg) as [gap [Eg Hgap]]. rewrite Eg. cbn [bind].
    destruct (shell_pass_total items n gap Hgap Hn) as [items1 [E1 Hl1]]. rewrite E1. cbn [bind].
    apply IH; lia.
  Qed.

  Lemma sort_items_total items n : (N.to_nat n <= length items)%nat ->
    exists items', sort_items cmp items n = Done items'.
  Proof.
    intros Hn. unfold sort_items. destruct (n <? sort_small_threshold).
    - apply small_sort_total. exact Hn.
    - apply shell_gaps_total; [|exact Hn].
      destruct (n <? sort_gap_threshold); vm_compute; lia.
  Qed.

  (* ---------------------------------------------------------------- sorted input is left alone *)
  Variable items : list node.
  Variable n : N.
  Hypothesis Hn : (N.to_nat n <= length items)%nat.
  Hypothesis Hsorted : forall a b, (a < b)%nat -> (b < N.to_nat n)%nat ->
    cmp (nth b items node0) (nth a items node0) = false.

  Lemma small_sort_id : small_sort cmp items n = Done items.
  Proof.
    unfold small_sort, for_in.
    destruct (for_range_inv (fun _ it => it = items)
                (fun i items => tmp <- getA items i ;;
                   '(items, k) <- small_inner (S (N.to_nat i)) cmp items tmp i (i - 1) ;; setA items k tmp)
                (N.to_nat (n - 1)) 1 items eq_refl) as [s' [E HP]]; [|rewrite E, HP; reflexivity].
    intros i it Hi1 Hi2 ->. rewrite (getA_ok items i node0) by lia. cbn [bind small_inner].
    rewrite (getA_ok items (i - 1) node0) by lia. cbn [bind].
    rewrite Hsorted by lia. cbn [bind]. rewrite setA_ok by lia. rewrite upd_nth_id by lia. eauto.
  Qed.

  Lemma shell_pass_id gap : 1 <= gap -> shell_pass cmp items n gap = Done items.
  Proof.
    intros Hgap. unfold shell_pass, for_in.
    destruct (for_range_inv (fun _ it => it = items)
                (fun i items => tmp <- getA items i ;;
                   '(items, j) <- shell_inner (S (N.to_nat i)) cmp items tmp gap i ;; setA items j tmp)
                (N.to_nat (n - gap)) gap items eq_refl) as [s' [E HP]]; [|rewrite E, HP; reflexivity].
    intros i it Hi1 Hi2 ->. rewrite (getA_ok items i node0) by lia. cbn [bind shell_inner].
    destruct (N.leb_spec gap i); [|lia].
    rewrite (getA_ok items (i - gap) node0) by lia. cbn [bind].
    rewrite Hsorted by lia. cbn [bind]. rewrite setA_ok by lia. rewrite upd_nth_id by lia. eauto.
  Qed.

  Lemma shell_gaps_id : forall fuel g, (6 - N.to_nat g < fuel)%nat ->
    shell_gaps_loop fuel cmp items n g = Done items.
  Proof.
    induction fuel as [|f IH]; intros g Hf; [lia|].
    cbn [shell_gaps_loop]. destruct (N.ltb_spec g 6) as [Hg|Hg]; [|reflexivity].
    destruct (gap_at g Hg) as [gap [Eg Hgap]]. rewrite Eg. cbn [bind].
    rewrite (shell_pass_id gap Hgap). cbn [bind]. apply IH. lia.
  Qed.

  Lemma sort_items_id : sort_items cmp items n = Done items.
  Proof.
    unfold sort_items. destruct (n <? sort_small_threshold); [apply small_sort_id|].
    apply shell_gaps_id. destruct (n <? sort_gap_threshold); vm_compute; lia.
  Qed.
End SortTotal.
