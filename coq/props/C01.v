(* C01 - streaming compression round-trips for every input, setting and call history.
   Property theorems only; every proof is `exact <lemma>`.

   What is proved here (about the models under coq/model, whose literals are regenerated from
   /repo/src into gen/GenFormat.v and which are run against the implementation by ./check C01):
     C01_wrap_mod / C01_wrap_range / C01_wrap_step   WrapPosition, for all positions below 2^64
     C01_config            every parameter setting reachable through set_parameter yields a consistent
                           configuration (window, block, ring buffer, distance alphabet vs. every array it indexes)
     C01_config_asfound_refuted   with the 140-entry histogram the tree had before fix 7003666 this was false
     C01_ringbuffer        after any sequence of block-sized writes the ring buffer holds the last
                           min(total, size) input bytes at their masked positions (+ position, tail mirror, wrap bytes)
     C01_ringbuffer_asfound_refuted   the position fold the tree had before fix dd9b0c6 loses bit 30 under a 31-bit mask
     C01_header_*          the meta-block header writers are read back by the decoder spec D, for all lengths
     C01_stream_roundtrip_stored   the part of the composition that lies entirely in modelled code: a stream
                           header + uncompressed meta-blocks + the empty last meta-block, written by the
                           modelled writers, is decoded by D to exactly the stored bytes (all lengths, all windows)
     C01_stored_keeps_ring / C01_decoder_ring_untouched   a meta-block that is re-emitted uncompressed (either
                           fallback) leaves the encoder's last-distance caches as before the block, as it leaves the
                           decoder's ring; C01_catable_ring_poisoned: catable streams start with both caches poisoned
   and what is stated but not proved:
     C01_stream_roundtrip_modulo_heuristics_stmt   the composition over the stream glue model with the
                           visible hypothesis that the compression back ends emit meta-blocks that D decodes
                           to their input slices (translation-validated on every run by ./check C01). *)
From Coq Require Import NArith ZArith List Bool.
From V Require Import lib.Words lib.PMap gen.GenFormat spec.RfcTables spec.PrefixCode spec.Decoder
  model.EncConfig model.RingBuf model.MetaBlockHeader model.DistCache model.Stream
  proofs.Format_proofs proofs.RingBuf_proofs proofs.MbHeader_proofs proofs.Stream_proofs proofs.Stored_proofs proofs.DistCache_proofs.
Import ListNotations.
Open Scope N_scope.

(* ---------------------------------------------------------------- (a) WrapPosition *)
(* the low k bits of the position survive, k <= 30: everything that is indexed with a mask of up
   to 30 bits (hash tables, ring buffers up to lgwin 29) sees the true position *)
Theorem C01_wrap_mod : forall p k, p < 2 ^ 64 -> k <= 30 -> wrap_position p mod 2 ^ k = p mod 2 ^ k.
Proof. exact wrap_mod. Qed.
Print Assumptions C01_wrap_mod.

(* ... and so do the low 31 bits (the ring-buffer mask of lgwin 30) *)
Theorem C01_wrap_mod31 : forall p, p < 2 ^ 64 -> wrap_position p mod 2 ^ 31 = p mod 2 ^ 31.
Proof. exact wrap_mod31. Qed.
Print Assumptions C01_wrap_mod31.

Theorem C01_wrap_range : forall p, p < 2 ^ 64 ->
  wrap_position p < 3 * 2 ^ 30 /\ (2 ^ 30 <= p -> 2 ^ 30 <= wrap_position p) /\ (p < 3 * 2 ^ 30 -> wrap_position p = p).
Proof. exact wrap_range. Qed.
Print Assumptions C01_wrap_range.

(* monotone: successor to successor, except at the odd multiples (>= 3) of 2^30, where the
   wrapped position falls from 3*2^30 - 1 back to 2^30 *)
Theorem C01_wrap_step : forall p, p + 1 < 2 ^ 64 ->
  wrap_position (p + 1) = wrap_position p + 1 \/
  (exists j, 1 <= j /\ p + 1 = (2 * j + 1) * 2 ^ 30 /\ wrap_position (p + 1) = 2 ^ 30 /\ wrap_position p = 3 * 2 ^ 30 - 1).
Proof. exact wrap_step. Qed.
Print Assumptions C01_wrap_step.

(* ---------------------------------------------------------------- (b) configuration *)
Theorem C01_config : forall p, reachable p ->
  config_ok HQ_HIST_DIST_LEN (e_large p) (configure p) /\
  ((2 <= c_quality (configure p))%Z -> known_hasher (c_hasher (configure p)) = true).
Proof. exact configure_consistent. Qed.
Print Assumptions C01_config.

(* the finding (quality 11 + FONT + large window; fixed by 7003666): with the histogram length the
   cost model had, the statement is false for a reachable setting *)
Theorem C01_config_asfound_refuted :
  exists p, reachable p /\ ~ config_ok HQ_SIMPLE_DISTANCE_ALPHABET_SIZE (e_large p) (configure p).
Proof. exact configure_asfound_refuted. Qed.
Print Assumptions C01_config_asfound_refuted.

(* non-vacuity: the setting of the finding is reachable and consistent now *)
Example C01_config_example :
  let p := set_params [(1, 11); (0, 2); (6, 1); (2, 26)] in
  reachable p /\ c_alphabet (configure p) = 276 /\ c_np (configure p) = 1 /\ c_nd (configure p) = 12 /\
  hq_ok (c_alphabet (configure p)) = true /\ c_rbsize (configure p) = 2 ^ 27.
Proof. vm_compute. repeat split; congruence. Qed.

(* ---------------------------------------------------------------- (c) ring buffer *)
(* k = ComputeRbBits, lb = lgblock; C01_config gives 1 <= lb, lb + 1 <= k <= 31 for every reachable
   setting.  Each write is at most one block (remaining_input_block_size in the stream glue). *)
Theorem C01_ringbuffer : forall k lb, 1 <= lb -> lb + 1 <= k -> k <= 31 -> forall ws,
  Forall (fun w => RingBuf.lenN w <= 2 ^ lb) ws ->
  exists r, rb_writes ws (rb_setup k lb) = RbDone r /\
    let inp := concat ws in let T := RingBuf.lenN inp in
    N.land (r_pos r) (r_mask r) = N.land T (r_mask r) /\ r_mask r = 2 ^ k - 1 /\
    (forall p, T - N.min T (2 ^ k) <= p -> p < T -> rb_at r p = nthN inp p) /\
    (r_cur r = r_total r ->
       (forall p, 2 ^ k <= p -> T - N.min T (2 ^ k) <= p -> p < T -> p mod 2 ^ k < 2 ^ lb ->
                  ngetd (r_data r) (2 + 2 ^ k + p mod 2 ^ k) = nthN inp p)
       /\ ngetd (r_data r) 0 = ngetd (r_data r) (2 ^ k) /\ ngetd (r_data r) 1 = ngetd (r_data r) (2 ^ k + 1)).
Proof. exact ringbuffer_correct. Qed.
Print Assumptions C01_ringbuffer.

(* the finding (lgwin 30 beyond 2^31 input bytes; fixed by dd9b0c6) *)
Theorem C01_ringbuffer_asfound_refuted :
  exists pos n, pos < 2 ^ 32 /\ n <= 2 ^ 30 /\
    N.land pos (2 ^ 31 - 1) = N.land (2 ^ 31 - 16384) (2 ^ 31 - 1) /\
    N.land (fold_pos_asfound pos n) (2 ^ 31 - 1) <> N.land (2 ^ 31 - 16384 + n) (2 ^ 31 - 1) /\
    N.land (fold_pos pos n) (2 ^ 31 - 1) = N.land (2 ^ 31 - 16384 + n) (2 ^ 31 - 1).
Proof. exact fold_asfound_refuted. Qed.
Print Assumptions C01_ringbuffer_asfound_refuted.

Example C01_ringbuffer_example :
  match rb_writes [[1; 2; 3]; repeat 7 16; repeat 9 5] (rb_setup 5 4) with
  | RbDone r => rb_at r 23 = 9 /\ rb_at r 3 = 7 /\ N.land (r_pos r) (r_mask r) = 24
  | RbPanic _ => False
  end.
Proof. vm_compute. repeat split; reflexivity. Qed.

(* ---------------------------------------------------------------- (d) header writers vs D *)
Theorem C01_header_compressed : forall is_final len out rest, 1 <= len -> len <= 2 ^ 24 ->
  exists h, store_compressed_meta_block_header is_final len out = Some (out ++ h) /\
            read_mb_header (h ++ rest) = Ok ((is_final, MbData len false), rest).
Proof. exact compressed_header_roundtrip. Qed.
Print Assumptions C01_header_compressed.

Theorem C01_header_uncompressed : forall len out rest, 1 <= len -> len <= 2 ^ 24 ->
  exists h, store_uncompressed_meta_block_header len out = Some (out ++ h) /\
            read_mb_header (h ++ rest) = Ok ((false, MbData len true), rest).
Proof. exact uncompressed_header_roundtrip. Qed.
Print Assumptions C01_header_uncompressed.

Theorem C01_header_empty_last : forall out rest,
  exists pad, write_empty_last_meta_block out = Some (out ++ [true; true] ++ repeat false pad) /\
              Nat.modulo (length out + 2 + pad) 8 = 0%nat /\ (pad < 8)%nat /\
              read_mb_header ([true; true] ++ rest) = Ok ((true, MbEmptyLast), rest).
Proof. exact empty_last_roundtrip. Qed.
Print Assumptions C01_header_empty_last.

Theorem C01_var_len_uint8 : forall n out rest, n < 256 ->
  exists h, store_var_len_uint8 n out = Some (out ++ h) /\ read_1_256 (h ++ rest) = Ok (n + 1, rest).
Proof. exact var_len_uint8_roundtrip. Qed.
Print Assumptions C01_var_len_uint8.

(* the literal-context function of the decoder spec (RFC 7932 section 7.1, Lut0/Lut1/Lut2 transcribed
   from the RFC) is the function the encoder's tables (constants.rs) compute, for all 4 x 256 x 256 arguments *)
Theorem C01_context_tables : rfc_lut0 ++ rfc_lut1 = kUTF8ContextLookup /\ rfc_lut2 = kSigned3BitContextLookup.
Proof. exact context_tables_match. Qed.
Print Assumptions C01_context_tables.

Theorem C01_context_id : forall mode p1 p2, mode < 4 -> p1 < 256 -> p2 < 256 ->
  context_id mode p1 p2 = enc_context mode p1 p2.
Proof. exact context_id_matches_encoder. Qed.
Print Assumptions C01_context_id.

(* ---------------------------------------------------------------- the last-distance ring across stored meta-blocks *)
(* encoder (model/DistCache.v; the presence of both roll-backs, of the hand-over in encode_data and of both
   poisonings is regenerated from the source): whatever the match finder did to the working cache, a block that is
   stored by either fallback leaves (dist_cache_, saved_dist_cache_) = (saved, saved) *)
Theorem C01_stored_keeps_ring : forall saved advanced o, o <> EmittedCompressed ->
  caches_after_block saved advanced o = (saved, saved).
Proof. exact stored_block_keeps_caches. Qed.
Print Assumptions C01_stored_keeps_ring.

(* decoder spec: uncompressed and metadata meta-blocks leave the ring untouched *)
Theorem C01_decoder_ring_untouched : forall dict_word transform_tbl large window budget s s' islast mlen r,
  read_mb_header (d_bits s) = Ok ((islast, MbData mlen true), r) ->
  meta_block dict_word transform_tbl large window budget s = Continue s' -> d_ring s' = d_ring s.
Proof. exact decoder_ring_untouched. Qed.
Print Assumptions C01_decoder_ring_untouched.

Theorem C01_decoder_ring_untouched_metadata : forall dict_word transform_tbl large window budget s s' islast r,
  read_mb_header (d_bits s) = Ok ((islast, MbMetadata), r) ->
  meta_block dict_word transform_tbl large window budget s = Continue s' -> d_ring s' = d_ring s.
Proof. exact decoder_ring_untouched_metadata. Qed.
Print Assumptions C01_decoder_ring_untouched_metadata.

(* catable streams: both caches start poisoned (0x7ffffff0, beyond every window, +-3 without overflow), and a
   stored first meta-block keeps them poisoned: no short code can refer to the stream it is appended to *)
Theorem C01_catable_ring_poisoned :
  initial_caches true = (fill poison, fill poison) /\
  (forall advanced o, o <> EmittedCompressed ->
     caches_after_block (snd (initial_caches true)) advanced o = (fill poison, fill poison)) /\
  (2 ^ 30 - 16 + 3 < poison /\ poison + 3 < 2 ^ 31)%Z.
Proof. exact (conj catable_caches_poisoned (conj catable_first_block_stored poison_beyond_every_window)). Qed.
Print Assumptions C01_catable_ring_poisoned.

(* ---------------------------------------------------------------- (e) the composition *)
(* proved part: D o W = id on stored streams.  [store_chunks] is the writer of BrotliStoreUncompressedMetaBlock
   for every chunk followed by BrotliWriteEmptyLastMetaBlock; the header premise is met by the
   encoder's own stream header for every window it can declare (C01_window_bits_read). *)
Theorem C01_stream_roundtrip_stored : forall dict_word transform_tbl hb wbits large chunks budget,
  (forall rest, read_wbits true (hb ++ rest) = Ok ((wbits, large), rest)) ->
  Forall chunk_ok chunks -> N.of_nat (length chunks) + 1 <= budget ->
  exists bs info, store_chunks chunks hb = Some bs /\ Nat.modulo (length bs) 8 = 0%nat /\
    decode_bits dict_word transform_tbl true [] bs budget = Ok (concat chunks, info).
Proof. exact stored_stream_roundtrip. Qed.
Print Assumptions C01_stream_roundtrip_stored.

Theorem C01_window_bits_read : forall (w : Z) (lw : bool), (10 <= w <= 30)%Z -> (lw = false -> (w <= 24)%Z) ->
  forall rest, read_wbits true (N_to_bits (N.to_nat (snd (encode_window_bits w lw))) (fst (encode_window_bits w lw)) ++ rest)
               = Ok ((Z.to_N w, lw), rest).
Proof. exact window_bits_read. Qed.
Print Assumptions C01_window_bits_read.

Example C01_stream_roundtrip_stored_example :
  match store_chunks [[104; 105]; [33]] (N_to_bits 4 11) with
  | Some bs => decode_bits (fun _ _ => []) (fun _ => None) true [] bs 3 = Ok ([104; 105; 33], nset (nset (nset PE 25 22) 2 2) 4 1)
  | None => False
  end.
Proof. vm_compute. reflexivity. Qed.

Section Composition.
  Variable dict_word : N -> N -> list N.
  Variable transform_tbl : N -> option (list N * N * list N).

  (* one call of a script: operation, bytes offered, output capacity *)
  Record call := { k_op : opk; k_in : list N; k_cap : N }.

  (* run a script through the model of the stream glue (model/Stream.v); the recorded answers of the
     back ends sit in the state's oracle.  Result: all calls returned true, final state, bytes emitted. *)
  Fixpoint run_calls (s : st) (cs : list call) (emitted : list N) : outcome (bool * st * list N) :=
    match cs with
    | [] => Done (true, s, emitted)
    | c :: t =>
      match compress_stream s (k_op c) (k_in c) (lenN (k_in c)) (k_cap c) with
      | Done (true, s', x) => if avail_in x =? 0 then run_calls s' t (emitted ++ produced x) else Done (false, s', emitted)
      | Done (false, s', _) => Done (false, s', emitted)
      | Panic w => Panic w | Mismatch w => Mismatch w | OutOfFuel => OutOfFuel
      end
    end.

  (* the bits one back-end invocation contributes: its output bytes and its carry-out, minus the
     bits that were carried in *)
  Definition answer_bits (carry_in_bits : N) (a : answer) : bits :=
    skipn (N.to_nat carry_in_bits)
          (flat_map (fun b => N_to_bits 8 b) (a_out a) ++ N_to_bits (N.to_nat (a_lbb a)) (a_lb a)).

  (* THE HEURISTICS HYPOTHESIS, visible: every back-end invocation emits bits that the decoder spec's
     meta-block loop consumes entirely and decodes to exactly the input slice that invocation was
     given (from the previous flush position to its new one), whatever came before.  The match
     finders, block splitter, clustering, Zopfli cost model and the quality-0/1 fragment compressors
     are NOT proved to satisfy it; ./check C01 validates it on every stream of every run by running
     the extracted D (and two independent decoders) on the implementation's output. *)
  Definition backend_faithful (large : bool) (wbits : N) (input : list N) (prev_lfp : N) (carry_in_bits : N) (a : answer) : Prop :=
    forall (s : dstate) rest,
      rev' (o_rev (d_out s)) = firstn (N.to_nat prev_lfp) input ->
      o_pos (d_out s) = prev_lfp ->
      exists s' j, (j <= length (answer_bits carry_in_bits a))%nat /\
        loop_n (N.of_nat j) (meta_block dict_word transform_tbl large (2 ^ wbits - 16) (8 * lenN (a_out a) + 64))
               {| d_out := d_out s; d_ring := d_ring s; d_info := d_info s; d_bits := answer_bits carry_in_bits a ++ rest |}
          = (if a_is_last a then Stop (StreamDone s') else Continue s') /\
        d_bits s' = rest /\
        rev' (o_rev (d_out s')) = firstn (N.to_nat (a_lfp a)) input.

  Fixpoint all_faithful (large : bool) (wbits : N) (input : list N) (prev_lfp carry : N) (l : list answer) : Prop :=
    match l with
    | [] => True
    | a :: t => backend_faithful large wbits input prev_lfp carry a /\ all_faithful large wbits input (a_lfp a) (a_lbb a) t
    end.

  (* full statement (NOT proved): for every parameter list, every call script that ends with the
     stream finished and every sequence of faithful back-end answers, the model of the glue runs
     without panic, every call returns true, and the decoder spec decodes the emitted bytes to the
     input that was consumed *)
  Definition C01_stream_roundtrip_modulo_heuristics_stmt : Prop :=
    forall (params : list (N * N)) (cs : list call) (answers : list answer) s' emitted,
      let s0 := upd_misc (fold_left (fun s kv => snd (set_parameter s (fst kv) (snd kv))) params init_st) false answers in
      let input := concat (map k_in (filter (fun c => negb (opk_eqb (k_op c) OpMeta)) cs)) in
      let s1 := ensure_initialized s0 in
      all_ok answers ->
      all_faithful (large_window s1) (Z.to_N (Z.max (lgwin s1) (if ((quality s1 =? 0) || (quality s1 =? 1))%Z then 18 else 0)))
                   input 0 (last_bytes_bits s1) answers ->
      run_calls s0 cs [] = Done (true, s', emitted) -> is_finished s' = true ->
      exists info, decode dict_word transform_tbl true [] emitted = Ok (input, info).
End Composition.

(* ---------------------------------------------------------------- (e') the composition: what is proved *)
(* Appended by the composition proof (proofs/Roundtrip_*.v).  The definitions of Section Composition are
   restated there over an abstract call type (proofs/Roundtrip_defs.v: g_run_calls, g_input, g_answer_bits,
   g_backend_faithful, g_all_faithful have the bodies of run_calls, input, answer_bits, backend_faithful,
   all_faithful), so every theorem below is `exact` an instance. *)
From V Require Import proofs.Slicing_proofs proofs.Roundtrip_defs proofs.Roundtrip_witness proofs.Roundtrip_main.

(* The statement as written above is FALSE: all_ok + all_faithful do not say that an answer starts with
   the pending partial byte (W1, here), that the last answer leaves no bits behind (stmt_refuted_tail), or,
   on the quality 0/1 path, that a_lfp counts the bytes the invocation was given (stmt_refuted_fast_positions). *)
Theorem C01_stream_roundtrip_modulo_heuristics_stmt_refuted : forall dict_word transform_tbl,
  ~ C01_stream_roundtrip_modulo_heuristics_stmt dict_word transform_tbl.
Proof. exact (fun d t => stmt_refuted_carry d t call k_op k_in k_cap Build_call (fun _ _ _ => eq_refl) (fun _ _ _ => eq_refl) (fun _ _ _ => eq_refl)). Qed.
Print Assumptions C01_stream_roundtrip_modulo_heuristics_stmt_refuted.

Theorem C01_stream_roundtrip_modulo_heuristics_stmt_refuted_tail : forall dict_word transform_tbl,
  ~ C01_stream_roundtrip_modulo_heuristics_stmt dict_word transform_tbl.
Proof. exact (fun d t => stmt_refuted_tail d t call k_op k_in k_cap Build_call (fun _ _ _ => eq_refl) (fun _ _ _ => eq_refl) (fun _ _ _ => eq_refl)). Qed.
Print Assumptions C01_stream_roundtrip_modulo_heuristics_stmt_refuted_tail.

Theorem C01_stream_roundtrip_modulo_heuristics_stmt_refuted_fast : forall dict_word transform_tbl,
  ~ C01_stream_roundtrip_modulo_heuristics_stmt dict_word transform_tbl.
Proof. exact (fun d t => stmt_refuted_fast_positions d t call k_op k_in k_cap Build_call (fun _ _ _ => eq_refl) (fun _ _ _ => eq_refl) (fun _ _ _ => eq_refl)). Qed.
Print Assumptions C01_stream_roundtrip_modulo_heuristics_stmt_refuted_fast.

(* THE COMPOSITION, main path (quality >= 2, or catable, or magic: fastcond = false), scripts of PROCESS /
   FLUSH / FINISH calls (no metadata calls), any input chunking, any output capacities.
   Premises about the recorded answers, all visible:
     answer_ok3s      boolean, per answer: answer_ok, |a_out| + 3 < 2^32 (= answer_ok2), a_lb < 2^a_lbb,
                      and a_lbb = 0 for the last answer                                   [NEW: the last two]
     kept_ann         boolean, per (pending bits at invocation, answer): the first last_bytes_bits bits the
                      answer wrote are the pending last_bytes                              [NEW]
     faithful_ann     Prop (THE HEURISTICS HYPOTHESIS, in the weaker form faithful_at): the decoder spec's
                      meta-block loop consumes the answer's own bits - up to 7 zero fill bits after the last
                      block - and decodes them to the input slice up to a_lfp, for byte-aligned continuations
     g_ann s0 cs      the consumed answers with the pending bits each was invoked on (executable: the first
                      answer of a call sees last_bytes at call entry, later ones what the previous answer left)
   B is the decoder spec's budget (number of meta-blocks and of commands beyond MLEN): any B >= 8*|emitted|. *)
Theorem C01_stream_roundtrip_main_path : forall dict_word transform_tbl (params : list (N * N)) (cs : list call)
    (answers : list answer) s' emitted B,
  let s0 := upd_misc (fold_left (fun s kv => snd (set_parameter s (fst kv) (snd kv))) params init_st) false answers in
  let s1 := ensure_initialized s0 in
  let input := concat (map k_in (filter (fun c => negb (opk_eqb (k_op c) OpMeta)) cs)) in
  forallb answer_ok3s answers = true ->
  no_meta call k_op cs = true -> fastcond s1 = false -> lenN input < 2 ^ 64 ->
  kept_ann (g_ann call k_op k_in k_cap s0 cs) = true ->
  faithful_ann dict_word transform_tbl B (large_window s1) (stream_wbits s1) input 0 (g_ann call k_op k_in k_cap s0 cs) ->
  run_calls s0 cs [] = Done (true, s', emitted) -> is_finished s' = true ->
  8 * lenN emitted <= B ->
  exists info, decode_bits dict_word transform_tbl true [] (flat_map (fun b => N_to_bits 8 b) emitted) B = Ok (input, info).
Proof. exact (fun d t => roundtrip_main_path d t call k_op k_in k_cap). Qed.
Print Assumptions C01_stream_roundtrip_main_path.

(* ... and for the decoder spec's own entry point, the premise taken at decode's budget *)
Theorem C01_stream_roundtrip_main_path_decode : forall dict_word transform_tbl (params : list (N * N)) (cs : list call)
    (answers : list answer) s' emitted,
  let s0 := upd_misc (fold_left (fun s kv => snd (set_parameter s (fst kv) (snd kv))) params init_st) false answers in
  let s1 := ensure_initialized s0 in
  let input := concat (map k_in (filter (fun c => negb (opk_eqb (k_op c) OpMeta)) cs)) in
  forallb answer_ok3s answers = true ->
  no_meta call k_op cs = true -> fastcond s1 = false -> lenN input < 2 ^ 64 ->
  kept_ann (g_ann call k_op k_in k_cap s0 cs) = true ->
  faithful_ann dict_word transform_tbl (8 * lenN emitted + 8) (large_window s1) (stream_wbits s1) input 0 (g_ann call k_op k_in k_cap s0 cs) ->
  run_calls s0 cs [] = Done (true, s', emitted) -> is_finished s' = true ->
  exists info, decode dict_word transform_tbl true [] emitted = Ok (input, info).
Proof. exact (fun d t => roundtrip_main_path_decode d t call k_op k_in k_cap). Qed.
Print Assumptions C01_stream_roundtrip_main_path_decode.

(* the class without FLUSH and without metadata calls, from the premise of the statement above VERBATIM
   (all_faithful with its chain of carries; backend_faithful as written) plus the boolean premises; the
   decoder budget B must cover the budget backend_faithful assumes (8*|a_out| + 64 per answer) *)
Theorem C01_stream_roundtrip_noflush : forall dict_word transform_tbl (params : list (N * N)) (cs : list call)
    (answers : list answer) s' emitted B,
  let s0 := upd_misc (fold_left (fun s kv => snd (set_parameter s (fst kv) (snd kv))) params init_st) false answers in
  let s1 := ensure_initialized s0 in
  let input := concat (map k_in (filter (fun c => negb (opk_eqb (k_op c) OpMeta)) cs)) in
  forallb answer_ok3s answers = true ->
  no_meta call k_op cs = true -> no_flush call k_op cs = true -> fastcond s1 = false -> lenN input < 2 ^ 64 ->
  kept_chain (last_bytes s1) (last_bytes_bits s1) answers = true ->
  all_faithful dict_word transform_tbl (large_window s1)
               (Z.to_N (Z.max (lgwin s1) (if ((quality s1 =? 0) || (quality s1 =? 1))%Z then 18 else 0)))
               input 0 (last_bytes_bits s1) answers ->
  run_calls s0 cs [] = Done (true, s', emitted) -> is_finished s' = true ->
  8 * lenN emitted <= B -> Forall (fun a => 8 * lenN (a_out a) + 64 <= B) answers ->
  exists info, decode_bits dict_word transform_tbl true [] (flat_map (fun b => N_to_bits 8 b) emitted) B = Ok (input, info).
Proof. exact (fun d t => roundtrip_noflush_verbatim d t call k_op k_in k_cap). Qed.
Print Assumptions C01_stream_roundtrip_noflush.

(* non-vacuity: default parameters, input "hi!", five calls with output capacities 1/100/100/2/100, three
   answers - a flush that emits nothing (the glue pads the pending header bits), a stored block invoked on
   NO pending bits, a stored block + the empty last block; every premise of C01_stream_roundtrip_main_path
   holds and the emitted bytes 6B 00 08 00 08 68 69 00 00 08 21 03 decode to "hi!" *)
From V Require Import proofs.Roundtrip_example.
(* ex_script call Build_call = [FLUSH [] cap 1; PROCESS [] cap 100; FLUSH [104;105] cap 100; FINISH [33] cap 2; FINISH [] cap 100],
   ex_input = [104;105;33], ex_emitted = [107;0;8;0;8;104;105;0;0;8;33;3]  (proofs/Roundtrip_example.v) *)
Example C01_stream_roundtrip_main_path_example : forall dict_word transform_tbl,
  let s0 := state0 [] ex_answers in
  let s1 := ensure_initialized s0 in
  forallb answer_ok3s ex_answers = true /\ no_meta call k_op (ex_script call Build_call) = true /\ fastcond s1 = false
  /\ kept_ann (g_ann call k_op k_in k_cap s0 (ex_script call Build_call)) = true
  /\ large_window s1 = false /\ stream_wbits s1 = 22 /\ g_input call k_op k_in (ex_script call Build_call) = ex_input
  /\ (forall B, faithful_ann dict_word transform_tbl B (large_window s1) (stream_wbits s1) ex_input 0
                             (g_ann call k_op k_in k_cap s0 (ex_script call Build_call)))
  /\ (exists s', g_run_calls call k_op k_in k_cap s0 (ex_script call Build_call) [] = Done (true, s', ex_emitted) /\ is_finished s' = true)
  /\ exists info, decode dict_word transform_tbl true [] ex_emitted = Ok (ex_input, info).
Proof. exact (fun d t => roundtrip_main_path_example d t call k_op k_in k_cap Build_call (fun _ _ _ => eq_refl) (fun _ _ _ => eq_refl) (fun _ _ _ => eq_refl)). Qed.

(* THE COMPOSITION with EMIT_METADATA calls as well (main path): the metadata block header written by
   write_metadata_header (after the pending bits) and the payload are skipped by the decoder spec, for every
   payload size up to 2^24 and every output slicing; metadata payloads must be bytes (meta_bytes_ok).
   Metadata payloads are not part of the input (g_input = input above filters them out). *)
From V Require Import proofs.Roundtrip_mainm.
Theorem C01_stream_roundtrip_main_path_meta : forall dict_word transform_tbl (params : list (N * N)) (cs : list call)
    (answers : list answer) s' emitted B,
  let s0 := upd_misc (fold_left (fun s kv => snd (set_parameter s (fst kv) (snd kv))) params init_st) false answers in
  let s1 := ensure_initialized s0 in
  let input := concat (map k_in (filter (fun c => negb (opk_eqb (k_op c) OpMeta)) cs)) in
  forallb answer_ok3s answers = true ->
  meta_bytes_ok call k_op k_in cs = true -> fastcond s1 = false -> lenN input < 2 ^ 64 ->
  kept_ann (g_ann call k_op k_in k_cap s0 cs) = true ->
  faithful_ann dict_word transform_tbl B (large_window s1) (stream_wbits s1) input 0 (g_ann call k_op k_in k_cap s0 cs) ->
  run_calls s0 cs [] = Done (true, s', emitted) -> is_finished s' = true ->
  8 * lenN emitted <= B ->
  exists info, decode_bits dict_word transform_tbl true [] (flat_map (fun b => N_to_bits 8 b) emitted) B = Ok (input, info).
Proof. exact (fun d t => roundtrip_main_path_meta d t call k_op k_in k_cap). Qed.
Print Assumptions C01_stream_roundtrip_main_path_meta.

Theorem C01_stream_roundtrip_main_path_meta_decode : forall dict_word transform_tbl (params : list (N * N)) (cs : list call)
    (answers : list answer) s' emitted,
  let s0 := upd_misc (fold_left (fun s kv => snd (set_parameter s (fst kv) (snd kv))) params init_st) false answers in
  let s1 := ensure_initialized s0 in
  let input := concat (map k_in (filter (fun c => negb (opk_eqb (k_op c) OpMeta)) cs)) in
  forallb answer_ok3s answers = true ->
  meta_bytes_ok call k_op k_in cs = true -> fastcond s1 = false -> lenN input < 2 ^ 64 ->
  kept_ann (g_ann call k_op k_in k_cap s0 cs) = true ->
  faithful_ann dict_word transform_tbl (8 * lenN emitted + 8) (large_window s1) (stream_wbits s1) input 0 (g_ann call k_op k_in k_cap s0 cs) ->
  run_calls s0 cs [] = Done (true, s', emitted) -> is_finished s' = true ->
  exists info, decode dict_word transform_tbl true [] emitted = Ok (input, info).
Proof. exact (fun d t => roundtrip_main_path_meta_decode d t call k_op k_in k_cap). Qed.
Print Assumptions C01_stream_roundtrip_main_path_meta_decode.

(* non-vacuity with a metadata call: exm_script call Build_call = [EMIT_METADATA [1;2;3] cap 100; FINISH [] cap 100],
   exm_emitted = [107;9;0;1;2;3;3] = metadata header over the 4 pending stream-header bits, payload, empty last block *)
From V Require Import proofs.Roundtrip_examplem.
Example C01_stream_roundtrip_main_path_meta_example : forall dict_word transform_tbl,
  let s0 := exm_s0 in
  let s1 := ensure_initialized s0 in
  forallb answer_ok3s [exm_a] = true /\ meta_bytes_ok call k_op k_in (exm_script call Build_call) = true /\ fastcond s1 = false
  /\ kept_ann (g_ann call k_op k_in k_cap s0 (exm_script call Build_call)) = true
  /\ large_window s1 = false /\ stream_wbits s1 = 22 /\ g_input call k_op k_in (exm_script call Build_call) = []
  /\ (forall B, faithful_ann dict_word transform_tbl B (large_window s1) (stream_wbits s1) [] 0 (g_ann call k_op k_in k_cap s0 (exm_script call Build_call)))
  /\ (exists s', g_run_calls call k_op k_in k_cap s0 (exm_script call Build_call) [] = Done (true, s', exm_emitted) /\ is_finished s' = true)
  /\ exists info, decode dict_word transform_tbl true [] exm_emitted = Ok ([], info).
Proof. exact (fun d t => roundtrip_main_path_meta_example d t call k_op k_in k_cap Build_call (fun _ _ _ => eq_refl) (fun _ _ _ => eq_refl) (fun _ _ _ => eq_refl)). Qed.

(* ---------------------------------------------------------------- (e'') the one-pass/two-pass path (quality 0/1) *)
(* THE COMPOSITION on the path of compress_stream_fast (fastcond = true: quality 0/1, not catable, no magic),
   PROCESS / FLUSH / FINISH / EMIT_METADATA calls, any chunking, any output capacities (in-place and staged
   output).  The encoder's position counters stay 0 on this path and the recorded a_lfp is 0; the slice an
   invocation compressed is determined by a_block (the glue checks a_block = min(2^lgwin, bytes offered) and
   consumes exactly that much), so the semantic premise is stated for the REPOSITIONED answers: `repos 0 l` gives
   each answer the flush position that is the running sum of a_block (g_answer_bits ignores a_lfp).
   Boolean premises: answer_ok3s and kept_ann exactly as on the main path - nothing new (fast_answer_ok3). *)
From V Require Import proofs.Roundtrip_fastrun.
Theorem C01_stream_roundtrip_fast_path : forall dict_word transform_tbl (params : list (N * N)) (cs : list call)
    (answers : list answer) s' emitted B,
  let s0 := upd_misc (fold_left (fun s kv => snd (set_parameter s (fst kv) (snd kv))) params init_st) false answers in
  let s1 := ensure_initialized s0 in
  let input := concat (map k_in (filter (fun c => negb (opk_eqb (k_op c) OpMeta)) cs)) in
  forallb answer_ok3s answers = true ->
  meta_bytes_ok call k_op k_in cs = true -> fastcond s1 = true ->
  kept_ann (g_ann call k_op k_in k_cap s0 cs) = true ->
  faithful_ann dict_word transform_tbl B (large_window s1) (stream_wbits s1) input 0 (repos 0 (g_ann call k_op k_in k_cap s0 cs)) ->
  run_calls s0 cs [] = Done (true, s', emitted) -> is_finished s' = true ->
  8 * lenN emitted <= B ->
  exists info, decode_bits dict_word transform_tbl true [] (flat_map (fun b => N_to_bits 8 b) emitted) B = Ok (input, info).
Proof. exact (fun d t => roundtrip_fast_path d t call k_op k_in k_cap). Qed.
Print Assumptions C01_stream_roundtrip_fast_path.

Theorem C01_stream_roundtrip_fast_path_decode : forall dict_word transform_tbl (params : list (N * N)) (cs : list call)
    (answers : list answer) s' emitted,
  let s0 := upd_misc (fold_left (fun s kv => snd (set_parameter s (fst kv) (snd kv))) params init_st) false answers in
  let s1 := ensure_initialized s0 in
  let input := concat (map k_in (filter (fun c => negb (opk_eqb (k_op c) OpMeta)) cs)) in
  forallb answer_ok3s answers = true ->
  meta_bytes_ok call k_op k_in cs = true -> fastcond s1 = true ->
  kept_ann (g_ann call k_op k_in k_cap s0 cs) = true ->
  faithful_ann dict_word transform_tbl (8 * lenN emitted + 8) (large_window s1) (stream_wbits s1) input 0 (repos 0 (g_ann call k_op k_in k_cap s0 cs)) ->
  run_calls s0 cs [] = Done (true, s', emitted) -> is_finished s' = true ->
  exists info, decode dict_word transform_tbl true [] emitted = Ok (input, info).
Proof. exact (fun d t => roundtrip_fast_path_decode d t call k_op k_in k_cap). Qed.
Print Assumptions C01_stream_roundtrip_fast_path_decode.

(* BOTH PATHS under one statement: every parameter list, every script of PROCESS / FLUSH / FINISH / EMIT_METADATA
   calls; the parameters decide (fastcond s1) whether the answers are taken at their recorded flush positions
   (main path) or at the running sums of their blocks (one-pass/two-pass path). *)
Theorem C01_stream_roundtrip : forall dict_word transform_tbl (params : list (N * N)) (cs : list call)
    (answers : list answer) s' emitted B,
  let s0 := upd_misc (fold_left (fun s kv => snd (set_parameter s (fst kv) (snd kv))) params init_st) false answers in
  let s1 := ensure_initialized s0 in
  let input := concat (map k_in (filter (fun c => negb (opk_eqb (k_op c) OpMeta)) cs)) in
  forallb answer_ok3s answers = true ->
  meta_bytes_ok call k_op k_in cs = true -> lenN input < 2 ^ 64 ->
  kept_ann (g_ann call k_op k_in k_cap s0 cs) = true ->
  faithful_ann dict_word transform_tbl B (large_window s1) (stream_wbits s1) input 0
               (if fastcond s1 then repos 0 (g_ann call k_op k_in k_cap s0 cs) else g_ann call k_op k_in k_cap s0 cs) ->
  run_calls s0 cs [] = Done (true, s', emitted) -> is_finished s' = true ->
  8 * lenN emitted <= B ->
  exists info, decode_bits dict_word transform_tbl true [] (flat_map (fun b => N_to_bits 8 b) emitted) B = Ok (input, info).
Proof. exact (fun d t => roundtrip_all_paths d t call k_op k_in k_cap). Qed.
Print Assumptions C01_stream_roundtrip.

(* non-vacuity on the one-pass/two-pass path: quality 0, input "hi!", fx_script call Build_call =
   [FLUSH [] cap 1; PROCESS [] cap 100; FLUSH [104;105] cap 100; FINISH [33] cap 1000]: a flush without input (padding
   block, no answer), one staged answer, one in-place last answer; recorded a_lfp = 0 for both, as on real traces *)
From V Require Import proofs.Roundtrip_examplef.
Example C01_stream_roundtrip_fast_path_example : forall dict_word transform_tbl,
  let s0 := fx_s0 in
  let s1 := ensure_initialized s0 in
  forallb answer_ok3s fx_answers = true /\ meta_bytes_ok call k_op k_in (fx_script call Build_call) = true /\ fastcond s1 = true
  /\ kept_ann (g_ann call k_op k_in k_cap s0 (fx_script call Build_call)) = true
  /\ large_window s1 = false /\ stream_wbits s1 = 22 /\ g_input call k_op k_in (fx_script call Build_call) = ex_input
  /\ (forall B, faithful_ann dict_word transform_tbl B (large_window s1) (stream_wbits s1) ex_input 0
                             (repos 0 (g_ann call k_op k_in k_cap s0 (fx_script call Build_call))))
  /\ (exists s', g_run_calls call k_op k_in k_cap s0 (fx_script call Build_call) [] = Done (true, s', ex_emitted) /\ is_finished s' = true)
  /\ exists info, decode dict_word transform_tbl true [] ex_emitted = Ok (ex_input, info).
Proof. exact (fun d t => roundtrip_fast_path_example d t call k_op k_in k_cap Build_call (fun _ _ _ => eq_refl) (fun _ _ _ => eq_refl) (fun _ _ _ => eq_refl)). Qed.
